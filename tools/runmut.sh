#!/bin/sh
# usage: tools/runmut.sh <patch.diff> <Cxx> [Cyy ...]
# Applies a patch to a scratch copy of /repo (never to /repo itself), runs the
# quick checks of the given properties against the copy and removes the copy.
# Prints "<prop> DETECTED|missed".
set -u
P=$(realpath "$1"); shift
D=$(mktemp -d /tmp/voimut.XXXXXX)
trap 'rm -rf "$D"' EXIT
mkdir -p "$D/repo" "$D/verif"
(cd /repo && git ls-files -z | xargs -0 cp --parents -t "$D/repo")
(cd "$D/repo" && patch -s -p1 < "$P") || { echo "patch failed: $P"; exit 2; }
cp /verif/known-findings.txt "$D/verif/" 2>/dev/null
export GOFLAGS=-mod=mod GOPROXY=off GOSUMDB=off GOTOOLCHAIN=local GOWORK=off
if [ "${MUT_BUILD:-1}" = 1 ]; then
  (cd "$D/repo" && go build ./... ) >/dev/null 2>"$D/build.err" || { echo "mutant does not compile: $P"; head -5 "$D/build.err"; exit 2; }
fi
for prop in "$@"; do
  out=$(VOI_REPO="$D/repo" VOI_VERIF="$D/verif" /verif/check "$prop" quick 2>&1)
  if echo "$out" | grep -q "^VIOLATION property=$prop"; then
    echo "$prop DETECTED: $(echo "$out" | grep -B1 '^VIOLATION' | grep -v '^VIOLATION' | grep -v '^--' | head -${MUT_LINES:-2} | cut -c1-260)"
  else
    echo "$prop missed"
  fi
done
