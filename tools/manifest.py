#!/usr/bin/env python3
"""Regenerates /verif/MANIFEST.json from the table below and validates it.

A property appears under `checks` only when its rules are implemented and
validated both ways; everything else is listed under `not_applicable` with the
reason (DESIGN.md section 7)."""
import json, sys

ASSUME = ("go/types, go/ssa and the VTA call graph of golang.org/x/tools v0.29.0 are correct; "
          "the specification tables transcribed into the checker are correct; "
          "the structural clause is a necessary condition of the behavioural property, not the behaviour itself")

# id -> (technique, level text, design_ref, level_note extra, engines)
CLAIMED = {
 "C19": ("SSA dataflow: dominating length facts + interprocedural preconditions, explicit-panic classification, checked-then-succeeded error rule",
         "Structural clauses of 'untrusted input never panics / partial state': (ERR-i) no return in the failure branch of an error/length test reports success, (ERR-ii) no pointer/slice/bool result escapes together with an error, (LEN) every constant-bound index/slice/array-conversion on a parameter-derived slice is covered by a dominating length fact along every call chain up to an exported entry of a public package, (PANIC) every explicit panic is proved impossible from exact-length facts at its call sites, is a dispatch-guarded vector stub, is init-time, or is in the frozen documented-panic table. All build configurations. Termination, nil dereferences and relationally bounded accesses are listed as undecided in the evidence and not claimed.",
         "DESIGN.md §3 E-LEN, §4 C19", "the documented-panic table (props/c19.go) was confirmed by reading the doc comments", ["elen"]),
 "C08": ("interprocedural context-sensitive taint analysis over SSA (field- and window-sensitive access paths) + Go-assembly lint",
         "Decides the source-level statement of C08 for the analysed build configurations: from ~110 constant-time entry points (table derived from the property statement) no secret-derived value is used as a branch condition, loop bound, memory/table index, slice bound, allocation size, division operand, shift count or aggregate comparison, is passed to a function outside a closed allow-list of modelled constant-time callees, or reaches a *Vartime routine; every assembly routine has no data-dependent jump, no indexed memory operand and no variable-latency instruction. All paths, all inputs, every reachable function, 3 (quick) / 6 (thorough) configurations. Positive controls for every sink kind fire on each run.",
         "DESIGN.md §3 E-CT, E-ASM, §4 C08", "source, declassifier and external-model tables are in props/c08.go and ect/external.go; micro-architectural timing and compiler-introduced branches are out of scope", ["ect", "easm"]),
 "C18": ("may-write summaries over SSA and the VTA call graph, dominance-based lock discipline, zero-instance concurrency rules with positive controls",
         "Decides the structural clauses that make concurrent use race-free: (GLOBAL-store) no function other than package initialisation stores to memory rooted at a package-level variable, directly or through a callee that writes its argument (assembly writes from the assembly scanner); (SHARED-readonly) no function writes through a parameter of a shared precomputed type (base-point tables, expanded points/keys, lookup tables) except the type's two initialisers; (NO-concurrency) no goroutine, channel, sync/atomic or unsafe cast outside one allow-listed function; (LOCK-access/atomic/double) for every struct containing a sync.Mutex (found by type) each field access is dominated by Lock on the same object or happens in a helper all of whose callers hold it, every externally callable method locks first and unlocks by defer (operations are atomic, so linearisability reduces to sequential correctness), no double lock. Sequential correctness of the LRU policy is not decided.",
         "DESIGN.md §3 E-MOD, §4 C18", "external callees outside a read-only allow-list are assumed to write all pointer arguments; callers mutating exported variables and user Cache implementations are outside the claim", ["emod", "easm"]),
 "C20": ("evaluation of literal data in the typed syntax tree (and assembly DATA blocks) against an independent math/big oracle; AST provenance rules for start-up tables",
         "Exhaustive over the finite set of embedded constants: every literal field element, scalar, point, compressed encoding, packed table entry (256 + 64 + 64), Keccak round constant, bias vector and assembly RODATA block is read from the typed syntax tree of every configuration (constant folding through go/types, limb vectors converted with the radix of that back end, limbs required to be in reduced range) and compared with its defining formula evaluated by an oracle written with math/big that is itself checked against the values printed in RFC 8032/9496/7748/FIPS 202; 64-bit and 32-bit encodings of one name are cross-checked; a package-level arithmetic variable or function-body literal without a definition fails the run; start-up tables are checked for provenance (built from the named source constant by the expected constructor, index 8i+j, byte ranges of the packed entries). Each literal is also perturbed in memory on every run and the check must reject the perturbation.",
         "DESIGN.md §3 E-CONST, §4 C20", "the values of tables computed at start-up by library code are not decided, only their provenance", ["econst", "easm"]),
 "C01": ("finite predicate abstraction: path enumeration over SSA with uninterpreted terms, three-valued comparison with the specification predicate",
         "Decides the accept/reject decision of Ed25519 verification as a Boolean function of the admission predicates (length, S<L test, decoding, small-order and canonicity tests of A and R) and the five option flags, for all flag combinations, all variants (pure/ctx/ph) and all predicate outcomes: every path of verifyWithOptionsNoPanic (helpers inlined, ~900 feasible paths) must yield exactly the class (option error / reject / cofactored equation / cofactorless comparison) the specification formula gives for the conditions the path tested, evaluated in Kleene logic so that a dropped or weakened test is found on the paths that no longer consult it. On accepting paths the returned term must be the specified equation with the specified operand roles (k from the 64-byte digest, -A, S from sig[32:], R from sig[0:32]) and the challenge hash must absorb exactly dom2(variant, context), R bytes, A bytes, message. The four presets are checked as literals. The predicates themselves (group arithmetic, SHA-512) are uninterpreted and not decided.",
         "DESIGN.md §3 E-DT, E-SEQ, §4 C01", "specification formulas and role vocabulary are in props/c01.go; atoms are uninterpreted (their mathematical meaning is C03/C05/C10)", ["edt", "emod"]),
 "C03": ("sibling cross-checking over typed AST/SSA: dispatch dominance, scalar-multiplication skeleton normal forms, operation-DAG duality, masked-scan shape, clone equality",
         "Decides structural necessary conditions of 'every scalar-multiplication routine gives the true group result, independent of algorithm/table/representation': every call edge into the vector-only back end is dominated by the supportsVectorizedEdwards test (pairs of vector/generic twins are discovered from the dispatch switches); the two twins of each of the 15 pairs have equal normalised skeletons (recoding and width, loop bounds, doublings between digit uses, guard/operation/lookup polarity per digit, table type); Horner-shape rules per algorithm (radix-16: 4 doublings, all 64 digits; NAF: 1 doubling, positions 255..0; Pippenger: w doublings per column, 2^(w-1) buckets); a width-w NAF only indexes tables with at least 2^(w-2) entries; lookup-table constructors start at P and step by P / 2P for the right count; each Sub* mixed-addition formula is the Add* twin under the y+x/y-x, Z/T substitution; every constant-time Lookup scans all entries with selector j for entry j-1; the four Pornin prologues and the 512/384-bit lattice passes are clones. The serial twins are never executed by the test-suite on an AVX2 machine. The group law itself (formulas, assembly, tables computing point addition) is not decided.",
         "DESIGN.md §3 E-SIB, §4 C03", "the tested twin is the oracle for the untested one; the numeric group law is not decided", ["esib"]),
 "C09": ("finite predicate abstraction with uninterpreted terms (sibling comparison against the single-verification specification), symbolic single-iteration loop summaries",
         "Decides that the siblings of single verification are the same Boolean function of the same conditions: verifyExpandedWithOptionsNoPanic (~900 paths) and the batch verifier's per-entry admission entry.doInit (~1900 paths, both key forms) are compared path by path, in Kleene logic, with the SAME specification formulas as C01 instantiated for the cached key predicates, and must use the specified equation / stored fields (hram from the same hash sequence, -A, R, S, expandedA, wantCofactorless, signature); NewExpandedPublicKey must cache exactly the DT-1 predicates of the same bytes; checkExpandedPublicKey is DT-1 over the cached fields; every Add* appends the entry and ORs anyInvalid / anyCofactorless / anyNotExpanded from that entry on every path and Reset clears them; VerifyBatchOnly aborts exactly on empty / anyInvalid / anyCofactorless; the serial fallback of Verify (one symbolic iteration) skips exactly the entries that cannot be valid, selects the equation by (expanded?, cofactorless?) with the same operand roles, and folds the conjunction starting from not anyInvalid; the caching verifier looks up, expands and stores under the same 32 bytes and delegates unchanged. The multiscalar batch equation and LRU eviction order are not decided.",
         "DESIGN.md §3 E-DT, §4 C09", "specifications in props/c09*.go share the formulas of props/c01.go; loop summaries describe one iteration for an arbitrary count", ["edt", "emod"]),
 "C02": ("finite predicate abstraction with uninterpreted terms; extensional (256-value) evaluation of constant bit-mask code; error-discipline dominance rule",
         "Decides the structure of RFC 8032 signing and key derivation for all paths (all option combinations and variants): PrivateKey.Sign returns an error exactly under the specified conditions (invalid options, context over 255 bytes, bad pre-hash length or hash id, key length other than 64, entropy read failure, self-verification failure) and never a signature together with an error; on every success path the result is compress([r]B) followed by enc(k*a + r) where r and k are the wide reductions of SHA-512 over exactly dom2(variant) | digest[32:64] | M and dom2 | R | priv[32:64] | M, a = SetBits(clamp(digest[0:32])), the clamp being compared as a function on all 256 byte values with b&248 and (b&127)|64; with AddedRandomness the nonce hash must absorb the bytes read from the entropy source in addition to prefix and message (layout not frozen); newKeyFromSeed panics exactly on a wrong seed length and writes seed | compress([a]B). Byte-exact outputs and unforgeability are not decided.",
         "DESIGN.md §3 E-DT/E-SEQ, §4 C02", "infallible-operation assumptions are listed with reasons in props/c02.go", ["edt", "emod", "elen"]),
 "C04": ("forward abstract interpretation of SSA with big-integer intervals of the mathematical value (128-bit accumulators as relational wide pairs); element-level bound propagation through callers",
         "Decides the clause 'no intermediate quantity silently wraps a machine word' for the portable 64-bit and the 32-bit field back ends: stage A analyses every limb-level primitive of internal/field under the documented limb headroom (64-bit: limbs < 2^54; 32-bit: the exact bound under which 19*y fits 32 bits) and discharges an obligation for every +, *, <<, conversion, discarded carry / high word, (a+bias)-b subtraction and declared post-condition (wrapping idioms that are exact modulo 2^w are modelled, not flagged), and checks that the pre/post-conditions are closed under one further Add/Sub/Neg; stage B (thorough) propagates element-level bounds through all callers in internal/field/field.go, curve and internal/elligator and checks every primitive's pre-condition at every call. Positive controls at raised headroom must fail on every run. Functional exactness (which product term goes to which limb, canonicalisation) and the amd64/AVX2 assembly are not decided.",
         "DESIGN.md §3 E-RANGE, §4 C04", "three callees are summarised (internal/subtle select/swap, encoding/binary accessors, fmt.Errorf); the assembly back ends are out of scope", ["erange"]),
 "C05": ("exhaustive finite abstraction of the fast canonicity test (256 byte values x word orderings against L), decision tables, literal constants vs oracle",
         "Decides completely that ScMinimalVartime accepts exactly the 32-byte strings whose little-endian value is below L: its paths are extracted with the loop unrolled and every consistent abstract input (the value of byte 31 x the three-way ordering of each 64-bit word against L's word, word 3 constrained by byte 31 through the numeric value of L; ~6900 inputs per configuration) is evaluated on the code's own conditions and compared with lexicographic <; any other length must give false; SetCanonicalBytes accepts exactly len = 32, bit 255 clear, IsCanonical; L, R, RR, LFACTOR in both radices, BASEPOINT_ORDER and the provenance of the comparison words are checked against the math/big oracle. Correctness of Montgomery multiplication/reduction mod L is not decided.",
         "DESIGN.md §4 C05 (DT-S), §3 E-CONST", "the 32-bit scalar back end's overflow freedom is out of reach of intervals (Karatsuba wraps on purpose)", ["edt", "econst"]),
 "C10": ("decision tables over uninterpreted terms, receiver-state rules on failing paths, error-discipline dominance rule, literal constants vs oracle",
         "Decides the decision and term structure of the Edwards decoders and predicates: IsCanonicalVartime as a complete Boolean function of its byte tests against 'y < p and not an x=0 encoding with the sign bit set' (31-iteration scan fully unrolled, the two literal encodings checked by value); SetCompressedY fails exactly when the square-root flag is not 1, otherwise X = sqrt((y^2-1)/(d y^2+1)) conditionally negated by bit 255, Y, Z = 1, T = X*Y, and writes nothing to the receiver on failure; UnmarshalBinary (point and compressed point) errs exactly on a wrong length or a failed decode, resets the receiver to the identity before decoding and leaves exactly the identity after a failure; IsSmallOrder = IsIdentity(MulByCofactor), IsTorsionFree = IsIdentity(Mul by the group order), Equal is the conjunction of the two cross-products, MarshalBinary = compress; no failed check is followed by a success return in package curve. That SqrtRatioI and the field arithmetic compute the mathematical function is not decided.",
         "DESIGN.md §4 C10", "term structure is compared with the RFC 8032 decoding recipe transcribed in props/c10.go", ["edt", "elen", "econst"]),
 "C12": ("decision tables and operation sequences over uninterpreted Merlin/Ristretto terms; error-discipline dominance rule",
         "Decides the structure of sr25519 against the schnorrkel definition on all paths: signing builds proto-name \"Schnorr-sig\", sign:pk(pk), a witness from the transcript RNG re-keyed under \"signing\" with the nonce seed and finalised with the caller's rng, R = compress([r]B), sign:R(R), challenge sign:c over 64 bytes reduced wide, s = c*key + r, and errs exactly when the RNG construction or the witness draw fails; deriveVerifyChallengeScalar is the same challenge term over the signature's R; verification rejects exactly on a missing key, missing scalar or undecodable R and otherwise tests IsIdentity([c](-A) + [s]B - R) with those roles; signing contexts and byte/hash transcripts commit exactly the stated labels and the digest actually produced (a digest written into a too-small fixed buffer is modelled); Signature, SecretKey and KeyPair decoders accept exactly marker bit set, S minimal and canonical with bit 255 cleared, canonical key scalar, matching key pair and the stated lengths, leaving the stated state on success and on failure; marshalling sets the marker bit on every path; the batch verifier's entry admission equals single verification's, every path of doInit writes canBeValid (slots are reused), Add appends a freshly initialised entry and ORs anyInvalid, VerifyBatchOnly aborts exactly on an empty batch or anyInvalid. The delinearised batch equation and the underlying arithmetic are not decided.",
         "DESIGN.md §4 C12", "Merlin operations are assumed not to modify their label/data arguments (merlinWrites table with reason; framing of the operations is C13)", ["edt", "elen"]),
 "C11": ("decision tables over uninterpreted field-operation terms, receiver-state rules, literal constants vs oracle",
         "Decides the decision structure of Ristretto255 decoding against RFC 9496 section 4.3.1 on all paths and in three configurations: SetCompressed accepts exactly when the input equals the re-encoding of the same bytes (canonical), s is non-negative, the inverse square root reports a square, t is non-negative and y is non-zero, and writes nothing to the receiver on rejection; CompressedRistretto.SetBytes / CompressedEdwardsY.SetBytes accept exactly 32 bytes; Equal is the OR of the two cross-product equalities; SetUniformBytes takes exactly 64 bytes and adds the Elligator images of the halves [0:32] and [32:64]; UnmarshalBinary of the four point types errs on a wrong length and leaves the identity (ERR-iii); the RFC 9496 constants d, 1-d^2, (d-1)^2, sqrt(ad-1), 1/sqrt(a-d), sqrt(-1) and the base point encodings are checked by value in both radices. Numeric correctness of InvSqrt, coset invariance of the encoding and the Elligator map are not decided.",
         "DESIGN.md §4 C11", "atoms of SetCompressed are matched by the leading structure of their operation terms", ["edt", "econst", "elen"]),
}

PENDING_REASON = "check under construction (DESIGN.md section 7 build order); not claimed yet"
NOT_APPLICABLE = {}

def main():
    props = [json.loads(l) for l in open('/verif/properties.jsonl')]
    checks = []
    na = []
    for p in props:
        pid = p["id"]
        if pid in CLAIMED:
            tech, text, ref, note, engines = CLAIMED[pid]
            checks.append({
                "property_id": pid,
                "quick_cmd": f"./check {pid} quick",
                "thorough_cmd": f"./check {pid} thorough",
                "evidence_file": f"/verif/evidence/{pid}.json",
                "replay_cmd_template": "/verif/bin/voicheck explain {path}",
                "engine": "+".join(engines),
                "level_claimed": {"category": "other", "text": text, "design_ref": ref},
                "level_note": ASSUME + "; " + note,
                "technique": "static analysis: " + tech,
            })
        else:
            na.append({"property_id": pid, "reason": NOT_APPLICABLE.get(pid, PENDING_REASON)})
    m = {
        "version": 1,
        "setup_cmd": "cd /verif/checker && GOFLAGS=-mod=mod GOPROXY=off GOSUMDB=off GOTOOLCHAIN=local GOWORK=off go build -o /verif/bin/voicheck ./cmd/voicheck",
        "hooks": {
            "guard": "verif",
            "enable": "no hooks are needed: the checker analyses /repo's source as it is; build configurations are selected by the loader through GOARCH and -tags",
            "baseline_off_cmd": "cd /repo && go test -vet=off -count=1 -timeout 25m ./...",
            "source_commits": [],
            "add_only": True,
        },
        "engines": [
            {"name": "voicheck", "path": "/verif/checker", "serves_properties": sorted(CLAIMED),
             "kind_free_text": "repository-specific static analyser (go/packages + go/types + go/ssa + VTA call graph + Go-assembly scanner), one binary, six build configurations"},
        ],
        "checks": checks,
        "notes": "Static analysis only (DESIGN.md). Every check reloads /repo's working tree in 3 (quick) or 6 (thorough) build configurations; nothing is cached between runs. fix: commits in /repo are recorded in known-findings.txt.",
        "not_applicable": na,
    }
    json.dump(m, open('/verif/MANIFEST.json', 'w'), indent=1)
    try:
        import jsonschema
        jsonschema.validate(m, json.load(open('/root/.vp/MANIFEST.schema.json')))
        print("MANIFEST.json valid;", len(checks), "checks,", len(na), "not claimed")
    except ImportError:
        print("MANIFEST.json written (jsonschema not available for validation)")

if __name__ == "__main__":
    main()
