#!/bin/sh
# usage: tools/mkmut.sh <id> <file> <python-expr-on-s>   (helper to author a mutant patch from a python string edit)
# Example: tools/mkmut.sh M19a primitives/ed25519/ed25519.go 's.replace("a","b",1)'
set -e
ID=$1; F=$2; EXPR=$3
D=$(mktemp -d /tmp/voimk.XXXXXX)
trap 'rm -rf "$D"' EXIT
mkdir -p "$D/a/$(dirname $F)" "$D/b/$(dirname $F)"
cp "/repo/$F" "$D/a/$F"
python3 - "$D/a/$F" "$D/b/$F" "$EXPR" <<'PY'
import sys
s=open(sys.argv[1]).read()
t=eval(sys.argv[3])
assert t!=s, "edit did not change the file"
open(sys.argv[2],'w').write(t)
PY
(cd "$D" && diff -u "a/$F" "b/$F" > "/verif/mutants/$ID.diff" || true)
echo "wrote /verif/mutants/$ID.diff ($(grep -c '^[-+][^-+]' /verif/mutants/$ID.diff) changed lines)"
