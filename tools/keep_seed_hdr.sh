#!/bin/bash
# usage: tools/keep_seed_hdr.sh <prop> <k> '<detected-by json>'   (README must carry the DEMO_DEST/DEMO_CMD/NEEDS/SUMMARY header)
P=$1; K=$2; DET=$3
R=/tmp/seedout/$P/$K/README.md
g() { grep -m1 "^$1:" $R | sed "s/^$1: *//; s/\`//g"; }
tools/keep_seed.py "$P" "$K" "$(g DEMO_DEST)" "$(g DEMO_CMD)" "$(g NEEDS)" "$DET" "$(g SUMMARY)"
