#!/usr/bin/env python3
"""usage: keep_seed.py <prop> <k> <demo dest dir> <demo cmd> <needs> <detected-by json> [summary]
Copies /tmp/seedout/<prop>/<k>/{patch.diff,demo,README.md} to /verif/seeded/<prop>-<k>/ and writes meta.json."""
import json, os, shutil, sys
prop, k, dest, cmd, needs, det = sys.argv[1:7]
summary = sys.argv[7] if len(sys.argv) > 7 else ""
src = f"/tmp/seedout/{prop}/{k}"
dst = f"/verif/seeded/{prop}-{k}"
os.makedirs(dst, exist_ok=True)
shutil.copy(f"{src}/patch.diff", f"{dst}/patch.diff")
if os.path.isdir(f"{dst}/demo"): shutil.rmtree(f"{dst}/demo")
shutil.copytree(f"{src}/demo", f"{dst}/demo")
if os.path.exists(f"{src}/README.md"): shutil.copy(f"{src}/README.md", f"{dst}/README.md")
meta = {
  "property": prop, "seed": int(k), "summary": summary,
  "origin": "fresh sub-agent given only the property text and a scratch worktree of /repo (nothing from /verif)",
  "needs_to_manifest": needs,
  "demo": {"copy_demo_files_to": dest, "command": cmd},
  "confirmed_by": "tools/confirm_seed.sh in a scratch worktree of /repo HEAD: patch applies; builds (default, purego, force32bit); existing test-suite passes with the patch; demo fails with the patch and passes without it",
  "checks": json.loads(det),
}
json.dump(meta, open(f"{dst}/meta.json", "w"), indent=1)
print("kept", dst)
