#!/bin/sh
# builds /verif/bin/voicheck from a copy of the checker sources without the (in-progress) elin engine
set -e
D=$(mktemp -d /tmp/chk.XXXXXX); trap 'rm -rf "$D"' EXIT
rsync -a --exclude elin --exclude 'props/elin_glue.go' /verif/checker/ "$D/"
cd "$D" && GOFLAGS=-mod=mod GOPROXY=off GOSUMDB=off GOTOOLCHAIN=local GOWORK=off go build -o /verif/bin/voicheck ./cmd/voicheck
