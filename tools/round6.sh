#!/bin/bash
# usage: tools/round6.sh <prop> : confirm /tmp/seedout6/<prop>/1, run ALL quick checks against it, keep as seeded/<prop>-<next free index>
P=$1
ALL="C01 C02 C03 C04 C05 C06 C07 C08 C09 C10 C11 C12 C13 C14 C15 C16 C17 C18 C19 C20"
for k in 1; do
  S=/tmp/seedout6/$P/$k; R=$S/README.md
  [ -f "$R" ] || { echo "$P/$k: no README"; continue; }
  g() { grep -m1 "^$1:" $R | sed "s/^$1: *//; s/\`//g"; }
  dest=$(g DEMO_DEST); cmd=$(g DEMO_CMD)
  conf=$(tools/confirm_seed.sh $S "$dest" "$cmd" | tail -1)
  echo "== $P/$k  $conf  :: $(g SUMMARY | cut -c1-160)"
  [ "$conf" = "  CONFIRMED" ] || [ "$conf" = "CONFIRMED" ] || { echo "   NOT CONFIRMED: $(tools/confirm_seed.sh $S "$dest" "$cmd" | tail -4 | tr '\n' ' ')"; continue; }
  out=$(VOI_BIN=${VOI_BIN:-/verif/bin/voicheck-frozen} MUT_BUILD=0 MUT_LINES=1 tools/runmut.sh $S/patch.diff $ALL)
  echo "$out" | grep DETECTED | cut -c1-260
  own=$(echo "$out" | grep "^$P " | head -1)
  det=$(echo "$out" | python3 -c '
import sys, json, re
d = {}
own = sys.argv[1]
for line in sys.stdin:
    m = re.match(r"^(C\d\d) (DETECTED|missed)(.*)", line)
    if m and (m.group(2) == "DETECTED" or m.group(1) == own):
        d[m.group(1)] = (m.group(2) + (" (" + m.group(3).strip(": ").strip()[:240] + ")" if m.group(2) == "DETECTED" else " when seeded (round 6)"))
print(json.dumps(d))' $P)
  K=$(( $(ls -d seeded/$P-* | sed "s/.*-//" | sort -n | tail -1) + 1 ))
  mkdir -p /tmp/seedout/$P/$K; rm -rf /tmp/seedout/$P/$K/*; cp -r $S/* /tmp/seedout/$P/$K/
  tools/keep_seed.py "$P" "$K" "$dest" "$cmd" "$(g NEEDS)" "$det" "$(g SUMMARY)" >/dev/null
  echo "   own check: $(echo $own | cut -c1-20)"
done
