#!/bin/bash
# usage: tools/confirm_seed.sh <seed dir containing patch.diff and demo/> <demo dest dir relative to repo> <demo command (run at repo root)>
# Confirms in a scratch worktree of /repo (HEAD) that the seeded change
#  (1) applies, (2) builds in default/purego/force32bit, (3) keeps the existing test-suite green,
#  (4) makes the demonstration fail, and that (5) the demonstration passes without the change.
set -u
SD=$(realpath "$1"); DEST=$2; shift 2; CMD="$*"
export GOFLAGS=-mod=mod GOPROXY=off GOSUMDB=off GOTOOLCHAIN=local
W=$(mktemp -d /tmp/voiseed.XXXXXX); rmdir "$W"
git -C /repo worktree add -q --detach "$W" HEAD || exit 2
cleanup() { git -C /repo worktree remove --force "$W" >/dev/null 2>&1; rm -rf "$W"; }
trap cleanup EXIT
cd "$W"
ok=1
mkdir -p "$W/$DEST"; cp -r "$SD"/demo/* "$W/$DEST/" 2>/dev/null
if bash -c "$CMD" >"$W/.demo0.log" 2>&1; then echo "  demo WITHOUT patch: passes"; else echo "  demo WITHOUT patch: FAILS (bad seed)"; tail -5 "$W/.demo0.log"; ok=0; fi
git apply "$SD/patch.diff" || { echo "  patch does not apply"; exit 2; }
for tags in "" "purego" "force32bit"; do
  go build -tags "$tags" ./... >"$W/.b.log" 2>&1 || { echo "  build -tags '$tags' FAILS"; head -3 "$W/.b.log"; ok=0; }
done
# the suite must pass WITHOUT the demo file
case "$DEST" in *zz_demo*) mv "$W/$DEST" "$W/.demo_pkg_off";; *) find "$W/$DEST" -name 'zz_demo*' -exec mv {} {}.off \; ;; esac
if go test -count=1 ./... >"$W/.t.log" 2>&1; then echo "  existing test-suite with patch: passes"; else echo "  existing test-suite with patch: FAILS (bad seed)"; grep -v "^ok" "$W/.t.log" | head -5; ok=0; fi
case "$DEST" in *zz_demo*) mv "$W/.demo_pkg_off" "$W/$DEST";; *) find "$W/$DEST" -name 'zz_demo*.off' | while read f; do mv "$f" "${f%.off}"; done;; esac
if bash -c "$CMD" >"$W/.demo1.log" 2>&1; then echo "  demo WITH patch: passes (bad seed: nothing demonstrated)"; ok=0; else echo "  demo WITH patch: fails (as required)"; fi
[ $ok = 1 ] && echo "  CONFIRMED" || echo "  NOT CONFIRMED"
