#!/bin/bash
# usage: tools/seedbatch.sh <prop> <check ids...>   : confirm /tmp/seedout/<prop>/{1,2,3} from their README headers and run the given checks
P=$1; shift
for k in 1 2 3; do
  R=/tmp/seedout/$P/$k/README.md
  [ -f "$R" ] || continue
  dest=$(grep -m1 '^DEMO_DEST:' $R | sed 's/^DEMO_DEST: *//; s/`//g')
  cmd=$(grep -m1 '^DEMO_CMD:' $R | sed 's/^DEMO_CMD: *//; s/`//g')
  echo "== $P/$k  dest=$dest cmd=$cmd"
  tools/confirm_seed.sh /tmp/seedout/$P/$k "$dest" "$cmd" | tail -2
  MUT_BUILD=0 MUT_LINES=1 tools/runmut.sh /tmp/seedout/$P/$k/patch.diff "$@" | cut -c1-330
done
