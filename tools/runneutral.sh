#!/bin/bash
# usage: tools/runneutral.sh <dir-with-*.diff> [jobs] [result-dir]   : every check against every neutral patch; prints the number of patches with a false alarm
DIR=$1; J=${2:-5}; RES=${3:-/tmp/neutralres}
ALL="C01 C02 C03 C04 C05 C06 C07 C08 C09 C10 C11 C12 C13 C14 C15 C16 C17 C18 C19 C20"
mkdir -p $RES
ls $DIR/*.diff | xargs -P $J -I{} sh -c 'n=$(basename {} .diff); VOI_BIN=${VOI_BIN:-/verif/bin/voicheck-frozen} VOI_MEM_KB=14000000 MUT_BUILD=0 MUT_LINES=2 /verif/tools/runmut.sh {} '"$ALL"' > '"$RES"'/$n.txt 2>&1'
grep -l DETECTED $RES/*.txt | wc -l
