#!/bin/sh
# like mkmut.sh but writes a behaviour-preserving edit to /verif/neutral/<id>.diff
set -e
ID=$1; F=$2; EXPR=$3
D=$(mktemp -d /tmp/voimk.XXXXXX)
trap 'rm -rf "$D"' EXIT
mkdir -p "$D/a/$(dirname $F)" "$D/b/$(dirname $F)"
cp "/repo/$F" "$D/a/$F"
python3 - "$D/a/$F" "$D/b/$F" "$EXPR" <<'PY'
import sys
s=open(sys.argv[1]).read()
t=eval(sys.argv[3])
assert t!=s, "edit did not change the file"
open(sys.argv[2],'w').write(t)
PY
(cd "$D" && diff -u "a/$F" "b/$F" > "/verif/neutral/$ID.diff" || true)
echo "wrote /verif/neutral/$ID.diff"
