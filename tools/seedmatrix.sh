#!/bin/bash
# usage: tools/seedmatrix.sh [jobs] : every check against every kept seeded change; writes seeded/MATRIX.md
J=${1:-5}
ALL="C01 C02 C03 C04 C05 C06 C07 C08 C09 C10 C11 C12 C13 C14 C15 C16 C17 C18 C19 C20"
rm -rf /tmp/seedmatrix; mkdir -p /tmp/seedmatrix
ls -d /verif/seeded/C*/ | xargs -P $J -I{} sh -c 'n=$(basename {}); VOI_BIN=${VOI_BIN:-/verif/bin/voicheck-frozen} VOI_MEM_KB=14000000 MUT_BUILD=0 MUT_LINES=1 /verif/tools/runmut.sh {}patch.diff '"$ALL"' > /tmp/seedmatrix/$n.txt 2>&1'
python3 /verif/tools/seedmatrix.py
