#!/bin/bash
# usage: tools/seedmatrix.sh [jobs] : every check against every kept seeded change; writes seeded/MATRIX.md
J=${1:-5}
ALL="C01 C02 C03 C04 C05 C06 C07 C08 C09 C10 C11 C12 C13 C14 C15 C16 C17 C18 C19 C20"
rm -rf /tmp/seedmatrix; mkdir -p /tmp/seedmatrix
# MATRIX_OWN=1: run only the check of the property each change was seeded for (the "also reported by" column is then taken from the recorded verdicts in meta.json)
if [ "${MATRIX_OWN:-0}" = 1 ]; then
ls -d /verif/seeded/C*/ | xargs -P $J -I{} sh -c 'n=$(basename {}); p=${n%-*}; VOI_BIN=${VOI_BIN:-/verif/bin/voicheck-frozen} VOI_MEM_KB=14000000 MUT_BUILD=0 MUT_LINES=1 /verif/tools/runmut.sh {}patch.diff $p > /tmp/seedmatrix/$n.txt 2>&1'
else
ls -d /verif/seeded/C*/ | xargs -P $J -I{} sh -c 'n=$(basename {}); VOI_BIN=${VOI_BIN:-/verif/bin/voicheck-frozen} VOI_MEM_KB=14000000 MUT_BUILD=0 MUT_LINES=1 /verif/tools/runmut.sh {}patch.diff '"$ALL"' > /tmp/seedmatrix/$n.txt 2>&1'
fi
python3 /verif/tools/seedmatrix.py
