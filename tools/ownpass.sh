#!/bin/bash
# usage: tools/ownpass.sh <seedout dir> <result dir> [jobs] : own-property quick check for every delivered seed not yet evaluated
SRC=$1; RES=$2; J=${3:-4}
mkdir -p $RES
ls -d $SRC/C*/[123] 2>/dev/null | while read d; do p=$(basename $(dirname $d)); k=$(basename $d); [ -f $d/patch.diff ] && [ -f $d/README.md ] && [ ! -f $RES/$p-$k.txt ] && echo $d; done | xargs -r -P $J -I{} sh -c 'd={}; p=$(basename $(dirname $d)); k=$(basename $d); VOI_BIN=${VOI_BIN:-/verif/bin/voicheck-frozen3} VOI_MEM_KB=14000000 MUT_BUILD=0 MUT_LINES=1 /verif/tools/runmut.sh $d/patch.diff $p > '$RES'/$p-$k.txt 2>&1'
grep -L DETECTED $RES/*.txt 2>/dev/null
