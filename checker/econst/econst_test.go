package econst

import (
	"math/big"
	"testing"
)

// The oracle agrees with every value printed by the specifications.
func TestSelfCheck(t *testing.T) {
	if err := SelfCheck(); err != nil {
		t.Fatal(err)
	}
}

// The table is well formed (no duplicate names; every name splits).
func TestDefinitions(t *testing.T) {
	for _, d := range definitions() {
		if _, _, ok := splitQualified(d.name); !ok {
			t.Errorf("malformed name %q", d.name)
		}
	}
	if rel, name, _ := splitQualified("internal/field.(*Element).One"); rel != "internal/field" || name != "(*Element).One" {
		t.Errorf("splitQualified: %q %q", rel, name)
	}
}

// Limb splitting round-trips in all four radices.
func TestCanon(t *testing.T) {
	v := new(big.Int).Sub(fieldP, big.NewInt(12345))
	for _, w := range [][]uint{{51, 51, 51, 51, 51}, {26, 25, 26, 25, 26, 25, 26, 25, 26, 25}, {52, 52, 52, 52, 52}, {29, 29, 29, 29, 29, 29, 29, 29, 29}} {
		lm := &Limbs{Widths: w}
		lm.V = lm.Canon(v)
		if lm.Value().Cmp(v) != 0 {
			t.Errorf("radix %v does not round-trip", w)
		}
		if _, ok := lm.Tight(); !ok {
			t.Errorf("radix %v: canonical limbs not tight", w)
		}
	}
}

// The expected tables satisfy their defining relations independently of how
// they were built (scalar multiplication instead of repeated addition).
func TestTables(t *testing.T) {
	buildTables()
	b := Basepoint()
	for _, ij := range [][2]int{{0, 0}, {0, 7}, {1, 0}, {17, 3}, {31, 7}} {
		k := new(big.Int).Mul(big.NewInt(int64(ij[1]+1)), new(big.Int).Exp(big.NewInt(256), big.NewInt(int64(ij[0])), nil))
		if !tabBase[8*ij[0]+ij[1]].Equal(b.Mul(k)) {
			t.Errorf("tabBase[%d][%d]", ij[0], ij[1])
		}
	}
	for _, j := range []int{0, 1, 40, 63} {
		if !tabOddB[j].Equal(b.Mul(big.NewInt(int64(2*j + 1)))) {
			t.Errorf("tabOddB[%d]", j)
		}
		k := new(big.Int).Mul(big.NewInt(int64(2*j+1)), pow2(128))
		if !tabOddB128[j].Equal(b.Mul(k)) {
			t.Errorf("tabOddB128[%d]", j)
		}
	}
	if _, ok := torsionGenerator(torsionNegX); !ok {
		t.Error("T8 does not have order 8")
	}
}
