package econst

// Small typed-AST helpers for the provenance rules: resolved callees, root
// objects of addressable expressions, single-definition locals, linear index
// forms over loop variables and the iteration range of counted loops.  All of
// them work on resolved objects (types.Info), never on identifier spellings.

import (
	"go/ast"
	"go/token"
	"go/types"

	"voicheck/load"
)

func relOf(p *types.Package) string { return load.Rel(p) }

// calleeOf returns the function or method object a call resolves to.
func calleeOf(info *types.Info, call *ast.CallExpr) *types.Func {
	switch f := ast.Unparen(call.Fun).(type) {
	case *ast.Ident:
		fn, _ := info.Uses[f].(*types.Func)
		return fn
	case *ast.SelectorExpr:
		fn, _ := info.Uses[f.Sel].(*types.Func)
		return fn
	}
	return nil
}

// recvExpr returns the receiver expression of a method call (nil otherwise).
func recvExpr(info *types.Info, call *ast.CallExpr) ast.Expr {
	if sel, ok := ast.Unparen(call.Fun).(*ast.SelectorExpr); ok {
		if s := info.Selections[sel]; s != nil && s.Kind() == types.MethodVal {
			return sel.X
		}
	}
	return nil
}

// strip removes parentheses, & and *.
func strip(e ast.Expr) ast.Expr {
	for {
		switch x := e.(type) {
		case *ast.ParenExpr:
			e = x.X
		case *ast.UnaryExpr:
			if x.Op != token.AND {
				return e
			}
			e = x.X
		case *ast.StarExpr:
			e = x.X
		default:
			return e
		}
	}
}

// rootObj returns the variable at the root of an addressable expression
// (x, x.f, x[i], x[a:b], &x, *x, pkg.X ...).
func rootObj(info *types.Info, e ast.Expr) types.Object {
	for {
		switch x := strip(e).(type) {
		case *ast.Ident:
			return info.Uses[x]
		case *ast.SelectorExpr:
			if s := info.Selections[x]; s != nil {
				e = x.X
				continue
			}
			return info.Uses[x.Sel] // qualified identifier
		case *ast.IndexExpr:
			e = x.X
		case *ast.SliceExpr:
			e = x.X
		default:
			return nil
		}
	}
}

// isPkgVar reports whether obj is the package-level variable rel.name.
func isPkgVar(obj types.Object, qualified string) bool {
	v, ok := obj.(*types.Var)
	return ok && v.Pkg() != nil && v.Parent() == v.Pkg().Scope() && qualifiedObj(v) == qualified
}

// scope is the analysis context of one function body.
type scope struct {
	info *types.Info
	body ast.Node
	defs map[*types.Var][]ast.Expr // every value assigned to a local (nil entry: unknown write)
	loop map[*types.Var]loopRange
}

// loopRange is the iteration range [lo, hi) of a counted loop variable;
// lenOf != nil means hi = len(lenOf).
type loopRange struct {
	lo, hi int64
	lenOf  types.Object
	ok     bool
}

func newScope(info *types.Info, body ast.Node) *scope {
	s := &scope{info: info, body: body, defs: map[*types.Var][]ast.Expr{}, loop: map[*types.Var]loopRange{}}
	lv := func(e ast.Expr) *types.Var {
		id, ok := e.(*ast.Ident)
		if !ok {
			return nil
		}
		if v, ok := info.Defs[id].(*types.Var); ok {
			return v
		}
		v, _ := info.Uses[id].(*types.Var)
		return v
	}
	ast.Inspect(body, func(n ast.Node) bool {
		switch x := n.(type) {
		case *ast.AssignStmt:
			for i, l := range x.Lhs {
				v := lv(l)
				if v == nil {
					continue
				}
				if len(x.Rhs) == len(x.Lhs) && (x.Tok == token.DEFINE || x.Tok == token.ASSIGN) {
					s.defs[v] = append(s.defs[v], x.Rhs[i])
				} else {
					s.defs[v] = append(s.defs[v], nil)
				}
			}
		case *ast.IncDecStmt:
			if v := lv(x.X); v != nil {
				s.defs[v] = append(s.defs[v], nil)
			}
		case *ast.ValueSpec:
			for i, nm := range x.Names {
				if v, ok := info.Defs[nm].(*types.Var); ok {
					if i < len(x.Values) && len(x.Values) == len(x.Names) {
						s.defs[v] = append(s.defs[v], x.Values[i])
					}
				}
			}
		case *ast.ForStmt:
			s.forLoop(x)
		case *ast.RangeStmt:
			s.rangeLoop(x)
		}
		return true
	})
	return s
}

func (s *scope) constInt(e ast.Expr) (int64, bool) {
	if e == nil {
		return 0, false
	}
	c := constLit(s.info, e)
	if c == nil || c.Kind != KInt || !c.Int.IsInt64() {
		return 0, false
	}
	return c.Int.Int64(), true
}

// forLoop recognises `for v := c0; v < c1; v++`.
func (s *scope) forLoop(f *ast.ForStmt) {
	as, ok := f.Init.(*ast.AssignStmt)
	if !ok || as.Tok != token.DEFINE || len(as.Lhs) != 1 || len(as.Rhs) != 1 {
		return
	}
	id, _ := as.Lhs[0].(*ast.Ident)
	if id == nil {
		return
	}
	v, _ := s.info.Defs[id].(*types.Var)
	lo, ok1 := s.constInt(as.Rhs[0])
	cond, _ := f.Cond.(*ast.BinaryExpr)
	post, _ := f.Post.(*ast.IncDecStmt)
	if v == nil || !ok1 || cond == nil || post == nil || post.Tok != token.INC {
		return
	}
	cx, _ := ast.Unparen(cond.X).(*ast.Ident)
	px, _ := ast.Unparen(post.X).(*ast.Ident)
	if cx == nil || px == nil || s.info.Uses[cx] != v || s.info.Uses[px] != v {
		return
	}
	hi, ok2 := s.constInt(cond.Y)
	if !ok2 {
		return
	}
	switch cond.Op {
	case token.LSS:
	case token.LEQ:
		hi++
	default:
		return
	}
	// the body must not write the loop variable
	written := false
	ast.Inspect(f.Body, func(n ast.Node) bool {
		switch x := n.(type) {
		case *ast.AssignStmt:
			for _, l := range x.Lhs {
				if id, ok := l.(*ast.Ident); ok && s.info.Uses[id] == v {
					written = true
				}
			}
		case *ast.IncDecStmt:
			if id, ok := x.X.(*ast.Ident); ok && s.info.Uses[id] == v {
				written = true
			}
		}
		return true
	})
	if !written {
		s.loop[v] = loopRange{lo: lo, hi: hi, ok: true}
	}
}

// rangeLoop recognises `for v := range X` over an array, pointer to array,
// integer constant or slice variable.
func (s *scope) rangeLoop(r *ast.RangeStmt) {
	id, _ := r.Key.(*ast.Ident)
	if id == nil || r.Tok != token.DEFINE {
		return
	}
	v, _ := s.info.Defs[id].(*types.Var)
	if v == nil {
		return
	}
	if n, ok := s.constInt(r.X); ok { // range over int
		s.loop[v] = loopRange{lo: 0, hi: n, ok: true}
		return
	}
	t := s.info.TypeOf(r.X)
	if t == nil {
		return
	}
	u := t.Underlying()
	if p, ok := u.(*types.Pointer); ok {
		u = p.Elem().Underlying()
	}
	switch a := u.(type) {
	case *types.Array:
		s.loop[v] = loopRange{lo: 0, hi: a.Len(), ok: true}
	case *types.Slice:
		if o := rootObj(s.info, r.X); o != nil {
			if _, plain := strip(r.X).(*ast.Ident); plain {
				s.loop[v] = loopRange{lo: 0, lenOf: o, ok: true}
			}
		}
	}
}

// lin is a linear form c + sum k_i * v_i over loop variables.
type lin struct {
	c int64
	k map[*types.Var]int64
}

func (a lin) add(b lin, sign int64) lin {
	out := lin{c: a.c + sign*b.c, k: map[*types.Var]int64{}}
	for v, k := range a.k {
		out.k[v] += k
	}
	for v, k := range b.k {
		out.k[v] += sign * k
	}
	for v, k := range out.k {
		if k == 0 {
			delete(out.k, v)
		}
	}
	return out
}

func (a lin) scale(m int64) lin {
	out := lin{c: a.c * m, k: map[*types.Var]int64{}}
	for v, k := range a.k {
		if k*m != 0 {
			out.k[v] = k * m
		}
	}
	return out
}

func (a lin) equal(b lin) bool {
	d := a.add(b, -1)
	return d.c == 0 && len(d.k) == 0
}

// atom returns the single variable of a form that is exactly 1*v.
func (a lin) atom() *types.Var {
	if a.c != 0 || len(a.k) != 1 {
		return nil
	}
	for v, k := range a.k {
		if k == 1 {
			return v
		}
	}
	return nil
}

// linear evaluates an integer expression to a linear form; locals with
// exactly one definition are expanded, everything else must be a constant or
// a loop variable.
func (s *scope) linear(e ast.Expr, depth int) (lin, bool) {
	if depth > 8 || e == nil {
		return lin{}, false
	}
	if c, ok := s.constInt(e); ok {
		return lin{c: c}, true
	}
	switch x := ast.Unparen(e).(type) {
	case *ast.Ident:
		v, _ := s.info.Uses[x].(*types.Var)
		if v == nil {
			return lin{}, false
		}
		if _, isLoop := s.loop[v]; isLoop {
			return lin{k: map[*types.Var]int64{v: 1}}, true
		}
		if d := s.defs[v]; len(d) == 1 && d[0] != nil {
			return s.linear(d[0], depth+1)
		}
		return lin{}, false
	case *ast.BinaryExpr:
		a, ok1 := s.linear(x.X, depth+1)
		b, ok2 := s.linear(x.Y, depth+1)
		if !ok1 || !ok2 {
			return lin{}, false
		}
		switch x.Op {
		case token.ADD:
			return a.add(b, 1), true
		case token.SUB:
			return a.add(b, -1), true
		case token.MUL:
			if len(a.k) == 0 {
				return b.scale(a.c), true
			}
			if len(b.k) == 0 {
				return a.scale(b.c), true
			}
		case token.SHL:
			if len(b.k) == 0 && b.c >= 0 && b.c < 32 {
				return a.scale(1 << uint(b.c)), true
			}
		}
	case *ast.CallExpr: // integer conversion
		if tv, ok := s.info.Types[x.Fun]; ok && tv.IsType() && len(x.Args) == 1 {
			return s.linear(x.Args[0], depth+1)
		}
	}
	return lin{}, false
}

// singleDef returns the unique defining expression of a local variable.
func (s *scope) singleDef(v *types.Var) ast.Expr {
	if d := s.defs[v]; len(d) == 1 {
		return d[0]
	}
	return nil
}

// calls collects the calls in n that resolve to fn.
func calls(info *types.Info, n ast.Node, fn *types.Func) []*ast.CallExpr {
	var out []*ast.CallExpr
	if fn == nil || n == nil {
		return nil
	}
	ast.Inspect(n, func(x ast.Node) bool {
		if c, ok := x.(*ast.CallExpr); ok && calleeOf(info, c) == fn {
			out = append(out, c)
		}
		return true
	})
	return out
}

// returnsOf collects the return statements of a function body, not entering
// nested function literals.
func returnsOf(body ast.Node) []*ast.ReturnStmt {
	var out []*ast.ReturnStmt
	ast.Inspect(body, func(n ast.Node) bool {
		switch x := n.(type) {
		case *ast.FuncLit:
			return x.Body == body
		case *ast.ReturnStmt:
			out = append(out, x)
		}
		return true
	})
	return out
}
