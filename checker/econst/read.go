package econst

// The literal reader: evaluates initialiser expressions of the typed syntax
// tree into a small value tree (Lit).  Integers come exclusively from go/types
// constant folding (types.Info.Types[e].Value), never from source text, so
// `248`, `0xf8` and `1<<8 - 8` are indistinguishable.  Calls of module
// functions whose body is a single `return <expr>` (the limb constructors
// NewElement51, NewElement2625, newEdwardsPoint, newInt128, newInt512, ...) are
// inlined by substituting the arguments for the parameters, so the reader does
// not depend on the names of those helpers, only on what they build.

import (
	"fmt"
	"go/ast"
	"go/constant"
	"go/token"
	"go/types"
	"math/big"

	"voicheck/load"
)

// Kind classifies a Lit.
type Kind int

const (
	KInt    Kind = iota // integer constant
	KStr                // string constant
	KBool               // boolean constant
	KList               // array / slice literal, zero-filled, in index order
	KStruct             // struct literal, zero-filled, in field order
	KAddr               // &X
	KDeref              // *X (X not an address literal)
	KZero               // zero value of Type (no literal text)
	KRef                // package-level variable Obj (resolved on demand)
	KCall               // call that is not an inlinable constructor
	KOpaque             // anything else
)

// Field is one field of a struct literal.
type Field struct {
	Name string
	Var  *types.Var
	Val  *Lit
}

// Lit is an evaluated literal.
type Lit struct {
	Kind Kind
	Pos  token.Pos
	Type types.Type

	Int    *big.Int
	Str    string
	Bool   bool
	Elems  []*Lit
	Fields []Field
	X      *Lit         // KAddr, KDeref
	Obj    types.Object // KRef
	Fun    *types.Func  // KCall: resolved callee (nil for a func literal)
	FunLit *ast.FuncLit // KCall of an immediately invoked function literal
	Args   []*Lit       // KCall
	Expr   ast.Expr     // source expression (diagnostics, provenance rules)
	Info   *types.Info  // the types.Info Expr belongs to
}

// reader evaluates literals of one loaded configuration.
type reader struct {
	p     *load.Program
	vars  map[types.Object]*Lit // memo of package-level initialisers
	specs map[types.Object]specInfo
}

// specInfo locates the declaration of a package-level var/const.
type specInfo struct {
	info  *types.Info
	spec  *ast.ValueSpec
	index int
	tok   token.Token
}

func newReader(p *load.Program) *reader {
	r := &reader{p: p, vars: map[types.Object]*Lit{}, specs: map[types.Object]specInfo{}}
	for _, pk := range p.Pkgs {
		for _, f := range pk.Syntax {
			for _, d := range f.Decls {
				gd, ok := d.(*ast.GenDecl)
				if !ok || (gd.Tok != token.VAR && gd.Tok != token.CONST) {
					continue
				}
				for _, s := range gd.Specs {
					vs := s.(*ast.ValueSpec)
					for i, n := range vs.Names {
						if obj := pk.TypesInfo.Defs[n]; obj != nil {
							r.specs[obj] = specInfo{pk.TypesInfo, vs, i, gd.Tok}
						}
					}
				}
			}
		}
	}
	return r
}

const maxInline = 12

type env map[*types.Var]*Lit

func bigOf(v constant.Value) *big.Int {
	v = constant.ToInt(v)
	if v.Kind() != constant.Int {
		return nil
	}
	switch x := constant.Val(v).(type) {
	case int64:
		return big.NewInt(x)
	case *big.Int:
		return new(big.Int).Set(x)
	}
	return nil
}

// constLit converts a folded constant to a Lit; nil if it is not a constant.
func constLit(info *types.Info, e ast.Expr) *Lit {
	tv, ok := info.Types[e]
	if !ok || tv.Value == nil {
		return nil
	}
	l := &Lit{Pos: e.Pos(), Type: tv.Type, Expr: e, Info: info}
	switch tv.Value.Kind() {
	case constant.Int:
		l.Kind, l.Int = KInt, bigOf(tv.Value)
	case constant.Float:
		if b := bigOf(tv.Value); b != nil {
			l.Kind, l.Int = KInt, b
		} else {
			l.Kind = KOpaque
		}
	case constant.String:
		l.Kind, l.Str = KStr, constant.StringVal(tv.Value)
	case constant.Bool:
		l.Kind, l.Bool = KBool, constant.BoolVal(tv.Value)
	default:
		l.Kind = KOpaque
	}
	return l
}

// eval evaluates e (typed by info) under the parameter bindings ev.
func (r *reader) eval(info *types.Info, e ast.Expr, ev env, depth int) *Lit {
	if c := constLit(info, e); c != nil {
		return c
	}
	typ := info.TypeOf(e)
	opaque := func() *Lit { return &Lit{Kind: KOpaque, Pos: e.Pos(), Type: typ, Expr: e, Info: info} }
	switch x := e.(type) {
	case *ast.ParenExpr:
		return r.eval(info, x.X, ev, depth)
	case *ast.Ident:
		obj := info.Uses[x]
		if v, ok := obj.(*types.Var); ok {
			if b, ok := ev[v]; ok {
				return b
			}
			if v.Parent() != nil && v.Parent() == v.Pkg().Scope() {
				return &Lit{Kind: KRef, Pos: e.Pos(), Type: typ, Obj: v, Expr: e, Info: info}
			}
		}
		if _, ok := obj.(*types.Nil); ok {
			return &Lit{Kind: KZero, Pos: e.Pos(), Type: typ, Expr: e, Info: info}
		}
		return opaque()
	case *ast.SelectorExpr:
		// qualified identifier pkg.Var
		if v, ok := info.Uses[x.Sel].(*types.Var); ok && !v.IsField() && v.Pkg() != nil && v.Parent() == v.Pkg().Scope() {
			return &Lit{Kind: KRef, Pos: e.Pos(), Type: typ, Obj: v, Expr: e, Info: info}
		}
		return opaque()
	case *ast.UnaryExpr:
		if x.Op == token.AND {
			return &Lit{Kind: KAddr, Pos: e.Pos(), Type: typ, X: r.eval(info, x.X, ev, depth), Expr: e, Info: info}
		}
		return opaque()
	case *ast.StarExpr:
		in := r.eval(info, x.X, ev, depth)
		if in.Kind == KAddr {
			return in.X
		}
		return &Lit{Kind: KDeref, Pos: e.Pos(), Type: typ, X: in, Expr: e, Info: info}
	case *ast.CompositeLit:
		return r.evalComposite(info, x, typ, ev, depth)
	case *ast.CallExpr:
		return r.evalCall(info, x, typ, ev, depth)
	}
	return opaque()
}

func (r *reader) evalComposite(info *types.Info, x *ast.CompositeLit, typ types.Type, ev env, depth int) *Lit {
	l := &Lit{Pos: x.Pos(), Type: typ, Expr: x, Info: info}
	under := typ
	isPtr := false
	if under != nil {
		under = under.Underlying()
		// elided &T in []*T{{...}}: go/types records the pointer type.
		if pt, ok := under.(*types.Pointer); ok {
			isPtr = true
			under = pt.Elem().Underlying()
		}
	}
	wrap := func(v *Lit) *Lit {
		if isPtr {
			return &Lit{Kind: KAddr, Pos: x.Pos(), Type: typ, X: v, Expr: x, Info: info}
		}
		return v
	}
	switch u := under.(type) {
	case *types.Struct:
		l.Kind = KStruct
		vals := make([]*Lit, u.NumFields())
		for i, el := range x.Elts {
			if kv, ok := el.(*ast.KeyValueExpr); ok {
				key, _ := kv.Key.(*ast.Ident)
				idx := -1
				for j := 0; j < u.NumFields(); j++ {
					if key != nil && u.Field(j).Name() == key.Name {
						idx = j
					}
				}
				if idx < 0 {
					l.Kind = KOpaque
					return l
				}
				vals[idx] = r.eval(info, kv.Value, ev, depth)
			} else if i < len(vals) {
				vals[i] = r.eval(info, el, ev, depth)
			}
		}
		for j := 0; j < u.NumFields(); j++ {
			v := vals[j]
			if v == nil {
				v = &Lit{Kind: KZero, Pos: x.Pos(), Type: u.Field(j).Type()}
			}
			l.Fields = append(l.Fields, Field{u.Field(j).Name(), u.Field(j), v})
		}
		return wrap(l)
	case *types.Array, *types.Slice:
		l.Kind = KList
		var elemT types.Type
		n := int64(-1)
		if a, ok := u.(*types.Array); ok {
			elemT, n = a.Elem(), a.Len()
		} else {
			elemT = u.(*types.Slice).Elem()
		}
		at := map[int64]*Lit{}
		next, max := int64(0), int64(0)
		for _, el := range x.Elts {
			val := el
			if kv, ok := el.(*ast.KeyValueExpr); ok {
				k := constLit(info, kv.Key)
				if k == nil || k.Kind != KInt || !k.Int.IsInt64() {
					l.Kind = KOpaque
					return l
				}
				next = k.Int.Int64()
				val = kv.Value
			}
			at[next] = r.eval(info, val, ev, depth)
			next++
			if next > max {
				max = next
			}
		}
		if n < 0 {
			n = max
		}
		if n > 1<<20 {
			l.Kind = KOpaque
			return l
		}
		l.Elems = make([]*Lit, n)
		for i := int64(0); i < n; i++ {
			if v := at[i]; v != nil {
				l.Elems[i] = v
			} else {
				l.Elems[i] = &Lit{Kind: KZero, Pos: x.Pos(), Type: elemT}
			}
		}
		return wrap(l)
	}
	l.Kind = KOpaque
	return l
}

func (r *reader) evalCall(info *types.Info, x *ast.CallExpr, typ types.Type, ev env, depth int) *Lit {
	// conversion T(x)
	if tv, ok := info.Types[x.Fun]; ok && tv.IsType() && len(x.Args) == 1 {
		in := r.eval(info, x.Args[0], ev, depth)
		if in.Kind == KInt || in.Kind == KStr {
			// non-constant conversion of a bound parameter (e.g. uint64(l0)) or a
			// []byte("...") conversion: keep the value, retag the type.
			c := *in
			c.Type = typ
			return &c
		}
		if in.Kind == KList || in.Kind == KStruct || in.Kind == KZero {
			c := *in
			c.Type = typ
			return &c
		}
		return &Lit{Kind: KOpaque, Pos: x.Pos(), Type: typ, Expr: x, Info: info}
	}
	l := &Lit{Kind: KCall, Pos: x.Pos(), Type: typ, Expr: x, Info: info}
	for _, a := range x.Args {
		l.Args = append(l.Args, r.eval(info, a, ev, depth))
	}
	fun := ast.Unparen(x.Fun)
	if fl, ok := fun.(*ast.FuncLit); ok {
		l.FunLit = fl
		return l
	}
	var fn *types.Func
	switch f := fun.(type) {
	case *ast.Ident:
		fn, _ = info.Uses[f].(*types.Func)
	case *ast.SelectorExpr:
		fn, _ = info.Uses[f.Sel].(*types.Func)
	}
	l.Fun = fn
	if fn == nil || !load.IsModule(fn.Pkg()) || depth >= maxInline {
		return l
	}
	sig, _ := fn.Type().(*types.Signature)
	if sig == nil || sig.Recv() != nil || sig.Variadic() || sig.Results().Len() != 1 || sig.Params().Len() != len(l.Args) {
		return l
	}
	fd := r.p.FuncDecl(fn)
	if fd == nil || fd.Body == nil || len(fd.Body.List) != 1 {
		return l
	}
	ret, ok := fd.Body.List[0].(*ast.ReturnStmt)
	if !ok || len(ret.Results) != 1 {
		return l
	}
	// Only pure constructors are inlined: the returned expression must be built
	// from literals and parameters alone.
	if !pureConstructor(ret.Results[0]) {
		return l
	}
	finfo := r.p.InfoOf(fn.Pkg())
	if finfo == nil {
		return l
	}
	nev := env{}
	for i := 0; i < sig.Params().Len(); i++ {
		nev[sig.Params().At(i)] = l.Args[i]
	}
	out := r.eval(finfo, ret.Results[0], nev, depth+1)
	if hasOpaque(out) {
		return l
	}
	// Nodes that stem from the constructor's body are reported at the call site.
	return reposition(out, x.Pos(), x.End())
}

// reposition returns l with every node whose position lies outside [lo, hi)
// (i.e. inside an inlined constructor) moved to lo.  Argument literals keep
// their own positions; shared nodes are copied, not mutated.
func reposition(l *Lit, lo, hi token.Pos) *Lit {
	if l == nil {
		return nil
	}
	c := *l
	if c.Pos < lo || c.Pos >= hi {
		c.Pos = lo
	}
	switch c.Kind {
	case KList:
		c.Elems = make([]*Lit, len(l.Elems))
		for i, e := range l.Elems {
			c.Elems[i] = reposition(e, lo, hi)
		}
	case KStruct:
		c.Fields = make([]Field, len(l.Fields))
		for i, f := range l.Fields {
			c.Fields[i] = Field{f.Name, f.Var, reposition(f.Val, lo, hi)}
		}
	case KAddr, KDeref:
		c.X = reposition(l.X, lo, hi)
	}
	return &c
}

// pureConstructor: composite literals, &, parens, conversions and identifiers
// only (no calls of other functions, no arithmetic on parameters).
func pureConstructor(e ast.Expr) bool {
	ok := true
	ast.Inspect(e, func(n ast.Node) bool {
		switch x := n.(type) {
		case nil, *ast.CompositeLit, *ast.KeyValueExpr, *ast.Ident, *ast.ParenExpr, *ast.BasicLit,
			*ast.ArrayType, *ast.SelectorExpr, *ast.StarExpr, *ast.Ellipsis:
		case *ast.UnaryExpr:
			if x.Op != token.AND {
				ok = false
			}
		default:
			ok = false
		}
		return ok
	})
	return ok
}

func hasOpaque(l *Lit) bool {
	if l == nil {
		return true
	}
	switch l.Kind {
	case KOpaque:
		return true
	case KList:
		for _, e := range l.Elems {
			if hasOpaque(e) {
				return true
			}
		}
	case KStruct:
		for _, f := range l.Fields {
			if hasOpaque(f.Val) {
				return true
			}
		}
	case KAddr, KDeref:
		return hasOpaque(l.X)
	}
	return false
}

// varLit returns the evaluated initialiser of a package-level variable or
// constant (KZero if it has none); nil if obj is not declared in the module.
func (r *reader) varLit(obj types.Object) *Lit {
	if l, ok := r.vars[obj]; ok {
		return l
	}
	si, ok := r.specs[obj]
	if !ok {
		return nil
	}
	r.vars[obj] = &Lit{Kind: KOpaque, Pos: obj.Pos(), Type: obj.Type()} // cycle guard
	var l *Lit
	switch {
	case len(si.spec.Values) == 0:
		if c, ok := obj.(*types.Const); ok {
			// iota-style implicit repetition: use the folded value
			l = &Lit{Kind: KInt, Pos: obj.Pos(), Type: obj.Type(), Int: bigOf(c.Val())}
			if l.Int == nil {
				l.Kind = KOpaque
			}
		} else {
			l = &Lit{Kind: KZero, Pos: obj.Pos(), Type: obj.Type()}
		}
	case len(si.spec.Values) == len(si.spec.Names):
		if c, ok := obj.(*types.Const); ok && c.Val().Kind() == constant.Int {
			l = &Lit{Kind: KInt, Pos: si.spec.Values[si.index].Pos(), Type: obj.Type(), Int: bigOf(c.Val()),
				Expr: si.spec.Values[si.index], Info: si.info}
		} else {
			l = r.eval(si.info, si.spec.Values[si.index], nil, 0)
		}
	default: // a, b = f()
		l = &Lit{Kind: KOpaque, Pos: obj.Pos(), Type: obj.Type(), Expr: si.spec.Values[0], Info: si.info}
	}
	r.vars[obj] = l
	return l
}

// resolve follows references, address-of and dereference until a value
// (list, struct, integer, zero, call, opaque) is reached.
func (r *reader) resolve(l *Lit) *Lit {
	for i := 0; i < 32 && l != nil; i++ {
		switch l.Kind {
		case KRef:
			n := r.varLit(l.Obj)
			if n == nil {
				return l
			}
			l = n
		case KAddr:
			l = l.X
		case KDeref:
			l = l.X
		default:
			return l
		}
	}
	return l
}

// ---------------------------------------------------------------------------
// typed views of a Lit

// named returns "rel.Name" of a (pointer to a) named module type, else "".
func named(t types.Type) string {
	if t == nil {
		return ""
	}
	if p, ok := t.(*types.Pointer); ok {
		t = p.Elem()
	}
	if n, ok := t.(*types.Named); ok && n.Obj().Pkg() != nil && load.IsModule(n.Obj().Pkg()) {
		return load.Rel(n.Obj().Pkg()) + "." + n.Obj().Name()
	}
	return ""
}

// ints returns the integers of a list of integer constants (zero-filled).
func (r *reader) ints(l *Lit) ([]*big.Int, error) {
	v, _, err := r.intsAt(l)
	return v, err
}

// intsAt is ints together with the source position of every element.
func (r *reader) intsAt(l *Lit) ([]*big.Int, []token.Pos, error) {
	l = r.resolve(l)
	if l == nil {
		return nil, nil, fmt.Errorf("no value")
	}
	switch l.Kind {
	case KZero:
		n, ok := arrayLen(l.Type)
		if !ok {
			return nil, nil, fmt.Errorf("zero value of a non-array type %v", l.Type)
		}
		out := make([]*big.Int, n)
		at := make([]token.Pos, n)
		for i := range out {
			out[i] = new(big.Int)
			at[i] = l.Pos
		}
		return out, at, nil
	case KList:
		out := make([]*big.Int, len(l.Elems))
		at := make([]token.Pos, len(l.Elems))
		for i, e := range l.Elems {
			e = r.resolve(e)
			at[i] = e.Pos
			if !at[i].IsValid() {
				at[i] = l.Pos
			}
			switch e.Kind {
			case KInt:
				out[i] = e.Int
			case KZero:
				out[i] = new(big.Int)
			default:
				return nil, nil, fmt.Errorf("element %d is not an integer constant", i)
			}
		}
		return out, at, nil
	}
	return nil, nil, fmt.Errorf("not an array literal (kind %d)", l.Kind)
}

func arrayLen(t types.Type) (int, bool) {
	if t == nil {
		return 0, false
	}
	if a, ok := t.Underlying().(*types.Array); ok {
		return int(a.Len()), true
	}
	return 0, false
}

// field returns the value of the struct field with the given name.
func (r *reader) field(l *Lit, name string) (*Lit, error) {
	l = r.resolve(l)
	if l == nil {
		return nil, fmt.Errorf("no value")
	}
	if l.Kind == KZero {
		st, ok := l.Type.Underlying().(*types.Struct)
		if ok {
			for i := 0; i < st.NumFields(); i++ {
				if st.Field(i).Name() == name {
					return &Lit{Kind: KZero, Pos: l.Pos, Type: st.Field(i).Type()}, nil
				}
			}
		}
		return nil, fmt.Errorf("zero value without field %s", name)
	}
	if l.Kind != KStruct {
		return nil, fmt.Errorf("not a struct literal")
	}
	for _, f := range l.Fields {
		if f.Name == name {
			return f.Val, nil
		}
	}
	return nil, fmt.Errorf("no field %s", name)
}

// soleDataField returns the unique field of a struct literal whose type is
// not a zero-size marker (disalloweq.DisallowEqual is [0]func()).
func (r *reader) soleDataField(l *Lit) (*Lit, error) {
	l = r.resolve(l)
	if l == nil || (l.Kind != KStruct && l.Kind != KZero) {
		return nil, fmt.Errorf("not a struct value")
	}
	st, ok := l.Type.Underlying().(*types.Struct)
	if !ok {
		return nil, fmt.Errorf("not a struct type")
	}
	idx := -1
	for i := 0; i < st.NumFields(); i++ {
		if n, ok := arrayLen(st.Field(i).Type()); ok && n == 0 {
			continue
		}
		if idx >= 0 {
			return nil, fmt.Errorf("struct %v has more than one data field", l.Type)
		}
		idx = i
	}
	if idx < 0 {
		return nil, fmt.Errorf("struct %v has no data field", l.Type)
	}
	if l.Kind == KZero {
		return &Lit{Kind: KZero, Pos: l.Pos, Type: st.Field(idx).Type()}, nil
	}
	return l.Fields[idx].Val, nil
}

// Limbs is a limb vector together with the radix its Go type implies.
type Limbs struct {
	Pos    token.Pos
	Radix  string // "51x5", "25.5x10", "52x5", "29x9"
	Widths []uint // bits per limb
	V      []*big.Int
	At     []token.Pos // position of every limb (may be nil)
}

// Canon splits v (0 <= v < 2^sum(widths)) into tight limbs of this radix.
func (l *Limbs) Canon(v *big.Int) []*big.Int {
	out := make([]*big.Int, len(l.Widths))
	t := new(big.Int).Set(v)
	for i, w := range l.Widths {
		mask := new(big.Int).Sub(pow2(w), big1)
		out[i] = new(big.Int).And(t, mask)
		t.Rsh(t, w)
	}
	return out
}

// Diff returns a description and the position of the first limb that differs
// from the canonical limbs of want ("" if the vector is not tight or equal).
func (l *Limbs) Diff(want *big.Int) (string, token.Pos) {
	if _, ok := l.Tight(); !ok {
		return "", l.Pos
	}
	for i, c := range l.Canon(want) {
		if c.Cmp(l.V[i]) != 0 {
			pos := l.Pos
			if i < len(l.At) && l.At[i].IsValid() {
				pos = l.At[i]
			}
			return fmt.Sprintf("limb %d is %d (%#x), the definition has %d (%#x)", i, l.V[i], l.V[i], c, c), pos
		}
	}
	return "", l.Pos
}

// Value is sum V[i] * 2^(offset_i).
func (l *Limbs) Value() *big.Int {
	acc := new(big.Int)
	off := uint(0)
	for i, v := range l.V {
		acc.Add(acc, new(big.Int).Lsh(v, off))
		off += l.Widths[i]
	}
	return acc
}

// Tight reports the first limb that is not below 2^width (or negative).
func (l *Limbs) Tight() (int, bool) {
	for i, v := range l.V {
		if v.Sign() < 0 || v.BitLen() > int(l.Widths[i]) {
			return i, false
		}
	}
	return -1, true
}

func basicKind(t types.Type) types.BasicKind {
	if b, ok := t.Underlying().(*types.Basic); ok {
		return b.Kind()
	}
	return types.Invalid
}

// radixOfArray maps the storage type of a limb vector to its radix.  The
// representation is decided by the type the configuration compiles, not by a
// file name: [5]uint64 / [10]uint32 for field elements, [5]uint64 / [9]uint32
// for unpacked scalars.
func radixOfArray(t types.Type, scalar bool) (string, []uint, error) {
	a, ok := t.Underlying().(*types.Array)
	if !ok {
		return "", nil, fmt.Errorf("limb storage %v is not an array", t)
	}
	k, n := basicKind(a.Elem()), int(a.Len())
	rep := func(w uint, n int) []uint {
		out := make([]uint, n)
		for i := range out {
			out[i] = w
		}
		return out
	}
	switch {
	case !scalar && k == types.Uint64 && n == 5:
		return "51x5", rep(51, 5), nil
	case !scalar && k == types.Uint32 && n == 10:
		return "25.5x10", []uint{26, 25, 26, 25, 26, 25, 26, 25, 26, 25}, nil
	case scalar && k == types.Uint64 && n == 5:
		return "52x5", rep(52, 5), nil
	case scalar && k == types.Uint32 && n == 9:
		return "29x9", rep(29, 9), nil
	}
	return "", nil, fmt.Errorf("unknown limb representation %v", t)
}

// element reads a field.Element value.
func (r *reader) element(l *Lit) (*Limbs, error) {
	l = r.resolve(l)
	if l == nil {
		return nil, fmt.Errorf("no value")
	}
	if named(l.Type) != "internal/field.Element" {
		return nil, fmt.Errorf("type %v is not internal/field.Element", l.Type)
	}
	inner, err := r.soleDataField(l)
	if err != nil {
		return nil, err
	}
	inner = r.resolve(inner)
	radix, widths, err := radixOfArray(inner.Type, false)
	if err != nil {
		return nil, err
	}
	v, at, err := r.intsAt(inner)
	if err != nil {
		return nil, err
	}
	return &Limbs{Pos: l.Pos, Radix: radix, Widths: widths, V: v, At: at}, nil
}

// unpackedScalar reads a curve/scalar.unpackedScalar value.
func (r *reader) unpackedScalar(l *Lit) (*Limbs, error) {
	l = r.resolve(l)
	if l == nil {
		return nil, fmt.Errorf("no value")
	}
	if named(l.Type) != "curve/scalar.unpackedScalar" {
		return nil, fmt.Errorf("type %v is not curve/scalar.unpackedScalar", l.Type)
	}
	radix, widths, err := radixOfArray(l.Type, true)
	if err != nil {
		return nil, err
	}
	v, at, err := r.intsAt(l)
	if err != nil {
		return nil, err
	}
	return &Limbs{Pos: l.Pos, Radix: radix, Widths: widths, V: v, At: at}, nil
}

// ExtPoint is an extended-coordinates literal (X:Y:Z:T).
type ExtPoint struct {
	Pos        token.Pos
	X, Y, Z, T *Limbs
}

// edwardsPoint reads a curve.EdwardsPoint (or RistrettoPoint) value.
func (r *reader) edwardsPoint(l *Lit) (*ExtPoint, error) {
	l = r.resolve(l)
	if l == nil {
		return nil, fmt.Errorf("no value")
	}
	if named(l.Type) == "curve.RistrettoPoint" {
		in, err := r.soleDataField(l)
		if err != nil {
			return nil, err
		}
		l = r.resolve(in)
	}
	if named(l.Type) != "curve.EdwardsPoint" {
		return nil, fmt.Errorf("type %v is not curve.EdwardsPoint", l.Type)
	}
	in, err := r.soleDataField(l)
	if err != nil {
		return nil, err
	}
	out := &ExtPoint{Pos: l.Pos}
	for _, c := range []struct {
		n string
		d **Limbs
	}{{"X", &out.X}, {"Y", &out.Y}, {"Z", &out.Z}, {"T", &out.T}} {
		f, err := r.field(in, c.n)
		if err != nil {
			return nil, err
		}
		if *c.d, err = r.element(f); err != nil {
			return nil, fmt.Errorf("coordinate %s: %v", c.n, err)
		}
	}
	return out, nil
}

// bytesOf reads an array/slice of byte constants.
func (r *reader) bytesOf(l *Lit) ([]byte, token.Pos, error) {
	l = r.resolve(l)
	if l == nil {
		return nil, token.NoPos, fmt.Errorf("no value")
	}
	v, err := r.ints(l)
	if err != nil {
		return nil, l.Pos, err
	}
	out := make([]byte, len(v))
	for i, x := range v {
		if x.Sign() < 0 || x.BitLen() > 8 {
			return nil, l.Pos, fmt.Errorf("element %d does not fit a byte", i)
		}
		out[i] = byte(x.Uint64())
	}
	return out, l.Pos, nil
}
