package econst

// Provenance rules: variables whose value is computed at start-up by library
// code.  Their *values* are not decided (no repository code is executed); what
// is decided is that the initialiser / init function builds them from the named
// literal source constant through the named routine, with the documented
// indexing.

import (
	"bytes"
	"fmt"
	"go/ast"
	"go/token"
	"go/types"
)

func (c *checker) provFail(d *def, pos token.Pos, format string, a ...any) {
	c.out.fail("prov", c.pos(pos), d.name, fmt.Sprintf(format, a...)+" (expected: "+d.doc+")")
}

// funcOf resolves a function anchor and its declaration.
func (c *checker) funcOf(rel, name string) (*types.Func, *ast.FuncDecl, *types.Info) {
	fn, _ := c.p.Obj(rel, name).(*types.Func)
	if fn == nil {
		return nil, nil, nil
	}
	fd := c.p.FuncDecl(fn)
	if fd == nil || fd.Body == nil {
		return fn, nil, nil
	}
	return fn, fd, c.p.InfoOf(fn.Pkg())
}

// dataFields returns name -> value of the non-marker fields of a struct literal.
func dataFields(l *Lit) map[string]*Lit {
	out := map[string]*Lit{}
	if l == nil || l.Kind != KStruct {
		return nil
	}
	for _, f := range l.Fields {
		if n, ok := arrayLen(f.Var.Type()); ok && n == 0 {
			continue
		}
		out[f.Name] = f.Val
	}
	return out
}

// ---------------------------------------------------------------------------
// affineNielsPoint.SetRaw: [0:32] -> y_plus_x, [32:64] -> y_minus_x, [64:96] -> xy2d

func (c *checker) provSetRaw(d *def, pos token.Pos) (*types.Func, bool) {
	fn, fd, info := c.funcOf("curve", "(*affineNielsPoint).SetRaw")
	setBytes, _ := c.p.Obj("internal/field", "(*Element).SetBytes").(*types.Func)
	if fn == nil || fd == nil || setBytes == nil {
		c.provFail(d, pos, "cannot resolve (*affineNielsPoint).SetRaw / (*field.Element).SetBytes")
		return nil, false
	}
	sig := fn.Type().(*types.Signature)
	if sig.Params().Len() != 1 {
		c.provFail(d, fd.Pos(), "SetRaw does not take exactly one parameter")
		return nil, false
	}
	raw := sig.Params().At(0)
	recv := sig.Recv()
	sc := newScope(info, fd.Body)
	got := map[string][2]int64{}
	for _, call := range calls(info, fd.Body, setBytes) {
		sel, _ := strip(recvExpr(info, call)).(*ast.SelectorExpr)
		if sel == nil || rootObj(info, sel.X) != recv || len(call.Args) != 1 {
			c.provFail(d, call.Pos(), "SetRaw: a SetBytes call does not target a field of the receiver")
			return nil, false
		}
		sl, _ := ast.Unparen(call.Args[0]).(*ast.SliceExpr)
		if sl == nil || rootObj(info, sl.X) != raw {
			c.provFail(d, call.Pos(), "SetRaw: a SetBytes argument is not a slice of the packed parameter")
			return nil, false
		}
		lo, ok1 := sc.constInt(sl.Low)
		if sl.Low == nil {
			lo, ok1 = 0, true
		}
		hi, ok2 := sc.constInt(sl.High)
		if sl.High == nil {
			hi, ok2 = 96, true
		}
		if !ok1 || !ok2 {
			c.provFail(d, call.Pos(), "SetRaw: slice bounds are not constants")
			return nil, false
		}
		if _, dup := got[sel.Sel.Name]; dup {
			c.provFail(d, call.Pos(), "SetRaw: field %s is set twice", sel.Sel.Name)
			return nil, false
		}
		got[sel.Sel.Name] = [2]int64{lo, hi}
	}
	want := map[string][2]int64{"y_plus_x": {0, 32}, "y_minus_x": {32, 64}, "xy2d": {64, 96}}
	if len(got) != len(want) {
		c.provFail(d, fd.Pos(), "SetRaw sets %d fields from the packed entry, expected 3", len(got))
		return nil, false
	}
	for f, w := range want {
		if got[f] != w {
			c.provFail(d, fd.Pos(), "SetRaw reads field %s from bytes [%d:%d], expected [%d:%d]", f, got[f][0], got[f][1], w[0], w[1])
			return nil, false
		}
	}
	return fn, true
}

// indexChain splits T[u][v]… into the root expression and the index list.
func indexChain(e ast.Expr) (ast.Expr, []ast.Expr) {
	var idx []ast.Expr
	e = strip(e)
	for {
		ix, ok := e.(*ast.IndexExpr)
		if !ok {
			break
		}
		idx = append([]ast.Expr{ix.Index}, idx...)
		e = strip(ix.X)
	}
	return e, idx
}

// unpackLoop checks the body of an unpack routine: a single SetRaw call whose
// receiver is local[u]…[v] and whose argument is &src[w]; it returns the
// scope, the local table variable, the receiver indices and w.
func (c *checker) unpackLoop(d *def, fd *ast.FuncDecl, info *types.Info, setRaw *types.Func, src types.Object) (*scope, *types.Var, []lin, lin, bool) {
	cs := calls(info, fd.Body, setRaw)
	if len(cs) != 1 {
		c.provFail(d, fd.Pos(), "%s contains %d SetRaw calls, expected 1", fd.Name.Name, len(cs))
		return nil, nil, nil, lin{}, false
	}
	call := cs[0]
	sc := newScope(info, fd.Body)
	root, idx := indexChain(recvExpr(info, call))
	rid, _ := root.(*ast.Ident)
	var tbl *types.Var
	if rid != nil {
		tbl, _ = info.Uses[rid].(*types.Var)
	}
	if tbl == nil || tbl.Parent() == tbl.Pkg().Scope() || len(call.Args) != 1 {
		c.provFail(d, call.Pos(), "%s: the SetRaw receiver is not an element of a local table", fd.Name.Name)
		return nil, nil, nil, lin{}, false
	}
	aroot, aidx := indexChain(call.Args[0])
	if rootObj(info, aroot) != src || len(aidx) != 1 {
		c.provFail(d, call.Pos(), "%s: the SetRaw argument is not &%s[index]", fd.Name.Name, src.Name())
		return nil, nil, nil, lin{}, false
	}
	var forms []lin
	for _, ix := range idx {
		f, ok := sc.linear(ix, 0)
		if !ok {
			c.provFail(d, ix.Pos(), "%s: a table index is not a linear form of loop variables", fd.Name.Name)
			return nil, nil, nil, lin{}, false
		}
		forms = append(forms, f)
	}
	w, ok := sc.linear(aidx[0], 0)
	if !ok {
		c.provFail(d, aidx[0].Pos(), "%s: the packed index is not a linear form of loop variables", fd.Name.Name)
		return nil, nil, nil, lin{}, false
	}
	// the routine returns the local table
	rets := returnsOf(fd.Body)
	if len(rets) == 0 {
		c.provFail(d, fd.Pos(), "%s has no return", fd.Name.Name)
		return nil, nil, nil, lin{}, false
	}
	for _, r := range rets {
		if len(r.Results) != 1 || rootObj(info, r.Results[0]) != tbl {
			c.provFail(d, r.Pos(), "%s does not return the table it fills", fd.Name.Name)
			return nil, nil, nil, lin{}, false
		}
	}
	return sc, tbl, forms, w, true
}

// provBasepointTable: edwardsBasepointTableInnerDocHidden =
// &EdwardsBasepointTable{inner: unpack()}, unpack fills [i][j] from packed 8i+j.
func provBasepointTable(c *checker, d *def, l *Lit, pos token.Pos) {
	if l == nil || l.Kind != KAddr || l.X.Kind != KStruct || named(l.X.Type) != "curve.EdwardsBasepointTable" {
		c.provFail(d, pos, "is not initialised as &EdwardsBasepointTable{...}")
		return
	}
	var call *Lit
	for name, v := range dataFields(l.X) {
		switch {
		case v.Kind == KZero:
		case v.Kind == KCall && v.Fun != nil && len(v.Args) == 0 && call == nil:
			call = v
		default:
			c.provFail(d, v.Pos, "field %s has an unexpected initialiser", name)
			return
		}
	}
	if call == nil {
		c.provFail(d, pos, "no field is initialised by an unpack routine")
		return
	}
	src := c.p.Obj("curve", "packedEdwardsBasepointTable")
	setRaw, ok := c.provSetRaw(d, pos)
	fd := c.p.FuncDecl(call.Fun)
	if !ok || src == nil || fd == nil || fd.Body == nil {
		if ok {
			c.provFail(d, pos, "cannot resolve the unpack routine or packedEdwardsBasepointTable")
		}
		return
	}
	info := c.p.InfoOf(call.Fun.Pkg())
	sc, tbl, forms, w, ok := c.unpackLoop(d, fd, info, setRaw, src)
	if !ok {
		return
	}
	if len(forms) != 2 || forms[0].atom() == nil || forms[1].atom() == nil || forms[0].atom() == forms[1].atom() {
		c.provFail(d, fd.Pos(), "%s: the receiver is not table[i][j] with two distinct loop variables", fd.Name.Name)
		return
	}
	if !w.equal(forms[0].scale(8).add(forms[1], 1)) {
		c.provFail(d, fd.Pos(), "%s: entry [i][j] is not read from packed index 8*i+j", fd.Name.Name)
		return
	}
	// loop ranges cover the table: [0, 32) x [0, 8)
	outer, ok1 := tbl.Type().Underlying().(*types.Array)
	var inner *types.Array
	if ok1 {
		inner, _ = outer.Elem().Underlying().(*types.Array)
	}
	if outer == nil || inner == nil {
		c.provFail(d, fd.Pos(), "%s: the local table is not a two-dimensional array", fd.Name.Name)
		return
	}
	for k, dim := range []int64{outer.Len(), inner.Len()} {
		lr := sc.loop[forms[k].atom()]
		if !lr.ok || lr.lo != 0 || lr.lenOf != nil || lr.hi != dim {
			c.provFail(d, fd.Pos(), "%s: loop %d does not run over [0, %d)", fd.Name.Name, k, dim)
			return
		}
	}
	if outer.Len() != 32 || inner.Len() != 8 {
		c.provFail(d, fd.Pos(), "%s: the table is %dx%d, expected 32x8", fd.Name.Name, outer.Len(), inner.Len())
		return
	}
	c.out.ok("prov", d.name)

	// Later patches of the table (vector back end): every assignment through
	// ED25519_BASEPOINT_TABLE / RISTRETTO_BASEPOINT_TABLE must be one of the
	// approved forms.
	c.provTablePatches(d, pos)
}

// provTablePatches checks the assignments `ED25519_BASEPOINT_TABLE.inner = nil`,
// `.innerVector = <vector constructor>(ED25519_BASEPOINT_POINT)` and
// `RISTRETTO_BASEPOINT_TABLE.inner = *ED25519_BASEPOINT_TABLE` (after the former).
func (c *checker) provTablePatches(d *def, pos token.Pos) {
	pk := c.p.Pkg("curve")
	// the constructor the dynamic API uses for the vector table
	var vecCtor *types.Func
	if _, fd, info := c.funcOf("curve", "newEdwardsBasepointTable"); fd != nil {
		ast.Inspect(fd.Body, func(n ast.Node) bool {
			kv, ok := n.(*ast.KeyValueExpr)
			if !ok {
				return true
			}
			if call, ok := kv.Value.(*ast.CallExpr); ok {
				if fn := calleeOf(info, call); fn != nil && named(fn.Type().(*types.Signature).Results().At(0).Type()) == "curve.edwardsBasepointTableVector" {
					vecCtor = fn
				}
			}
			return true
		})
	}
	targets := map[string]bool{"curve.ED25519_BASEPOINT_TABLE": true, "curve.edwardsBasepointTableInnerDocHidden": true, "curve.RISTRETTO_BASEPOINT_TABLE": true}
	vectorSet, ristrettoSynced := token.NoPos, token.NoPos
	n := 0
	for _, f := range pk.Syntax {
		info := pk.TypesInfo
		ast.Inspect(f, func(node ast.Node) bool {
			as, ok := node.(*ast.AssignStmt)
			if !ok {
				return true
			}
			for i, lhs := range as.Lhs {
				root := rootObj(info, lhs)
				if root == nil || !targets[qualifiedObj(root)] || !isPkgVar(root, qualifiedObj(root)) {
					continue
				}
				n++
				if len(as.Rhs) != len(as.Lhs) {
					c.provFail(d, as.Pos(), "unexpected multi-value assignment to %s", root.Name())
					continue
				}
				rhs := as.Rhs[i]
				sel, _ := strip(lhs).(*ast.SelectorExpr)
				if sel == nil || info.Selections[sel] == nil {
					c.provFail(d, as.Pos(), "%s is overwritten as a whole after initialisation", root.Name())
					continue
				}
				ft := info.TypeOf(lhs)
				switch {
				case root.Name() != "RISTRETTO_BASEPOINT_TABLE" && named(ft) == "curve.edwardsBasepointTableGeneric":
					if tv, ok := info.Types[rhs]; !ok || !tv.IsNil() {
						c.provFail(d, as.Pos(), "the generic table of %s is replaced by something other than nil", root.Name())
					}
				case root.Name() != "RISTRETTO_BASEPOINT_TABLE" && named(ft) == "curve.edwardsBasepointTableVector":
					call, _ := ast.Unparen(rhs).(*ast.CallExpr)
					if call == nil || vecCtor == nil || calleeOf(info, call) != vecCtor || len(call.Args) != 1 ||
						!isPkgVar(rootObj(info, call.Args[0]), "curve.ED25519_BASEPOINT_POINT") || strip(call.Args[0]) != ast.Unparen(call.Args[0]) {
						c.provFail(d, as.Pos(), "the vector table of %s is not built by the dynamic-table constructor from ED25519_BASEPOINT_POINT", root.Name())
					} else {
						vectorSet = as.Pos()
					}
				case root.Name() == "RISTRETTO_BASEPOINT_TABLE" && named(ft) == "curve.EdwardsBasepointTable":
					st, _ := ast.Unparen(rhs).(*ast.StarExpr)
					if st == nil || !isPkgVar(rootObj(info, st.X), "curve.ED25519_BASEPOINT_TABLE") {
						c.provFail(d, as.Pos(), "RISTRETTO_BASEPOINT_TABLE is patched with something other than *ED25519_BASEPOINT_TABLE")
					} else {
						ristrettoSynced = as.Pos()
					}
				default:
					c.provFail(d, as.Pos(), "unexpected assignment to a field of %s", root.Name())
				}
				// only inside init
				if fdecl := enclosingFunc(f, as.Pos()); fdecl == nil || fdecl.Name.Name != "init" || fdecl.Recv != nil {
					c.provFail(d, as.Pos(), "%s is patched outside init", root.Name())
				}
			}
			return true
		})
	}
	hasVector := false
	if v, ok := c.p.Obj("curve", "supportsVectorizedEdwards").(*types.Var); ok && v != nil {
		hasVector = true
	}
	switch {
	case hasVector && !vectorSet.IsValid():
		c.provFail(d, pos, "the vector back end is compiled but init does not build the vector basepoint table")
	case vectorSet.IsValid() && (!ristrettoSynced.IsValid() || ristrettoSynced < vectorSet):
		c.provFail(d, pos, "RISTRETTO_BASEPOINT_TABLE is not re-synchronised after the vector table is installed")
	case !hasVector && n > 0:
		c.provFail(d, pos, "the basepoint table is patched although no vector back end is compiled")
	default:
		c.out.ok("prov", d.name+"#patches")
	}
}

func enclosingFunc(f *ast.File, pos token.Pos) *ast.FuncDecl {
	for _, d := range f.Decls {
		if fd, ok := d.(*ast.FuncDecl); ok && fd.Pos() <= pos && pos < fd.End() {
			return fd
		}
	}
	return nil
}

// provNafTable: const… = unpack(packedX); unpack fills [i] from packed[i] over
// the whole slice.
func provNafTable(c *checker, d *def, l *Lit, pos token.Pos, source string) {
	if l == nil || l.Kind != KCall || l.Fun == nil || len(l.Args) != 1 || l.Args[0].Kind != KRef || qualifiedObj(l.Args[0].Obj) != source {
		c.provFail(d, pos, "is not initialised as unpack(%s)", source)
		return
	}
	if defByName(source) == nil {
		c.provFail(d, pos, "%s has no definition", source)
		return
	}
	setRaw, ok := c.provSetRaw(d, pos)
	fd := c.p.FuncDecl(l.Fun)
	if !ok || fd == nil || fd.Body == nil {
		if ok {
			c.provFail(d, pos, "cannot resolve the unpack routine")
		}
		return
	}
	info := c.p.InfoOf(l.Fun.Pkg())
	sig := l.Fun.Type().(*types.Signature)
	param := sig.Params().At(0)
	sc, tbl, forms, w, ok := c.unpackLoop(d, fd, info, setRaw, param)
	if !ok {
		return
	}
	if len(forms) != 1 || forms[0].atom() == nil || !w.equal(forms[0]) {
		c.provFail(d, fd.Pos(), "%s: entry [i] is not read from packed index i", fd.Name.Name)
		return
	}
	n, _ := arrayLen(tbl.Type())
	lr := sc.loop[forms[0].atom()]
	full := lr.ok && lr.lo == 0 && (lr.lenOf == param || (lr.lenOf == nil && lr.hi == int64(n)))
	if !full {
		c.provFail(d, fd.Pos(), "%s: the loop does not cover the whole packed table", fd.Name.Name)
		return
	}
	if n != 64 {
		c.provFail(d, fd.Pos(), "%s: the table has %d entries, expected 64", fd.Name.Name, n)
		return
	}
	// the packed source must have exactly as many entries as the table
	if src := c.r.resolve(l.Args[0]); src == nil || src.Kind != KList || len(src.Elems) != n {
		c.provFail(d, pos, "%s does not have exactly %d entries", source, n)
		return
	}
	c.out.ok("prov", d.name)
}

// provRistrettoTable: &RistrettoBasepointTable{inner: *ED25519_BASEPOINT_TABLE}.
func provRistrettoTable(c *checker, d *def, l *Lit, pos token.Pos) {
	if l != nil && l.Kind == KAddr && l.X.Kind == KStruct && named(l.X.Type) == "curve.RistrettoBasepointTable" {
		fs := dataFields(l.X)
		if len(fs) == 1 {
			for _, v := range fs {
				if v.Kind == KDeref && v.X.Kind == KRef && qualifiedObj(v.X.Obj) == "curve.ED25519_BASEPOINT_TABLE" {
					c.out.ok("prov", d.name)
					return
				}
			}
		}
	}
	c.provFail(d, pos, "is not &RistrettoBasepointTable{inner: *ED25519_BASEPOINT_TABLE}")
}

// provVectorTable: constVECTOR_… has no initialiser; when the vector back end
// is compiled it is assigned once, in init, the address of a local built by
// newCachedPointNafLookupTable8(<source>).
func provVectorTable(c *checker, d *def, l *Lit, pos token.Pos, source string) {
	if l == nil || l.Kind != KZero {
		c.provFail(d, pos, "has a package-level initialiser")
		return
	}
	pk := c.p.Pkg("curve")
	ctor, _ := c.p.Obj("curve", "newCachedPointNafLookupTable8").(*types.Func)
	info := pk.TypesInfo
	good, bad := 0, 0
	for _, f := range pk.Syntax {
		for _, decl := range f.Decls {
			fd, ok := decl.(*ast.FuncDecl)
			if !ok || fd.Body == nil {
				continue
			}
			var sc *scope
			ast.Inspect(fd.Body, func(node ast.Node) bool {
				as, ok := node.(*ast.AssignStmt)
				if !ok {
					return true
				}
				for i, lhs := range as.Lhs {
					if !isPkgVar(rootObj(info, lhs), d.name) {
						continue
					}
					if sc == nil {
						sc = newScope(info, fd.Body)
					}
					okForm := false
					if id, plain := ast.Unparen(lhs).(*ast.Ident); plain && id != nil && len(as.Rhs) == len(as.Lhs) &&
						fd.Name.Name == "init" && fd.Recv == nil && ctor != nil {
						if u, ok := ast.Unparen(as.Rhs[i]).(*ast.UnaryExpr); ok && u.Op == token.AND {
							if lid, ok := ast.Unparen(u.X).(*ast.Ident); ok {
								if lv, ok := info.Uses[lid].(*types.Var); ok {
									if call, ok := sc.singleDef(lv).(*ast.CallExpr); ok && calleeOf(info, call) == ctor && len(call.Args) == 1 {
										if a, ok := ast.Unparen(call.Args[0]).(*ast.Ident); ok && isPkgVar(info.Uses[a], source) {
											okForm = true
										}
									}
								}
							}
						}
					}
					if okForm {
						good++
					} else {
						bad++
						c.provFail(d, as.Pos(), "is assigned by something other than `&local` with local := newCachedPointNafLookupTable8(%s) in init", source)
					}
				}
				return true
			})
		}
	}
	_, hasVector := c.p.Obj("curve", "supportsVectorizedEdwards").(*types.Var)
	switch {
	case bad > 0:
	case hasVector && good != 1:
		c.provFail(d, pos, "the vector back end is compiled but init assigns the table %d times", good)
	case !hasVector && good > 0:
		c.provFail(d, pos, "is assigned although no vector back end is compiled")
	default:
		if defByName(source) == nil {
			c.provFail(d, pos, "%s has no definition", source)
			return
		}
		c.out.ok("prov", d.name)
	}
}

// funcLitOf returns the immediately invoked function literal of an initialiser.
func funcLitOf(l *Lit) (*ast.FuncLit, *types.Info) {
	if l == nil || l.Kind != KCall || l.FunLit == nil || len(l.Args) != 0 {
		return nil, nil
	}
	return l.FunLit, l.Info
}

// provMethodOnLocal: func() T { var x T; x.M(args...); return x }().
func provMethodOnLocal(c *checker, d *def, l *Lit, pos token.Pos, rel, method string, args []string) {
	fl, info := funcLitOf(l)
	m, _ := c.p.Obj(rel, method).(*types.Func)
	if fl == nil || m == nil {
		c.provFail(d, pos, "is not initialised by an immediately invoked function literal calling %s", method)
		return
	}
	var all []*ast.CallExpr
	ast.Inspect(fl.Body, func(n ast.Node) bool {
		if ce, ok := n.(*ast.CallExpr); ok {
			if tv, isT := info.Types[ce.Fun]; !isT || !tv.IsType() {
				all = append(all, ce)
			}
		}
		return true
	})
	if len(all) != 1 || calleeOf(info, all[0]) != m {
		c.provFail(d, pos, "the initialiser does not consist of exactly one call of %s", method)
		return
	}
	recv := rootObj(info, recvExpr(info, all[0]))
	if rv, ok := recv.(*types.Var); !ok || rv.Parent() == rv.Pkg().Scope() {
		c.provFail(d, pos, "%s is not applied to a local", method)
		return
	}
	if args != nil {
		if len(all[0].Args) != len(args) {
			c.provFail(d, pos, "%s is called with %d arguments", method, len(all[0].Args))
			return
		}
		for i, a := range all[0].Args {
			if !isPkgVar(rootObj(info, a), args[i]) {
				c.provFail(d, a.Pos(), "argument %d of %s is not %s", i, method, args[i])
				return
			}
		}
	}
	rets := returnsOf(fl.Body)
	if len(rets) == 0 {
		c.provFail(d, pos, "the initialiser does not return")
		return
	}
	for _, r := range rets {
		if len(r.Results) != 1 || rootObj(info, r.Results[0]) != recv {
			c.provFail(d, r.Pos(), "the initialiser does not return the local %s was applied to", method)
			return
		}
	}
	// the method's own literal must have a definition (checked separately)
	if args == nil && defByName(rel+"."+method) == nil {
		c.provFail(d, pos, "%s.%s has no definition", rel, method)
		return
	}
	c.out.ok("prov", d.name)
}

// provBasepointOrder: func() *Scalar { s, err := NewFromBits(<bytes of L>); …; return s }().
func provBasepointOrder(c *checker, d *def, l *Lit, pos token.Pos) {
	fl, info := funcLitOf(l)
	nfb, _ := c.p.Obj("curve/scalar", "NewFromBits").(*types.Func)
	if fl == nil || nfb == nil {
		c.provFail(d, pos, "is not initialised by an immediately invoked function literal")
		return
	}
	cs := calls(info, fl.Body, nfb)
	if len(cs) != 1 || len(cs[0].Args) != 1 {
		c.provFail(d, pos, "the initialiser does not contain exactly one NewFromBits call")
		return
	}
	// literal bytes == little-endian L
	lit := c.r.eval(info, cs[0].Args[0], nil, 0)
	got, bp, err := c.r.bytesOf(lit)
	if err != nil {
		c.out.fail("value", c.pos(cs[0].Pos()), d.name, "the NewFromBits argument is not a literal byte array: "+err.Error())
		return
	}
	want := le(L())
	if bytes.Equal(got, want) {
		c.out.ok("value", d.name)
	} else {
		c.out.fail("value", c.pos(bp), d.name, fmt.Sprintf("the literal bytes are %x but L little-endian is %x", got, want))
	}
	// the result of that call is what is returned
	sc := newScope(info, fl.Body)
	var res *types.Var
	for v, defs := range sc.defs {
		for _, e := range defs {
			if e != nil && ast.Unparen(e) == ast.Expr(cs[0]) {
				res = v
			}
		}
	}
	if res == nil {
		// s, err := f(): multi-value definitions are recorded as unknown; find it directly
		ast.Inspect(fl.Body, func(n ast.Node) bool {
			if as, ok := n.(*ast.AssignStmt); ok && len(as.Rhs) == 1 && ast.Unparen(as.Rhs[0]) == ast.Expr(cs[0]) && len(as.Lhs) >= 1 {
				if id, ok := as.Lhs[0].(*ast.Ident); ok {
					if v, ok := info.Defs[id].(*types.Var); ok {
						res = v
					} else if v, ok := info.Uses[id].(*types.Var); ok {
						res = v
					}
				}
			}
			return true
		})
	}
	rets := returnsOf(fl.Body)
	okRet := res != nil && len(rets) > 0
	for _, r := range rets {
		if len(r.Results) == 1 {
			if ce, isCall := ast.Unparen(r.Results[0]).(*ast.CallExpr); isCall && ce == cs[0] {
				continue
			}
		}
		if len(r.Results) != 1 || res == nil || rootObj(info, r.Results[0]) != res || strip(r.Results[0]) != ast.Unparen(r.Results[0]) {
			okRet = false
		}
	}
	if len(sc.defs[res]) != 1 {
		okRet = false // the scalar is reassigned before being returned
	}
	if !okRet {
		c.provFail(d, pos, "the initialiser does not return the scalar produced by NewFromBits")
		return
	}
	c.out.ok("prov", d.name)
}

// provScMinimalOrder: order = func() [4]uint64 { BASEPOINT_ORDER.ToBytes(b[:]);
// for i: ret[i] = LittleEndian.Uint64(b[8i:8i+8]); return ret }().
func provScMinimalOrder(c *checker, d *def, l *Lit, pos token.Pos) {
	fl, info := funcLitOf(l)
	toBytes, _ := c.p.Obj("curve/scalar", "(*Scalar).ToBytes").(*types.Func)
	if fl == nil || toBytes == nil {
		c.provFail(d, pos, "is not initialised by an immediately invoked function literal")
		return
	}
	cs := calls(info, fl.Body, toBytes)
	if len(cs) != 1 || len(cs[0].Args) != 1 || !isPkgVar(rootObj(info, recvExpr(info, cs[0])), "curve/scalar.BASEPOINT_ORDER") {
		c.provFail(d, pos, "the initialiser does not serialise BASEPOINT_ORDER with exactly one ToBytes call")
		return
	}
	sc := newScope(info, fl.Body)
	sl, _ := ast.Unparen(cs[0].Args[0]).(*ast.SliceExpr)
	var buf types.Object
	if sl != nil && sl.Low == nil && sl.High == nil {
		buf = rootObj(info, sl.X)
	}
	if n, ok := arrayLenOfObj(buf); buf == nil || !ok || n != 32 {
		c.provFail(d, cs[0].Pos(), "ToBytes does not fill a whole local 32-byte array")
		return
	}
	// ret[k] = binary.LittleEndian.Uint64(buf[8k : 8k+8])
	var ret types.Object
	found := 0
	bad := ""
	ast.Inspect(fl.Body, func(n ast.Node) bool {
		as, ok := n.(*ast.AssignStmt)
		if !ok || len(as.Lhs) != 1 || len(as.Rhs) != 1 {
			return true
		}
		ix, ok := as.Lhs[0].(*ast.IndexExpr)
		if !ok {
			return true
		}
		call, _ := ast.Unparen(as.Rhs[0]).(*ast.CallExpr)
		fn := (*types.Func)(nil)
		if call != nil {
			fn = calleeOf(info, call)
		}
		if fn == nil || fn.Pkg() == nil || fn.Pkg().Path() != "encoding/binary" || fn.Name() != "Uint64" || len(call.Args) != 1 {
			return true
		}
		if !isLittleEndian(info, call) {
			bad = "the words are not decoded little-endian"
			return true
		}
		found++
		ret = rootObj(info, ix.X)
		k, ok1 := sc.linear(ix.Index, 0)
		arg, _ := ast.Unparen(call.Args[0]).(*ast.SliceExpr)
		if !ok1 || k.atom() == nil || arg == nil || rootObj(info, arg.X) != buf {
			bad = "a word is not decoded from the serialised order"
			return true
		}
		lo, ok2 := sc.linear(arg.Low, 0)
		if arg.Low == nil {
			lo, ok2 = lin{}, true
		}
		if !ok2 || !lo.equal(k.scale(8)) {
			bad = "word i is not read from byte offset 8*i"
			return true
		}
		if arg.High != nil {
			hi, ok3 := sc.linear(arg.High, 0)
			if !ok3 || hi.add(lo, -1).c < 8 || len(hi.add(lo, -1).k) != 0 {
				bad = "word i is read from fewer than eight bytes"
				return true
			}
		}
		lr := sc.loop[k.atom()]
		if n, ok := arrayLenOfObj(ret); !ok || n != 4 || !lr.ok || lr.lo != 0 || lr.lenOf != nil || lr.hi != 4 {
			bad = "the loop does not fill exactly the four words"
		}
		return true
	})
	if found != 1 || bad != "" {
		if bad == "" {
			bad = fmt.Sprintf("found %d word-decoding assignments, expected 1", found)
		}
		c.provFail(d, pos, "%s", bad)
		return
	}
	for _, r := range returnsOf(fl.Body) {
		if len(r.Results) != 1 || rootObj(info, r.Results[0]) != ret {
			c.provFail(d, r.Pos(), "the initialiser does not return the decoded words")
			return
		}
	}
	c.out.ok("prov", d.name)
}

func arrayLenOfObj(o types.Object) (int, bool) {
	if o == nil {
		return 0, false
	}
	return arrayLen(o.Type())
}

// isLittleEndian: the receiver of the Uint64 call is encoding/binary.LittleEndian.
func isLittleEndian(info *types.Info, call *ast.CallExpr) bool {
	sel, ok := ast.Unparen(call.Fun).(*ast.SelectorExpr)
	if !ok {
		return false
	}
	o := rootObj(info, sel.X)
	return o != nil && o.Pkg() != nil && o.Pkg().Path() == "encoding/binary" && o.Name() == "LittleEndian"
}

// provX25519Basepoint: Basepoint has no initialiser and is assigned
// basePoint[:] exactly once, in init.
func provX25519Basepoint(c *checker, d *def, l *Lit, pos token.Pos) {
	pk := c.p.Pkg("primitives/x25519")
	info := pk.TypesInfo
	good, bad := 0, 0
	if l != nil && l.Kind != KZero {
		// the same binding written as a variable initialiser: var Basepoint = basePoint[:]
		okInit := false
		if l.Expr != nil {
			if sl, ok := ast.Unparen(l.Expr).(*ast.SliceExpr); ok && sl.Low == nil && sl.High == nil {
				if id, ok := ast.Unparen(sl.X).(*ast.Ident); ok && isPkgVar(info.Uses[id], "primitives/x25519.basePoint") {
					okInit = true
				}
			}
		}
		if !okInit {
			c.provFail(d, pos, "has a package-level initialiser other than basePoint[:]")
			return
		}
		good++
	}
	for _, f := range pk.Syntax {
		ast.Inspect(f, func(n ast.Node) bool {
			as, ok := n.(*ast.AssignStmt)
			if !ok {
				return true
			}
			for i, lhs := range as.Lhs {
				if !isPkgVar(rootObj(info, lhs), d.name) {
					continue
				}
				fd := enclosingFunc(f, as.Pos())
				okForm := false
				if _, plain := ast.Unparen(lhs).(*ast.Ident); plain && len(as.Rhs) == len(as.Lhs) && fd != nil && fd.Name.Name == "init" && fd.Recv == nil {
					if sl, ok := ast.Unparen(as.Rhs[i]).(*ast.SliceExpr); ok && sl.Low == nil && sl.High == nil {
						if id, ok := ast.Unparen(sl.X).(*ast.Ident); ok && isPkgVar(info.Uses[id], "primitives/x25519.basePoint") {
							okForm = true
						}
					}
				}
				if okForm {
					good++
				} else {
					bad++
					c.provFail(d, as.Pos(), "is assigned something other than basePoint[:] in init")
				}
			}
			return true
		})
	}
	if bad == 0 && good != 1 {
		c.provFail(d, pos, "is assigned %d times", good)
		return
	}
	if bad == 0 {
		c.out.ok("prov", d.name)
	}
}
