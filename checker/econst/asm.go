package econst

// Arithmetic data embedded in the Go-assembly files of a configuration: the
// DATA/GLOBL read-only blocks of the AVX2 back end (constants in 8 x uint32 or
// 4 x uint64 lanes) and the 24 round constants passed as immediates to the
// Keccak round macro.  Assembly has no typed syntax tree; the two directive
// forms are scanned line by line (DESIGN §2.2).  Every GLOBL symbol must be in
// the table below, so a new data block cannot escape.

import (
	"fmt"
	"math/big"
	"os"
	"path/filepath"
	"regexp"
	"sort"
	"strconv"
	"strings"

	"voicheck/load"
)

type asmSym struct {
	name string
	file string
	line int
	size int
	data []byte
	set  []bool
}

var (
	reData  = regexp.MustCompile(`^\s*DATA\s+([A-Za-z_0-9·]+)<>\+(\d+)\(SB\)/(\d+),\s*\$(0x[0-9a-fA-F]+|\d+)\s*(//.*)?$`)
	reGlobl = regexp.MustCompile(`^\s*GLOBL\s+([A-Za-z_0-9·]+)<>\(SB\),\s*[^,]+,\s*\$(\d+)\s*(//.*)?$`)
	reAny   = regexp.MustCompile(`^\s*(DATA|GLOBL)\s`)
	reRound = regexp.MustCompile(`^\s*mKeccakRound\(\s*[^,]+,\s*[^,]+,\s*\$(0x[0-9a-fA-F]+|\d+)\s*,`)
)

// asmFile is the scan result of one .s file.
type asmFile struct {
	path   string
	syms   map[string]*asmSym
	order  []string
	rounds []uint64 // immediates of the Keccak round macro invocations, in order
	rline  []int
	errs   []string
}

func scanAsm(path string) (*asmFile, error) {
	b, err := os.ReadFile(path)
	if err != nil {
		return nil, err
	}
	af := &asmFile{path: path, syms: map[string]*asmSym{}}
	type datum struct {
		sym        string
		off, width int
		val        uint64
		line       int
	}
	var data []datum
	for i, ln := range strings.Split(string(b), "\n") {
		if m := reData.FindStringSubmatch(ln); m != nil {
			off, _ := strconv.Atoi(m[2])
			w, _ := strconv.Atoi(m[3])
			v, err := strconv.ParseUint(m[4], 0, 64)
			if err != nil || (w != 1 && w != 2 && w != 4 && w != 8) {
				af.errs = append(af.errs, fmt.Sprintf("%s:%d: unparsable DATA directive", filepath.Base(path), i+1))
				continue
			}
			data = append(data, datum{m[1], off, w, v, i + 1})
			continue
		}
		if m := reGlobl.FindStringSubmatch(ln); m != nil {
			sz, _ := strconv.Atoi(m[2])
			af.syms[m[1]] = &asmSym{name: m[1], file: path, line: i + 1, size: sz, data: make([]byte, sz), set: make([]bool, sz)}
			af.order = append(af.order, m[1])
			continue
		}
		if reAny.MatchString(ln) {
			af.errs = append(af.errs, fmt.Sprintf("%s:%d: DATA/GLOBL directive in a form the scanner does not understand", filepath.Base(path), i+1))
			continue
		}
		if m := reRound.FindStringSubmatch(ln); m != nil {
			v, err := strconv.ParseUint(m[1], 0, 64)
			if err != nil {
				af.errs = append(af.errs, fmt.Sprintf("%s:%d: unparsable round constant", filepath.Base(path), i+1))
				continue
			}
			af.rounds = append(af.rounds, v)
			af.rline = append(af.rline, i+1)
		}
	}
	for _, d := range data {
		s := af.syms[d.sym]
		if s == nil {
			af.errs = append(af.errs, fmt.Sprintf("%s:%d: DATA for %s without GLOBL", filepath.Base(path), d.line, d.sym))
			continue
		}
		for k := 0; k < d.width; k++ {
			if d.off+k >= s.size || s.set[d.off+k] {
				af.errs = append(af.errs, fmt.Sprintf("%s:%d: DATA for %s overlaps or exceeds the symbol", filepath.Base(path), d.line, d.sym))
				break
			}
			s.data[d.off+k] = byte(d.val >> (8 * uint(k)))
			s.set[d.off+k] = true
		}
		if d.width < 8 && d.val>>(8*uint(d.width)) != 0 {
			af.errs = append(af.errs, fmt.Sprintf("%s:%d: DATA value does not fit its width", filepath.Base(path), d.line))
		}
	}
	for _, n := range af.order {
		for _, ok := range af.syms[n].set {
			if !ok {
				af.errs = append(af.errs, fmt.Sprintf("%s: symbol %s is not fully initialised", filepath.Base(path), n))
				break
			}
		}
	}
	return af, nil
}

func (s *asmSym) lanes(width int) []*big.Int {
	var out []*big.Int
	for o := 0; o+width <= s.size; o += width {
		out = append(out, fromLE(s.data[o:o+width]))
	}
	return out
}

func allEqual(v []*big.Int) bool {
	for _, x := range v {
		if x.Cmp(v[0]) != 0 {
			return false
		}
	}
	return len(v) > 0
}

// The interleaved vector layout (see checkExtendedIdentity): in one 256-bit
// row of 8 x uint32, lanes 0,1,4,5 hold even limbs (26 bits) and lanes 2,3,6,7
// odd limbs (25 bits) of four field elements A (0,2), B (1,3), C (4,6), D (5,7).
var (
	evenLanes = []int{0, 1, 4, 5}
	oddLanes  = []int{2, 3, 6, 7}
	widths255 = []uint{26, 25, 26, 25, 26, 25, 26, 25, 26, 25}
)

// asmDef checks one or several symbols of a package; names lists the symbols it covers.
type asmDef struct {
	rel   string
	names []string
	doc   string
	check func(syms []*asmSym) string // "" = ok
}

func splat(vals ...int64) func([]*asmSym) string {
	return func(s []*asmSym) string {
		width := s[0].size / len(vals)
		l := s[0].lanes(width)
		for i, v := range vals {
			if l[i].Cmp(big.NewInt(v)) != 0 {
				return fmt.Sprintf("lane %d is %#x, defined %#x", i, l[i], v)
			}
		}
		return ""
	}
}

// multipleOfP: rows lo (limbs 0,1) and hi (limbs 2k, 2k+1) of a uint32x8
// splatted limb vector; uniform over the four elements; a positive multiple of p.
func multipleOfP(s []*asmSym) string {
	lo, hi := s[0].lanes(4), s[1].lanes(4)
	pick := func(l []*big.Int, idx []int) (*big.Int, bool) {
		for _, i := range idx {
			if l[i].Cmp(l[idx[0]]) != 0 {
				return nil, false
			}
		}
		return l[idx[0]], true
	}
	l0, ok0 := pick(lo, evenLanes)
	l1, ok1 := pick(lo, oddLanes)
	he, ok2 := pick(hi, evenLanes)
	ho, ok3 := pick(hi, oddLanes)
	if !ok0 || !ok1 || !ok2 || !ok3 {
		return "the four interleaved elements do not carry the same limb"
	}
	lm := &Limbs{Widths: widths255, V: []*big.Int{l0, l1, he, ho, he, ho, he, ho, he, ho}}
	v := lm.Value()
	if v.Sign() <= 0 || new(big.Int).Mod(v, fieldP).Sign() != 0 {
		return fmt.Sprintf("the limb vector %v denotes %s, not a positive multiple of p", lm.V, v)
	}
	return ""
}

func asmDefs() []asmDef {
	m26 := int64(1<<26 - 1)
	m25 := int64(1<<25 - 1)
	shuffle := func(s []*asmSym) string {
		for i, l := range s[0].lanes(4) {
			if l.Cmp(big.NewInt(7)) > 0 {
				return fmt.Sprintf("lane %d selects lane %s of an 8-lane vector", i, l)
			}
		}
		return ""
	}
	out := []asmDef{
		{"curve", []string{"reduce_shifts"}, "per-lane carry shifts: 26 for even-limb lanes, 25 for odd-limb lanes", splat(26, 26, 25, 25, 26, 26, 25, 25)},
		{"curve", []string{"reduce_masks"}, "per-lane limb masks: 2^26-1 for even-limb lanes, 2^25-1 for odd-limb lanes", splat(m26, m26, m25, m25, m26, m26, m25, m25)},
		{"curve", []string{"v19"}, "19 = 2^255 mod p in four 64-bit lanes", splat(19, 19, 19, 19)},
		{"curve", []string{"p_times_16_lo", "p_times_16_hi"}, "limbs (0,1) and (2k,2k+1) of a positive multiple of p, splatted over the four elements", multipleOfP},
		{"curve", []string{"p_times_2_lo", "p_times_2_hi"}, "limbs (0,1) and (2k,2k+1) of a positive multiple of p, splatted over the four elements", multipleOfP},
		{"curve", []string{"low_25_bit_mask"}, "2^25-1 in four 64-bit lanes", splat(m25, m25, m25, m25)},
		{"curve", []string{"low_26_bit_mask"}, "2^26-1 in four 64-bit lanes", splat(m26, m26, m26, m26)},
		{"curve", []string{"to_cached_scalar"}, "(k, k, 2k, 2m) in four 64-bit lanes with d = -m/k (k = 121666, m = 121665)", func(s []*asmSym) string {
			l := s[0].lanes(8)
			if l[0].Sign() == 0 || l[0].Cmp(l[1]) != 0 || l[2].Cmp(new(big.Int).Lsh(l[0], 1)) != 0 {
				return fmt.Sprintf("lanes %v are not (k, k, 2k, ·)", l)
			}
			if fNeg(fDiv(l[3], l[2])).Cmp(curveD()) != 0 {
				return fmt.Sprintf("-lane3/lane2 = -%s/%s is not d", l[3], l[2])
			}
			if l[0].Cmp(big.NewInt(121666)) != 0 {
				return fmt.Sprintf("k = %s, but the cached identity and d = -121665/121666 fix k = 121666", l[0])
			}
			return ""
		}},
		{"curve", []string{"low_p_37", "even_p_37", "odd_p_37"}, "limb 0, even limbs and odd limbs of a positive multiple of p (p << 37) in four 64-bit lanes", func(s []*asmSym) string {
			lo, ev, od := s[0].lanes(8), s[1].lanes(8), s[2].lanes(8)
			if !allEqual(lo) || !allEqual(ev) || !allEqual(od) {
				return "the four lanes of a symbol differ"
			}
			lm := &Limbs{Widths: widths255, V: []*big.Int{lo[0], od[0], ev[0], od[0], ev[0], od[0], ev[0], od[0], ev[0], od[0]}}
			v := lm.Value()
			if v.Sign() <= 0 || new(big.Int).Mod(v, fieldP).Sign() != 0 {
				return fmt.Sprintf("the limb vector %x denotes %s, not a positive multiple of p", lm.V, v)
			}
			return ""
		}},
		{"curve", []string{"cached_id_0", "cached_id_1", "cached_id_2_4"}, "the identity as a cached point: (Y+X, Y-X, Z, T2d) scaled = (121666, 121666, 2*121666, 0) mod p; rows 0, 1 and 2..4 of the interleaved layout", func(s []*asmSym) string {
			rows := [][]*big.Int{s[0].lanes(4), s[1].lanes(4), s[2].lanes(4), s[2].lanes(4), s[2].lanes(4)}
			lane := [4][2]int{{0, 2}, {1, 3}, {4, 6}, {5, 7}}
			want := []*big.Int{big.NewInt(121666), big.NewInt(121666), big.NewInt(2 * 121666), big.NewInt(0)}
			for e := 0; e < 4; e++ {
				lm := &Limbs{Widths: widths255}
				for i := 0; i < 5; i++ {
					lm.V = append(lm.V, rows[i][lane[e][0]], rows[i][lane[e][1]])
				}
				for i, v := range lm.V { // lazily reduced: at most one excess bit
					if v.BitLen() > int(widths255[i])+1 {
						return fmt.Sprintf("limb %d of element %c has more than %d bits", i, "ABCD"[e], widths255[i]+1)
					}
				}
				if fNorm(lm.Value()).Cmp(want[e]) != 0 {
					return fmt.Sprintf("element %c is %s mod p, defined %s", "ABCD"[e], fNorm(lm.Value()), want[e])
				}
			}
			return ""
		}},
	}
	for _, n := range []string{"shuffle_AAAA", "shuffle_ABDC", "shuffle_ADDA", "shuffle_BACD", "shuffle_BBBB", "shuffle_CACA", "shuffle_CBCB", "shuffle_DBDB"} {
		out = append(out, asmDef{"curve", []string{n}, "lane permutation control (not arithmetic; only lane indices < 8 are required here)", shuffle})
	}
	return out
}

// asmScan scans every assembly file of the module packages of this configuration.
func (c *checker) asmScan() map[string][]*asmFile {
	out := map[string][]*asmFile{}
	for _, pk := range c.p.Pkgs {
		rel := relOf(pk.Types)
		for _, f := range pk.OtherFiles {
			if !strings.HasSuffix(f, ".s") {
				continue
			}
			af, err := scanAsm(f)
			if err != nil {
				c.out.fatal("E-CONST: cannot read %s: %v", f, err)
				continue
			}
			for _, e := range af.errs {
				c.out.fail("asm", e, "asm:"+rel, "assembly data directive cannot be interpreted: "+e)
			}
			out[rel] = append(out[rel], af)
		}
	}
	return out
}

func (c *checker) asmPos(file string, line int) string {
	return fmt.Sprintf("%s:%d", strings.TrimPrefix(file, repoPrefix()), line)
}

func repoPrefix() string { return load.RepoDir() + "/" }

func (c *checker) asmAll() { c.asmRun("") }

// asmNamed checks one symbol group ("curve.v19") or the Keccak immediates
// ("internal/strobe.keccak-rc").
func (c *checker) asmNamed(n string) { c.asmRun(n) }

func (c *checker) asmRun(only string) {
	files := c.asmScan()
	covered := map[string]bool{}
	matched := false
	for _, d := range asmDefs() {
		var syms []*asmSym
		missing := false
		for _, n := range d.names {
			var s *asmSym
			for _, af := range files[d.rel] {
				if x := af.syms[n]; x != nil {
					s = x
				}
			}
			if s == nil {
				missing = true
				break
			}
			syms = append(syms, s)
		}
		for _, n := range d.names {
			covered[d.rel+"."+n] = true
		}
		construct := "asm:" + d.rel + "." + d.names[0]
		if only != "" && only != d.rel+"."+d.names[0] {
			continue
		}
		matched = matched || only != ""
		if missing {
			// the whole group must be absent (configuration without this assembly file)
			for _, n := range d.names {
				for _, af := range files[d.rel] {
					if af.syms[n] != nil {
						c.out.fail("asm", c.asmPos(af.path, af.syms[n].line), construct, "symbol group "+strings.Join(d.names, ",")+" is only partly present")
					}
				}
			}
			if only != "" {
				c.out.fail("asm", "-", construct, "not present in configuration "+c.p.Cfg.ID)
			}
			continue
		}
		if msg := d.check(syms); msg == "" {
			c.out.okn("asm", construct, len(syms))
		} else {
			c.out.fail("asm", c.asmPos(syms[0].file, syms[0].line), construct, msg+" (definition: "+d.doc+")")
		}
	}
	// Keccak round-constant immediates
	if only == "" || only == "internal/strobe.keccak-rc" {
		matched = matched || only != ""
		want := keccakRC()
		n := 0
		for _, af := range files["internal/strobe"] {
			if len(af.rounds) == 0 {
				continue
			}
			n++
			if len(af.rounds) != 24 {
				c.out.fail("asm", c.asmPos(af.path, 1), "asm:internal/strobe.keccak-rc", fmt.Sprintf("%d round-macro invocations with an immediate round constant, Keccak-f[1600] has 24 rounds", len(af.rounds)))
				continue
			}
			for i, v := range af.rounds {
				construct := fmt.Sprintf("asm:internal/strobe.keccak-rc[%d]", i)
				if v == want[i] {
					c.out.ok("asm", construct)
				} else {
					c.out.fail("asm", c.asmPos(af.path, af.rline[i]), construct, fmt.Sprintf("round %d uses the immediate %#016x but RC[%d] of Keccak-f[1600] is %#016x", i, v, i, want[i]))
				}
			}
		}
		// a configuration must have exactly one Keccak: the Go table or the assembly
		_, goTable := c.seen["internal/strobe.rc"]
		if only == "" {
			switch {
			case n == 0 && !goTable:
				c.out.fail("asm", "-", "asm:internal/strobe.keccak-rc", "configuration "+c.p.Cfg.ID+" has neither the Go round-constant table nor assembly round constants")
			case n > 1:
				c.out.fail("asm", "-", "asm:internal/strobe.keccak-rc", "more than one assembly file carries Keccak round constants")
			}
		} else if n == 0 {
			c.out.fail("asm", "-", "asm:internal/strobe.keccak-rc", "not present in configuration "+c.p.Cfg.ID)
		}
	}
	if only != "" {
		if !matched {
			c.out.fail("complete", "-", "asm:"+only, "E-CONST has no definition for this assembly symbol")
		}
		return
	}
	// completeness: every data symbol of every assembly file is in the table
	var rels []string
	for r := range files {
		rels = append(rels, r)
	}
	sort.Strings(rels)
	for _, r := range rels {
		for _, af := range files[r] {
			for _, n := range af.order {
				if covered[r+"."+n] {
					c.out.ok("complete", "asm:"+r+"."+n)
				} else {
					c.out.fail("complete", c.asmPos(af.path, af.syms[n].line), "asm:"+r+"."+n, "assembly data symbol has no entry in the E-CONST definition table")
				}
			}
		}
	}
}
