package econst

// Expected contents of the precomputed tables, from the oracle.

import (
	"math/big"
	"sync"
)

var (
	tabOnce    sync.Once
	tabBase    [256]Point // entry 8i+j = [(j+1) * 256^i] B
	tabOddB    [64]Point  // entry j = [2j+1] B
	tabOddB128 [64]Point  // entry j = [2j+1] [2^128] B
	ptB128     Point      // [2^128] B
)

func buildTables() {
	tabOnce.Do(func() {
		b := Basepoint()
		// fixed-base table: P_i = 256^i B by eight doublings, multiples by
		// repeated addition.
		pi := b
		for i := 0; i < 32; i++ {
			acc := pi
			for j := 0; j < 8; j++ {
				tabBase[8*i+j] = acc
				acc = acc.Add(pi)
			}
			for k := 0; k < 8; k++ {
				pi = pi.Double()
			}
		}
		ptB128 = b.Mul(pow2(128))
		odd := func(dst *[64]Point, q Point) {
			q2 := q.Double()
			acc := q
			for j := 0; j < 64; j++ {
				dst[j] = acc
				acc = acc.Add(q2)
			}
		}
		odd(&tabOddB, b)
		odd(&tabOddB128, ptB128)
	})
}

// nielsBytes is the packed affine-Niels form of q: the canonical little-endian
// encodings of y+x, y-x and 2dxy.
func nielsBytes(q Point) [96]byte {
	var out [96]byte
	a := le32(fAdd(q.Y, q.X))
	b := le32(fSub(q.Y, q.X))
	c := le32(fMul(fMul(big.NewInt(2), curveD()), fMul(q.X, q.Y)))
	copy(out[0:32], a[:])
	copy(out[32:64], b[:])
	copy(out[64:96], c[:])
	return out
}

// torsionGenerator is T8, the generator of E[8] the repository's table is
// defined from: the point of order 8 with
// y = 55188659117513257062467267217118295137698188065244968500265048394206261417927
// (one of the two order-8 y-coordinates of the well-known small-order point
// list: encodings c7176a70…037a / 26e8958f…fc05) and the sign of x given by
// negX.  The oracle verifies that the point has order exactly 8.
func torsionGenerator(negX bool) (Point, bool) {
	y := bi("55188659117513257062467267217118295137698188065244968500265048394206261417927")
	x, ok := recoverX(y, negX)
	if !ok {
		return Point{}, false
	}
	q := Point{x, y}
	return q, q.OnCurve() && torsionOrder(q) == 8
}
