// Package econst is the E-CONST engine of DESIGN.md §3: it reads literal data
// (composite literals, constant call arguments) from the typed syntax trees of a
// loaded configuration and compares it with definitions evaluated by an
// independent big-integer oracle.
//
// This file is the oracle.  It is written with math/big only; it shares no code
// with /repo, with crypto/* or with x/crypto.  Every quantity is computed from
// its defining formula; where a specification prints the value (RFC 8032 §5.1,
// RFC 9496 §4.1, RFC 7748 §4.1, the Keccak reference) the printed value is kept
// as a second, independent witness and SelfCheck compares the two at start-up.
package econst

import (
	"fmt"
	"math/big"
	"sync"
)

// ---------------------------------------------------------------------------
// integers

func bi(s string) *big.Int {
	v, ok := new(big.Int).SetString(s, 0)
	if !ok {
		panic("econst: bad integer literal " + s)
	}
	return v
}

func pow2(k uint) *big.Int { return new(big.Int).Lsh(big.NewInt(1), k) }

var (
	big0 = big.NewInt(0)
	big1 = big.NewInt(1)
	big2 = big.NewInt(2)

	// p = 2^255 - 19 (RFC 7748 §4.1, RFC 8032 §5.1).
	fieldP = new(big.Int).Sub(pow2(255), big.NewInt(19))

	// L = 2^252 + 27742317777372353535851937790883648493 (RFC 8032 §5.1).
	orderL = new(big.Int).Add(pow2(252), bi("27742317777372353535851937790883648493"))

	// Montgomery curve coefficient of curve25519 (RFC 7748 §4.1).
	montA = big.NewInt(486662)
)

// P returns the field prime 2^255-19 (a fresh copy).
func P() *big.Int { return new(big.Int).Set(fieldP) }

// L returns the order of the prime-order subgroup (a fresh copy).
func L() *big.Int { return new(big.Int).Set(orderL) }

// ---------------------------------------------------------------------------
// GF(p)

func fNorm(a *big.Int) *big.Int   { return new(big.Int).Mod(a, fieldP) }
func fAdd(a, b *big.Int) *big.Int { return fNorm(new(big.Int).Add(a, b)) }
func fSub(a, b *big.Int) *big.Int { return fNorm(new(big.Int).Sub(a, b)) }
func fMul(a, b *big.Int) *big.Int { return fNorm(new(big.Int).Mul(a, b)) }
func fNeg(a *big.Int) *big.Int    { return fNorm(new(big.Int).Neg(a)) }
func fSqr(a *big.Int) *big.Int    { return fMul(a, a) }
func fPow(a, e *big.Int) *big.Int { return new(big.Int).Exp(a, e, fieldP) }
func fInt(v int64) *big.Int       { return fNorm(big.NewInt(v)) }

// fInv is a^(p-2) (Fermat); inv(0) = 0.
func fInv(a *big.Int) *big.Int    { return fPow(a, new(big.Int).Sub(fieldP, big2)) }
func fDiv(a, b *big.Int) *big.Int { return fMul(a, fInv(b)) }

// fIsNeg is the sign convention of RFC 8032 / RFC 9496 / RFC 9380 sgn0 for a
// prime field: the least significant bit of the canonical representative.
func fIsNeg(a *big.Int) bool { return fNorm(a).Bit(0) == 1 }

// fAbs returns the non-negative (even) one of ±a.
func fAbs(a *big.Int) *big.Int {
	if fIsNeg(a) {
		return fNeg(a)
	}
	return fNorm(a)
}

// sqrtM1 is 2^((p-1)/4), the square root of -1 fixed by RFC 8032 §5.1.3 and
// printed as SQRT_M1 in RFC 9496 §4.1.
func sqrtM1() *big.Int {
	e := new(big.Int).Rsh(new(big.Int).Sub(fieldP, big1), 2)
	return fPow(big2, e)
}

// fSqrt returns some square root of a (RFC 8032 §5.1.3: candidate
// a^((p+3)/8), multiplied by sqrt(-1) when its square is -a) and whether a is
// a square.  The sign of the result is NOT specified; callers fix it.
func fSqrt(a *big.Int) (*big.Int, bool) {
	a = fNorm(a)
	e := new(big.Int).Rsh(new(big.Int).Add(fieldP, big.NewInt(3)), 3)
	r := fPow(a, e)
	if fSqr(r).Cmp(a) == 0 {
		return r, true
	}
	r = fMul(r, sqrtM1())
	if fSqr(r).Cmp(a) == 0 {
		return r, true
	}
	return nil, false
}

// sqrtRatioM1 is SQRT_RATIO_M1 of RFC 9496 §4.2.
func sqrtRatioM1(u, v *big.Int) (wasSquare bool, r *big.Int) {
	i := sqrtM1()
	v3 := fMul(fSqr(v), v)
	v7 := fMul(fSqr(v3), v)
	e := new(big.Int).Rsh(new(big.Int).Sub(fieldP, big.NewInt(5)), 3)
	r = fMul(fMul(u, v3), fPow(fMul(u, v7), e))
	check := fMul(v, fSqr(r))
	correct := check.Cmp(fNorm(u)) == 0
	flipped := check.Cmp(fNeg(u)) == 0
	flippedI := check.Cmp(fNeg(fMul(u, i))) == 0
	if flipped || flippedI {
		r = fMul(r, i)
	}
	return correct || flipped, fAbs(r)
}

// ---------------------------------------------------------------------------
// the twisted Edwards curve -x^2 + y^2 = 1 + d x^2 y^2

// Point is an affine point of edwards25519.
type Point struct{ X, Y *big.Int }

// edD is d = -121665/121666.
func edD() *big.Int { return fDiv(fInt(-121665), fInt(121666)) }

var (
	dOnce sync.Once
	dVal  *big.Int
)

func curveD() *big.Int {
	dOnce.Do(func() { dVal = edD() })
	return dVal
}

// Identity is the neutral element (0, 1).
func Identity() Point { return Point{big.NewInt(0), big.NewInt(1)} }

// OnCurve reports whether q satisfies the curve equation.
func (q Point) OnCurve() bool {
	x2, y2 := fSqr(q.X), fSqr(q.Y)
	return fSub(y2, x2).Cmp(fAdd(big1, fMul(curveD(), fMul(x2, y2)))) == 0
}

// Equal compares affine coordinates.
func (q Point) Equal(r Point) bool {
	return fNorm(q.X).Cmp(fNorm(r.X)) == 0 && fNorm(q.Y).Cmp(fNorm(r.Y)) == 0
}

// Add is the unified (complete, because d is a non-square) addition law.
func (q Point) Add(r Point) Point {
	x1x2, y1y2 := fMul(q.X, r.X), fMul(q.Y, r.Y)
	k := fMul(curveD(), fMul(x1x2, y1y2))
	x3 := fDiv(fAdd(fMul(q.X, r.Y), fMul(q.Y, r.X)), fAdd(big1, k))
	y3 := fDiv(fAdd(y1y2, x1x2), fSub(big1, k))
	return Point{x3, y3}
}

// Neg is (-x, y).
func (q Point) Neg() Point { return Point{fNeg(q.X), fNorm(q.Y)} }

// Double is q+q.
func (q Point) Double() Point { return q.Add(q) }

// Mul is [k]q by left-to-right double-and-add (k >= 0).
func (q Point) Mul(k *big.Int) Point {
	acc := Identity()
	for i := k.BitLen() - 1; i >= 0; i-- {
		acc = acc.Double()
		if k.Bit(i) == 1 {
			acc = acc.Add(q)
		}
	}
	return acc
}

// Basepoint is B = (x, 4/5) with x "positive" (even), RFC 8032 §5.1.
func Basepoint() Point {
	y := fDiv(fInt(4), fInt(5))
	x, ok := recoverX(y, false)
	if !ok {
		panic("econst: 4/5 is not the y-coordinate of a curve point")
	}
	return Point{x, y}
}

// recoverX solves the curve equation for x with the requested sign
// (RFC 8032 §5.1.3): x^2 = (y^2-1)/(d y^2+1).
func recoverX(y *big.Int, negative bool) (*big.Int, bool) {
	y2 := fSqr(y)
	x2 := fDiv(fSub(y2, big1), fAdd(fMul(curveD(), y2), big1))
	x, ok := fSqrt(x2)
	if !ok {
		return nil, false
	}
	if fIsNeg(x) != negative {
		x = fNeg(x)
	}
	if x.Sign() == 0 && negative {
		return nil, false
	}
	return x, true
}

// le32 is the 32-byte little-endian encoding of a (a < 2^256).
func le32(a *big.Int) [32]byte {
	var out [32]byte
	b := a.Bytes()
	if len(b) > 32 {
		panic("econst: le32 overflow")
	}
	for i := range b {
		out[len(b)-1-i] = b[i]
	}
	return out
}

// fromLE interprets little-endian bytes as a non-negative integer.
func fromLE(b []byte) *big.Int {
	be := make([]byte, len(b))
	for i := range b {
		be[len(b)-1-i] = b[i]
	}
	return new(big.Int).SetBytes(be)
}

// Compress is the RFC 8032 §5.1.2 encoding.
func (q Point) Compress() [32]byte {
	out := le32(fNorm(q.Y))
	if fIsNeg(q.X) {
		out[31] |= 0x80
	}
	return out
}

// MontgomeryU is u = (1+y)/(1-y) (RFC 7748 §4.1).
func (q Point) MontgomeryU() *big.Int {
	return fDiv(fAdd(big1, q.Y), fSub(big1, q.Y))
}

// Ristretto constants by their definitions (RFC 9496 §4.1); the printed values
// are compared in SelfCheck.  Signs of the two roots are those the RFC prints,
// see specRoot.
func oneMinusDSq() *big.Int { return fSub(big1, fSqr(curveD())) }
func dMinusOneSq() *big.Int { return fSqr(fSub(curveD(), big1)) }

// specRoot returns the root of a that equals the literal a specification
// prints; it panics if the printed literal is not a root of a (then either the
// transcription or the oracle is wrong and nothing may be concluded).
func specRoot(name string, a, printed *big.Int) *big.Int {
	r, ok := fSqrt(a)
	if !ok {
		panic("econst: " + name + ": radicand is not a square")
	}
	if r.Cmp(printed) == 0 || fNeg(r).Cmp(printed) == 0 {
		return new(big.Int).Set(printed)
	}
	panic("econst: " + name + ": the printed value is not a square root of its radicand")
}

// RistrettoEncode is the encoding function of RFC 9496 §4.3.2 applied to the
// extended coordinates (x, y, 1, xy) of q.
func (q Point) RistrettoEncode() [32]byte {
	i := sqrtM1()
	x0, y0, z0 := fNorm(q.X), fNorm(q.Y), big.NewInt(1)
	t0 := fMul(x0, y0)
	u1 := fMul(fAdd(z0, y0), fSub(z0, y0))
	u2 := fMul(x0, y0)
	_, invsqrt := sqrtRatioM1(big1, fMul(u1, fSqr(u2)))
	den1 := fMul(invsqrt, u1)
	den2 := fMul(invsqrt, u2)
	zInv := fMul(fMul(den1, den2), t0)
	ix0 := fMul(x0, i)
	iy0 := fMul(y0, i)
	ench := fMul(den1, specInvsqrtAMinusD())
	rotate := fIsNeg(fMul(t0, zInv))
	x, y, denInv := x0, y0, den2
	if rotate {
		x, y, denInv = iy0, ix0, ench
	}
	if fIsNeg(fMul(x, zInv)) {
		y = fNeg(y)
	}
	s := fAbs(fMul(denInv, fSub(z0, y)))
	return le32(s)
}

// ---------------------------------------------------------------------------
// values printed by specifications (second, independent witnesses)

var (
	// RFC 8032 §5.1.
	printedD  = bi("37095705934669439343138083508754565189542113879843219016388785533085940283555")
	printedBx = bi("15112221349535400772501151409588531511454012693041857206046113283949847762202")
	printedBy = bi("46316835694926478169428394003475163141307993866256225615783033603165251855960")
	printedL  = bi("0x1000000000000000000000000000000014def9dea2f79cd65812631a5cf5d3ed")

	// RFC 9496 §4.1.
	printedSqrtM1         = bi("19681161376707505956807079304988542015446066515923890162744021073123829784752")
	printedSqrtADMinusOne = bi("25063068953384623474111414158702152701244531502492656460079210482610430750235")
	printedInvsqrtAMinusD = bi("54469307008909316920995813868745141605393597292927456921205312896311721017578")
	printedOneMinusDSq    = bi("1159843021668779879193775521855586647937357759715417654439879720876111806838")
	printedDMinusOneSq    = bi("40440834346308536858101042469323190826248399146238708352240133220865137265952")

	// RFC 9496 Appendix A.1: the encoding of the generator (1*B).
	printedRistrettoB = "e2f2ae0a6abc4e71a884a961c500515f58e30b6aa582dd8db6a65945e08d2d76"

	// RFC 7748 §4.1: curve25519 base point u = 9 and the v coordinate printed
	// there (up to sign: the RFC's erratum replaces it by its negation, which is
	// the one the birational map sends to the Ed25519 base point).
	printedMontU = big.NewInt(9)
	printedMontV = bi("14781619447589544791020593568409986887264606134616475288964881837755586237401")

	// RFC 8032 §5.1.2 / the well known encoding of B: 0x58 followed by 0x66 x 31.
	printedCompressedB = "5866666666666666666666666666666666666666666666666666666666666666"

	// Keccak-f[1600] round constants as printed in the Keccak reference
	// (FIPS 202 defines them through the LFSR of §3.2.5, see keccakRC).
	printedKeccakRC = [24]uint64{
		0x0000000000000001, 0x0000000000008082, 0x800000000000808A, 0x8000000080008000,
		0x000000000000808B, 0x0000000080000001, 0x8000000080008081, 0x8000000000008009,
		0x000000000000008A, 0x0000000000000088, 0x0000000080008009, 0x000000008000000A,
		0x000000008000808B, 0x800000000000008B, 0x8000000000008089, 0x8000000000008003,
		0x8000000000008002, 0x8000000000000080, 0x000000000000800A, 0x800000008000000A,
		0x8000000080008081, 0x8000000000008080, 0x0000000080000001, 0x8000000080008008,
	}
)

// specSqrtADMinusOne is sqrt(a*d-1), a = -1, with the sign RFC 9496 prints.
func specSqrtADMinusOne() *big.Int {
	return specRoot("SQRT_AD_MINUS_ONE", fSub(fNeg(curveD()), big1), printedSqrtADMinusOne)
}

// specInvsqrtAMinusD is 1/sqrt(a-d), a = -1, with the sign RFC 9496 prints.
func specInvsqrtAMinusD() *big.Int {
	return specRoot("INVSQRT_A_MINUS_D", fInv(fSub(fNeg(big1), curveD())), printedInvsqrtAMinusD)
}

// ---------------------------------------------------------------------------
// Elligator 2 / curve25519 (RFC 7748 §4.1, RFC 9380 §6.8.2 and Appendix G.2.2)

// elligatorSqrtNegAPlusTwo is sqrt(-(A+2)) = sqrt(-486664), the factor of the
// birational map (x, y) = (sqrt(-486664)*u/v, (u-1)/(u+1)).  The sign is fixed
// by RFC 9380 ("sgn0(c1) MUST equal 0"); SelfCheck additionally verifies that
// this root sends the RFC 7748 base point (9, ±v) to the Ed25519 base point.
func elligatorSqrtNegAPlusTwo() *big.Int {
	r, ok := fSqrt(fNeg(fAdd(montA, big2)))
	if !ok {
		panic("econst: -(A+2) is not a square")
	}
	return fAbs(r)
}

// elligatorUFactor is -2*sqrt(-1), sqrt(-1) = 2^((p-1)/4) (Monocypher's
// "ufactor = -non_square * sqrtm1" with non_square = 2).
func elligatorUFactor() *big.Int { return fNeg(fMul(big2, sqrtM1())) }

// elligatorVFactor is sqrt(U_FACTOR), the non-negative root in the sign
// convention used throughout (least significant bit clear, RFC 8032 / RFC 9496
// IS_NEGATIVE, the repository's IsNegative).  The Elligator map normalises the
// sign of v afterwards, so the choice of root is a matter of definition; the
// definition is the abs() of the reference implementation.  SelfCheck verifies
// the closed form 1 - sqrt(-1).
func elligatorVFactor() *big.Int {
	r, ok := fSqrt(elligatorUFactor())
	if !ok {
		panic("econst: -2*sqrt(-1) is not a square")
	}
	return fAbs(r)
}

// ---------------------------------------------------------------------------
// scalar field

// montR returns 2^k mod L.
func montR(k uint) *big.Int { return new(big.Int).Mod(pow2(k), orderL) }

// montRR returns (2^k)^2 mod L.
func montRR(k uint) *big.Int {
	r := montR(k)
	return r.Mul(r, r).Mod(r, orderL)
}

// lFactor returns the x in [0, 2^w) with x*L = -1 mod 2^w.
func lFactor(w uint) *big.Int {
	m := pow2(w)
	inv := new(big.Int).ModInverse(new(big.Int).Mod(orderL, m), m)
	return inv.Sub(m, inv).Mod(inv, m)
}

// ---------------------------------------------------------------------------
// Keccak-f[1600] round constants from the LFSR of FIPS 202 §3.2.5

// keccakRC computes RC[0..23]: bit 2^j - 1 of RC[ir] is rc(j + 7 ir),
// rc(t) the output of the LFSR x^8 + x^6 + x^5 + x^4 + 1.
func keccakRC() [24]uint64 {
	rcBit := func(t int) uint64 {
		t %= 255
		if t == 0 {
			return 1
		}
		// R is kept as bits R[0..8], R[0] the newest.
		var r [9]uint8
		r = [9]uint8{1, 0, 0, 0, 0, 0, 0, 0, 0}
		for i := 1; i <= t; i++ {
			// R = 0 || R
			copy(r[1:], r[:8])
			r[0] = 0
			r[0] ^= r[8]
			r[4] ^= r[8]
			r[5] ^= r[8]
			r[6] ^= r[8]
			// R = Trunc8[R] (r[8] is dropped on the next shift)
		}
		return uint64(r[0])
	}
	var out [24]uint64
	for ir := 0; ir < 24; ir++ {
		var v uint64
		for j := 0; j <= 6; j++ {
			v |= rcBit(j+7*ir) << ((1 << uint(j)) - 1)
		}
		out[ir] = v
	}
	return out
}

// ---------------------------------------------------------------------------
// torsion

// torsionOrder returns the order of q if it divides 8, else 0.
func torsionOrder(q Point) int {
	acc := q
	for o := 1; o <= 8; o *= 2 {
		if acc.Equal(Identity()) {
			return o
		}
		acc = acc.Double()
	}
	return 0
}

// ---------------------------------------------------------------------------
// self check

var (
	selfOnce sync.Once
	selfErr  error
)

// SelfCheck compares the oracle with every value a specification prints.  Any
// disagreement means the oracle (or a transcription) is wrong, so no verdict
// about the repository may be drawn: callers must fail the run.
func SelfCheck() error {
	selfOnce.Do(func() { selfErr = selfCheck() })
	return selfErr
}

func selfCheck() (err error) {
	defer func() {
		if e := recover(); e != nil {
			err = fmt.Errorf("oracle self check panicked: %v", e)
		}
	}()
	var bad []string
	eq := func(name string, got, want *big.Int) {
		if got.Cmp(want) != 0 {
			bad = append(bad, fmt.Sprintf("%s: oracle %s, specification prints %s", name, got, want))
		}
	}
	eq("p (RFC 8032: 2^255-19)", fieldP, bi("57896044618658097711785492504343953926634992332820282019728792003956564819949"))
	eq("L (RFC 8032 §5.1)", orderL, printedL)
	eq("L (decimal)", orderL, bi("7237005577332262213973186563042994240857116359379907606001950938285454250989"))
	eq("d (RFC 8032 §5.1)", curveD(), printedD)
	b := Basepoint()
	eq("B.x (RFC 8032 §5.1)", b.X, printedBx)
	eq("B.y (RFC 8032 §5.1)", b.Y, printedBy)
	if !b.OnCurve() {
		bad = append(bad, "B is not on the curve")
	}
	if !b.Mul(orderL).Equal(Identity()) || b.Mul(big.NewInt(8)).Equal(Identity()) {
		bad = append(bad, "[L]B != identity")
	}
	if got := fmt.Sprintf("%x", b.Compress()); got != printedCompressedB {
		bad = append(bad, "compressed B: oracle "+got)
	}
	eq("SQRT_M1 (RFC 9496 §4.1)", sqrtM1(), printedSqrtM1)
	eq("SQRT_M1^2 = -1", fSqr(sqrtM1()), fNeg(big1))
	eq("ONE_MINUS_D_SQ (RFC 9496 §4.1)", oneMinusDSq(), printedOneMinusDSq)
	eq("D_MINUS_ONE_SQ (RFC 9496 §4.1)", dMinusOneSq(), printedDMinusOneSq)
	// specRoot panics (caught above) when a printed root is not a root.
	eq("SQRT_AD_MINUS_ONE^2 = -d-1", fSqr(specSqrtADMinusOne()), fSub(fNeg(curveD()), big1))
	eq("INVSQRT_A_MINUS_D^2 (-1-d) = 1", fMul(fSqr(specInvsqrtAMinusD()), fSub(fNeg(big1), curveD())), big1)
	if got := fmt.Sprintf("%x", b.RistrettoEncode()); got != printedRistrettoB {
		bad = append(bad, "Ristretto encoding of B (RFC 9496 A.1): oracle "+got)
	}
	if got := fmt.Sprintf("%x", Identity().RistrettoEncode()); got != "0000000000000000000000000000000000000000000000000000000000000000" {
		bad = append(bad, "Ristretto encoding of the identity: oracle "+got)
	}
	// RFC 9496 A.1: 2*B.
	if got := fmt.Sprintf("%x", b.Double().RistrettoEncode()); got != "6a493210f7499cd17fecb510ae0cea23a110e8d5b901f8acadd3095c73a3b919" {
		bad = append(bad, "Ristretto encoding of 2B (RFC 9496 A.1): oracle "+got)
	}
	// RFC 7748: u(B) = 9; (9, v) is on the Montgomery curve; the birational map
	// with the chosen sign of sqrt(-486664) sends (9, ±v) to B.
	eq("u(B) (RFC 7748 §4.1)", b.MontgomeryU(), printedMontU)
	u, v := printedMontU, printedMontV
	rhs := fAdd(fAdd(fMul(fSqr(u), u), fMul(montA, fSqr(u))), u)
	eq("v^2 = u^3 + A u^2 + u (RFC 7748 §4.1 base point)", fSqr(v), rhs)
	c := elligatorSqrtNegAPlusTwo()
	eq("sqrt(-(A+2))^2", fSqr(c), fNeg(fAdd(montA, big2)))
	// RFC 7748 §4.1 prints the other root of -486664 (it pairs with the other sign of v).
	eq("sqrt(-486664): the sgn0 = 0 root is the negation of the value RFC 7748 §4.1 prints", c,
		fNeg(bi("51042569399160536130206135233146329284152202253034631822681833788666877215207")))
	x1 := fDiv(fMul(c, u), v)
	if x1.Cmp(b.X) != 0 && fNeg(x1).Cmp(b.X) != 0 {
		bad = append(bad, "sqrt(-486664)*u/v is not ±B.x for the RFC 7748 base point")
	}
	eq("sqrt(-2 sqrt(-1)) = 1 - sqrt(-1)", elligatorVFactor(), fSub(big1, sqrtM1()))
	eq("(A+2)/4 (RFC 7748 a24+1)", fDiv(fAdd(montA, big2), fInt(4)), big.NewInt(121666))
	// Scalar-field sanity.
	for _, w := range []uint{52, 29} {
		m := pow2(w)
		t := new(big.Int).Mul(lFactor(w), orderL)
		t.Add(t, big1).Mod(t, m)
		if t.Sign() != 0 {
			bad = append(bad, fmt.Sprintf("LFACTOR(2^%d)*L+1 != 0", w))
		}
	}
	eq("LFACTOR mod 2^29 = LFACTOR mod 2^52 mod 2^29", lFactor(29), new(big.Int).Mod(lFactor(52), pow2(29)))
	if keccakRC() != printedKeccakRC {
		bad = append(bad, fmt.Sprintf("Keccak round constants: LFSR gives %x", keccakRC()))
	}
	// Torsion: a point of order 8 exists and [L]·(B + T8) = [L]T8 etc. are
	// exercised by the torsion definition itself (defs.go); here only the group
	// law sanity (associativity on a sample) is checked.
	p3 := b.Mul(big.NewInt(3))
	if !p3.Equal(b.Double().Add(b)) || !p3.Add(b.Neg()).Equal(b.Double()) {
		bad = append(bad, "group law sanity (3B = 2B + B) failed")
	}
	if len(bad) > 0 {
		return fmt.Errorf("oracle self check failed: %v", bad)
	}
	return nil
}
