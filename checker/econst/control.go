package econst

// Positive controls, run on every pass: for every value definition whose
// literal is present in this configuration, one integer leaf of the literal is
// perturbed IN MEMORY (low bit flipped; the repository is not touched) and the
// definition's own check must reject the perturbed copy.  A check that accepts
// it is vacuous and fails the run.

import (
	"fmt"
	"hash/fnv"
	"math/big"
)

// countInts counts the integer leaves owned by a literal (not those behind
// references to other variables).
func countInts(l *Lit) int {
	if l == nil {
		return 0
	}
	switch l.Kind {
	case KInt:
		return 1
	case KAddr:
		return countInts(l.X)
	case KList:
		n := 0
		for _, e := range l.Elems {
			n += countInts(e)
		}
		return n
	case KStruct:
		n := 0
		for _, f := range l.Fields {
			n += countInts(f.Val)
		}
		return n
	}
	return 0
}

// perturb returns a copy of l with the low bit of its k-th integer leaf flipped.
func perturb(l *Lit, k *int) *Lit {
	if l == nil {
		return nil
	}
	c := *l
	switch l.Kind {
	case KInt:
		if *k == 0 {
			c.Int = new(big.Int).Xor(l.Int, big1)
		}
		*k--
	case KAddr:
		c.X = perturb(l.X, k)
	case KList:
		c.Elems = make([]*Lit, len(l.Elems))
		for i, e := range l.Elems {
			c.Elems[i] = perturb(e, k)
		}
	case KStruct:
		c.Fields = make([]Field, len(l.Fields))
		for i, f := range l.Fields {
			c.Fields[i] = Field{f.Name, f.Var, perturb(f.Val, k)}
		}
	}
	return &c
}

// noControl lists definitions whose check does not read the literal it is
// handed (they look both halves of a pair up by name).
var noControl = map[string]bool{
	"internal/field.p_times_sixteen_0": true, "internal/field.p_times_sixteen_1234": true,
}

func (c *checker) controls() {
	for _, d := range definitions() {
		if d.prov || noControl[d.name] {
			continue
		}
		if c.only != nil && !c.only[d.name] {
			continue
		}
		l, pos, declared := c.litFor(d, false)
		if !declared || l == nil {
			continue
		}
		n := countInts(l)
		if n == 0 {
			continue
		}
		h := fnv.New32a()
		h.Write([]byte(d.name))
		k := int(h.Sum32() % uint32(n))
		idx := k
		mut := perturb(l, &k)
		ms := &memSink{}
		cc := *c
		cc.out, cc.cross = ms, nil
		func() {
			defer func() {
				if e := recover(); e != nil {
					ms.fails = append(ms.fails, fmt.Sprintf("panic: %v", e))
				}
			}()
			d.check(&cc, d, mut, pos)
		}()
		if len(ms.fails) > 0 {
			c.out.ok("control", d.name)
		} else {
			c.out.fail("control", c.pos(pos), d.name, fmt.Sprintf("the check accepted a copy of the literal with integer leaf %d of %d perturbed: the rule is vacuous", idx, n))
		}
	}
}
