package econst

// The driver of one pass over one configuration: runs the definition table,
// enumerates the declarations of the arithmetic packages for completeness,
// extracts literals inside function bodies, the Sub/Neg bias vectors and the
// (A+2)/4 multiplier.

import (
	"fmt"
	"go/ast"
	"go/token"
	"go/types"
	"golang.org/x/tools/go/packages"
	"math/big"
	"sort"
	"strings"

	"voicheck/load"
)

// corePkgs are the packages in which every integer array / limb vector /
// large integer constant is considered arithmetic.  In all other module
// packages only variables whose type reaches one of the arithmetic named
// types are.
var corePkgs = map[string]bool{
	"curve": true, "curve/scalar": true, "internal/field": true, "internal/elligator": true,
	"internal/lattice": true, "internal/strobe": true, "primitives/x25519": true,
}

var arithNamed = map[string]bool{
	"internal/field.Element": true, "curve/scalar.unpackedScalar": true, "curve/scalar.Scalar": true,
	"curve.CompressedEdwardsY": true, "curve.CompressedRistretto": true, "curve.MontgomeryPoint": true,
	"internal/lattice.Int128": true, "internal/lattice.int512": true, "internal/lattice.int384": true,
}

// reachesArith: does a value of type t contain arithmetic data?  With core
// set, any array/slice of integers counts.
func reachesArith(t types.Type, core bool, seen map[types.Type]bool) bool {
	if t == nil || seen[t] {
		return false
	}
	seen[t] = true
	if arithNamed[named(t)] {
		if _, isPtr := t.(*types.Pointer); !isPtr {
			return true
		}
	}
	switch u := t.Underlying().(type) {
	case *types.Pointer:
		return reachesArith(u.Elem(), core, seen)
	case *types.Array:
		if b, ok := u.Elem().Underlying().(*types.Basic); ok {
			return core && b.Info()&types.IsInteger != 0 && u.Len() > 0
		}
		return reachesArith(u.Elem(), core, seen)
	case *types.Slice:
		if b, ok := u.Elem().Underlying().(*types.Basic); ok {
			return core && b.Info()&types.IsInteger != 0
		}
		return reachesArith(u.Elem(), core, seen)
	case *types.Struct:
		for i := 0; i < u.NumFields(); i++ {
			if reachesArith(u.Field(i).Type(), core, seen) {
				return true
			}
		}
	}
	return false
}

// runAll: the whole table + completeness + bias + assembly data.
func (c *checker) runAll() {
	for _, d := range definitions() {
		c.runDef(d)
	}
	c.complete()
	c.biasAll()
	c.a24()
	c.asmAll()
	c.controls()
}

// runNamed: a subset.  "pkg.(*T).M#bias" selects a bias vector, "#a24" the
// Montgomery ladder multiplier.
func (c *checker) runNamed(names []string) {
	c.only = map[string]bool{}
	defer c.controls()
	for _, n := range names {
		c.only[n] = true
		switch {
		case strings.HasSuffix(n, "#bias"):
			rel, name, ok := splitQualified(strings.TrimSuffix(n, "#bias"))
			if !ok {
				c.out.fail("bias", "-", n, "malformed name")
				continue
			}
			c.bias(rel, name)
		case n == "internal/field.(*Element).Mul121666#a24":
			c.a24()
		case strings.HasPrefix(n, "asm:"):
			c.asmNamed(strings.TrimPrefix(n, "asm:"))
		default:
			d := defByName(n)
			if d == nil {
				c.out.fail("complete", "-", n, "E-CONST has no definition for this name")
				continue
			}
			if !c.runDef(d) && d.optional {
				c.out.fail("value", "-", n, "is not declared in configuration "+c.p.Cfg.ID+" (requested explicitly)")
			}
		}
	}
}

// litFor locates the literal a definition talks about.  declared is false if
// the anchor does not exist in this configuration; l is nil if it exists but
// cannot be read (already reported).
func (c *checker) litFor(d *def, report bool) (l *Lit, pos token.Pos, declared bool) {
	rel, name, ok := splitQualified(d.name)
	if !ok {
		c.out.fatal("E-CONST: malformed table entry %q", d.name)
		return nil, token.NoPos, false
	}
	obj := c.p.Obj(rel, name)
	if obj == nil {
		if !d.optional && report {
			c.out.fail("value", "-", d.name, "is not declared in configuration "+c.p.Cfg.ID+": the anchor of a definition cannot be resolved")
		}
		return nil, token.NoPos, false
	}
	if d.fn {
		fn, _ := obj.(*types.Func)
		lits := c.funcLits(fn)
		if len(lits) != 1 {
			if report {
				c.out.fail("value", c.pos(obj.Pos()), d.name, fmt.Sprintf("the function body contains %d literal arithmetic constants, the definition (%s) expects exactly one", len(lits), d.doc))
			}
			return nil, obj.Pos(), true
		}
		return lits[0], lits[0].Pos, true
	}
	l = c.r.varLit(obj)
	if l == nil && report {
		c.out.fail("value", c.pos(obj.Pos()), d.name, "is not a package-level variable or constant")
	}
	return l, obj.Pos(), true
}

// runDef checks one definition; false if the name is not declared here.
func (c *checker) runDef(d *def) bool {
	l, pos, declared := c.litFor(d, true)
	if !declared {
		return false
	}
	c.seen[d.name] = true
	if l == nil {
		return true
	}
	func() {
		defer func() {
			if e := recover(); e != nil {
				c.out.fail("value", c.pos(pos), d.name, fmt.Sprintf("reading the literal panicked: %v", e))
			}
		}()
		d.check(c, d, l, pos)
	}()
	return true
}

// ---------------------------------------------------------------------------
// literals inside function bodies

// allConst: only integer constants / zero values at the leaves, at least one
// integer constant.
func allConst(l *Lit) (ok bool, ints int) {
	switch l.Kind {
	case KInt:
		return true, 1
	case KZero:
		return true, 0
	case KAddr:
		return allConst(l.X)
	case KList:
		n := 0
		for _, e := range l.Elems {
			o, k := allConst(e)
			if !o {
				return false, 0
			}
			n += k
		}
		return true, n
	case KStruct:
		n := 0
		for _, f := range l.Fields {
			o, k := allConst(f.Val)
			if !o {
				return false, 0
			}
			n += k
		}
		return true, n
	}
	return false, 0
}

// arithLiteralType: the type of a function-body literal that counts as an
// arithmetic constant: an arithmetic named type, a 32-byte array/slice, or an
// array of at least four machine words.
func arithLiteralType(l *Lit) bool {
	x := l
	if x.Kind == KAddr {
		x = x.X
	}
	if reachesArith(x.Type, false, map[types.Type]bool{}) {
		return true
	}
	if x.Kind != KList || x.Type == nil {
		return false
	}
	var elem types.Type
	switch u := x.Type.Underlying().(type) {
	case *types.Array:
		elem = u.Elem()
	case *types.Slice:
		elem = u.Elem()
	default:
		return false
	}
	switch basicKind(elem) {
	case types.Uint8:
		return len(x.Elems) == 32
	case types.Uint32, types.Uint64, types.Int64, types.Int32:
		if len(x.Elems) < 4 {
			return false
		}
		for _, e := range x.Elems {
			if e.Kind == KInt && e.Int.BitLen() > 16 {
				return true
			}
		}
	}
	return false
}

// funcLits returns the literal arithmetic constants of a function body in
// source order (outermost literal only).
func (c *checker) funcLits(fn *types.Func) []*Lit {
	fd := c.p.FuncDecl(fn)
	if fd == nil || fd.Body == nil {
		return nil
	}
	return c.litsIn(c.p.InfoOf(fn.Pkg()), fd.Body)
}

func (c *checker) litsIn(info *types.Info, body ast.Node) []*Lit {
	var out []*Lit
	ast.Inspect(body, func(n ast.Node) bool {
		e, ok := n.(ast.Expr)
		if !ok {
			return true
		}
		switch e.(type) {
		case *ast.CompositeLit, *ast.CallExpr:
		default:
			return true
		}
		l := c.r.eval(info, e, nil, 0)
		if l.Kind != KStruct && l.Kind != KList && l.Kind != KAddr {
			return true
		}
		if ok, n := allConst(l); !ok || n == 0 || !arithLiteralType(l) {
			return true
		}
		out = append(out, l)
		return false
	})
	return out
}

// ---------------------------------------------------------------------------
// completeness

func funcQualified(fn *types.Func) string {
	sig := fn.Type().(*types.Signature)
	rel := relOf(fn.Pkg())
	if r := sig.Recv(); r != nil {
		t := r.Type()
		ptr := ""
		if p, ok := t.(*types.Pointer); ok {
			t, ptr = p.Elem(), "*"
		}
		if n, ok := t.(*types.Named); ok {
			if ptr != "" {
				return fmt.Sprintf("%s.(*%s).%s", rel, n.Obj().Name(), fn.Name())
			}
			return fmt.Sprintf("%s.%s.%s", rel, n.Obj().Name(), fn.Name())
		}
	}
	return rel + "." + fn.Name()
}

// complete enumerates (a) every package-level var/const of every module
// package and (b) every function body of the core packages, and fails on an
// arithmetic literal that the definition table does not cover.
func (c *checker) complete() {
	large := big.NewInt(1 << 16)
	for _, pk := range c.p.Pkgs {
		rel := load.Rel(pk.Types)
		core := corePkgs[rel]
		scope := pk.Types.Scope()
		names := scope.Names()
		sort.Strings(names)
		for _, n := range names {
			obj := scope.Lookup(n)
			q := rel + "." + load.ObjSimpleName(obj)
			switch o := obj.(type) {
			case *types.Var:
				if !reachesArith(o.Type(), core, map[types.Type]bool{}) {
					continue
				}
				if defByName(q) != nil {
					c.out.ok("complete", q)
					continue
				}
				l := c.r.varLit(o)
				if l != nil && l.Kind == KZero {
					// no initialiser and never named in the table: it must also
					// never be a literal; zero-valued scratch variables are fine
					// outside the core packages only.
					if !core {
						continue
					}
				}
				c.out.fail("complete", c.pos(o.Pos()), q, fmt.Sprintf("package-level variable of arithmetic type %s has no entry in the E-CONST definition table: its value is unchecked", types.TypeString(o.Type(), relQualifier)))
			case *types.Const:
				if !core {
					continue
				}
				v := bigOf(o.Val())
				if v == nil || new(big.Int).Abs(v).Cmp(large) < 0 {
					continue // sizes, thresholds, flags: other properties
				}
				if defByName(q) != nil {
					c.out.ok("complete", q)
					continue
				}
				if c.usedOnlyInElinCovered(pk, o) {
					// a named form of literals that live inside limb code decided functionally by E-LIN
					// (bias vectors of Sub / Neg, masks): its value takes part in those identities
					c.out.ok("complete", q)
					continue
				}
				c.out.fail("complete", c.pos(o.Pos()), q, fmt.Sprintf("package-level integer constant %#x has no entry in the E-CONST definition table", v))
			}
		}
		if !core {
			continue
		}
		// function bodies
		for _, f := range pk.Syntax {
			for _, decl := range f.Decls {
				fd, ok := decl.(*ast.FuncDecl)
				if !ok || fd.Body == nil {
					continue
				}
				fn, _ := pk.TypesInfo.Defs[fd.Name].(*types.Func)
				if fn == nil {
					continue
				}
				lits := c.litsIn(pk.TypesInfo, fd.Body)
				if len(lits) == 0 {
					continue
				}
				q := funcQualified(fn)
				if d := defByName(q); d != nil && d.fn {
					c.out.okn("complete", q, len(lits))
					continue
				}
				if ElinCovered(q) {
					// the function is decided functionally by E-LIN (value identities in which every
					// literal takes part): its literals need no separate definition
					c.out.okn("complete", q, len(lits))
					continue
				}
				for _, l := range lits {
					c.out.fail("complete", c.pos(l.Pos), q, fmt.Sprintf("literal arithmetic constant of type %s inside a function body has no entry in the E-CONST definition table", types.TypeString(l.Type, relQualifier)))
				}
			}
		}
	}
	// every non-optional definition was found (runDef already failed otherwise);
	// optional ones must exist in at least the configurations that need them:
	// nothing to do here — absence of an optional constant that is *used* is a
	// type error and fails the loader.
}

func relQualifier(p *types.Package) string { return load.Rel(p) }

// ---------------------------------------------------------------------------
// bias vectors of field Sub / Neg

func (c *checker) biasAll() {
	c.bias("internal/field", "(*Element).Sub")
	c.bias("internal/field", "(*Element).Neg")
}

// maximalConsts collects the maximal constant sub-expressions of e that are
// not array indices.
func maximalConsts(info *types.Info, e ast.Expr) []*big.Int {
	var out []*big.Int
	var walk func(n ast.Expr)
	walk = func(n ast.Expr) {
		if n == nil {
			return
		}
		if cl := constLit(info, n); cl != nil && cl.Kind == KInt {
			out = append(out, cl.Int)
			return
		}
		switch x := n.(type) {
		case *ast.ParenExpr:
			walk(x.X)
		case *ast.BinaryExpr:
			walk(x.X)
			walk(x.Y)
		case *ast.UnaryExpr:
			walk(x.X)
		case *ast.CallExpr:
			if tv, ok := info.Types[x.Fun]; ok && tv.IsType() {
				for _, a := range x.Args {
					walk(a)
				}
			}
		case *ast.IndexExpr:
			walk(x.X) // not the index
		case *ast.SelectorExpr:
			walk(x.X)
		case *ast.StarExpr:
			walk(x.X)
		}
	}
	walk(e)
	return out
}

// bias: in Sub/Neg the argument of the reduction is a limb-vector literal whose
// element i is (bias_i ± operands); bias as a limb vector in the radix of
// Element must be a positive multiple of p.  The factor is not frozen.
func (c *checker) bias(rel, name string) {
	construct := rel + "." + name + "#bias"
	fn, fd, info := c.funcOf(rel, name)
	if fn == nil || fd == nil {
		c.out.fail("bias", "-", construct, "cannot resolve the function in configuration "+c.p.Cfg.ID)
		return
	}
	elem := c.p.Obj("internal/field", "Element")
	if elem == nil {
		c.out.fail("bias", "-", construct, "cannot resolve internal/field.Element")
		return
	}
	store, err := c.r.soleDataField(&Lit{Kind: KZero, Type: elem.Type()})
	var radix string
	var widths []uint
	if err == nil {
		radix, widths, err = radixOfArray(store.Type, false)
	}
	if err != nil {
		c.out.fail("bias", c.pos(fd.Pos()), construct, "cannot determine the radix of Element: "+err.Error())
		return
	}
	var found [][]*big.Int
	var at token.Pos
	ast.Inspect(fd.Body, func(n ast.Node) bool {
		cl, ok := n.(*ast.CompositeLit)
		if !ok {
			return true
		}
		if ln, ok := arrayLen(info.TypeOf(cl)); !ok || ln != len(widths) || len(cl.Elts) != len(widths) {
			return true
		}
		var vec []*big.Int
		for _, el := range cl.Elts {
			if _, kv := el.(*ast.KeyValueExpr); kv {
				return true
			}
			cs := maximalConsts(info, el)
			if len(cs) != 1 {
				return true
			}
			vec = append(vec, cs[0])
		}
		found = append(found, vec)
		at = cl.Pos()
		return false
	})
	if len(found) != 1 {
		// the bias is not written as one literal limb vector (a loop, a table, a helper): its being a
		// multiple of p is the constant-term clause of the E-LIN MUL identities of Sub/Neg, which every
		// property that runs this rule runs as well; nothing to compare here
		c.out.ok("bias", construct+" (shape not a single literal: decided by MUL-value)")
		return
	}
	lm := &Limbs{Pos: at, Radix: radix, Widths: widths, V: found[0]}
	v := lm.Value()
	if v.Sign() > 0 && new(big.Int).Mod(v, fieldP).Sign() == 0 {
		c.out.ok("bias", construct)
		return
	}
	c.out.fail("bias", c.pos(at), construct, fmt.Sprintf("the bias limbs %v (%s) denote %s, which is not a positive multiple of p: the result is no longer congruent to the difference", lm.V, radix, v))
}

// a24: (*Element).Mul121666 multiplies by (A+2)/4 = 121666: either through the
// package constant constAPLUS2_OVER_FOUR (checked by its own definition) or by
// math/bits.Mul64 with a constant multiplier.
func (c *checker) a24() {
	construct := "internal/field.(*Element).Mul121666#a24"
	fn, fd, info := c.funcOf("internal/field", "(*Element).Mul121666")
	if fn == nil || fd == nil {
		c.out.fail("value", "-", construct, "cannot resolve (*Element).Mul121666 in configuration "+c.p.Cfg.ID)
		return
	}
	want := fDiv(fAdd(montA, big2), fInt(4))
	// via the named constant?
	usesConst := false
	ast.Inspect(fd.Body, func(n ast.Node) bool {
		if id, ok := n.(*ast.Ident); ok && isPkgVar(info.Uses[id], "internal/field.constAPLUS2_OVER_FOUR") {
			usesConst = true
		}
		return true
	})
	sc := newScope(info, fd.Body)
	var mults []*big.Int
	var at token.Pos
	ast.Inspect(fd.Body, func(n ast.Node) bool {
		call, ok := n.(*ast.CallExpr)
		if !ok {
			return true
		}
		fnc := calleeOf(info, call)
		if fnc == nil || fnc.Pkg() == nil || fnc.Pkg().Path() != "math/bits" || (fnc.Name() != "Mul64" && fnc.Name() != "Mul32") {
			return true
		}
		for _, a := range call.Args {
			if f, ok := sc.linear(a, 0); ok && len(f.k) == 0 {
				mults = append(mults, big.NewInt(f.c))
				at = a.Pos()
			}
		}
		return true
	})
	switch {
	case usesConst && len(mults) == 0:
		if defByName("internal/field.constAPLUS2_OVER_FOUR") != nil && c.p.Obj("internal/field", "constAPLUS2_OVER_FOUR") != nil {
			c.out.ok("value", construct)
		} else {
			c.out.fail("value", c.pos(fd.Pos()), construct, "uses constAPLUS2_OVER_FOUR, which has no definition")
		}
	case len(mults) > 0:
		for _, m := range mults {
			if m.Cmp(want) != 0 {
				c.out.fail("value", c.pos(at), construct, fmt.Sprintf("multiplies by the constant %s, but (A+2)/4 = %s", m, want))
				return
			}
		}
		c.out.ok("value", construct)
	default:
		c.out.fail("value", c.pos(fd.Pos()), construct, "cannot identify the constant multiplier (neither constAPLUS2_OVER_FOUR nor a constant bits.Mul64 operand): undecided")
	}
}

// ElinCovered: limb-level functions whose results are decided as value identities by E-LIN
// (LIN / MUL rules); literals inside their bodies are covered by those identities.
func ElinCovered(q string) bool {
	switch q {
	case "internal/field.(*Element).Sub", "internal/field.(*Element).Neg", "internal/field.(*Element).Add", "internal/field.(*Element).Mul",
		"internal/field.(*Element).Square", "internal/field.(*Element).Square2", "internal/field.(*Element).Pow2k", "internal/field.(*Element).Mul121666",
		"internal/field.(*Element).SetBytes", "internal/field.(*Element).SetBytesWide", "internal/field.(*Element).ToBytes", "internal/field.(*Element).reduce",
		"internal/field.feMulGeneric", "internal/field.fePow2kGeneric",
		"curve/scalar.(*unpackedScalar).SetBytes", "curve/scalar.(*unpackedScalar).SetBytesWide", "curve/scalar.(*unpackedScalar).ToBytes",
		"curve/scalar.(*unpackedScalar).Add", "curve/scalar.(*unpackedScalar).Sub", "curve/scalar.(*unpackedScalar).MontgomeryReduce",
		"curve/scalar.scalarMulInternal", "curve/scalar.(*unpackedScalar).squareInternal":
		return true
	}
	return false
}

// usedOnlyInElinCovered: the constant is used, and every use lies in the body of a function whose
// literals are decided by the E-LIN identities (ElinCovered).
func (c *checker) usedOnlyInElinCovered(pk *packages.Package, o *types.Const) bool {
	uses := 0
	for id, obj := range pk.TypesInfo.Uses {
		if obj != o {
			continue
		}
		uses++
		covered := false
		for _, f := range pk.Syntax {
			if id.Pos() < f.Pos() || id.Pos() > f.End() {
				continue
			}
			for _, decl := range f.Decls {
				fd, ok := decl.(*ast.FuncDecl)
				if !ok || fd.Body == nil || id.Pos() < fd.Body.Pos() || id.Pos() > fd.Body.End() {
					continue
				}
				if fn, _ := pk.TypesInfo.Defs[fd.Name].(*types.Func); fn != nil && ElinCovered(funcQualified(fn)) {
					covered = true
				}
			}
		}
		if !covered {
			return false
		}
	}
	return uses > 0
}
