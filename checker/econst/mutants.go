package econst

// Seeded edits, thorough tier (DESIGN §2.4, Appendix C rows M05c, M06a, M13b,
// M20a and the neutral edits).  Each edit is located through the typed syntax
// tree of the already loaded configuration (never by searching source text),
// applied IN MEMORY through packages.Config.Overlay — /repo is not touched and
// no copy of it is made — and the configuration is re-loaded (without SSA) and
// re-checked into a private sink.  A value-changing edit must be reported
// naming the constant; a behaviour-preserving edit must stay silent.

import (
	"fmt"
	"go/ast"
	"go/types"
	"math/big"
	"os"
	"sort"
	"strings"

	"voicheck/load"
	"voicheck/report"
)

type srcEdit struct {
	file     string
	off, end int
	text     string
}

type mutant struct {
	id     string
	cfg    string
	expect string // construct that must be reported; "" = the edit must stay silent
	what   string
	build  func(m *mutCtx) ([]srcEdit, error)
}

type mutCtx struct {
	p *load.Program
	r *reader
	c *checker
}

func (m *mutCtx) rng(n ast.Node) (string, int, int) {
	a, b := m.p.Fset.Position(n.Pos()), m.p.Fset.Position(n.End())
	return a.Filename, a.Offset, b.Offset
}

func (m *mutCtx) replace(n ast.Node, text string) srcEdit {
	f, a, b := m.rng(n)
	return srcEdit{f, a, b, text}
}

func (m *mutCtx) text(n ast.Node) (string, error) {
	f, a, b := m.rng(n)
	src, err := os.ReadFile(f)
	if err != nil {
		return "", err
	}
	if a < 0 || b > len(src) || a > b {
		return "", fmt.Errorf("position outside %s", f)
	}
	return string(src[a:b]), nil
}

// leaves returns the integer leaves a literal owns, in order.
func leaves(l *Lit, out *[]*Lit) {
	if l == nil {
		return
	}
	switch l.Kind {
	case KInt:
		if l.Expr != nil {
			*out = append(*out, l)
		}
	case KAddr:
		leaves(l.X, out)
	case KList:
		for _, e := range l.Elems {
			leaves(e, out)
		}
	case KStruct:
		for _, f := range l.Fields {
			leaves(f.Val, out)
		}
	}
}

// lit returns the literal of a definition in the mutant's configuration.
func (m *mutCtx) lit(name string) (*Lit, error) {
	d := defByName(name)
	if d == nil {
		return nil, fmt.Errorf("no definition %s", name)
	}
	l, _, declared := m.c.litFor(d, false)
	if !declared || l == nil {
		return nil, fmt.Errorf("%s is not declared in %s", name, m.p.Cfg.ID)
	}
	return l, nil
}

func (m *mutCtx) leaf(name string, k int) (*Lit, error) {
	l, err := m.lit(name)
	if err != nil {
		return nil, err
	}
	var ls []*Lit
	leaves(l, &ls)
	if k < 0 {
		k += len(ls)
	}
	if k < 0 || k >= len(ls) {
		return nil, fmt.Errorf("%s has %d integer leaves, wanted #%d", name, len(ls), k)
	}
	return ls[k], nil
}

// flipLeaf: low bit of the k-th integer leaf flipped.
func flipLeaf(name string, k int) func(m *mutCtx) ([]srcEdit, error) {
	return func(m *mutCtx) ([]srcEdit, error) {
		lf, err := m.leaf(name, k)
		if err != nil {
			return nil, err
		}
		return []srcEdit{m.replace(lf.Expr, new(big.Int).Xor(lf.Int, big1).String())}, nil
	}
}

// respell: the k-th leaf written in another base / as an expression of the same value.
func respell(name string, k int, hex bool) func(m *mutCtx) ([]srcEdit, error) {
	return func(m *mutCtx) ([]srcEdit, error) {
		lf, err := m.leaf(name, k)
		if err != nil {
			return nil, err
		}
		txt := fmt.Sprintf("%#x", lf.Int)
		if !hex {
			txt = fmt.Sprintf("(%s + 1 - 1)", lf.Int)
		}
		return []srcEdit{m.replace(lf.Expr, txt)}, nil
	}
}

func mutantTable() []mutant {
	return []mutant{
		{"M05c", "f32", "curve/scalar.constRR", "one limb of constRR in the 29-bit radix", flipLeaf("curve/scalar.constRR", 4)},
		{"M06a", "f32", "curve.constEDWARDS_D2", "one limb of constEDWARDS_D2 in the 25.5-bit radix", flipLeaf("curve.constEDWARDS_D2", 2)},
		{"M20a", "amd64", "curve.packedAffineOddMultiplesOfBShl128[40]", "one byte of entry 40 of packedAffineOddMultiplesOfBShl128", flipLeaf("curve.packedAffineOddMultiplesOfBShl128", 40*96+6)},
		{"M20b", "f32", "curve.packedEdwardsBasepointTable[203]", "the last byte of entry (25,3) of the fixed-base table", flipLeaf("curve.packedEdwardsBasepointTable", 203*96+95)},
		{"M13b", "purego", "internal/strobe.rc[17]", "rc[17] of the Go Keccak", flipLeaf("internal/strobe.rc", 17)},
		{"M14c", "amd64", "internal/elligator.constMONTGOMERY_SQRT_NEG_A_PLUS_TWO", "one limb of an Elligator constant in the 51-bit radix", flipLeaf("internal/elligator.constMONTGOMERY_SQRT_NEG_A_PLUS_TWO", 1)},
		{"M05d", "amd64", "curve/scalar.constLFACTOR", "constLFACTOR", flipLeaf("curve/scalar.constLFACTOR", 0)},
		{"M16b", "amd64", "internal/lattice.ellSquared", "one word of the literal inside ellSquared()", flipLeaf("internal/lattice.ellSquared", 3)},
		{"M20c", "amd64", "curve.eightTorsionInnerDocHidden[1]", "EIGHT_TORSION entries 1 and 3 swapped", func(m *mutCtx) ([]srcEdit, error) {
			l, err := m.lit("curve.eightTorsionInnerDocHidden")
			if err != nil {
				return nil, err
			}
			cl, ok := l.Expr.(*ast.CompositeLit)
			if !ok || len(cl.Elts) != 8 {
				return nil, fmt.Errorf("EIGHT_TORSION is not an 8-element composite literal")
			}
			a, err1 := m.text(cl.Elts[1])
			b, err2 := m.text(cl.Elts[3])
			if err1 != nil || err2 != nil {
				return nil, fmt.Errorf("cannot read the source of the entries")
			}
			return []srcEdit{m.replace(cl.Elts[1], b), m.replace(cl.Elts[3], a)}, nil
		}},
		{"M20d", "amd64", "internal/field.SQRT_M1", "SQRT_M1 replaced by p - SQRT_M1 (the other square root)", func(m *mutCtx) ([]srcEdit, error) {
			l, err := m.lit("internal/field.SQRT_M1")
			if err != nil {
				return nil, err
			}
			lm, err := m.r.element(l)
			if err != nil {
				return nil, err
			}
			var ls []*Lit
			leaves(l, &ls)
			neg := lm.Canon(fNeg(lm.Value()))
			if len(ls) != len(neg) {
				return nil, fmt.Errorf("SQRT_M1: %d leaves for %d limbs", len(ls), len(neg))
			}
			var out []srcEdit
			for i, lf := range ls {
				out = append(out, m.replace(lf.Expr, neg[i].String()))
			}
			return out, nil
		}},
		{"M04d", "f32", "internal/field.(*Element).Sub#bias", "one limb of the Sub bias in the 32-bit back end decremented", func(m *mutCtx) ([]srcEdit, error) {
			_, fd, info := m.c.funcOf("internal/field", "(*Element).Sub")
			if fd == nil {
				return nil, fmt.Errorf("cannot resolve Sub")
			}
			var target ast.Expr
			ast.Inspect(fd.Body, func(n ast.Node) bool {
				if e, ok := n.(ast.Expr); ok && target == nil {
					if cl := constLit(info, e); cl != nil && cl.Kind == KInt && cl.Int.BitLen() > 20 {
						target = e
						return false
					}
				}
				return true
			})
			if target == nil {
				return nil, fmt.Errorf("no bias constant found")
			}
			t, err := m.text(target)
			if err != nil {
				return nil, err
			}
			return []srcEdit{m.replace(target, "("+t+" - 16)")}, nil
		}},

		// ----- behaviour-preserving edits: must stay silent -----
		{"N1", "amd64", "", "a limb of constEDWARDS_D written in hexadecimal", respell("curve.constEDWARDS_D", 0, true)},
		{"N2", "f32", "", "a limb of constRR written as an equivalent constant expression", respell("curve/scalar.constRR", 3, false)},
		{"N3", "purego", "", "rc[17] written in another spelling", respell("internal/strobe.rc", 17, false)},
		{"N4", "amd64", "", "locals of unpackEdwardsBasepointTable and of curve.init renamed", func(m *mutCtx) ([]srcEdit, error) {
			var out []srcEdit
			pk := m.p.Pkg("curve")
			n := 0
			rename := func(body ast.Node) {
				names := map[types.Object]string{}
				ast.Inspect(body, func(x ast.Node) bool {
					id, ok := x.(*ast.Ident)
					if !ok {
						return true
					}
					obj := pk.TypesInfo.Defs[id]
					if obj == nil {
						obj = pk.TypesInfo.Uses[id]
					}
					v, ok := obj.(*types.Var)
					if !ok || v.IsField() || v.Pkg() == nil || v.Parent() == v.Pkg().Scope() || v.Pos() < body.Pos() || v.Pos() >= body.End() {
						return true
					}
					if names[v] == "" {
						n++
						names[v] = fmt.Sprintf("renamedLocal%d", n)
					}
					out = append(out, m.replace(id, names[v]))
					return true
				})
			}
			for _, name := range []string{"unpackEdwardsBasepointTable", "unpackAffineNielsPointNafLookupTable"} {
				if _, fd, _ := m.c.funcOf("curve", name); fd != nil {
					rename(fd.Body)
				}
			}
			for _, f := range pk.Syntax {
				for _, d := range f.Decls {
					if fd, ok := d.(*ast.FuncDecl); ok && fd.Name.Name == "init" && fd.Recv == nil && fd.Body != nil {
						rename(fd.Body)
					}
				}
			}
			if n == 0 {
				return nil, fmt.Errorf("no local found to rename")
			}
			return out, nil
		}},
		{"N5", "amd64", "", "the declarations of constEDWARDS_D and constEDWARDS_D2 swapped", func(m *mutCtx) ([]srcEdit, error) {
			decl := func(name string) (ast.Node, error) {
				obj := m.p.Obj("curve", name)
				if obj == nil {
					return nil, fmt.Errorf("no %s", name)
				}
				for _, f := range m.p.Pkg("curve").Syntax {
					for _, d := range f.Decls {
						if gd, ok := d.(*ast.GenDecl); ok && gd.Pos() <= obj.Pos() && obj.Pos() < gd.End() && len(gd.Specs) == 1 {
							return gd, nil
						}
					}
				}
				return nil, fmt.Errorf("%s is not declared by a single-spec declaration", name)
			}
			a, err1 := decl("constEDWARDS_D")
			b, err2 := decl("constEDWARDS_D2")
			if err1 != nil || err2 != nil {
				return nil, fmt.Errorf("%v %v", err1, err2)
			}
			ta, _ := m.text(a)
			tb, _ := m.text(b)
			return []srcEdit{m.replace(a, tb), m.replace(b, ta)}, nil
		}},
	}
}

func applyEdits(edits []srcEdit) (map[string][]byte, error) {
	byFile := map[string][]srcEdit{}
	for _, e := range edits {
		byFile[e.file] = append(byFile[e.file], e)
	}
	out := map[string][]byte{}
	for f, es := range byFile {
		src, err := os.ReadFile(f)
		if err != nil {
			return nil, err
		}
		sort.Slice(es, func(i, j int) bool { return es[i].off > es[j].off })
		for i, e := range es {
			if e.off < 0 || e.end > len(src) || e.off > e.end || (i > 0 && e.end > es[i-1].off) {
				return nil, fmt.Errorf("overlapping or out-of-range edit in %s", f)
			}
			src = append(append(append([]byte{}, src[:e.off]...), e.text...), src[e.end:]...)
		}
		out[f] = src
	}
	return out, nil
}

// RunMutants applies the seeded-edit table.  prog returns the loaded program
// of a configuration (used to locate the edits).  Results are recorded under
// "<ruleID>-mutants" and summarised in run.Extra["mutants"].
func RunMutants(run *report.Run, ruleID string, prog func(cfg string) *load.Program) {
	if err := SelfCheck(); err != nil {
		run.Fatal("E-CONST: %v", err)
		return
	}
	out := &runSink{run, ruleID}
	detected, killers, silent, neutral := 0, 0, 0, 0
	var lines []string
	for _, mu := range mutantTable() {
		base := prog(mu.cfg)
		if base == nil {
			run.Fatal("E-CONST mutants: configuration %s is not loaded", mu.cfg)
			continue
		}
		run.SetConfig(mu.cfg)
		construct := "mutant " + mu.id
		mc := &mutCtx{p: base, r: newReader(base)}
		mc.c = &checker{p: base, r: mc.r, out: &memSink{}, seen: map[string]bool{}}
		edits, err := mu.build(mc)
		var overlay map[string][]byte
		if err == nil {
			overlay, err = applyEdits(edits)
		}
		if err != nil {
			out.fail("mutants", "-", construct, fmt.Sprintf("cannot construct the edit (%s): %v", mu.what, err))
			continue
		}
		p2, err := load.Load(mu.cfg, load.Opts{SSA: false, Overlay: overlay})
		if err != nil {
			out.fail("mutants", "-", construct, fmt.Sprintf("the edited tree (%s) does not load: %v", mu.what, err))
			continue
		}
		ms := &memSink{}
		c2 := newChecker(p2, ms, &crossState{seen: map[string]map[string]crossVal{}})
		func() {
			defer func() {
				if e := recover(); e != nil {
					ms.fatals = append(ms.fatals, fmt.Sprintf("panic: %v", e))
				}
			}()
			c2.runAll()
		}()
		if mu.expect != "" {
			killers++
			hit := ""
			for _, f := range ms.fails {
				parts := strings.SplitN(f, "\x00", 3)
				if len(parts) == 3 && parts[1] == mu.expect {
					hit = parts[0] + ": " + parts[2]
					break
				}
			}
			if hit != "" {
				detected++
				out.ok("mutants", construct)
				if len(hit) > 220 {
					hit = hit[:220] + "…"
				}
				lines = append(lines, fmt.Sprintf("%s [%s] %s -> reported on %s: %s", mu.id, mu.cfg, mu.what, mu.expect, hit))
			} else {
				out.fail("mutants", "-", construct, fmt.Sprintf("seeded edit (%s) was NOT reported on %s (%d other reports)", mu.what, mu.expect, len(ms.fails)))
			}
		} else {
			neutral++
			if len(ms.fails) == 0 && len(ms.fatals) == 0 {
				silent++
				out.ok("mutants", construct)
				lines = append(lines, fmt.Sprintf("%s [%s] %s -> silent", mu.id, mu.cfg, mu.what))
			} else {
				first := ""
				if len(ms.fails) > 0 {
					first = strings.ReplaceAll(ms.fails[0], "\x00", " ")
				} else {
					first = ms.fatals[0]
				}
				out.fail("mutants", "-", construct, fmt.Sprintf("behaviour-preserving edit (%s) was reported: %s", mu.what, abbreviate(first)))
			}
		}
	}
	run.Extra["mutants"] = fmt.Sprintf("%d/%d seeded value edits detected, %d/%d behaviour-preserving edits silent (in-memory overlays, /repo untouched)", detected, killers, silent, neutral)
	run.Extra["mutant_log"] = lines
}
