package econst

// Engine plumbing and the exported API of E-CONST.
//
//	econst.CheckAll(run, p, ruleID)              every definition, completeness, provenance (C20)
//	econst.CheckNamed(run, p, ruleID, names...)  a subset by qualified name (C04-C07, C13, C14, C16)
//	econst.Value(p, name)                        the literal value of a constant, for other engines
//	econst.P(), econst.L(), econst.Basepoint()   oracle helpers
//
// Sub-rules are derived from the caller's rule id:
//
//	<id>-value     a literal equals its definition (field elements mod p, scalars / integers / bytes exactly)
//	<id>-range     every limb of a literal limb vector is below 2^width of its radix
//	<id>-xradix    the 64-bit and the 32-bit encodings of one name denote the same value
//	<id>-table     one entry of a packed affine-Niels table equals (y+x, y-x, 2dxy) of its defining multiple
//	<id>-prov      a start-up computed variable is built from the named source constant
//	<id>-complete  every literal arithmetic constant in scope has a definition in the table
//	<id>-bias      the bias vector of field Sub / Neg is a positive multiple of p
//	<id>-asm       arithmetic data embedded in the assembly equals its definition
//	<id>-control   positive control run on every pass: a perturbed copy of each literal must be rejected
//	<id>-mutants   thorough tier: seeded edits applied through packages.Config.Overlay

import (
	"fmt"
	"go/token"
	"math/big"
	"os"
	"sort"
	"strings"
	"sync"

	"voicheck/load"
	"voicheck/report"
)

// sink receives obligations.  The production sink writes into a report.Run;
// the mutant driver collects them in memory.
type sink interface {
	ok(rule, construct string)
	okn(rule, construct string, n int)
	fail(rule, pos, construct, msg string)
	sample(v any)
	fatal(format string, a ...any)
}

var ruleDesc = map[string]string{
	"value":    "a literal constant equals its definition evaluated by the big-integer oracle",
	"range":    "every limb of a literal limb vector is in reduced range for its radix",
	"xradix":   "the 64-bit and the 32-bit encodings of the same constant denote the same value",
	"table":    "a packed table entry is the canonical (y+x, y-x, 2dxy) of its defining multiple of B",
	"prov":     "a variable computed at start-up is built from the named source constant by the named routine",
	"complete": "every literal arithmetic constant in scope has an entry in the definition table",
	"bias":     "the bias limb vector of field Sub/Neg is a positive multiple of p",
	"asm":      "arithmetic data embedded in the assembly text equals its definition",
	"control":  "positive control: the literal with one integer perturbed in memory is rejected by its own check",
	"mutants":  "seeded source edit (in-memory overlay): a value-changing edit is reported naming the constant, a behaviour-preserving edit stays silent",
}

type runSink struct {
	run    *report.Run
	prefix string
}

func (s *runSink) rule(suffix string) *report.Rule {
	return s.run.Rule(s.prefix+"-"+suffix, ruleDesc[suffix], 0)
}
func (s *runSink) ok(rule, construct string) {
	trace("ok   %s-%s %s", s.prefix, rule, construct)
	s.rule(rule).OK(construct)
}
func (s *runSink) okn(rule, construct string, n int) {
	trace("ok*%d %s-%s %s", n, s.prefix, rule, construct)
	s.rule(rule).OKN(construct, n)
}
func (s *runSink) fail(rule, pos, construct, msg string) {
	s.rule(rule).Fail(pos, construct, msg, nil)
}
func (s *runSink) sample(v any)                  { s.run.Sample(v) }
func (s *runSink) fatal(format string, a ...any) { s.run.Fatal(format, a...) }

// trace prints every obligation when VOI_ECONST_TRACE is set (debugging aid).
func trace(format string, a ...any) {
	if traceOn {
		fmt.Fprintf(os.Stderr, "econst: "+format+"\n", a...)
	}
}

var traceOn = os.Getenv("VOI_ECONST_TRACE") != ""

// memSink collects obligations in memory (mutant driver, Value).
type memSink struct {
	oks    int
	fails  []string // "rule\x00construct\x00msg"
	fatals []string
}

func (s *memSink) ok(rule, construct string)         { s.oks++ }
func (s *memSink) okn(rule, construct string, n int) { s.oks += n }
func (s *memSink) fail(rule, pos, construct, msg string) {
	s.fails = append(s.fails, rule+"\x00"+construct+"\x00"+pos+": "+msg)
}
func (s *memSink) sample(v any) {}
func (s *memSink) fatal(format string, a ...any) {
	s.fatals = append(s.fatals, fmt.Sprintf(format, a...))
}

// crossState remembers, per run and rule id, the value each name had in each
// radix class so that later configurations can be compared with earlier ones.
type crossState struct {
	mu   sync.Mutex
	seen map[string]map[string]crossVal // name -> radix class -> value
}

type crossVal struct {
	val  string // canonical rendering of the denoted (radix-independent) value
	show string // the value as written, for messages
	cfg  string
	pos  string
}

var (
	crossMu  sync.Mutex
	crossAll = map[string]*crossState{}
)

func crossFor(run *report.Run, ruleID string) *crossState {
	crossMu.Lock()
	defer crossMu.Unlock()
	key := fmt.Sprintf("%p/%s", run, ruleID)
	cs := crossAll[key]
	if cs == nil {
		cs = &crossState{seen: map[string]map[string]crossVal{}}
		crossAll[key] = cs
	}
	return cs
}

// checker is one pass over one configuration.
type checker struct {
	p     *load.Program
	r     *reader
	out   sink
	cross *crossState
	only  map[string]bool // nil: everything
	seen  map[string]bool // names found in this configuration
}

func newChecker(p *load.Program, out sink, cross *crossState) *checker {
	return &checker{p: p, r: newReader(p), out: out, cross: cross, seen: map[string]bool{}}
}

func (c *checker) pos(pos token.Pos) string { return c.p.Pos(pos) }

// cfgClass is the radix class of the configuration ("u64" or "u32"), decided by
// the storage type of internal/field.Element, not by tags or file names.
func (c *checker) cfgClass() string {
	if obj := c.p.Obj("internal/field", "Element"); obj != nil {
		l := &Lit{Kind: KZero, Type: obj.Type()}
		if in, err := c.r.soleDataField(l); err == nil {
			if radix, _, err := radixOfArray(in.Type, false); err == nil {
				if radix == "51x5" {
					return "u64"
				}
				return "u32"
			}
		}
	}
	return "?"
}

// recordCross stores the value of name in this configuration's radix class and
// compares it with every other class seen so far in the same run.
func (c *checker) recordCross(name, class, val, show string, pos token.Pos) {
	if c.cross == nil {
		return
	}
	c.cross.mu.Lock()
	defer c.cross.mu.Unlock()
	m := c.cross.seen[name]
	if m == nil {
		m = map[string]crossVal{}
		c.cross.seen[name] = m
	}
	if _, dup := m[class]; dup {
		return // same radix class already recorded (another configuration of that class)
	}
	var classes []string
	for k := range m {
		classes = append(classes, k)
	}
	sort.Strings(classes)
	for _, k := range classes {
		o := m[k]
		construct := name
		if o.val == val {
			c.out.ok("xradix", construct)
		} else {
			c.out.fail("xradix", c.pos(pos), construct, fmt.Sprintf(
				"the %s encoding (configuration %s) and the %s encoding (%s, configuration %s) denote different values: %s vs %s",
				class, c.p.Cfg.ID, k, o.pos, o.cfg, abbreviate(show), abbreviate(o.show)))
		}
	}
	m[class] = crossVal{val: val, show: show, cfg: c.p.Cfg.ID, pos: c.pos(pos)}
}

func abbreviate(s string) string {
	if len(s) > 90 {
		return s[:40] + "…" + s[len(s)-40:]
	}
	return s
}

// ---------------------------------------------------------------------------
// exported API

// CheckAll checks every definition of the table, the completeness of the table
// against the package-level declarations and function-body literals of the
// arithmetic packages, the provenance of everything computed at start-up, the
// Sub/Neg bias vectors and the arithmetic data of the assembly files, in the
// configuration p.  Obligations are recorded under the rules "<ruleID>-…".
func CheckAll(run *report.Run, p *load.Program, ruleID string) {
	if err := SelfCheck(); err != nil {
		run.Fatal("E-CONST: %v", err)
		return
	}
	run.SetConfig(p.Cfg.ID)
	c := newChecker(p, &runSink{run, ruleID}, crossFor(run, ruleID))
	c.runAll()
	var names []string
	for n := range c.seen {
		names = append(names, n)
	}
	sort.Strings(names)
	run.Extra["constants_checked_"+p.Cfg.ID] = names
}

// CheckNamed checks the named constants only.  Names are qualified by the
// module-relative package path:
//
//	"curve.constEDWARDS_D", "internal/field.SQRT_M1"      package-level literal
//	"internal/field.(*Element).One", "internal/lattice.ellSquared"   the literal inside a function body
//	"internal/field.(*Element).Sub#bias", "…(*Element).Neg#bias"     bias limb vector
//	"internal/field.(*Element).Mul121666#a24"              the (A+2)/4 multiplier in either back end
//	"asm:curve.v19", "asm:internal/strobe.keccak-rc"       assembly data (first symbol of a group)
//
// Aliases (EIGHT_TORSION, ED25519_BASEPOINT_TABLE) are followed.  A name
// without a definition, or one that the configuration does not declare (also an
// optional one, since it was requested explicitly), is a failure.  Names() lists
// the table.
func CheckNamed(run *report.Run, p *load.Program, ruleID string, names ...string) {
	if err := SelfCheck(); err != nil {
		run.Fatal("E-CONST: %v", err)
		return
	}
	run.SetConfig(p.Cfg.ID)
	c := newChecker(p, &runSink{run, ruleID}, crossFor(run, ruleID))
	c.runNamed(names)
}

// Val is the literal value of a constant as read from the syntax tree.
type Val struct {
	Name  string
	Pos   string
	Int   *big.Int   // denoted integer (field elements: the limb sum, not reduced)
	Limbs []*big.Int // limb vector, if the constant is one
	Radix string     // "51x5", "25.5x10", "52x5", "29x9" or ""
	Bytes []byte     // byte-array constants
	Elems []*Val     // Edwards points: the coordinates X, Y, Z, T (Name "…#X" etc.)
}

// Value reads the literal value of a field element, unpacked scalar, integer
// constant or byte array by qualified name, without comparing it to anything.
func Value(p *load.Program, qualifiedName string) (*Val, error) {
	rel, name, ok := splitQualified(qualifiedName)
	if !ok {
		return nil, fmt.Errorf("econst.Value: malformed name %q", qualifiedName)
	}
	obj := p.Obj(rel, name)
	if obj == nil {
		return nil, fmt.Errorf("econst.Value: %s is not declared in configuration %s", qualifiedName, p.Cfg.ID)
	}
	r := newReader(p)
	l := r.varLit(obj)
	if l == nil {
		return nil, fmt.Errorf("econst.Value: %s has no package-level declaration", qualifiedName)
	}
	l = r.resolve(l)
	v := &Val{Name: qualifiedName, Pos: p.Pos(l.Pos)}
	switch {
	case l.Kind == KInt:
		v.Int = new(big.Int).Set(l.Int)
		return v, nil
	case named(l.Type) == "internal/field.Element":
		lm, err := r.element(l)
		if err != nil {
			return nil, fmt.Errorf("econst.Value: %s: %v", qualifiedName, err)
		}
		v.Limbs, v.Radix, v.Int = lm.V, lm.Radix, lm.Value()
		return v, nil
	case named(l.Type) == "curve/scalar.unpackedScalar":
		lm, err := r.unpackedScalar(l)
		if err != nil {
			return nil, fmt.Errorf("econst.Value: %s: %v", qualifiedName, err)
		}
		v.Limbs, v.Radix, v.Int = lm.V, lm.Radix, lm.Value()
		return v, nil
	}
	if named(l.Type) == "curve.EdwardsPoint" || named(l.Type) == "curve.RistrettoPoint" {
		ep, err := r.edwardsPoint(l)
		if err != nil {
			return nil, fmt.Errorf("econst.Value: %s: %v", qualifiedName, err)
		}
		for i, lm := range []*Limbs{ep.X, ep.Y, ep.Z, ep.T} {
			v.Elems = append(v.Elems, &Val{Name: qualifiedName + "#" + "XYZT"[i:i+1], Pos: p.Pos(lm.Pos), Limbs: lm.V, Radix: lm.Radix, Int: lm.Value()})
		}
		return v, nil
	}
	if b, _, err := r.bytesOf(l); err == nil {
		v.Bytes, v.Int = b, fromLE(b)
		return v, nil
	}
	if ints, err := r.ints(l); err == nil {
		v.Limbs = ints
		return v, nil
	}
	return nil, fmt.Errorf("econst.Value: %s is not a literal integer, limb vector or byte array", qualifiedName)
}

// splitQualified splits "internal/field.SQRT_M1" into ("internal/field", "SQRT_M1")
// and "internal/field.(*Element).One" into ("internal/field", "(*Element).One").
func splitQualified(q string) (rel, name string, ok bool) {
	i := strings.Index(q, ".(")
	if i < 0 {
		slash := strings.LastIndexByte(q, '/')
		j := strings.IndexByte(q[slash+1:], '.')
		if j < 0 {
			return "", "", false
		}
		i = slash + 1 + j
	}
	return q[:i], q[i+1:], true
}

// Definition returns the defining formula of a table entry.
func Definition(name string) (doc string, ok bool) {
	if d := defByName(name); d != nil {
		return d.doc, true
	}
	return "", false
}

// Names lists the qualified names of the definition table (for callers that
// want to select by package).
func Names() []string {
	var out []string
	for _, d := range definitions() {
		out = append(out, d.name)
	}
	sort.Strings(out)
	return out
}
