package econst

// The definition table: qualified name -> defining formula (evaluated by the
// oracle) and the way the literal is read.  Every literal arithmetic constant
// of the arithmetic packages must appear here (complete.go fails otherwise).

import (
	"voicheck/load"
	"bytes"
	"fmt"
	"go/token"
	"go/types"
	"math/big"
	"sort"
	"strings"
	"sync"
)

// def is one entry of the table.
type def struct {
	name     string
	doc      string // the definition in words / formula (messages, evidence)
	optional bool   // legitimately absent from some configurations
	fn       bool   // name is a function; the value is the arithmetic literal in its body
	prov     bool   // provenance-only entry (value computed at start-up by library code)
	check    func(c *checker, d *def, l *Lit, pos token.Pos)
}

var (
	defsOnce sync.Once
	defsList []*def
	defsMap  map[string]*def
)

func definitions() []*def {
	defsOnce.Do(func() {
		defsList = buildDefs()
		defsMap = map[string]*def{}
		for _, d := range defsList {
			if defsMap[d.name] != nil {
				panic("econst: duplicate definition " + d.name)
			}
			defsMap[d.name] = d
		}
	})
	return defsList
}

func defByName(n string) *def { definitions(); return defsMap[n] }

// ---------------------------------------------------------------------------
// constructors of table entries

func feDef(name, doc string, want func() *big.Int) *def {
	return &def{name: name, doc: doc, check: func(c *checker, d *def, l *Lit, pos token.Pos) {
		c.checkFE(d, l, pos, want())
	}}
}

// scalarDef: want receives the total bit width of the limb vector (260 for
// five 52-bit limbs, 261 for nine 29-bit limbs), which is the Montgomery
// radix exponent of that back end.
func scalarDef(name, doc string, want func(bits uint) *big.Int) *def {
	return &def{name: name, doc: doc, check: func(c *checker, d *def, l *Lit, pos token.Pos) {
		c.checkScalar(d, l, pos, want)
	}}
}

// wordDef: an integer constant whose definition depends on the width class of
// its Go type (uint64 constants belong to the 52/51-bit radix, uint32 ones to
// the 29-bit radix).
func wordDef(name, doc string, want func(k types.BasicKind) (*big.Int, error)) *def {
	return &def{name: name, doc: doc, check: func(c *checker, d *def, l *Lit, pos token.Pos) {
		c.checkWord(d, l, pos, want)
	}}
}

func pointDef(name, doc string, want func() Point) *def {
	return &def{name: name, doc: doc, check: func(c *checker, d *def, l *Lit, pos token.Pos) {
		c.checkPoint(d, d.name, l, pos, want())
	}}
}

func bytesDef(name, doc string, want func() []byte) *def {
	return &def{name: name, doc: doc, check: func(c *checker, d *def, l *Lit, pos token.Pos) {
		c.checkBytes(d, l, pos, want())
	}}
}

func tableDef(name, doc string, want func() []Point) *def {
	return &def{name: name, doc: doc, check: func(c *checker, d *def, l *Lit, pos token.Pos) {
		c.checkTable(d, l, pos, want())
	}}
}

func intsDef(name, doc string, want func() []*big.Int) *def {
	return &def{name: name, doc: doc, check: func(c *checker, d *def, l *Lit, pos token.Pos) {
		c.checkInts(d, l, pos, want())
	}}
}

func aliasDef(name, target string) *def {
	return &def{name: name, doc: "is " + target, prov: true, check: func(c *checker, d *def, l *Lit, pos token.Pos) {
		c.checkAlias(d, l, pos, target)
	}}
}

func zeroDef(name, doc string) *def {
	return &def{name: name, doc: doc, check: func(c *checker, d *def, l *Lit, pos token.Pos) {
		if l != nil && l.Kind == KZero {
			c.out.ok("value", d.name)
			return
		}
		c.out.fail("value", c.pos(pos), d.name, "must be the zero value ("+d.doc+") but has an initialiser")
	}}
}

func provDef(name, doc string, f func(c *checker, d *def, l *Lit, pos token.Pos)) *def {
	return &def{name: name, doc: doc, prov: true, check: f}
}

func optional(d *def) *def { d.optional = true; return d }
func inFunc(d *def) *def   { d.fn = true; return d }

func le(v *big.Int) []byte { b := le32(v); return b[:] }

// ---------------------------------------------------------------------------
// the table

func buildDefs() []*def {
	d := curveD
	B := Basepoint
	var out []*def
	add := func(ds ...*def) { out = append(out, ds...) }

	// ----- curve -----
	add(
		bytesDef("curve.ED25519_BASEPOINT_COMPRESSED", "RFC 8032 encoding of B = (x even, 4/5)", func() []byte { b := B().Compress(); return b[:] }),
		bytesDef("curve.X25519_BASEPOINT", "u(B) = (1+y)/(1-y) = 9 (RFC 7748 §4.1), little-endian", func() []byte { return le(B().MontgomeryU()) }),
		bytesDef("curve.RISTRETTO_BASEPOINT_COMPRESSED", "RFC 9496 §4.3.2 encoding of B", func() []byte { b := B().RistrettoEncode(); return b[:] }),
		pointDef("curve.RISTRETTO_BASEPOINT_POINT", "B (the dereferenced ED25519_BASEPOINT_POINT)", B),
		provDef("curve.RISTRETTO_BASEPOINT_TABLE", "wraps *ED25519_BASEPOINT_TABLE", provRistrettoTable),
		aliasDef("curve.ED25519_BASEPOINT_TABLE", "curve.edwardsBasepointTableInnerDocHidden"),
		provDef("curve.edwardsBasepointTableInnerDocHidden", "unpacked from packedEdwardsBasepointTable: entry [i][j] read from packed index 8i+j", provBasepointTable),
		provDef("curve.constAFFINE_ODD_MULTIPLES_OF_BASEPOINT", "unpacked from packedAffineOddMultiplesOfBasepoint, entry i from packed index i",
			func(c *checker, d *def, l *Lit, pos token.Pos) {
				provNafTable(c, d, l, pos, "curve.packedAffineOddMultiplesOfBasepoint")
			}),
		provDef("curve.constAFFINE_ODD_MULTIPLES_OF_B_SHL_128", "unpacked from packedAffineOddMultiplesOfBShl128, entry i from packed index i",
			func(c *checker, d *def, l *Lit, pos token.Pos) {
				provNafTable(c, d, l, pos, "curve.packedAffineOddMultiplesOfBShl128")
			}),
		tableDef("curve.packedEdwardsBasepointTable", "entry 8i+j = (y+x, y-x, 2dxy) of [(j+1)*256^i]B", func() []Point { buildTables(); return tabBase[:] }),
		tableDef("curve.packedAffineOddMultiplesOfBasepoint", "entry j = (y+x, y-x, 2dxy) of [2j+1]B", func() []Point { buildTables(); return tabOddB[:] }),
		tableDef("curve.packedAffineOddMultiplesOfBShl128", "entry j = (y+x, y-x, 2dxy) of [2j+1][2^128]B", func() []Point { buildTables(); return tabOddB128[:] }),
		pointDef("curve.ED25519_BASEPOINT_POINT", "B = (x even, y = 4/5), T*Z = X*Y", B),
		aliasDef("curve.EIGHT_TORSION", "curve.eightTorsionInnerDocHidden"),
		&def{name: "curve.eightTorsionInnerDocHidden", doc: "entry i = [i]T8, T8 of order exactly 8", check: checkTorsion},
		feDef("curve.constMINUS_ONE", "-1", func() *big.Int { return fInt(-1) }),
		feDef("curve.constEDWARDS_D", "d = -121665/121666", d),
		feDef("curve.constEDWARDS_D2", "2d", func() *big.Int { return fMul(big2, d()) }),
		feDef("curve.constONE_MINUS_EDWARDS_D_SQUARED", "1 - d^2 (RFC 9496 ONE_MINUS_D_SQ)", oneMinusDSq),
		feDef("curve.constEDWARDS_D_MINUS_ONE_SQUARED", "(d-1)^2 (RFC 9496 D_MINUS_ONE_SQ)", dMinusOneSq),
		feDef("curve.constSQRT_AD_MINUS_ONE", "sqrt(a*d-1), a = -1, the root RFC 9496 prints", specSqrtADMinusOne),
		feDef("curve.constINVSQRT_A_MINUS_D", "1/sqrt(a-d), a = -1, the root RFC 9496 prints", specInvsqrtAMinusD),
		pointDef("curve.constB_SHL_128", "[2^128]B (projective equality, T*Z = X*Y)", func() Point { buildTables(); return ptB128 }),
		&def{name: "curve.noncanonicalSignBits", doc: "the two encodings of x = 0 with the sign bit set: y = 1 and y = p-1", check: checkNoncanonical},
		&def{name: "curve.constEXTENDEDPOINT_IDENTITY", doc: "(0 : 1 : 1 : 0) in the 4-way interleaved 25.5-bit layout", check: checkExtendedIdentity},
		provDef("curve.constVECTOR_ODD_MULTIPLES_OF_BASEPOINT", "built in init by newCachedPointNafLookupTable8(ED25519_BASEPOINT_POINT)",
			func(c *checker, d *def, l *Lit, pos token.Pos) {
				provVectorTable(c, d, l, pos, "curve.ED25519_BASEPOINT_POINT")
			}),
		provDef("curve.constVECTOR_ODD_MULTIPLES_OF_B_SHL_128", "built in init by newCachedPointNafLookupTable8(constB_SHL_128)",
			func(c *checker, d *def, l *Lit, pos token.Pos) {
				provVectorTable(c, d, l, pos, "curve.constB_SHL_128")
			}),
		inFunc(bytesDef("curve.(*CompressedEdwardsY).Identity", "RFC 8032 encoding of the identity (0, 1)", func() []byte { b := Identity().Compress(); return b[:] })),
	)

	// ----- curve/scalar -----
	add(
		scalarDef("curve/scalar.constL", "L = 2^252 + 27742317777372353535851937790883648493", func(uint) *big.Int { return L() }),
		scalarDef("curve/scalar.constR", "R mod L, R = 2^(limb bits): 2^260 (52-bit radix) / 2^261 (29-bit radix)", montR),
		scalarDef("curve/scalar.constRR", "R^2 mod L", montRR),
		wordDef("curve/scalar.constLFACTOR", "LFACTOR * L = -1 mod 2^52 (uint64) / 2^29 (uint32)", func(k types.BasicKind) (*big.Int, error) {
			switch k {
			case types.Uint64:
				return lFactor(52), nil
			case types.Uint32:
				return lFactor(29), nil
			}
			return nil, fmt.Errorf("unexpected type of constLFACTOR")
		}),
		optional(wordDef("curve/scalar.low_52_bit_mask", "2^52 - 1", func(types.BasicKind) (*big.Int, error) { return new(big.Int).Sub(pow2(52), big1), nil })),
		optional(wordDef("curve/scalar.low_29_bit_mask", "2^29 - 1", func(types.BasicKind) (*big.Int, error) { return new(big.Int).Sub(pow2(29), big1), nil })),
		provDef("curve/scalar.BASEPOINT_ORDER", "NewFromBits(little-endian bytes of L)", provBasepointOrder),
		provDef("curve/scalar.order", "the four little-endian 64-bit words of BASEPOINT_ORDER.ToBytes", provScMinimalOrder),
		inFunc(bytesDef("curve/scalar.(*Scalar).One", "1, little-endian", func() []byte { return le(big1) })),
	)

	// ----- internal/field -----
	add(
		feDef("internal/field.SQRT_M1", "sqrt(-1) = 2^((p-1)/4) (RFC 8032 §5.1.3, RFC 9496 SQRT_M1)", sqrtM1),
		optional(feDef("internal/field.constAPLUS2_OVER_FOUR", "(A+2)/4 = 121666, A = 486662 (RFC 7748)", func() *big.Int { return fDiv(fAdd(montA, big2), fInt(4)) })),
		optional(wordDef("internal/field.low_51_bit_mask", "2^51 - 1", func(types.BasicKind) (*big.Int, error) { return new(big.Int).Sub(pow2(51), big1), nil })),
		optional(&def{name: "internal/field.p_times_sixteen_0", doc: "limb 0 of a positive multiple of p in the 51-bit radix (k*(2^51-19), same k as limbs 1..4)", check: checkPTimes}),
		optional(&def{name: "internal/field.p_times_sixteen_1234", doc: "limbs 1..4 of a positive multiple of p in the 51-bit radix (k*(2^51-1))", check: checkPTimes}),
		provDef("internal/field.One", "set by (*Element).One", func(c *checker, d *def, l *Lit, pos token.Pos) {
			provMethodOnLocal(c, d, l, pos, "internal/field", "(*Element).One", nil)
		}),
		provDef("internal/field.MinusOne", "set by (*Element).MinusOne", func(c *checker, d *def, l *Lit, pos token.Pos) {
			provMethodOnLocal(c, d, l, pos, "internal/field", "(*Element).MinusOne", nil)
		}),
		provDef("internal/field.Two", "set by (*Element).Add(&One, &One)", func(c *checker, d *def, l *Lit, pos token.Pos) {
			provMethodOnLocal(c, d, l, pos, "internal/field", "(*Element).Add", []string{"internal/field.One", "internal/field.One"})
		}),
		inFunc(feDef("internal/field.(*Element).One", "1", func() *big.Int { return fInt(1) })),
		inFunc(feDef("internal/field.(*Element).MinusOne", "-1", func() *big.Int { return fInt(-1) })),
	)

	// ----- internal/elligator -----
	add(
		feDef("internal/elligator.constMONTGOMERY_A", "A = 486662 (RFC 7748 §4.1)", func() *big.Int { return fNorm(montA) }),
		feDef("internal/elligator.constMONTGOMERY_NEG_A", "-A", func() *big.Int { return fNeg(montA) }),
		feDef("internal/elligator.constMONTGOMERY_A_SQUARED", "A^2", func() *big.Int { return fSqr(montA) }),
		feDef("internal/elligator.constMONTGOMERY_SQRT_NEG_A_PLUS_TWO", "sqrt(-(A+2)) with sgn0 = 0 (RFC 9380 §6.8.2; maps the RFC 7748 base point to B)", elligatorSqrtNegAPlusTwo),
		feDef("internal/elligator.constMONTGOMERY_U_FACTOR", "-2*sqrt(-1), sqrt(-1) = 2^((p-1)/4)", elligatorUFactor),
		feDef("internal/elligator.constMONTGOMERY_V_FACTOR", "sqrt(U_FACTOR) = sqrt(-2*sqrt(-1)), the non-negative (even) root = 1 - sqrt(-1)", elligatorVFactor),
		zeroDef("internal/elligator.constFieldZero", "the field element 0"),
	)

	// ----- internal/lattice -----
	add(
		&def{name: "internal/lattice.constELL_LOWER_HALF", doc: "L mod 2^128", check: func(c *checker, d *def, l *Lit, pos token.Pos) {
			c.checkInt128(d, l, pos, new(big.Int).Mod(L(), pow2(128)))
		}},
		&def{name: "internal/lattice.i128One", doc: "1", check: func(c *checker, d *def, l *Lit, pos token.Pos) {
			c.checkInt128(d, l, pos, big.NewInt(1))
		}},
		zeroDef("internal/lattice.i128Zero", "0"),
		intsDef("internal/lattice.i512One", "1 as eight 64-bit limbs", func() []*big.Int { return wordsOf(big.NewInt(1), 8) }),
		inFunc(intsDef("internal/lattice.ellSquared", "L^2 as eight 64-bit limbs", func() []*big.Int { return wordsOf(new(big.Int).Mul(L(), L()), 8) })),
	)

	// ----- internal/strobe -----
	add(
		optional(&def{name: "internal/strobe.rc", doc: "Keccak-f[1600] round constants RC[0..23] (FIPS 202 §3.2.5 LFSR)", check: checkKeccakRC}),
	)

	// ----- primitives/x25519 -----
	add(
		bytesDef("primitives/x25519.basePoint", "u = 9 (RFC 7748 §4.1), little-endian", func() []byte { return le(big.NewInt(9)) }),
		provDef("primitives/x25519.Basepoint", "basePoint[:] assigned in init", provX25519Basepoint),
		inFunc(bytesDef("primitives/x25519.checkBasepoint", "u = 9 (RFC 7748 §4.1), little-endian", func() []byte { return le(big.NewInt(9)) })),
	)
	return out
}

// wordsOf splits v into n little-endian 64-bit words.
func wordsOf(v *big.Int, n int) []*big.Int {
	mask := new(big.Int).Sub(pow2(64), big1)
	out := make([]*big.Int, n)
	t := new(big.Int).Set(v)
	for i := range out {
		out[i] = new(big.Int).And(t, mask)
		t.Rsh(t, 64)
	}
	return out
}

// ---------------------------------------------------------------------------
// generic value checks

// checkFE: field element literal == want (mod p), limbs tight.
func (c *checker) checkFE(d *def, l *Lit, pos token.Pos, want *big.Int) {
	lm, err := c.r.element(l)
	if err != nil {
		c.out.fail("value", c.pos(pos), d.name, "cannot read a field-element literal: "+err.Error())
		return
	}
	c.limbRange(d.name, lm)
	got := fNorm(lm.Value())
	if got.Cmp(fNorm(want)) == 0 {
		c.out.ok("value", d.name)
	} else {
		msg := fmt.Sprintf("%s limbs %v denote %s but the definition (%s) is %s", lm.Radix, lm.V, got, d.doc, fNorm(want))
		at := lm.Pos
		if got.Cmp(fNeg(want)) == 0 {
			msg += " — the literal is the NEGATION of the defined value (wrong square root / sign)"
		} else if diff, p := lm.Diff(fNorm(want)); diff != "" {
			msg, at = diff+": "+msg, p
		}
		c.out.fail("value", c.pos(at), d.name, msg)
	}
	c.recordCross(d.name, lm.Radix, got.String(), got.String(), lm.Pos)
}

func (c *checker) limbRange(name string, lm *Limbs) {
	if i, ok := lm.Tight(); ok {
		c.out.ok("range", name)
	} else {
		c.out.fail("range", c.pos(lm.Pos), name, fmt.Sprintf("limb %d = %s of the %s literal is not below 2^%d", i, lm.V[i], lm.Radix, lm.Widths[i]))
	}
}

func (c *checker) checkScalar(d *def, l *Lit, pos token.Pos, want func(bits uint) *big.Int) {
	lm, err := c.r.unpackedScalar(l)
	if err != nil {
		c.out.fail("value", c.pos(pos), d.name, "cannot read an unpacked-scalar literal: "+err.Error())
		return
	}
	c.limbRange(d.name, lm)
	bits := uint(0)
	for _, w := range lm.Widths {
		bits += w
	}
	w := want(bits)
	got := lm.Value()
	if got.Cmp(w) == 0 {
		c.out.ok("value", d.name)
	} else {
		msg, at := fmt.Sprintf("%s limbs %x denote %s but the definition (%s) is %s", lm.Radix, lm.V, got, d.doc, w), lm.Pos
		if diff, p := lm.Diff(w); diff != "" {
			msg, at = diff+": "+msg, p
		}
		c.out.fail("value", c.pos(at), d.name, msg)
	}
	// Cross-radix: constL is radix independent; R and RR are compared as
	// R / 2^bits-independent quantities: value * 2^-bits resp. 2^-2bits mod L.
	norm := new(big.Int).Set(got)
	switch {
	case strings.HasSuffix(d.name, ".constR"):
		norm.Mul(norm, new(big.Int).ModInverse(montR(bits), orderL)).Mod(norm, orderL)
	case strings.HasSuffix(d.name, ".constRR"):
		norm.Mul(norm, new(big.Int).ModInverse(montRR(bits), orderL)).Mod(norm, orderL)
	}
	c.recordCross(d.name, lm.Radix, norm.String(), got.String(), lm.Pos)
}

func (c *checker) checkWord(d *def, l *Lit, pos token.Pos, want func(types.BasicKind) (*big.Int, error)) {
	l = c.r.resolve(l)
	if l == nil || l.Kind != KInt {
		c.out.fail("value", c.pos(pos), d.name, "is not an integer constant")
		return
	}
	w, err := want(basicKind(l.Type))
	if err != nil {
		c.out.fail("value", c.pos(pos), d.name, err.Error()+fmt.Sprintf(" (%v)", l.Type))
		return
	}
	if l.Int.Cmp(w) == 0 {
		c.out.ok("value", d.name)
	} else {
		c.out.fail("value", c.pos(l.Pos), d.name, fmt.Sprintf("is %#x but the definition (%s) is %#x", l.Int, d.doc, w))
	}
	if strings.HasSuffix(d.name, ".constLFACTOR") {
		// -1/L mod 2^29 is the 52-bit value reduced mod 2^29
		low := new(big.Int).Mod(l.Int, pow2(29))
		c.recordCross(d.name, types.TypeString(l.Type, nil), low.String(), fmt.Sprintf("%#x", l.Int), l.Pos)
	}
}

// affineOf converts an extended-coordinates literal to an affine point and
// checks its internal consistency.
func (c *checker) affineOf(name string, ep *ExtPoint) (Point, string) {
	for _, lm := range []*Limbs{ep.X, ep.Y, ep.Z, ep.T} {
		c.limbRange(name, lm)
	}
	X, Y, Z, T := fNorm(ep.X.Value()), fNorm(ep.Y.Value()), fNorm(ep.Z.Value()), fNorm(ep.T.Value())
	if Z.Sign() == 0 {
		return Point{}, "Z = 0"
	}
	if fMul(T, Z).Cmp(fMul(X, Y)) != 0 {
		return Point{}, "the extended coordinate T does not satisfy T*Z = X*Y"
	}
	zi := fInv(Z)
	q := Point{fMul(X, zi), fMul(Y, zi)}
	if !q.OnCurve() {
		return q, "the point is not on the curve -x^2+y^2 = 1+d x^2 y^2"
	}
	return q, ""
}

func (c *checker) checkPoint(d *def, construct string, l *Lit, pos token.Pos, want Point) (Point, bool) {
	ep, err := c.r.edwardsPoint(l)
	if err != nil {
		c.out.fail("value", c.pos(pos), construct, "cannot read an Edwards point literal: "+err.Error())
		return Point{}, false
	}
	q, bad := c.affineOf(construct, ep)
	if bad != "" {
		c.out.fail("value", c.pos(ep.Pos), construct, bad)
		return q, false
	}
	if q.Equal(want) {
		c.out.ok("value", construct)
	} else {
		msg := fmt.Sprintf("denotes (x=%s, y=%s) but the definition (%s) is (x=%s, y=%s)", q.X, q.Y, d.doc, fNorm(want.X), fNorm(want.Y))
		if q.Equal(want.Neg()) {
			msg += " — the literal is the NEGATION of the defined point"
		}
		c.out.fail("value", c.pos(ep.Pos), construct, msg)
	}
	c.recordCross(construct, ep.X.Radix, fmt.Sprintf("(%s,%s)", q.X, q.Y), fmt.Sprintf("(x=%s, y=%s)", q.X, q.Y), ep.Pos)
	return q, true
}

func (c *checker) checkBytes(d *def, l *Lit, pos token.Pos, want []byte) {
	got, p, err := c.r.bytesOf(l)
	if err != nil {
		c.out.fail("value", c.pos(pos), d.name, "cannot read a byte-array literal: "+err.Error())
		return
	}
	if bytes.Equal(got, want) {
		c.out.ok("value", d.name)
		return
	}
	c.out.fail("value", c.pos(p), d.name, fmt.Sprintf("is %x but the definition (%s) is %x", got, d.doc, want))
}

func (c *checker) checkInts(d *def, l *Lit, pos token.Pos, want []*big.Int) {
	got, err := c.r.ints(l)
	if err != nil {
		c.out.fail("value", c.pos(pos), d.name, "cannot read an integer-array literal: "+err.Error())
		return
	}
	ok := len(got) == len(want)
	for i := 0; ok && i < len(got); i++ {
		ok = got[i].Cmp(want[i]) == 0
	}
	if ok {
		c.out.ok("value", d.name)
		return
	}
	c.out.fail("value", c.pos(c.r.resolve(l).Pos), d.name, fmt.Sprintf("is %x but the definition (%s) is %x", got, d.doc, want))
}

func (c *checker) checkInt128(d *def, l *Lit, pos token.Pos, want *big.Int) {
	hiL, err1 := c.r.field(l, "hi")
	loL, err2 := c.r.field(l, "lo")
	if err1 != nil || err2 != nil {
		c.out.fail("value", c.pos(pos), d.name, "cannot read an Int128 literal (fields hi, lo)")
		return
	}
	val := func(x *Lit) *big.Int {
		x = c.r.resolve(x)
		switch x.Kind {
		case KInt:
			return x.Int
		case KZero:
			return new(big.Int)
		}
		return nil
	}
	hi, lo := val(hiL), val(loL)
	if hi == nil || lo == nil {
		c.out.fail("value", c.pos(pos), d.name, "hi/lo of the Int128 literal are not integer constants")
		return
	}
	got := new(big.Int).Add(new(big.Int).Lsh(hi, 64), lo) // hi is signed
	if got.Cmp(want) == 0 && lo.Sign() >= 0 && lo.BitLen() <= 64 {
		c.out.ok("value", d.name)
		return
	}
	c.out.fail("value", c.pos(c.r.resolve(l).Pos), d.name, fmt.Sprintf("is hi=%#x lo=%#x = %s but the definition (%s) is %s", hi, lo, got, d.doc, want))
}

func (c *checker) checkAlias(d *def, l *Lit, pos token.Pos, target string) {
	if l != nil && l.Kind == KRef && qualifiedObj(l.Obj) == target {
		if defByName(target) == nil {
			c.out.fail("prov", c.pos(pos), d.name, "alias of "+target+", which has no definition")
			return
		}
		c.out.ok("prov", d.name)
		if c.only != nil && !c.only[target] { // named mode: follow the alias
			c.only[target] = true
			c.runDef(defByName(target))
		}
		return
	}
	c.out.fail("prov", c.pos(pos), d.name, "is expected to be initialised as a plain reference to "+target)
}

func qualifiedObj(o types.Object) string {
	if o == nil || o.Pkg() == nil {
		return ""
	}
	return relOf(o.Pkg()) + "." + load.ObjSimpleName(o)
}

// ---------------------------------------------------------------------------
// special checks

// checkTable: a [][96]uint8 literal, one obligation per entry.
func (c *checker) checkTable(d *def, l *Lit, pos token.Pos, want []Point) {
	l = c.r.resolve(l)
	if l == nil || l.Kind != KList {
		c.out.fail("table", c.pos(pos), d.name, "is not an array literal of packed entries")
		return
	}
	if len(l.Elems) != len(want) {
		c.out.fail("table", c.pos(l.Pos), d.name, fmt.Sprintf("has %d entries, the definition (%s) has %d", len(l.Elems), d.doc, len(want)))
		return
	}
	for i, e := range l.Elems {
		construct := fmt.Sprintf("%s[%d]", d.name, i)
		got, p, err := c.r.bytesOf(e)
		if err != nil || len(got) != 96 {
			c.out.fail("table", c.pos(e.Pos), construct, "entry is not a literal of 96 byte constants")
			continue
		}
		exp := nielsBytes(want[i])
		if bytes.Equal(got, exp[:]) {
			c.out.ok("table", construct)
			continue
		}
		part := ""
		for k, n := range []string{"y+x [0:32]", "y-x [32:64]", "2dxy [64:96]"} {
			if !bytes.Equal(got[32*k:32*k+32], exp[32*k:32*k+32]) {
				part = n
				for b := 32 * k; b < 32*k+32; b++ {
					if got[b] != exp[b] {
						part += fmt.Sprintf(": byte %d is %#02x, defined %#02x", b, got[b], exp[b])
						break
					}
				}
				break
			}
		}
		c.out.fail("table", c.pos(p), construct, fmt.Sprintf("entry %d differs from its definition (%s) in %s", i, d.doc, part))
	}
}

// checkTorsion: [8]*EdwardsPoint, entry i = [i]T8.
func checkTorsion(c *checker, d *def, l *Lit, pos token.Pos) {
	l = c.r.resolve(l)
	if l == nil || l.Kind != KList || len(l.Elems) != 8 {
		c.out.fail("value", c.pos(pos), d.name, "is not a literal of eight points")
		return
	}
	t8, ok := torsionGenerator(torsionNegX)
	if !ok {
		c.out.fatal("E-CONST: the oracle cannot construct T8")
		return
	}
	acc := Identity()
	seen := map[string]int{}
	for i, e := range l.Elems {
		construct := fmt.Sprintf("%s[%d]", d.name, i)
		dd := *d
		dd.doc = fmt.Sprintf("[%d]T8, T8 the order-8 generator (x %s, y = 5518…7927)", i, map[bool]string{true: "odd", false: "even"}[torsionNegX])
		q, read := c.checkPoint(&dd, construct, e, e.Pos, acc)
		if read {
			key := q.X.String() + "," + q.Y.String()
			if j, dup := seen[key]; dup {
				c.out.fail("value", c.pos(e.Pos), construct, fmt.Sprintf("is the same point as entry %d: the eight torsion points must be distinct", j))
			}
			seen[key] = i
			if o := torsionOrder(q); o == 0 {
				c.out.fail("value", c.pos(e.Pos), construct, "is not a point of E[8]")
			}
		}
		acc = acc.Add(t8)
	}
}

// torsionNegX selects the generator of the repository's table: see
// torsionGenerator.
const torsionNegX = false

// checkNoncanonical: the two non-canonical encodings of x = 0 (as a set).
func checkNoncanonical(c *checker, d *def, l *Lit, pos token.Pos) {
	l = c.r.resolve(l)
	if l == nil || l.Kind != KList {
		c.out.fail("value", c.pos(pos), d.name, "is not a list literal")
		return
	}
	w1 := le(big1)
	w1[31] |= 0x80
	w2 := le(new(big.Int).Sub(fieldP, big1))
	w2[31] |= 0x80
	want := []string{fmt.Sprintf("%x", w1), fmt.Sprintf("%x", w2)}
	sort.Strings(want)
	var got []string
	for _, e := range l.Elems {
		b, _, err := c.r.bytesOf(e)
		if err != nil {
			c.out.fail("value", c.pos(e.Pos), d.name, "entry is not a byte-array literal: "+err.Error())
			return
		}
		got = append(got, fmt.Sprintf("%x", b))
	}
	sort.Strings(got)
	if strings.Join(got, ",") == strings.Join(want, ",") {
		c.out.okn("value", d.name, 2)
		return
	}
	c.out.fail("value", c.pos(l.Pos), d.name, fmt.Sprintf("is {%s} but the definition (%s) is {%s}", strings.Join(got, ", "), d.doc, strings.Join(want, ", ")))
}

// checkExtendedIdentity: extendedPoint{inner: fieldElement2625x4{inner: [5][8]uint32}}.
// Row i holds limbs 2i / 2i+1 of four field elements A, B, C, D in the lane
// order (a_2i, b_2i, a_2i+1, b_2i+1, c_2i, d_2i, c_2i+1, d_2i+1); an
// extendedPoint is (A, B, C, D) = (X, Y, Z, T).  In configurations without
// the vector back end the type is an empty stub and the variable has no value.
func checkExtendedIdentity(c *checker, d *def, l *Lit, pos token.Pos) {
	l = c.r.resolve(l)
	if l == nil {
		c.out.fail("value", c.pos(pos), d.name, "no value")
		return
	}
	st, _ := l.Type.Underlying().(*types.Struct)
	if st != nil {
		data := 0
		for i := 0; i < st.NumFields(); i++ {
			if n, ok := arrayLen(st.Field(i).Type()); !ok || n != 0 {
				data++
			}
		}
		if data == 0 { // stub type of the generic configurations
			if l.Kind == KZero {
				c.out.ok("value", d.name)
			} else {
				c.out.fail("value", c.pos(pos), d.name, "stub type with an initialiser")
			}
			return
		}
	}
	vec, err := c.r.soleDataField(l)
	if err == nil {
		vec, err = c.r.soleDataField(vec)
	}
	if err != nil {
		c.out.fail("value", c.pos(pos), d.name, "cannot read the vector literal: "+err.Error())
		return
	}
	vec = c.r.resolve(vec)
	var rows [][]*big.Int
	switch vec.Kind {
	case KList:
		for _, row := range vec.Elems {
			v, err := c.r.ints(row)
			if err != nil {
				c.out.fail("value", c.pos(pos), d.name, "cannot read a vector row: "+err.Error())
				return
			}
			rows = append(rows, v)
		}
	case KZero:
	}
	if len(rows) != 5 {
		c.out.fail("value", c.pos(pos), d.name, "the vector literal does not have five rows of eight lanes")
		return
	}
	// de-interleave
	lane := [4][2]int{{0, 2}, {1, 3}, {4, 6}, {5, 7}} // A, B, C, D: (even limb lane, odd limb lane)
	widths := []uint{26, 25, 26, 25, 26, 25, 26, 25, 26, 25}
	want := []*big.Int{big0, big1, big1, big0} // X, Y, Z, T
	names := "XYZT"
	good := true
	for e := 0; e < 4; e++ {
		lm := &Limbs{Pos: vec.Pos, Radix: "25.5x10", Widths: widths}
		for i := 0; i < 5; i++ {
			if len(rows[i]) != 8 {
				c.out.fail("value", c.pos(pos), d.name, "a vector row does not have eight lanes")
				return
			}
			lm.V = append(lm.V, rows[i][lane[e][0]], rows[i][lane[e][1]])
		}
		if i, ok := lm.Tight(); !ok {
			c.out.fail("range", c.pos(vec.Pos), d.name, fmt.Sprintf("limb %d of coordinate %c is not in reduced range", i, names[e]))
			good = false
		}
		if fNorm(lm.Value()).Cmp(want[e]) != 0 {
			c.out.fail("value", c.pos(vec.Pos), d.name, fmt.Sprintf("coordinate %c is %s, the identity (0:1:1:0) has %s", names[e], fNorm(lm.Value()), want[e]))
			good = false
		}
	}
	if good {
		c.out.ok("value", d.name)
		c.out.ok("range", d.name)
	}
}

// checkPTimes: the pair (p_times_sixteen_0, p_times_sixteen_1234) is the limb
// vector (c0, c1, c1, c1, c1) in the 51-bit radix and must be a positive
// multiple of p.  The factor (16 today) is not frozen.
func checkPTimes(c *checker, d *def, l *Lit, pos token.Pos) {
	get := func(n string) *big.Int {
		obj := c.p.Obj("internal/field", n)
		if obj == nil {
			return nil
		}
		x := c.r.resolve(c.r.varLit(obj))
		if x == nil || x.Kind != KInt {
			return nil
		}
		return x.Int
	}
	c0, c1 := get("p_times_sixteen_0"), get("p_times_sixteen_1234")
	if c.p.Obj("internal/field", "p_times_sixteen_0") == nil || c.p.Obj("internal/field", "p_times_sixteen_1234") == nil {
		// not the 51-bit pair (another back end uses one of the names for its own bias limbs): the bias
		// vectors are decided where they are used, by the E-LIN identities of Sub / Neg
		c.out.ok("value", d.name)
		return
	}
	if c0 == nil || c1 == nil {
		c.out.fail("value", c.pos(pos), d.name, "the pair p_times_sixteen_0 / p_times_sixteen_1234 is not a pair of integer constants")
		return
	}
	lm := &Limbs{Pos: pos, Radix: "51x5", Widths: []uint{51, 51, 51, 51, 51}, V: []*big.Int{c0, c1, c1, c1, c1}}
	v := lm.Value()
	if v.Sign() > 0 && new(big.Int).Mod(v, fieldP).Sign() == 0 {
		c.out.ok("value", d.name)
		return
	}
	c.out.fail("value", c.pos(pos), d.name, fmt.Sprintf("the limb vector (%d, %d x4) denotes %s, which is not a positive multiple of p (%s)", c0, c1, v, d.doc))
}

// checkKeccakRC: [24]uint64.
func checkKeccakRC(c *checker, d *def, l *Lit, pos token.Pos) {
	got, err := c.r.ints(l)
	if err != nil {
		c.out.fail("value", c.pos(pos), d.name, "cannot read the round-constant table: "+err.Error())
		return
	}
	want := keccakRC()
	if len(got) != 24 {
		c.out.fail("value", c.pos(pos), d.name, fmt.Sprintf("has %d entries, Keccak-f[1600] has 24 rounds", len(got)))
		return
	}
	ll := c.r.resolve(l)
	for i, g := range got {
		construct := fmt.Sprintf("%s[%d]", d.name, i)
		p := ll.Pos
		if ll.Kind == KList && ll.Elems[i].Pos.IsValid() {
			p = ll.Elems[i].Pos
		}
		if g.IsUint64() && g.Uint64() == want[i] {
			c.out.ok("value", construct)
		} else {
			c.out.fail("value", c.pos(p), construct, fmt.Sprintf("is %#016x but RC[%d] of Keccak-f[1600] (FIPS 202 §3.2.5) is %#016x", g, i, want[i]))
		}
	}
}
