// voicheck: repository-specific static checker for curve25519-voi.
//
//	voicheck check <Cxx> <quick|thorough>
//	voicheck explain <violation.json>
//	voicheck list
package main

import (
	"encoding/json"
	"fmt"
	"os"
	"strconv"

	"voicheck/props"
	"voicheck/report"
)

func main() {
	if len(os.Args) < 2 {
		usage()
	}
	switch os.Args[1] {
	case "list":
		for _, id := range props.IDs() {
			fmt.Println(id)
		}
	case "check":
		if len(os.Args) < 3 {
			usage()
		}
		tier := "quick"
		if len(os.Args) > 3 {
			tier = os.Args[3]
		}
		if t := os.Getenv("VERIF_TIER"); t != "" && len(os.Args) <= 3 {
			tier = t
		}
		if tier != "quick" && tier != "thorough" {
			usage()
		}
		seed, _ := strconv.Atoi(os.Getenv("VERIF_SEED"))
		os.Exit(props.RunProperty(os.Args[2], tier, seed))
	case "explain":
		if len(os.Args) < 3 {
			usage()
		}
		b, err := os.ReadFile(os.Args[2])
		if err != nil {
			fmt.Println(err)
			os.Exit(2)
		}
		var v report.Violation
		if err := json.Unmarshal(b, &v); err != nil {
			fmt.Println(err)
			os.Exit(2)
		}
		fmt.Printf("recorded violation:\n%s\nre-deriving by running the check of %s on the current tree ...\n", b, v.Property)
		os.Exit(props.RunProperty(v.Property, "quick", 0))
	case "paramnames":
		// voicheck paramnames : regenerate props/paramnames.json from the current tree (maintenance)
		props.DumpParamNames(os.Args[2])
	case "inputwrites":
		props.DumpInputWrites(os.Args[2])
	case "mod":
		props.DumpMod(os.Args[2], os.Args[3])
	case "dt":
		// voicheck dt <config> <pkg> <func> : print the decision table (debugging aid)
		if len(os.Args) < 5 {
			usage()
		}
		props.DumpDT(os.Args[2], os.Args[3], os.Args[4])
	default:
		usage()
	}
}

func usage() {
	fmt.Fprintln(os.Stderr, "usage: voicheck check <Cxx> [quick|thorough] | explain <violation.json> | list")
	os.Exit(2)
}
