package elin

import (
	"testing"

	"voicheck/load"
	"voicheck/report"
)

// TestRecodingsPurego runs the recoding driver on the purego configuration
// of the repository under analysis (skipped when it cannot be loaded).
func TestRecodingsPurego(t *testing.T) {
	p, err := load.Load("purego", load.Opts{SSA: true})
	if err != nil {
		t.Skip(err)
	}
	run := report.New("XLINTEST", "quick", 0)
	res := CheckRecodings(run, p, "LIN")
	if res.Obligations == 0 || res.Discharged != res.Obligations {
		t.Fatalf("obligations %d discharged %d", res.Obligations, res.Discharged)
	}
}
