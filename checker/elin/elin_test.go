package elin

import (
	"math/big"
	"os"
	"testing"

	"voicheck/load"
	"voicheck/report"
)

// world without a loaded program: enough for the value domain.
func testWorld() *World {
	return &World{remMemo: map[string]*remInfo{}, failSeen: map[string]bool{}, Stats: map[string]int{}, maxSteps: MaxSteps}
}

func TestFormArithmetic(t *testing.T) {
	w := testWorld()
	a, b := w.BitVar("x", 0), w.BitVar("x", 1)
	f := varForm(a).Add(varForm(b).Shl(1)).Add(int64Form(4)) // 4 + a + 2b
	if r := w.rangeOf(f); r.Lo.Int64() != 4 || r.Hi.Int64() != 7 {
		t.Fatalf("range %s", r)
	}
	g := f.Sub(varForm(a)).Sub(int64Form(4)).Scale(big.NewRat(1, 2)) // b
	if !g.Equal(varForm(b)) {
		t.Fatalf("got %s", g.Key())
	}
	if h := f.Subst(map[int]int8{a: 1, b: 0}); !h.IsConst() || h.Const().Cmp(big.NewRat(5, 1)) != 0 {
		t.Fatalf("subst %s", h.Key())
	}
}

func TestLayoutAndDivmod(t *testing.T) {
	w := testWorld()
	var l layout
	for i := 0; i < 8; i++ {
		l[i] = int32(w.BitVar("x", i) + 1)
	}
	x := w.fromLayout(&l)
	q, r := w.divmod(nil, x, 3)
	lq, ok1 := w.layoutOf(q)
	lr, ok2 := w.layoutOf(r)
	if !ok1 || !ok2 || lq.top() != 5 || lr.top() != 3 {
		t.Fatalf("layout split failed")
	}
	if !q.F().Shl(3).Add(r.F()).Equal(x.F()) {
		t.Fatalf("x != 8q + r on a layout")
	}
	// x + 4 is not a layout (bit 2 collides): the division identity introduces
	// a fresh remainder, memoised on (form, k)
	y := w.mkInt(x.F().Add(int64Form(4)), nil)
	if _, ok := w.layoutOf(y); ok {
		t.Fatalf("x+4 must not be a layout")
	}
	q1, r1 := w.divmod(nil, y, 3)
	q2, r2 := w.divmod(nil, y, 3)
	if !q1.F().Equal(q2.F()) || !r1.F().Equal(r2.F()) {
		t.Fatalf("division identity is not memoised")
	}
	if !q1.F().Shl(3).Add(r1.F()).Equal(y.F()) {
		t.Fatalf("y != 8q + r")
	}
	if q1.R.Lo.Int64() != 0 || q1.R.Hi.Int64() != 32 || r1.R.Hi.Int64() != 7 {
		t.Fatalf("ranges q %s r %s", q1.R, r1.R)
	}
	if len(w.rems) != 1 || len(w.rems[0].Bits) != 3 {
		t.Fatalf("expected one remainder of 3 bits")
	}
}

func TestModP(t *testing.T) {
	// 2^255 = 19 and 2^-51 * p = 0 (mod p) in Z[1/2]
	got, _ := ratModP(new(big.Rat).SetInt(pow2(255)), P25519)
	if got.Int64() != 19 {
		t.Fatalf("2^255 mod p = %s", got)
	}
	r := new(big.Rat).SetFrac(P25519, pow2(51))
	if z, ok := ratModP(r, P25519); !ok || z.Sign() != 0 {
		t.Fatalf("p/2^51 mod p = %v", z)
	}
	k := ikind{bits: 8, signed: true}
	if k.wrap(big.NewInt(200)).Int64() != -56 || k.wrap(big.NewInt(-129)).Int64() != 127 {
		t.Fatalf("int8 wrap")
	}
}

// TestRepository runs the three drivers on one configuration of the
// repository under analysis (VOI_CFG, default purego).  Development aid: set
// VOI_ELIN_DEV=1.
func TestRepository(t *testing.T) {
	if os.Getenv("VOI_ELIN_DEV") == "" {
		t.Skip("development aid; set VOI_ELIN_DEV=1")
	}
	if os.Getenv("VOI_VERIF") == "" {
		os.Setenv("VOI_VERIF", t.TempDir())
	}
	cfg := os.Getenv("VOI_CFG")
	if cfg == "" {
		cfg = "purego"
	}
	p, err := load.Load(cfg, load.Opts{SSA: true})
	if err != nil {
		t.Fatal(err)
	}
	run := report.New("XLIN", "quick", 0)
	for _, res := range []*Result{CheckField(run, p, "LIN"), CheckScalarPack(run, p, "LIN"), CheckRecodings(run, p, "LIN")} {
		if res.Obligations == 0 || res.Discharged != res.Obligations {
			t.Errorf("obligations %d, discharged %d", res.Obligations, res.Discharged)
		}
	}
	if code := run.Finish(); code != 0 {
		t.Errorf("exit code %d", code)
	}
}
