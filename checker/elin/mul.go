package elin

import (
	"fmt"
	"go/types"
	"math/big"
	"sort"

	"golang.org/x/tools/go/ssa"

	"voicheck/load"
	"voicheck/report"
)

// CheckMul decides the functional exactness of the limb-level multiplication
// code written in Go (internal/field and curve/scalar, both radices) while
// staying inside the affine domain: the product of two affine forms over INPUT
// limbs is expanded bilinearly into monomial symbols M(a_i, b_j)
// (World.Monomials), bits.Mul64 is the division identity on that 128-bit
// product, bits.Add64/Sub64 introduce carry symbols (World.Carries), the
// division identity uses integer quotient symbols and divides exactly what is
// exactly divisible (World.QuotSyms), and package-level constants are read
// from their initialisers (World.Globals).  Everything downstream (sums,
// carries, masks, the x19 folding, the Montgomery factors) is affine in the
// monomials, so the obligations are again coefficient-wise identities:
// modulo p for the field, exact / modulo 2^64 per word for the scalar
// products, modulo L for the Montgomery reduction, modulo 2^(n*W) with one 0/1
// selector for the conditional add/subtract of L.
const (
	mulFieldRel  = fieldRel
	mulScalarRel = scalarRel
)

// MulNotDecided lists what CheckMul leaves open.
var MulNotDecided = []string{
	"field: in the amd64 configuration feMul / fePow2k are assembly: they are decided by interpreting the assembly text with the transfer functions of the Go twins (asm.go; trusted: the instruction semantics written there for MOVQ, MULQ, IMUL3Q/IMULQ, ADDQ, ADCQ, SUBQ, LEAQ, SHLQ, SHRQ, ANDQ, XORQ r,r, INCQ/DECQ, JZ/JNZ/JMP); the AVX2 vector assembly of package curve is not modelled; ConditionalSelect / ConditionalSwap / ConditionalAssign / ConditionalNegate use b ^ (mask & (a ^ b)), the XOR of two words, which is not affine: not decided here",
	"field Pow2k: one squaring is decided for k = 1, and for k = 2 with the limbs entering the second iteration replaced by fresh symbols bounded by their derived ranges (each iteration squares and re-establishes the precondition); the induction over k is argued from that",
	"scalar Add / Sub / the final step of MontgomeryReduce: decided is sum s_i*2^(W*i) == a +/- b (+ t*L - L) modulo 2^(n*W) for ONE 0/1 selector symbol t (the borrow of the top limb) with every limb below 2^W; that this is the exact value a +/- b mod L, i.e. t = [a < b] and no wrap modulo 2^(n*W), needs the value-level bounds 0 <= a, b < L (resp. r < 2L) which limb-wise intervals cannot express: argued, not mechanised",
	"scalar MontgomeryReduce: decided is (sum r_i*2^(W*i)) * R == sum limbs_k*2^(W*k) + N*L exactly for an integer form N (hence r*R == limbs mod L) for the operand r handed to the final Sub(r, L), r_i < 2^W for i < n-1 and r_top <= 2^W + 2^(W-7) (limb-wise input bounds only give r < 2^(n*W) + L; r_top < 2^W needs the value-level bound a*b < L*R); 'result < L' is not decided",
	"32-bit scalarMulInternal (Karatsuba with intentional wrap-around): decided per output word z_k == C_k modulo 2^64 with C_k = sum_{i+j=k} a_i*b_j, plus 0 <= C_k < 2^64 from the limb bounds, hence z_k = C_k",
}

type mulCtx struct {
	c   *checker
	asm *AsmSet // internal/field's assembly when feMul / fePow2k have no Go body
}

func CheckMul(run *report.Run, p *load.Program, rulePrefix string) *Result {
	c := newChecker(run, p, rulePrefix)
	mc := &mulCtx{c: c}
	if be, err := detectField(p); err != nil {
		c.plan(c.value, 1)
		c.fail(c.value, "-", fieldRel+".Element", "anchor: "+err.Error())
	} else {
		mc.field(be)
	}
	if sb, err := detectScalar(p); err != nil {
		c.plan(c.value, 1)
		c.fail(c.value, "-", scalarRel+".unpackedScalar", "anchor: "+err.Error())
	} else {
		mc.scalar(sb)
	}
	return c.res
}

func (mc *mulCtx) world() (*World, *Memory) {
	w := NewWorld(mc.c.p)
	w.Carries, w.Monomials, w.QuotSyms, w.Globals = true, true, true, true
	w.Asm = mc.asm
	return w, newMemory()
}

// diffInt compares got and want coefficient-wise: exactly (mod == nil) or
// modulo mod (integer coefficients required).
func (w *World) diffInt(got, want *Form, mod *big.Int, modName, sumName string) []string {
	if m := w.opaqueIn(got, sumName); m != "" {
		return []string{m}
	}
	bad := func(r *big.Rat) bool {
		if mod == nil {
			return r.Sign() != 0
		}
		return !r.IsInt() || new(big.Int).Mod(r.Num(), mod).Sign() != 0
	}
	suffix := ""
	if mod != nil {
		suffix = " (modulo " + modName + ")"
	}
	d := got.Sub(want)
	var msgs []string
	for pass := 0; pass < 2; pass++ {
		for _, t := range d.ts {
			vi := w.Var(t.v)
			aux := vi.Kind == VWrap || vi.Kind == VQuot || vi.Kind == VRem
			if aux != (pass == 0) || !bad(t.c) {
				continue
			}
			if aux {
				msgs = append(msgs, fmt.Sprintf("%s keeps the coefficient %s in %s%s: the carry / quotient of that instruction is dropped or enters at the wrong weight", vi.Name, prettyRat(t.c), sumName, suffix))
			} else {
				msgs = append(msgs, fmt.Sprintf("coefficient of %s in %s is %s, want %s%s", vi.Name, sumName, prettyRat(got.Coef(t.v)), prettyRat(want.Coef(t.v)), suffix))
			}
			if len(msgs) >= 3 {
				return msgs
			}
		}
	}
	if bad(d.c) {
		msgs = append(msgs, fmt.Sprintf("constant term of %s is %s, want %s%s", sumName, prettyRat(got.c), prettyRat(want.c), suffix))
	}
	return msgs
}

// symLimbs builds n symbolic limbs bounded by hi[i].
func symLimbs(w *World, group string, n int, hi func(i int) *big.Int) ([]Value, []int) {
	cells := make([]Value, n)
	vars := make([]int, n)
	for i := range cells {
		vars[i] = w.SymVar(group, i, bigZero, hi(i))
		cells[i] = w.symInt(vars[i])
	}
	return cells, vars
}

// productForm is sum_{i,j} M(a_i, b_j) * 2^(offsA[i]+offsB[j]).
func productForm(w *World, va, vb []int, offsA, offsB []uint) *Form {
	acc := map[int]*big.Int{}
	for i, a := range va {
		for j, b := range vb {
			m := w.monomial(a, b)
			if acc[m] == nil {
				acc[m] = new(big.Int)
			}
			acc[m].Add(acc[m], pow2(offsA[i]+offsB[j]))
		}
	}
	f := &Form{c: ratZero}
	for v, c := range acc {
		f.ts = append(f.ts, term{v, new(big.Rat).SetInt(c)})
	}
	sort.Slice(f.ts, func(i, j int) bool { return f.ts[i].v < f.ts[j].v })
	return f
}

func linForm(vars []int, offs []uint) *Form {
	f := int64Form(0)
	for i, v := range vars {
		f = f.Add(varForm(v).Shl(offs[i]))
	}
	return f
}

// ---------------------------------------------------------------------------
// field

func (be *fieldBackend) headroom(i int) *big.Int {
	if be.name == "u64" {
		return pow2m1(54) // field_u64.go: limbs < 2^(51+b), b < 3
	}
	even := new(big.Int).Quo(pow2m1(32), big.NewInt(19)) // field_u32.go: 19*y fits a u32 iff b < 1.752
	if i%2 == 0 {
		return even
	}
	return new(big.Int).Rsh(even, 1)
}

type fieldCase struct {
	label string // "", "fe = a", ...
	fe    int    // 0: distinct, 1: aliases a, 2: aliases a and b == a
}

func (mc *mulCtx) field(be *fieldBackend) {
	c := mc.c
	p := c.p
	hasGoMul := false
	if fn := p.Func(fieldRel, "feMul"); fn == nil || len(fn.Blocks) > 0 {
		hasGoMul = true // 32-bit back end (no feMul) or a Go feMul
	}
	// amd64: feMul / fePow2k are assembly; they are interpreted from the .s text
	// (asm.go) with the transfer functions of their Go twins, standalone and
	// inlined into Mul / Square / Square2 / Pow2k
	hasAsmMul := false
	if !hasGoMul {
		c.plan(c.value, 1)
		set, err := LoadAsm(p, fieldRel)
		switch {
		case err != nil:
			c.fail(c.value, "-", fieldRel+" (assembly)", "cannot scan the assembly of "+fieldRel+": "+err.Error())
		case set.Syms["feMul"] == nil || set.Syms["fePow2k"] == nil:
			c.fail(c.value, "-", fieldRel+" (assembly)", "feMul / fePow2k have no Go body and no TEXT symbol in the assembly files of configuration "+p.Cfg.ID)
		default:
			mc.asm, hasAsmMul = set, true
			c.ok(c.value, fieldRel+" (assembly): feMul and fePow2k are defined by TEXT symbols")
		}
	}
	elem := func(w *World, mem *Memory, group string) (*Ptr, []int) {
		cells, vars := symLimbs(w, group, be.n, be.headroom)
		return c.newElement(w, mem, be, cells), vars
	}
	outElem := func(w *World, mem *Memory) *Ptr {
		return c.newElement(w, mem, be, w.outputCells("fe.inner", be.n, be.limbKind))
	}
	// conclude one function: value (modulo p, or exact when exact != nil) and range
	finish := func(fn *ssa.Function, full string, w *World, mem *Memory, out *Outcome, fe *Ptr, want *Form, capMul int64, exactLimbs []*Form) {
		pos := c.p.Pos(fn.Pos())
		fpos, rmsgs := runFailures(w, out)
		if fpos == "-" {
			fpos = pos
		}
		limbs, ok := c.elementLimbs(mem, be, fe)
		var bounds []string
		if out.OK() && ok {
			for i, l := range limbs {
				bounds = append(bounds, fmtBound(l.R.Hi))
				if capMul > 0 {
					if lim := new(big.Int).Mul(be.limbCap(i), big.NewInt(capMul)); l.R.Lo.Sign() < 0 || l.R.Hi.Cmp(lim) > 0 {
						rmsgs = append(rmsgs, fmt.Sprintf("output limb %d ranges over %s, above %d x the weakly reduced bound 2^%d+2^%d", i, l.R, capMul, be.widths[i], be.widths[i]-7))
					}
				}
			}
		}
		c.conclude(c.rng, fpos, full+": words", rmsgs)
		if !out.OK() || !ok {
			_, why := out.Why(w)
			c.fail(c.value, pos, full+": value", "not decided: the interpretation did not complete ("+why+")")
			return
		}
		var vmsgs []string
		if exactLimbs != nil {
			for i, l := range limbs {
				if !l.F().Equal(exactLimbs[i]) {
					vmsgs = append(vmsgs, fmt.Sprintf("output limb %d is not a[%d] + b[%d]", i, i, i))
				}
			}
		} else {
			vmsgs = w.diffModP(weighted(limbs, be.offs), want, "sum r_k*2^off_k of the result", "output limb", limbs, be.offs)
		}
		c.conclude(c.value, pos, full+": value", vmsgs)
		if len(c.res.Samples) < 40 {
			c.sample(map[string]any{"function": full, "radix": be.name, "output_limb_bounds": bounds, "stats": w.StatList()})
		}
	}
	anchor := func(name string) (*ssa.Function, string) {
		full := fieldRel + "." + name
		c.plan(c.value, 1)
		c.plan(c.rng, 1)
		var fn *ssa.Function
		if mc.asm != nil && mc.asm.Syms[name] != nil && p.Func(fieldRel, name) != nil {
			fn = p.Func(fieldRel, name)
			full += " (amd64 assembly)"
		} else {
			fn = c.anchor(fieldRel, name, c.value, c.rng)
		}
		if fn != nil {
			c.res.Functions++
		}
		return fn, full
	}

	// --- multiplication
	type target struct {
		name   string
		plain  bool // func(fe, a, b) rather than a method
		needGo bool
	}
	var muls []target
	if be.name == "u64" {
		muls = append(muls, target{"feMulGeneric", true, false})
	}
	if hasAsmMul {
		muls = append(muls, target{"feMul", true, false})
	}
	if hasGoMul || hasAsmMul {
		muls = append(muls, target{"(*Element).Mul", false, true})
	}
	for _, t := range muls {
		for _, al := range []fieldCase{{"", 0}, {" [fe aliases a]", 1}, {" [fe, a and b are one element]", 2}} {
			fn, full := anchor(t.name)
			if fn == nil {
				continue
			}
			full += al.label
			w, mem := mc.world()
			a, va := elem(w, mem, "a")
			b, vb := a, va
			if al.fe != 2 {
				b, vb = elem(w, mem, "b")
			}
			fe := a
			if al.fe == 0 {
				fe = outElem(w, mem)
			}
			out := w.Call(fn, []Value{fe, a, b}, mem)
			finish(fn, full, w, mem, out, fe, productForm(w, va, vb, be.offs, be.offs), 1, nil)
		}
	}

	// --- squarings
	var sqs []target
	if be.name == "u64" {
		sqs = append(sqs, target{"fePow2kGeneric", true, false})
	}
	if hasAsmMul {
		sqs = append(sqs, target{"fePow2k", true, false})
	}
	if hasGoMul || hasAsmMul {
		sqs = append(sqs, target{"(*Element).Pow2k", false, true}, target{"(*Element).Square", false, true}, target{"(*Element).Square2", false, true})
	}
	for _, t := range sqs {
		for _, al := range []fieldCase{{"", 0}, {" [fe aliases t]", 1}} {
			fn, full := anchor(t.name)
			if fn == nil {
				continue
			}
			full += al.label
			w, mem := mc.world()
			a, va := elem(w, mem, "a")
			fe := a
			if al.fe == 0 {
				fe = outElem(w, mem)
			}
			args := []Value{fe, a}
			if t.name != "(*Element).Square" && t.name != "(*Element).Square2" {
				args = append(args, mkConst(1))
				full += " k=1"
			}
			want := productForm(w, va, va, be.offs, be.offs)
			capMul := int64(1)
			if t.name == "(*Element).Square2" {
				want = want.ScaleInt(big.NewInt(2))
				if be.name == "u64" {
					capMul = 2 // fe = 2*t^2 doubles the limbs of a reduced square without carrying
				}
			}
			out := w.Call(fn, args, mem)
			finish(fn, full, w, mem, out, fe, want, capMul, nil)
		}
	}
	// Pow2k k = 2: each iteration squares and re-establishes the precondition
	if be.name == "u64" {
		mc.fieldPow2kLoop64(be, "fePow2kGeneric")
		if hasAsmMul {
			mc.fieldPow2kLoopAsm(be)
		}
	} else if hasGoMul {
		mc.fieldPow2kLoop32(be)
	}

	// --- Mul121666, Add, Sub, Neg
	if fn, full := anchor("(*Element).Mul121666"); fn != nil {
		w, mem := mc.world()
		a, va := elem(w, mem, "a")
		fe := outElem(w, mem)
		out := w.Call(fn, []Value{fe, a}, mem)
		finish(fn, full, w, mem, out, fe, linForm(va, be.offs).ScaleInt(big.NewInt(121666)), 1, nil)
	}
	if fn, full := anchor("(*Element).Add"); fn != nil {
		w, mem := mc.world()
		a, va := elem(w, mem, "a")
		b, vb := elem(w, mem, "b")
		fe := outElem(w, mem)
		out := w.Call(fn, []Value{fe, a, b}, mem)
		ex := make([]*Form, be.n)
		for i := range ex {
			ex[i] = varForm(va[i]).Add(varForm(vb[i]))
		}
		finish(fn, full, w, mem, out, fe, nil, 0, ex)
	}
	if fn, full := anchor("(*Element).Sub"); fn != nil {
		w, mem := mc.world()
		a, va := elem(w, mem, "a")
		b, vb := elem(w, mem, "b")
		fe := outElem(w, mem)
		out := w.Call(fn, []Value{fe, a, b}, mem)
		finish(fn, full, w, mem, out, fe, linForm(va, be.offs).Sub(linForm(vb, be.offs)), 1, nil)
	}
	if fn, full := anchor("(*Element).Neg"); fn != nil {
		w, mem := mc.world()
		a, va := elem(w, mem, "a")
		fe := outElem(w, mem)
		out := w.Call(fn, []Value{fe, a}, mem)
		finish(fn, full, w, mem, out, fe, linForm(va, be.offs).Scale(ratMinusOne), 1, nil)
	}
	c.sample(map[string]any{
		"driver": "CheckMul/field", "radix": be.name,
		"identity":     "sum_k r_k*2^off_k == (sum a_i*2^off_i)*(sum b_j*2^off_j) coefficient-wise modulo p in the monomials M(a_i,b_j) (coefficient of M(a_i,b_j) == 2^(off_i+off_j) mod p, every carry / quotient symbol has a coefficient == 0 mod p); Square == a^2, Square2 == 2a^2, Mul121666 == 121666*a, Sub == a-b, Neg == -a (the bias constants vanish mod p); Add == a+b limb-wise; all words fit, result limbs <= 2^w+2^(w-7) (Square2 64-bit: twice that)",
		"precondition": "input limbs: 64-bit < 2^54; 32-bit even limbs <= floor((2^32-1)/19) = 226050910, odd limbs <= 113025455",
		"go_mul":       hasGoMul,
		"asm_mul":      hasAsmMul,
	})
}

// fieldPow2kLoop64 runs fePow2kGeneric with k = 2: the limbs entering the
// second iteration are replaced by fresh symbols bounded by their ranges.
func (mc *mulCtx) fieldPow2kLoop64(be *fieldBackend, name string) {
	c := mc.c
	full := fieldRel + "." + name + " k=2 (one iteration, inductively)"
	c.plan(c.value, 2)
	c.plan(c.rng, 1)
	fn := c.anchor(fieldRel, name, c.value, c.value, c.rng)
	if fn == nil {
		return
	}
	c.res.Functions++
	pos := c.p.Pos(fn.Pos())
	w, mem := mc.world()
	cells, va := symLimbs(w, "a", be.n, be.headroom)
	a := c.newElement(w, mem, be, cells)
	fe := c.newElement(w, mem, be, w.outputCells("fe.inner", be.n, be.limbKind))
	limbOf := map[*ssa.Phi]int{}
	var iter1 []*Int
	var vb []int
	arrivals := map[*ssa.BasicBlock]int{}
	w.OnPhis = func(b, pred *ssa.BasicBlock, phis []*ssa.Phi, vals []Value) []Value {
		arrivals[b]++
		switch arrivals[b] {
		case 1:
			for i, v := range vals {
				if x, ok := v.(*Int); ok && len(x.F().ts) == 1 && x.F().c.Sign() == 0 && x.F().ts[0].c.Cmp(ratOne) == 0 {
					for li, lv := range va {
						if x.F().ts[0].v == lv {
							limbOf[phis[i]] = li
						}
					}
				}
			}
		case 2:
			if len(limbOf) != be.n {
				return vals
			}
			iter1 = make([]*Int, be.n)
			vb = make([]int, be.n)
			out := append([]Value(nil), vals...)
			for i, phi := range phis {
				li, ok := limbOf[phi]
				x, isInt := vals[i].(*Int)
				if !ok || !isInt {
					continue
				}
				iter1[li] = x
				lo := x.R.Lo
				if lo.Sign() < 0 {
					lo = bigZero
				}
				vb[li] = w.SymVar("a'", li, lo, x.R.Hi)
				out[i] = w.symInt(vb[li])
			}
			return out
		}
		return vals
	}
	out := w.Call(fn, []Value{fe, a, mkConst(2)}, mem)
	fpos, rmsgs := runFailures(w, out)
	if fpos == "-" {
		fpos = pos
	}
	ok1 := len(iter1) == be.n
	for _, x := range iter1 {
		ok1 = ok1 && x != nil
	}
	if out.OK() && !ok1 {
		rmsgs = append(rmsgs, "the loop of the squarings was not found (five loop-carried limbs re-entering a loop head)")
	}
	if ok1 {
		for i, x := range iter1 {
			if x.R.Lo.Sign() < 0 || x.R.Hi.Cmp(be.headroom(i)) > 0 {
				rmsgs = append(rmsgs, fmt.Sprintf("limb %d entering the next iteration ranges over %s, outside the precondition < 2^54", i, x.R))
			}
		}
	}
	limbs, ok2 := c.elementLimbs(mem, be, fe)
	if out.OK() && ok2 {
		for i, l := range limbs {
			if l.R.Lo.Sign() < 0 || l.R.Hi.Cmp(be.limbCap(i)) > 0 {
				rmsgs = append(rmsgs, fmt.Sprintf("output limb %d ranges over %s, above the weakly reduced bound", i, l.R))
			}
		}
	}
	c.conclude(c.rng, fpos, full+": words", rmsgs)
	if !out.OK() || !ok1 || !ok2 {
		_, why := out.Why(w)
		c.fail(c.value, pos, full+": first iteration", "not decided ("+why+")")
		c.fail(c.value, pos, full+": second iteration", "not decided ("+why+")")
		return
	}
	c.conclude(c.value, pos, full+": first iteration",
		w.diffModP(weighted(iter1, be.offs), productForm(w, va, va, be.offs, be.offs), "sum a'_k*2^off_k after the first iteration", "limb", iter1, be.offs))
	c.conclude(c.value, pos, full+": second iteration",
		w.diffModP(weighted(limbs, be.offs), productForm(w, vb, vb, be.offs, be.offs), "sum r_k*2^off_k of the result", "output limb", limbs, be.offs))
}

// fieldPow2kLoopAsm runs the assembly fePow2k with k = 2: when the backward
// jump is taken, the limbs stored by the first iteration are replaced by fresh
// symbols bounded by their ranges; the second iteration must square exactly
// those (it reads what the first one wrote) and stop.
func (mc *mulCtx) fieldPow2kLoopAsm(be *fieldBackend) {
	c := mc.c
	for _, al := range []fieldCase{{"", 0}, {" [out aliases a]", 1}} {
		full := fieldRel + ".fePow2k (amd64 assembly) k=2 (one iteration, inductively)" + al.label
		c.plan(c.value, 2)
		c.plan(c.rng, 1)
		fn := c.p.Func(fieldRel, "fePow2k")
		if fn == nil {
			c.fail(c.value, "-", full, "anchor function cannot be resolved")
			continue
		}
		c.res.Functions++
		pos := c.p.Pos(fn.Pos())
		w, mem := mc.world()
		cells, va := symLimbs(w, "a", be.n, be.headroom)
		a := c.newElement(w, mem, be, cells)
		fe := a
		if al.fe == 0 {
			fe = c.newElement(w, mem, be, w.outputCells("fe.inner", be.n, be.limbKind))
		}
		var hv []AsmHavoc
		edges := 0
		w.OnAsmBackEdge = func(st *asmState) {
			edges++
			if edges == 1 {
				hv = st.HavocStored("a'")
			}
		}
		out := w.Call(fn, []Value{fe, a, mkConst(2)}, mem)
		fpos, rmsgs := runFailures(w, out)
		if fpos == "-" {
			fpos = pos
		}
		// the words stored by the first iteration must be exactly the limbs of the out element
		iter1 := make([]*Int, be.n)
		vb := make([]int, be.n)
		ok1 := len(hv) == be.n && edges == 1
		for _, h := range hv {
			if h.Obj != fe.Obj || len(h.Path) != 2 || h.Path[0] != be.inner || h.Path[1] < 0 || h.Path[1] >= be.n {
				ok1 = false
				continue
			}
			iter1[h.Path[1]], vb[h.Path[1]] = h.Old, h.Var
		}
		for _, x := range iter1 {
			ok1 = ok1 && x != nil
		}
		if out.OK() && !ok1 {
			rmsgs = append(rmsgs, fmt.Sprintf("the loop of the squarings was not found: with k = 2 exactly one backward jump after storing the %d limbs of out is expected (%d backward jumps, %d stored words)", be.n, edges, len(hv)))
		}
		if ok1 {
			for i, x := range iter1 {
				if x.R.Lo.Sign() < 0 || x.R.Hi.Cmp(be.headroom(i)) > 0 {
					rmsgs = append(rmsgs, fmt.Sprintf("limb %d entering the next iteration ranges over %s, outside the precondition < 2^54", i, x.R))
				}
			}
		}
		limbs, ok2 := c.elementLimbs(mem, be, fe)
		if out.OK() && ok2 {
			for i, l := range limbs {
				if l.R.Lo.Sign() < 0 || l.R.Hi.Cmp(be.limbCap(i)) > 0 {
					rmsgs = append(rmsgs, fmt.Sprintf("output limb %d ranges over %s, above the weakly reduced bound", i, l.R))
				}
			}
		}
		c.conclude(c.rng, fpos, full+": words", rmsgs)
		if !out.OK() || !ok1 || !ok2 {
			_, why := out.Why(w)
			c.fail(c.value, pos, full+": first iteration", "not decided ("+why+")")
			c.fail(c.value, pos, full+": second iteration", "not decided ("+why+")")
			continue
		}
		c.conclude(c.value, pos, full+": first iteration",
			w.diffModP(weighted(iter1, be.offs), productForm(w, va, va, be.offs, be.offs), "sum a'_k*2^off_k after the first iteration", "limb", iter1, be.offs))
		c.conclude(c.value, pos, full+": second iteration",
			w.diffModP(weighted(limbs, be.offs), productForm(w, vb, vb, be.offs, be.offs), "sum r_k*2^off_k of the result", "output limb", limbs, be.offs))
	}
}

// fieldPow2kLoop32 does the same for the 32-bit Pow2k, whose iterations
// communicate through fe.inner: the limbs read by the second squareInner are
// replaced by fresh bounded symbols.
func (mc *mulCtx) fieldPow2kLoop32(be *fieldBackend) {
	c := mc.c
	full := fieldRel + ".(*Element).Pow2k k=2 (one iteration, inductively)"
	c.plan(c.value, 2)
	c.plan(c.rng, 1)
	fn := c.anchor(fieldRel, "(*Element).Pow2k", c.value, c.value, c.rng)
	if fn == nil {
		return
	}
	c.res.Functions++
	pos := c.p.Pos(fn.Pos())
	sq := c.p.Func(fieldRel, "squareInner")
	w, mem := mc.world()
	cells, va := symLimbs(w, "a", be.n, be.headroom)
	a := c.newElement(w, mem, be, cells)
	fe := c.newElement(w, mem, be, w.outputCells("fe.inner", be.n, be.limbKind))
	var iter1 []*Int
	var vb []int
	calls := 0
	w.OnCall = func(cc *CallCtx) (Value, bool) {
		if sq == nil || cc.Callee != sq || cc.Depth != 0 || len(cc.Args) != 2 {
			return nil, false
		}
		calls++
		if calls != 2 {
			return nil, false
		}
		src, ok := cc.Args[0].(*Ptr)
		if !ok {
			return nil, false
		}
		v, ok := cc.Mem.load(src)
		if !ok {
			return nil, false
		}
		iter1, _ = intCells(v)
		if len(iter1) != be.n {
			iter1 = nil
			return nil, false
		}
		fresh := make([]Value, be.n)
		vb = make([]int, be.n)
		for i, x := range iter1 {
			lo := x.R.Lo
			if lo.Sign() < 0 {
				lo = bigZero
			}
			vb[i] = w.SymVar("a'", i, lo, x.R.Hi)
			fresh[i] = w.symInt(vb[i])
		}
		cc.Mem.store(src, &Agg{fresh})
		return nil, false
	}
	out := w.Call(fn, []Value{fe, a, mkConst(2)}, mem)
	fpos, rmsgs := runFailures(w, out)
	if fpos == "-" {
		fpos = pos
	}
	if out.OK() && iter1 == nil {
		rmsgs = append(rmsgs, "Pow2k(k=2) does not call squareInner twice from its own body: the iteration cannot be located")
	}
	for i, x := range iter1 {
		if x.R.Lo.Sign() < 0 || x.R.Hi.Cmp(be.headroom(i)) > 0 {
			rmsgs = append(rmsgs, fmt.Sprintf("limb %d entering the next iteration ranges over %s, outside the precondition", i, x.R))
		}
	}
	limbs, ok2 := c.elementLimbs(mem, be, fe)
	if out.OK() && ok2 {
		for i, l := range limbs {
			if l.R.Lo.Sign() < 0 || l.R.Hi.Cmp(be.limbCap(i)) > 0 {
				rmsgs = append(rmsgs, fmt.Sprintf("output limb %d ranges over %s, above the weakly reduced bound", i, l.R))
			}
		}
	}
	c.conclude(c.rng, fpos, full+": words", rmsgs)
	if !out.OK() || iter1 == nil || !ok2 {
		_, why := out.Why(w)
		c.fail(c.value, pos, full+": first iteration", "not decided ("+why+")")
		c.fail(c.value, pos, full+": second iteration", "not decided ("+why+")")
		return
	}
	c.conclude(c.value, pos, full+": first iteration",
		w.diffModP(weighted(iter1, be.offs), productForm(w, va, va, be.offs, be.offs), "sum a'_k*2^off_k after the first iteration", "limb", iter1, be.offs))
	c.conclude(c.value, pos, full+": second iteration",
		w.diffModP(weighted(limbs, be.offs), productForm(w, vb, vb, be.offs, be.offs), "sum r_k*2^off_k of the result", "output limb", limbs, be.offs))
}

// ---------------------------------------------------------------------------
// scalar

// scalarL reads the group order from constL (evaluated from its initialiser).
func (mc *mulCtx) scalarL(w *World, sb *scalarBackend) (*big.Int, *ssa.Global, string) {
	sp := mc.c.p.SSAPkg(scalarRel)
	if sp == nil {
		return nil, nil, "package not loaded"
	}
	g, _ := sp.Members["constL"].(*ssa.Global)
	if g == nil {
		return nil, nil, "constL not found"
	}
	var v Value
	func() {
		defer func() {
			if e := recover(); e != nil {
				v = nil
			}
		}()
		v = w.globalInit(nil, g)
	}()
	cells, ok := intCells(v)
	if !ok || len(cells) != sb.n {
		return nil, nil, "constL cannot be evaluated from its initialiser"
	}
	L := new(big.Int)
	for i, x := range cells {
		n, ok := x.conc()
		if !ok {
			return nil, nil, "constL is not constant"
		}
		L.Add(L, new(big.Int).Lsh(n, sb.offs[i]))
	}
	// the group order: 2^252 + 27742317777372353535851937790883648493
	want, _ := new(big.Int).SetString("27742317777372353535851937790883648493", 10)
	want.Add(want, pow2(252))
	if L.Cmp(want) != 0 {
		return nil, nil, "constL holds " + L.String() + ", not the group order 2^252 + 27742317777372353535851937790883648493"
	}
	return L, g, ""
}

func (mc *mulCtx) scalar(sb *scalarBackend) {
	c := mc.c
	limbHi := func(int) *big.Int { return pow2m1(sb.w) }
	newScalar := func(w *World, mem *Memory, group string) (*Ptr, []int) {
		cells, vars := symLimbs(w, group, sb.n, limbHi)
		return w.alloc(mem, sb.typ, &Agg{cells}), vars
	}
	uniform := make([]uint, sb.n)
	for i := range uniform {
		uniform[i] = sb.w * uint(i)
	}
	anchor := func(name string, nv, nr int) (*ssa.Function, string) {
		full := scalarRel + "." + name
		c.plan(c.value, nv)
		c.plan(c.rng, nr)
		rules := []*report.Rule{}
		for i := 0; i < nv; i++ {
			rules = append(rules, c.value)
		}
		for i := 0; i < nr; i++ {
			rules = append(rules, c.rng)
		}
		fn := c.anchor(scalarRel, name, rules...)
		if fn != nil {
			c.res.Functions++
		}
		return fn, full
	}

	// --- scalarMulInternal / squareInternal: the exact integer product
	for _, sq := range []bool{false, true} {
		name := "scalarMulInternal"
		if sq {
			name = "(*unpackedScalar).squareInternal"
		}
		fn, full := anchor(name, 1, 1)
		if fn == nil {
			continue
		}
		pos := c.p.Pos(fn.Pos())
		w, mem := mc.world()
		if sb.name == "u32" {
			w.WrapMode = true // Karatsuba: the intermediate words wrap on purpose
		}
		a, va := newScalar(w, mem, "a")
		args := []Value{a}
		vb := va
		if !sq {
			var b *Ptr
			b, vb = newScalar(w, mem, "b")
			args = append(args, b)
		}
		out := w.Call(fn, args, mem)
		fpos, rmsgs := runFailures(w, out)
		if fpos == "-" {
			fpos = pos
		}
		z, ok := intCells(out.Ret)
		if out.OK() && !ok {
			rmsgs = append(rmsgs, "the function does not return an array of words")
		}
		var vmsgs []string
		if out.OK() && ok {
			if sb.name == "u64" {
				// { l0_lo, l0_hi, ..., l8_lo, l8_hi }: sum (z[2k] + 2^64 z[2k+1]) 2^(52k) == a*b exactly
				if len(z) != 2*(2*sb.n-1) {
					vmsgs = append(vmsgs, fmt.Sprintf("the result has %d words, want %d (lo/hi pairs)", len(z), 2*(2*sb.n-1)))
				} else {
					got := int64Form(0)
					for k := 0; k < 2*sb.n-1; k++ {
						got = got.Add(z[2*k].F().Shl(sb.w * uint(k))).Add(z[2*k+1].F().Shl(64 + sb.w*uint(k)))
					}
					vmsgs = w.diffInt(got, productForm(w, va, vb, uniform, uniform), nil, "", "sum (z[2k] + 2^64*z[2k+1])*2^(52k)")
				}
			} else {
				if len(z) != 2*sb.n-1 {
					vmsgs = append(vmsgs, fmt.Sprintf("the result has %d words, want %d", len(z), 2*sb.n-1))
				}
				for k := 0; k < len(z) && k < 2*sb.n-1 && len(vmsgs) < 3; k++ {
					var ia, ib []int
					for i := 0; i < sb.n; i++ {
						if j := k - i; j >= 0 && j < sb.n {
							ia, ib = append(ia, i), append(ib, j)
						}
					}
					ck := &Form{c: ratZero}
					acc := map[int]int64{}
					for t := range ia {
						acc[w.monomial(va[ia[t]], vb[ib[t]])]++
					}
					for v, n := range acc {
						ck.ts = append(ck.ts, term{v, new(big.Rat).SetInt64(n)})
					}
					sort.Slice(ck.ts, func(i, j int) bool { return ck.ts[i].v < ck.ts[j].v })
					for _, m := range w.diffInt(z[k].F(), ck, pow2(64), "2^64", fmt.Sprintf("z[%d]", k)) {
						vmsgs = append(vmsgs, m)
					}
					if r := w.rangeOf(ck); r.Lo.Sign() < 0 || r.Hi.Cmp(pow2m1(64)) > 0 {
						rmsgs = append(rmsgs, fmt.Sprintf("the coefficient C_%d = sum_{i+j=%d} a_i*b_j ranges over %s and does not fit a word: z[%d] == C_%d (mod 2^64) does not give equality", k, k, r, k, k))
					}
				}
			}
		}
		c.conclude(c.rng, fpos, full+": words", rmsgs)
		if !out.OK() || !ok {
			_, why := out.Why(w)
			c.fail(c.value, pos, full+": value", "not decided: the interpretation did not complete ("+why+")")
		} else {
			c.conclude(c.value, pos, full+": value", vmsgs)
		}
		id := "sum_k (z[2k] + 2^64*z[2k+1])*2^(52k) == (sum a_i*2^(52i))*(sum b_j*2^(52j)) EXACTLY as integers, coefficient-wise in the monomials (all carry and high-word symbols cancel)"
		if sb.name == "u32" {
			id = "per word: z[k] == C_k = sum_{i+j=k} a_i*b_j modulo 2^64 coefficient-wise (the Karatsuba wrap symbols have coefficients divisible by 2^64) and 0 <= C_k < 2^64 from a_i, b_j < 2^29, hence z[k] = C_k"
		}
		c.sample(map[string]any{"function": full, "radix": sb.name, "identity": id, "stats": w.StatList()})
	}

	// the remaining functions need L
	w0, _ := mc.world()
	L, gL, lerr := mc.scalarL(w0, sb)
	N := sb.w * uint(sb.n)
	modN := pow2(N)

	// selector: got - want must be t*L (mod 2^N) for exactly one 0/1 symbol t
	selector := func(w *World, got, want *Form, sumName string) []string {
		if m := w.opaqueIn(got, sumName); m != "" {
			return []string{m}
		}
		d := got.Sub(want)
		var msgs []string
		sel := 0
		lm := new(big.Int).Mod(L, modN)
		for _, t := range d.ts {
			vi := w.Var(t.v)
			if !t.c.IsInt() {
				msgs = append(msgs, fmt.Sprintf("coefficient of %s in %s is not an integer", vi.Name, sumName))
				continue
			}
			r := new(big.Int).Mod(t.c.Num(), modN)
			if r.Sign() == 0 {
				continue
			}
			isSel := (vi.Kind == VWrap || vi.Kind == VQuot) &&
				((r.Cmp(lm) == 0 && vi.Lo.Sign() == 0 && vi.Hi.Cmp(bigOne) == 0) ||
					(new(big.Int).Add(r, lm).Cmp(modN) == 0 && vi.Lo.Cmp(big.NewInt(-1)) == 0 && vi.Hi.Sign() == 0))
			switch {
			case isSel:
				sel++
			case vi.Kind == VSym:
				msgs = append(msgs, fmt.Sprintf("coefficient of %s in %s is %s, want %s (modulo 2^%d)", vi.Name, sumName, prettyRat(got.Coef(t.v)), prettyRat(want.Coef(t.v)), N))
			default:
				msgs = append(msgs, fmt.Sprintf("%s keeps the coefficient %s in %s (modulo 2^%d): neither a cancelled carry nor the selector of +L", vi.Name, prettyRat(t.c), sumName, N))
			}
			if len(msgs) >= 3 {
				return msgs
			}
		}
		if d.c.IsInt() && new(big.Int).Mod(d.c.Num(), modN).Sign() != 0 || !d.c.IsInt() {
			msgs = append(msgs, fmt.Sprintf("constant term of %s is %s, want %s (modulo 2^%d)", sumName, prettyRat(got.c), prettyRat(want.c), N))
		}
		if len(msgs) == 0 && sel != 1 {
			msgs = append(msgs, fmt.Sprintf("%d selector symbols with coefficient L found in %s, want exactly one (the conditional +L driven by the borrow of the top limb)", sel, sumName))
		}
		return msgs
	}

	for _, op := range []string{"Add", "Sub"} {
		fn, full := anchor("(*unpackedScalar)."+op, 1, 1)
		if fn == nil {
			continue
		}
		pos := c.p.Pos(fn.Pos())
		if lerr != "" {
			c.fail(c.value, pos, full+": value", "anchor: "+lerr)
			c.fail(c.rng, pos, full+": words", "anchor: "+lerr)
			continue
		}
		for _, alias := range []bool{false, true} {
			if alias {
				c.plan(c.value, 1)
				c.plan(c.rng, 1)
			}
			w, mem := mc.world()
			w.WrapMode = true
			a, va := newScalar(w, mem, "a")
			b, vb := newScalar(w, mem, "b")
			s := a
			lbl := full + " [s aliases a]"
			if !alias {
				s = w.alloc(mem, sb.typ, &Agg{w.outputCells("s", sb.n, sb.limbKind)})
				lbl = full
			}
			out := w.Call(fn, []Value{s, a, b}, mem)
			fpos, rmsgs := runFailures(w, out)
			if fpos == "-" {
				fpos = pos
			}
			var limbs []*Int
			if v, ok := mem.load(s); ok {
				limbs, _ = intCells(v)
			}
			if out.OK() && len(limbs) == sb.n {
				for i, l := range limbs {
					if l.R.Lo.Sign() < 0 || l.R.Hi.Cmp(pow2m1(sb.w)) > 0 {
						rmsgs = append(rmsgs, fmt.Sprintf("output limb %d ranges over %s, want < 2^%d", i, l.R, sb.w))
					}
				}
				if q, ok := out.Ret.(*Ptr); !ok || !q.same(s) {
					rmsgs = append(rmsgs, "the function does not return its receiver")
				}
			}
			c.conclude(c.rng, fpos, lbl+": words", rmsgs)
			if !out.OK() || len(limbs) != sb.n {
				_, why := out.Why(w)
				c.fail(c.value, pos, lbl+": value", "not decided: the interpretation did not complete ("+why+")")
				continue
			}
			want := linForm(va, uniform)
			if op == "Add" {
				want = want.Add(linForm(vb, uniform)).Sub(intForm(L))
			} else {
				want = want.Sub(linForm(vb, uniform))
			}
			c.conclude(c.value, pos, lbl+": value", selector(w, weighted(limbs, uniform), want, "sum s_i*2^(W*i) of the result"))
			if !alias {
				c.sample(map[string]any{"function": full, "radix": sb.name, "identity": fmt.Sprintf("sum s_i*2^(%d*i) == a %s b %s + t*L (modulo 2^%d) for exactly one 0/1 symbol t (the borrow out of the top limb of the subtraction), every other carry / wrap / quotient symbol cancels modulo 2^%d; every output limb < 2^%d", sb.w, map[string]string{"Add": "+", "Sub": "-"}[op], map[string]string{"Add": "- L", "Sub": ""}[op], N, N, sb.w), "stats": w.StatList()})
			}
		}
	}

	// --- MontgomeryReduce
	if fn, full := anchor("(*unpackedScalar).MontgomeryReduce", 1, 1); fn != nil {
		pos := c.p.Pos(fn.Pos())
		subFn := c.p.Func(scalarRel, "(*unpackedScalar).Sub")
		if lerr != "" || subFn == nil {
			if lerr == "" {
				lerr = "(*unpackedScalar).Sub cannot be resolved"
			}
			c.fail(c.value, pos, full+": value", "anchor: "+lerr)
			c.fail(c.rng, pos, full+": words", "anchor: "+lerr)
		} else {
			w, mem := mc.world()
			w.WrapMode = true
			s := w.alloc(mem, sb.typ, &Agg{w.outputCells("s", sb.n, sb.limbKind)})
			// the raw limbs of a product of two scalars with limbs below 2^W
			nl := 2*sb.n - 1
			coefMax := func(k int) *big.Int { // sum_{i+j=k} (2^W-1)^2
				cnt := 0
				for i := 0; i < sb.n; i++ {
					if j := k - i; j >= 0 && j < sb.n {
						cnt++
					}
				}
				m := new(big.Int).Mul(pow2m1(sb.w), pow2m1(sb.w))
				return m.Mul(m, big.NewInt(int64(cnt)))
			}
			var cells []Value
			limbsVal := int64Form(0)
			if sb.name == "u64" {
				for k := 0; k < nl; k++ {
					lo := w.symInt(w.SymVar("limbs", 2*k, bigZero, pow2m1(64)))
					hi := w.symInt(w.SymVar("limbs", 2*k+1, bigZero, new(big.Int).Rsh(coefMax(k), 64)))
					cells = append(cells, lo, hi)
					limbsVal = limbsVal.Add(lo.F().Shl(sb.w * uint(k))).Add(hi.F().Shl(64 + sb.w*uint(k)))
				}
			} else {
				for k := 0; k < nl; k++ {
					x := w.symInt(w.SymVar("limbs", k, bigZero, coefMax(k)))
					cells = append(cells, x)
					limbsVal = limbsVal.Add(x.F().Shl(sb.w * uint(k)))
				}
			}
			lp := w.alloc(mem, nil, &Agg{cells})
			var r []*Int
			subCalls := 0
			subOK := false
			w.OnCall = func(cc *CallCtx) (Value, bool) {
				if cc.Callee != subFn || cc.Depth != 0 || len(cc.Args) != 3 {
					return nil, false
				}
				subCalls++
				recv, _ := cc.Args[0].(*Ptr)
				x, _ := cc.Args[1].(*Ptr)
				y, _ := cc.Args[2].(*Ptr)
				if x != nil {
					if v, ok := cc.Mem.load(x); ok {
						r, _ = intCells(v)
					}
				}
				subOK = recv != nil && recv.same(s) && y != nil && y.G == gL && len(y.Path) == 0
				return cc.Args[0], true // Sub is decided separately
			}
			out := w.Call(fn, []Value{s, lp}, mem)
			fpos, rmsgs := runFailures(w, out)
			if fpos == "-" {
				fpos = pos
			}
			if out.OK() {
				if subCalls != 1 || !subOK {
					rmsgs = append(rmsgs, fmt.Sprintf("MontgomeryReduce does not end in exactly one s.Sub(r, &constL) from its own body (%d calls seen)", subCalls))
				}
				if q, ok := out.Ret.(*Ptr); !ok || !q.same(s) {
					rmsgs = append(rmsgs, "the function does not return the result of that Sub")
				}
				for i, x := range r {
					lim := pow2m1(sb.w)
					if i == sb.n-1 {
						// under limb-wise preconditions r < 2^(n*W) + L: the top limb can
						// exceed 2^W by the top bits of L (r_top < 2^W needs a*b < L*R)
						lim = new(big.Int).Add(pow2(sb.w), pow2(sb.w-7))
					}
					if x.R.Lo.Sign() < 0 || x.R.Hi.Cmp(lim) > 0 {
						rmsgs = append(rmsgs, fmt.Sprintf("limb %d of the operand of the final Sub ranges over %s, want <= %s", i, x.R, fmtBound(lim)))
					}
				}
			}
			c.conclude(c.rng, fpos, full+": words", rmsgs)
			if !out.OK() || len(r) != sb.n {
				_, why := out.Why(w)
				c.fail(c.value, pos, full+": value", "not decided: the operand of the final Sub could not be obtained ("+why+")")
			} else {
				got := weighted(r, uniform).Shl(N)
				c.conclude(c.value, pos, full+": value", w.diffInt(got, limbsVal, L, "L", fmt.Sprintf("(sum r_i*2^(%d*i))*2^%d", sb.w, N)))
			}
			c.sample(map[string]any{"function": full, "radix": sb.name,
				"identity":     fmt.Sprintf("for the operand r of the final s.Sub(r, &constL): (sum r_i*2^(%d*i))*2^%d == sum limbs_k*2^(%d*k) coefficient-wise modulo L with integer coefficients (the difference is N*L for an integer form N: the Montgomery factors n_i = limbs*LFACTOR mod 2^%d make every dropped low part exactly divisible), r_i < 2^%d", sb.w, N, sb.w, sb.w, sb.w),
				"precondition": "limbs: the coefficients of a product of two scalars with limbs below 2^W (64-bit: lo any word, hi below the bound of that coefficient / 2^64)",
				"stats":        w.StatList()})
		}
	}
}

var _ = types.Typ
