package elin

import (
	"fmt"
	"go/token"
	"go/types"
	"math/big"

	"golang.org/x/tools/go/ssa"
)

// fit checks that a result lies inside its machine type.  A result that may
// leave it is reported and replaced by an opaque symbol.
func (w *World) fit(in ssa.Instruction, k ikind, x *Int, what string) *Int {
	if x.R.Leq(k.rng()) {
		return x
	}
	if w.WrapMode && !k.isBool {
		return w.wrapInto(in, k, x, what)
	}
	w.fail(in, "%s may wrap: the result ranges over %s, outside %s", what, x.R, kindName(k))
	return w.opaqueInt(k.rng(), "wrapped "+what)
}

// unw returns the unwrapped value of a word (see Int.pend).
func unw(x *Int) (*Form, Itv) {
	if x.pend != nil {
		return x.pend.d, x.pend.dR
	}
	return x.F(), x.R
}

func firstPend(xs ...*Int) *pending {
	for _, x := range xs {
		if x.pend != nil {
			return x.pend
		}
	}
	return nil
}

// fitDefer is fit for the operations that commute with reduction modulo 2^w
// (+, -, multiplication by a constant, <<): x is the UNWRAPPED result.  In
// strict mode a result that may wrap is not reported at once: the word is
// d - 2^w*n with the obligation pending, discharged if a later operation of
// the same kind brings the unwrapped value back into range, failed (at the
// first wrapping instruction) by any other use of the word (World.settle).
func (w *World) fitDefer(in ssa.Instruction, k ikind, x *Int, what string, prev *pending) *Int {
	if x.R.Leq(k.rng()) {
		if prev != nil {
			w.Stats["wrap-arounds that cancel inside one expression (exact)"]++
		}
		return x
	}
	if k.isBool {
		return w.fit(in, k, x, what)
	}
	if w.WrapMode {
		return w.wrapInto(in, k, x, what)
	}
	res := *w.wrapInto(in, k, x, what)
	p := &pending{d: x.F(), dR: x.R, in: in, what: what, r0: x.R, k: k}
	if prev != nil {
		p.in, p.what, p.r0, p.k = prev.in, prev.what, prev.r0, prev.k
	}
	res.pend = p
	res.wr = nil
	return &res
}

// settle is called when a word is used by anything but +, -, *const, <<: a
// pending wrap-around is then a defect.
func (w *World) settle(x *Int) *Int {
	if x.pend == nil {
		return x
	}
	w.fail(x.pend.in, "%s may wrap: the result ranges over %s, outside %s", x.pend.what, x.pend.r0, kindName(x.pend.k))
	c := *x
	c.pend = nil
	return &c
}

func kindName(k ikind) string {
	if k.isBool {
		return "bool"
	}
	s := "uint"
	if k.signed {
		s = "int"
	}
	return s + big.NewInt(int64(k.bits)).String()
}

func concOf(x *Int) (*big.Int, bool) { return x.conc() }

func (w *World) concInt(n *big.Int) *Int {
	if n.IsInt64() {
		if v := n.Int64(); v >= -smallMax && v <= smallMax {
			if x := w.small[v+smallMax]; x != nil {
				return x
			}
			x := &Int{f: intForm(n), R: single(n)}
			w.small[v+smallMax] = x
			return x
		}
	}
	return &Int{f: intForm(n), R: single(n)}
}

func boolInt(b bool) *Int {
	if b {
		return mkConst(1)
	}
	return mkConst(0)
}

// concreteBin evaluates an operation on two concrete words with the exact Go
// semantics.
func (w *World) concreteBin(in ssa.Instruction, op token.Token, a, b *big.Int, k ikind) (*Int, bool) {
	var r *big.Int
	switch op {
	case token.ADD:
		r = new(big.Int).Add(a, b)
	case token.SUB:
		r = new(big.Int).Sub(a, b)
	case token.MUL:
		r = new(big.Int).Mul(a, b)
	case token.QUO:
		if b.Sign() == 0 {
			return nil, false
		}
		r = new(big.Int).Quo(a, b) // truncated, as in Go
	case token.REM:
		if b.Sign() == 0 {
			return nil, false
		}
		r = new(big.Int).Rem(a, b)
	case token.AND:
		r = new(big.Int).And(a, b)
	case token.OR:
		r = new(big.Int).Or(a, b)
	case token.XOR:
		r = new(big.Int).Xor(a, b)
	case token.AND_NOT:
		r = new(big.Int).AndNot(a, b)
	case token.SHL:
		if b.Sign() < 0 {
			return nil, false
		}
		if !b.IsUint64() || b.Uint64() >= uint64(k.bits) {
			r = new(big.Int)
			if a.Sign() != 0 {
				w.Stats["concrete operations that wrap (exact Go semantics)"]++
			}
			return w.concInt(r), true
		}
		r = new(big.Int).Lsh(a, uint(b.Uint64()))
	case token.SHR:
		if b.Sign() < 0 {
			return nil, false
		}
		if !b.IsUint64() || b.Uint64() >= uint64(k.bits) {
			if a.Sign() < 0 {
				return w.concInt(big.NewInt(-1)), true
			}
			return w.concInt(new(big.Int)), true
		}
		r = new(big.Int).Rsh(a, uint(b.Uint64()))
	default:
		return nil, false
	}
	wr := k.wrap(r)
	if wr != r {
		w.Stats["concrete operations that wrap (exact Go semantics)"]++
	}
	return w.concInt(wr), true
}

func cmpHolds(op token.Token, c int) bool {
	switch op {
	case token.EQL:
		return c == 0
	case token.NEQ:
		return c != 0
	case token.LSS:
		return c < 0
	case token.LEQ:
		return c <= 0
	case token.GTR:
		return c > 0
	case token.GEQ:
		return c >= 0
	}
	return false
}

// compare decides a comparison when the ranges (of the operands or of their
// difference) allow it; otherwise the result is an opaque boolean.
func (w *World) compare(in ssa.Instruction, op token.Token, x, y *Int) *Int {
	if a, ok := concOf(x); ok {
		if b, ok := concOf(y); ok {
			return boolInt(cmpHolds(op, a.Cmp(b)))
		}
	}
	if op == token.EQL || op == token.NEQ {
		// a 0/1 word compared with 0 or 1 is an affine function of the word
		for _, p := range [][2]*Int{{x, y}, {y, x}} {
			if c, ok := concOf(p[1]); ok && p[0].R.Leq(Itv{bigZero, bigOne}) && (c.Sign() == 0 || c.Cmp(bigOne) == 0) {
				if (c.Sign() != 0) == (op == token.EQL) {
					return p[0] // x == 1, x != 0
				}
				ar := Itv{new(big.Int).Sub(bigOne, p[0].R.Hi), new(big.Int).Sub(bigOne, p[0].R.Lo)}
				return w.mkInt(int64Form(1).Sub(p[0].F()), &ar) // x == 0, x != 1
			}
		}
		// a bit pattern (unsigned or two's complement layout) with a bit that is
		// the constant 1 differs from 0
		for _, p := range [][2]*Int{{x, y}, {y, x}} {
			if c, ok := concOf(p[1]); ok && c.Sign() == 0 {
				l, isLay := w.layoutOf(p[0])
				if !isLay {
					l, isLay = w.twosOf(p[0], 64)
				}
				if isLay {
					for _, cell := range l {
						if cell == layOne {
							w.Stats["comparisons with 0 decided by a constant 1 bit"]++
							return boolInt(op == token.NEQ)
						}
					}
				}
			}
		}
	}
	d := w.mkInt(x.F().Sub(y.F()), ptrItv(x.R.Sub(y.R))).R // range of x - y
	var res int                                            // 1 true, -1 false
	switch op {
	case token.EQL, token.NEQ:
		if d.Lo.Sign() > 0 || d.Hi.Sign() < 0 {
			res = -1
		} else if d.Lo.Sign() == 0 && d.Hi.Sign() == 0 {
			res = 1
		}
		if op == token.NEQ {
			res = -res
		}
	case token.LSS:
		if d.Hi.Sign() < 0 {
			res = 1
		} else if d.Lo.Sign() >= 0 {
			res = -1
		}
	case token.LEQ:
		if d.Hi.Sign() <= 0 {
			res = 1
		} else if d.Lo.Sign() > 0 {
			res = -1
		}
	case token.GTR:
		if d.Lo.Sign() > 0 {
			res = 1
		} else if d.Hi.Sign() <= 0 {
			res = -1
		}
	case token.GEQ:
		if d.Lo.Sign() >= 0 {
			res = 1
		} else if d.Hi.Sign() < 0 {
			res = -1
		}
	}
	switch res {
	case 1:
		w.Stats["comparisons decided by ranges"]++
		return mkConst(1)
	case -1:
		w.Stats["comparisons decided by ranges"]++
		return mkConst(0)
	}
	return w.opaqueInt(Itv{bigZero, bigOne}, "data-dependent comparison")
}

func ptrItv(i Itv) *Itv { return &i }

// binop is the transfer function of an integer binary operation.  xt is the
// type of the left operand, rt the result type.
func (w *World) binop(in ssa.Instruction, op token.Token, x, y *Int, xt, rt types.Type) *Int {
	switch op {
	case token.EQL, token.NEQ, token.LSS, token.LEQ, token.GTR, token.GEQ:
		return w.compare(in, op, x, y)
	}
	k, ok := w.kindOf(rt)
	if !ok {
		panic(undecided{in, "binary operation on non-integer type " + rt.String()})
	}
	a, aok := concOf(x)
	b, bok := concOf(y)
	if aok && bok {
		if r, ok := w.concreteBin(in, op, a, b, k); ok {
			return r
		}
		panic(undecided{in, "concrete operation " + op.String() + " is undefined (division by zero or negative shift count)"})
	}
	if k.isBool {
		// & | ^ on booleans that are not both concrete
		return w.opaqueInt(k.rng(), "boolean "+op.String())
	}
	switch op {
	case token.ADD:
		xf, xr := unw(x)
		yf, yr := unw(y)
		ar := xr.Add(yr)
		return w.fitDefer(in, k, w.mkInt(xf.Add(yf), &ar), "addition", firstPend(x, y))
	case token.SUB:
		xf, xr := unw(x)
		yf, yr := unw(y)
		ar := xr.Sub(yr)
		return w.fitDefer(in, k, w.mkInt(xf.Sub(yf), &ar), "subtraction", firstPend(x, y))
	case token.MUL:
		switch {
		case aok:
			yf, yr := unw(y)
			ar := x.R.Mul(yr)
			return w.fitDefer(in, k, w.mkInt(yf.ScaleInt(a), &ar), "multiplication", firstPend(y))
		case bok:
			xf, xr := unw(x)
			ar := xr.Mul(y.R)
			return w.fitDefer(in, k, w.mkInt(xf.ScaleInt(b), &ar), "multiplication", firstPend(x))
		}
		x, y = w.settle(x), w.settle(y)
		ar := x.R.Mul(y.R)
		if w.Monomials {
			if p, ok := w.product(x, y); ok {
				return w.fit(in, k, p, "multiplication")
			}
		}
		if !ar.Leq(k.rng()) {
			w.fail(in, "multiplication may wrap: the result ranges over %s, outside %s", ar, kindName(k))
			return w.opaqueInt(k.rng(), "wrapped product")
		}
		w.Stats["products of two forms (opaque)"]++
		return w.opaqueInt(ar, "product of two non-constant forms")
	case token.SHL:
		y = w.settle(y)
		if !bok {
			x = w.settle(x)
			return w.opaqueInt(k.rng(), "shift by a non-constant count")
		}
		if b.Sign() < 0 {
			panic(undecided{in, "negative shift count"})
		}
		if !b.IsUint64() || b.Uint64() >= uint64(k.bits) {
			return mkConst(0) // every bit is shifted out: exact Go semantics
		}
		s := uint(b.Uint64())
		if !k.signed {
			if l, ok := w.layoutOf(x); ok {
				var r layout
				dropped := false
				for i, c := range l {
					if c == 0 {
						continue
					}
					if uint(i)+s < k.bits {
						r[uint(i)+s] = c
					} else {
						dropped = true
					}
				}
				if dropped {
					w.Stats["layout bits shifted out of the word (exact)"]++
				}
				return w.fromLayout(&r)
			}
		}
		xf, xr := unw(x)
		ar := Itv{new(big.Int).Lsh(xr.Lo, s), new(big.Int).Lsh(xr.Hi, s)}
		res := w.fitDefer(in, k, w.mkInt(xf.Shl(s), &ar), "left shift", firstPend(x))
		if ar.Leq(k.rng()) && res.F().IsConst() == false {
			// the unwrapped value is a multiple of 2^s
			c := *res
			c.tz = uint8(min(63, uint(x.tz)+s))
			return &c
		}
		return res
	case token.SHR:
		if !bok {
			return w.opaqueInt(k.rng(), "shift by a non-constant count")
		}
		if b.Sign() < 0 {
			panic(undecided{in, "negative shift count"})
		}
		if !b.IsUint64() || b.Uint64() >= uint64(k.bits) {
			switch {
			case x.R.NonNeg():
				return mkConst(0)
			case x.R.Hi.Sign() < 0:
				return mkConst(-1)
			}
			return w.opaqueInt(itvOf(-1, 0), "sign of a word")
		}
		q, _ := w.divmod(in, x, uint(b.Uint64()))
		return q
	case token.AND:
		return w.and(in, k, x, y)
	case token.AND_NOT:
		if bok && !k.signed {
			m := new(big.Int).AndNot(pow2m1(k.bits), b)
			return w.and(in, k, x, w.concInt(m))
		}
		return w.opaqueInt(k.rng(), "&^ with a non-constant mask")
	case token.OR, token.XOR:
		if aok && a.Sign() == 0 {
			return y
		}
		if bok && b.Sign() == 0 {
			return x
		}
		if op == token.XOR {
			// u ^ 1 = 1 - u for a 0/1 quantity u
			for _, p := range [][2]*Int{{x, y}, {y, x}} {
				if c, ok := concOf(p[1]); ok && c.Cmp(bigOne) == 0 && p[0].R.Leq(Itv{bigZero, bigOne}) {
					ar := Itv{new(big.Int).Sub(bigOne, p[0].R.Hi), new(big.Int).Sub(bigOne, p[0].R.Lo)}
					return w.mkInt(int64Form(1).Sub(p[0].F()), &ar)
				}
			}
		}
		// a multiple of 2^t combined with a value below 2^t: the bits are disjoint
		for _, p := range [][2]*Int{{x, y}, {y, x}} {
			tz := int(p[0].tz)
			if l, ok := w.layoutOf(p[0]); ok && !l.isZero() {
				n := 0
				for n < 64 && l[n] == 0 {
					n++
				}
				tz = max(tz, n)
			}
			if tz > 0 && p[0].R.NonNeg() && p[1].R.NonNeg() && p[1].R.Hi.BitLen() <= tz {
				w.Stats["| of a multiple of 2^t with a value below 2^t (exact sum)"]++
				ar := p[0].R.Add(p[1].R)
				return w.fit(in, k, w.mkInt(p[0].F().Add(p[1].F()), &ar), op.String())
			}
		}
		lx, okx := w.layoutOf(x)
		ly, oky := w.layoutOf(y)
		if okx && oky && !k.signed {
			var r layout
			good := true
			for i := range r {
				cx, cy := lx[i], ly[i]
				switch {
				case cx == 0:
					r[i] = cy
				case cy == 0:
					r[i] = cx
				case op == token.OR && (cx == layOne || cy == layOne):
					r[i] = layOne
				case op == token.OR && cx == cy:
					r[i] = cx
				case op == token.XOR && cx == cy:
					r[i] = 0
				case w.WrapMode && op == token.OR:
					// two different bits at one position: some 0/1 value (sound, the relation is lost)
					w.Stats["| of different bits at one position (fresh bit)"]++
					r[i] = int32(w.newVar(VarInfo{Kind: VOpaque, Name: fmt.Sprintf("bit#%d (| of two different bits)", len(w.vars)), Lo: bigZero, Hi: bigOne, Why: "| of two different bits"}) + 1)
				default:
					good = false
				}
			}
			if good {
				return w.fromLayout(&r)
			}
		}
		if x.R.NonNeg() && y.R.NonNeg() {
			// x|y and x^y are at most x+y and fit the bits of the larger operand
			hi := new(big.Int).Add(x.R.Hi, y.R.Hi)
			if m := pow2m1(uint(max(x.R.Hi.BitLen(), y.R.Hi.BitLen()))); m.Cmp(hi) < 0 {
				hi = m
			}
			w.Stats["| or ^ outside the layout domain (opaque)"]++
			return w.opaqueInt(Itv{bigZero, hi}, op.String()+" of values that are not position-disjoint layouts")
		}
		return w.opaqueInt(k.rng(), op.String()+" of values that are not layouts")
	case token.QUO, token.REM:
		if bok && !k.signed {
			if s, ok := log2Exact(b); ok {
				q, r := w.divmod(in, x, s)
				if op == token.QUO {
					return q
				}
				return r
			}
		}
		return w.opaqueInt(k.rng(), "division by a non-power of two or of a signed word")
	}
	panic(undecided{in, "unsupported binary operator " + op.String()})
}

// and models x & y.
func (w *World) and(in ssa.Instruction, k ikind, x, y *Int) *Int {
	if _, ok := concOf(x); ok {
		x, y = y, x
	}
	m, mok := concOf(y)
	if mok && m.Sign() >= 0 && !k.signed && len(x.F().ts) == 1 && x.F().c.Sign() == 0 {
		// c & (u * all-ones) = c*u for a 0/1 quantity u (a mask that is all ones or zero)
		ones := new(big.Rat).SetInt(pow2m1(k.bits))
		t := x.F().ts[0]
		if new(big.Rat).Abs(t.c).Cmp(ones) == 0 {
			u := x.F().Scale(new(big.Rat).Inv(ones))
			if ur := w.rangeOf(u); ur.Leq(Itv{bigZero, bigOne}) {
				w.Stats["constant & all-ones-or-zero mask (exact product)"]++
				ar := Itv{bigZero, m}
				return w.mkInt(u.ScaleInt(m), &ar)
			}
		}
	}
	lx, okx := w.layoutOf(x)
	ly, oky := w.layoutOf(y)
	if okx && oky {
		var r layout
		good := true
		for i := range r {
			cx, cy := lx[i], ly[i]
			switch {
			case cx == 0 || cy == 0:
			case cx == layOne:
				r[i] = cy
			case cy == layOne || cx == cy:
				r[i] = cx
			default:
				good = false
			}
		}
		if good {
			return w.fromLayout(&r)
		}
	}
	if mok && m.Sign() >= 0 {
		if s, ok := log2Exact(new(big.Int).Add(m, bigOne)); ok {
			// x & (2^s - 1) = x mod 2^s (also for negative x in two's complement)
			_, r := w.divmod(in, x, s)
			return r
		}
		if !k.signed {
			// x & (2^bits - 2^s) = x - (x mod 2^s)
			if s, ok := log2Exact(new(big.Int).Sub(pow2(k.bits), m)); ok {
				_, r := w.divmod(in, x, s)
				ar := Itv{bigZero, x.R.Hi}
				return w.mkInt(x.F().Sub(r.F()), &ar)
			}
		}
		if x.R.NonNeg() {
			hi := m
			if x.R.Hi.Cmp(hi) < 0 {
				hi = x.R.Hi
			}
			w.Stats["& outside the layout domain (opaque)"]++
			return w.opaqueInt(Itv{bigZero, hi}, "& of a non-layout value with a non-contiguous mask")
		}
	}
	if x.R.NonNeg() && y.R.NonNeg() {
		hi := x.R.Hi
		if y.R.Hi.Cmp(hi) < 0 {
			hi = y.R.Hi
		}
		w.Stats["& outside the layout domain (opaque)"]++
		return w.opaqueInt(Itv{bigZero, hi}, "& of two non-constant values")
	}
	return w.opaqueInt(k.rng(), "& of values that are not layouts")
}

// unop is the transfer function of -x, ^x and !x.
func (w *World) unop(in ssa.Instruction, op token.Token, x *Int, t types.Type) *Int {
	k, ok := w.kindOf(t)
	if !ok {
		panic(undecided{in, "unary operation on non-integer type " + t.String()})
	}
	switch op {
	case token.NOT:
		ar := Itv{new(big.Int).Sub(bigOne, x.R.Hi), new(big.Int).Sub(bigOne, x.R.Lo)}
		return w.mkInt(int64Form(1).Sub(x.F()), &ar)
	case token.SUB:
		if a, ok := concOf(x); ok {
			r := new(big.Int).Neg(a)
			wr := k.wrap(r)
			if wr != r {
				w.Stats["concrete operations that wrap (exact Go semantics)"]++
			}
			return w.concInt(wr)
		}
		ar := x.R.Neg()
		return w.fit(in, k, w.mkInt(x.F().Scale(ratMinusOne), &ar), "negation")
	case token.XOR:
		// ^x = (2^bits-1) - x for unsigned words, -1 - x for signed ones: affine and always in range
		c := big.NewInt(-1)
		if !k.signed {
			c = pow2m1(k.bits)
		}
		ar := single(c).Sub(x.R)
		return w.mkInt(intForm(c).Sub(x.F()), &ar)
	}
	panic(undecided{in, "unsupported unary operator " + op.String()})
}

// convert models an integer conversion.
func (w *World) convert(in ssa.Instruction, x *Int, from, to types.Type) *Int {
	kf, ok1 := w.kindOf(from)
	kt, ok2 := w.kindOf(to)
	if !ok1 || !ok2 {
		panic(undecided{in, "conversion " + from.String() + " -> " + to.String() + " is not modelled"})
	}
	if a, ok := concOf(x); ok {
		wr := kt.wrap(a)
		if wr != a {
			w.Stats["concrete operations that wrap (exact Go semantics)"]++
		}
		return w.concInt(wr)
	}
	if x.R.Leq(kt.rng()) {
		return x // the value is unchanged
	}
	if w.WrapMode && kt.bits == kf.bits && kt.signed != kf.signed {
		// reinterpretation of a two's complement bit pattern, else a wrap term
		if kf.signed {
			if l, ok := w.twosOf(x, kf.bits); ok {
				return w.fromLayout(l)
			}
		} else if l, ok := w.layoutOf(x); ok && l.top() <= int(kt.bits) {
			return w.fromTwos(l, kt.bits)
		}
		return w.wrapInto(in, kt, x, "conversion")
	}
	if !kt.signed {
		// truncation to an unsigned type = remainder modulo 2^bits (exact, also
		// for a negative source in two's complement)
		if kt.bits < kf.bits || x.R.NonNeg() {
			w.Stats["truncating conversions modelled as remainders (exact)"]++
			_, r := w.divmod(in, x, kt.bits)
			return r
		}
		w.fail(in, "conversion %s -> %s of a value ranging over %s changes the value", kindName(kf), kindName(kt), x.R)
		return w.opaqueInt(kt.rng(), "sign-changing conversion")
	}
	w.fail(in, "conversion %s -> %s may wrap: the value ranges over %s", kindName(kf), kindName(kt), x.R)
	return w.opaqueInt(kt.rng(), "wrapped conversion")
}
