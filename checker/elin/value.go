package elin

import (
	"fmt"
	"go/types"
	"math/big"

	"golang.org/x/tools/go/ssa"
)

// Value is an abstract value.  All implementations are immutable.
type Value interface{ kind() string }

// Int abstracts an integer or boolean machine word: its value equals the
// affine form F and lies in R.
type Int struct {
	f *Form // nil: built on demand from the layout
	R Itv

	layState int8 // 0 unknown, 1 layout cached, 2 not a layout
	lay      layout

	tz uint8    // the value is known to be a multiple of 2^tz (set by left shifts)
	wr *wrapRec // the word is d - 2^bits*n for the wrap symbol n (wrap mode)

	// pend: strict mode, the word may have wrapped (its unwrapped value is d,
	// ranging over dR).  +, -, multiplication by a constant and << continue
	// with d (they commute with reduction modulo 2^w), so a wrap that cancels
	// inside one expression, e.g. (a - b) + c, yields an exact in-range
	// result; any other use of the word fails the obligation at its origin.
	pend *pending
}

type pending struct {
	d    *Form
	dR   Itv
	in   ssa.Instruction // the instruction that may wrap first
	what string
	r0   Itv // the range reported for it
	k    ikind
}

// wrapRec records how a wrapped unsigned word was obtained: value = d - 2^bits*n
// with n in {-1, 0} (an underflow count) and d ranging over dR.
type wrapRec struct {
	n    int
	d    *Form
	dR   Itv
	bits uint
}

// F returns the affine form of the word.
func (x *Int) F() *Form {
	if x.f == nil {
		x.f = x.lay.form()
	}
	return x.f
}

// conc returns the value of a concrete word.
func (x *Int) conc() (*big.Int, bool) {
	if !x.R.IsSingle() {
		return nil, false // the range of a constant form is a single point
	}
	if x.f == nil {
		return x.R.Lo, true // a layout: its range is exact
	}
	return x.f.ConstInt()
}

// Agg is an array or struct value, cell by cell.
type Agg struct{ E []Value }

// Ptr points at a cell or sub-aggregate of a tracked object, or at a
// package-level variable (G != nil; its contents are not modelled).
type Ptr struct {
	Obj  int
	Path []int
	G    *ssa.Global
}

// Slice is a window [Off, Off+Len) of the array at P.
type Slice struct {
	P        *Ptr
	Off, Len int
	Cap      int
}

// Tuple is a multi-value result.
type Tuple struct{ E []Value }

// Fn is a function value (closure with its bindings).
type Fn struct {
	Func *ssa.Function
	Bind []Value
}

// Nil is the nil pointer / slice / interface / func.
type Nil struct{}

// Opaque is a value the analysis does not interpret.
type Opaque struct {
	NonNil bool
	Why    string
}

func (*Int) kind() string    { return "int" }
func (*Agg) kind() string    { return "agg" }
func (*Ptr) kind() string    { return "ptr" }
func (*Slice) kind() string  { return "slice" }
func (*Tuple) kind() string  { return "tuple" }
func (*Fn) kind() string     { return "func" }
func (Nil) kind() string     { return "nil" }
func (*Opaque) kind() string { return "opaque" }

func (p *Ptr) sub(i int) *Ptr {
	return &Ptr{Obj: p.Obj, Path: append(append([]int(nil), p.Path...), i), G: p.G}
}

func (p *Ptr) same(q *Ptr) bool {
	if p.Obj != q.Obj || p.G != q.G || len(p.Path) != len(q.Path) {
		return false
	}
	for i := range p.Path {
		if p.Path[i] != q.Path[i] {
			return false
		}
	}
	return true
}

func (p *Ptr) String() string {
	if p.G != nil {
		return "&" + p.G.Name() + fmt.Sprint(p.Path)
	}
	return fmt.Sprintf("&obj%d%v", p.Obj, p.Path)
}

func mkConst(n int64) *Int {
	f := int64Form(n)
	return &Int{f: f, R: single(f.c.Num())}
}

// Concrete returns the value of a concrete (constant) word.
func (x *Int) Concrete() (int64, bool) {
	n, ok := x.conc()
	if !ok || !n.IsInt64() {
		return 0, false
	}
	return n.Int64(), true
}

// maxAggLen bounds the size of arrays modelled cell by cell.
const maxAggLen = 4096

// zeroValue is the Go zero value of type t.
func zeroValue(t types.Type) Value {
	switch u := t.Underlying().(type) {
	case *types.Basic:
		if u.Info()&(types.IsInteger|types.IsBoolean) != 0 {
			return mkConst(0)
		}
		return &Opaque{Why: "zero " + u.String()}
	case *types.Array:
		if u.Len() > maxAggLen {
			return &Opaque{Why: "big array"}
		}
		el := make([]Value, u.Len())
		if len(el) > 0 {
			z := zeroValue(u.Elem())
			for i := range el {
				el[i] = z
			}
		}
		return &Agg{el}
	case *types.Struct:
		el := make([]Value, u.NumFields())
		for i := range el {
			el[i] = zeroValue(u.Field(i).Type())
		}
		return &Agg{el}
	case *types.Pointer, *types.Slice, *types.Signature, *types.Interface, *types.Map, *types.Chan:
		return Nil{}
	}
	return &Opaque{Why: "zero " + t.String()}
}

// ---------------------------------------------------------------------------
// memory

// Memory maps object ids to their contents.  Values are immutable, so a
// clone is a copy of the top-level map.
type Memory struct {
	objs  map[int]Value
	types map[int]types.Type
}

func newMemory() *Memory { return &Memory{objs: map[int]Value{}, types: map[int]types.Type{}} }

func (m *Memory) clone() *Memory {
	c := &Memory{objs: make(map[int]Value, len(m.objs)), types: m.types}
	for k, v := range m.objs {
		c.objs[k] = v
	}
	return c
}

func (m *Memory) load(p *Ptr) (Value, bool) {
	if p.G != nil {
		return nil, false
	}
	v, ok := m.objs[p.Obj]
	if !ok {
		return nil, false
	}
	for _, i := range p.Path {
		agg, ok := v.(*Agg)
		if !ok || i < 0 || i >= len(agg.E) {
			return nil, false
		}
		v = agg.E[i]
	}
	return v, true
}

func (m *Memory) store(p *Ptr, v Value) bool {
	if p.G != nil {
		return false
	}
	old, ok := m.objs[p.Obj]
	if !ok {
		return false
	}
	nv, ok := storePath(old, p.Path, v)
	if !ok {
		return false
	}
	m.objs[p.Obj] = nv
	return true
}

func storePath(old Value, path []int, v Value) (Value, bool) {
	if len(path) == 0 {
		return v, true
	}
	agg, ok := old.(*Agg)
	if !ok {
		return nil, false
	}
	i := path[0]
	if i < 0 || i >= len(agg.E) {
		return nil, false
	}
	n, ok := storePath(agg.E[i], path[1:], v)
	if !ok {
		return nil, false
	}
	el := append([]Value(nil), agg.E...)
	el[i] = n
	return &Agg{el}, true
}
