package elin

import (
	"fmt"
	"go/types"
	"math/big"

	"voicheck/load"
	"voicheck/report"
)

// Explanation, Assumptions and NotDecided describe the engine for the
// evidence of the properties that use it.
var (
	Explanation = "Abstract interpretation of go/ssa (package voicheck/elin) whose values are affine forms with rational coefficients over named 0/1 input bits and bounded fresh symbols, paired with big-integer intervals. " +
		"Counted loops are unrolled (loop counters are concrete), module functions and closures are inlined (depth <= 6), memory is tracked cell by cell with strong updates, byte slices are windows of arrays with concrete bounds. " +
		"+, -, multiplication by a constant and << are linear; x>>k, x&(2^k-1), x&^(2^k-1) and narrowing conversions use the division identity x = 2^k*q + r with a fresh remainder r in [0,2^k) memoised on (form,k) and represented by k fresh 0/1 variables; bit-structured forms (layouts) are shifted, masked, or-ed and truncated exactly on their bit positions; encoding/binary.LittleEndian loads are modelled as layouts. " +
		"Every arithmetic result must be shown by its interval to fit its machine word, otherwise the instruction is reported (nothing wraps silently; only operations on two concrete operands are evaluated with the exact wrapping Go semantics). " +
		"A value that leaves the domain becomes an opaque bounded symbol and an output that mentions one is undecided; a data-dependent branch is undecided, except in NonAdjacentForm whose loop body is tabulated over its finite abstract state (w, pos, carry) by enumerating the input bits the branch conditions depend on. " +
		"Obligations: one per function x configuration x clause (value preservation as an identity of affine forms, exactly or coefficient-wise modulo p in Z[1/2]; outputs and intermediates in range; outputs are layouts within their nominal widths); for NonAdjacentForm one per leaf of the decision tree of every (w, pos, carry). Nothing of the repository is executed."
	Assumptions = []string{
		"encoding/binary.LittleEndian.Uint16/32/64 and PutUint16/32/64 behave as documented (modelled directly on byte windows)",
		"Scalar invariant for ToRadix16 and ToRadix2w (and for the termination claim of NonAdjacentForm): bit 255 of Scalar.inner is 0 (scalar.go: \"Scalar holds an integer s < 2^255\"); Bits and the per-iteration invariant of NonAdjacentForm are decided for all 256 bits",
		"(*unpackedScalar).ToBytes: input limbs below 2^52 (2^29) and a value below 2^256, i.e. the top limb below 2^48 (2^24): each limb is modelled as a layout of that many fresh bits",
		"(*Element).reduce: 64-bit back end any uint64 raw limbs; 32-bit back end raw limbs below 2^63 (the carries z[i]>>25 are added without widening)",
		"(*Element).ToBytes: any uint64 (uint32) input limbs",
		"radix tables transcribed into the checker: field 5x51 bits (uint64) or 10 limbs of 26/25 bits (uint32), scalar 5x52 bits (uint64) or 9x29 bits (uint32), selected from the type of Element.inner / unpackedScalar in the loaded configuration",
	}
	NotDecided = []string{
		"(*Element).ToBytes: that the discarded top carry q' equals the quotient Q = [h >= p] added (times 19) to limb 0 is argued by a case split on Q from the decided facts (carry chain identity, packing, 2^255*Q + rho == h + 19 with 0 <= rho < 2^255, h + 19 < 2^256), not mechanised",
		"(*unpackedScalar).SetBytesWide: the Montgomery multiplications and the final addition (only the two operands lo, hi handed to MontgomeryMul are decided)",
		"NonAdjacentForm: the global statement that the returned digits sum to the scalar follows from the tabulated one-iteration invariant by induction over the iterations (positions strictly increase, every cell of the digit array is written at most once and only at the current position); that induction is argued, not mechanised",
		"anything non-linear (field/scalar multiplication, inversion)",
	}
)

// recodeCtx locates curve/scalar.Scalar.
type recodeCtx struct {
	typ   types.Type
	inner int
}

func detectScalarType(p *load.Program) (*recodeCtx, error) {
	pk := p.Pkg(scalarRel)
	if pk == nil {
		return nil, fmt.Errorf("package %s not loaded", scalarRel)
	}
	tn, _ := pk.Types.Scope().Lookup("Scalar").(*types.TypeName)
	if tn == nil {
		return nil, fmt.Errorf("type %s.Scalar not found", scalarRel)
	}
	idx, arr, eb, ok := limbField(tn.Type())
	if !ok || arr.Len() != 32 || eb.Kind() != types.Uint8 {
		return nil, fmt.Errorf("%s.Scalar has no [32]byte field", scalarRel)
	}
	return &recodeCtx{typ: tn.Type(), inner: idx}, nil
}

// newScalar allocates a Scalar whose 256 bits are input variables (bit 255
// the constant 0 when the Scalar invariant is assumed).
func (rc *recodeCtx) newScalar(w *World, mem *Memory, assumeTopClear bool) (*Ptr, []int) {
	var zero func(int) bool
	if assumeTopClear {
		zero = func(k int) bool { return k == 255 }
	}
	cells, vars := w.bitCells("s", 32, zero)
	return w.alloc(mem, rc.typ, structWithField(rc.typ, rc.inner, &Agg{cells})), vars
}

// CheckRecodings decides obligations 8-11 (Bits, ToRadix16, ToRadix2w,
// NonAdjacentForm of curve/scalar.Scalar) in the loaded configuration.
func CheckRecodings(run *report.Run, p *load.Program, rulePrefix string) *Result {
	c := newChecker(run, p, rulePrefix)
	rc, err := detectScalarType(p)
	if err != nil {
		c.plan(c.value, 1)
		c.fail(c.value, "-", scalarRel+".Scalar", "anchor: "+err.Error())
		return c.res
	}
	c.recodeBits(rc)
	c.recodeRadix16(rc)
	for _, wd := range []int{6, 7, 8} {
		c.recodeRadix2w(rc, wd)
	}
	c.recodeNAF(rc)
	return c.res
}

// --- 8. Bits -----------------------------------------------------------------

func (c *checker) recodeBits(rc *recodeCtx) {
	name := scalarRel + ".(*Scalar).Bits"
	c.plan(c.value, 1)
	c.plan(c.rng, 1)
	fn := c.anchor(scalarRel, "(*Scalar).Bits", c.value, c.rng)
	if fn == nil {
		return
	}
	c.res.Functions++
	pos := c.p.Pos(fn.Pos())
	w := NewWorld(c.p)
	mem := newMemory()
	s, vars := rc.newScalar(w, mem, false)
	out := w.Call(fn, []Value{s}, mem)
	fpos, rmsgs := runFailures(w, out)
	if fpos == "-" {
		fpos = pos
	}
	c.conclude(c.rng, fpos, name+": words", rmsgs)
	var cells []*Int
	if out.OK() {
		cells, _ = intCells(out.Ret)
	}
	if len(cells) != 256 {
		_, why := out.Why(w)
		c.fail(c.value, pos, name+": value", "not decided: no array of 256 bytes was returned ("+why+")")
		return
	}
	var msgs []string
	for k, x := range cells {
		if !x.F().Equal(varForm(vars[k])) {
			desc := "a form over " + fmt.Sprint(len(x.F().ts)) + " variables"
			if l, ok := w.layoutOf(x); ok {
				desc = describeLayout(w, l)
			}
			msgs = append(msgs, fmt.Sprintf("out[%d] is %s, want bit %d of s", k, desc, k))
			if len(msgs) == 3 {
				break
			}
		}
	}
	c.conclude(c.value, pos, name+": value", msgs)
	c.sample(map[string]any{"function": name, "identity": "out[k] == bit_k(s) for all 256 k", "stats": w.StatList()})
}

// --- 9. ToRadix16 ------------------------------------------------------------

func (c *checker) recodeRadix16(rc *recodeCtx) {
	name := scalarRel + ".(*Scalar).ToRadix16"
	c.plan(c.value, 1)
	c.plan(c.rng, 1)
	fn := c.anchor(scalarRel, "(*Scalar).ToRadix16", c.value, c.rng)
	if fn == nil {
		return
	}
	c.res.Functions++
	pos := c.p.Pos(fn.Pos())
	w := NewWorld(c.p)
	mem := newMemory()
	s, vars := rc.newScalar(w, mem, true)
	out := w.Call(fn, []Value{s}, mem)
	fpos, rmsgs := runFailures(w, out)
	if fpos == "-" {
		fpos = pos
	}
	var cells []*Int
	if out.OK() {
		cells, _ = intCells(out.Ret)
	}
	if len(cells) != 64 {
		c.conclude(c.rng, fpos, name+": ranges", append(rmsgs, "no array of 64 digits was returned"))
		_, why := out.Why(w)
		c.fail(c.value, pos, name+": value", "not decided: no array of 64 digits was returned ("+why+")")
		return
	}
	for i, x := range cells {
		hi := int64(7)
		if i == 63 {
			hi = 8
		}
		if !x.R.Leq(itvOf(-8, hi)) {
			rmsgs = append(rmsgs, fmt.Sprintf("digit %d ranges over %s, want [-8, %d]", i, x.R, hi))
		}
	}
	if len(rmsgs) > 3 {
		rmsgs = rmsgs[:3]
	}
	c.conclude(c.rng, fpos, name+": ranges", rmsgs)
	offs := make([]uint, 64)
	for i := range offs {
		offs[i] = uint(4 * i)
	}
	c.conclude(c.value, pos, name+": value",
		w.diffExact(weighted(cells, offs), bitsForm(vars, 256), "sum out[i]*16^i", "digit", cells, offs))
	c.sample(map[string]any{
		"function": name, "assumption": "bit 255 of s is 0",
		"identity": "sum_i out[i]*16^i == sum_{k<255} 2^k*bit_k(s) exactly; out[i] in [-8,8) for i < 63, out[63] in [-8,8]; every int8 intermediate fits int8",
		"digit_62": cells[62].R.String(), "digit_63": cells[63].R.String(),
		"stats": w.StatList(),
	})
}

// --- 10. ToRadix2w -----------------------------------------------------------

var radix2wHint = map[int]int64{6: 43, 7: 37, 8: 33}

func (c *checker) recodeRadix2w(rc *recodeCtx, wd int) {
	name := fmt.Sprintf("%s.(*Scalar).ToRadix2w(w=%d)", scalarRel, wd)
	c.plan(c.value, 1)
	c.plan(c.rng, 2)
	fn := c.anchor(scalarRel, "(*Scalar).ToRadix2w", c.value, c.rng, c.rng)
	if fn == nil {
		return
	}
	pos := c.p.Pos(fn.Pos())
	c.res.Functions++

	// ToRadix2wSizeHint(w), evaluated concretely
	hint := int64(-1)
	if hf := c.p.Func(scalarRel, "ToRadix2wSizeHint"); hf == nil {
		c.fail(c.rng, pos, name+": size hint", "anchor ToRadix2wSizeHint cannot be resolved")
	} else {
		hw := NewWorld(c.p)
		ho := hw.Call(hf, []Value{mkConst(int64(wd))}, newMemory())
		var msgs []string
		if !ho.OK() {
			_, why := ho.Why(hw)
			msgs = append(msgs, why)
		} else if x, ok := ho.Ret.(*Int); !ok {
			msgs = append(msgs, "ToRadix2wSizeHint does not return an integer")
		} else if n, ok := x.Concrete(); !ok || n != radix2wHint[wd] {
			msgs = append(msgs, fmt.Sprintf("ToRadix2wSizeHint(%d) evaluates to %s, want %d", wd, x.R, radix2wHint[wd]))
		} else {
			hint = n
		}
		c.conclude(c.rng, c.p.Pos(hf.Pos()), name+": size hint", msgs)
	}

	w := NewWorld(c.p)
	mem := newMemory()
	s, vars := rc.newScalar(w, mem, true)
	out := w.Call(fn, []Value{s, mkConst(int64(wd))}, mem)
	fpos, rmsgs := runFailures(w, out)
	if fpos == "-" {
		fpos = pos
	}
	var cells []*Int
	if out.OK() {
		cells, _ = intCells(out.Ret)
	}
	if len(cells) == 0 || hint < 0 || int(hint) > len(cells) {
		c.conclude(c.rng, fpos, name+": ranges", append(rmsgs, "no digit array covering the size hint was returned"))
		_, why := out.Why(w)
		c.fail(c.value, pos, name+": value", "not decided: no digit array was returned ("+why+")")
		return
	}
	half := int64(1) << (wd - 1)
	for i, x := range cells {
		switch {
		case int64(i) < hint-1:
			if !x.R.Leq(itvOf(-half, half-1)) {
				rmsgs = append(rmsgs, fmt.Sprintf("digit %d ranges over %s, want [%d, %d)", i, x.R, -half, half))
			}
		case int64(i) == hint-1:
			if !x.R.Leq(itvOf(-128, 127)) {
				rmsgs = append(rmsgs, fmt.Sprintf("last digit %d (with the terminal carry) ranges over %s, outside int8", i, x.R))
			}
		default:
			if n, ok := x.Concrete(); !ok || n != 0 {
				rmsgs = append(rmsgs, fmt.Sprintf("digit %d, beyond ToRadix2wSizeHint(%d) = %d, is not the constant 0 (range %s)", i, wd, hint, x.R))
			}
		}
	}
	if len(rmsgs) > 3 {
		rmsgs = rmsgs[:3]
	}
	c.conclude(c.rng, fpos, name+": ranges", rmsgs)
	offs := make([]uint, len(cells))
	for i := range offs {
		offs[i] = uint(wd * i)
	}
	c.conclude(c.value, pos, name+": value",
		w.diffExact(weighted(cells, offs), bitsForm(vars, 256), fmt.Sprintf("sum digits[i]*2^(%d*i)", wd), "digit", cells, offs))
	c.sample(map[string]any{
		"function": name, "assumption": "bit 255 of s is 0",
		"identity":   fmt.Sprintf("sum_i digits[i]*2^(%d*i) == sum_{k<255} 2^k*bit_k(s) exactly (terminal carry included); digits[i] in [-2^%d, 2^%d) for i < %d; digits beyond %d are 0", wd, wd-1, wd-1, hint-1, hint),
		"last_digit": fmt.Sprintf("digits[%d] in %s", hint-1, cells[hint-1].R),
		"size_hint":  hint,
		"stats":      w.StatList(),
	})
}

var _ = big.NewInt
