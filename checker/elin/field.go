package elin

import (
	"fmt"
	"go/types"
	"math/big"
	"sort"
	"strings"

	"voicheck/load"
	"voicheck/report"
)

const fieldRel = "internal/field"

// fieldBackend is the limb representation of internal/field.Element in the
// loaded configuration (detected from the type of Element.inner).
type fieldBackend struct {
	name     string
	elem     types.Type
	inner    int
	n        int
	limbKind ikind
	widths   []uint
	offs     []uint
	rawBound *big.Int // inclusive bound assumed for the raw limbs handed to reduce
	rawDoc   string
}

func detectField(p *load.Program) (*fieldBackend, error) {
	pk := p.Pkg(fieldRel)
	if pk == nil {
		return nil, fmt.Errorf("package %s not loaded", fieldRel)
	}
	tn, _ := pk.Types.Scope().Lookup("Element").(*types.TypeName)
	if tn == nil {
		return nil, fmt.Errorf("type %s.Element not found", fieldRel)
	}
	idx, arr, eb, ok := limbField(tn.Type())
	if !ok {
		return nil, fmt.Errorf("%s.Element has no limb array", fieldRel)
	}
	be := &fieldBackend{elem: tn.Type(), inner: idx, n: int(arr.Len())}
	switch {
	case eb.Kind() == types.Uint64 && be.n == 5:
		be.name = "u64"
		be.limbKind = ikind{bits: 64}
		for i := 0; i < 5; i++ {
			be.widths = append(be.widths, 51)
		}
		be.rawBound = pow2m1(64)
		be.rawDoc = "any uint64 (field_u64.go reduce: \"the input limbs are bounded by 2^64\")"
	case eb.Kind() == types.Uint32 && be.n == 10:
		be.name = "u32"
		be.limbKind = ikind{bits: 32}
		for i := 0; i < 10; i++ {
			be.widths = append(be.widths, uint(26-i%2))
		}
		be.rawBound = pow2m1(63)
		be.rawDoc = "< 2^63 (field_u32.go reduce adds z[i]>>25 < 2^39 to z[i+1] without widening; the comments assume z[i] < 2^64 for the carries and the products of Mul stay below 2^63)"
	default:
		return nil, fmt.Errorf("unknown limb representation [%d]%s", be.n, eb)
	}
	off := uint(0)
	for _, wd := range be.widths {
		be.offs = append(be.offs, off)
		off += wd
	}
	if off != 255 {
		return nil, fmt.Errorf("limb widths sum to %d, want 255", off)
	}
	return be, nil
}

// limbCap is the bound checked on weakly reduced limbs: nominal width plus a
// small excess (2^(w-7), i.e. below 2^(w+0.012); the documented bounds are
// 2^51+19*2^13 and 2^25.007).
func (be *fieldBackend) limbCap(i int) *big.Int {
	return new(big.Int).Add(pow2(be.widths[i]), pow2(be.widths[i]-7))
}

// CheckField decides obligations 1-4 (SetBytes, SetBytesWide, reduce,
// ToBytes of internal/field.Element) in the loaded configuration.
func CheckField(run *report.Run, p *load.Program, rulePrefix string) *Result {
	c := newChecker(run, p, rulePrefix)
	be, err := detectField(p)
	if err != nil {
		c.plan(c.value, 1)
		c.fail(c.value, "-", fieldRel+".Element", "anchor: "+err.Error())
		return c.res
	}
	c.fieldSetBytes(be)
	c.fieldSetBytesWide(be)
	c.fieldReduce(be)
	c.fieldToBytes(be)
	return c.res
}

func (c *checker) newElement(w *World, mem *Memory, be *fieldBackend, limbs []Value) *Ptr {
	return w.alloc(mem, be.elem, structWithField(be.elem, be.inner, &Agg{limbs}))
}

func (c *checker) elementLimbs(mem *Memory, be *fieldBackend, fe *Ptr) ([]*Int, bool) {
	v, ok := mem.load(fe.sub(be.inner))
	if !ok {
		return nil, false
	}
	cells, ok := intCells(v)
	return cells, ok && len(cells) == be.n
}

// describeLayout renders a layout as runs of consecutive variables.
func describeLayout(w *World, l *layout) string {
	var parts []string
	for i := 0; i < 64; {
		cell := l[i]
		if cell == 0 {
			i++
			continue
		}
		if cell == layOne {
			parts = append(parts, fmt.Sprintf("1@%d", i))
			i++
			continue
		}
		vi := w.Var(int(cell - 1))
		j := i
		for j+1 < 64 && l[j+1] > 0 {
			nv := w.Var(int(l[j+1] - 1))
			if nv.Kind != vi.Kind || nv.Group != vi.Group || nv.Parent != vi.Parent || nv.Index != vi.Index+(j+1-i) {
				break
			}
			j++
		}
		name := vi.Group
		if vi.Kind == VRem {
			name = fmt.Sprintf("rem#%d", vi.Parent)
		}
		if j > i {
			parts = append(parts, fmt.Sprintf("%s[%d..%d]@%d", name, vi.Index, vi.Index+j-i, i))
		} else {
			parts = append(parts, fmt.Sprintf("%s[%d]@%d", name, vi.Index, i))
		}
		i = j + 1
	}
	if len(parts) == 0 {
		return "0"
	}
	return strings.Join(parts, " ")
}

func describeCells(w *World, cells []*Int) []string {
	out := make([]string, len(cells))
	for i, x := range cells {
		if l, ok := w.layoutOf(x); ok {
			out[i] = describeLayout(w, l)
		} else {
			out[i] = "form over " + fmt.Sprint(len(x.F().ts)) + " variables, range " + x.R.String()
		}
	}
	return out
}

func returnsReceiver(out *Outcome, recv *Ptr, tupleIndex int) string {
	if !out.OK() || out.Stopped {
		return ""
	}
	v := out.Ret
	if tupleIndex >= 0 {
		t, ok := v.(*Tuple)
		if !ok || tupleIndex >= len(t.E) {
			return "the function does not return the expected tuple"
		}
		if _, isNil := t.E[len(t.E)-1].(Nil); !isNil {
			return "the followed path does not return a nil error"
		}
		v = t.E[tupleIndex]
	}
	if q, ok := v.(*Ptr); !ok || !q.same(recv) {
		return "the function does not return its receiver"
	}
	return ""
}

// --- 1. SetBytes -------------------------------------------------------------

func (c *checker) fieldSetBytes(be *fieldBackend) {
	name := fieldRel + ".(*Element).SetBytes"
	c.plan(c.value, 1)
	c.plan(c.layout, 1)
	c.plan(c.rng, 1)
	fn := c.anchor(fieldRel, "(*Element).SetBytes", c.value, c.layout, c.rng)
	if fn == nil {
		return
	}
	c.res.Functions++
	w := NewWorld(c.p)
	mem := newMemory()
	fe := c.newElement(w, mem, be, w.outputCells("fe.inner", be.n, be.limbKind))
	in, _, vars := w.inputBytes(mem, "in", 32, nil)
	out := w.Call(fn, []Value{fe, in}, mem)
	pos := c.p.Pos(fn.Pos())

	fpos, rmsgs := runFailures(w, out)
	if m := returnsReceiver(out, fe, 0); m != "" {
		rmsgs = append(rmsgs, m)
	}
	if fpos == "-" {
		fpos = pos
	}
	c.conclude(c.rng, fpos, name+": words", rmsgs)
	limbs, ok := c.elementLimbs(mem, be, fe)
	if !out.OK() || !ok {
		_, why := out.Why(w)
		c.fail(c.value, pos, name+": value", "not decided: the interpretation did not complete ("+why+")")
		c.fail(c.layout, pos, name+": layout", "not decided: the interpretation did not complete ("+why+")")
		return
	}
	got := weighted(limbs, be.offs)
	want := bitsForm(vars, 255)
	c.conclude(c.value, pos, name+": value", w.diffExact(got, want, "sum limb_i*2^off_i", "limb", limbs, be.offs))
	c.conclude(c.layout, pos, name+": layout", w.layoutWithin(limbs, be.widths, "limb"))
	c.sample(map[string]any{
		"function": name, "radix": be.name,
		"identity": "sum_i limb_i*2^off_i == sum_{k<255} 2^k*bit_k(in) exactly; bit 255 has coefficient 0 in every limb",
		"limbs":    describeCells(w, limbs),
		"stats":    w.StatList(),
	})
}

// --- 2. SetBytesWide ---------------------------------------------------------

func (c *checker) fieldSetBytesWide(be *fieldBackend) {
	name := fieldRel + ".(*Element).SetBytesWide"
	c.plan(c.value, 2)
	c.plan(c.rng, 1)
	fn := c.anchor(fieldRel, "(*Element).SetBytesWide", c.value, c.value, c.rng)
	if fn == nil {
		return
	}
	pos := c.p.Pos(fn.Pos())
	red := c.p.Func(fieldRel, "(*Element).reduce")
	if red == nil {
		c.fail(c.value, pos, name+": value before the weak reduction", "anchor (*Element).reduce cannot be resolved: the pre-reduction value cannot be located")
		c.fail(c.value, pos, name+": value after the weak reduction", "anchor (*Element).reduce cannot be resolved")
		c.fail(c.rng, pos, name+": words", "anchor (*Element).reduce cannot be resolved")
		return
	}
	c.res.Functions++
	w := NewWorld(c.p)
	mem := newMemory()
	fe := c.newElement(w, mem, be, w.outputCells("fe.inner", be.n, be.limbKind))
	in, _, vars := w.inputBytes(mem, "in", 64, nil)
	var pre []*Int
	calls := 0
	w.OnCall = func(cc *CallCtx) (Value, bool) {
		if cc.Depth == 0 && cc.Callee == red && len(cc.Args) == 2 {
			calls++
			if p, ok := cc.Args[1].(*Ptr); ok {
				if v, ok := cc.Mem.load(p); ok {
					pre, _ = intCells(v)
				}
			}
		}
		return nil, false
	}
	out := w.Call(fn, []Value{fe, in}, mem)

	fpos, rmsgs := runFailures(w, out)
	if m := returnsReceiver(out, fe, 0); m != "" {
		rmsgs = append(rmsgs, m)
	}
	if fpos == "-" {
		fpos = pos
	}
	limbs, ok := c.elementLimbs(mem, be, fe)
	var bounds []string
	if out.OK() && ok {
		for i, l := range limbs {
			bounds = append(bounds, fmtBound(l.R.Hi))
			if l.R.Lo.Sign() < 0 || l.R.Hi.Cmp(be.limbCap(i)) > 0 {
				rmsgs = append(rmsgs, fmt.Sprintf("output limb %d ranges over %s, above the weakly reduced bound 2^%d+2^%d", i, l.R, be.widths[i], be.widths[i]-7))
			}
		}
	}
	c.conclude(c.rng, fpos, name+": words", rmsgs)
	if !out.OK() || !ok {
		_, why := out.Why(w)
		c.fail(c.value, pos, name+": value before the weak reduction", "not decided: the interpretation did not complete ("+why+")")
		c.fail(c.value, pos, name+": value after the weak reduction", "not decided: the interpretation did not complete ("+why+")")
		return
	}
	want := bitsForm(vars, 512)
	if calls != 1 || len(pre) != be.n {
		c.fail(c.value, pos, name+": value before the weak reduction", fmt.Sprintf("the body of SetBytesWide hands its limbs to (*Element).reduce %d times (want exactly once, with %d limbs): the pre-reduction value cannot be located", calls, be.n))
	} else {
		c.conclude(c.value, pos, name+": value before the weak reduction",
			w.diffModP(weighted(pre, be.offs), want, "sum limb_i*2^off_i before the weak reduction", "limb", pre, be.offs))
	}
	c.conclude(c.value, pos, name+": value after the weak reduction",
		w.diffModP(weighted(limbs, be.offs), want, "sum limb_i*2^off_i of the result", "limb", limbs, be.offs))
	smp := map[string]any{
		"function": name, "radix": be.name,
		"identity":           "coefficient-wise modulo p = 2^255-19 (in Z[1/2]): coefficient of bit_k(in) in sum_i limb_i*2^off_i == 2^k mod p for all k < 512 and constant == 0, both for the limbs handed to the final reduce and for the result",
		"output_limb_bounds": bounds,
		"stats":              w.StatList(),
	}
	if len(pre) == be.n {
		c511, _ := ratModP(weighted(pre, be.offs).Coef(vars[511]), P25519)
		c255, _ := ratModP(weighted(pre, be.offs).Coef(vars[255]), P25519)
		smp["coefficient_of_bit_255_mod_p"] = c255.String()
		smp["coefficient_of_bit_511_mod_p"] = c511.String()
		var pb []string
		for _, l := range pre {
			pb = append(pb, fmtBound(l.R.Hi))
		}
		smp["pre_reduction_limb_bounds"] = pb
	}
	c.sample(smp)
}

// --- 3. reduce ---------------------------------------------------------------

func (c *checker) fieldReduce(be *fieldBackend) {
	name := fieldRel + ".(*Element).reduce"
	c.plan(c.value, 1)
	c.plan(c.rng, 1)
	fn := c.anchor(fieldRel, "(*Element).reduce", c.value, c.rng)
	if fn == nil {
		return
	}
	pos := c.p.Pos(fn.Pos())
	// the raw limb array parameter
	var rawKind ikind
	okSig := false
	if len(fn.Params) == 2 {
		if pt, ok := fn.Params[1].Type().Underlying().(*types.Pointer); ok {
			if at, ok := pt.Elem().Underlying().(*types.Array); ok && int(at.Len()) == be.n {
				rawKind, okSig = w0kind(c.p, at.Elem())
			}
		}
	}
	if !okSig {
		c.fail(c.value, pos, name+": value", "anchor: (*Element).reduce does not take a pointer to an array of "+fmt.Sprint(be.n)+" raw limbs")
		c.fail(c.rng, pos, name+": words", "anchor: unexpected signature of (*Element).reduce")
		return
	}
	c.res.Functions++
	w := NewWorld(c.p)
	mem := newMemory()
	fe := c.newElement(w, mem, be, w.outputCells("fe.inner", be.n, be.limbKind))
	bound := be.rawBound
	if rawKind.rng().Hi.Cmp(bound) < 0 {
		bound = rawKind.rng().Hi
	}
	raw := make([]Value, be.n)
	inVars := make([]int, be.n)
	for i := range raw {
		inVars[i] = w.SymVar("limbs", i, bigZero, bound)
		raw[i] = w.symInt(inVars[i])
	}
	arg := w.alloc(mem, nil, &Agg{raw})
	out := w.Call(fn, []Value{fe, arg}, mem)

	fpos, rmsgs := runFailures(w, out)
	if m := returnsReceiver(out, fe, -1); m != "" {
		rmsgs = append(rmsgs, m)
	}
	if fpos == "-" {
		fpos = pos
	}
	limbs, ok := c.elementLimbs(mem, be, fe)
	var bounds []string
	if out.OK() && ok {
		for i, l := range limbs {
			bounds = append(bounds, fmtBound(l.R.Hi))
			if l.R.Lo.Sign() < 0 || l.R.Hi.Cmp(be.limbCap(i)) > 0 {
				rmsgs = append(rmsgs, fmt.Sprintf("output limb %d ranges over %s, above the weakly reduced bound 2^%d+2^%d", i, l.R, be.widths[i], be.widths[i]-7))
			}
		}
	}
	c.conclude(c.rng, fpos, name+": words", rmsgs)
	if !out.OK() || !ok {
		_, why := out.Why(w)
		c.fail(c.value, pos, name+": value", "not decided: the interpretation did not complete ("+why+")")
		return
	}
	want := int64Form(0)
	for i, v := range inVars {
		want = want.Add(varForm(v).Shl(be.offs[i]))
	}
	c.conclude(c.value, pos, name+": value",
		w.diffModP(weighted(limbs, be.offs), want, "sum limb'_i*2^off_i of the result", "output limb", limbs, be.offs))
	c.sample(map[string]any{
		"function": name, "radix": be.name,
		"identity":             "sum_i limb'_i*2^off_i == sum_i limb_i*2^off_i coefficient-wise modulo p (in Z[1/2]); the coefficients of all remainder bits introduced by the division identity vanish modulo p",
		"assumed_input_limbs":  be.rawDoc,
		"derived_output_bound": bounds,
		"checked_output_bound": "limb'_i <= 2^w_i + 2^(w_i-7)",
		"stats":                w.StatList(),
	})
}

func w0kind(p *load.Program, t types.Type) (ikind, bool) {
	return NewWorld(p).kindOf(t)
}

// --- 4. ToBytes --------------------------------------------------------------

func (c *checker) fieldToBytes(be *fieldBackend) {
	name := fieldRel + ".(*Element).ToBytes"
	c.plan(c.value, 3)
	c.plan(c.layout, 1)
	c.plan(c.rng, 1)
	fn := c.anchor(fieldRel, "(*Element).ToBytes", c.value, c.value, c.value, c.layout, c.rng)
	if fn == nil {
		return
	}
	pos := c.p.Pos(fn.Pos())
	red := c.p.Func(fieldRel, "(*Element).reduce")
	c.res.Functions++
	w := NewWorld(c.p)
	mem := newMemory()
	limbsIn := make([]Value, be.n)
	for i := range limbsIn {
		limbsIn[i] = w.symInt(w.SymVar("fe.inner", i, bigZero, be.limbKind.rng().Hi))
	}
	fe := c.newElement(w, mem, be, limbsIn)
	outArr := w.alloc(mem, nil, &Agg{w.outputCells("out", 32, ikind{bits: 8})})
	outSl := &Slice{P: outArr, Off: 0, Len: 32, Cap: 32}
	var reduced []*Int
	w.AfterCall = func(cc *CallCtx, ret Value) {
		if cc.Depth == 0 && red != nil && cc.Callee == red && len(cc.Args) >= 1 {
			if p, ok := cc.Args[0].(*Ptr); ok {
				reduced, _ = c.elementLimbs(cc.Mem, be, p)
			}
		}
	}
	out := w.Call(fn, []Value{fe, outSl}, mem)

	fpos, rmsgs := runFailures(w, out)
	if out.OK() {
		if _, isNil := out.Ret.(Nil); !isNil {
			rmsgs = append(rmsgs, "the followed path does not return a nil error")
		}
	}
	if fpos == "-" {
		fpos = pos
	}
	c.conclude(c.rng, fpos, name+": words", rmsgs)
	var bytes []*Int
	if v, ok := mem.load(outArr); ok {
		bytes, _ = intCells(v)
	}
	if !out.OK() || len(bytes) != 32 {
		_, why := out.Why(w)
		for _, cl := range []string{": packing", ": carry chain", ": quotient"} {
			c.fail(c.value, pos, name+cl, "not decided: the interpretation did not complete ("+why+")")
		}
		c.fail(c.layout, pos, name+": layout", "not decided: the interpretation did not complete ("+why+")")
		return
	}
	offs8 := make([]uint, 32)
	for k := range offs8 {
		offs8[k] = uint(8 * k)
	}
	S := weighted(bytes, offs8)

	// layout: the 255 bits of the last-computed limb values, each at its weight
	var lmsgs []string
	for k, b := range bytes {
		if l, ok := w.layoutOf(b); !ok || l.top() > 8 {
			lmsgs = append(lmsgs, fmt.Sprintf("out[%d] is not a layout of 8 bits (range %s)", k, b.R))
		}
	}
	type slot struct {
		bit int
		exp int
	}
	groups := map[int][]slot{}
	for _, t := range S.ts {
		vi := w.Var(t.v)
		if vi.Kind != VRem {
			lmsgs = append(lmsgs, fmt.Sprintf("the packed value depends on %s (coefficient %s), not on a bit of a masked limb", vi.Name, prettyRat(t.c)))
			continue
		}
		e, ok := uint(0), false
		if t.c.IsInt() {
			e, ok = log2Exact(t.c.Num())
		}
		if !ok {
			lmsgs = append(lmsgs, fmt.Sprintf("%s is packed with coefficient %s, not a power of two (two output positions overlap)", vi.Name, prettyRat(t.c)))
			continue
		}
		groups[vi.Parent] = append(groups[vi.Parent], slot{vi.Index, int(e)})
	}
	if S.c.Sign() != 0 {
		lmsgs = append(lmsgs, "the packed value has the constant term "+prettyRat(S.c))
	}
	for p := range groups {
		for _, t := range w.rems[p].X.ts {
			if vi := w.Var(t.v); vi.Kind == VOpaque {
				lmsgs = append(lmsgs, fmt.Sprintf("the byte packed at %s is computed from %s: the bit fields combined there overlap or are not layouts", w.rems[p].Pos, vi.Name))
				break
			}
		}
	}
	sort.Strings(lmsgs)
	type grp struct {
		parent int
		base   int
	}
	var order []grp
	for p, sl := range groups {
		sort.Slice(sl, func(i, j int) bool { return sl[i].bit < sl[j].bit })
		groups[p] = sl
		order = append(order, grp{p, sl[0].exp - sl[0].bit})
	}
	sort.Slice(order, func(i, j int) bool {
		if order[i].base != order[j].base {
			return order[i].base < order[j].base
		}
		return order[i].parent < order[j].parent
	})
	if len(order) != be.n {
		lmsgs = append(lmsgs, fmt.Sprintf("the packed bytes are built from %d masked words, want the %d limbs", len(order), be.n))
	} else {
		for i, g := range order {
			ri := w.rems[g.parent]
			if ri.K != be.widths[i] {
				lmsgs = append(lmsgs, fmt.Sprintf("limb %d is masked to %d bits before packing (at %s), want %d", i, ri.K, ri.Pos, be.widths[i]))
			}
			seen := map[int]bool{}
			for _, s := range groups[g.parent] {
				seen[s.bit] = true
				if want := int(be.offs[i]) + s.bit; s.exp != want {
					lmsgs = append(lmsgs, fmt.Sprintf("bit %d of limb %d (masked at %s) is packed at weight 2^%d (out[%d] bit %d), want 2^%d", s.bit, i, ri.Pos, s.exp, s.exp/8, s.exp%8, want))
				}
			}
			for j := 0; j < int(ri.K); j++ {
				if !seen[j] {
					lmsgs = append(lmsgs, fmt.Sprintf("bit %d of limb %d (masked at %s) is not written to out", j, i, ri.Pos))
				}
			}
		}
	}
	if top, ok := w.layoutOf(bytes[31]); ok && top[7] != 0 {
		lmsgs = append(lmsgs, "bit 7 of out[31] (weight 2^255) is not the constant 0")
	}
	if len(lmsgs) > 3 {
		lmsgs = lmsgs[:3]
	}
	c.conclude(c.layout, pos, name+": layout", lmsgs)

	// value (packing): sum out[k]*2^(8k) == sum L_i*2^off_i
	if len(order) != be.n {
		c.fail(c.value, pos, name+": packing", fmt.Sprintf("the packed bytes are built from %d masked words, want the %d limbs: the last-computed limb values cannot be identified", len(order), be.n))
		c.fail(c.value, pos, name+": carry chain", "not decided: the last-computed limb values cannot be identified")
		c.fail(c.value, pos, name+": quotient", "not decided: the last-computed limb values cannot be identified")
		return
	}
	L := make([]*Int, be.n)
	for i, g := range order {
		L[i] = &Int{f: w.rems[g.parent].R, R: Itv{bigZero, pow2m1(w.rems[g.parent].K)}}
	}
	c.conclude(c.value, pos, name+": packing",
		w.diffExact(S, weighted(L, be.offs), "sum out[k]*2^(8k)", "out byte", bytes, offs8))

	// value (carry chain): with X_i the word limb i is masked from, D0 = X_0 - h_0
	// the quantity added to limb 0 (19*q) and q' = (X_top - L_top)/2^w_top the
	// discarded carry: sum out[k]*2^(8k) == sum h_i*2^off_i + D0 - 2^255*q'
	var cmsgs []string
	if len(reduced) != be.n {
		cmsgs = append(cmsgs, "ToBytes does not start from a weak reduction by (*Element).reduce called from its own body: the reduced limbs h_i cannot be located")
	} else {
		top := w.rems[order[be.n-1].parent]
		qTop := top.X.Sub(top.R).Scale(new(big.Rat).SetFrac(bigOne, pow2(top.K)))
		d0 := w.rems[order[0].parent].X.Sub(reduced[0].F())
		wantF := weighted(reduced, be.offs).Add(d0).Sub(qTop.Shl(255))
		cmsgs = w.diffExact(S, wantF, "sum out[k]*2^(8k)", "out byte", bytes, offs8)
		// the reduced limbs themselves must be congruent to the input
		hin := int64Form(0)
		for i := 0; i < be.n; i++ {
			hin = hin.Add(limbsIn[i].(*Int).F().Shl(be.offs[i]))
		}
		cmsgs = append(cmsgs, w.diffModP(weighted(reduced, be.offs), hin, "sum h_i*2^off_i after the initial weak reduction", "reduced limb", reduced, be.offs)...)
	}
	c.conclude(c.value, pos, name+": carry chain", cmsgs)

	// value (quotient): Q = (X_0 - h_0)/19, the quantity whose multiple of 19 is
	// added to limb 0, is the carry of h+19 out of bit 255:
	//   2^255*Q + rho == h + 19  with rho in [0, 2^255)   and   h + 19 < 2^256.
	// Together with the carry chain identity (sum out = h + 19*Q - 2^255*q',
	// 0 <= sum out < 2^255, hence q' = floor((h+19*Q)/2^255)) this gives
	// Q in {0,1}, Q = [h >= p] and, by the case split on Q, q' = Q, i.e.
	// sum out = h - p*[h >= p]: the canonical representative.
	var qmsgs []string
	hBound := ""
	if len(reduced) != be.n {
		qmsgs = append(qmsgs, "not decided: the reduced limbs h_i cannot be located")
	} else {
		hsum := weighted(reduced, be.offs)
		d0 := w.rems[order[0].parent].X.Sub(reduced[0].F())
		Q := d0.Scale(big.NewRat(1, 19))
		rho := hsum.Add(int64Form(19)).Sub(Q.Shl(255))
		// Q must be integer-valued: it has to be the quotient of one of the
		// recorded applications of the division identity
		integral := false
		for _, ri := range w.rems {
			if ri.X.Sub(ri.R).Scale(new(big.Rat).SetFrac(bigOne, pow2(ri.K))).Equal(Q) {
				integral = true
				break
			}
		}
		if !integral {
			qmsgs = append(qmsgs, "undecided: the quantity added to limb 0, divided by 19, is not the quotient x>>k of a word computed by the function (it cannot be shown to be an integer)")
		}
		for _, t := range rho.ts {
			if vi := w.Var(t.v); vi.Kind != VRem {
				qmsgs = append(qmsgs, fmt.Sprintf("the quotient q whose multiple of 19 is added to limb 0 is not the carry of h+19 out of bit 255: h + 19 - 2^255*q depends on %s (coefficient %s) instead of being a remainder below 2^255", vi.Name, prettyRat(t.c)))
				break
			}
		}
		if integral && len(qmsgs) == 0 {
			if r := w.rangeOf(rho); r.Lo.Sign() < 0 || r.Hi.Cmp(pow2m1(255)) > 0 {
				qmsgs = append(qmsgs, fmt.Sprintf("the quotient q whose multiple of 19 is added to limb 0 is not the carry of h+19 out of bit 255: h + 19 - 2^255*q ranges over %s, want [0, 2^255)", r))
			}
		}
		// h + 19 < 2^256 from the bounds of the reduced limbs
		hmax := new(big.Int)
		for i, l := range reduced {
			hmax.Add(hmax, new(big.Int).Lsh(l.R.Hi, be.offs[i]))
		}
		if fr := w.rangeOf(hsum); fr.Hi.Cmp(hmax) < 0 {
			hmax = fr.Hi
		}
		hBound = fmtBound(hmax)
		if new(big.Int).Add(hmax, big.NewInt(19)).Cmp(pow2(256)) >= 0 {
			qmsgs = append(qmsgs, fmt.Sprintf("the weakly reduced value can reach %s: h + 19 < 2^256 (hence q in {0,1}) is not established", hBound))
		}
	}
	c.conclude(c.value, pos, name+": quotient", qmsgs)
	c.sample(map[string]any{
		"function": name, "radix": be.name,
		"identity_quotient":     "with Q = (X_0 - h_0)/19 (shown to be the quotient x>>k of a word of the function, hence an integer): 2^255*Q + rho == h + 19 for a remainder rho in [0,2^255) built from the remainder bits of the q chain, and h + 19 < 2^256 (derived bound of h: " + hBound + "); so Q = [h + 19 >= 2^255] = [h >= p]",
		"identity_packing":      "sum_k out[k]*2^(8k) == sum_i L_i*2^off_i where L_i = X_i mod 2^w_i are the limb values after the last carry/mask step (255 distinct bits, each at weight off_i+j; bit 255 of out[31] is 0)",
		"identity_carry_chain":  "sum_k out[k]*2^(8k) == sum_i h_i*2^off_i + (X_0 - h_0) - 2^255*floor(X_top/2^w_top), h = limbs after the initial weak reduction (== input mod p), X_0 - h_0 = the multiple of 19 added to limb 0",
		"argued_not_mechanised": "that the discarded top carry q' equals Q: q' = floor((h+19*Q)/2^255) by the carry chain identity; Q = 0 gives h+19 < 2^255 hence q' = 0, Q = 1 gives 2^255 <= h+19 < 2^256 hence q' = 1 (case split on Q, outside the affine domain)",
		"out_bytes":             describeCells(w, []*Int{bytes[0], bytes[6], bytes[31]}),
		"stats":                 w.StatList(),
	})
}
