package elin

import (
	"fmt"
	"go/types"
	"math/big"

	"golang.org/x/tools/go/ssa"

	"voicheck/load"
	"voicheck/report"
)

// CheckLattice decides the exactness of the wide-integer arithmetic of
// internal/lattice (Int128, int512, int384) that FindShortVector relies on, as
// affine identities MODULO 2^N over the input words (two's complement).
//
// The interpreter runs in wrap mode (World.WrapMode): a machine-word result
// that may wrap gets an explicit wrap term (result = form - 2^w*k, k a fresh
// integer symbol), math/bits.Add64/Sub64 yield (sum, carry) with
// sum = x+y+c - 2^64*carry for a fresh 0/1 carry symbol, conversions
// int64<->uint64 reinterpret two's complement bit layouts.  The obligation is
// a congruence modulo 2^N of the weighted sum of the output words against the
// specification, coefficient-wise: the coefficients of the input words / bits
// must agree modulo 2^N and every wrap / carry symbol must have a coefficient
// that is 0 modulo 2^N (carries between adjacent words cancel).
const latticeRel = "internal/lattice"

// LatticeNotDecided lists what CheckLattice leaves open.
var LatticeNotDecided = []string{
	"internal/lattice: (*int512).Mul (non-linear: bits.Mul64 products) and (*int512/int384).BitLen (bits.Len64 in a data-dependent loop) are not decided by the affine domain",
	"internal/lattice: Int128.ToScalar / newInt128FromScalar byte order (decided elsewhere); the algorithm FindShortVector itself (loop invariants, termination, that the shifted operands never overflow N bits: every identity here is modulo 2^N)",
	"internal/lattice: AddShifted/SubShifted are decided for the result distinct from both operands and for the result aliasing the first operand (the only aliasing the callers use), not for the result aliasing the shifted operand",
}

type latCtx struct {
	c      *checker
	i128T  types.Type
	hi, lo int // field indices of the int64 / uint64 word
}

func CheckLattice(run *report.Run, p *load.Program, rulePrefix string) *Result {
	c := newChecker(run, p, rulePrefix)
	pk := p.Pkg(latticeRel)
	if pk == nil {
		c.plan(c.value, 1)
		c.fail(c.value, "-", latticeRel, "anchor: package "+latticeRel+" is not loaded")
		return c.res
	}
	lc := &latCtx{c: c, hi: -1, lo: -1}
	if tn, _ := pk.Types.Scope().Lookup("Int128").(*types.TypeName); tn != nil {
		if st, ok := tn.Type().Underlying().(*types.Struct); ok && st.NumFields() == 2 {
			for i := 0; i < 2; i++ {
				if b, ok := st.Field(i).Type().Underlying().(*types.Basic); ok {
					switch b.Kind() {
					case types.Int64:
						lc.hi = i
					case types.Uint64:
						lc.lo = i
					}
				}
			}
			lc.i128T = tn.Type()
		}
	}
	if lc.hi < 0 || lc.lo < 0 {
		c.plan(c.value, 1)
		c.fail(c.value, "-", latticeRel+".Int128", "anchor: type Int128 is not a struct of one int64 and one uint64 word")
	} else {
		lc.int128()
	}
	for _, bt := range []struct {
		name string
		n    int
	}{{"int512", 8}, {"int384", 6}} {
		tn, _ := pk.Types.Scope().Lookup(bt.name).(*types.TypeName)
		ok := false
		if tn != nil {
			if at, isArr := tn.Type().Underlying().(*types.Array); isArr && int(at.Len()) == bt.n {
				if b, isB := at.Elem().Underlying().(*types.Basic); isB && b.Kind() == types.Uint64 {
					ok = true
				}
			}
		}
		if !ok {
			c.plan(c.value, 1)
			c.fail(c.value, "-", latticeRel+"."+bt.name, fmt.Sprintf("anchor: type %s is not an array of %d uint64 limbs", bt.name, bt.n))
			continue
		}
		lc.bigInt(bt.name, bt.n, tn.Type())
	}
	return c.res
}

func (lc *latCtx) world() (*World, *Memory) {
	w := NewWorld(lc.c.p)
	w.WrapMode = true
	return w, newMemory()
}

// diffMod2N compares got and want coefficient-wise modulo 2^n.
func (w *World) diffMod2N(got, want *Form, n uint, sumName string) []string {
	if m := w.opaqueIn(got, sumName); m != "" {
		return []string{m}
	}
	var msgs []string
	mod := pow2(n)
	bad := func(r *big.Rat) bool {
		return !r.IsInt() || new(big.Int).Mod(r.Num(), mod).Sign() != 0
	}
	d := got.Sub(want)
	// wrap / carry symbols first: they name the instruction that loses a carry
	for pass := 0; pass < 2; pass++ {
		for _, t := range d.ts {
			vi := w.Var(t.v)
			if (vi.Kind == VWrap) != (pass == 0) || !bad(t.c) {
				continue
			}
			if vi.Kind == VWrap {
				msgs = append(msgs, fmt.Sprintf("%s keeps the coefficient %s in %s, which is not 0 modulo 2^%d: the carry out of that instruction is dropped or enters the next word at the wrong weight", vi.Name, prettyRat(t.c), sumName, n))
			} else {
				msgs = append(msgs, fmt.Sprintf("coefficient of %s in %s is %s, want %s (modulo 2^%d)", vi.Name, sumName, prettyRat(got.Coef(t.v)), prettyRat(want.Coef(t.v)), n))
			}
			if len(msgs) >= 3 {
				return msgs
			}
		}
	}
	if bad(d.c) {
		msgs = append(msgs, fmt.Sprintf("constant term of %s is %s, want %s (modulo 2^%d)", sumName, prettyRat(got.c), prettyRat(want.c), n))
	}
	return msgs
}

// ---------------------------------------------------------------------------
// Int128

// i128 builds an Int128 value: symbolic words (bits == nil) or bit layouts
// with the bits in fix set to constants.  It returns the value and the form of
// hi*2^64 + lo.
func (lc *latCtx) i128(w *World, group string, asBits bool, fix map[int]int8) (Value, *Form) {
	el := make([]Value, 2)
	if !asBits {
		hi := w.symInt(w.SymVar(group+".hi", 0, new(big.Int).Neg(pow2(63)), pow2m1(63)))
		lo := w.symInt(w.SymVar(group+".lo", 0, bigZero, pow2m1(64)))
		el[lc.hi], el[lc.lo] = hi, lo
		return &Agg{el}, hi.F().Shl(64).Add(lo.F())
	}
	var ll, lh layout
	for k := 0; k < 128; k++ {
		cell := int32(0)
		if b, ok := fix[k]; ok {
			if b != 0 {
				cell = layOne
			}
		} else {
			cell = int32(w.BitVar(group, k) + 1)
		}
		if k < 64 {
			ll[k] = cell
		} else {
			lh[k-64] = cell
		}
	}
	lo, hi := w.fromLayout(&ll), w.fromTwos(&lh, 64)
	el[lc.hi], el[lc.lo] = hi, lo
	return &Agg{el}, hi.F().Shl(64).Add(lo.F())
}

func (lc *latCtx) i128Form(v Value) (*Form, bool) {
	agg, ok := v.(*Agg)
	if !ok || len(agg.E) != 2 {
		return nil, false
	}
	hi, ok1 := agg.E[lc.hi].(*Int)
	lo, ok2 := agg.E[lc.lo].(*Int)
	if !ok1 || !ok2 {
		return nil, false
	}
	return hi.F().Shl(64).Add(lo.F()), true
}

// runMsgs renders an incomplete run or recorded failures.
func runMsgs(w *World, out *Outcome) []string {
	_, msgs := runFailures(w, out)
	return msgs
}

func (lc *latCtx) int128() {
	c := lc.c
	method := func(name string) (*ssa.Function, string) {
		full := latticeRel + ".Int128." + name
		return c.p.Func(latticeRel, "Int128."+name), full
	}
	// add, sub, neg: congruences modulo 2^128 on symbolic words
	for _, op := range []string{"add", "sub", "neg"} {
		fn, full := method(op)
		c.plan(c.value, 1)
		if fn == nil || len(fn.Blocks) == 0 {
			c.fail(c.value, "-", full, "anchor function "+full+" cannot be resolved")
			continue
		}
		c.res.Functions++
		w, mem := lc.world()
		x, X := lc.i128(w, "x", false, nil)
		args := []Value{x}
		want := X
		switch op {
		case "add":
			y, Y := lc.i128(w, "y", false, nil)
			args, want = append(args, y), X.Add(Y)
		case "sub":
			y, Y := lc.i128(w, "y", false, nil)
			args, want = append(args, y), X.Sub(Y)
		case "neg":
			want = X.Scale(ratMinusOne)
		}
		out := w.Call(fn, args, mem)
		msgs := runMsgs(w, out)
		if len(msgs) == 0 {
			if got, ok := lc.i128Form(out.Ret); !ok {
				msgs = append(msgs, "the function does not return an Int128 of two integer words")
			} else {
				msgs = w.diffMod2N(got, want, 128, "hi*2^64 + lo of the result")
			}
		}
		c.conclude(c.value, c.p.Pos(fn.Pos()), full, msgs)
		c.sample(map[string]any{"function": full, "identity": "hi'*2^64 + lo' == " + map[string]string{"add": "x + y", "sub": "x - y", "neg": "-x"}[op] + " (mod 2^128), coefficient-wise over the four input words; every carry / wrap symbol has a coefficient divisible by 2^128", "stats": w.StatList()})
	}

	// shl(n) for every concrete n: x*2^n modulo 2^128 on bit layouts
	if fn, full := method("shl"); fn == nil || len(fn.Blocks) == 0 {
		c.plan(c.value, 1)
		c.fail(c.value, "-", full, "anchor function "+full+" cannot be resolved")
	} else {
		c.res.Functions++
		var ns []int
		for n := 0; n <= 130; n++ {
			ns = append(ns, n)
		}
		ns = append(ns, 191, 192, 193, 255, 256, 257, 511, 512, 1023, 1024)
		c.plan(c.value, len(ns))
		okCount := 0
		var msgs []string
		for _, n := range ns {
			w, mem := lc.world()
			x, X := lc.i128(w, "x", true, nil)
			out := w.Call(fn, []Value{x, mkConst(int64(n))}, mem)
			m := runMsgs(w, out)
			if len(m) == 0 {
				if got, ok := lc.i128Form(out.Ret); !ok {
					m = append(m, "the function does not return an Int128 of two integer words")
				} else {
					m = w.diffMod2N(got, X.Shl(uint(n)), 128, "hi*2^64 + lo of the result")
				}
			}
			if len(m) == 0 {
				okCount++
			} else if len(msgs) < 3 {
				msgs = append(msgs, fmt.Sprintf("n = %d: %s", n, m[0]))
			}
		}
		lc.tally(fn, full, okCount, len(ns), msgs)
		c.sample(map[string]any{"function": full, "identity": "for every n in 0..130 (and 191..193, 255..257, 511, 512, 1023, 1024): hi'*2^64 + lo' == x*2^n (mod 2^128) coefficient-wise over the 128 input bits (x.hi a two's complement layout): output bit j is input bit j-n", "shift_counts": len(ns)})
	}

	// IsNegative: the sign bit
	if fn, full := method("IsNegative"); fn == nil || len(fn.Blocks) == 0 {
		c.plan(c.value, 1)
		c.fail(c.value, "-", full, "anchor function "+full+" cannot be resolved")
	} else {
		c.res.Functions++
		c.plan(c.value, 1)
		var msgs []string
		for _, sign := range []int8{0, 1} {
			msgs = append(msgs, lc.wantBoolAll(fn, func() (*World, []Value, *Memory) {
				w, mem := lc.world()
				x, _ := lc.i128(w, "x", true, map[int]int8{127: sign})
				return w, []Value{x}, mem
			}, sign == 1, fmt.Sprintf("bit 127 = %d, all other bits arbitrary", sign))...)
		}
		c.conclude(c.value, c.p.Pos(fn.Pos()), full, msgs)
	}

	// isZero: true on 0; false as soon as one bit is set
	if fn, full := method("isZero"); fn == nil || len(fn.Blocks) == 0 {
		c.plan(c.value, 1)
		c.fail(c.value, "-", full, "anchor function "+full+" cannot be resolved")
	} else {
		c.res.Functions++
		c.plan(c.value, 1)
		var msgs []string
		zero := map[int]int8{}
		for k := 0; k < 128; k++ {
			zero[k] = 0
		}
		msgs = append(msgs, lc.wantBoolAll(fn, func() (*World, []Value, *Memory) {
			w, mem := lc.world()
			x, _ := lc.i128(w, "x", true, zero)
			return w, []Value{x}, mem
		}, true, "all bits 0")...)
		for k := 0; k < 128 && len(msgs) < 3; k++ {
			// the 128 cases 'bit k is 1, all other bits arbitrary' cover every
			// non-zero value; an undecided test of the other word is followed both ways
			fix := map[int]int8{k: 1}
			msgs = append(msgs, lc.wantBoolAll(fn, func() (*World, []Value, *Memory) {
				w, mem := lc.world()
				x, _ := lc.i128(w, "x", true, fix)
				return w, []Value{x}, mem
			}, false, fmt.Sprintf("bit %d = 1, all other bits arbitrary", k))...)
		}
		c.conclude(c.value, c.p.Pos(fn.Pos()), full, msgs)
	}

	// Abs: x when bit 127 is 0, -x (mod 2^128) when it is 1
	if fn, full := method("Abs"); fn == nil || len(fn.Blocks) == 0 {
		c.plan(c.value, 1)
		c.fail(c.value, "-", full, "anchor function "+full+" cannot be resolved")
	} else {
		c.res.Functions++
		c.plan(c.value, 1)
		var msgs []string
		for _, sign := range []int8{0, 1} {
			w, mem := lc.world()
			x, X := lc.i128(w, "x", true, map[int]int8{127: sign})
			out := w.Call(fn, []Value{x}, mem)
			m := runMsgs(w, out)
			if len(m) == 0 {
				got, ok := lc.i128Form(out.Ret)
				switch {
				case !ok:
					m = append(m, "the function does not return an Int128")
				case sign == 0:
					if !got.Equal(X) {
						m = append(m, "for a non-negative x the result is not x itself")
					}
				default:
					m = w.diffMod2N(got, X.Scale(ratMinusOne), 128, "hi*2^64 + lo of the result")
				}
			}
			for _, s := range m {
				msgs = append(msgs, fmt.Sprintf("bit 127 = %d: %s", sign, s))
			}
		}
		c.conclude(c.value, c.p.Pos(fn.Pos()), full, msgs)
		c.sample(map[string]any{"function": latticeRel + ".Int128.{IsNegative,isZero,Abs}", "identity": "IsNegative == bit 127 for both values of the bit and all other bits arbitrary; isZero is true on 0 and false in each of the 128 cases 'bit k is 1, all other bits arbitrary' (which cover every non-zero value; a test that is undecided in a case is followed both ways, so the verdict does not depend on the order of the conjuncts); Abs returns x for bit 127 = 0 and a value == -x (mod 2^128) for bit 127 = 1"})
	}
}

// tally records n obligations of which ok are discharged.
func (lc *latCtx) tally(fn *ssa.Function, construct string, ok, n int, msgs []string) {
	c := lc.c
	if ok > 0 {
		c.okn(c.value, construct, ok)
	}
	if ok < n {
		c.conclude(c.value, c.p.Pos(fn.Pos()), construct, msgs)
		c.res.Obligations += n - ok - 1
		// only the first failing cases are reported individually: the others
		// are not instances of the rule, so they are taken out of the planned
		// minimum (the check fails anyway)
		if rest := n - ok - min(len(msgs), 3); rest > 0 {
			c.value.ExpectedMin -= rest
		}
	}
}

// wantBoolAll runs fn following both outcomes of every undecided branch and
// checks that every path returns b: the verdict does not depend on the order
// in which the function tests its conjuncts.
func (lc *latCtx) wantBoolAll(fn *ssa.Function, build func() (*World, []Value, *Memory), b bool, when string) []string {
	ws, outs := CallAll(fn, build)
	for i, out := range outs {
		if m := lc.wantBool(ws[i], out, b, when); len(m) > 0 {
			return m
		}
	}
	return nil
}

// wantBool checks that a run returned the concrete boolean b.
func (lc *latCtx) wantBool(w *World, out *Outcome, b bool, when string) []string {
	if m := runMsgs(w, out); len(m) > 0 {
		return []string{when + ": " + m[0]}
	}
	x, _ := out.Ret.(*Int)
	if x == nil {
		return []string{when + ": the function does not return a boolean"}
	}
	n, ok := x.Concrete()
	if !ok {
		return []string{when + ": undecided: the result is not determined (it ranges over " + x.R.String() + ")"}
	}
	if (n != 0) != b {
		return []string{fmt.Sprintf("%s: the function returns %v, want %v", when, n != 0, b)}
	}
	return nil
}

// ---------------------------------------------------------------------------
// int512 / int384

// words allocates an n-limb integer: symbolic words or bit layouts (bits in
// fix are constants).  It returns the pointer and the form sum w_i*2^(64i).
func (lc *latCtx) words(w *World, mem *Memory, t types.Type, group string, n int, asBits bool, fix map[int]int8) (*Ptr, *Form) {
	p, f, _ := lc.wordsVars(w, mem, t, group, n, asBits, fix)
	return p, f
}

// wordsVars is words, also returning the variable of every bit (-1 for
// constants; nil for symbolic words).
func (lc *latCtx) wordsVars(w *World, mem *Memory, t types.Type, group string, n int, asBits bool, fix map[int]int8) (*Ptr, *Form, []int) {
	cells := make([]Value, n)
	var bitVars []int
	if asBits {
		bitVars = make([]int, 64*n)
	}
	val := int64Form(0)
	for i := 0; i < n; i++ {
		var x *Int
		if !asBits {
			x = w.symInt(w.SymVar(group, i, bigZero, pow2m1(64)))
		} else {
			var l layout
			for j := 0; j < 64; j++ {
				k := 64*i + j
				bitVars[k] = -1
				if b, ok := fix[k]; ok {
					if b != 0 {
						l[j] = layOne
					}
				} else {
					bitVars[k] = w.BitVar(group, k)
					l[j] = int32(bitVars[k] + 1)
				}
			}
			x = w.fromLayout(&l)
		}
		cells[i] = x
		if !asBits {
			val = val.Add(x.F().Shl(uint(64 * i)))
		}
	}
	if asBits {
		val = shiftedBits(bitVars, fix, 0, uint(64*n), false)
	}
	return w.alloc(mem, t, &Agg{cells}), val, bitVars
}

// shiftedBits is (+/-) sum 2^(k+s)*bit_k reduced modulo 2^N: terms with
// k+s >= N are dropped (the variables are created in ascending order).
func shiftedBits(vars []int, fix map[int]int8, s, N uint, neg bool) *Form {
	f := &Form{c: ratZero}
	c := new(big.Int)
	for k, v := range vars {
		e := uint(k) + s
		if e >= N {
			break
		}
		if v < 0 {
			if fix[k] != 0 {
				c.SetBit(c, int(e), 1)
			}
			continue
		}
		co := ratPow2(e)
		if neg {
			co = new(big.Rat).Neg(co)
		}
		f.ts = append(f.ts, term{v, co})
	}
	if neg {
		c.Neg(c)
	}
	f.c = new(big.Rat).SetInt(c)
	return f
}

func wordsForm(mem *Memory, p *Ptr, n int) (*Form, []*Int, bool) {
	v, ok := mem.load(p)
	if !ok {
		return nil, nil, false
	}
	cells, ok := intCells(v)
	if !ok || len(cells) != n {
		return nil, nil, false
	}
	f := int64Form(0)
	for i, x := range cells {
		f = f.Add(x.F().Shl(uint(64 * i)))
	}
	return f, cells, true
}

func (lc *latCtx) bigInt(tname string, n int, t types.Type) {
	c := lc.c
	N := uint(64 * n)
	method := func(name string) (*ssa.Function, string) {
		full := fmt.Sprintf("%s.(*%s).%s", latticeRel, tname, name)
		return c.p.Func(latticeRel, "(*"+tname+")."+name), full
	}
	missing := func(full string) {
		c.plan(c.value, 1)
		c.fail(c.value, "-", full, "anchor function "+full+" cannot be resolved")
	}

	// Add (int512 only), AddShifted, SubShifted, ShiftLimbs
	type arith struct {
		name    string
		shifted bool
		sign    int // +1, -1, 0 (ShiftLimbs: x = a << 64*(s/64))
	}
	ops := []arith{{"AddShifted", true, 1}, {"SubShifted", true, -1}, {"ShiftLimbs", true, 0}}
	if tname == "int512" {
		ops = append([]arith{{"Add", false, 1}}, ops...)
	}
	for _, op := range ops {
		fn, full := method(op.name)
		if fn == nil || len(fn.Blocks) == 0 {
			missing(full)
			continue
		}
		c.res.Functions++
		var shifts []int
		if op.shifted {
			// every s below N+66; for s >= N the control flow and the shift
			// amounts depend on s only through s/64 >= n (the default case of
			// ShiftLimbs) and s&63, so N..N+65 covers every larger s
			for s := 0; s <= int(N)+65; s++ {
				shifts = append(shifts, s)
			}
			shifts = append(shifts, 2*int(N), 2*int(N)+1)
		} else {
			shifts = []int{-1}
		}
		aliasing := []string{"result distinct from the operands", "result aliases the first operand"}
		if op.sign == 0 {
			aliasing = aliasing[:1]
		}
		total := len(shifts) * len(aliasing)
		c.plan(c.value, total)
		okCount := 0
		var msgs []string
		for _, s := range shifts {
			for ai, alias := range aliasing {
				w, mem := lc.world()
				var args []Value
				var want *Form
				var xp *Ptr
				switch {
				case op.sign == 0: // ShiftLimbs(a, s)
					ap, A := lc.words(w, mem, t, "a", n, false, nil)
					xp, _ = lc.words(w, mem, t, "x", n, false, nil)
					args = []Value{xp, ap, mkConst(int64(s))}
					want = A.Shl(uint(64 * (s / 64)))
				default:
					ap, A := lc.words(w, mem, t, "a", n, false, nil)
					bp, B, bvars := lc.wordsVars(w, mem, t, "b", n, op.shifted, nil)
					xp = ap
					if ai == 0 {
						xp, _ = lc.words(w, mem, t, "x", n, false, nil)
					}
					args = []Value{xp, ap, bp}
					if op.shifted {
						args = append(args, mkConst(int64(s)))
						want = A.Add(shiftedBits(bvars, nil, uint(s), N, op.sign < 0))
					} else if op.sign > 0 {
						want = A.Add(B)
					} else {
						want = A.Sub(B)
					}
				}
				out := w.Call(fn, args, mem)
				m := runMsgs(w, out)
				if len(m) == 0 {
					if q, ok := out.Ret.(*Ptr); !ok || !q.same(xp) {
						m = append(m, "the function does not return its receiver")
					} else if got, _, ok := wordsForm(mem, xp, n); !ok {
						m = append(m, "the result limbs are not tracked")
					} else {
						m = w.diffMod2N(got, want, N, "sum x_i*2^(64i) of the result")
					}
				}
				if len(m) == 0 {
					okCount++
				} else if len(msgs) < 3 {
					if op.shifted {
						msgs = append(msgs, fmt.Sprintf("s = %d (%s): %s", s, alias, m[0]))
					} else {
						msgs = append(msgs, fmt.Sprintf("%s: %s", alias, m[0]))
					}
				}
			}
		}
		lc.tally(fn, full, okCount, total, msgs)
		id := map[string]string{
			"Add":        fmt.Sprintf("sum x_i*2^(64i) == a + b (mod 2^%d)", N),
			"AddShifted": fmt.Sprintf("for every s in 0..%d (and %d, %d; larger s behave as N + s mod 64): sum x_i*2^(64i) == a + b*2^s (mod 2^%d), b as %d input bits, a as %d words", N+65, 2*N, 2*N+1, N, N, n),
			"SubShifted": fmt.Sprintf("for every s in 0..%d (and %d, %d): sum x_i*2^(64i) == a - b*2^s (mod 2^%d)", N+65, 2*N, 2*N+1, N),
			"ShiftLimbs": fmt.Sprintf("for every s in 0..%d (and %d, %d): sum x_i*2^(64i) == a*2^(64*floor(s/64)) (mod 2^%d)", N+65, 2*N, 2*N+1, N),
		}[op.name]
		c.sample(map[string]any{"function": full, "identity": id + "; coefficient-wise, every carry / borrow symbol of bits.Add64 / bits.Sub64 has a coefficient divisible by 2^" + fmt.Sprint(N), "cases": total})
	}

	// IsNegative: the top bit
	if fn, full := method("IsNegative"); fn == nil || len(fn.Blocks) == 0 {
		missing(full)
	} else {
		c.res.Functions++
		c.plan(c.value, 1)
		var msgs []string
		for _, sign := range []int8{0, 1} {
			msgs = append(msgs, lc.wantBoolAll(fn, func() (*World, []Value, *Memory) {
				w, mem := lc.world()
				xp, _ := lc.words(w, mem, t, "x", n, true, map[int]int8{int(N) - 1: sign})
				return w, []Value{xp}, mem
			}, sign == 1, fmt.Sprintf("bit %d = %d, all other bits arbitrary", N-1, sign))...)
		}
		c.conclude(c.value, c.p.Pos(fn.Pos()), full, msgs)
	}

	// PositiveLt: the borrow out of x - y
	if fn, full := method("PositiveLt"); fn == nil || len(fn.Blocks) == 0 {
		missing(full)
	} else {
		c.res.Functions++
		c.plan(c.value, 1)
		w, mem := lc.world()
		xp, X := lc.words(w, mem, t, "x", n, false, nil)
		yp, Y := lc.words(w, mem, t, "y", n, false, nil)
		out := w.Call(fn, []Value{xp, yp}, mem)
		msgs := runMsgs(w, out)
		if len(msgs) == 0 {
			msgs = lc.borrowChain(w, out.Ret, X.Sub(Y), n)
		}
		c.conclude(c.value, c.p.Pos(fn.Pos()), full, msgs)
		c.sample(map[string]any{"function": full, "identity": fmt.Sprintf("the result is the borrow b of a chain of %d bits.Sub64 whose (discarded) difference words d_i in [0,2^64) satisfy sum d_i*2^(64i) - 2^%d*b == x - y exactly; hence b = [x < y] for the unsigned (a fortiori the non-negative) values", n, N)})
	}

	if tname == "int512" {
		// SafeToShrink: bits 383..511 are zero
		if fn, full := method("SafeToShrink"); fn == nil || len(fn.Blocks) == 0 {
			missing(full)
		} else {
			c.res.Functions++
			c.plan(c.value, 1)
			var msgs []string
			zeroTop := map[int]int8{}
			for k := 383; k < 512; k++ {
				zeroTop[k] = 0
			}
			msgs = append(msgs, lc.wantBoolAll(fn, func() (*World, []Value, *Memory) {
				w, mem := lc.world()
				xp, _ := lc.words(w, mem, t, "x", n, true, zeroTop)
				return w, []Value{xp}, mem
			}, true, "bits 383..511 are 0, all other bits arbitrary")...)
			for k := 383; k < 512 && len(msgs) < 3; k++ {
				// the 129 cases 'bit k is 1, all other bits arbitrary' cover every other
				// value; a conjunct that is undecided in such a case is followed both ways
				fix := map[int]int8{k: 1}
				msgs = append(msgs, lc.wantBoolAll(fn, func() (*World, []Value, *Memory) {
					w, mem := lc.world()
					xp, _ := lc.words(w, mem, t, "x", n, true, fix)
					return w, []Value{xp}, mem
				}, false, fmt.Sprintf("bit %d = 1, all other bits arbitrary", k))...)
			}
			c.conclude(c.value, c.p.Pos(fn.Pos()), full, msgs)
			c.sample(map[string]any{"function": full, "identity": "true when bits 383..511 are 0 (everything else arbitrary); false in each of the 129 cases 'bit k in 383..511 is 1, all other bits arbitrary' (which cover every other value; an undecided conjunct is followed both ways): the value fits a non-negative int384"})
		}
	}
	if tname == "int384" {
		// FromInt512: the low six limbs in order
		if fn, full := method("FromInt512"); fn == nil || len(fn.Blocks) == 0 {
			missing(full)
		} else {
			c.res.Functions++
			c.plan(c.value, 1)
			w, mem := lc.world()
			xp, _ := lc.words(w, mem, t, "x", n, false, nil)
			ap, _ := lc.words(w, mem, nil, "a", 8, false, nil)
			out := w.Call(fn, []Value{xp, ap}, mem)
			msgs := runMsgs(w, out)
			if len(msgs) == 0 {
				_, got, ok1 := wordsForm(mem, xp, n)
				_, src, ok2 := wordsForm(mem, ap, 8)
				if !ok1 || !ok2 {
					msgs = append(msgs, "the limbs are not tracked")
				} else {
					for i := 0; i < n; i++ {
						if !got[i].F().Equal(src[i].F()) {
							msgs = append(msgs, fmt.Sprintf("limb %d of the result is not limb %d of the int512", i, i))
						}
					}
				}
				if q, ok := out.Ret.(*Ptr); !ok || !q.same(xp) {
					msgs = append(msgs, "the function does not return its receiver")
				}
			}
			c.conclude(c.value, c.p.Pos(fn.Pos()), full, msgs)
		}
	}
}

// borrowChain checks that ret is the last borrow b of a chain of n Sub64 whose
// difference words d_i satisfy sum d_i*2^(64i) - 2^(64n)*b == diff exactly.
func (lc *latCtx) borrowChain(w *World, ret Value, diff *Form, n int) []string {
	x, _ := ret.(*Int)
	if x == nil {
		return []string{"the function does not return a boolean"}
	}
	f := x.F()
	if len(f.ts) != 1 || f.c.Sign() != 0 || f.ts[0].c.Cmp(ratOne) != 0 || w.Var(f.ts[0].v).Kind != VWrap || w.Var(f.ts[0].v).Def == nil {
		return []string{"undecided: the result is not the borrow of a bits.Sub64 (compared with 1 / 0)"}
	}
	b := f.ts[0].v
	// follow the chain of incoming borrows
	chain := []int{b}
	for len(chain) <= n {
		def := w.Var(chain[len(chain)-1]).Def
		prev := -1
		for _, t := range def.ts {
			if vi := w.Var(t.v); vi.Kind == VWrap {
				if prev >= 0 || t.c.Cmp(ratMinusOne) != 0 || vi.Def == nil {
					return []string{"undecided: a difference of the chain depends on more than one borrow"}
				}
				prev = t.v
			}
		}
		if prev < 0 {
			break
		}
		chain = append(chain, prev)
	}
	if len(chain) != n {
		return []string{fmt.Sprintf("the borrow returned is the end of a chain of %d bits.Sub64, want one per limb (%d)", len(chain), n)}
	}
	// chain[0] is the borrow of the top limb: d_i = Def(b_i) + 2^64*b_i in [0, 2^64)
	sum := int64Form(0)
	for j, v := range chain {
		i := n - 1 - j
		d := w.Var(v).Def.Add(varForm(v).Shl(64))
		sum = sum.Add(d.Shl(uint(64 * i)))
	}
	got := sum.Sub(varForm(b).Shl(uint(64 * n)))
	if !got.Equal(diff) {
		return append([]string{"the chain of differences does not add up to x - y:"}, w.diffMod2N(got, diff, 4096, "sum d_i*2^(64i) - 2^(64n)*b")...)
	}
	return nil
}
