package elin

import (
	"fmt"
	"go/token"
	"go/types"
	"math/big"
	"runtime"
	"sort"
	"sync"
	"time"

	"golang.org/x/tools/go/ssa"
)

// NonAdjacentForm has a data-dependent loop.  It is decided by tabulating
// the transfer function of ONE iteration over the finite abstract state
// (w, pos, carry): the body is interpreted from the loop head with pos and
// carry concrete and the scalar words as layouts over the input bits; a
// branch that is not concrete yields the input bits its condition depends on,
// which are then enumerated (a decision tree whose leaves are concrete).

const maxBranchVars = 10

// loopHeadOf returns the head of the innermost natural loop containing b.
func loopHeadOf(fn *ssa.Function, b *ssa.BasicBlock) (*ssa.BasicBlock, map[*ssa.BasicBlock]bool) {
	bodies := map[*ssa.BasicBlock]map[*ssa.BasicBlock]bool{}
	for _, blk := range fn.Blocks {
		for _, s := range blk.Succs {
			if s.Dominates(blk) { // back edge blk -> s
				body := bodies[s]
				if body == nil {
					body = map[*ssa.BasicBlock]bool{s: true}
					bodies[s] = body
				}
				var walk func(n *ssa.BasicBlock)
				walk = func(n *ssa.BasicBlock) {
					if body[n] {
						return
					}
					body[n] = true
					for _, p := range n.Preds {
						walk(p)
					}
				}
				walk(blk)
			}
		}
	}
	var best *ssa.BasicBlock
	for h, body := range bodies {
		if body[b] && (best == nil || len(body) < len(bodies[best])) {
			best = h
		}
	}
	if best == nil {
		return nil, nil
	}
	return best, bodies[best]
}

// branchVars collects the unassigned input bits an undecided condition
// depends on: the variables of the nearest operands (through arithmetic
// instructions) whose forms mention input bits only.
func (w *World) branchVars(fr *frame, cond ssa.Value) []int {
	seen := map[ssa.Value]bool{}
	have := map[int]bool{}
	var out []int
	var visit func(v ssa.Value, depth int)
	visit = func(v ssa.Value, depth int) {
		if v == nil || depth > 10 || seen[v] {
			return
		}
		seen[v] = true
		if _, isConst := v.(*ssa.Const); isConst {
			return
		}
		xv, _ := fr.get(v)
		xi, ok := xv.(*Int)
		if !ok {
			return
		}
		f := xi.F()
		if w.assign != nil {
			f = f.Subst(w.assign)
		}
		if len(f.ts) == 0 {
			return
		}
		allBits := true
		for _, t := range f.ts {
			if w.vars[t.v].Kind != VBit {
				allBits = false
				break
			}
		}
		if allBits {
			for _, t := range f.ts {
				if !have[t.v] {
					have[t.v] = true
					out = append(out, t.v)
				}
			}
			return
		}
		switch in := v.(type) {
		case *ssa.BinOp:
			visit(in.X, depth+1)
			visit(in.Y, depth+1)
		case *ssa.UnOp:
			if in.Op != token.MUL {
				visit(in.X, depth+1)
			}
		case *ssa.Convert:
			visit(in.X, depth+1)
		case *ssa.ChangeType:
			visit(in.X, depth+1)
		case *ssa.Phi:
			for _, e := range in.Edges {
				visit(e, depth+1)
			}
		}
	}
	visit(cond, 0)
	sort.Ints(out)
	return out
}

type nafState struct {
	pos   int
	carry int
}

type nafTab struct {
	c     *checker
	w     *World
	fn    *ssa.Function
	wd    int
	head  *ssa.BasicBlock
	env   map[ssa.Value]Value
	mem   *Memory
	pos   *ssa.Phi
	carry *ssa.Phi
	naf   int // object of the digit array
	cells []Value
	vars  []int // input bits

	leaves  int
	runs    int
	vmsgs   []string // violations of the value invariant
	rmsgs   []string // violations of the structural clauses
	rpos    string
	trans   map[nafState]map[nafState]bool // transitions compatible with bit 255 = 0
	maxVars int
	phiIdx  [2]int // positions of pos and carry among the instructions of the head
	probing bool
	stopped string    // non-empty: the tabulation was abandoned (budget), with the reason
	until   time.Time // wall-clock budget of this task
	vbad    int       // violations of the value invariant (all, not only the reported ones)
	rbad    int       // violations of the structural clauses
}

// nafChunks is the number of position ranges each width is split into; the
// (width, range) tasks are tabulated concurrently, each in its own World.
const (
	nafChunks     = 4
	nafWorkers    = 4
	nafBodySteps  = 20_000           // instruction budget of one run of the loop body (a run takes about 50)
	nafMaxBad     = 50               // violating leaves of one task before the tabulation is abandoned
	nafTaskBudget = 4 * time.Minute // wall-clock budget of one (width, range) task
)

func (c *checker) recodeNAF(rc *recodeCtx) {
	fn := c.p.Func(scalarRel, "(*Scalar).NonAdjacentForm")
	type task struct {
		wd, chunk int
		tab       *nafTab
		err       string
	}
	var tasks []*task
	for wd := 2; wd <= 8; wd++ {
		// at least two leaves (even window, odd window) per (pos, carry) for
		// each of the two per-leaf clauses, plus the exit and the termination
		// clause; the exact number of leaves depends on the shape of the
		// decision tree and is reported in the evidence
		c.plan(c.value, 1024)
		c.plan(c.rng, 1024+2)
		if fn == nil || len(fn.Blocks) == 0 {
			name := fmt.Sprintf("%s.(*Scalar).NonAdjacentForm(w=%d)", scalarRel, wd)
			c.fail(c.value, "-", name, "anchor function (*Scalar).NonAdjacentForm cannot be resolved")
			c.fail(c.rng, "-", name, "anchor function (*Scalar).NonAdjacentForm cannot be resolved")
			continue
		}
		c.res.Functions++
		for ch := 0; ch < nafChunks; ch++ {
			tasks = append(tasks, &task{wd: wd, chunk: ch})
		}
	}
	// the heaviest tasks (largest w) first
	order := append([]*task(nil), tasks...)
	sort.SliceStable(order, func(i, j int) bool { return order[i].wd > order[j].wd })
	workers := min(nafWorkers, runtime.GOMAXPROCS(0))
	sem := make(chan struct{}, max(workers, 1))
	var wg sync.WaitGroup
	for _, tk := range order {
		wg.Add(1)
		sem <- struct{}{}
		go func(tk *task) {
			defer wg.Done()
			defer func() { <-sem }()
			defer func() {
				if e := recover(); e != nil {
					tk.err = fmt.Sprintf("analysis panicked: %v", e)
				}
			}()
			if el := time.Since(c.start); el > DriverBudget {
				tk.err = fmt.Sprintf("undecided: budget exceeded: the driver has used %s of wall-clock time (limit %s) before this part of the tabulation", el.Round(time.Second), DriverBudget)
				return
			}
			tk.tab, tk.err = c.nafSetup(rc, fn, tk.wd)
			if tk.err == "" {
				per := 256 / nafChunks
				tk.tab.tabulate(tk.chunk*per, (tk.chunk+1)*per)
			}
		}(tk)
	}
	wg.Wait()
	for wd := 2; wd <= 8 && fn != nil && len(fn.Blocks) > 0; wd++ {
		name := fmt.Sprintf("%s.(*Scalar).NonAdjacentForm(w=%d)", scalarRel, wd)
		var tabs []*nafTab
		errMsg := ""
		for _, tk := range tasks {
			if tk.wd != wd {
				continue
			}
			if tk.err != "" && errMsg == "" {
				errMsg = tk.err
			}
			tabs = append(tabs, tk.tab)
		}
		if errMsg != "" {
			pos := c.p.Pos(fn.Pos())
			c.fail(c.value, pos, name+": iteration invariant", errMsg)
			c.fail(c.rng, pos, name+": digits and steps", errMsg)
			continue
		}
		c.nafReport(fn, wd, name, tabs)
	}
}

// nafSetup locates the data-dependent loop and captures the state at its
// first arrival at the loop head.
func (c *checker) nafSetup(rc *recodeCtx, fn *ssa.Function, wd int) (*nafTab, string) {
	pos := c.p.Pos(fn.Pos())
	// run 1: find the data-dependent loop
	w1 := NewWorld(c.p)
	m1 := newMemory()
	s1, _ := rc.newScalar(w1, m1, false)
	o1 := w1.Call(fn, []Value{s1, mkConst(int64(wd))}, m1)
	if o1.Branch == nil {
		_, why := o1.Why(w1)
		if why == "" {
			why = "the function was interpreted without meeting a data-dependent branch"
		}
		return nil, "the data-dependent loop of NonAdjacentForm was not found: " + why
	}
	head, body := loopHeadOf(fn, o1.Branch.in.Block())
	if head == nil || o1.Branch.in.Parent() != fn {
		p, _ := w1.where(o1.Branch.in)
		return nil, "undecided: the data-dependent branch at " + p + " is not inside a loop of NonAdjacentForm"
	}
	// the loop state: two integer phis, one of which is tested against a
	// constant by the terminator of the head (pos), the other is the carry
	var phis []*ssa.Phi
	for _, in := range head.Instrs {
		if phi, ok := in.(*ssa.Phi); ok {
			phis = append(phis, phi)
		}
	}
	var posPhi, carryPhi *ssa.Phi
	limit := int64(-1)
	if ifi, ok := head.Instrs[len(head.Instrs)-1].(*ssa.If); ok && len(phis) == 2 {
		if cmp, ok := ifi.Cond.(*ssa.BinOp); ok && cmp.Op == token.LSS {
			if k, ok := cmp.Y.(*ssa.Const); ok && k.Value != nil {
				limit = k.Int64()
				for i, phi := range phis {
					if cmp.X == phi {
						posPhi, carryPhi = phi, phis[1-i]
					}
				}
			}
		}
		if len(head.Succs) == 2 && (!body[head.Succs[0]] || body[head.Succs[1]]) {
			posPhi = nil // the loop must continue on the true edge and leave on the false edge
		}
	}
	if posPhi == nil || limit != 256 {
		return nil, fmt.Sprintf("the loop head at %s does not have the expected state (two integer phis, `pos < 256` as the only exit test)", c.p.Pos(head.Instrs[0].Pos()))
	}

	// run 2: the state at the first arrival at the loop head
	w := NewWorld(c.p)
	mem := newMemory()
	s, vars := rc.newScalar(w, mem, false)
	w.stopAt = head
	o2 := w.Call(fn, []Value{s, mkConst(int64(wd))}, mem)
	if !o2.AtHead {
		_, why := o2.Why(w)
		return nil, "the loop head was not reached: " + why
	}
	for i, phi := range phis {
		x, _ := o2.HeadVals[i].(*Int)
		if x == nil {
			return nil, "the loop state " + phi.Name() + " is not an integer"
		}
		if n, ok := x.Concrete(); !ok || n != 0 {
			return nil, fmt.Sprintf("the loop state %s does not start at 0 (it is %s)", phi.Name(), x.R)
		}
	}
	t := &nafTab{c: c, w: w, fn: fn, wd: wd, head: head, env: o2.Frame.env, mem: o2.Mem, pos: posPhi, carry: carryPhi, vars: vars,
		trans: map[nafState]map[nafState]bool{}, rpos: pos}
	for j, in := range head.Instrs {
		if in == ssa.Instruction(posPhi) {
			t.phiIdx[0] = j
		}
		if in == ssa.Instruction(carryPhi) {
			t.phiIdx[1] = j
		}
	}
	// the digit array: the only [256]int8 object; its cells get symbols so
	// that any write is visible
	t.naf = -1
	for id, ty := range mem.types {
		if ty == nil {
			continue
		}
		if at, ok := ty.Underlying().(*types.Array); ok && at.Len() == 256 {
			if b, ok := at.Elem().Underlying().(*types.Basic); ok && b.Kind() == types.Int8 {
				if t.naf >= 0 {
					return nil, "more than one [256]int8 object is live at the loop head"
				}
				t.naf = id
			}
		}
	}
	if t.naf < 0 {
		return nil, "no [256]int8 digit array is live at the loop head"
	}
	cells, ok := intCells(t.mem.objs[t.naf])
	if !ok || len(cells) != 256 {
		return nil, "the digit array is not tracked cell by cell"
	}
	for i, x := range cells {
		if n, ok := x.Concrete(); !ok || n != 0 {
			return nil, fmt.Sprintf("digit %d is not 0 when the loop starts", i)
		}
	}
	t.cells = w.outputCells("naf", 256, ikind{bits: 8, signed: true})
	t.mem.objs[t.naf] = &Agg{t.cells}
	w.maxSteps = nafBodySteps
	t.until = time.Now().Add(nafTaskBudget)
	return t, ""
}

// tabulate explores the states (pos, carry) with lo <= pos < hi.
func (t *nafTab) tabulate(lo, hi int) {
	for p := lo; p < hi; p++ {
		for cy := 0; cy <= 1; cy++ {
			t.explore(nafState{p, cy}, map[int]int8{}, 0)
		}
	}
}

// nafReport merges the tabulated position ranges of one width and records
// the obligations.
func (c *checker) nafReport(fn *ssa.Function, wd int, name string, tabs []*nafTab) {
	pos := c.p.Pos(fn.Pos())
	t := tabs[0]
	w := t.w
	leaves, runs, maxVars, vbad, rbad := 0, 0, 0, 0, 0
	var vmsgs, rmsgs, stopped []string
	trans := map[nafState]map[nafState]bool{}
	for _, tb := range tabs {
		leaves += tb.leaves
		runs += tb.runs
		maxVars = max(maxVars, tb.maxVars)
		vbad += tb.vbad
		rbad += tb.rbad
		vmsgs = append(vmsgs, tb.vmsgs...)
		rmsgs = append(rmsgs, tb.rmsgs...)
		if tb.stopped != "" {
			stopped = append(stopped, tb.stopped)
			rbad++
		}
		for k, v := range tb.trans {
			trans[k] = v
		}
	}
	// the violations themselves first, then the note that the tabulation was cut short
	if len(stopped) > 0 {
		if len(rmsgs) > 2 {
			rmsgs = rmsgs[:2]
		}
		rmsgs = append(rmsgs, stopped[0])
	}
	// one obligation per leaf and clause; the leaves without a violation are
	// discharged also when others fail (a leaf can have several violations)
	if len(vmsgs) == 0 {
		c.okn(c.value, name+": iteration invariant", leaves)
	} else {
		c.okn(c.value, name+": iteration invariant", max(leaves-vbad, 0))
		c.conclude(c.value, pos, name+": iteration invariant", vmsgs)
		c.res.Obligations += min(vbad, leaves) - 1
	}
	if len(rmsgs) == 0 {
		c.okn(c.rng, name+": digits and steps", leaves)
	} else {
		c.okn(c.rng, name+": digits and steps", max(leaves-rbad, 0))
		c.conclude(c.rng, pos, name+": digits and steps", rmsgs)
		c.res.Obligations += min(rbad, leaves) - 1
	}

	// exit: from the head with pos >= 256 the function returns the digit array
	var emsgs []string
	for p := 256; p < 256+wd && len(emsgs) == 0; p++ {
		for cy := 0; cy <= 1; cy++ {
			out := t.run(nafState{p, cy}, nil)
			switch {
			case !out.OK() || out.AtHead:
				_, why := out.Why(w)
				emsgs = append(emsgs, fmt.Sprintf("from the loop head with pos = %d the function does not return (%s)", p, why))
			default:
				agg, _ := out.Ret.(*Agg)
				same := agg != nil && len(agg.E) == 256
				for i := 0; same && i < 256; i++ {
					same = agg.E[i] == t.cells[i]
				}
				if !same {
					emsgs = append(emsgs, fmt.Sprintf("leaving the loop with pos = %d does not return the digit array unchanged", p))
				}
			}
		}
	}
	c.conclude(c.rng, pos, name+": exit", emsgs)

	// termination claim: with bit 255 = 0 every reachable exit state has carry 0
	var tmsgs []string
	reach := map[nafState]bool{{0, 0}: true}
	work := []nafState{{0, 0}}
	exits := 0
	for len(work) > 0 {
		st := work[len(work)-1]
		work = work[:len(work)-1]
		if st.pos >= 256 {
			exits++
			if st.carry != 0 && len(tmsgs) < 3 {
				tmsgs = append(tmsgs, fmt.Sprintf("for a scalar below 2^255 the loop can end at pos = %d with carry = %d: the top of the scalar is lost", st.pos, st.carry))
			}
			continue
		}
		for nx := range trans[st] {
			if !reach[nx] {
				reach[nx] = true
				work = append(work, nx)
			}
		}
	}
	if len(vmsgs)+len(rmsgs) > 0 {
		tmsgs = append(tmsgs, "not decided: the transfer function of the loop body has violations (see the iteration invariant and the digits-and-steps clause)")
	} else if exits == 0 {
		tmsgs = append(tmsgs, "no exit state is reachable from (pos, carry) = (0, 0)")
	}
	c.conclude(c.rng, pos, name+": final carry", tmsgs)
	c.sample(map[string]any{
		"function": name,
		"identity": fmt.Sprintf("for every (pos < 256, carry in {0,1}) and every valuation of the bits the outcome depends on: carry + sum_{j<d} bit_{pos+j}*2^j == digit + carry'*2^d with d = pos'-pos in {1,%d}; digit is 0 (no write) or odd with |digit| < 2^%d and then d = %d; only naf[pos] is written; bits >= 256 are 0", wd, wd-1, wd),
		"states":   512, "leaves": leaves, "body_runs": runs, "max_enumerated_bits": maxVars,
		"reachable_states_for_bit255_0": len(reach), "reachable_exit_states": exits,
		"termination": "every exit state reachable from (0,0) under bit 255 = 0 has carry 0",
	})
}

// run interprets the loop body once from the head.
func (t *nafTab) run(st nafState, assign map[int]int8) *Outcome {
	t.runs++
	fr := &frame{fn: t.fn, env: make(map[ssa.Value]Value, 48), base: t.env}
	fr.env[t.pos] = mkConst(int64(st.pos))
	fr.env[t.carry] = mkConst(int64(st.carry))
	mem := t.mem.clone()
	t.w.assign = assign
	t.w.beginRun()
	nfail := len(t.w.Fails)
	out := t.w.guard(fr, mem, func() (Value, *Outcome) { return t.w.exec(fr, mem, t.head, nil, true) })
	t.w.assign = nil
	if len(t.w.Fails) > nfail && out.OK() {
		f := t.w.Fails[nfail]
		out = &Outcome{Mem: mem, Und: fmt.Sprintf("%s in %s: %s", f.Pos, f.Fn, f.Msg), UndPos: f.Pos}
	}
	return out
}

func (t *nafTab) bad(list *[]string, st nafState, assign map[int]int8, format string, args ...any) {
	if list == &t.vmsgs {
		t.vbad++
	} else {
		t.rbad++
	}
	if len(*list) >= 3 {
		return
	}
	*list = append(*list, fmt.Sprintf("w=%d pos=%d carry=%d %s: %s", t.wd, st.pos, st.carry, t.describe(assign), fmt.Sprintf(format, args...)))
}

func (t *nafTab) describe(assign map[int]int8) string {
	if len(assign) == 0 {
		return "(any bits)"
	}
	var ks []int
	for v := range assign {
		ks = append(ks, t.w.vars[v].Index)
	}
	sort.Ints(ks)
	if len(ks) > 12 {
		zeros := 0
		for _, k := range ks {
			if assign[t.vars[k]] == 0 {
				zeros++
			}
		}
		return fmt.Sprintf("bits b%d..b%d (%d of them 0, %d of them 1)", ks[0], ks[len(ks)-1], zeros, len(ks)-zeros)
	}
	s := "bits"
	for _, k := range ks {
		s += fmt.Sprintf(" b%d=%d", k, assign[t.vars[k]])
	}
	return s
}

// split enumerates the valuations of the further input bits vs and explores
// each; it reports false when there is nothing (sensible) to enumerate.
func (t *nafTab) split(st nafState, assign map[int]int8, vs []int, depth int) bool {
	var fresh []int
	for _, v := range vs {
		if _, done := assign[v]; !done && t.w.vars[v].Kind == VBit {
			fresh = append(fresh, v)
		}
	}
	if len(fresh) == 0 || len(fresh) > maxBranchVars || depth > 6 {
		return false
	}
	if n := len(assign) + len(fresh); n > t.maxVars {
		t.maxVars = n
	}
	for m := 0; m < 1<<len(fresh); m++ {
		a2 := make(map[int]int8, len(assign)+len(fresh))
		for k, v := range assign {
			a2[k] = v
		}
		for i, v := range fresh {
			a2[v] = int8(m >> i & 1)
		}
		t.explore(st, a2, depth+1)
	}
	return true
}

// explore runs the body under a partial assignment and refines the
// assignment wherever the outcome (a branch, the next state, the digit
// written) is not concrete.
func (t *nafTab) explore(st nafState, assign map[int]int8, depth int) {
	if t.stopped != "" {
		return
	}
	switch {
	case t.vbad+t.rbad >= nafMaxBad:
		t.stopped = fmt.Sprintf("tabulation abandoned at w=%d pos=%d after %d violating leaves: further failures suppressed", t.wd, st.pos, t.vbad+t.rbad)
		return
	case time.Now().After(t.until):
		t.stopped = fmt.Sprintf("undecided: budget exceeded: tabulation abandoned at w=%d pos=%d after %s of wall-clock time", t.wd, st.pos, nafTaskBudget)
		return
	}
	out := t.run(st, assign)
	if out.Branch != nil {
		t.w.assign = assign
		vs := t.w.branchVars(out.Branch.fr, out.Branch.in.Cond)
		t.w.assign = nil
		if !t.split(st, assign, vs, depth) {
			p, _ := t.w.where(out.Branch.in)
			t.leaves++
			var fresh []int
			for _, v := range vs {
				if _, done := assign[v]; !done && t.w.vars[v].Kind == VBit {
					fresh = append(fresh, v)
				}
			}
			t.bad(&t.rmsgs, st, assign, "undecided: the branch at %s depends on %d further input bits (more than the window; at most %d are enumerated)", p, len(fresh), maxBranchVars)
			// probes: the all-zero and the all-one valuation of those bits are
			// explored so that a genuine violation behind the branch is named
			// (a probe can only add violations, the state stays undecided)
			if len(fresh) > 0 && depth <= 6 && !t.probing {
				t.probing = true
				for _, b := range []int8{0, 1} {
					a2 := make(map[int]int8, len(assign)+len(fresh))
					for k, v := range assign {
						a2[k] = v
					}
					for _, v := range fresh {
						a2[v] = b
					}
					t.explore(st, a2, depth+1)
				}
				t.probing = false
			}
		}
		return
	}
	if out.AtHead {
		// the next state and the digit must be concrete: enumerate the bits they depend on
		var vs []int
		collect := func(v Value) {
			if x, ok := v.(*Int); ok {
				if _, isConc := x.conc(); !isConc {
					vs = append(vs, x.F().Subst(assign).Vars()...)
				}
			}
		}
		for _, v := range out.HeadVals {
			collect(v)
		}
		if after, _ := out.Mem.objs[t.naf].(*Agg); after != nil && len(after.E) == 256 && st.pos < 256 {
			if after.E[st.pos] != t.cells[st.pos] {
				collect(after.E[st.pos])
			}
		}
		if len(vs) > 0 && t.split(st, assign, vs, depth) {
			return
		}
	}
	t.leaves++
	switch {
	case out.Panics != nil:
		p, _ := t.w.where(out.Panics.in)
		t.bad(&t.rmsgs, st, assign, "the iteration panics at %s: %s", p, out.Panics.msg)
		return
	case out.Und != "":
		t.bad(&t.rmsgs, st, assign, "undecided: %s", out.Und)
		return
	case !out.AtHead:
		t.bad(&t.rmsgs, st, assign, "the loop is left although pos < 256 (the function returns from inside the loop body)")
		return
	}
	var nx [2]int64
	for i, phi := range []*ssa.Phi{t.pos, t.carry} {
		x, _ := out.HeadVals[t.phiIdx[i]].(*Int)
		n, ok := int64(0), false
		if x != nil {
			n, ok = x.Concrete()
		}
		if !ok {
			t.bad(&t.rmsgs, st, assign, "undecided: the next %s is not concrete", phi.Name())
			return
		}
		nx[i] = n
	}
	np, nc := int(nx[0]), int(nx[1])
	d := np - st.pos
	if d != 1 && d != t.wd {
		t.bad(&t.rmsgs, st, assign, "the position advances by %d, want 1 or %d", d, t.wd)
		if d <= 0 || d > 64 {
			return
		}
	}
	if nc != 0 && nc != 1 {
		t.bad(&t.rmsgs, st, assign, "the next carry is %d, want 0 or 1", nc)
		return
	}
	// writes to the digit array
	digit := int64(0)
	wrote := false
	after, _ := out.Mem.objs[t.naf].(*Agg)
	if after == nil || len(after.E) != 256 {
		t.bad(&t.rmsgs, st, assign, "the digit array is no longer tracked")
		return
	}
	for i := 0; i < 256; i++ {
		if after.E[i] == t.cells[i] {
			continue
		}
		if i != st.pos {
			t.bad(&t.rmsgs, st, assign, "naf[%d] is written, only naf[pos] may be", i)
			return
		}
		x, _ := after.E[i].(*Int)
		n, ok := int64(0), false
		if x != nil {
			n, ok = x.Concrete()
		}
		if !ok {
			t.bad(&t.rmsgs, st, assign, "undecided: the digit written at naf[%d] is not concrete", i)
			return
		}
		digit, wrote = n, true
	}
	if wrote {
		half := int64(1) << (t.wd - 1)
		if digit&1 == 0 || digit <= -half || digit >= half {
			t.bad(&t.rmsgs, st, assign, "the digit %d written at naf[%d] is not odd with |digit| < 2^%d", digit, st.pos, t.wd-1)
		}
		if d != t.wd {
			t.bad(&t.rmsgs, st, assign, "a non-zero digit is written but the position advances by %d, not by w = %d (non-zero digits could be closer than w)", d, t.wd)
		}
	}
	// value invariant: carry + sum_{j<d} b_{pos+j} 2^j == digit + carry' 2^d
	f := int64Form(int64(st.carry) - digit)
	f = f.Sub(intForm(new(big.Int).Lsh(big.NewInt(int64(nc)), uint(d))))
	for j := 0; j < d; j++ {
		if k := st.pos + j; k < 256 {
			f = f.Add(varForm(t.vars[k]).Shl(uint(j)))
		}
	}
	f = f.Subst(assign)
	if n, ok := f.ConstInt(); !ok || n.Sign() != 0 {
		lhs := "carry + sum_{j<d} b_{pos+j}*2^j"
		if !ok {
			v := t.w.Var(f.ts[0].v)
			t.bad(&t.vmsgs, st, assign, "digit %d, carry' %d, pos' %d do not depend on %s, which is consumed: %s == digit + carry'*2^%d fails", digit, nc, np, v.Name, lhs, d)
		} else {
			t.bad(&t.vmsgs, st, assign, "digit %d, carry' %d, pos' %d: %s - digit - carry'*2^%d = %s, want 0 (the value is not preserved)", digit, nc, np, lhs, d, n)
		}
	}
	// transition (for the termination claim under bit 255 = 0)
	if b, ok := assign[t.vars[255]]; !ok || b == 0 {
		m := t.trans[st]
		if m == nil {
			m = map[nafState]bool{}
			t.trans[st] = m
		}
		m[nafState{np, nc}] = true
	}
}
