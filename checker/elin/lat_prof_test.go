package elin

import (
	"os"
	"testing"

	"voicheck/load"
	"voicheck/report"
)

// TestLatticeDev is a development aid (VOI_ELIN_DEV=1).
func TestLatticeDev(t *testing.T) {
	if os.Getenv("VOI_ELIN_DEV") == "" {
		t.Skip("development aid; set VOI_ELIN_DEV=1")
	}
	os.Setenv("VOI_VERIF", t.TempDir())
	p, err := load.Load("purego", load.Opts{SSA: true})
	if err != nil {
		t.Fatal(err)
	}
	run := report.New("XLAT", "quick", 0)
	res := CheckLattice(run, p, "LAT")
	if res.Obligations == 0 || res.Discharged != res.Obligations {
		t.Errorf("obligations %d, discharged %d", res.Obligations, res.Discharged)
	}
}

// TestMulDev is a development aid (VOI_ELIN_DEV=1, VOI_CFG).
func TestMulDev(t *testing.T) {
	if os.Getenv("VOI_ELIN_DEV") == "" {
		t.Skip("development aid; set VOI_ELIN_DEV=1")
	}
	os.Setenv("VOI_VERIF", t.TempDir())
	cfg := os.Getenv("VOI_CFG")
	if cfg == "" {
		cfg = "purego"
	}
	p, err := load.Load(cfg, load.Opts{SSA: true})
	if err != nil {
		t.Fatal(err)
	}
	run := report.New("XMUL", "quick", 0)
	res := CheckMul(run, p, "MUL")
	t.Logf("functions %d obligations %d discharged %d", res.Functions, res.Obligations, res.Discharged)
	run.Finish()
}
