package elin

import (
	"fmt"
	"go/types"

	"golang.org/x/tools/go/ssa"

	"voicheck/load"
	"voicheck/report"
)

const scalarRel = "curve/scalar"

// scalarBackend is the limb representation of curve/scalar.unpackedScalar in
// the loaded configuration.
type scalarBackend struct {
	name     string
	typ      types.Type
	n        int
	w        uint // nominal limb width
	limbKind ikind
	widths   []uint // widths of the limbs of a 256-bit value (top limb narrower)
	offs     []uint
}

func detectScalar(p *load.Program) (*scalarBackend, error) {
	pk := p.Pkg(scalarRel)
	if pk == nil {
		return nil, fmt.Errorf("package %s not loaded", scalarRel)
	}
	tn, _ := pk.Types.Scope().Lookup("unpackedScalar").(*types.TypeName)
	if tn == nil {
		return nil, fmt.Errorf("type %s.unpackedScalar not found", scalarRel)
	}
	arr, ok := tn.Type().Underlying().(*types.Array)
	if !ok {
		return nil, fmt.Errorf("%s.unpackedScalar is not an array", scalarRel)
	}
	eb, _ := arr.Elem().Underlying().(*types.Basic)
	be := &scalarBackend{typ: tn.Type(), n: int(arr.Len())}
	switch {
	case eb != nil && eb.Kind() == types.Uint64 && be.n == 5:
		be.name, be.w, be.limbKind = "u64", 52, ikind{bits: 64}
	case eb != nil && eb.Kind() == types.Uint32 && be.n == 9:
		be.name, be.w, be.limbKind = "u32", 29, ikind{bits: 32}
	default:
		return nil, fmt.Errorf("unknown limb representation [%d]%v", be.n, arr.Elem())
	}
	for i := 0; i < be.n; i++ {
		be.offs = append(be.offs, uint(i)*be.w)
		wd := be.w
		if i == be.n-1 {
			wd = 256 - uint(i)*be.w
		}
		be.widths = append(be.widths, wd)
	}
	return be, nil
}

// CheckScalarPack decides obligations 5-7 (SetBytes, ToBytes, SetBytesWide
// of curve/scalar.unpackedScalar) in the loaded configuration.
func CheckScalarPack(run *report.Run, p *load.Program, rulePrefix string) *Result {
	c := newChecker(run, p, rulePrefix)
	be, err := detectScalar(p)
	if err != nil {
		c.plan(c.value, 1)
		c.fail(c.value, "-", scalarRel+".unpackedScalar", "anchor: "+err.Error())
		return c.res
	}
	c.scalarSetBytes(be)
	c.scalarToBytes(be)
	c.scalarSetBytesWide(be)
	return c.res
}

// --- 5. SetBytes -------------------------------------------------------------

func (c *checker) scalarSetBytes(be *scalarBackend) {
	name := scalarRel + ".(*unpackedScalar).SetBytes"
	c.plan(c.value, 1)
	c.plan(c.layout, 1)
	c.plan(c.rng, 1)
	fn := c.anchor(scalarRel, "(*unpackedScalar).SetBytes", c.value, c.layout, c.rng)
	if fn == nil {
		return
	}
	c.res.Functions++
	pos := c.p.Pos(fn.Pos())
	w := NewWorld(c.p)
	mem := newMemory()
	s := w.alloc(mem, be.typ, &Agg{w.outputCells("s", be.n, be.limbKind)})
	in, _, vars := w.inputBytes(mem, "in", 32, nil)
	out := w.Call(fn, []Value{s, in}, mem)

	fpos, rmsgs := runFailures(w, out)
	if m := returnsReceiver(out, s, -1); m != "" {
		rmsgs = append(rmsgs, m)
	}
	if fpos == "-" {
		fpos = pos
	}
	c.conclude(c.rng, fpos, name+": words", rmsgs)
	var limbs []*Int
	if v, ok := mem.load(s); ok {
		limbs, _ = intCells(v)
	}
	if !out.OK() || len(limbs) != be.n {
		_, why := out.Why(w)
		c.fail(c.value, pos, name+": value", "not decided: the interpretation did not complete ("+why+")")
		c.fail(c.layout, pos, name+": layout", "not decided: the interpretation did not complete ("+why+")")
		return
	}
	c.conclude(c.value, pos, name+": value",
		w.diffExact(weighted(limbs, be.offs), bitsForm(vars, 256), fmt.Sprintf("sum limb_i*2^(%d*i)", be.w), "limb", limbs, be.offs))
	c.conclude(c.layout, pos, name+": layout", w.layoutWithin(limbs, be.widths, "limb"))
	c.sample(map[string]any{
		"function": name, "radix": be.name,
		"identity": fmt.Sprintf("sum_i limb_i*2^(%d*i) == sum_{k<256} 2^k*bit_k(in) exactly (all 256 bits); limbs are layouts within %d bits (top limb %d)", be.w, be.w, be.widths[be.n-1]),
		"limbs":    describeCells(w, limbs),
		"stats":    w.StatList(),
	})
}

// --- 6. ToBytes --------------------------------------------------------------

func (c *checker) scalarToBytes(be *scalarBackend) {
	name := scalarRel + ".(*unpackedScalar).ToBytes"
	c.plan(c.value, 1)
	c.plan(c.layout, 1)
	c.plan(c.rng, 1)
	fn := c.anchor(scalarRel, "(*unpackedScalar).ToBytes", c.value, c.layout, c.rng)
	if fn == nil {
		return
	}
	c.res.Functions++
	pos := c.p.Pos(fn.Pos())
	w := NewWorld(c.p)
	mem := newMemory()
	// limb i is a layout of widths[i] fresh bits: every limb valuation below
	// 2^w whose value fits 256 bits
	limbs := make([]Value, be.n)
	vars := make([]int, 256)
	for i := range limbs {
		var l layout
		for j := uint(0); j < be.widths[i]; j++ {
			k := int(be.offs[i] + j)
			vars[k] = w.BitVar("s", k)
			l[j] = int32(vars[k] + 1)
		}
		limbs[i] = w.fromLayout(&l)
	}
	s := w.alloc(mem, be.typ, &Agg{limbs})
	outArr := w.alloc(mem, nil, &Agg{w.outputCells("out", 32, ikind{bits: 8})})
	out := w.Call(fn, []Value{s, &Slice{P: outArr, Off: 0, Len: 32, Cap: 32}}, mem)

	fpos, rmsgs := runFailures(w, out)
	if fpos == "-" {
		fpos = pos
	}
	c.conclude(c.rng, fpos, name+": words", rmsgs)
	var bytes []*Int
	if v, ok := mem.load(outArr); ok {
		bytes, _ = intCells(v)
	}
	if !out.OK() || len(bytes) != 32 {
		_, why := out.Why(w)
		c.fail(c.value, pos, name+": value", "not decided: the interpretation did not complete ("+why+")")
		c.fail(c.layout, pos, name+": layout", "not decided: the interpretation did not complete ("+why+")")
		return
	}
	offs8, w8 := make([]uint, 32), make([]uint, 32)
	for k := range offs8 {
		offs8[k], w8[k] = uint(8*k), 8
	}
	c.conclude(c.value, pos, name+": value",
		w.diffExact(weighted(bytes, offs8), bitsForm(vars, 256), "sum out[k]*2^(8k)", "out byte", bytes, offs8))
	c.conclude(c.layout, pos, name+": layout", w.layoutWithin(bytes, w8, "out byte"))
	c.sample(map[string]any{
		"function": name, "radix": be.name,
		"identity":   fmt.Sprintf("sum_k out[k]*2^(8k) == sum_i limb_i*2^(%d*i) for limbs modelled as layouts of fresh bits (limb i < 2^%d, top limb < 2^%d): the writer table agrees with the reader table of SetBytes", be.w, be.w, be.widths[be.n-1]),
		"out_bytes":  describeCells(w, []*Int{bytes[0], bytes[3], bytes[6], bytes[31]}),
		"assumption": fmt.Sprintf("input limbs below 2^%d and the value below 2^256 (the top limb below 2^%d)", be.w, be.widths[be.n-1]),
		"stats":      w.StatList(),
	})
}

// --- 7. SetBytesWide ---------------------------------------------------------

func (c *checker) scalarSetBytesWide(be *scalarBackend) {
	name := scalarRel + ".(*unpackedScalar).SetBytesWide"
	c.plan(c.value, 1)
	c.plan(c.layout, 1)
	c.plan(c.rng, 1)
	fn := c.anchor(scalarRel, "(*unpackedScalar).SetBytesWide", c.value, c.layout, c.rng)
	if fn == nil {
		return
	}
	pos := c.p.Pos(fn.Pos())
	mm := c.p.Func(scalarRel, "(*unpackedScalar).MontgomeryMul")
	var gR, gRR *ssa.Global
	if sp := c.p.SSAPkg(scalarRel); sp != nil {
		gR, _ = sp.Members["constR"].(*ssa.Global)
		gRR, _ = sp.Members["constRR"].(*ssa.Global)
	}
	if mm == nil || gR == nil || gRR == nil {
		for _, ru := range []*report.Rule{c.value, c.layout, c.rng} {
			c.fail(ru, pos, name, "anchor: (*unpackedScalar).MontgomeryMul, constR or constRR cannot be resolved")
		}
		return
	}
	c.res.Functions++
	w := NewWorld(c.p)
	mem := newMemory()
	s := w.alloc(mem, be.typ, &Agg{w.outputCells("s", be.n, be.limbKind)})
	in, _, vars := w.inputBytes(mem, "in", 64, nil)
	type mcall struct {
		recv, a, b *Ptr
		limbs      []*Int
	}
	var calls []mcall
	w.OnCall = func(cc *CallCtx) (Value, bool) {
		if cc.Callee != mm {
			return nil, false
		}
		if cc.Depth != 0 || len(cc.Args) != 3 {
			panic(undecided{cc.Call, "MontgomeryMul is reached through another function before the operands of SetBytesWide were inspected"})
		}
		var mc mcall
		mc.recv, _ = cc.Args[0].(*Ptr)
		mc.a, _ = cc.Args[1].(*Ptr)
		mc.b, _ = cc.Args[2].(*Ptr)
		if mc.a != nil {
			if v, ok := cc.Mem.load(mc.a); ok {
				mc.limbs, _ = intCells(v)
			}
		}
		calls = append(calls, mc)
		if len(calls) == 2 {
			panic(stopRun{}) // both operands have been inspected: stop before the arithmetic
		}
		// the product is not modelled: the receiver holds unknown limbs afterwards
		if mc.recv != nil {
			cells := make([]Value, be.n)
			for i := range cells {
				cells[i] = w.opaqueInt(be.limbKind.rng(), "limb of a Montgomery product")
			}
			cc.Mem.store(mc.recv, &Agg{cells})
		}
		return cc.Args[0], true
	}
	out := w.Call(fn, []Value{s, in}, mem)

	fpos, rmsgs := runFailures(w, out)
	if fpos == "-" {
		fpos = pos
	}
	if out.OK() && !out.Stopped {
		rmsgs = append(rmsgs, fmt.Sprintf("SetBytesWide returned after %d calls of MontgomeryMul from its own body, want 2 (lo*R and hi*R^2)", len(calls)))
	}
	c.conclude(c.rng, fpos, name+": words before the first Montgomery multiplication", rmsgs)
	if !out.OK() || len(calls) != 2 || len(calls[0].limbs) != be.n || len(calls[1].limbs) != be.n {
		_, why := out.Why(w)
		if why == "" {
			why = fmt.Sprintf("%d calls of MontgomeryMul with inspectable operands", len(calls))
		}
		c.fail(c.value, pos, name+": value", "not decided: the operands of the two Montgomery multiplications could not be obtained ("+why+")")
		c.fail(c.layout, pos, name+": layout", "not decided: the operands of the two Montgomery multiplications could not be obtained ("+why+")")
		return
	}
	// the two multiplications are independent: they are told apart by the
	// constant they multiply by, not by their order in the program
	isG := func(p *Ptr, g *ssa.Global) bool { return p != nil && p.G == g && len(p.Path) == 0 }
	lo, hi := calls[0], calls[1]
	if isG(calls[0].b, gRR) && isG(calls[1].b, gR) {
		lo, hi = calls[1], calls[0]
	}
	var lmsgs []string
	if !isG(lo.b, gR) {
		lmsgs = append(lmsgs, "neither Montgomery multiplication multiplies the low half by constR (lo*R/R = lo)")
	}
	if !isG(hi.b, gRR) {
		lmsgs = append(lmsgs, "neither Montgomery multiplication multiplies the high half by constRR (hi*R^2/R = hi*R)")
	}
	if lo.recv == nil || !lo.recv.same(lo.a) || hi.recv == nil || !hi.recv.same(hi.a) || lo.a.same(hi.a) {
		lmsgs = append(lmsgs, "the two Montgomery multiplications do not update their two distinct operands in place")
	}
	full := make([]uint, be.n)
	for i := range full {
		full[i] = be.w
	}
	for _, m := range w.layoutWithin(lo.limbs, full, "limb of lo") {
		lmsgs = append(lmsgs, m)
	}
	for _, m := range w.layoutWithin(hi.limbs, full, "limb of hi") {
		lmsgs = append(lmsgs, m)
	}
	if len(lmsgs) > 3 {
		lmsgs = lmsgs[:3]
	}
	c.conclude(c.layout, pos, name+": layout", lmsgs)
	split := uint(be.n) * be.w
	all := append(append([]*Int(nil), lo.limbs...), hi.limbs...)
	offs := make([]uint, 0, 2*be.n)
	for i := 0; i < be.n; i++ {
		offs = append(offs, be.offs[i])
	}
	for i := 0; i < be.n; i++ {
		offs = append(offs, split+be.offs[i])
	}
	c.conclude(c.value, pos, name+": value",
		w.diffExact(weighted(all, offs), bitsForm(vars, 512), fmt.Sprintf("sum lo_i*2^(%d*i) + 2^%d*sum hi_i*2^(%d*i)", be.w, split, be.w), "limb (lo then hi)", all, offs))
	c.sample(map[string]any{
		"function": name, "radix": be.name,
		"identity": fmt.Sprintf("at the two calls of MontgomeryMul made by the body, in either order (lo.MontgomeryMul(&lo,&constR), hi.MontgomeryMul(&hi,&constRR), told apart by the constant): sum_i lo_i*2^(%d*i) + 2^%d * sum_i hi_i*2^(%d*i) == sum_{k<512} 2^k*bit_k(in) exactly, every limb a layout within %d bits", be.w, split, be.w, be.w),
		"lo":       describeCells(w, lo.limbs),
		"hi":       describeCells(w, hi.limbs),
		"stats":    w.StatList(),
	})
}
