package elin

import (
	"math/big"
	"sort"
	"strconv"
	"strings"
)

// ---------------------------------------------------------------------------
// intervals of integers

// Itv is a closed interval of integers.
type Itv struct{ Lo, Hi *big.Int }

var (
	bigZero = big.NewInt(0)
	bigOne  = big.NewInt(1)
	ratZero = new(big.Rat)
	ratOne  = new(big.Rat).SetInt64(1)
)

func pow2(n uint) *big.Int { return new(big.Int).Lsh(bigOne, n) }

// ratPow2Tab[k] = 2^k as a shared, read-only rational.
var ratPow2Tab = func() []*big.Rat {
	t := make([]*big.Rat, 600)
	for i := range t {
		t[i] = new(big.Rat).SetInt(new(big.Int).Lsh(bigOne, uint(i)))
	}
	return t
}()

func ratPow2(k uint) *big.Rat {
	if int(k) < len(ratPow2Tab) {
		return ratPow2Tab[k]
	}
	return new(big.Rat).SetInt(pow2(k))
}
func pow2m1(n uint) *big.Int { return new(big.Int).Sub(pow2(n), bigOne) }

func itvOf(lo, hi int64) Itv           { return Itv{big.NewInt(lo), big.NewInt(hi)} }
func single(x *big.Int) Itv            { return Itv{x, x} }
func (i Itv) IsSingle() bool           { return i.Lo.Cmp(i.Hi) == 0 }
func (i Itv) Leq(j Itv) bool           { return i.Lo.Cmp(j.Lo) >= 0 && i.Hi.Cmp(j.Hi) <= 0 }
func (i Itv) NonNeg() bool             { return i.Lo.Sign() >= 0 }
func (i Itv) String() string           { return "[" + i.Lo.String() + ", " + i.Hi.String() + "]" }
func (i Itv) Add(j Itv) Itv            { return Itv{new(big.Int).Add(i.Lo, j.Lo), new(big.Int).Add(i.Hi, j.Hi)} }
func (i Itv) Sub(j Itv) Itv            { return Itv{new(big.Int).Sub(i.Lo, j.Hi), new(big.Int).Sub(i.Hi, j.Lo)} }
func (i Itv) Neg() Itv                 { return Itv{new(big.Int).Neg(i.Hi), new(big.Int).Neg(i.Lo)} }
func (i Itv) Contains(x *big.Int) bool { return i.Lo.Cmp(x) <= 0 && x.Cmp(i.Hi) <= 0 }

func (i Itv) Mul(j Itv) Itv {
	ps := []*big.Int{
		new(big.Int).Mul(i.Lo, j.Lo), new(big.Int).Mul(i.Lo, j.Hi),
		new(big.Int).Mul(i.Hi, j.Lo), new(big.Int).Mul(i.Hi, j.Hi),
	}
	lo, hi := ps[0], ps[0]
	for _, p := range ps[1:] {
		if p.Cmp(lo) < 0 {
			lo = p
		}
		if p.Cmp(hi) > 0 {
			hi = p
		}
	}
	return Itv{lo, hi}
}

// Meet intersects two intervals; an empty intersection (which can only arise
// from an internal inconsistency) returns the receiver.
func (i Itv) Meet(j Itv) Itv {
	lo, hi := i.Lo, i.Hi
	if j.Lo.Cmp(lo) > 0 {
		lo = j.Lo
	}
	if j.Hi.Cmp(hi) < 0 {
		hi = j.Hi
	}
	if lo.Cmp(hi) > 0 {
		return i
	}
	return Itv{lo, hi}
}

// floorDiv2 is floor(x / 2^k).
func floorDiv2(x *big.Int, k uint) *big.Int { return new(big.Int).Rsh(x, k) } // Rsh rounds toward -inf

func ratFloor(r *big.Rat) *big.Int {
	// Denom is positive; big.Int.Div is Euclidean, i.e. floor for positive divisors
	return new(big.Int).Div(r.Num(), r.Denom())
}

func ratCeil(r *big.Rat) *big.Int {
	n := new(big.Int).Neg(r.Num())
	n.Div(n, r.Denom())
	return n.Neg(n)
}

// ---------------------------------------------------------------------------
// affine forms

type term struct {
	v int
	c *big.Rat
}

// Form is an affine form c + sum ts[i].c * var(ts[i].v); terms are sorted by
// variable and have non-zero coefficients.  Forms are immutable.
type Form struct {
	c   *big.Rat
	ts  []term
	key string
}

func constForm(r *big.Rat) *Form { return &Form{c: r} }
func intForm(n *big.Int) *Form   { return &Form{c: new(big.Rat).SetInt(n)} }
func int64Form(n int64) *Form    { return &Form{c: new(big.Rat).SetInt64(n)} }
func varForm(v int) *Form        { return &Form{c: ratZero, ts: []term{{v, ratOne}}} }

func (f *Form) IsConst() bool { return len(f.ts) == 0 }

// ConstInt returns the value of a constant integer form.
func (f *Form) ConstInt() (*big.Int, bool) {
	if len(f.ts) != 0 || !f.c.IsInt() {
		return nil, false
	}
	return f.c.Num(), true
}

// Coef returns the coefficient of variable v (zero if absent).
func (f *Form) Coef(v int) *big.Rat {
	i := sort.Search(len(f.ts), func(i int) bool { return f.ts[i].v >= v })
	if i < len(f.ts) && f.ts[i].v == v {
		return f.ts[i].c
	}
	return ratZero
}

// Const returns the constant term.
func (f *Form) Const() *big.Rat { return f.c }

// Vars returns the variables of the form, ascending.
func (f *Form) Vars() []int {
	out := make([]int, len(f.ts))
	for i, t := range f.ts {
		out[i] = t.v
	}
	return out
}

// ratMul and ratAdd avoid the gcd normalisation of big.Rat for integers (the
// common case).
func ratMul(a, b *big.Rat) *big.Rat {
	if a.IsInt() && b.IsInt() {
		return new(big.Rat).SetInt(new(big.Int).Mul(a.Num(), b.Num()))
	}
	return new(big.Rat).Mul(a, b)
}

func ratAdd(a, b *big.Rat) *big.Rat {
	if a.IsInt() && b.IsInt() {
		return new(big.Rat).SetInt(new(big.Int).Add(a.Num(), b.Num()))
	}
	return new(big.Rat).Add(a, b)
}

// combine returns f + s*g.
func (f *Form) combine(g *Form, s *big.Rat) *Form {
	if s.Sign() == 0 {
		return f
	}
	unit := s.Cmp(ratOne) == 0
	mul := func(c *big.Rat) *big.Rat {
		if unit {
			return c
		}
		return ratMul(c, s)
	}
	out := &Form{c: ratAdd(f.c, mul(g.c))}
	if len(g.ts) == 0 {
		out.ts = f.ts
		return out
	}
	ts := make([]term, 0, len(f.ts)+len(g.ts))
	i, j := 0, 0
	for i < len(f.ts) || j < len(g.ts) {
		switch {
		case j >= len(g.ts) || (i < len(f.ts) && f.ts[i].v < g.ts[j].v):
			ts = append(ts, f.ts[i])
			i++
		case i >= len(f.ts) || g.ts[j].v < f.ts[i].v:
			ts = append(ts, term{g.ts[j].v, mul(g.ts[j].c)})
			j++
		default:
			c := ratAdd(f.ts[i].c, mul(g.ts[j].c))
			if c.Sign() != 0 {
				ts = append(ts, term{f.ts[i].v, c})
			}
			i++
			j++
		}
	}
	out.ts = ts
	return out
}

var ratMinusOne = new(big.Rat).SetInt64(-1)

func (f *Form) Add(g *Form) *Form { return f.combine(g, ratOne) }
func (f *Form) Sub(g *Form) *Form { return f.combine(g, ratMinusOne) }

// Scale returns s*f.
func (f *Form) Scale(s *big.Rat) *Form {
	if s.Sign() == 0 {
		return constForm(ratZero)
	}
	if s.Cmp(ratOne) == 0 {
		return f
	}
	out := &Form{c: ratMul(f.c, s), ts: make([]term, len(f.ts))}
	for i, t := range f.ts {
		out.ts[i] = term{t.v, ratMul(t.c, s)}
	}
	return out
}

// ScaleInt returns n*f.
func (f *Form) ScaleInt(n *big.Int) *Form { return f.Scale(new(big.Rat).SetInt(n)) }

// Shl returns 2^k * f.
func (f *Form) Shl(k uint) *Form { return f.Scale(ratPow2(k)) }

// Equal reports syntactic (hence semantic) equality.
func (f *Form) Equal(g *Form) bool {
	if f.c.Cmp(g.c) != 0 || len(f.ts) != len(g.ts) {
		return false
	}
	for i := range f.ts {
		if f.ts[i].v != g.ts[i].v || f.ts[i].c.Cmp(g.ts[i].c) != 0 {
			return false
		}
	}
	return true
}

// Key is a canonical string of the form (memoisation of the division identity).
func (f *Form) Key() string {
	if f.key != "" {
		return f.key
	}
	var sb strings.Builder
	sb.WriteString(f.c.RatString())
	for _, t := range f.ts {
		sb.WriteByte(';')
		sb.WriteString(strconv.Itoa(t.v))
		sb.WriteByte('*')
		sb.WriteString(t.c.RatString())
	}
	f.key = sb.String()
	return f.key
}

// Subst replaces the variables in assign (0/1 values) by constants.
func (f *Form) Subst(assign map[int]int8) *Form {
	hit := false
	for _, t := range f.ts {
		if _, ok := assign[t.v]; ok {
			hit = true
			break
		}
	}
	if !hit {
		return f
	}
	out := &Form{c: f.c}
	c := new(big.Rat).Set(f.c)
	for _, t := range f.ts {
		if b, ok := assign[t.v]; ok {
			if b != 0 {
				c.Add(c, t.c)
			}
			continue
		}
		out.ts = append(out.ts, t)
	}
	out.c = c
	return out
}

// ---------------------------------------------------------------------------
// layouts

// layout describes a word whose bits are known individually: position i
// holds 0 (cell 0), 1 (cell -1) or the 0/1 variable v (cell v+1).
type layout [64]int32

const layOne = int32(-1)

func (l *layout) isZero() bool {
	for _, c := range l {
		if c != 0 {
			return false
		}
	}
	return true
}

// top returns the number of positions in use (index of the highest non-zero
// position + 1).
func (l *layout) top() int {
	for i := 63; i >= 0; i-- {
		if l[i] != 0 {
			return i + 1
		}
	}
	return 0
}

// form converts a layout back to an affine form.
func (l *layout) form() *Form {
	c := new(big.Int)
	var ts []term
	for i, cell := range l {
		switch {
		case cell == 0:
		case cell == layOne:
			c.SetBit(c, i, 1)
		default:
			ts = append(ts, term{int(cell - 1), ratPow2(uint(i))})
		}
	}
	sort.Slice(ts, func(i, j int) bool { return ts[i].v < ts[j].v })
	return &Form{c: new(big.Rat).SetInt(c), ts: ts}
}

// itv is the exact range of a layout.
func (l *layout) itv() Itv {
	lo, hi := new(big.Int), new(big.Int)
	for i, cell := range l {
		switch {
		case cell == 0:
		case cell == layOne:
			lo.SetBit(lo, i, 1)
			hi.SetBit(hi, i, 1)
		default:
			hi.SetBit(hi, i, 1)
		}
	}
	return Itv{lo, hi}
}

// log2Exact returns k if n == 2^k.
func log2Exact(n *big.Int) (uint, bool) {
	if n.Sign() <= 0 {
		return 0, false
	}
	k := n.BitLen() - 1
	if n.TrailingZeroBits() != uint(k) {
		return 0, false
	}
	return uint(k), true
}
