package elin

import (
	"fmt"
	"go/constant"
	"go/token"
	"go/types"
	"math/big"
	"time"

	"golang.org/x/tools/go/ssa"

	"voicheck/load"
)

// undecided is the panic payload of an interpretation that cannot continue.
type undecided struct {
	in  ssa.Instruction
	msg string
}

// branchUndecided: a branch whose condition is not concrete.
type branchUndecided struct {
	in   *ssa.If
	fr   *frame
	cond Value
}

// pathPanics: the followed path reaches a panic (explicit, or a failed
// bounds check).
type pathPanics struct {
	in  ssa.Instruction
	msg string
}

// stopRun is raised by a hook that has seen enough.
type stopRun struct{}

type frame struct {
	fn    *ssa.Function
	env   map[ssa.Value]Value
	base  map[ssa.Value]Value // read-only values defined before a tabulated loop (naf.go)
	depth int

	globals map[*ssa.Global]*Ptr // initialiser evaluation: the variable being initialised is a local object
}

func (fr *frame) get(v ssa.Value) (Value, bool) {
	if x, ok := fr.env[v]; ok {
		return x, true
	}
	if fr.base != nil {
		x, ok := fr.base[v]
		return x, ok
	}
	return nil, false
}

// Outcome is the result of interpreting an entry point.
type Outcome struct {
	Ret     Value
	Mem     *Memory
	Stopped bool // a hook stopped the run

	// exactly one of the following is set when the run did not complete
	Und    string // "pos in fn: reason"
	UndPos string
	Branch *branchUndecided
	Panics *pathPanics

	// the run arrived at World.stopAt
	AtHead   bool
	HeadVals []Value
	HeadFrom *ssa.BasicBlock
	Frame    *frame
}

// MaxForks bounds the undecided branches followed both ways by CallAll.
const MaxForks = 8

// CallAll interprets fn once for every combination of outcomes of its
// undecided branches (each such branch is followed both ways, without
// refining the state: an over-approximation of the feasible paths).  build
// creates a fresh world and arguments for every run.
func CallAll(fn *ssa.Function, build func() (*World, []Value, *Memory)) ([]*World, []*Outcome) {
	var ws []*World
	var outs []*Outcome
	var rec func(script []bool)
	rec = func(script []bool) {
		w, args, mem := build()
		w.forkScript, w.forkPos = append([]bool{}, script...), 0
		out := w.Call(fn, args, mem)
		if out.Branch != nil && len(script) < MaxForks && len(outs) < 1<<MaxForks {
			rec(append(append([]bool{}, script...), true))
			rec(append(append([]bool{}, script...), false))
			return
		}
		ws, outs = append(ws, w), append(outs, out)
	}
	rec(nil)
	return ws, outs
}

// OK reports whether the run completed (returned or was stopped by a hook).
func (o *Outcome) OK() bool { return o.Und == "" && o.Branch == nil && o.Panics == nil }

// Why renders the reason of an incomplete run.
func (o *Outcome) Why(w *World) (pos, msg string) {
	switch {
	case o.Branch != nil:
		p, fn := w.where(o.Branch.in)
		return p, fmt.Sprintf("undecided: the branch at %s in %s depends on the data (condition is not concrete)", p, fn)
	case o.Panics != nil:
		p, fn := w.where(o.Panics.in)
		return p, fmt.Sprintf("the followed path panics at %s in %s: %s", p, fn, o.Panics.msg)
	case o.Und != "":
		return o.UndPos, "undecided: " + o.Und
	}
	return "-", ""
}

// Call interprets fn on the given arguments.
func (w *World) Call(fn *ssa.Function, args []Value, mem *Memory) *Outcome {
	fr := &frame{fn: fn, env: make(map[ssa.Value]Value, 64)}
	for i, p := range fn.Params {
		if i < len(args) {
			fr.env[p] = args[i]
		}
	}
	if len(fn.Blocks) == 0 {
		if sym := w.asmFor(fn); sym != nil {
			w.beginRun()
			return w.guard(fr, mem, func() (Value, *Outcome) { w.execAsm(fn, sym, args, mem); return nil, nil })
		}
		return &Outcome{Und: "function " + load.FuncName(fn) + " has no Go body", UndPos: w.P.Pos(fn.Pos())}
	}
	w.beginRun()
	return w.guard(fr, mem, func() (Value, *Outcome) { return w.exec(fr, mem, fn.Blocks[0], nil, false) })
}

// guard runs f and converts the interpreter's panics into an Outcome.
func (w *World) guard(fr *frame, mem *Memory, f func() (Value, *Outcome)) (out *Outcome) {
	defer func() {
		if e := recover(); e != nil {
			switch x := e.(type) {
			case undecided:
				pos, fn := w.where(x.in)
				out = &Outcome{Mem: mem, Und: fmt.Sprintf("%s in %s: %s", pos, fn, x.msg), UndPos: pos}
			case *branchUndecided:
				out = &Outcome{Mem: mem, Branch: x}
			case *pathPanics:
				out = &Outcome{Mem: mem, Panics: x}
			case stopRun:
				out = &Outcome{Mem: mem, Stopped: true}
			case asmUndecided:
				out = &Outcome{Mem: mem, Und: fmt.Sprintf("%s in %s: %s", x.pos, x.fn, x.msg), UndPos: x.pos}
			default:
				panic(e)
			}
		}
	}()
	ret, head := f()
	if head != nil {
		head.Mem = mem
		return head
	}
	return &Outcome{Ret: ret, Mem: mem, Frame: fr}
}

// ---------------------------------------------------------------------------
// operands

// val fetches an operand for a use that is not exact modulo 2^w: a pending
// wrap-around of the word (Int.pend) is a defect.
func (w *World) val(fr *frame, v ssa.Value) Value {
	x := w.valRaw(fr, v)
	if xi, ok := x.(*Int); ok && xi.pend != nil {
		return w.settle(xi)
	}
	return x
}

// valRaw fetches an operand without settling a pending wrap-around (for +,
// -, * and <<, which continue with the unwrapped value).
func (w *World) valRaw(fr *frame, v ssa.Value) Value {
	switch v := v.(type) {
	case *ssa.Const:
		return w.constValue(v)
	case *ssa.Global:
		if p, ok := fr.globals[v]; ok {
			return p
		}
		return &Ptr{G: v}
	case *ssa.Function:
		return &Fn{Func: v}
	case *ssa.Builtin:
		return &Opaque{Why: "builtin"}
	}
	x, ok := fr.get(v)
	if !ok || x == nil {
		panic(undecided{nil, fmt.Sprintf("value %s of %s has no abstract value", v.Name(), load.FuncName(fr.fn))})
	}
	if w.assign != nil {
		if xi, ok := x.(*Int); ok && len(xi.F().ts) > 0 {
			if f := xi.F().Subst(w.assign); f != xi.F() {
				return w.mkInt(f, &xi.R)
			}
		}
	}
	return x
}

func (w *World) intVal(fr *frame, in ssa.Instruction, v ssa.Value) *Int {
	x, ok := w.val(fr, v).(*Int)
	if !ok {
		panic(undecided{in, fmt.Sprintf("operand %s is not an integer in the abstract domain (%s)", v.Name(), w.val(fr, v).kind())})
	}
	return x
}

func (w *World) constValue(c *ssa.Const) Value {
	if c.Value == nil {
		return zeroValue(c.Type())
	}
	switch c.Value.Kind() {
	case constant.Bool:
		return boolInt(constant.BoolVal(c.Value))
	case constant.Int:
		if _, ok := w.kindOf(c.Type()); !ok {
			return &Opaque{Why: "non-integer constant"}
		}
		switch x := constant.Val(c.Value).(type) {
		case int64:
			return w.concInt(big.NewInt(x))
		case *big.Int:
			return w.concInt(new(big.Int).Set(x))
		}
	case constant.String:
		return &Opaque{NonNil: true, Why: "string"}
	}
	return &Opaque{Why: "constant"}
}

func (w *World) concreteInt(fr *frame, in ssa.Instruction, v ssa.Value, what string) int {
	x, ok := w.val(fr, v).(*Int)
	if ok {
		if n, ok := x.Concrete(); ok {
			return int(n)
		}
	}
	panic(undecided{in, what + " is not concrete"})
}

// ---------------------------------------------------------------------------
// execution

func (w *World) phiVals(fr *frame, b, pred *ssa.BasicBlock) ([]*ssa.Phi, []Value) {
	edge := -1
	for i, p := range b.Preds {
		if p == pred {
			edge = i
			break
		}
	}
	var phis []*ssa.Phi
	var vals []Value
	for _, in := range b.Instrs {
		phi, ok := in.(*ssa.Phi)
		if !ok {
			break
		}
		if edge < 0 {
			panic(undecided{phi, "phi entered through an unknown edge"})
		}
		phis = append(phis, phi)
		vals = append(vals, w.val(fr, phi.Edges[edge]))
	}
	return phis, vals
}

// exec runs from block b (entered from pred; skipPhis: the phis of b are
// already bound) until the function returns.
func (w *World) exec(fr *frame, mem *Memory, b, pred *ssa.BasicBlock, skipPhis bool) (Value, *Outcome) {
	for {
		if !skipPhis && pred != nil {
			phis, vals := w.phiVals(fr, b, pred)
			if w.OnPhis != nil && fr.depth == 0 && len(phis) > 0 {
				vals = w.OnPhis(b, pred, phis, vals)
			}
			for i, phi := range phis {
				fr.env[phi] = vals[i]
			}
		}
		skipPhis = false
		var next *ssa.BasicBlock
	instrs:
		for _, instr := range b.Instrs {
			w.steps++
			if w.steps > w.maxSteps {
				panic(undecided{instr, fmt.Sprintf("budget exceeded: more than %d instructions interpreted (loop without a concrete trip count, or non-linear code)", w.maxSteps)})
			}
			if w.steps&255 == 0 && time.Now().After(w.deadline) {
				panic(undecided{instr, fmt.Sprintf("budget exceeded: more than %s of wall-clock time in one run", MaxRunTime)})
			}
			switch in := instr.(type) {
			case *ssa.Phi:
			case *ssa.Jump:
				next = b.Succs[0]
				break instrs
			case *ssa.If:
				c := w.val(fr, in.Cond)
				ci, _ := c.(*Int)
				n, ok := int64(0), false
				if ci != nil {
					n, ok = ci.Concrete()
				}
				if !ok && w.forkScript != nil && w.forkPos < len(w.forkScript) {
					// a driver explores both outcomes of this undecided branch
					n, ok = 0, true
					if w.forkScript[w.forkPos] {
						n = 1
					}
					w.forkPos++
				}
				if !ok {
					panic(&branchUndecided{in: in, fr: fr, cond: c})
				}
				if n != 0 {
					next = b.Succs[0]
				} else {
					next = b.Succs[1]
				}
				break instrs
			case *ssa.Return:
				switch len(in.Results) {
				case 0:
					return nil, nil
				case 1:
					return w.val(fr, in.Results[0]), nil
				}
				el := make([]Value, len(in.Results))
				for j, r := range in.Results {
					el[j] = w.val(fr, r)
				}
				return &Tuple{el}, nil
			case *ssa.Panic:
				panic(&pathPanics{in: in, msg: "explicit panic"})
			default:
				w.step(fr, mem, instr)
			}
		}
		if next == nil {
			panic(undecided{nil, fmt.Sprintf("block %d of %s has no terminator", b.Index, load.FuncName(fr.fn))})
		}
		if w.stopAt != nil && next == w.stopAt && fr.depth == 0 {
			_, vals := w.phiVals(fr, next, b)
			return nil, &Outcome{AtHead: true, HeadVals: vals, HeadFrom: b, Frame: fr}
		}
		pred, b = b, next
	}
}

func (w *World) step(fr *frame, mem *Memory, instr ssa.Instruction) {
	w.cur = instr
	switch in := instr.(type) {
	case *ssa.DebugRef:
	case *ssa.Alloc:
		t := in.Type().(*types.Pointer).Elem()
		fr.env[in] = w.alloc(mem, t, zeroValue(t))
	case *ssa.BinOp:
		fr.env[in] = w.doBinOp(fr, in)
	case *ssa.UnOp:
		switch in.Op {
		case token.MUL:
			fr.env[in] = w.doLoad(fr, mem, in)
		case token.ARROW:
			panic(undecided{in, "channel receive"})
		default:
			fr.env[in] = w.unop(in, in.Op, w.intVal(fr, in, in.X), in.Type())
		}
	case *ssa.Convert:
		if _, ok := w.kindOf(in.Type()); ok {
			if _, ok := w.kindOf(in.X.Type()); ok {
				fr.env[in] = w.convert(in, w.intVal(fr, in, in.X), in.X.Type(), in.Type())
				return
			}
		}
		panic(undecided{in, "conversion " + in.X.Type().String() + " -> " + in.Type().String() + " is not modelled"})
	case *ssa.ChangeType:
		fr.env[in] = w.val(fr, in.X)
	case *ssa.ChangeInterface:
		fr.env[in] = w.val(fr, in.X)
	case *ssa.MakeInterface:
		fr.env[in] = &Opaque{NonNil: true, Why: "interface value"}
	case *ssa.MakeClosure:
		bind := make([]Value, len(in.Bindings))
		for i, b := range in.Bindings {
			bind[i] = w.val(fr, b)
		}
		fr.env[in] = &Fn{Func: in.Fn.(*ssa.Function), Bind: bind}
	case *ssa.Store:
		p, ok := w.val(fr, in.Addr).(*Ptr)
		if !ok {
			panic(undecided{in, "store through a pointer that is not tracked"})
		}
		if !mem.store(p, w.val(fr, in.Val)) {
			panic(undecided{in, "store to " + p.String() + " (location not modelled)"})
		}
	case *ssa.FieldAddr:
		p, ok := w.val(fr, in.X).(*Ptr)
		if !ok {
			if _, isNil := w.val(fr, in.X).(Nil); isNil {
				panic(&pathPanics{in: in, msg: "nil pointer dereference"})
			}
			panic(undecided{in, "field address of a pointer that is not tracked"})
		}
		fr.env[in] = p.sub(in.Field)
	case *ssa.Field:
		agg, ok := w.val(fr, in.X).(*Agg)
		if !ok || in.Field >= len(agg.E) {
			panic(undecided{in, "field of a value that is not tracked"})
		}
		fr.env[in] = agg.E[in.Field]
	case *ssa.IndexAddr:
		idx := w.concreteInt(fr, in, in.Index, "index")
		switch x := w.val(fr, in.X).(type) {
		case *Slice:
			if idx < 0 || idx >= x.Len {
				panic(&pathPanics{in: in, msg: fmt.Sprintf("index %d out of range [0,%d)", idx, x.Len)})
			}
			fr.env[in] = x.P.sub(x.Off + idx)
		case *Ptr:
			n := int64(-1)
			if pt, ok := in.X.Type().Underlying().(*types.Pointer); ok {
				if at, ok := pt.Elem().Underlying().(*types.Array); ok {
					n = at.Len()
				}
			}
			if idx < 0 || int64(idx) >= n {
				panic(&pathPanics{in: in, msg: fmt.Sprintf("index %d out of range [0,%d)", idx, n)})
			}
			fr.env[in] = x.sub(idx)
		case Nil:
			panic(&pathPanics{in: in, msg: "index of a nil slice"})
		default:
			panic(undecided{in, "index address of a value that is not tracked"})
		}
	case *ssa.Index:
		idx := w.concreteInt(fr, in, in.Index, "index")
		agg, ok := w.val(fr, in.X).(*Agg)
		if !ok {
			panic(undecided{in, "index of a value that is not tracked"})
		}
		if idx < 0 || idx >= len(agg.E) {
			panic(&pathPanics{in: in, msg: fmt.Sprintf("index %d out of range [0,%d)", idx, len(agg.E))})
		}
		fr.env[in] = agg.E[idx]
	case *ssa.Slice:
		fr.env[in] = w.doSlice(fr, in)
	case *ssa.Extract:
		t, ok := w.val(fr, in.Tuple).(*Tuple)
		if !ok || in.Index >= len(t.E) {
			panic(undecided{in, "extract from a value that is not a tuple"})
		}
		fr.env[in] = t.E[in.Index]
	case *ssa.Call:
		fr.env[in] = w.doCall(fr, mem, in)
	default:
		panic(undecided{instr, fmt.Sprintf("unsupported instruction %T", instr)})
	}
}

func (w *World) alloc(mem *Memory, t types.Type, v Value) *Ptr {
	w.nextObj++
	mem.objs[w.nextObj] = v
	mem.types[w.nextObj] = t
	return &Ptr{Obj: w.nextObj}
}

func (w *World) doLoad(fr *frame, mem *Memory, in *ssa.UnOp) Value {
	switch p := w.val(fr, in.X).(type) {
	case *Ptr:
		if p.G != nil {
			if w.Globals && p.G.Pkg != nil && load.IsModule(p.G.Pkg.Pkg) {
				v := w.globalInit(in, p.G)
				for _, i := range p.Path {
					agg, ok := v.(*Agg)
					if !ok || i < 0 || i >= len(agg.E) {
						panic(undecided{in, "load from " + p.String() + " (location not modelled)"})
					}
					v = agg.E[i]
				}
				return v
			}
			// contents of package-level variables are not modelled
			return &Opaque{NonNil: true, Why: "contents of package-level variable " + p.G.Name()}
		}
		v, ok := mem.load(p)
		if !ok {
			panic(undecided{in, "load from " + p.String() + " (location not modelled)"})
		}
		if w.assign != nil {
			if xi, ok := v.(*Int); ok && len(xi.F().ts) > 0 {
				if f := xi.F().Subst(w.assign); f != xi.F() {
					return w.mkInt(f, &xi.R)
				}
			}
		}
		return v
	case Nil:
		panic(&pathPanics{in: in, msg: "nil pointer dereference"})
	}
	panic(undecided{in, "load through a pointer that is not tracked"})
}

func (w *World) doSlice(fr *frame, in *ssa.Slice) Value {
	lo, hi, mx := 0, -1, -1
	if in.Low != nil {
		lo = w.concreteInt(fr, in, in.Low, "slice bound")
	}
	if in.High != nil {
		hi = w.concreteInt(fr, in, in.High, "slice bound")
	}
	if in.Max != nil {
		mx = w.concreteInt(fr, in, in.Max, "slice bound")
	}
	var base *Ptr
	off, ln, cp := 0, 0, 0
	switch x := w.val(fr, in.X).(type) {
	case *Slice:
		base, off, ln, cp = x.P, x.Off, x.Len, x.Cap
		if hi < 0 {
			hi = ln
		}
	case *Ptr:
		at, ok := in.X.Type().Underlying().(*types.Pointer).Elem().Underlying().(*types.Array)
		if !ok {
			panic(undecided{in, "slice of a pointer to a non-array"})
		}
		base, ln, cp = x, int(at.Len()), int(at.Len())
		if hi < 0 {
			hi = ln
		}
	case Nil:
		if lo == 0 && hi <= 0 {
			return Nil{}
		}
		panic(&pathPanics{in: in, msg: "slice of nil out of range"})
	default:
		panic(undecided{in, "slice of a value that is not tracked"})
	}
	if mx < 0 {
		mx = cp
	}
	if lo < 0 || lo > hi || hi > mx || mx > cp {
		panic(&pathPanics{in: in, msg: fmt.Sprintf("slice bounds out of range [%d:%d:%d] with capacity %d", lo, hi, mx, cp)})
	}
	return &Slice{P: base, Off: off + lo, Len: hi - lo, Cap: mx - lo}
}

func (w *World) doBinOp(fr *frame, in *ssa.BinOp) Value {
	var x, y Value
	switch in.Op {
	case token.ADD, token.SUB, token.MUL, token.SHL:
		x, y = w.valRaw(fr, in.X), w.valRaw(fr, in.Y)
	default:
		x, y = w.val(fr, in.X), w.val(fr, in.Y)
	}
	xi, okx := x.(*Int)
	yi, oky := y.(*Int)
	if okx && oky {
		return w.binop(in, in.Op, xi, yi, in.X.Type(), in.Type())
	}
	if in.Op == token.EQL || in.Op == token.NEQ {
		eq, ok := refEqual(x, y)
		if !ok {
			panic(undecided{in, "comparison of " + x.kind() + " and " + y.kind()})
		}
		return boolInt(eq == (in.Op == token.EQL))
	}
	panic(undecided{in, "binary operation " + in.Op.String() + " on " + x.kind() + " and " + y.kind()})
}

// refEqual compares reference-like values.
func refEqual(x, y Value) (eq, ok bool) {
	_, xn := x.(Nil)
	_, yn := y.(Nil)
	switch {
	case xn && yn:
		return true, true
	case xn || yn:
		o := y
		if yn {
			o = x
		}
		switch o := o.(type) {
		case *Ptr, *Slice, *Fn:
			return false, true
		case *Opaque:
			if o.NonNil {
				return false, true
			}
		}
		return false, false
	}
	if p, ok1 := x.(*Ptr); ok1 {
		if q, ok2 := y.(*Ptr); ok2 {
			return p.same(q), true
		}
	}
	return false, false
}

// globalInit evaluates the initialiser of a package-level variable: the
// slice of the package initialiser that computes the values stored to it
// (directly or through element / field addresses).
func (w *World) globalInit(at ssa.Instruction, g *ssa.Global) Value {
	if v, ok := w.globalVal[g]; ok {
		return v
	}
	init := g.Pkg.Func("init")
	rootOf := func(a ssa.Value) ssa.Value {
		for {
			switch x := a.(type) {
			case *ssa.IndexAddr:
				a = x.X
			case *ssa.FieldAddr:
				a = x.X
			default:
				return a
			}
		}
	}
	need := map[ssa.Instruction]bool{}
	var want func(x ssa.Value)
	var addr func(a ssa.Instruction)
	addr = func(a ssa.Instruction) { // an address derived from a needed allocation
		av, _ := a.(ssa.Value)
		if av == nil || av.Referrers() == nil {
			return
		}
		for _, ref := range *av.Referrers() {
			switch r := ref.(type) {
			case *ssa.Store:
				if r.Addr == av && !need[r] {
					need[r] = true
					want(r.Val)
				}
			case *ssa.IndexAddr, *ssa.FieldAddr:
				if !need[ref] {
					need[ref] = true
					addr(ref)
				}
			}
		}
	}
	want = func(x ssa.Value) {
		in, ok := x.(ssa.Instruction)
		if !ok || need[in] {
			return
		}
		need[in] = true
		var ops []*ssa.Value
		for _, op := range in.Operands(ops) {
			if *op != nil {
				want(*op)
			}
		}
		if _, isAlloc := x.(*ssa.Alloc); isAlloc {
			addr(in)
		}
	}
	stores := 0
	var blocks []*ssa.BasicBlock
	if init != nil {
		for _, b := range init.Blocks {
			used := false
			for _, in := range b.Instrs {
				if st, ok := in.(*ssa.Store); ok && rootOf(st.Addr) == ssa.Value(g) {
					stores++
					used = true
					need[st] = true
					want(st.Val)
					want(st.Addr)
				}
			}
			if used {
				blocks = append(blocks, b)
			}
		}
	}
	t := g.Type().(*types.Pointer).Elem()
	v := zeroValue(t)
	if stores > 0 {
		if len(blocks) != 1 {
			panic(undecided{at, "package-level variable " + g.Name() + " is initialised in more than one block of the package initialiser"})
		}
		mem := newMemory()
		fr := &frame{fn: init, env: map[ssa.Value]Value{}, depth: 1, globals: map[*ssa.Global]*Ptr{g: w.alloc(mem, t, v)}}
		saveCall, saveAfter, savePhis, saveCur, saveGlobals := w.OnCall, w.AfterCall, w.OnPhis, w.cur, w.Globals
		w.OnCall, w.AfterCall, w.OnPhis, w.Globals = nil, nil, nil, false
		for _, in := range blocks[0].Instrs {
			if need[in] {
				w.step(fr, mem, in)
			}
		}
		v = mem.objs[fr.globals[g].Obj]
		w.OnCall, w.AfterCall, w.OnPhis, w.cur, w.Globals = saveCall, saveAfter, savePhis, saveCur, saveGlobals
		w.Stats["package-level variables evaluated from their initialiser"]++
	}
	if w.globalVal == nil {
		w.globalVal = map[*ssa.Global]Value{}
	}
	w.globalVal[g] = v
	return v
}

// ---------------------------------------------------------------------------
// calls

func (w *World) doCall(fr *frame, mem *Memory, call *ssa.Call) Value {
	cc := &call.Call
	if cc.IsInvoke() {
		panic(undecided{call, "dynamic (interface) call"})
	}
	var fn *ssa.Function
	var bind []Value
	switch callee := cc.Value.(type) {
	case *ssa.Builtin:
		return w.builtin(fr, mem, call, callee)
	case *ssa.Function:
		fn = callee
	default:
		f, ok := w.val(fr, cc.Value).(*Fn)
		if !ok {
			panic(undecided{call, "call of a function value that is not tracked"})
		}
		fn, bind = f.Func, f.Bind
	}
	args := make([]Value, len(cc.Args))
	for i, a := range cc.Args {
		args[i] = w.val(fr, a)
	}
	ctx := &CallCtx{Depth: fr.depth, Call: call, Callee: fn, Args: args, Mem: mem}
	if w.OnCall != nil {
		if ret, handled := w.OnCall(ctx); handled {
			return ret
		}
	}
	inModule := (fn.Pkg != nil && load.IsModule(fn.Pkg.Pkg)) || (fn.Object() != nil && load.IsModule(fn.Object().Pkg()))
	if !inModule {
		if ret, ok := w.external(mem, call, fn, args); ok {
			return ret
		}
		panic(undecided{call, "call of " + fn.String() + " is not modelled"})
	}
	if len(fn.Blocks) == 0 {
		if sym := w.asmFor(fn); sym != nil {
			w.execAsm(fn, sym, args, mem)
			return nil
		}
		panic(undecided{call, "call of " + load.FuncName(fn) + " which has no Go body (assembly)"})
	}
	if fr.depth+1 > MaxDepth {
		panic(undecided{call, fmt.Sprintf("inlining depth %d exceeded at the call of %s", MaxDepth, load.FuncName(fn))})
	}
	w.Stats["calls inlined"]++
	f2 := &frame{fn: fn, env: make(map[ssa.Value]Value, 32), depth: fr.depth + 1}
	for i, p := range fn.Params {
		if i < len(args) {
			f2.env[p] = args[i]
		}
	}
	for i, fv := range fn.FreeVars {
		if i < len(bind) {
			f2.env[fv] = bind[i]
		}
	}
	ret, _ := w.exec(f2, mem, fn.Blocks[0], nil, false)
	if w.AfterCall != nil {
		w.AfterCall(ctx, ret)
	}
	return ret
}

func (w *World) builtin(fr *frame, mem *Memory, call *ssa.Call, b *ssa.Builtin) Value {
	args := call.Call.Args
	switch b.Name() {
	case "len", "cap":
		if len(args) == 1 {
			switch x := w.val(fr, args[0]).(type) {
			case *Slice:
				if b.Name() == "cap" {
					return mkConst(int64(x.Cap))
				}
				return mkConst(int64(x.Len))
			case Nil:
				return mkConst(0)
			case *Agg:
				return mkConst(int64(len(x.E)))
			}
		}
	}
	panic(undecided{call, "builtin " + b.Name() + " is not modelled"})
}

// external models the few functions outside the module that the analysed
// code uses: encoding/binary.LittleEndian.{Uint16,Uint32,Uint64,PutUint16,
// PutUint32,PutUint64} on byte windows.
func (w *World) external(mem *Memory, call *ssa.Call, fn *ssa.Function, args []Value) (Value, bool) {
	obj, _ := fn.Object().(*types.Func)
	if obj != nil && obj.Pkg() != nil && obj.Pkg().Path() == "math/bits" && (w.WrapMode || w.Carries) && obj.Name() == "Mul64" && len(args) == 2 {
		x, ok1 := args[0].(*Int)
		y, ok2 := args[1].(*Int)
		if !ok1 || !ok2 {
			return nil, false
		}
		// hi*2^64 + lo = x*y exactly: the division identity on the 128-bit product
		var p *Int
		ar := x.R.Mul(y.R)
		if a, ok := concOf(x); ok {
			p = w.mkInt(y.F().ScaleInt(a), &ar)
		} else if b, ok := concOf(y); ok {
			p = w.mkInt(x.F().ScaleInt(b), &ar)
		} else if w.Monomials {
			p, _ = w.product(x, y)
		}
		if p == nil {
			return &Tuple{[]Value{w.opaqueInt(Itv{bigZero, pow2m1(64)}, "high word of a product of two non-constant forms"), w.opaqueInt(Itv{bigZero, pow2m1(64)}, "low word of a product of two non-constant forms")}}, true
		}
		hi, lo := w.divmod(call, p, 64)
		return &Tuple{[]Value{hi, lo}}, true
	}
	if obj != nil && obj.Pkg() != nil && obj.Pkg().Path() == "math/bits" && (w.WrapMode || w.Carries) && (obj.Name() == "Add64" || obj.Name() == "Sub64") && len(args) == 3 {
		x, ok1 := args[0].(*Int)
		y, ok2 := args[1].(*Int)
		c, ok3 := args[2].(*Int)
		if !ok1 || !ok2 || !ok3 {
			return nil, false
		}
		res, carry := w.addCarry(call, x, y, c, obj.Name() == "Sub64")
		return &Tuple{[]Value{res, carry}}, true
	}
	if obj == nil || obj.Pkg() == nil || obj.Pkg().Path() != "encoding/binary" {
		return nil, false
	}
	recv := obj.Type().(*types.Signature).Recv()
	if recv == nil {
		return nil, false
	}
	rt := recv.Type()
	if p, ok := rt.(*types.Pointer); ok {
		rt = p.Elem()
	}
	if n, ok := rt.(*types.Named); !ok || n.Obj().Name() != "littleEndian" {
		return nil, false
	}
	width := 0
	put := false
	switch obj.Name() {
	case "Uint16":
		width = 2
	case "Uint32":
		width = 4
	case "Uint64":
		width = 8
	case "PutUint16":
		width, put = 2, true
	case "PutUint32":
		width, put = 4, true
	case "PutUint64":
		width, put = 8, true
	default:
		return nil, false
	}
	if len(args) < 2 {
		return nil, false
	}
	s, ok := args[1].(*Slice)
	if !ok {
		panic(undecided{call, "encoding/binary on a byte slice that is not tracked"})
	}
	if s.Len < width {
		panic(&pathPanics{in: call, msg: fmt.Sprintf("encoding/binary.%s on a slice of length %d", obj.Name(), s.Len)})
	}
	if !put {
		f := int64Form(0)
		ar := itvOf(0, 0)
		for j := 0; j < width; j++ {
			c, ok := mem.load(s.P.sub(s.Off + j))
			ci, isInt := c.(*Int)
			if !ok || !isInt {
				panic(undecided{call, "encoding/binary reads a byte that is not modelled"})
			}
			if w.assign != nil {
				if sf := ci.F().Subst(w.assign); sf != ci.F() {
					ci = w.mkInt(sf, &ci.R)
				}
			}
			f = f.Add(ci.F().Shl(uint(8 * j)))
			ar = ar.Add(Itv{new(big.Int).Lsh(ci.R.Lo, uint(8*j)), new(big.Int).Lsh(ci.R.Hi, uint(8*j))})
		}
		w.Stats["encoding/binary loads modelled as layouts"]++
		return w.mkInt(f, &ar), true
	}
	if len(args) < 3 {
		return nil, false
	}
	v, ok := args[2].(*Int)
	if !ok {
		return nil, false
	}
	rest := v
	for j := 0; j < width; j++ {
		q, r := w.divmod(call, rest, 8)
		if !mem.store(s.P.sub(s.Off+j), r) {
			panic(undecided{call, "encoding/binary writes a byte that is not modelled"})
		}
		rest = q
	}
	w.Stats["encoding/binary stores modelled byte by byte"]++
	return nil, true
}
