package elin

import (
	"fmt"
	"go/token"
	"go/types"
	"math/big"
	"sort"
	"time"

	"golang.org/x/tools/go/ssa"

	"voicheck/load"
)

// Bounds of the interpreter.  Exceeding one leaves the function undecided.
const (
	MaxDepth     = 6       // inlining depth
	MaxSteps     = 200_000 // instructions per run
	MaxFormTerms = 4096    // terms of one affine form (the largest form of the analysed code has about 1000)
	MaxOpaque    = 64      // values that left the domain in one run (non-linear code is not followed further)
	MaxVars      = 400_000 // variables of one World
	MaxFails     = 50      // recorded failures of one World; the run is abandoned at the next one
)

// MaxRunTime bounds the wall-clock time of one run.
const MaxRunTime = 120 * time.Second

// DriverBudget bounds the wall-clock time of one Check* call: functions
// reached after it has elapsed are reported as undecided (budget exceeded).
const DriverBudget = 8 * time.Minute

const smallMax = 1024

// VarKind classifies the variables of the affine forms.
type VarKind int

const (
	VBit    VarKind = iota // 0/1 input bit (Group, Index = bit index inside the group)
	VSym                   // bounded input symbol (a limb)
	VRem                   // bit Index of the remainder symbol Parent (division identity)
	VOld                   // previous contents of an output location
	VOpaque                // result of an operation outside the domain
	VWrap                  // wrap mode: carry / borrow / wrap-around count of one instruction (Why = position)
	VQuot                  // quotient symbol of the division identity (QuotSyms): x = 2^k*Q + r
	VMono                  // product of two input symbols (Monomials): Parent, Index = the two variables
)

// VarInfo describes one variable.
type VarInfo struct {
	Kind   VarKind
	Name   string
	Lo, Hi *big.Int
	Group  string
	Index  int
	Parent int    // VRem: index into World.rems
	Why    string // VOpaque: origin
	Def    *Form  // VWrap of bits.Add64/Sub64: x+y+c resp. x-y-b (the result word is Def -/+ 2^64*this)
}

// remInfo is one application of the division identity X = 2^K*Q + R.
type remInfo struct {
	ID   int
	K    uint
	X    *Form // dividend
	R    *Form // sum 2^j * bit_j
	Bits []int // variables of the remainder bits
	Pos  string
}

// Failure is an instruction whose result could not be shown to fit its
// machine type (or another defect found while interpreting).
type Failure struct {
	Pos, Fn, Msg string
}

// World is the universe of one analysis: variables, the memo table of the
// division identity, failures and statistics.
type World struct {
	P     *load.Program
	sizes types.Sizes

	vars    []VarInfo
	rems    []*remInfo
	remMemo map[string]*remInfo
	nextObj int

	Fails    []Failure
	failSeen map[string]bool
	Stats    map[string]int

	// WrapMode: a result that may leave its machine type is not a failure but
	// gets an explicit wrap term (result = form - 2^w*k with k a fresh integer
	// symbol); math/bits.Add64/Sub64 are modelled with carry/borrow symbols and
	// conversions int64<->uint64 reinterpret two's complement layouts.  The
	// obligations are then congruences modulo 2^N (lattice.go).
	WrapMode bool

	// Carries: math/bits.Add64/Sub64 are modelled with carry/borrow symbols and
	// math/bits.Mul64 by the division identity on the 128-bit product, without
	// making other wrap-arounds legal (WrapMode implies it).
	Carries bool
	// Monomials: the product of two affine forms over INPUT symbols is expanded
	// bilinearly into monomial symbols M(u,v) (no degree 3: any other variable
	// in an operand leaves the product opaque).
	Monomials bool
	// QuotSyms: the division identity x = 2^k*q + r introduces a fresh integer
	// QUOTIENT symbol (r = x - 2^k*Q) instead of k remainder bits, and the
	// terms of x whose coefficients are divisible by 2^k are divided exactly
	// (x = x_div + x_rest: floor(x/2^k) = x_div/2^k + floor(x_rest/2^k)).  All
	// coefficients stay integers.
	QuotSyms bool
	// Globals: loads from package-level variables of the module evaluate the
	// variable's initialiser (the slice of the package initialiser that
	// computes it); the variable is assumed not to be written afterwards.
	Globals bool
	// OnPhis may replace the values bound to the phis of a block (loop
	// summarisation by the drivers).
	OnPhis func(b, pred *ssa.BasicBlock, phis []*ssa.Phi, vals []Value) []Value

	forkScript []bool // forced outcomes of the successive undecided branches (CallAll)
	forkPos    int

	monoMemo  map[[2]int]int
	quotMemo  map[string]int
	globalVal map[*ssa.Global]Value

	// partial 0/1 assignment of variables applied when operands are fetched
	// (NonAdjacentForm tabulation)
	assign map[int]int8

	steps    int
	maxSteps int                  // instruction budget of one run (MaxSteps unless lowered)
	opaques  int                  // opaque symbols created in the current run
	deadline time.Time            // end of the wall-clock budget of the current run
	cur      ssa.Instruction      // instruction being interpreted (positions of opaque symbols)
	small    [2*smallMax + 1]*Int // shared concrete words of small absolute value

	// Asm: body-less functions of this package are interpreted from their
	// assembly text (asm.go); OnAsmBackEdge is invoked when such a function
	// takes a backward jump (loop summarisation by the drivers).
	Asm           *AsmSet
	OnAsmBackEdge func(st *asmState)

	// hooks (spec-driven)
	OnCall func(c *CallCtx) (ret Value, handled bool)
	// AfterCall is invoked after an inlined call returned.
	AfterCall func(c *CallCtx, ret Value)
	// stopAt: arriving at this block through an edge stops the run (naf.go)
	stopAt *ssa.BasicBlock
}

// CallCtx describes a call seen by the hooks.
type CallCtx struct {
	Depth  int // depth of the calling frame (0 = the analysed entry point)
	Call   *ssa.Call
	Callee *ssa.Function
	Args   []Value
	Mem    *Memory
}

// NewWorld creates an empty universe for a loaded configuration.
func NewWorld(p *load.Program) *World {
	w := &World{P: p, remMemo: map[string]*remInfo{}, failSeen: map[string]bool{}, Stats: map[string]int{}, maxSteps: MaxSteps}
	for _, pk := range p.Pkgs {
		if pk.TypesSizes != nil {
			w.sizes = pk.TypesSizes
			break
		}
	}
	if w.sizes == nil {
		w.sizes = types.SizesFor("gc", p.Cfg.GOARCH)
	}
	return w
}

func (w *World) newVar(vi VarInfo) int {
	if len(w.vars) >= MaxVars {
		panic(undecided{w.cur, fmt.Sprintf("budget exceeded: more than %d variables", MaxVars)})
	}
	w.vars = append(w.vars, vi)
	return len(w.vars) - 1
}

// Var returns the description of a variable.
func (w *World) Var(v int) *VarInfo {
	vi := &w.vars[v]
	if vi.Name == "" { // names of input variables are rendered on demand
		switch vi.Kind {
		case VBit:
			vi.Name = fmt.Sprintf("bit %d of %s", vi.Index, vi.Group)
		case VSym:
			vi.Name = fmt.Sprintf("%s[%d]", vi.Group, vi.Index)
		}
	}
	return vi
}

// BitVar creates the 0/1 input bit index of group.
func (w *World) BitVar(group string, index int) int {
	return w.newVar(VarInfo{Kind: VBit, Lo: bigZero, Hi: bigOne, Group: group, Index: index})
}

// SymVar creates a bounded input symbol.
func (w *World) SymVar(group string, index int, lo, hi *big.Int) int {
	return w.newVar(VarInfo{Kind: VSym, Lo: lo, Hi: hi, Group: group, Index: index})
}

// OldVar creates a symbol for the previous contents of an output location.
func (w *World) OldVar(group string, index int, rng Itv) int {
	return w.newVar(VarInfo{Kind: VOld, Name: fmt.Sprintf("previous contents of %s[%d]", group, index), Lo: rng.Lo, Hi: rng.Hi, Group: group, Index: index})
}

// symInt is the word holding exactly variable v.
func (w *World) symInt(v int) *Int {
	return &Int{f: varForm(v), R: Itv{w.vars[v].Lo, w.vars[v].Hi}}
}

// opaqueInt is a fresh symbol for a value that left the domain.
func (w *World) opaqueInt(rng Itv, why string) *Int {
	w.Stats["opaque symbols"]++
	if w.cur != nil {
		pos, _ := w.where(w.cur)
		why += " at " + pos
	}
	w.opaques++
	if w.opaques > MaxOpaque {
		// non-linear code: do not interpret thousands of instructions of limb
		// arithmetic on values that already left the domain
		panic(undecided{w.cur, fmt.Sprintf("budget exceeded: more than %d values left the affine/layout domain in one run (the latest: %s); the code is not linear and is not followed further", MaxOpaque, why)})
	}
	v := w.newVar(VarInfo{Kind: VOpaque, Name: fmt.Sprintf("opaque#%d (%s)", len(w.vars), why), Lo: rng.Lo, Hi: rng.Hi, Why: why})
	return w.symInt(v)
}

func (w *World) instrPos(in ssa.Instruction) token.Pos {
	if in == nil {
		return token.NoPos
	}
	if p := in.Pos(); p.IsValid() {
		return p
	}
	// the position of an operand, then of the enclosing function
	if v, ok := in.(ssa.Value); ok {
		_ = v
	}
	var ops []*ssa.Value
	for _, op := range in.Operands(ops) {
		if *op != nil && (*op).Pos().IsValid() {
			return (*op).Pos()
		}
	}
	if in.Parent() != nil {
		return in.Parent().Pos()
	}
	return token.NoPos
}

func (w *World) where(in ssa.Instruction) (pos, fn string) {
	if in == nil {
		return "-", ""
	}
	return w.P.Pos(w.instrPos(in)), load.FuncName(in.Parent())
}

// fail records a defect at an instruction (de-duplicated).
func (w *World) fail(in ssa.Instruction, format string, args ...any) {
	pos, fn := w.where(in)
	msg := fmt.Sprintf(format, args...)
	key := pos + "|" + msg
	if w.failSeen[key] {
		return
	}
	w.failSeen[key] = true
	if len(w.Fails) >= MaxFails {
		if !w.failSeen["suppressed"] {
			w.failSeen["suppressed"] = true
			w.Fails = append(w.Fails, Failure{Pos: pos, Fn: fn, Msg: fmt.Sprintf("more than %d failures: further failures suppressed, interpretation abandoned", MaxFails)})
		}
		panic(undecided{in, fmt.Sprintf("more than %d failures recorded: interpretation abandoned", MaxFails)})
	}
	w.Fails = append(w.Fails, Failure{Pos: pos, Fn: fn, Msg: msg})
}

// beginRun resets the per-run budgets.
func (w *World) beginRun() {
	w.steps, w.opaques = 0, 0
	w.deadline = time.Now().Add(MaxRunTime)
}

// ---------------------------------------------------------------------------
// ranges

// rangeOf evaluates a form over the ranges of its variables; the value of a
// form is an integer, so the ends are rounded inwards.
func (w *World) rangeOf(f *Form) Itv {
	if len(f.ts) == 0 && f.c.IsInt() {
		return single(f.c.Num())
	}
	if r, ok := w.rangeOfInt(f); ok {
		return r
	}
	lo, hi := new(big.Rat).Set(f.c), new(big.Rat).Set(f.c)
	var t1, t2 big.Rat
	for _, t := range f.ts {
		vi := &w.vars[t.v]
		if vi.Lo.Sign() == 0 && vi.Hi.Cmp(bigOne) == 0 { // 0/1 variable: the common case
			if t.c.Sign() > 0 {
				hi.Add(hi, t.c)
			} else {
				lo.Add(lo, t.c)
			}
			continue
		}
		t1.SetInt(vi.Lo)
		t1.Mul(&t1, t.c)
		t2.SetInt(vi.Hi)
		t2.Mul(&t2, t.c)
		if t.c.Sign() > 0 {
			lo.Add(lo, &t1)
			hi.Add(hi, &t2)
		} else {
			lo.Add(lo, &t2)
			hi.Add(hi, &t1)
		}
	}
	return Itv{ratCeil(lo), ratFloor(hi)}
}

// rangeOfInt is rangeOf for forms with integer coefficients.
func (w *World) rangeOfInt(f *Form) (Itv, bool) {
	if !f.c.IsInt() {
		return Itv{}, false
	}
	lo, hi := new(big.Int).Set(f.c.Num()), new(big.Int).Set(f.c.Num())
	var t1 big.Int
	for _, t := range f.ts {
		if !t.c.IsInt() {
			return Itv{}, false
		}
		c := t.c.Num()
		vi := &w.vars[t.v]
		if vi.Lo.Sign() == 0 && vi.Hi.Cmp(bigOne) == 0 {
			if c.Sign() > 0 {
				hi.Add(hi, c)
			} else {
				lo.Add(lo, c)
			}
			continue
		}
		if c.Sign() > 0 {
			lo.Add(lo, t1.Mul(c, vi.Lo))
			hi.Add(hi, t1.Mul(c, vi.Hi))
		} else {
			lo.Add(lo, t1.Mul(c, vi.Hi))
			hi.Add(hi, t1.Mul(c, vi.Lo))
		}
	}
	return Itv{lo, hi}, true
}

// mkInt builds a word from a form and an interval obtained by interval
// arithmetic on the operands (the result range is their intersection with the
// evaluation of the form).
func (w *World) mkInt(f *Form, arith *Itv) *Int {
	if len(f.ts) == 0 && f.c.IsInt() {
		return w.concInt(f.c.Num())
	}
	if len(f.ts) > MaxFormTerms {
		w.fail(w.cur, "undecided: an affine form exceeds %d terms (the value is replaced by an opaque symbol)", MaxFormTerms)
		r := w.rangeOf(f)
		if arith != nil {
			r = arith.Meet(r)
		}
		return w.opaqueInt(r, "form with too many terms")
	}
	r := w.rangeOf(f)
	if arith != nil {
		r = arith.Meet(r)
	}
	return &Int{f: f, R: r}
}

// intOfForm builds a word from a form alone.
func (w *World) intOfForm(f *Form) *Int { return &Int{f: f, R: w.rangeOf(f)} }

// ---------------------------------------------------------------------------
// layouts

// layoutOf returns the bit layout of a word when its form is bit-structured.
func (w *World) layoutOf(x *Int) (*layout, bool) {
	switch x.layState {
	case 1:
		return &x.lay, true
	case 2:
		return nil, false
	}
	x.layState = 2
	f := x.F()
	if !f.c.IsInt() || f.c.Sign() < 0 || f.c.Num().BitLen() > 64 || len(f.ts) > 64 {
		return nil, false
	}
	var l layout
	c := f.c.Num()
	for i := 0; i < c.BitLen(); i++ {
		if c.Bit(i) == 1 {
			l[i] = layOne
		}
	}
	for _, t := range f.ts {
		if !t.c.IsInt() {
			return nil, false
		}
		k, ok := log2Exact(t.c.Num())
		if !ok || k >= 64 || l[k] != 0 {
			return nil, false
		}
		vi := &w.vars[t.v]
		if vi.Lo.Sign() != 0 || vi.Hi.Cmp(bigOne) != 0 {
			return nil, false
		}
		l[k] = int32(t.v + 1)
	}
	x.lay, x.layState = l, 1
	return &x.lay, true
}

// fromLayout builds the word of a layout.
func (w *World) fromLayout(l *layout) *Int {
	return &Int{R: l.itv(), layState: 1, lay: *l}
}

// twosOf returns the bit pattern of a word of the given width whose form is a
// two's complement layout: distinct powers of two over 0/1 variables where the
// top position carries the weight -2^(bits-1).
func (w *World) twosOf(x *Int, bits uint) (*layout, bool) {
	f := x.F()
	if !f.c.IsInt() || len(f.ts) > 64 || bits == 0 || bits > 64 {
		return nil, false
	}
	var l layout
	c := new(big.Int).Set(f.c.Num())
	if c.Sign() < 0 {
		c.Add(c, pow2(bits-1))
		if c.Sign() < 0 {
			return nil, false
		}
		l[bits-1] = layOne
	}
	if c.BitLen() > int(bits-1) {
		return nil, false
	}
	for i := 0; i < c.BitLen(); i++ {
		if c.Bit(i) == 1 {
			l[i] = layOne
		}
	}
	for _, t := range f.ts {
		if !t.c.IsInt() {
			return nil, false
		}
		vi := &w.vars[t.v]
		if vi.Lo.Sign() != 0 || vi.Hi.Cmp(bigOne) != 0 {
			return nil, false
		}
		k, ok := log2Exact(new(big.Int).Abs(t.c.Num()))
		if !ok || k >= bits || l[k] != 0 || (t.c.Sign() < 0) != (k == bits-1) {
			return nil, false
		}
		l[k] = int32(t.v + 1)
	}
	return &l, true
}

// fromTwos builds the signed word of the given width with that bit pattern.
func (w *World) fromTwos(l *layout, bits uint) *Int {
	var pos layout
	copy(pos[:], l[:])
	top := pos[bits-1]
	pos[bits-1] = 0
	f := pos.form()
	r := pos.itv()
	lo, hi := r.Lo, r.Hi
	switch {
	case top == layOne:
		f = f.Sub(intForm(pow2(bits - 1)))
		lo, hi = new(big.Int).Sub(lo, pow2(bits-1)), new(big.Int).Sub(hi, pow2(bits-1))
	case top != 0:
		f = f.Sub(varForm(int(top - 1)).Shl(bits - 1))
		lo = new(big.Int).Sub(lo, pow2(bits-1))
	}
	return &Int{f: f, R: Itv{lo, hi}}
}

// wrapInto brings a value into the machine type k by an explicit wrap term
// (wrap mode): result = x - 2^bits*n with n a fresh integer symbol whose range
// follows from the range of x.
func (w *World) wrapInto(in ssa.Instruction, k ikind, x *Int, what string) *Int {
	t := k.rng()
	if x.R.Leq(t) {
		return x
	}
	if !k.signed && x.R.Lo.Cmp(big.NewInt(-1)) >= 0 && x.R.Hi.Sign() <= 0 {
		// x = -u for a 0/1 quantity u: the word is u*(2^bits - 1) (all ones or zero)
		w.Stats["0/1 quantity turned into an all-ones mask (exact)"]++
		ar := Itv{bigZero, pow2m1(k.bits)}
		return w.mkInt(x.F().Scale(new(big.Rat).SetInt(new(big.Int).Neg(pow2m1(k.bits)))), &ar)
	}
	// n in [ceil((lo - t.Hi)/2^bits), floor((hi - t.Lo)/2^bits)]
	m := pow2(k.bits)
	nlo := new(big.Int).Sub(x.R.Lo, t.Hi)
	nlo.Add(nlo, new(big.Int).Sub(m, bigOne))
	nlo.Div(nlo, m) // Euclidean: floor for a positive divisor, so this is the ceiling of (lo - t.Hi)/m
	nhi := new(big.Int).Sub(x.R.Hi, t.Lo)
	nhi.Div(nhi, m)
	pos, _ := w.where(in)
	w.Stats["wrap terms (wrap mode)"]++
	v := w.newVar(VarInfo{Kind: VWrap, Name: fmt.Sprintf("wrap#%d (%s at %s)", len(w.vars), what, pos), Lo: nlo, Hi: nhi, Why: pos})
	res := &Int{f: x.F().Sub(varForm(v).Shl(k.bits)), R: t}
	if !k.signed && nlo.Cmp(big.NewInt(-1)) == 0 && nhi.Sign() == 0 {
		res.wr = &wrapRec{n: v, d: x.F(), dR: x.R, bits: k.bits}
	}
	return res
}

// addCarry models math/bits.Add64 (sub = false) and Sub64 (sub = true) in
// wrap mode: (x + y + c) = sum + 2^64*carry resp. (x - y - b) = diff - 2^64*borrow
// with a fresh 0/1 symbol for the carry / borrow.
func (w *World) addCarry(in ssa.Instruction, x, y, c *Int, sub bool) (res, carry *Int) {
	var f *Form
	var ar Itv
	if sub {
		f = x.F().Sub(y.F()).Sub(c.F())
		ar = x.R.Sub(y.R).Sub(c.R)
	} else {
		f = x.F().Add(y.F()).Add(c.F())
		ar = x.R.Add(y.R).Add(c.R)
	}
	full := w.mkInt(f, &ar)
	m := pow2(64)
	// carry = floor(full / 2^64) for Add64, borrow = -floor(full / 2^64) for Sub64
	qlo, qhi := floorDiv2(full.R.Lo, 64), floorDiv2(full.R.Hi, 64)
	word := Itv{bigZero, pow2m1(64)}
	if qlo.Cmp(qhi) == 0 {
		q := qlo
		shift := new(big.Int).Mul(q, m)
		exact := Itv{new(big.Int).Sub(full.R.Lo, shift), new(big.Int).Sub(full.R.Hi, shift)}
		res = w.mkInt(full.F().Sub(intForm(shift)), &exact)
		if sub {
			q = new(big.Int).Neg(q)
		}
		return res, w.concInt(q)
	}
	pos, _ := w.where(in)
	what := "carry"
	if sub {
		what = "borrow"
		qlo, qhi = new(big.Int).Neg(qhi), new(big.Int).Neg(qlo)
	}
	w.Stats["carry/borrow symbols (wrap mode)"]++
	v := w.newVar(VarInfo{Kind: VWrap, Name: fmt.Sprintf("%s#%d (at %s)", what, len(w.vars), pos), Lo: qlo, Hi: qhi, Why: pos, Def: full.F()})
	carry = w.symInt(v)
	if sub {
		r := word // the difference word is at least the unwrapped difference
		if full.R.Lo.Sign() > 0 {
			r = Itv{full.R.Lo, word.Hi}
		}
		res = &Int{f: full.F().Add(varForm(v).Shl(64)), R: r}
	} else {
		r := word // the sum word is at most the unwrapped sum
		if full.R.Hi.Cmp(word.Hi) < 0 {
			r = Itv{bigZero, full.R.Hi}
		}
		res = &Int{f: full.F().Sub(varForm(v).Shl(64)), R: r}
	}
	return res, carry
}

// ---------------------------------------------------------------------------
// the division identity

// divmod returns q = floor(x / 2^k) and r = x - 2^k*q in [0, 2^k).
func (w *World) divmod(in ssa.Instruction, x *Int, k uint) (q, r *Int) {
	if k == 0 {
		return x, mkConst(0)
	}
	// concrete
	if n, ok := x.conc(); ok {
		qq := floorDiv2(n, k)
		rr := new(big.Int).Sub(n, new(big.Int).Lsh(qq, k))
		return &Int{f: intForm(qq), R: single(qq)}, &Int{f: intForm(rr), R: single(rr)}
	}
	// bit layout: split the positions
	if l, ok := w.layoutOf(x); ok {
		var lq, lr layout
		for i, c := range l {
			if uint(i) < k {
				lr[i] = c
			} else {
				lq[uint(i)-k] = c
			}
		}
		w.Stats["division identity on a layout"]++
		return w.fromLayout(&lq), w.fromLayout(&lr)
	}
	// a word d - 2^bits*n that underflowed at most once (n in {-1,0}, t = -n) with
	// d in [-2^k, 2^k): the low k bits are d + 2^k*t, the bits above are all t
	if x.wr != nil && k < x.wr.bits && x.wr.dR.Lo.Cmp(new(big.Int).Neg(pow2(k))) >= 0 && x.wr.dR.Hi.Cmp(pow2(k)) < 0 {
		w.Stats["sign extension of a wrapped difference (exact)"]++
		t := varForm(x.wr.n).Scale(ratMinusOne)
		rr := Itv{bigZero, pow2m1(k)}
		qr := Itv{bigZero, pow2m1(x.wr.bits - k)}
		return w.mkInt(t.ScaleInt(pow2m1(x.wr.bits-k)), &qr), w.mkInt(x.wr.d.Add(t.Shl(k)), &rr)
	}
	if w.QuotSyms {
		if q, r, ok := w.divmodSplit(in, x, k); ok {
			return q, r
		}
	}
	// the quotient is determined by the range
	qlo, qhi := floorDiv2(x.R.Lo, k), floorDiv2(x.R.Hi, k)
	if qlo.Cmp(qhi) == 0 {
		w.Stats["division identity decided by range"]++
		rf := x.F().Sub(intForm(new(big.Int).Lsh(qlo, k)))
		ar := Itv{new(big.Int).Sub(x.R.Lo, new(big.Int).Lsh(qlo, k)), new(big.Int).Sub(x.R.Hi, new(big.Int).Lsh(qlo, k))}
		return &Int{f: intForm(qlo), R: single(qlo)}, w.mkInt(rf, &ar)
	}
	key := fmt.Sprintf("%d|%s", k, x.F().Key())
	if w.QuotSyms {
		// memoised on (form, k): the quotient VARIABLE is shared, its range is
		// the intersection of what every use knows about the dividend
		v, ok := w.quotMemo[key]
		if !ok {
			pos, _ := w.where(in)
			w.Stats["division identity (fresh quotient symbol)"]++
			v = w.newVar(VarInfo{Kind: VQuot, Name: fmt.Sprintf("quot#%d (word >> %d at %s)", len(w.vars), k, pos), Lo: qlo, Hi: qhi, Why: pos})
			if w.quotMemo == nil {
				w.quotMemo = map[string]int{}
			}
			w.quotMemo[key] = v
		} else {
			vi := &w.vars[v]
			if nr := (Itv{vi.Lo, vi.Hi}).Meet(Itv{qlo, qhi}); true {
				vi.Lo, vi.Hi = nr.Lo, nr.Hi
			}
		}
		q = w.symInt(v)
		r = &Int{f: x.F().Sub(varForm(v).Shl(k)), R: Itv{bigZero, pow2m1(k)}}
		return q, r
	}
	ri := w.remMemo[key]
	if ri == nil {
		pos, _ := w.where(in)
		ri = &remInfo{ID: len(w.rems), K: k, X: x.F(), Pos: pos}
		rf := &Form{c: ratZero}
		for j := uint(0); j < k; j++ {
			v := w.newVar(VarInfo{Kind: VRem, Name: fmt.Sprintf("bit %d of rem#%d (mod 2^%d at %s)", j, ri.ID, k, pos), Lo: bigZero, Hi: bigOne, Parent: ri.ID, Index: int(j)})
			ri.Bits = append(ri.Bits, v)
			rf.ts = append(rf.ts, term{v, ratPow2(j)})
		}
		ri.R = rf
		w.rems = append(w.rems, ri)
		w.remMemo[key] = ri
		w.Stats["division identity (fresh remainder)"]++
	}
	r = &Int{f: ri.R, R: Itv{bigZero, pow2m1(k)}}
	qf := x.F().Sub(ri.R).Scale(new(big.Rat).SetFrac(bigOne, pow2(k)))
	ar := Itv{qlo, qhi}
	return w.mkInt(qf, &ar), r
}

// divmodSplit divides exactly the terms of x whose coefficients are integer
// multiples of 2^k: with x = x_div + x_rest, floor(x/2^k) = x_div/2^k +
// floor(x_rest/2^k) and x mod 2^k = x_rest mod 2^k (every variable is an
// integer).  It applies when something can be split off.
func (w *World) divmodSplit(in ssa.Instruction, x *Int, k uint) (q, r *Int, ok bool) {
	f := x.F()
	mod := pow2(k)
	divisible := func(c *big.Rat) bool {
		return c.IsInt() && new(big.Int).And(c.Num(), new(big.Int).Sub(mod, bigOne)).Sign() == 0
	}
	div, rest := &Form{c: ratZero}, &Form{c: ratZero}
	for _, t := range f.ts {
		if divisible(t.c) {
			div.ts = append(div.ts, t)
		} else {
			rest.ts = append(rest.ts, t)
		}
	}
	if len(div.ts) == 0 {
		return nil, nil, false
	}
	// the constant goes with the rest (reduced into [0, 2^k) when it is an integer)
	rest.c = f.c
	if f.c.IsInt() {
		cq := floorDiv2(f.c.Num(), k)
		div.c = new(big.Rat).SetInt(new(big.Int).Lsh(cq, k))
		rest.c = new(big.Rat).SetInt(new(big.Int).Sub(f.c.Num(), new(big.Int).Lsh(cq, k)))
	}
	w.Stats["division identity: exactly divisible terms split off"]++
	qd := div.Scale(new(big.Rat).SetFrac(bigOne, mod))
	if len(rest.ts) == 0 && rest.c.IsInt() {
		rr := rest.c.Num()
		ar := Itv{floorDiv2(x.R.Lo, k), floorDiv2(x.R.Hi, k)}
		return w.mkInt(qd, &ar), w.concInt(rr), true
	}
	xr := w.intOfForm(rest)
	xr.wr = nil
	q2, r2 := w.divmod(in, xr, k)
	ar := Itv{floorDiv2(x.R.Lo, k), floorDiv2(x.R.Hi, k)}
	return w.mkInt(qd.Add(q2.F()), &ar), r2, true
}

// product expands x*y bilinearly into monomial symbols when both operands
// are affine forms over input symbols.
func (w *World) product(x, y *Int) (*Int, bool) {
	fx, fy := x.F(), y.F()
	for _, f := range []*Form{fx, fy} {
		for _, t := range f.ts {
			if w.vars[t.v].Kind != VSym {
				return nil, false
			}
		}
	}
	out := &Form{c: ratMul(fx.c, fy.c)}
	acc := map[int]*big.Rat{}
	add := func(v int, c *big.Rat) {
		if c.Sign() == 0 {
			return
		}
		if old, ok := acc[v]; ok {
			acc[v] = ratAdd(old, c)
		} else {
			acc[v] = c
		}
	}
	for _, t := range fx.ts {
		add(t.v, ratMul(t.c, fy.c))
	}
	for _, t := range fy.ts {
		add(t.v, ratMul(t.c, fx.c))
	}
	for _, a := range fx.ts {
		for _, b := range fy.ts {
			add(w.monomial(a.v, b.v), ratMul(a.c, b.c))
		}
	}
	for v, c := range acc {
		if c.Sign() != 0 {
			out.ts = append(out.ts, term{v, c})
		}
	}
	sort.Slice(out.ts, func(i, j int) bool { return out.ts[i].v < out.ts[j].v })
	ar := x.R.Mul(y.R)
	w.Stats["products expanded into monomials"]++
	return w.mkInt(out, &ar), true
}

// monomial returns the symbol of the (unordered) product of two input symbols.
func (w *World) monomial(a, b int) int {
	if a > b {
		a, b = b, a
	}
	if v, ok := w.monoMemo[[2]int{a, b}]; ok {
		return v
	}
	va, vb := w.Var(a), w.Var(b)
	r := Itv{va.Lo, va.Hi}.Mul(Itv{vb.Lo, vb.Hi})
	v := w.newVar(VarInfo{Kind: VMono, Name: va.Name + "*" + vb.Name, Lo: r.Lo, Hi: r.Hi, Parent: a, Index: b})
	if w.monoMemo == nil {
		w.monoMemo = map[[2]int]int{}
	}
	w.monoMemo[[2]int{a, b}] = v
	return v
}

// ---------------------------------------------------------------------------
// integer types

type ikind struct {
	bits   uint
	signed bool
	isBool bool
}

func (w *World) kindOf(t types.Type) (ikind, bool) {
	b, ok := t.Underlying().(*types.Basic)
	if !ok {
		return ikind{}, false
	}
	if b.Info()&types.IsBoolean != 0 {
		return ikind{bits: 1, isBool: true}, true
	}
	if b.Info()&types.IsInteger == 0 {
		return ikind{}, false
	}
	if b.Kind() == types.UntypedInt || b.Kind() == types.UntypedRune {
		return ikind{bits: 64, signed: true}, true
	}
	return ikind{bits: uint(w.sizes.Sizeof(b)) * 8, signed: b.Info()&types.IsUnsigned == 0}, true
}

// rngTab holds the (shared, read-only) ranges of the integer types.
var rngTab = func() map[ikind]Itv {
	m := map[ikind]Itv{}
	for _, b := range []uint{8, 16, 32, 64} {
		m[ikind{bits: b}] = Itv{bigZero, pow2m1(b)}
		m[ikind{bits: b, signed: true}] = Itv{new(big.Int).Neg(pow2(b - 1)), pow2m1(b - 1)}
	}
	return m
}()

func (k ikind) rng() Itv {
	if k.isBool {
		return Itv{bigZero, bigOne}
	}
	if r, ok := rngTab[k]; ok {
		return r
	}
	if k.signed {
		return Itv{new(big.Int).Neg(pow2(k.bits - 1)), pow2m1(k.bits - 1)}
	}
	return Itv{bigZero, pow2m1(k.bits)}
}

// wrap reduces a concrete value into the type (exact Go semantics).
func (k ikind) wrap(n *big.Int) *big.Int {
	r := k.rng()
	if r.Contains(n) {
		return n
	}
	m := new(big.Int).And(n, pow2m1(k.bits)) // two's complement of negatives: big.Int.And is defined so
	if k.signed && m.Bit(int(k.bits-1)) == 1 {
		m.Sub(m, pow2(k.bits))
	}
	return m
}

// StatList renders the statistics deterministically.
func (w *World) StatList() []string {
	var ks []string
	for k := range w.Stats {
		ks = append(ks, k)
	}
	sort.Strings(ks)
	out := make([]string, len(ks))
	for i, k := range ks {
		out[i] = fmt.Sprintf("%s: %d", k, w.Stats[k])
	}
	return out
}
