package elin

import (
	"fmt"
	"go/types"
	"math/big"
	"sort"
	"strings"
	"time"

	"golang.org/x/tools/go/ssa"

	"voicheck/load"
	"voicheck/report"
)

// Result summarises one Check* call.
type Result struct {
	Functions, Obligations, Discharged int
	Samples                            []map[string]any
}

// checker is the reporting context of one Check* call.
type checker struct {
	start  time.Time
	run    *report.Run
	p      *load.Program
	res    *Result
	value  *report.Rule
	rng    *report.Rule
	layout *report.Rule
}

func newChecker(run *report.Run, p *load.Program, prefix string) *checker {
	c := &checker{start: time.Now(), run: run, p: p, res: &Result{}}
	c.value = run.Rule(prefix+"-value", "value preservation: the weighted sum of the outputs equals the weighted sum of the inputs as affine forms over the input bits (exactly, or coefficient-wise modulo p = 2^255-19 where stated), for every input", 0)
	c.rng = run.Rule(prefix+"-range", "every arithmetic result of the function is shown to fit its machine word by the interval of its affine form (nothing wraps silently), every branch is decided, and the outputs lie in their documented ranges", 0)
	c.layout = run.Rule(prefix+"-layout", "outputs are bit layouts inside their nominal widths: every input bit is routed to exactly one output position of the right weight, bits that must be ignored reach no output", 0)
	run.SetConfig(p.Cfg.ID)
	return c
}

// plan announces n obligations of a rule (honest expected_min: it grows
// with every function x configuration x clause that is going to be decided).
func (c *checker) plan(ru *report.Rule, n int) { ru.ExpectedMin += n }

func (c *checker) ok(ru *report.Rule, construct string) {
	ru.OK(construct)
	c.res.Obligations++
	c.res.Discharged++
}

func (c *checker) okn(ru *report.Rule, construct string, n int) {
	ru.OKN(construct, n)
	c.res.Obligations += n
	c.res.Discharged += n
}

func (c *checker) fail(ru *report.Rule, pos, construct, msg string) {
	ru.Fail(pos, construct, msg, nil)
	c.res.Obligations++
}

// conclude records one obligation: discharged when msgs is empty, otherwise
// failed with (at most three of) the messages.
func (c *checker) conclude(ru *report.Rule, pos, construct string, msgs []string) bool {
	if len(msgs) == 0 {
		c.ok(ru, construct)
		return true
	}
	for i, m := range msgs {
		if i == 3 {
			break
		}
		ru.Fail(pos, construct, m, nil)
	}
	c.res.Obligations++
	return false
}

func (c *checker) sample(m map[string]any) {
	m["config"] = c.p.Cfg.ID
	if len(c.res.Samples) < 12 {
		c.res.Samples = append(c.res.Samples, m)
	}
	c.run.Sample(m)
}

// anchor resolves a function; on failure every planned clause fails.
func (c *checker) anchor(rel, name string, rules ...*report.Rule) *ssa.Function {
	if el := time.Since(c.start); el > DriverBudget {
		for _, ru := range rules {
			c.fail(ru, "-", rel+"."+name, fmt.Sprintf("undecided: budget exceeded: the driver has used %s of wall-clock time (limit %s) before reaching this function", el.Round(time.Second), DriverBudget))
		}
		return nil
	}
	fn := c.p.Func(rel, name)
	if fn == nil || len(fn.Blocks) == 0 {
		for _, ru := range rules {
			c.fail(ru, "-", rel+"."+name, "anchor function "+rel+"."+name+" cannot be resolved (or has no Go body) in configuration "+c.p.Cfg.ID)
		}
		return nil
	}
	return fn
}

// runFailures turns the defects recorded while interpreting into messages
// of the range clause.
func runFailures(w *World, out *Outcome) (pos string, msgs []string) {
	pos = "-"
	if !out.OK() {
		p, m := out.Why(w)
		pos = p
		msgs = append(msgs, m)
	}
	for _, f := range w.Fails {
		if pos == "-" {
			pos = f.Pos
		}
		msgs = append(msgs, fmt.Sprintf("%s in %s: %s", f.Pos, f.Fn, f.Msg))
	}
	return pos, msgs
}

// ---------------------------------------------------------------------------
// inputs

// bitCells builds n byte cells whose bits are input variables (zero(k) bits
// are the constant 0) and returns the variable of every bit (-1 for the zero
// ones).
func (w *World) bitCells(group string, n int, zero func(k int) bool) ([]Value, []int) {
	cells := make([]Value, n)
	vars := make([]int, 8*n)
	for j := 0; j < n; j++ {
		var l layout
		for b := 0; b < 8; b++ {
			k := 8*j + b
			if zero != nil && zero(k) {
				vars[k] = -1
				continue
			}
			v := w.BitVar(group, k)
			vars[k] = v
			l[b] = int32(v + 1)
		}
		cells[j] = w.fromLayout(&l)
	}
	return cells, vars
}

// inputBytes allocates an n-byte array of input bits and returns a slice
// over it.
func (w *World) inputBytes(mem *Memory, group string, n int, zero func(k int) bool) (*Slice, *Ptr, []int) {
	cells, vars := w.bitCells(group, n, zero)
	p := w.alloc(mem, nil, &Agg{cells})
	return &Slice{P: p, Off: 0, Len: n, Cap: n}, p, vars
}

// outputCells allocates n cells holding "previous contents" symbols.
func (w *World) outputCells(group string, n int, k ikind) []Value {
	cells := make([]Value, n)
	for i := range cells {
		cells[i] = w.symInt(w.OldVar(group, i, k.rng()))
	}
	return cells
}

// bitsForm is sum 2^k * vars[k] over the given variables (-1 entries skipped).
func bitsForm(vars []int, n int) *Form {
	type kv struct {
		v int
		k int
	}
	var ts []term
	for k := 0; k < n && k < len(vars); k++ {
		if vars[k] >= 0 {
			ts = append(ts, term{vars[k], ratPow2(uint(k))})
		}
	}
	sort.Slice(ts, func(i, j int) bool { return ts[i].v < ts[j].v })
	return &Form{c: ratZero, ts: ts}
}

// weighted is sum cells[i] * 2^offs[i].
func weighted(cells []*Int, offs []uint) *Form {
	f := int64Form(0)
	for i, c := range cells {
		f = f.Add(c.F().Shl(offs[i]))
	}
	return f
}

// intCells reads the integer cells of an array value.
func intCells(v Value) ([]*Int, bool) {
	agg, ok := v.(*Agg)
	if !ok {
		return nil, false
	}
	out := make([]*Int, len(agg.E))
	for i, e := range agg.E {
		x, ok := e.(*Int)
		if !ok {
			return nil, false
		}
		out[i] = x
	}
	return out, true
}

// structWithField is the zero value of struct type t with field i replaced.
func structWithField(t types.Type, i int, v Value) Value {
	z := zeroValue(t).(*Agg)
	el := append([]Value(nil), z.E...)
	el[i] = v
	return &Agg{el}
}

// limbField finds the field of a struct type that is an array of unsigned
// integers (Element.inner, Scalar.inner).
func limbField(t types.Type) (idx int, arr *types.Array, elem *types.Basic, ok bool) {
	st, isStruct := t.Underlying().(*types.Struct)
	if !isStruct {
		return 0, nil, nil, false
	}
	for i := 0; i < st.NumFields(); i++ {
		if a, isArr := st.Field(i).Type().Underlying().(*types.Array); isArr && a.Len() > 0 {
			if b, isBasic := a.Elem().Underlying().(*types.Basic); isBasic && b.Info()&types.IsUnsigned != 0 {
				return i, a, b, true
			}
		}
	}
	return 0, nil, nil, false
}

// ---------------------------------------------------------------------------
// comparing forms

// shortInt abbreviates long decimal numbers.
func shortInt(n *big.Int) string {
	s := n.String()
	if len(s) > 30 {
		return fmt.Sprintf("%s...%s (%d digits)", s[:10], s[len(s)-6:], len(s))
	}
	return s
}

func prettyRat(r *big.Rat) string {
	if r.IsInt() {
		n := r.Num()
		if k, ok := log2Exact(new(big.Int).Abs(n)); ok && k >= 10 {
			if n.Sign() < 0 {
				return fmt.Sprintf("-2^%d", k)
			}
			return fmt.Sprintf("2^%d", k)
		}
		s := n.String()
		if len(s) > 24 {
			// c * 2^k
			tz := new(big.Int).Abs(n).TrailingZeroBits()
			if tz >= 10 {
				return fmt.Sprintf("%s*2^%d", shortInt(new(big.Int).Rsh(n, tz)), tz)
			}
			return shortInt(n)
		}
		return s
	}
	if k, ok := log2Exact(r.Denom()); ok {
		return fmt.Sprintf("%s/2^%d", prettyRat(new(big.Rat).SetInt(r.Num())), k)
	}
	return r.RatString()
}

// unionVars lists the variables of two forms, ascending.
func unionVars(a, b *Form) []int {
	seen := map[int]bool{}
	var out []int
	for _, f := range []*Form{a, b} {
		for _, t := range f.ts {
			if !seen[t.v] {
				seen[t.v] = true
				out = append(out, t.v)
			}
		}
	}
	sort.Ints(out)
	return out
}

// attribution says which output cells a variable reaches.
func attribution(v int, what string, cells []*Int, offs []uint) string {
	var parts []string
	for i, c := range cells {
		if cf := c.F().Coef(v); cf.Sign() != 0 {
			wgt := new(big.Rat).Mul(cf, new(big.Rat).SetInt(pow2(offs[i])))
			parts = append(parts, fmt.Sprintf("%s %d with weight %s", what, i, prettyRat(wgt)))
		}
	}
	if len(parts) == 0 {
		return "reaches no " + what
	}
	if len(parts) > 3 {
		parts = append(parts[:3], "...")
	}
	return "reaches " + strings.Join(parts, " and ")
}

// foreign reports variables of a form that an output must not mention.
func (w *World) foreign(f *Form, allowed func(vi *VarInfo) bool) []string {
	var msgs []string
	for _, t := range f.ts {
		vi := w.Var(t.v)
		if allowed(vi) {
			continue
		}
		switch vi.Kind {
		case VOpaque:
			msgs = append(msgs, fmt.Sprintf("undecided: the output depends on %s, the result of an operation outside the affine/layout domain", vi.Name))
		case VOld:
			msgs = append(msgs, fmt.Sprintf("the output depends on the %s (coefficient %s)", vi.Name, prettyRat(t.c)))
		case VRem:
			msgs = append(msgs, fmt.Sprintf("the output depends on %s with coefficient %s: a carry/remainder does not cancel", vi.Name, prettyRat(t.c)))
		default:
			msgs = append(msgs, fmt.Sprintf("the output depends on %s with coefficient %s", vi.Name, prettyRat(t.c)))
		}
		if len(msgs) >= 3 {
			break
		}
	}
	return msgs
}

// opaqueIn reports an opaque symbol in a form: the comparison is then
// undecided (the cause is reported by the range clause or named here).
func (w *World) opaqueIn(f *Form, sumName string) string {
	for _, t := range f.ts {
		if vi := w.Var(t.v); vi.Kind == VOpaque {
			return fmt.Sprintf("undecided: %s depends on %s, the result of an operation that left the affine/layout domain", sumName, vi.Name)
		}
	}
	return ""
}

// strayRemainder names the latest remainder (division identity) that is
// left over in got but not expected: a carry that was dropped or added at
// the wrong weight.
func (w *World) strayRemainder(got, want *Form, sumName string) string {
	best := -1
	var coef *big.Rat
	for _, t := range got.ts {
		vi := w.Var(t.v)
		if vi.Kind == VRem && want.Coef(t.v).Cmp(t.c) != 0 && vi.Parent >= best {
			if vi.Parent > best || coef == nil {
				coef = t.c
			}
			best = vi.Parent
		}
	}
	if best < 0 {
		return ""
	}
	ri := w.rems[best]
	return fmt.Sprintf("the remainder of the word divided by 2^%d at %s does not cancel in %s (its bit 0 keeps the coefficient %s): the quotient (carry) of that step is dropped or added at the wrong weight", ri.K, ri.Pos, sumName, prettyRat(coef))
}

// diffExact compares got and want coefficient by coefficient.
func (w *World) diffExact(got, want *Form, sumName, cellName string, cells []*Int, offs []uint) []string {
	if m := w.opaqueIn(got, sumName); m != "" {
		return []string{m}
	}
	var msgs []string
	if m := w.strayRemainder(got, want, sumName); m != "" {
		msgs = append(msgs, m)
	}
	for _, v := range unionVars(got, want) {
		g, e := got.Coef(v), want.Coef(v)
		if g.Cmp(e) == 0 {
			continue
		}
		vi := w.Var(v)
		switch {
		case vi.Kind == VOpaque:
			msgs = append(msgs, fmt.Sprintf("undecided: %s depends on %s, the result of an operation outside the affine/layout domain", sumName, vi.Name))
		case vi.Kind == VRem && len(msgs) > 0:
			continue // summarised by strayRemainder
		case e.Sign() == 0 && (vi.Kind == VBit || vi.Kind == VSym):
			msgs = append(msgs, fmt.Sprintf("%s %s (must be ignored): its coefficient in %s is %s, want 0", vi.Name, attribution(v, cellName, cells, offs), sumName, prettyRat(g)))
		case e.Sign() == 0:
			msgs = append(msgs, fmt.Sprintf("%s does not cancel in %s: coefficient %s (%s)", vi.Name, sumName, prettyRat(g), attribution(v, cellName, cells, offs)))
		default:
			msgs = append(msgs, fmt.Sprintf("coefficient of %s in %s is %s, want %s (%s)", vi.Name, sumName, prettyRat(g), prettyRat(e), attribution(v, cellName, cells, offs)))
		}
		if len(msgs) >= 3 {
			return msgs
		}
	}
	if got.c.Cmp(want.c) != 0 {
		msgs = append(msgs, fmt.Sprintf("constant term of %s is %s, want %s", sumName, prettyRat(got.c), prettyRat(want.c)))
	}
	return msgs
}

// P25519 is 2^255 - 19.
var P25519 = new(big.Int).Sub(pow2(255), big.NewInt(19))

// ratModP maps a rational whose denominator is prime to p into Z/p.
func ratModP(r *big.Rat, p *big.Int) (*big.Int, bool) {
	d := new(big.Int).Mod(r.Denom(), p)
	if d.Sign() == 0 {
		return nil, false
	}
	inv := new(big.Int).ModInverse(d, p)
	n := new(big.Int).Mod(r.Num(), p)
	n.Mul(n, inv)
	return n.Mod(n, p), true
}

// diffModP compares got and want coefficient-wise modulo p in Z[1/2]: if
// every coefficient of got-want is p times a dyadic rational then got-want,
// which is an integer, is a multiple of the odd prime p.
func (w *World) diffModP(got, want *Form, sumName, cellName string, cells []*Int, offs []uint) []string {
	if m := w.opaqueIn(got, sumName); m != "" {
		return []string{m}
	}
	var msgs []string
	p := P25519
	for _, v := range unionVars(got, want) {
		g, ok1 := ratModP(got.Coef(v), p)
		e, ok2 := ratModP(want.Coef(v), p)
		if !ok1 || !ok2 {
			msgs = append(msgs, fmt.Sprintf("coefficient of %s has a denominator divisible by p", w.Var(v).Name))
			continue
		}
		if g.Cmp(e) == 0 {
			continue
		}
		vi := w.Var(v)
		if vi.Kind == VOpaque {
			msgs = append(msgs, fmt.Sprintf("undecided: %s depends on %s, the result of an operation outside the affine/layout domain", sumName, vi.Name))
		} else {
			wantDesc := shortInt(e)
			if want.Coef(v).Sign() != 0 && want.Coef(v).IsInt() {
				wantDesc = fmt.Sprintf("%s mod p = %s", prettyRat(want.Coef(v)), shortInt(e))
			}
			gotDesc := prettyRat(got.Coef(v))
			if !got.Coef(v).IsInt() || got.Coef(v).Num().Cmp(g) != 0 {
				gotDesc += " = " + shortInt(g) + " (mod p)"
			}
			msgs = append(msgs, fmt.Sprintf("coefficient of %s in %s is %s, want = %s (%s)", vi.Name, sumName, gotDesc, wantDesc, attribution(v, cellName, cells, offs)))
		}
		if len(msgs) >= 3 {
			return msgs
		}
	}
	g, ok1 := ratModP(got.c, p)
	e, ok2 := ratModP(want.c, p)
	if !ok1 || !ok2 || g.Cmp(e) != 0 {
		msgs = append(msgs, fmt.Sprintf("constant term of %s is %s, want = %s (mod p)", sumName, prettyRat(got.c), prettyRat(want.c)))
	}
	return msgs
}

// layoutWithin checks that every cell is a bit layout over input bits inside
// its nominal width.
func (w *World) layoutWithin(cells []*Int, widths []uint, cellName string) []string {
	var msgs []string
	for i, c := range cells {
		l, ok := w.layoutOf(c)
		if !ok {
			msgs = append(msgs, fmt.Sprintf("%s %d is not a bit layout of the input (its form is not a sum of distinct powers of two of 0/1 variables); range %s", cellName, i, c.R))
			continue
		}
		if top := l.top(); uint(top) > widths[i] {
			who := "a constant 1"
			if cell := l[top-1]; cell > 0 {
				who = w.Var(int(cell - 1)).Name
			}
			msgs = append(msgs, fmt.Sprintf("%s %d holds %s at position %d, outside its nominal width of %d bits", cellName, i, who, top-1, widths[i]))
		}
		for _, cell := range l {
			if cell > 0 && w.Var(int(cell-1)).Kind != VBit {
				msgs = append(msgs, fmt.Sprintf("%s %d depends on %s", cellName, i, w.Var(int(cell-1)).Name))
				break
			}
		}
	}
	return msgs
}

func fmtBound(b *big.Int) string {
	if b.Sign() <= 0 {
		return b.String()
	}
	k := uint(b.BitLen() - 1)
	rest := new(big.Int).Sub(b, pow2(k))
	if rest.Sign() == 0 {
		return fmt.Sprintf("2^%d", k)
	}
	if new(big.Int).Add(b, bigOne).Cmp(pow2(k+1)) == 0 {
		return fmt.Sprintf("2^%d-1", k+1)
	}
	if k >= 16 {
		return fmt.Sprintf("2^%d+%s", k, rest)
	}
	return b.String()
}
