package elin

import (
	"fmt"
	"go/types"
	"math/big"
	"os"
	"sort"
	"strings"

	"golang.org/x/tools/go/ssa"

	"voicheck/easm"
	"voicheck/load"
)

// Abstract interpretation of Go assembly (amd64, Plan 9 syntax) in the E-LIN
// domain.  The integer assembly of internal/field (feMul, fePow2k) is
// straight-line 64-bit arithmetic: MOVQ / MULQ / IMUL3Q / ADDQ / ADCQ /
// SHLQ / SHRQ / ANDQ and one counted loop on a public argument.  Each
// instruction is given the SAME transfer function as the corresponding Go
// construct (bits.Mul64 = division identity on the monomial expansion of the
// product, bits.Add64 = carry symbol, x>>k / x&(2^k-1) = division identity),
// so that the obligations on the result (value modulo p coefficient-wise in
// the monomials, every word fits) are those of the Go twin feMulGeneric.
//
// Nothing is assembled or executed: the text of the .s file selected by the
// build configuration is scanned by package easm.  An instruction or operand
// form outside the modelled set makes the function undecided (a failure).

// AsmSet holds the scanned TEXT symbols of a package's assembly files.
type AsmSet struct {
	Rel  string
	Syms map[string]*easm.Symbol // Go-side name -> symbol
}

// LoadAsm scans the .s files of the module-relative package rel in p.
func LoadAsm(p *load.Program, rel string) (*AsmSet, error) {
	pk := p.ByRel[rel]
	if pk == nil {
		return nil, fmt.Errorf("package %s is not loaded", rel)
	}
	set := &AsmSet{Rel: rel, Syms: map[string]*easm.Symbol{}}
	var sfiles []string
	for _, of := range pk.OtherFiles {
		if strings.HasSuffix(of, ".s") {
			sfiles = append(sfiles, of)
		}
	}
	sort.Strings(sfiles)
	for _, path := range sfiles {
		src, err := os.ReadFile(path)
		if err != nil {
			return nil, err
		}
		f, err := easm.ParseFile(strings.TrimPrefix(path, load.RepoDir()+"/"), src)
		if err != nil {
			return nil, err
		}
		if f == nil {
			continue
		}
		for _, s := range f.Symbols {
			set.Syms[s.Name] = s
		}
	}
	return set, nil
}

// asmFor returns the assembly symbol implementing the body-less function fn.
func (w *World) asmFor(fn *ssa.Function) *easm.Symbol {
	if w.Asm == nil || fn == nil || fn.Pkg == nil || load.Rel(fn.Pkg.Pkg) != w.Asm.Rel || fn.Signature.Recv() != nil {
		return nil
	}
	return w.Asm.Syms[fn.Name()]
}

type asmUndecided struct{ pos, fn, msg string }

// AsmHavoc records one memory word that was replaced by a fresh symbol when
// a backward jump was taken (loop summarisation by the drivers).
type AsmHavoc struct {
	Obj  int
	Path []int
	Old  *Int
	Var  int
}

type asmState struct {
	w    *World
	mem  *Memory
	sym  *easm.Symbol
	fn   *ssa.Function
	regs map[string]Value
	cf   *Int // carry flag (nil: undefined)
	zf   *Int // the word whose zero-ness ZF reflects (nil: undefined)
	args map[int64]Value
	name map[int64]string
	wr   map[string]*Ptr // words stored by this activation
	cur  *easm.Inst
}

func (st *asmState) pos() string {
	if st.cur != nil {
		return fmt.Sprintf("%s:%d", st.sym.File, st.cur.Line)
	}
	return fmt.Sprintf("%s:%d", st.sym.File, st.sym.Line)
}

func (st *asmState) und(format string, a ...any) {
	panic(asmUndecided{st.pos(), load.FuncName(st.fn) + " (assembly)", fmt.Sprintf(format, a...)})
}

func (st *asmState) fail(format string, a ...any) {
	w := st.w
	msg := fmt.Sprintf(format, a...)
	if st.cur != nil {
		msg = st.cur.Text + ": " + msg
	}
	key := st.pos() + "|" + msg
	if w.failSeen[key] {
		return
	}
	w.failSeen[key] = true
	w.Fails = append(w.Fails, Failure{Pos: st.pos(), Fn: load.FuncName(st.fn) + " (assembly)", Msg: msg})
	if len(w.Fails) > MaxFails {
		st.und("more than %d failures recorded: interpretation abandoned", MaxFails)
	}
}

var u64kind = ikind{bits: 64}

// word64 lists the paths of the 8-byte integer words of t in layout order.
func word64(t types.Type, prefix []int, out *[][]int) bool {
	switch u := t.Underlying().(type) {
	case *types.Basic:
		switch u.Kind() {
		case types.Uint64, types.Int64:
			*out = append(*out, append([]int(nil), prefix...))
			return true
		}
		return false
	case *types.Array:
		if u.Len() > maxAggLen {
			return false
		}
		for i := 0; i < int(u.Len()); i++ {
			if !word64(u.Elem(), append(prefix, i), out) {
				return false
			}
		}
		return true
	case *types.Struct:
		for i := 0; i < u.NumFields(); i++ {
			if !word64(u.Field(i).Type(), append(prefix, i), out) {
				return false
			}
		}
		return true
	}
	return false
}

// typeAt is the type of the sub-object of t at path.
func typeAt(t types.Type, path []int) types.Type {
	for _, i := range path {
		switch u := t.Underlying().(type) {
		case *types.Array:
			t = u.Elem()
		case *types.Struct:
			if i < 0 || i >= u.NumFields() {
				return nil
			}
			t = u.Field(i).Type()
		default:
			return nil
		}
	}
	return t
}

// cell resolves off(base) to the memory word it denotes.
func (st *asmState) cell(op *easm.Operand) *Ptr {
	if op.Index != "" {
		st.und("indexed memory operand %s is not modelled", op.Text)
	}
	bv, ok := st.regs[op.Base]
	if !ok {
		st.und("base register %s of %s is not defined", op.Base, op.Text)
	}
	bp, ok := bv.(*Ptr)
	if !ok || bp.G != nil {
		st.und("base register %s of %s does not hold a pointer to a tracked object", op.Base, op.Text)
	}
	ot := st.mem.types[bp.Obj]
	if ot == nil {
		st.und("the type of the object addressed by %s is unknown", op.Text)
	}
	sub := typeAt(ot, bp.Path)
	if sub == nil {
		st.und("cannot type the object addressed by %s", op.Text)
	}
	var words [][]int
	if !word64(sub, nil, &words) {
		st.und("the object addressed by %s is not made of 64-bit words", op.Text)
	}
	if op.Off < 0 || op.Off%8 != 0 || int(op.Off/8) >= len(words) {
		st.fail("memory operand %s is outside the %d-byte object its base points to", op.Text, 8*len(words))
		st.und("memory operand %s outside its object", op.Text)
	}
	p := &Ptr{Obj: bp.Obj, Path: append(append([]int(nil), bp.Path...), words[op.Off/8]...)}
	return p
}

func (st *asmState) readInt(op *easm.Operand) *Int {
	switch op.Kind {
	case easm.OpImm:
		return st.w.concInt(new(big.Int).SetUint64(op.Imm))
	case easm.OpReg:
		v, ok := st.regs[op.Reg]
		if !ok {
			st.und("register %s is read before it is written", op.Reg)
		}
		x, ok := v.(*Int)
		if !ok {
			st.und("register %s holds a pointer where an integer is needed", op.Reg)
		}
		return x
	case easm.OpMem:
		v, ok := st.mem.load(st.cell(op))
		if !ok {
			st.und("cannot load %s", op.Text)
		}
		x, ok := v.(*Int)
		if !ok {
			st.und("%s does not hold an integer word", op.Text)
		}
		return x
	case easm.OpFP:
		v, ok := st.args[op.Off]
		if !ok {
			st.und("argument slot %s does not correspond to a parameter", op.Text)
		}
		if n := st.name[op.Off]; n != op.Sym {
			st.fail("argument slot %s names %q but offset %d is parameter %q", op.Text, op.Sym, op.Off, n)
		}
		x, ok := v.(*Int)
		if !ok {
			st.und("argument %s is not an integer", op.Text)
		}
		return x
	}
	st.und("operand %s is not modelled", op.Text)
	return nil
}

func (st *asmState) readAny(op *easm.Operand) Value {
	switch op.Kind {
	case easm.OpReg:
		v, ok := st.regs[op.Reg]
		if !ok {
			st.und("register %s is read before it is written", op.Reg)
		}
		return v
	case easm.OpFP:
		v, ok := st.args[op.Off]
		if !ok {
			st.und("argument slot %s does not correspond to a parameter", op.Text)
		}
		if n := st.name[op.Off]; n != op.Sym {
			st.fail("argument slot %s names %q but offset %d is parameter %q", op.Text, op.Sym, op.Off, n)
		}
		return v
	}
	return st.readInt(op)
}

func (st *asmState) write(op *easm.Operand, v Value) {
	switch op.Kind {
	case easm.OpReg:
		if easm.IsVectorReg(op.Reg) {
			st.und("vector register %s is not modelled", op.Reg)
		}
		st.regs[op.Reg] = v
	case easm.OpMem:
		p := st.cell(op)
		if _, ok := v.(*Int); !ok {
			st.und("store of a non-integer to %s", op.Text)
		}
		if !st.mem.store(p, v) {
			st.und("cannot store to %s", op.Text)
		}
		st.wr[fmt.Sprint(p.Obj, p.Path)] = p
	default:
		st.und("destination %s is not modelled", op.Text)
	}
}

// fit64 requires the mathematical value of x to be a 64-bit word.
func (st *asmState) fit64(x *Int, what string) *Int {
	if x.R.Lo.Sign() >= 0 && x.R.Hi.Cmp(pow2m1(64)) <= 0 {
		return x
	}
	st.fail("%s may wrap its 64-bit register: it ranges over %s", what, x.R)
	return st.w.opaqueInt(Itv{bigZero, pow2m1(64)}, "wrapped "+what)
}

func (st *asmState) add(x, y, c *Int) (*Int, *Int) {
	return st.w.addCarry(nil, x, y, c, false)
}

// execAsm interprets sym on args; the results of the modelled symbols are
// written through their pointer arguments.
func (w *World) execAsm(fn *ssa.Function, sym *easm.Symbol, args []Value, mem *Memory) {
	st := &asmState{w: w, mem: mem, sym: sym, fn: fn, regs: map[string]Value{}, args: map[int64]Value{}, name: map[int64]string{}, wr: map[string]*Ptr{}}
	if fn.Signature.Results().Len() != 0 {
		st.und("assembly functions with results are not modelled")
	}
	off := int64(0)
	for i := 0; i < fn.Signature.Params().Len(); i++ {
		pv := fn.Signature.Params().At(i)
		switch u := pv.Type().Underlying().(type) {
		case *types.Pointer:
		case *types.Basic:
			switch u.Kind() {
			case types.Uint64, types.Int64, types.Uint, types.Int, types.Uintptr:
			default:
				st.und("parameter %s of type %s is not modelled", pv.Name(), pv.Type())
			}
		default:
			st.und("parameter %s of type %s is not modelled", pv.Name(), pv.Type())
		}
		if i < len(args) {
			st.args[off] = args[i]
			st.name[off] = pv.Name()
		}
		off += 8
	}
	w.Stats["assembly functions interpreted"]++
	backEdges := 0
	for pc := 0; pc < len(sym.Insts); {
		in := sym.Insts[pc]
		st.cur = in
		w.steps++
		if w.steps > MaxSteps*4 {
			st.und("instruction budget exceeded")
		}
		ops := in.Ops
		next := pc + 1
		switch in.Mnemonic {
		case "RET":
			return
		case "MOVQ":
			if len(ops) != 2 {
				st.und("unexpected operand count")
			}
			st.write(&ops[1], st.readAny(&ops[0]))
		case "XORQ":
			if len(ops) == 2 && ops[0].Kind == easm.OpReg && ops[1].Kind == easm.OpReg && ops[0].Reg == ops[1].Reg {
				z := mkConst(0)
				st.regs[ops[1].Reg] = z
				st.cf, st.zf = mkConst(0), z
			} else {
				st.und("XORQ of two different operands is not modelled")
			}
		case "MULQ":
			if len(ops) != 1 {
				st.und("unexpected operand count")
			}
			x := st.readInt(&easm.Operand{Kind: easm.OpReg, Reg: "AX", Text: "AX"})
			y := st.readInt(&ops[0])
			var p *Int
			ar := x.R.Mul(y.R)
			if a, ok := concOf(x); ok {
				p = w.mkInt(y.F().ScaleInt(a), &ar)
			} else if b, ok := concOf(y); ok {
				p = w.mkInt(x.F().ScaleInt(b), &ar)
			} else {
				p, _ = w.product(x, y)
			}
			if p == nil {
				st.fail("product of two operands that are not affine in the input limbs (degree > 2)")
				st.regs["DX"] = w.opaqueInt(Itv{bigZero, pow2m1(64)}, "high word of a product of two non-input forms")
				st.regs["AX"] = w.opaqueInt(Itv{bigZero, pow2m1(64)}, "low word of a product of two non-input forms")
			} else {
				hi, lo := w.divmod(nil, p, 64)
				st.regs["DX"], st.regs["AX"] = hi, lo
			}
			st.cf, st.zf = nil, nil
		case "IMUL3Q", "IMULQ":
			var c, x *Int
			var dst *easm.Operand
			switch {
			case in.Mnemonic == "IMUL3Q" && len(ops) == 3:
				c, x, dst = st.readInt(&ops[0]), st.readInt(&ops[1]), &ops[2]
			case in.Mnemonic == "IMULQ" && len(ops) == 2:
				c, x, dst = st.readInt(&ops[0]), st.readInt(&ops[1]), &ops[1]
			default:
				st.und("unexpected operand count")
			}
			if _, ok := concOf(c); !ok {
				c, x = x, c
			}
			k, ok := concOf(c)
			if !ok {
				st.und("multiplication of two non-constant words by IMUL is not modelled")
			}
			ar := x.R.Mul(single(k))
			st.write(dst, st.fit64(w.mkInt(x.F().ScaleInt(k), &ar), "the product"))
			st.cf, st.zf = nil, nil
		case "ADDQ", "ADCQ":
			if len(ops) != 2 {
				st.und("unexpected operand count")
			}
			x, y := st.readInt(&ops[0]), st.readInt(&ops[1])
			c := mkConst(0)
			if in.Mnemonic == "ADCQ" {
				if st.cf == nil {
					st.und("ADCQ consumes a carry flag that no modelled instruction defined")
				}
				c = st.cf
			}
			res, carry := st.add(x, y, c)
			st.write(&ops[1], res)
			st.cf, st.zf = carry, res
		case "LEAQ":
			if len(ops) != 2 || ops[0].Kind != easm.OpMem || ops[1].Kind != easm.OpReg {
				st.und("LEAQ form is not modelled")
			}
			acc := w.concInt(big.NewInt(ops[0].Off))
			var f *Form = acc.F()
			ar := acc.R
			if ops[0].Base != "" {
				b := st.readInt(&easm.Operand{Kind: easm.OpReg, Reg: ops[0].Base, Text: ops[0].Base})
				f, ar = f.Add(b.F()), ar.Add(b.R)
			}
			if ops[0].Index != "" {
				ix := st.readInt(&easm.Operand{Kind: easm.OpReg, Reg: ops[0].Index, Text: ops[0].Index})
				s := big.NewInt(int64(ops[0].Scale))
				f, ar = f.Add(ix.F().ScaleInt(s)), ar.Add(ix.R.Mul(single(s)))
			}
			st.regs[ops[1].Reg] = st.fit64(w.mkInt(f, &ar), "the LEAQ sum")
		case "SHLQ":
			switch len(ops) {
			case 2:
				k, ok := concOf(st.readInt(&ops[0]))
				if !ok || k.Sign() < 0 || k.Cmp(big.NewInt(63)) > 0 {
					st.und("shift count is not a constant in 0..63")
				}
				x := st.readInt(&ops[1])
				ar := x.R.Mul(single(pow2(uint(k.Int64()))))
				st.write(&ops[1], st.fit64(w.mkInt(x.F().Shl(uint(k.Int64())), &ar), "the shifted word"))
			case 3:
				// SHLQ $k, lo, hi : hi = hi<<k | lo>>(64-k)
				k, ok := concOf(st.readInt(&ops[0]))
				if !ok || k.Sign() <= 0 || k.Cmp(big.NewInt(63)) > 0 {
					st.und("shift count is not a constant in 1..63")
				}
				kk := uint(k.Int64())
				lo, hi := st.readInt(&ops[1]), st.readInt(&ops[2])
				ar := hi.R.Mul(single(pow2(kk)))
				up := st.fit64(w.mkInt(hi.F().Shl(kk), &ar), "the high word shifted left (bits shifted out of a double-word shift)")
				q, _ := w.divmod(nil, lo, 64-kk)
				sr := up.R.Add(q.R)
				st.write(&ops[2], st.fit64(w.mkInt(up.F().Add(q.F()), &sr), "the double-word shift"))
			default:
				st.und("unexpected operand count")
			}
			st.cf, st.zf = nil, nil
		case "SHRQ":
			switch len(ops) {
			case 2:
				k, ok := concOf(st.readInt(&ops[0]))
				if !ok || k.Sign() < 0 || k.Cmp(big.NewInt(63)) > 0 {
					st.und("shift count is not a constant in 0..63")
				}
				q, _ := w.divmod(nil, st.readInt(&ops[1]), uint(k.Int64()))
				st.write(&ops[1], q)
			case 3:
				// SHRQ $k, hi, lo : lo = lo>>k | hi<<(64-k)
				k, ok := concOf(st.readInt(&ops[0]))
				if !ok || k.Sign() <= 0 || k.Cmp(big.NewInt(63)) > 0 {
					st.und("shift count is not a constant in 1..63")
				}
				kk := uint(k.Int64())
				hi, lo := st.readInt(&ops[1]), st.readInt(&ops[2])
				q, _ := w.divmod(nil, lo, kk)
				_, r := w.divmod(nil, hi, kk) // the low k bits of hi enter at the top
				ar := q.R.Add(r.R.Mul(single(pow2(64 - kk))))
				st.write(&ops[2], st.fit64(w.mkInt(q.F().Add(r.F().Shl(64-kk)), &ar), "the double-word shift"))
			default:
				st.und("unexpected operand count")
			}
			st.cf, st.zf = nil, nil
		case "ANDQ":
			if len(ops) != 2 {
				st.und("unexpected operand count")
			}
			x, y := st.readInt(&ops[0]), st.readInt(&ops[1])
			var res *Int
			mask, val := x, y
			if _, ok := concOf(mask); !ok {
				mask, val = y, x
			}
			if m, ok := concOf(mask); ok {
				if k, isPow := log2Exact(new(big.Int).Add(m, bigOne)); isPow {
					_, res = w.divmod(nil, val, k)
				}
			}
			if res == nil {
				res = w.and(nil, u64kind, x, y)
			}
			st.write(&ops[1], res)
			st.cf, st.zf = mkConst(0), res
		case "DECQ", "INCQ":
			if len(ops) != 1 {
				st.und("unexpected operand count")
			}
			x := st.readInt(&ops[0])
			d := int64(-1)
			if in.Mnemonic == "INCQ" {
				d = 1
			}
			ar := x.R.Add(single(big.NewInt(d)))
			res := st.fit64(w.mkInt(x.F().Add(int64Form(d)), &ar), "the counter")
			st.write(&ops[0], res)
			st.zf = res // CF is unchanged
		case "SUBQ":
			if len(ops) != 2 {
				st.und("unexpected operand count")
			}
			x, y := st.readInt(&ops[0]), st.readInt(&ops[1])
			ar := y.R.Sub(x.R)
			res := st.fit64(w.mkInt(y.F().Sub(x.F()), &ar), "the difference")
			st.write(&ops[1], res)
			st.cf, st.zf = mkConst(0), res
		case "JNZ", "JNE", "JZ", "JEQ", "JMP":
			if len(ops) != 1 || ops[0].Kind != easm.OpLabel {
				st.und("jump target is not a label")
			}
			tgt, ok := sym.Labels[ops[0].Sym]
			if !ok {
				st.und("unknown label %s", ops[0].Sym)
			}
			taken := true
			if in.Mnemonic != "JMP" {
				if st.zf == nil {
					st.und("conditional jump on a zero flag that no modelled instruction defined")
				}
				n, ok := concOf(st.zf)
				if !ok {
					st.und("conditional jump on a word that is not concrete (%s)", st.zf.R)
				}
				zero := n.Sign() == 0
				taken = zero == (in.Mnemonic == "JZ" || in.Mnemonic == "JEQ")
			}
			if taken {
				if tgt <= pc {
					backEdges++
					if backEdges > 64 {
						st.und("more than 64 backward jumps taken")
					}
					if w.OnAsmBackEdge != nil {
						w.OnAsmBackEdge(st)
					}
				}
				next = tgt
			}
		default:
			st.und("instruction %s is not modelled", in.Mnemonic)
		}
		pc = next
	}
	st.cur = nil
	st.und("control runs off the end of the symbol without RET")
}

// HavocStored replaces every non-concrete word stored so far by the current
// assembly activation with a fresh input symbol bounded by the word's range
// and returns the replacements (in a deterministic order).
func (st *asmState) HavocStored(group string) []AsmHavoc {
	keys := make([]string, 0, len(st.wr))
	for k := range st.wr {
		keys = append(keys, k)
	}
	sort.Strings(keys)
	var out []AsmHavoc
	for _, k := range keys {
		p := st.wr[k]
		v, ok := st.mem.load(p)
		x, isInt := v.(*Int)
		if !ok || !isInt {
			continue
		}
		if _, c := concOf(x); c {
			continue
		}
		lo := x.R.Lo
		if lo.Sign() < 0 {
			lo = bigZero
		}
		nv := st.w.SymVar(group, len(out), lo, x.R.Hi)
		st.mem.store(p, st.w.symInt(nv))
		out = append(out, AsmHavoc{Obj: p.Obj, Path: append([]int(nil), p.Path...), Old: x, Var: nv})
	}
	return out
}
