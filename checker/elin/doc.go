// Package elin is the E-LIN engine: an abstract interpreter over go/ssa whose
// value domain is affine forms with rational coefficients over named 0/1
// input bits and bounded fresh symbols (a Karr-style affine relational
// domain restricted to straight-line code after concrete unrolling).
//
// Purpose: decide, purely from source and for EVERY input, that the
// byte<->limb pack/unpack routines of internal/field and curve/scalar and the
// scalar digit recodings of curve/scalar preserve the value ("the weighted
// sum of the outputs equals the weighted sum of the inputs", exactly or
// modulo p = 2^255-19) and keep their outputs inside the documented ranges, in
// both radices (64-bit and 32-bit back ends).
//
// Nothing of the analysed repository is executed, no path conditions are
// kept and no solver is involved.
//
// # Domain
//
// A machine word is abstracted by an affine form F = c0 + sum c_v*v (form.go)
// together with an integer interval R that is known to contain its value
// (the reduced product of the affine domain with intervals; R is the
// intersection of the interval evaluation of F with ordinary interval
// arithmetic on the operands).  Invariant: the machine word EQUALS the
// mathematical value of F (not merely modulo 2^w): every arithmetic result
// must be shown by R to fit its machine type, otherwise the instruction is
// reported ("may wrap") and the result becomes an opaque symbol.  Exceptions
// are the idioms that are modelled exactly:
//
//   - bit-structured forms (layouts: every coefficient a distinct power of
//     two over 0/1 variables, the constant a sum of other powers): shifts,
//     masks, |, ^ and + of position-disjoint layouts, narrowing conversions
//     act on the bit positions (bits shifted out of the word are dropped,
//     which is what the machine does);
//   - x>>k, x&(2^k-1), x&^(2^k-1) and narrowing conversions of a form that is
//     not a layout use the division identity x = 2^k*q + r with r a fresh
//     remainder in [0,2^k), memoised on (F,k) and represented by k fresh 0/1
//     variables (so that a masked word can be repacked bit by bit);
//     q = (F-r)/2^k has rational coefficients;
//   - operations on two concrete operands are evaluated with the exact Go
//     semantics (including wrap-around of constants; counted in the
//     statistics).
//
// Anything else (product of two non-constant forms, & or | of values that
// are not layouts ...) yields an opaque bounded symbol; an output that
// mentions one is reported as undecided.
//
// Memory: objects are trees of cells with strong updates (value.go); slices
// are windows of array objects with concrete bounds.
//
// Control: loop counters are concrete, so counted loops unroll; calls to
// module functions and closures are inlined (depth <= MaxDepth); a branch
// whose condition is not concrete makes the function undecided (a failure),
// except in the NonAdjacentForm tabulation (naf.go) where the branch
// variables are enumerated.
//
// # Files
//
//	form.go    affine forms, intervals, layouts
//	value.go   abstract values and memory
//	world.go   variables, division identity, statistics, failures
//	ops.go     transfer functions
//	interp.go  the interpreter (frames, calls, builtins, hooks)
//	spec.go    helpers shared by the drivers (inputs, comparisons, reporting)
//	field.go   CheckField: internal/field SetBytes, SetBytesWide, reduce, ToBytes
//	scalar.go  CheckScalarPack: unpackedScalar SetBytes, ToBytes, SetBytesWide
//	recode.go  CheckRecodings: Bits, ToRadix16, ToRadix2w
//	naf.go     CheckRecodings: NonAdjacentForm (tabulated loop body)
package elin
