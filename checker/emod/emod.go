// Package emod implements E-MOD of DESIGN.md: may-write summaries per
// function and pointer parameter, global immutability outside package
// initialisation, read-only use of shared precomputed objects, and the lock
// discipline of structs that contain a sync.Mutex.
package emod

import (
	"fmt"
	"go/token"
	"go/types"
	"sort"
	"strings"

	"golang.org/x/tools/go/ssa"

	"voicheck/load"
)

// root kinds of a pointer-like value
type rootSet struct {
	params  map[int]bool    // parameter (or free variable, offset by len(params)) the value derives from
	globals map[string]bool // module globals ("pkg.Name")
	local   bool            // memory allocated in this function
	unknown bool
}

func newRoots() *rootSet { return &rootSet{params: map[int]bool{}, globals: map[string]bool{}} }

func (r *rootSet) add(o *rootSet) {
	for k := range o.params {
		r.params[k] = true
	}
	for k := range o.globals {
		r.globals[k] = true
	}
	r.local = r.local || o.local
	r.unknown = r.unknown || o.unknown
}

// Summary of one function.
type Summary struct {
	Reads   map[int]bool // parameter indices whose pointee may be loaded from
	Writes  map[int]bool // parameter indices (receiver = 0; free variables after the parameters) written through
	Returns map[int]bool // parameters a pointer-like result may alias
	// WritesGlobals: module globals written (directly or through callees)
	WritesGlobals map[string]string // global -> position of a witnessing store
	// ReturnsGlobals: module globals a pointer-like result may point into
	ReturnsGlobals map[string]bool
}

// Mod is the analysis over one program.
type Mod struct {
	P         *load.Program
	Sum       map[*ssa.Function]*Summary
	AsmWrites map[string][]int // from E-ASM (printable name -> written parameter indices); nil entry = all pointer params
	InitOnly  map[*ssa.Function]bool
	funcs     []*ssa.Function
	roots     map[*ssa.Function]map[ssa.Value]*rootSet
}

// New computes the summaries to a fixpoint.
func New(p *load.Program, asmWrites map[string][]int) *Mod { return NewRW(p, asmWrites, nil) }

// NewRW is New with the read sets of the assembly routines as well.
func NewRW(p *load.Program, asmWrites, asmReads map[string][]int) *Mod {
	m := &Mod{P: p, Sum: map[*ssa.Function]*Summary{}, AsmWrites: asmWrites, roots: map[*ssa.Function]map[ssa.Value]*rootSet{}}
	m.funcs = p.ModuleFuncs()
	for _, fn := range m.funcs {
		m.Sum[fn] = &Summary{Reads: map[int]bool{}, Writes: map[int]bool{}, Returns: map[int]bool{}, WritesGlobals: map[string]string{}, ReturnsGlobals: map[string]bool{}}
		if len(fn.Blocks) == 0 {
			// assembly
			name := load.FuncName(fn)
			if w, ok := asmWrites[name]; ok {
				for _, i := range w {
					m.Sum[fn].Writes[i] = true
				}
			} else {
				for i, prm := range fn.Params {
					if pointerLike(prm.Type()) {
						m.Sum[fn].Writes[i] = true
					}
				}
			}
			if r, ok := asmReads[load.FuncName(fn)]; ok {
				for _, i := range r {
					m.Sum[fn].Reads[i] = true
				}
			} else {
				for i, prm := range fn.Params {
					if pointerLike(prm.Type()) {
						m.Sum[fn].Reads[i] = true
					}
				}
			}
		}
	}
	m.InitOnly = initOnly(p, m.funcs)
	for iter := 0; iter < 20; iter++ {
		changed := false
		for _, fn := range m.funcs {
			if len(fn.Blocks) == 0 {
				continue
			}
			if m.analyse(fn) {
				changed = true
			}
		}
		if !changed {
			break
		}
	}
	return m
}

func pointerLike(t types.Type) bool {
	switch t.Underlying().(type) {
	case *types.Pointer, *types.Slice, *types.Map, *types.Chan, *types.Interface, *types.Signature:
		return true
	}
	return false
}

func globalName(g *ssa.Global) string { return load.Rel(g.Pkg.Pkg) + "." + g.Name() }

// rootsOf computes the roots of a pointer-like value (memoised per function,
// recomputed each fixpoint round because callee summaries change).
func (m *Mod) rootsOf(fn *ssa.Function, v ssa.Value, memo map[ssa.Value]*rootSet, depth int) *rootSet {
	if r, ok := memo[v]; ok {
		return r
	}
	r := newRoots()
	memo[v] = r // cycle guard (phis)
	if depth > 40 {
		r.unknown = true
		return r
	}
	switch x := v.(type) {
	case *ssa.Parameter:
		for i, p := range fn.Params {
			if p == x {
				r.params[i] = true
			}
		}
	case *ssa.FreeVar:
		for i, p := range fn.FreeVars {
			if p == x {
				r.params[len(fn.Params)+i] = true
			}
		}
	case *ssa.Global:
		if load.IsModule(x.Pkg.Pkg) {
			r.globals[globalName(x)] = true
		} else {
			r.unknown = true
		}
	case *ssa.Alloc, *ssa.MakeSlice, *ssa.MakeMap, *ssa.MakeChan, *ssa.MakeClosure:
		r.local = true
	case *ssa.Const, *ssa.Function, *ssa.Builtin:
	case *ssa.FieldAddr:
		r.add(m.rootsOf(fn, x.X, memo, depth+1))
	case *ssa.IndexAddr:
		r.add(m.rootsOf(fn, x.X, memo, depth+1))
	case *ssa.Slice:
		r.add(m.rootsOf(fn, x.X, memo, depth+1))
	case *ssa.SliceToArrayPointer:
		r.add(m.rootsOf(fn, x.X, memo, depth+1))
	case *ssa.ChangeType:
		r.add(m.rootsOf(fn, x.X, memo, depth+1))
	case *ssa.Convert:
		if pointerLike(x.X.Type()) {
			r.add(m.rootsOf(fn, x.X, memo, depth+1))
		} else {
			r.local = true // []byte(string): a fresh copy
		}
	case *ssa.ChangeInterface:
		r.add(m.rootsOf(fn, x.X, memo, depth+1))
	case *ssa.MakeInterface:
		if pointerLike(x.X.Type()) {
			r.add(m.rootsOf(fn, x.X, memo, depth+1))
		} else {
			r.local = true
		}
	case *ssa.TypeAssert:
		r.add(m.rootsOf(fn, x.X, memo, depth+1))
	case *ssa.Phi:
		for _, e := range x.Edges {
			r.add(m.rootsOf(fn, e, memo, depth+1))
		}
	case *ssa.UnOp:
		if x.Op == token.MUL {
			// pointer loaded from memory: reachable from whatever the address derives from
			r.add(m.rootsOf(fn, x.X, memo, depth+1))
		} else {
			r.unknown = true
		}
	case *ssa.Extract:
		r.add(m.callResultRoots(fn, x.Tuple, x.Index, memo, depth))
	case *ssa.Call:
		r.add(m.callResultRoots(fn, x, 0, memo, depth))
	case *ssa.Lookup, *ssa.Index, *ssa.Field:
		// element of an aggregate value / map: derive from the container
		switch y := x.(type) {
		case *ssa.Lookup:
			r.add(m.rootsOf(fn, y.X, memo, depth+1))
		case *ssa.Index:
			r.add(m.rootsOf(fn, y.X, memo, depth+1))
		case *ssa.Field:
			r.add(m.rootsOf(fn, y.X, memo, depth+1))
		}
	case *ssa.Next, *ssa.Range:
		r.unknown = true
	default:
		r.unknown = true
	}
	return r
}

func (m *Mod) callResultRoots(fn *ssa.Function, tuple ssa.Value, idx int, memo map[ssa.Value]*rootSet, depth int) *rootSet {
	r := newRoots()
	call, ok := tuple.(*ssa.Call)
	if !ok {
		// TypeAssert commaok, Lookup commaok, ...
		switch t := tuple.(type) {
		case *ssa.TypeAssert:
			r.add(m.rootsOf(fn, t.X, memo, depth+1))
		case *ssa.Lookup:
			r.add(m.rootsOf(fn, t.X, memo, depth+1))
		default:
			r.unknown = true
		}
		return r
	}
	if bi, ok := call.Call.Value.(*ssa.Builtin); ok {
		if bi.Name() == "append" {
			r.add(m.rootsOf(fn, call.Call.Args[0], memo, depth+1))
			r.local = true
		}
		return r
	}
	targets := m.targets(fn, call)
	if len(targets) == 0 {
		r.local = true // external constructor / unknown: a fresh or foreign object
		r.unknown = true
		return r
	}
	for _, t := range targets {
		s := m.Sum[t.fn]
		if s == nil {
			r.unknown = true
			continue
		}
		if len(s.Returns) == 0 {
			r.local = true
		}
		for g := range s.ReturnsGlobals {
			r.globals[g] = true
		}
		for pi := range s.Returns {
			if pi < len(t.args) {
				r.add(m.rootsOf(fn, t.args[pi], memo, depth+1))
			}
		}
	}
	return r
}

type target struct {
	fn   *ssa.Function
	args []ssa.Value // aligned with fn.Params, then bindings for free variables
}

// targets resolves the module callees of a call (static, closure, or
// through the call graph for invokes and function values).
func (m *Mod) targets(fn *ssa.Function, instr ssa.CallInstruction) []target {
	common := instr.Common()
	var out []target
	if common.IsInvoke() {
		args := append([]ssa.Value{common.Value}, common.Args...)
		if node := m.P.CallGraph().Nodes[fn]; node != nil {
			for _, e := range node.Out {
				if e.Site == instr && e.Callee.Func != nil && m.Sum[e.Callee.Func] != nil {
					out = append(out, target{e.Callee.Func, args})
				}
			}
		}
		return out
	}
	if callee := common.StaticCallee(); callee != nil {
		if m.Sum[callee] == nil {
			return nil
		}
		args := common.Args
		if mc, ok := common.Value.(*ssa.MakeClosure); ok {
			args = append(append([]ssa.Value{}, args...), mc.Bindings...)
		}
		return []target{{callee, args}}
	}
	if node := m.P.CallGraph().Nodes[fn]; node != nil {
		for _, e := range node.Out {
			if e.Site == instr && e.Callee.Func != nil && m.Sum[e.Callee.Func] != nil {
				out = append(out, target{e.Callee.Func, common.Args})
			}
		}
	}
	return out
}

// external callees that only read their pointer arguments (by printable
// name prefix); anything else outside the module is assumed to write every
// pointer-like argument.  Receivers of methods are always assumed written.
var readOnlyExternal = []string{
	"bytes.Equal", "crypto/subtle.ConstantTime", "(encoding/binary.littleEndian).Uint", "(encoding/binary.bigEndian).Uint",
	"crypto/sha512.Sum", "crypto/sha256.Sum", "fmt.", "errors.", "strconv.", "golang.org/x/crypto/sha3.Sum",
	"math/bits.",
}

// ExternalWrites returns the indices of args an external callee may write.
func ExternalWrites(name string, args []ssa.Value, hasRecv bool) []int {
	short := name
	if i := strings.LastIndexByte(name, '.'); i >= 0 {
		short = name[i+1:]
	}
	for _, p := range readOnlyExternal {
		if strings.HasPrefix(name, p) {
			return nil
		}
	}
	switch {
	case name == "crypto/subtle.ConstantTimeCopy":
		return []int{1}
	case strings.HasPrefix(name, "(encoding/binary.littleEndian).Put"), strings.HasPrefix(name, "(encoding/binary.bigEndian).Put"):
		return []int{1}
	case name == "io.ReadFull", name == "io.ReadAtLeast":
		return []int{0, 1}
	case name == "golang.org/x/crypto/sha3.ShakeSum256", name == "golang.org/x/crypto/sha3.ShakeSum128":
		return []int{0}
	}
	if hasRecv {
		switch short {
		case "Write": // hash/io.Writer: reads p, updates the receiver
			return []int{0}
		case "Sum": // appends to b (arg 1): writes into its spare capacity
			return []int{1}
		case "Read":
			return []int{0, 1}
		case "Reset", "Lock", "Unlock", "RLock", "RUnlock":
			return []int{0}
		case "Size", "BlockSize", "Len", "Error", "HashFunc", "Front", "Back", "Available", "String":
			return nil
		}
	}
	var all []int
	for i, a := range args {
		if pointerLike(a.Type()) {
			all = append(all, i)
		}
	}
	return all
}

// Write is one store site with the roots of its address.
type Write struct {
	Fn    *ssa.Function
	Pos   token.Pos
	Roots *rootSet
	What  string
}

// analyse recomputes the summary of fn; returns true if it grew.
func (m *Mod) analyse(fn *ssa.Function) bool {
	s := m.Sum[fn]
	before := len(s.Writes) + len(s.Returns) + len(s.WritesGlobals) + len(s.Reads) + len(s.ReturnsGlobals)
	memo := map[ssa.Value]*rootSet{}
	m.roots[fn] = memo
	live := load.LiveBlocks(fn)
	mark := func(r *rootSet, pos token.Pos) {
		for i := range r.params {
			s.Writes[i] = true
		}
		for g := range r.globals {
			if _, ok := s.WritesGlobals[g]; !ok {
				s.WritesGlobals[g] = m.P.Pos(pos)
			}
		}
	}
	for _, b := range fn.Blocks {
		if !live[b] {
			continue
		}
		for _, in := range b.Instrs {
			switch x := in.(type) {
			case *ssa.Store:
				mark(m.rootsOf(fn, x.Addr, memo, 0), x.Pos())
			case *ssa.UnOp:
				if x.Op == token.MUL {
					for i := range m.rootsOf(fn, x.X, memo, 0).params {
						s.Reads[i] = true
					}
				}
			case *ssa.Lookup:
				for i := range m.rootsOf(fn, x.X, memo, 0).params {
					s.Reads[i] = true
				}
			case *ssa.MapUpdate:
				mark(m.rootsOf(fn, x.Map, memo, 0), x.Pos())
			case *ssa.Send:
				mark(m.rootsOf(fn, x.Chan, memo, 0), x.Pos())
			case *ssa.Return:
				for _, r := range x.Results {
					if pointerLike(r.Type()) {
						rs := m.rootsOf(fn, r, memo, 0)
						for i := range rs.params {
							s.Returns[i] = true
						}
						switch r.Type().Underlying().(type) {
						case *types.Pointer, *types.Slice, *types.Map:
							// (sentinel errors are interface values loaded from globals: immutable, not storage)
							for g := range rs.globals {
								s.ReturnsGlobals[g] = true
							}
						}
					}
				}
			case ssa.CallInstruction:
				m.callEffects(fn, x, memo, mark)
			}
		}
	}
	return len(s.Writes)+len(s.Returns)+len(s.WritesGlobals)+len(s.Reads)+len(s.ReturnsGlobals) != before
}

func (m *Mod) callEffects(fn *ssa.Function, instr ssa.CallInstruction, memo map[ssa.Value]*rootSet, mark func(*rootSet, token.Pos)) {
	common := instr.Common()
	if bi, ok := common.Value.(*ssa.Builtin); ok {
		switch bi.Name() {
		case "copy", "append", "clear", "delete":
			if len(common.Args) > 0 && bi.Name() != "append" {
				mark(m.rootsOf(fn, common.Args[0], memo, 0), instr.Pos())
			}
			if len(common.Args) > 0 && bi.Name() == "append" {
				// append writes into the spare capacity of its first argument: when that slice is rooted
				// at a package-level variable every caller shares the backing array (a data race and a
				// cross-talk between callers), whatever is done with the result
				// the same holds for a slice handed in by the caller: append(param[:n], ...) writes behind
				// the caller's data whenever the caller's buffer has spare capacity (a key stored in front
				// of another key)
				if rs := m.rootsOf(fn, common.Args[0], memo, 0); len(rs.globals) > 0 || len(rs.params) > 0 {
					g := newRoots()
					for k := range rs.globals {
						g.globals[k] = true
					}
					for k := range rs.params {
						g.params[k] = true
					}
					mark(g, instr.Pos())
				}
			}
			for k, a := range common.Args {
				if (bi.Name() == "copy" && k == 0) || !pointerLike(a.Type()) {
					continue
				}
				for i := range m.rootsOf(fn, a, memo, 0).params {
					m.Sum[fn].Reads[i] = true
				}
			}
			// append writes into spare capacity of its first argument; the
			// repo only appends to locally made slices or returns the result,
			// a caller-visible write needs the result to be stored, which is a Store.
		}
		return
	}
	targets := m.targets(fn, instr)
	if len(targets) > 0 {
		for _, t := range targets {
			cs := m.Sum[t.fn]
			for pi := range cs.Reads {
				if pi < len(t.args) {
					for i := range m.rootsOf(fn, t.args[pi], memo, 0).params {
						m.Sum[fn].Reads[i] = true
					}
				}
			}
			for pi := range cs.Writes {
				if pi < len(t.args) {
					mark(m.rootsOf(fn, t.args[pi], memo, 0), instr.Pos())
				}
			}
			for g, pos := range cs.WritesGlobals {
				s := m.Sum[fn]
				if _, ok := s.WritesGlobals[g]; !ok {
					s.WritesGlobals[g] = pos
				}
			}
		}
		return
	}
	// external
	name := "?"
	args := common.Args
	hasRecv := false
	if common.IsInvoke() {
		name = common.Method.FullName()
		args = append([]ssa.Value{common.Value}, common.Args...)
		hasRecv = true
	} else if callee := common.StaticCallee(); callee != nil {
		name = callee.String()
		hasRecv = callee.Signature.Recv() != nil
	}
	for _, i := range ExternalWrites(name, args, hasRecv) {
		if i < len(args) {
			mark(m.rootsOf(fn, args[i], memo, 0), instr.Pos())
		}
	}
	for _, a := range args {
		if pointerLike(a.Type()) {
			for i := range m.rootsOf(fn, a, memo, 0).params {
				m.Sum[fn].Reads[i] = true // external callees may read anything they are given
			}
		}
	}
}

// initOnly: package initialisers and functions reachable only from them.
func initOnly(p *load.Program, funcs []*ssa.Function) map[*ssa.Function]bool {
	cg := p.CallGraph()
	out := map[*ssa.Function]bool{}
	isInit := func(fn *ssa.Function) bool {
		for f := fn; f != nil; f = f.Parent() {
			if f.Name() == "init" || strings.HasPrefix(f.Name(), "init#") {
				return true
			}
		}
		return false
	}
	for _, fn := range funcs {
		if isInit(fn) {
			out[fn] = true
		}
	}
	for changed := true; changed; {
		changed = false
		for _, fn := range funcs {
			if out[fn] || fn.Parent() != nil {
				continue
			}
			if obj, ok := fn.Object().(*types.Func); ok && obj.Exported() {
				continue
			}
			n := cg.Nodes[fn]
			if n == nil || len(n.In) == 0 {
				continue
			}
			all := true
			for _, e := range n.In {
				if !out[e.Caller.Func] {
					all = false
					break
				}
			}
			if all {
				out[fn] = true
				changed = true
			}
		}
	}
	return out
}

// GlobalWrites lists every direct write (store, map update, written call
// argument) whose address derives from a module global, with the function
// it occurs in.
type GlobalWrite struct {
	Fn     *ssa.Function
	Pos    string
	Global string
	What   string
}

// DirectGlobalWrites enumerates writes to global-rooted memory per function
// (not transitive: each is reported where it happens).
func (m *Mod) DirectGlobalWrites() []GlobalWrite {
	var out []GlobalWrite
	for _, fn := range m.funcs {
		if len(fn.Blocks) == 0 {
			continue
		}
		memo := m.roots[fn]
		if memo == nil {
			memo = map[ssa.Value]*rootSet{}
		}
		live := load.LiveBlocks(fn)
		rec := func(r *rootSet, pos token.Pos, what string) {
			var gs []string
			for g := range r.globals {
				gs = append(gs, g)
			}
			sort.Strings(gs)
			for _, g := range gs {
				out = append(out, GlobalWrite{fn, m.P.Pos(pos), g, what})
			}
		}
		for _, b := range fn.Blocks {
			if !live[b] {
				continue
			}
			for _, in := range b.Instrs {
				switch x := in.(type) {
				case *ssa.Store:
					rec(m.rootsOf(fn, x.Addr, memo, 0), x.Pos(), "store")
				case *ssa.MapUpdate:
					rec(m.rootsOf(fn, x.Map, memo, 0), x.Pos(), "map update")
				case ssa.CallInstruction:
					m.callEffects(fn, x, memo, func(r *rootSet, pos token.Pos) {
						what := "argument written by " + callName(x)
						rec(r, pos, what)
					})
				}
			}
		}
	}
	return out
}

func callName(instr ssa.CallInstruction) string {
	c := instr.Common()
	if c.IsInvoke() {
		return c.Method.FullName()
	}
	if f := c.StaticCallee(); f != nil {
		return load.FuncName(f)
	}
	return c.Value.Name()
}

// ParamWriters returns, for every function with a parameter whose type is a
// pointer to one of the named types (module-relative "pkg.Type"), whether
// the function may write through it.
type ParamUse struct {
	Fn     *ssa.Function
	Param  int
	Type   string
	Writes bool
}

func (m *Mod) ParamUses(shared map[string]bool) []ParamUse {
	var out []ParamUse
	for _, fn := range m.funcs {
		if fn.Parent() != nil {
			continue
		}
		for i, prm := range fn.Params {
			pt, ok := prm.Type().Underlying().(*types.Pointer)
			if !ok {
				continue
			}
			n, ok := pt.Elem().(*types.Named)
			if !ok || n.Obj().Pkg() == nil {
				continue
			}
			tn := load.Rel(n.Obj().Pkg()) + "." + n.Obj().Name()
			if !shared[tn] {
				continue
			}
			out = append(out, ParamUse{fn, i, tn, m.Sum[fn].Writes[i]})
		}
	}
	return out
}

var _ = fmt.Sprintf
