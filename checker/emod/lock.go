package emod

import (
	"fmt"
	"go/token"
	"go/types"
	"sort"
	"strings"

	"golang.org/x/tools/go/ssa"

	"voicheck/load"
	"voicheck/report"
)

// Lock discipline (DESIGN §4 C18 a).  For every module struct type T that
// contains a sync.Mutex / sync.RWMutex field (found by type), every access
// to a sibling field of a *T value must happen
//
//	(1) in a function where a Lock call on that value's mutex dominates the
//	    access and no non-deferred Unlock can reach it, or
//	(2) in a function all of whose module call sites hold the lock on the
//	    receiver argument (a "…Locked" helper), or
//	(3) on an object freshly allocated in the same function (constructor).
//
// Every method of T callable from outside (exported, i.e. interface
// methods) takes the lock before anything else and releases it by defer, so
// each operation is atomic.  No path takes the same lock twice.

type guarded struct {
	named    *types.Named
	mutexIdx int
	fields   []string
}

func isMutex(t types.Type) bool {
	n, ok := t.(*types.Named)
	if !ok || n.Obj().Pkg() == nil || n.Obj().Pkg().Path() != "sync" {
		return false
	}
	return n.Obj().Name() == "Mutex" || n.Obj().Name() == "RWMutex"
}

// guardedTypes discovers the structs with a mutex.
func guardedTypes(p *load.Program) []guarded {
	var out []guarded
	for _, pk := range p.Pkgs {
		sc := pk.Types.Scope()
		for _, name := range sc.Names() {
			tn, ok := sc.Lookup(name).(*types.TypeName)
			if !ok {
				continue
			}
			st, ok := tn.Type().Underlying().(*types.Struct)
			if !ok {
				continue
			}
			for i := 0; i < st.NumFields(); i++ {
				if isMutex(st.Field(i).Type()) {
					g := guarded{named: tn.Type().(*types.Named), mutexIdx: i}
					for j := 0; j < st.NumFields(); j++ {
						if j != i {
							g.fields = append(g.fields, st.Field(j).Name())
						}
					}
					out = append(out, g)
					break
				}
			}
		}
	}
	return out
}

func derefNamed(t types.Type) *types.Named {
	if pt, ok := t.Underlying().(*types.Pointer); ok {
		t = pt.Elem()
	}
	n, _ := t.(*types.Named)
	return n
}

// lockCall classifies a call instruction as Lock/Unlock on (base value).
func lockCall(instr ssa.CallInstruction, g guarded) (base ssa.Value, op string) {
	c := instr.Common()
	callee := c.StaticCallee()
	if callee == nil || callee.Pkg == nil || callee.Pkg.Pkg.Path() != "sync" {
		return nil, ""
	}
	switch callee.Name() {
	case "Lock", "Unlock", "RLock", "RUnlock":
	default:
		return nil, ""
	}
	if len(c.Args) == 0 {
		return nil, ""
	}
	fa, ok := c.Args[0].(*ssa.FieldAddr)
	if !ok || fa.Field != g.mutexIdx || derefNamed(fa.X.Type()) != g.named {
		return nil, ""
	}
	return fa.X, callee.Name()
}

// instrReaches: can control flow from instruction a (exclusive) reach
// instruction b?  Both in the same function.
func instrReaches(a, b ssa.Instruction) bool {
	ba, bb := a.Block(), b.Block()
	if ba == bb {
		ia, ib := -1, -1
		for i, in := range ba.Instrs {
			if in == a {
				ia = i
			}
			if in == b {
				ib = i
			}
		}
		if ia < ib {
			return true
		}
	}
	seen := map[*ssa.BasicBlock]bool{}
	var walk func(x *ssa.BasicBlock) bool
	walk = func(x *ssa.BasicBlock) bool {
		for _, s := range load.LiveSuccs(x) {
			if s == bb {
				return true
			}
			if !seen[s] {
				seen[s] = true
				if walk(s) {
					return true
				}
			}
		}
		return false
	}
	return walk(ba)
}

func dominatesInstr(a, b ssa.Instruction) bool {
	if a.Block() == b.Block() {
		for _, in := range a.Block().Instrs {
			if in == a {
				return true
			}
			if in == b {
				return false
			}
		}
	}
	return a.Block().Dominates(b.Block())
}

// heldAt: is the lock of `base` held at instruction at in fn (criteria 1)?
func heldAt(fn *ssa.Function, g guarded, base ssa.Value, at ssa.Instruction) bool {
	h, _ := heldKind(fn, g, base, at)
	return h
}

// heldKind also reports whether the lock held is exclusive (Lock) rather than
// shared (RLock).
func heldKind(fn *ssa.Function, g guarded, base ssa.Value, at ssa.Instruction) (held, exclusive bool) {
	var locks, unlocks []ssa.Instruction
	kind := map[ssa.Instruction]string{}
	for _, b := range fn.Blocks {
		for _, in := range b.Instrs {
			ci, ok := in.(ssa.CallInstruction)
			if !ok {
				continue
			}
			lb, op := lockCall(ci, g)
			if lb != base {
				continue
			}
			if _, isDefer := in.(*ssa.Defer); isDefer {
				continue
			}
			switch op {
			case "Lock", "RLock":
				locks = append(locks, in)
				kind[in] = op
			case "Unlock", "RUnlock":
				unlocks = append(unlocks, in)
			}
		}
	}
	dominated := false
	exclusive = true
	for _, l := range locks {
		if dominatesInstr(l, at) && l != at {
			dominated = true
			if kind[l] == "RLock" {
				exclusive = false
			}
		}
	}
	if !dominated {
		return false, false
	}
	for _, u := range unlocks {
		if instrReaches(u, at) {
			// an explicit unlock may have released the lock before the access,
			// unless a later Lock dominates the access again
			relocked := false
			for _, l := range locks {
				if dominatesInstr(u, l) && dominatesInstr(l, at) {
					relocked = true
				}
			}
			if !relocked {
				return false, false
			}
		}
	}
	return true, exclusive
}

// accessIsWrite: is the field reached through fa written (stored to, map-
// updated, or passed to a callee that writes through it)?
func accessIsWrite(m *Mod, fn *ssa.Function, fa ssa.Value, depth int) bool {
	refs := fa.Referrers()
	if refs == nil || depth > 3 {
		return false
	}
	for _, r := range *refs {
		switch x := r.(type) {
		case *ssa.Store:
			if x.Addr == fa {
				return true
			}
		case *ssa.MapUpdate:
			if x.Map == fa {
				return true
			}
		case *ssa.UnOp:
			// a map / pointer loaded from the field and then written through
			if x.Op == token.MUL && accessIsWrite(m, fn, x, depth+1) {
				return true
			}
		case *ssa.FieldAddr, *ssa.IndexAddr:
			if accessIsWrite(m, fn, x.(ssa.Value), depth+1) {
				return true
			}
		case ssa.CallInstruction:
			c := x.Common()
			if bi, ok := c.Value.(*ssa.Builtin); ok {
				if (bi.Name() == "delete" || bi.Name() == "copy" || bi.Name() == "clear") && len(c.Args) > 0 && c.Args[0] == fa {
					return true
				}
				continue
			}
			args := c.Args
			if c.IsInvoke() {
				args = append([]ssa.Value{c.Value}, c.Args...)
			}
			idx := -1
			for i, a := range args {
				if a == fa {
					idx = i
				}
			}
			if idx < 0 {
				continue
			}
			if callee := c.StaticCallee(); callee != nil {
				if sum := m.Sum[callee]; sum != nil {
					if sum.Writes[idx] {
						return true
					}
					continue
				}
				for _, wi := range ExternalWrites(callee.String(), args, callee.Signature.Recv() != nil) {
					if wi == idx {
						return true
					}
				}
				continue
			}
			return true // unknown callee: assume it writes
		}
	}
	return false
}

// LockStats counts what was checked.
type LockStats struct {
	Types, Accesses, Methods, LockCalls int
	TypeNames                           []string
}

// CheckLocks runs the lock-discipline rules.
func CheckLocks(p *load.Program, m *Mod, access, atomic, double *report.Rule) LockStats {
	var st LockStats
	gts := guardedTypes(p)
	st.Types = len(gts)
	cg := p.CallGraph()
	for _, g := range gts {
		st.TypeNames = append(st.TypeNames, load.Rel(g.named.Obj().Pkg())+"."+g.named.Obj().Name())
		// (2) helper functions: every call site holds the lock on the argument
		var lockedCtxK func(fn *ssa.Function, prm int, depth int, needExcl bool) bool
		lockedCtx := func(fn *ssa.Function, prm int, depth int) bool { return lockedCtxK(fn, prm, depth, false) }
		lockedCtxK = func(fn *ssa.Function, prm int, depth int, needExcl bool) bool {
			if depth > 3 {
				return false
			}
			node := cg.Nodes[fn]
			if node == nil || len(node.In) == 0 {
				return false
			}
			if obj, ok := fn.Object().(*types.Func); ok && obj.Exported() {
				return false // callable from outside without the lock
			}
			for _, e := range node.In {
				caller := e.Caller.Func
				if caller == nil || e.Site == nil || caller.Pkg == nil || !load.IsModule(caller.Pkg.Pkg) {
					return false
				}
				args := e.Site.Common().Args
				if e.Site.Common().IsInvoke() {
					args = append([]ssa.Value{e.Site.Common().Value}, args...)
				}
				if prm >= len(args) {
					return false
				}
				base := args[prm]
				if h, ex := heldKind(caller, g, base, e.Site); h && (ex || !needExcl) {
					continue
				}
				// the caller is itself a locked-context helper on the same object
				ok := false
				for i, cp := range caller.Params {
					if cp == base && lockedCtxK(caller, i, depth+1, needExcl) {
						ok = true
					}
				}
				if !ok {
					return false
				}
			}
			return true
		}
		for _, fn := range p.ModuleFuncs() {
			if len(fn.Blocks) == 0 {
				continue
			}
			live := load.LiveBlocks(fn)
			name := load.FuncName(fn)
			for _, b := range fn.Blocks {
				if !live[b] {
					continue
				}
				for _, in := range b.Instrs {
					fa, ok := in.(*ssa.FieldAddr)
					if !ok || fa.Field == g.mutexIdx || derefNamed(fa.X.Type()) != g.named {
						continue
					}
					st.Accesses++
					base := fa.X
					fieldName := g.named.Underlying().(*types.Struct).Field(fa.Field).Name()
					okAccess := false
					why := ""
					isWrite := accessIsWrite(m, fn, fa, 0)
					held, excl := heldKind(fn, g, base, in)
					switch {
					case held && (excl || !isWrite):
						okAccess = true
					case held && isWrite:
						why = "the field is WRITTEN while only the shared (read) lock is held: concurrent readers race on it"
					case isFreshAlloc(base):
						okAccess = true // constructor: the object has not escaped yet
					default:
						for i, prm := range fn.Params {
							if prm == base && lockedCtxK(fn, i, 0, isWrite) {
								okAccess = true
							}
						}
						why = "no Lock on the same object dominates the access, the object is not freshly allocated here, and not every caller holds the lock"
						if isWrite {
							why = "the field is written; no exclusive Lock on the same object dominates the access, the object is not freshly allocated here, and not every caller holds the exclusive lock"
						}
					}
					if okAccess {
						access.OK(name)
					} else {
						access.Fail(p.Pos(in.Pos()), name, fmt.Sprintf("field %s of mutex-guarded %s is accessed without holding the lock: %s", fieldName, g.named.Obj().Name(), why), nil)
					}
				}
			}
			// double locking within one function, and locking inside a locked context
			var locks []ssa.Instruction
			bases := map[ssa.Instruction]ssa.Value{}
			for _, b := range fn.Blocks {
				if !live[b] {
					continue
				}
				for _, in := range b.Instrs {
					if ci, ok := in.(ssa.CallInstruction); ok {
						if lb, op := lockCall(ci, g); lb != nil && (op == "Lock" || op == "RLock") {
							if _, isDefer := in.(*ssa.Defer); !isDefer {
								locks = append(locks, in)
								bases[in] = lb
								st.LockCalls++
							}
						}
					}
				}
			}
			for _, l := range locks {
				bad := false
				for _, l2 := range locks {
					if l != l2 && bases[l] == bases[l2] && instrReaches(l, l2) && !unlockBetween(fn, g, bases[l], l, l2) {
						bad = true
					}
				}
				for i, prm := range fn.Params {
					if prm == bases[l] && lockedCtx(fn, i, 0) {
						bad = true
					}
				}
				if bad {
					double.Fail(p.Pos(l.Pos()), name, "the same mutex may be locked twice on one path (self-deadlock)", nil)
				} else {
					double.OK(name)
				}
			}
			// calls made while holding the lock to functions that lock the same object
			for _, b := range fn.Blocks {
				if !live[b] {
					continue
				}
				for _, in := range b.Instrs {
					ci, ok := in.(ssa.CallInstruction)
					if !ok {
						continue
					}
					callee := ci.Common().StaticCallee()
					if callee == nil || len(callee.Blocks) == 0 || len(callee.Params) == 0 {
						continue
					}
					args := ci.Common().Args
					for ai, a := range args {
						if ai >= len(callee.Params) || derefNamed(a.Type()) != g.named {
							continue
						}
						if heldAt(fn, g, a, in) && locksParam(callee, g, ai) {
							double.Fail(p.Pos(in.Pos()), name, fmt.Sprintf("calls %s, which locks the mutex again, while holding it", load.FuncName(callee)), nil)
						}
					}
				}
			}
		}
		// atomicity of the externally callable methods
		ms := types.NewMethodSet(types.NewPointer(g.named))
		for i := 0; i < ms.Len(); i++ {
			obj := ms.At(i).Obj().(*types.Func)
			if !obj.Exported() || obj.Pkg() == nil || obj.Pkg().Path() == "sync" {
				continue
			}
			fn := p.SSA.FuncValue(obj)
			if fn == nil || len(fn.Blocks) == 0 {
				continue
			}
			st.Methods++
			name := load.FuncName(fn)
			if msg := wholeBodyLocked(fn, g); msg != "" {
				atomic.Fail(p.Pos(fn.Pos()), name, msg, nil)
			} else {
				atomic.OK(name)
			}
		}
	}
	sort.Strings(st.TypeNames)
	return st
}

func isFreshAlloc(v ssa.Value) bool {
	switch x := v.(type) {
	case *ssa.Alloc:
		return true
	case *ssa.Phi:
		for _, e := range x.Edges {
			if !isFreshAlloc(e) {
				return false
			}
		}
		return len(x.Edges) > 0
	}
	return false
}

func unlockBetween(fn *ssa.Function, g guarded, base ssa.Value, a, b ssa.Instruction) bool {
	for _, blk := range fn.Blocks {
		for _, in := range blk.Instrs {
			if _, isDefer := in.(*ssa.Defer); isDefer {
				continue
			}
			if ci, ok := in.(ssa.CallInstruction); ok {
				if lb, op := lockCall(ci, g); lb == base && (op == "Unlock" || op == "RUnlock") {
					if instrReaches(a, in) && instrReaches(in, b) {
						return true
					}
				}
			}
		}
	}
	return false
}

func locksParam(fn *ssa.Function, g guarded, prm int) bool {
	for _, b := range fn.Blocks {
		for _, in := range b.Instrs {
			if ci, ok := in.(ssa.CallInstruction); ok {
				if lb, op := lockCall(ci, g); lb != nil && (op == "Lock" || op == "RLock") && prm < len(fn.Params) && lb == fn.Params[prm] {
					return true
				}
			}
		}
	}
	return false
}

// wholeBodyLocked: the first effectful instructions of the method are
// Lock(recv) and defer Unlock(recv); every return is therefore reached with
// the deferred unlock pending.  Returns "" if so, else a diagnosis.
func wholeBodyLocked(fn *ssa.Function, g guarded) string {
	if len(fn.Params) == 0 {
		return "method without receiver"
	}
	recv := fn.Params[0]
	entry := fn.Blocks[0]
	sawLock, sawDefer := false, false
	for _, in := range entry.Instrs {
		switch x := in.(type) {
		case *ssa.FieldAddr:
			if x.X == recv && x.Field == g.mutexIdx {
				continue
			}
			if !sawLock || !sawDefer {
				return "a field is accessed before the lock is taken and its release deferred"
			}
		case *ssa.DebugRef, *ssa.Alloc:
			continue
		case *ssa.Defer:
			if lb, op := lockCall(x, g); lb == recv && (op == "Unlock" || op == "RUnlock") && sawLock {
				sawDefer = true
				continue
			}
			if !sawLock || !sawDefer {
				return "another call is deferred before the lock is taken"
			}
		case *ssa.Call:
			if lb, op := lockCall(x, g); lb == recv && (op == "Lock" || op == "RLock") && !sawLock {
				sawLock = true
				continue
			}
			if !sawLock || !sawDefer {
				return fmt.Sprintf("calls %s before the lock is taken and its release deferred", x.Call.Value.Name())
			}
		default:
			if !sawLock || !sawDefer {
				if _, isCtl := in.(*ssa.If); isCtl {
					return "branches before the lock is taken and its release deferred"
				}
				if _, isRet := in.(*ssa.Return); isRet {
					return "returns without taking the lock"
				}
				if _, isJump := in.(*ssa.Jump); isJump {
					return "leaves the entry block before the lock is taken and its release deferred"
				}
			}
		}
		if sawLock && sawDefer {
			break
		}
	}
	if !sawLock {
		return "the method never takes the lock in its entry block"
	}
	if !sawDefer {
		return "the method takes the lock but does not defer its release immediately (an early return or panic would leak or skip the unlock)"
	}
	// no explicit (non-deferred) unlock anywhere
	for _, b := range fn.Blocks {
		for _, in := range b.Instrs {
			if c, ok := in.(*ssa.Call); ok {
				if lb, op := lockCall(c, g); lb == recv && (op == "Unlock" || op == "RUnlock") {
					return "the method releases the lock explicitly before its end (the operation is not atomic)"
				}
			}
		}
	}
	return ""
}

// ---------------------------------------------------------------------------
// zero-instance concurrency rules

// ConcurrencyStats counts the constructs inspected.
type ConcurrencyStats struct{ Instructions, Functions int }

// CheckNoConcurrencyPrimitives: the library itself starts no goroutine, uses
// no channel, no sync/atomic, and no unsafe pointer conversion outside the
// functions listed in allowUnsafe.
func CheckNoConcurrencyPrimitives(p *load.Program, rule *report.Rule, allowUnsafe map[string]string) ConcurrencyStats {
	var st ConcurrencyStats
	for _, fn := range p.ModuleFuncs() {
		if len(fn.Blocks) == 0 {
			continue
		}
		st.Functions++
		name := load.FuncName(fn)
		bad := func(in ssa.Instruction, what string) {
			rule.Fail(p.Pos(in.Pos()), name, what, nil)
		}
		for _, b := range fn.Blocks {
			for _, in := range b.Instrs {
				st.Instructions++
				switch x := in.(type) {
				case *ssa.Go:
					bad(in, "starts a goroutine: library calls must be sequential computations on caller-owned data")
				case *ssa.MakeChan, *ssa.Send, *ssa.Select:
					bad(in, "uses a channel")
				case *ssa.UnOp:
					if x.Op == token.ARROW {
						bad(in, "receives from a channel")
					}
				case *ssa.Convert:
					if isUnsafePointer(x.X.Type()) || isUnsafePointer(x.Type()) {
						if _, ok := allowUnsafe[name]; !ok {
							bad(in, "converts through unsafe.Pointer outside the allow-listed function(s)")
						}
					}
				case ssa.CallInstruction:
					if callee := x.Common().StaticCallee(); callee != nil && callee.Pkg != nil {
						if callee.Pkg.Pkg.Path() == "sync/atomic" && callee.Name() != "init" {
							bad(in, "uses sync/atomic")
						}
					}
				}
			}
		}
		rule.OK(name)
	}
	return st
}

func isUnsafePointer(t types.Type) bool {
	b, ok := t.Underlying().(*types.Basic)
	return ok && b.Kind() == types.UnsafePointer
}

var _ = strings.HasPrefix
