package emod

import (
	"go/token"
	"go/types"
	"sort"

	"golang.org/x/tools/go/ssa"
)

// Retention of caller-owned byte slices.
//
// A function RETAINS its byte-slice parameter i when a slice value deriving
// from the parameter (the parameter itself, a re-slice, a named-type
// conversion, a phi of those) is stored into memory that outlives the call:
// a field / element of a heap object, of a receiver- or parameter-reachable
// object, of a global, a map, or of a local struct that is afterwards used as
// a whole value (returned or copied out); or when it is handed to a callee
// parameter that is itself retained.  The object then keeps pointing into the
// CALLER's buffer: when the caller re-uses that buffer the object silently
// changes (a cached key no longer matches its precomputed tables).

// Retention is one witness.
type Retention struct {
	Fn    *ssa.Function
	Param int
	Pos   token.Pos
	Via   string // "" for a direct store, else the printable name of the retaining callee
}

func isByteSlice(t types.Type) bool {
	sl, ok := t.Underlying().(*types.Slice)
	if !ok {
		return false
	}
	b, ok := sl.Elem().Underlying().(*types.Basic)
	return ok && b.Kind() == types.Byte
}

// localOnly reports whether addr designates (a part of) a non-escaping local
// variable that is never read as a whole value.
func localOnly(addr ssa.Value) bool {
	for depth := 0; depth < 16; depth++ {
		switch x := addr.(type) {
		case *ssa.FieldAddr:
			addr = x.X
		case *ssa.IndexAddr:
			addr = x.X
		case *ssa.Alloc:
			if x.Heap {
				return false
			}
			if x == addr && depth == 0 {
				// the local slice variable itself
				if isByteSlice(x.Type().(*types.Pointer).Elem()) {
					return true
				}
			}
			for _, ref := range *x.Referrers() {
				if u, ok := ref.(*ssa.UnOp); ok && u.Op == token.MUL && u.X == x {
					if _, isStruct := u.Type().Underlying().(*types.Struct); isStruct {
						return false // the whole struct is copied out
					}
					if _, isArr := u.Type().Underlying().(*types.Array); isArr {
						return false
					}
				}
			}
			return true
		default:
			return false
		}
	}
	return false
}

// SliceRetentions computes, to a fixpoint over the call graph, which
// byte-slice parameters are retained.
func (m *Mod) SliceRetentions() map[*ssa.Function]map[int]Retention {
	ret := map[*ssa.Function]map[int]Retention{}
	set := func(fn *ssa.Function, i int, r Retention) bool {
		if ret[fn] == nil {
			ret[fn] = map[int]Retention{}
		}
		if _, ok := ret[fn][i]; ok {
			return false
		}
		ret[fn][i] = r
		return true
	}
	for round := 0; round < 20; round++ {
		changed := false
		for _, fn := range m.funcs {
			if len(fn.Blocks) == 0 {
				continue
			}
			memo := map[ssa.Value]*rootSet{}
			sliceParams := func(v ssa.Value) []int {
				if !isByteSlice(v.Type()) {
					return nil
				}
				rs := m.rootsOf(fn, v, memo, 0)
				var out []int
				for i := range rs.params {
					if i < len(fn.Params) && isByteSlice(fn.Params[i].Type()) {
						out = append(out, i)
					}
				}
				sort.Ints(out)
				return out
			}
			for _, b := range fn.Blocks {
				for _, in := range b.Instrs {
					switch x := in.(type) {
					case *ssa.Store:
						ps := sliceParams(x.Val)
						if len(ps) == 0 || localOnly(x.Addr) {
							continue
						}
						for _, i := range ps {
							if set(fn, i, Retention{Fn: fn, Param: i, Pos: x.Pos()}) {
								changed = true
							}
						}
					case *ssa.MapUpdate:
						for _, v := range []ssa.Value{x.Key, x.Value} {
							for _, i := range sliceParams(v) {
								if set(fn, i, Retention{Fn: fn, Param: i, Pos: x.Pos()}) {
									changed = true
								}
							}
						}
					case ssa.CallInstruction:
						if _, isBuiltin := x.Common().Value.(*ssa.Builtin); isBuiltin {
							continue
						}
						for _, t := range m.targets(fn, x) {
							rt := ret[t.fn]
							if len(rt) == 0 {
								continue
							}
							for j, a := range t.args {
								r, ok := rt[j]
								if !ok {
									continue
								}
								_ = r
								for _, i := range sliceParams(a) {
									if set(fn, i, Retention{Fn: fn, Param: i, Pos: x.Pos(), Via: t.fn.String()}) {
										changed = true
									}
								}
							}
						}
					}
				}
			}
		}
		if !changed {
			break
		}
	}
	return ret
}

// ResultOverlap reports, for a function with at least two byte-slice
// results, a pair of results of one Return that may share storage allocated
// in the function (both derive from the same allocation), e.g.
// return priv[32:], priv.
type ResultOverlap struct {
	Fn   *ssa.Function
	A, B int
	Pos  token.Pos
}

type span struct{ lo, hi int64 } // hi < 0: unbounded

func constInt(v ssa.Value) (int64, bool) {
	c, ok := v.(*ssa.Const)
	if !ok || c.Value == nil {
		return 0, false
	}
	return c.Int64(), true
}

// allocSpans collects the allocation sites a slice value derives from, with
// the window of the allocation it may cover (constant re-slicing is followed).
func allocSpans(v ssa.Value, off int64, hi int64, exact bool, seen map[ssa.Value]bool, out map[ssa.Value]span) {
	if seen[v] {
		return
	}
	seen[v] = true
	put := func(root ssa.Value) {
		sp := span{0, -1}
		if exact {
			sp = span{off, hi}
		}
		if old, ok := out[root]; ok {
			if sp.lo > old.lo {
				sp.lo = old.lo
			}
			if old.hi < 0 || (sp.hi >= 0 && sp.hi < old.hi) {
				sp.hi = old.hi
			}
		}
		out[root] = sp
	}
	switch x := v.(type) {
	case *ssa.Alloc, *ssa.MakeSlice:
		put(v)
	case *ssa.Slice:
		// v = x.X[lo:hi]: a window [lo, hi) of x.X; windows compose additively
		lo, okLo := int64(0), true
		if x.Low != nil {
			lo, okLo = constInt(x.Low)
		}
		h, okHi := int64(-1), true
		if x.High != nil {
			h, okHi = constInt(x.High)
		}
		if exact && okLo && okHi {
			// the window [off, hi) of v is the window [lo+off, lo+hi) of x.X (up to h when unbounded)
			nhi := h
			if hi >= 0 {
				nhi = lo + hi
			}
			allocSpans(x.X, lo+off, nhi, true, seen, out)
		} else {
			allocSpans(x.X, 0, -1, false, seen, out)
		}
	case *ssa.ChangeType:
		allocSpans(x.X, off, hi, exact, seen, out)
	case *ssa.Convert:
		if isByteSlice(x.X.Type()) {
			allocSpans(x.X, off, hi, exact, seen, out)
		}
	case *ssa.Phi:
		for _, e := range x.Edges {
			allocSpans(e, 0, -1, false, seen, out)
		}
	case *ssa.IndexAddr:
		allocSpans(x.X, 0, -1, false, seen, out)
	case *ssa.FieldAddr:
		allocSpans(x.X, 0, -1, false, seen, out)
	case *ssa.Call:
		if bi, ok := x.Call.Value.(*ssa.Builtin); ok && bi.Name() == "append" {
			allocSpans(x.Call.Args[0], 0, -1, false, seen, out)
		}
	}
}

// ResultOverlaps lists the overlapping result pairs of fn.
func (m *Mod) ResultOverlaps(fn *ssa.Function) []ResultOverlap {
	var out []ResultOverlap
	for _, b := range fn.Blocks {
		for _, in := range b.Instrs {
			r, ok := in.(*ssa.Return)
			if !ok {
				continue
			}
			roots := make([]map[ssa.Value]span, len(r.Results))
			for i, v := range r.Results {
				if !isByteSlice(v.Type()) {
					continue
				}
				roots[i] = map[ssa.Value]span{}
				// the composed window is relative to the innermost slice expression: walk outside-in
				allocSpans(v, 0, -1, true, map[ssa.Value]bool{}, roots[i])
			}
			for i := range roots {
				for j := i + 1; j < len(roots); j++ {
					if roots[i] == nil || roots[j] == nil {
						continue
					}
					hit := false
					for a, sa := range roots[i] {
						sb, ok := roots[j][a]
						if !ok {
							continue
						}
						if (sa.hi < 0 || sb.lo < sa.hi) && (sb.hi < 0 || sa.lo < sb.hi) {
							hit = true
						}
					}
					if hit {
						out = append(out, ResultOverlap{Fn: fn, A: i, B: j, Pos: r.Pos()})
					}
				}
			}
		}
	}
	return out
}

// OrderViolation: a read through parameter R that may execute after a write
// through parameter W in the same activation.
type OrderViolation struct {
	WritePos, ReadPos token.Pos
}

// ReadAfterWrite reports whether fn may read memory reachable from parameter
// r after it has written memory reachable from parameter w (w != r).  Used for
// the aliasing hazard "the receiver is an element of the slice argument": all
// writes of the output must come after the last read of the inputs.
func (m *Mod) ReadAfterWrite(fn *ssa.Function, w, r int) (OrderViolation, bool) {
	memo := map[ssa.Value]*rootSet{}
	type ev struct {
		write, read bool
		pos         token.Pos
	}
	evs := map[ssa.Instruction]*ev{}
	get := func(in ssa.Instruction) *ev {
		if evs[in] == nil {
			evs[in] = &ev{pos: in.Pos()}
		}
		return evs[in]
	}
	for _, b := range fn.Blocks {
		for _, in := range b.Instrs {
			switch x := in.(type) {
			case *ssa.Store:
				if m.rootsOf(fn, x.Addr, memo, 0).params[w] {
					get(in).write = true
				}
			case *ssa.UnOp:
				if x.Op == token.MUL && m.rootsOf(fn, x.X, memo, 0).params[r] {
					// loading the element POINTER out of the slice is not a read of the element
					if _, isPtr := x.Type().Underlying().(*types.Pointer); !isPtr {
						get(in).read = true
					}
				}
			case ssa.CallInstruction:
				common := x.Common()
				if bi, ok := common.Value.(*ssa.Builtin); ok {
					if bi.Name() == "copy" && len(common.Args) == 2 {
						if m.rootsOf(fn, common.Args[0], memo, 0).params[w] {
							get(in).write = true
						}
						if m.rootsOf(fn, common.Args[1], memo, 0).params[r] {
							get(in).read = true
						}
					}
					continue
				}
				for _, t := range m.targets(fn, x) {
					cs := m.Sum[t.fn]
					if cs == nil {
						continue
					}
					for pi := range cs.Writes {
						if pi < len(t.args) && m.rootsOf(fn, t.args[pi], memo, 0).params[w] {
							get(in).write = true
						}
					}
					for pi := range cs.Reads {
						if pi < len(t.args) && pointerLike(t.args[pi].Type()) && m.rootsOf(fn, t.args[pi], memo, 0).params[r] {
							get(in).read = true
						}
					}
				}
			}
		}
	}
	// forward reachability from every write
	for _, b := range fn.Blocks {
		for i, in := range b.Instrs {
			e := evs[in]
			if e == nil || !e.write {
				continue
			}
			// later in the same block
			for _, in2 := range b.Instrs[i+1:] {
				if e2 := evs[in2]; e2 != nil && e2.read {
					return OrderViolation{e.pos, e2.pos}, true
				}
			}
			seen := map[*ssa.BasicBlock]bool{}
			work := append([]*ssa.BasicBlock(nil), b.Succs...)
			for len(work) > 0 {
				nb := work[len(work)-1]
				work = work[:len(work)-1]
				if seen[nb] {
					continue
				}
				seen[nb] = true
				for _, in2 := range nb.Instrs {
					if e2 := evs[in2]; e2 != nil && e2.read {
						return OrderViolation{e.pos, e2.pos}, true
					}
				}
				work = append(work, nb.Succs...)
			}
		}
	}
	return OrderViolation{}, false
}

// HandleWrite: a write into the own memory (fields, not what its pointers
// lead to) of a value of one of the given named types that is not freshly
// allocated in the writing function.
type HandleWrite struct {
	Fn   *ssa.Function
	Type string
	Pos  token.Pos
	Via  string
}

// ownHandle follows an address through field / index / slice steps WITHOUT
// loads and reports the shared-handle type it is a part of.
func ownHandle(addr ssa.Value, handles map[string]bool, relOf func(*types.Package) string) string {
	for depth := 0; depth < 10; depth++ {
		switch x := addr.(type) {
		case *ssa.FieldAddr:
			if pt, ok := x.X.Type().Underlying().(*types.Pointer); ok {
				if nm, ok := pt.Elem().(*types.Named); ok && nm.Obj().Pkg() != nil {
					if k := relOf(nm.Obj().Pkg()) + "." + nm.Obj().Name(); handles[k] && !hasMutex(nm) {
						// (a handle that acquires a mutex is governed by the LOCK-* rules instead)
						if _, fresh := x.X.(*ssa.Alloc); !fresh {
							return k
						}
					}
				}
			}
			addr = x.X
		case *ssa.IndexAddr:
			addr = x.X
		case *ssa.Slice:
			addr = x.X
		case *ssa.ChangeType:
			addr = x.X
		default:
			return ""
		}
	}
	return ""
}

// OwnFieldWrites lists the writes into the own fields of the handle types.
func (m *Mod) OwnFieldWrites(handles map[string]bool, relOf func(*types.Package) string) []HandleWrite {
	var out []HandleWrite
	for _, fn := range m.funcs {
		for _, b := range fn.Blocks {
			for _, in := range b.Instrs {
				switch x := in.(type) {
				case *ssa.Store:
					if k := ownHandle(x.Addr, handles, relOf); k != "" {
						out = append(out, HandleWrite{Fn: fn, Type: k, Pos: x.Pos()})
					}
				case ssa.CallInstruction:
					common := x.Common()
					if bi, ok := common.Value.(*ssa.Builtin); ok {
						if (bi.Name() == "copy" || bi.Name() == "clear") && len(common.Args) > 0 {
							if k := ownHandle(common.Args[0], handles, relOf); k != "" {
								out = append(out, HandleWrite{Fn: fn, Type: k, Pos: x.Pos(), Via: bi.Name()})
							}
						}
						continue
					}
					for _, t := range m.targets(fn, x) {
						cs := m.Sum[t.fn]
						if cs == nil {
							continue
						}
						for pi := range cs.Writes {
							if pi >= len(t.args) {
								continue
							}
							if k := ownHandle(t.args[pi], handles, relOf); k != "" {
								out = append(out, HandleWrite{Fn: fn, Type: k, Pos: x.Pos(), Via: t.fn.String()})
							}
						}
					}
				}
			}
		}
	}
	return out
}

// hasMutex: the struct has a sync.Mutex / sync.RWMutex field (embedded or named).
func hasMutex(nm *types.Named) bool {
	st, ok := nm.Underlying().(*types.Struct)
	if !ok {
		return false
	}
	for i := 0; i < st.NumFields(); i++ {
		if fn, ok := st.Field(i).Type().(*types.Named); ok && fn.Obj().Pkg() != nil && fn.Obj().Pkg().Path() == "sync" && (fn.Obj().Name() == "Mutex" || fn.Obj().Name() == "RWMutex") {
			return true
		}
	}
	return false
}

// InteriorReturn reports a pointer result that addresses a PART of the object
// a pointer parameter (the receiver) points to — &p.field, &p.arr[i] — reached
// without a load.  Returning the parameter itself (the chaining idiom
// "return p") is not an interior pointer.
func InteriorReturn(fn *ssa.Function) (param int, pos token.Pos, found bool) {
	var trace func(v ssa.Value, depth int, interior bool) (int, bool)
	trace = func(v ssa.Value, depth int, interior bool) (int, bool) {
		if depth > 12 {
			return 0, false
		}
		switch x := v.(type) {
		case *ssa.FieldAddr:
			return trace(x.X, depth+1, true)
		case *ssa.IndexAddr:
			if _, isPtr := x.X.Type().Underlying().(*types.Pointer); isPtr {
				return trace(x.X, depth+1, true)
			}
			return 0, false
		case *ssa.Phi:
			for _, e := range x.Edges {
				if i, ok := trace(e, depth+1, interior); ok {
					return i, true
				}
			}
		case *ssa.Parameter:
			if !interior {
				return 0, false
			}
			for i, p := range fn.Params {
				if p == x {
					return i, true
				}
			}
		}
		return 0, false
	}
	for _, b := range fn.Blocks {
		for _, in := range b.Instrs {
			r, ok := in.(*ssa.Return)
			if !ok {
				continue
			}
			for _, v := range r.Results {
				if _, isPtr := v.Type().Underlying().(*types.Pointer); !isPtr {
					continue
				}
				if i, ok := trace(v, 0, false); ok {
					return i, r.Pos(), true
				}
			}
		}
	}
	return 0, token.NoPos, false
}
