package erange

import (
	"encoding/json"
	"fmt"
	"os"
	"testing"

	"voicheck/load"
	"voicheck/report"
)

// TestScalar64 is a development aid: it runs CheckScalar64 on one
// configuration (VOI_CFG, default purego) with the evidence written under
// VOI_VERIF (default: a temporary directory) and prints the table.
func TestScalar64(t *testing.T) {
	if os.Getenv("VOI_ERANGE_DEV") == "" {
		t.Skip("development aid; set VOI_ERANGE_DEV=1")
	}
	if os.Getenv("VOI_VERIF") == "" {
		os.Setenv("VOI_VERIF", t.TempDir())
	}
	cfg := os.Getenv("VOI_CFG")
	if cfg == "" {
		cfg = "purego"
	}
	p, err := load.Load(cfg, load.Opts{SSA: true})
	if err != nil {
		t.Fatal(err)
	}
	run := report.New("C05", "quick", 0)
	CheckScalar64(run, p, "RANGE-scalar64")
	b, _ := json.MarshalIndent(run.Extra, "", " ")
	fmt.Println(string(b))
	if code := run.Finish(); code != 0 {
		t.Errorf("exit code %d", code)
	}
}

// TestStageB is a development aid like TestScalar64.
func TestStageB(t *testing.T) {
	if os.Getenv("VOI_ERANGE_DEV") == "" {
		t.Skip("development aid; set VOI_ERANGE_DEV=1")
	}
	if os.Getenv("VOI_VERIF") == "" {
		os.Setenv("VOI_VERIF", t.TempDir())
	}
	cfg := os.Getenv("VOI_CFG")
	if cfg == "" {
		cfg = "purego"
	}
	p, err := load.Load(cfg, load.Opts{SSA: true})
	if err != nil {
		t.Fatal(err)
	}
	run := report.New("C04", "thorough", 0)
	CheckFieldStageB(run, p, "RANGE-B")
	b, _ := json.MarshalIndent(run.Extra, "", " ")
	fmt.Println(string(b))
	if code := run.Finish(); code != 0 {
		t.Errorf("exit code %d", code)
	}
}
