package erange

import (
	"fmt"
	"go/types"
	"math/big"
	"os"
	"sort"
	"strings"
	"time"

	"golang.org/x/tools/go/ssa"

	"voicheck/load"
	"voicheck/report"
)

// Stage B: the pre-condition of every field primitive (Stage A: input limbs
// within the headroom H) is an obligation at every call site in the code
// that works on whole field elements: internal/field/field.go, curve,
// internal/elligator and every other package of the module that imports
// internal/field (closed world: internal/field cannot be imported from
// outside the module).
//
// The same interpreter is used, in "join mode":
//
//   - entry points are the exported functions and methods of the scope; the
//     unexported ones are analysed inlined into them (depth <= StageBDepth);
//   - a call of a limb-level primitive is not interpreted: the obligation is
//     raised, then the effect is taken from a memoised Stage A analysis of
//     the primitive on exactly the argument bounds (and aliasing) of the call;
//   - local field.Element variables (and structs / arrays of them) are
//     followed flow-sensitively, object by object;
//   - everything else (objects received from callers, behind pointers loaded
//     from memory, in slices) is abstracted by one bound per limb for each
//     (struct type, field) holding an Element (typeHeap): what an exported
//     function leaves in its parameters, stores through unknown pointers or
//     returns is joined into those bounds, and they are what it assumes of
//     its parameters; the driver iterates to the least fixpoint and only
//     then records obligations;
//   - loops are joined / widened at their head, calls that leave the scope
//     havoc their arguments to the by-type bounds.

const (
	ClsPre        = "pre"
	StageBDepth   = 14
	stageBRounds  = 12
	stageBMaxPart = 3 // same-typed pointer parameters for which every aliasing is tried
)

func init() {
	ClassDesc[ClsPre] = "at every call of a field primitive the limbs of every Element argument the primitive reads are within the headroom the primitive was verified under (Stage A pre-condition)"
	ClassDesc[ClsReach] = "every call of a field primitive in the scope is reached by the analysis from some exported entry point (or lies in constant-pruned / uncallable code)"
}

// ClsReach: coverage of the call sites.
const ClsReach = "reach"

// StageBClasses are the obligation classes of Stage B.
var StageBClasses = []string{ClsPre, ClsReach, ClsComplete, ClsControl}

// StageBMinPerConfig: about 90% of the instances measured per configuration.
func StageBMinPerConfig(cfgID string) map[string]int {
	switch cfgID {
	case "purego", "arm64", "f32", "f32pure", "386":
		return map[string]int{ClsPre: stageBPreMin, ClsReach: stageBReachMin, ClsComplete: stageBCompleteMin, ClsControl: 1}
	}
	return map[string]int{}
}

// measured on the unchanged tree: pre 547 (u64) / 552 (u32), reach 359 / 360,
// complete 151 + 2 (encapsulation, dynamic calls), control 1
var stageBPreMin, stageBReachMin, stageBCompleteMin = 490, 320, 136

// DeclareStageBRules declares the Stage B rules with thresholds summed over
// the configurations that will be analysed.
func DeclareStageBRules(run *report.Run, rulePrefix string, cfgIDs []string) {
	min := map[string]int{}
	for _, id := range cfgIDs {
		for c, n := range StageBMinPerConfig(id) {
			min[c] += n
		}
	}
	NewRules(run, rulePrefix, StageBClasses, min)
}

var traceStageB = os.Getenv("VOI_ERANGE_TRACE") != ""

type primSummary struct {
	out       map[int]Value // written pointer parameters -> final pointee
	ret       Value
	paramObj  map[int]int
	read      []int
	errPaths  int
	undecided []string
}

type stageB struct {
	run   *report.Run
	p     *load.Program
	be    *FieldBackend
	a     *Analyzer // element level (join mode)
	sa    *Analyzer // limb level (primitive summaries)
	rules *Rules

	prims   map[*ssa.Function]primOverride
	scope   map[*types.Package]bool
	memo    map[string]*primSummary
	pre     map[string]*Obligation
	preList []*Obligation
	reached map[*ssa.Call]bool
	record  bool

	memoHits, memoMiss int
}

// CheckFieldStageB propagates element-level bounds through every caller of
// the field primitives in the loaded configuration and records the
// pre-condition obligations under rulePrefix/<class>.
func CheckFieldStageB(run *report.Run, p *load.Program, rulePrefix string) {
	run.SetConfig(p.Cfg.ID)
	rules := NewRules(run, rulePrefix, StageBClasses, StageBMinPerConfig(p.Cfg.ID))
	be, err := resolveBackend(p)
	if err != nil {
		run.Fatal("[%s] E-RANGE stage B: %v", p.Cfg.ID, err)
		return
	}
	entries, asm := fieldEntries(p, be)
	if len(asm) > 0 {
		run.NotDecided = appendUnique(run.NotDecided, fmt.Sprintf("[%s] stage B is not run: the multiplication is assembly and the lanes returned by the AVX2 code have no statically derivable bound", p.Cfg.ID))
		return
	}
	sb := &stageB{run: run, p: p, be: be, rules: rules, prims: map[*ssa.Function]primOverride{}, scope: map[*types.Package]bool{},
		memo: map[string]*primSummary{}, pre: map[string]*Obligation{}, reached: map[*ssa.Call]bool{}}
	ovs := primOverrides(be)
	for _, fn := range entries {
		sb.prims[fn] = ovs[fn.Name()]
	}
	// scope: internal/field and every module package that imports it
	fieldPkg := p.Pkg(fieldRel).Types
	sb.scope[fieldPkg] = true
	for _, pk := range p.Pkgs {
		for _, imp := range pk.Types.Imports() {
			if imp == fieldPkg {
				sb.scope[pk.Types] = true
			}
		}
	}
	sb.sa = NewAnalyzer(p)
	a := NewAnalyzer(p)
	a.heap = newTypeHeap(be, a.sizes)
	a.JoinLoops, a.ExternalHavoc, a.MergeContexts = true, true, true
	a.MaxDepth = StageBDepth
	a.Intercept = sb.intercept
	a.InScope = func(fn *ssa.Function) bool {
		pk := fn.Pkg
		if pk == nil && fn.Parent() != nil {
			pk = fn.Parent().Pkg
		}
		return pk != nil && sb.scope[pk.Pkg]
	}
	sb.a = a

	var scopeNames []string
	var inits []*ssa.Function
	for _, pk := range p.Pkgs {
		if !sb.scope[pk.Types] {
			continue
		}
		scopeNames = append(scopeNames, load.Rel(pk.Types))
		if sp := p.SSAPkg(load.Rel(pk.Types)); sp != nil {
			// package-level variables are by-type memory: the package
			// initialiser is analysed like an exported entry point
			if f := sp.Func("init"); f != nil && len(f.Blocks) > 0 {
				inits = append(inits, f)
			}
		}
	}
	sort.Strings(scopeNames)

	roots := append([]*ssa.Function(nil), inits...)
	for _, fn := range p.ModuleFuncs() {
		if fn.Pkg == nil || !sb.scope[fn.Pkg.Pkg] || len(fn.Blocks) == 0 || fn.Parent() != nil || fn.Synthetic != "" {
			continue
		}
		if _, isPrim := sb.prims[fn]; isPrim {
			continue
		}
		if fn.Object() != nil && fn.Object().Exported() {
			roots = append(roots, fn)
		}
	}
	if len(roots) < 40 {
		run.Fatal("[%s] E-RANGE stage B: only %d exported entry points found in %v", p.Cfg.ID, len(roots), scopeNames)
		return
	}

	// fixpoint of the by-type summaries, nothing recorded
	rounds := 0
	for rounds < stageBRounds {
		rounds++
		a.heap.changed = false
		for _, fn := range roots {
			sb.analyzeEntry(fn, false)
		}
		if !a.heap.changed {
			break
		}
	}
	if a.heap.changed {
		rules.Rule(ClsComplete).Failf("-", "stage B", "[%s] the by-type bounds did not stabilise in %d rounds", p.Cfg.ID, stageBRounds)
	}
	// final pass: record
	sb.record = true
	complete := rules.Rule(ClsComplete)
	for _, fn := range roots {
		und := sb.analyzeEntry(fn, true)
		if len(und) == 0 {
			complete.OK(load.FuncName(fn))
			continue
		}
		for _, u := range und {
			complete.Fail(p.Pos(fn.Pos()), load.FuncName(fn), "UNDECIDED while analysing "+load.FuncName(fn)+": "+u, nil)
		}
	}
	if a.heap.changed {
		complete.Failf("-", "stage B", "[%s] the by-type bounds changed during the recording pass (not a fixpoint)", p.Cfg.ID)
	}

	// report the pre-condition obligations, grouped per call site
	ruPre := rules.Rule(ClsPre)
	for _, o := range sb.preList {
		if o.Failed() {
			ruPre.Fail(o.Pos, o.Func, fmt.Sprintf("%s: `%s`: %s (first reached from %s)", o.Pos, o.Expr, o.Fails[0], o.Entry), o.Summary())
			continue
		}
		ruPre.OK(o.Pos + " " + o.Expr + " " + o.What)
	}
	// samples: the call sites that come closest to the headroom
	byHi := append([]*Obligation(nil), sb.preList...)
	sort.SliceStable(byHi, func(i, j int) bool {
		if byHi[i].Itv == nil || byHi[j].Itv == nil {
			return byHi[j].Itv == nil && byHi[i].Itv != nil
		}
		return byHi[i].Itv.Hi.Cmp(byHi[j].Itv.Hi) > 0
	})
	for i := 0; i < 3 && i < len(byHi); i++ {
		s := byHi[i].Summary()
		s["config"] = p.Cfg.ID
		if byHi[i].Itv != nil {
			s["headroom_used"] = fmt.Sprintf("largest limb bound %s of headroom %s", fmtBig(byHi[i].Itv.Hi), fmtBig(be.H[0]))
		}
		run.Sample(s)
	}
	sb.checkReach(roots)
	sb.checkEncapsulation()

	// sensitivity control: the propagated bounds are real (some operand of
	// some primitive is an unreduced sum, above twice the reduced bound) and
	// the obligations would fail under a smaller headroom
	above, tight := 0, 0
	twoD := new(big.Int).Lsh(be.D[0], 1)
	for _, o := range sb.preList {
		if o.Itv == nil {
			continue
		}
		if o.Itv.Hi.Cmp(be.D[0]) > 0 {
			above++
		}
		if o.Itv.Hi.Cmp(twoD) > 0 {
			tight++
		}
	}
	ctl := rules.Rule(ClsControl)
	if above > 0 && tight > 0 {
		ctl.OK("stage B sensitivity: unreduced operands reach primitives")
	} else {
		ctl.Failf("-", "stage B", "[%s] control failed: no primitive call receives an operand above the reduced bound (%d above D, %d above 2D): the element-level bounds are not being propagated", p.Cfg.ID, above, tight)
	}

	run.Extra["stageB_"+p.Cfg.ID] = map[string]any{
		"scope_packages":            scopeNames,
		"exported_entry_points":     len(roots),
		"fixpoint_rounds":           rounds,
		"primitive_call_sites":      len(sb.reached),
		"pre_condition_obligations": len(sb.preList),
		"primitive_summaries":       map[string]int{"computed": sb.memoMiss, "reused": sb.memoHits},
		"over_approximated":         a.notes,
		"by_type_bounds":            a.heap.Table(),
		"inlining_depth_bound":      StageBDepth,
	}
}

// analyzeEntry interprets one exported function under the by-type bounds and
// joins what it leaves behind into them.  It returns the undecided notes.
func (sb *stageB) analyzeEntry(fn *ssa.Function, record bool) (undecided []string) {
	a := sb.a
	label := load.FuncName(fn)
	a.resetEntry(label, record)
	if traceStageB {
		t0 := time.Now()
		defer func() {
			fmt.Fprintf(os.Stderr, "stageB %-70s steps=%-9d paths=%-6d %v\n", label, a.steps, a.paths, time.Since(t0).Round(time.Millisecond))
		}()
	}
	defer func() {
		if e := recover(); e != nil {
			a.undecide(nil, "analysis of %s panicked: %v", label, e)
		}
		undecided = a.undecided
	}()
	var ptrParams []int
	elem := map[int]types.Type{}
	for i, prm := range fn.Params {
		if pt, ok := prm.Type().Underlying().(*types.Pointer); ok {
			ptrParams = append(ptrParams, i)
			elem[i] = pt.Elem()
		}
	}
	paramKey := func(i int) string {
		if types.Identical(elem[i], sb.be.Elem) {
			return fmt.Sprintf("param %s #%d", label, i)
		}
		return ""
	}
	// aliasing: all partitions for few same-typed pointers, else none / all
	groups := map[string]int{}
	for _, i := range ptrParams {
		groups[types.TypeString(elem[i], nil)]++
	}
	alias := true
	for _, n := range groups {
		if n > stageBMaxPart {
			alias = false
		}
	}
	parts := partitions(ptrParams, elem, alias)
	if !alias {
		// also the configuration in which all same-typed pointers coincide
		all := make([]int, len(ptrParams))
		first := map[string]int{}
		for k, i := range ptrParams {
			ts := types.TypeString(elem[i], nil)
			if r, ok := first[ts]; ok {
				all[k] = r
			} else {
				first[ts] = i
				all[k] = i
			}
		}
		parts = append(parts, all)
	}
	for _, part := range parts {
		mem := newMemory(a.base)
		block := map[int]int{}
		for k, i := range ptrParams {
			block[i] = part[k]
		}
		objOf := func(i int) int { return a.objID(fmt.Sprintf("param:%s#%d", label, block[i])) }
		for _, i := range ptrParams {
			v := a.heap.summaryValue(elem[i], paramKey(i))
			if old, ok := mem.cells[objOf(i)]; ok {
				v = joinValues(old, v)
			}
			mem.cells[objOf(i)] = v
			a.objType[objOf(i)] = elem[i]
			// the caller keeps a reference: the object is also reachable from outside
		}
		args := make([]Value, len(fn.Params))
		for i, prm := range fn.Params {
			if _, ok := elem[i]; ok {
				args[i] = &Ptr{Obj: objOf(i)}
			} else if a.heap.contains(prm.Type()) {
				args[i] = a.heap.summaryValue(prm.Type(), "")
			} else {
				args[i] = topValue(prm.Type(), a.sizes)
			}
		}
		for _, r := range a.callFn(fn, args, nil, mem, "E", 0) {
			for _, i := range ptrParams {
				if v, ok := r.mem.root(objOf(i)); ok && r.mem.written[objOf(i)] {
					a.heap.absorb(elem[i], paramKey(i), v)
					a.escape(v, r.mem)
				}
			}
			if r.ret != nil {
				a.escape(r.ret, r.mem)
				if rs := fn.Signature.Results(); rs.Len() == 1 {
					a.heap.absorb(rs.At(0).Type(), "", r.ret)
				} else if t, ok := r.ret.(*Tuple); ok {
					for j := 0; j < rs.Len() && j < len(t.Elems); j++ {
						a.heap.absorb(rs.At(j).Type(), "", t.Elems[j])
					}
				}
			}
		}
	}
	return
}

// limbValues extracts the limb cells of an Element (or limb array) value.
func (sb *stageB) limbValues(v Value, t types.Type) []Value {
	agg, ok := v.(*Agg)
	if !ok {
		return nil
	}
	if types.Identical(t, sb.be.Elem) {
		if sb.be.Inner < len(agg.Elems) {
			if in, ok := agg.Elems[sb.be.Inner].(*Agg); ok && len(in.Elems) == sb.be.Limbs {
				return in.Elems
			}
		}
		return nil
	}
	if types.Identical(t.Underlying(), sb.be.InnerT) && len(agg.Elems) == sb.be.Limbs {
		return agg.Elems
	}
	return nil
}

// intercept handles a call reached in join mode.  Primitives are replaced by
// their memoised Stage A summary; for other functions of the scope the bare
// *field.Element arguments feed the entry assumption of the callee.
func (sb *stageB) intercept(a *Analyzer, fr *frame, call *ssa.Call, fn *ssa.Function, args []Value, mem *Memory) ([]result, bool) {
	ov, isPrim := sb.prims[fn]
	if !isPrim {
		if fn.Object() != nil && fn.Object().Exported() && a.InScope(fn) {
			for i, prm := range fn.Params {
				if pt, ok := prm.Type().Underlying().(*types.Pointer); ok && types.Identical(pt.Elem(), sb.be.Elem) && i < len(args) {
					a.heap.absorb(pt.Elem(), fmt.Sprintf("param %s #%d", load.FuncName(fn), i), sb.pointee(args[i], pt.Elem(), mem))
				}
			}
		}
		return nil, false
	}
	if ov.inlineOnly != "" {
		return nil, false // interpreted in place (never called from element-level code)
	}
	sb.reached[call] = true
	if ov.kind == kindConstructor {
		if _, isPtr := fn.Signature.Results().At(0).Type().Underlying().(*types.Pointer); isPtr {
			// UnsafeInner: limbs written through the returned pointer are not
			// tracked by the element-level abstraction
			a.undecide(call, "%s exposes the limbs of an element to its caller: writes through the result are not modelled", load.FuncName(fn))
		}
	}

	// 1. the arguments as the primitive will see them
	type argInfo struct {
		ptr    *Ptr
		pt     types.Type // pointee type (pointer parameters)
		limbs  []Value    // actual limb cells (Element / limb-array pointees)
		bound  []*big.Int // clamped to the headroom: what the summary is computed for
		isElem bool
	}
	infos := make([]argInfo, len(fn.Params))
	partition := map[int]int{}
	var key strings.Builder
	key.WriteString(fn.String())
	for i, prm := range fn.Params {
		if i >= len(args) {
			break
		}
		pt, isPtr := prm.Type().Underlying().(*types.Pointer)
		if !isPtr {
			fmt.Fprintf(&key, "|%d:%s", i, valueKey(args[i]))
			continue
		}
		inf := argInfo{pt: pt.Elem()}
		inf.ptr, _ = args[i].(*Ptr)
		for j := 0; j < i; j++ {
			if infos[j].ptr != nil && inf.ptr != nil && inf.ptr.tracked() && samePtr(infos[j].ptr, inf.ptr) && types.Identical(infos[j].pt, inf.pt) {
				if rep, ok := partition[j]; ok {
					partition[i] = rep
				} else {
					partition[i] = j
				}
				break
			}
		}
		cur := sb.pointee(args[i], inf.pt, mem)
		if l := sb.limbValues(cur, inf.pt); l != nil {
			inf.limbs, inf.isElem = l, true
			inf.bound = make([]*big.Int, len(l))
			for k, c := range l {
				inf.bound[k] = sb.be.H[k]
				if types.Identical(inf.pt.Underlying(), sb.be.InnerT) && !types.Identical(inf.pt, sb.be.Elem) && ov.rawAny {
					inf.bound[k] = pow2m1(sb.be.LimbBits)
				}
				if x, ok := c.(*Int); ok && !x.wrapped() && x.Itv.NonNeg() && x.Itv.Hi.Cmp(inf.bound[k]) < 0 {
					inf.bound[k] = x.Itv.Hi
				}
			}
			fmt.Fprintf(&key, "|%d:%v~%d", i, inf.bound, partition[i])
		} else {
			fmt.Fprintf(&key, "|%d:%s~%d", i, valueKey(cur), partition[i])
		}
		infos[i] = inf
	}

	// 2. summary
	sum := sb.memo[key.String()]
	if sum == nil {
		sb.memoMiss++
		spec := FuncSpec{
			Label:     load.FuncName(fn),
			Partition: partition,
			Cell: func(param int, path []int, leaf types.Type) *Itv {
				inf := infos[param]
				if !inf.isElem {
					return nil
				}
				if k, ok := sb.be.limbIndex(inf.pt, path); ok {
					return &Itv{bigZero, inf.bound[k]}
				}
				return nil
			},
			Arg: func(param int) Value {
				switch x := args[param].(type) {
				case *Int:
					return &Int{Itv: x.Itv}
				case *Slice:
					return &Slice{Off: itv64(0, 0), Len: x.Len}
				}
				return nil
			},
		}
		res := sb.sa.AnalyzeFunc(fn, spec, false)
		sum = &primSummary{out: map[int]Value{}, ret: res.Ret, paramObj: res.ParamObj, read: res.Read, errPaths: res.ErrPaths, undecided: res.Undecided}
		for _, i := range res.Written {
			sum.out[i] = stripOrigins(res.Out[i])
		}
		// a parameter that aliases a written one is written too
		for i, rep := range partition {
			if v, ok := sum.out[rep]; ok {
				sum.out[i] = v
			}
		}
		sb.memo[key.String()] = sum
	} else {
		sb.memoHits++
	}
	for _, u := range sum.undecided {
		a.undecide(call, "summary of %s: %s", load.FuncName(fn), u)
	}

	// 3. obligation: every Element argument the primitive reads is within the headroom
	if sb.record {
		for i, inf := range infos {
			if !inf.isElem || !containsInt(sum.read, i) {
				continue
			}
			okey := fmt.Sprintf("%p#%d", call, i)
			o := sb.pre[okey]
			if o == nil {
				o = &Obligation{Class: ClsPre, Entry: a.entry, Func: load.FuncName(call.Parent()), Pos: sb.p.Pos(a.instrPos(call)),
					Expr: a.exprText(call), What: fmt.Sprintf("limbs of argument %d (%s) of %s within %s", i, fn.Params[i].Name(), fn.Name(), fmtLimbs(sb.be.H)), key: okey}
				sb.pre[okey] = o
				sb.preList = append(sb.preList, o)
			}
			worst := bigZero
			ok := true
			for k, c := range inf.limbs {
				x, isInt := c.(*Int)
				lim := sb.be.H[k]
				if !types.Identical(inf.pt, sb.be.Elem) && ov.rawAny {
					lim = pow2m1(sb.be.LimbBits)
				}
				switch {
				case !isInt:
					ok = false
					o.fail(fmt.Sprintf("limb %d of argument %d (%s) of %s has no bound here (%s)", k, i, fn.Params[i].Name(), fn.Name(), describe(c)))
				case x.wrapped() || !x.Itv.NonNeg() || x.Itv.Hi.Cmp(lim) > 0:
					ok = false
					o.fail(fmt.Sprintf("limb %d of argument %d (%s) may reach %s, above the headroom %s under which %s was verified (stage A)",
						k, i, fn.Params[i].Name(), fmtBig(x.Itv.Hi), fmtBig(lim), load.FuncName(fn)))
					worst = maxBig(worst, x.Itv.Hi)
				default:
					worst = maxBig(worst, x.Itv.Hi)
				}
			}
			o.observe(Itv{bigZero, worst}, ok)
		}
	}

	// 4. effect
	apply := func(m *Memory) {
		done := map[*Ptr]bool{}
		for i, v := range sum.out {
			inf := infos[i]
			if inf.pt == nil {
				continue
			}
			if inf.ptr != nil && inf.ptr.tracked() {
				if done[inf.ptr] {
					continue
				}
				done[inf.ptr] = true
				if m.store(inf.ptr, v) {
					if m.shared[inf.ptr.Obj] {
						a.heap.absorb(inf.pt, keyAt(a.objType[inf.ptr.Obj], inf.ptr.Path), v)
					}
					continue
				}
			}
			a.heap.absorb(inf.pt, sumOf(args[i]), v)
		}
	}
	mapRet := func(v Value) Value { return sb.mapBack(v, sum.paramObj, args) }
	var out []result
	okMem := mem
	if sum.errPaths > 0 {
		okMem = mem.clone()
	}
	apply(okMem)
	out = append(out, result{okMem, mapRet(stripOrigins(sum.ret))})
	if sum.errPaths > 0 {
		// the primitive may also return an error without touching its outputs
		rs := fn.Signature.Results()
		el := make([]Value, rs.Len())
		for j := range el {
			el[j] = zeroValue(rs.At(j).Type())
		}
		el[len(el)-1] = &Opaque{NonNil: true, Why: "error"}
		var ret Value = &Tuple{el}
		if len(el) == 1 {
			ret = el[0]
		}
		out = append(out, result{mem, ret})
	}
	return out, true
}

// pointee reads the current value behind a pointer argument.
func (sb *stageB) pointee(arg Value, t types.Type, mem *Memory) Value {
	a := sb.a
	if p, ok := arg.(*Ptr); ok && p.tracked() {
		if v, ok := mem.load(p); ok && v != nil {
			if mem.shared[p.Obj] && a.heap.contains(t) {
				v = joinValues(v, a.heap.summaryValue(t, keyAt(a.objType[p.Obj], p.Path)))
			}
			return v
		}
	}
	if a.heap.contains(t) {
		return a.heap.summaryValue(t, sumOf(arg))
	}
	return topValue(t, a.sizes)
}

func samePtr(x, y *Ptr) bool {
	if x.Obj != y.Obj || len(x.Path) != len(y.Path) {
		return false
	}
	for i := range x.Path {
		if x.Path[i] != y.Path[i] || x.Path[i] < 0 {
			return false
		}
	}
	return true
}

// valueKey is a memoisation key for non-Element arguments.
func valueKey(v Value) string {
	switch x := v.(type) {
	case *Int:
		return x.Itv.String()
	case *Slice:
		return "slice" + x.Len.String()
	case *Agg:
		var s []string
		for _, e := range x.Elems {
			s = append(s, valueKey(e))
		}
		return "{" + strings.Join(s, ",") + "}"
	case nil:
		return "-"
	}
	return v.kind()
}

// mapBack rewrites pointers to the summary's parameter objects into the
// actual arguments of the call.
func (sb *stageB) mapBack(v Value, paramObj map[int]int, args []Value) Value {
	switch x := v.(type) {
	case *Ptr:
		if i, ok := paramObj[x.Obj]; ok && i < len(args) {
			if p, ok := args[i].(*Ptr); ok {
				if !p.tracked() {
					return p
				}
				return &Ptr{Obj: p.Obj, Path: append(append([]int(nil), p.Path...), x.Path...)}
			}
			return args[i]
		}
		if x.tracked() {
			return untrackedPtr() // an object of the summary's own analysis
		}
	case *Tuple:
		el := make([]Value, len(x.Elems))
		for i, e := range x.Elems {
			el[i] = sb.mapBack(e, paramObj, args)
		}
		return &Tuple{el}
	}
	return v
}

// checkReach accounts for every static call of a primitive in the scope.
func (sb *stageB) checkReach(roots []*ssa.Function) {
	ru := sb.rules.Rule(ClsReach)
	// functions that only run inside primitives (feMul -> feMulGeneric ...):
	// static callees of primitives, transitively, that nothing else calls
	calledByOther := map[*ssa.Function]bool{}
	callees := map[*ssa.Function][]*ssa.Function{}
	for _, fn := range sb.p.ModuleFuncs() {
		for _, b := range fn.Blocks {
			for _, in := range b.Instrs {
				if call, ok := in.(*ssa.Call); ok {
					if c := call.Common().StaticCallee(); c != nil {
						callees[fn] = append(callees[fn], c)
					}
				}
			}
		}
	}
	inner := map[*ssa.Function]bool{}
	var mark func(fn *ssa.Function)
	mark = func(fn *ssa.Function) {
		for _, c := range callees[fn] {
			if _, isPrim := sb.prims[c]; !isPrim && !inner[c] && c.Pkg == fn.Pkg {
				inner[c] = true
				mark(c)
			}
		}
	}
	for fn := range sb.prims {
		mark(fn)
	}
	for fn, cs := range callees {
		_, isPrim := sb.prims[fn]
		if isPrim || inner[fn] {
			continue
		}
		for _, c := range cs {
			calledByOther[c] = true
		}
	}
	for fn := range inner {
		if calledByOther[fn] {
			delete(inner, fn) // also called from element-level code: must be reached
		}
	}
	var unreachedFns []string
	for _, fn := range sb.p.ModuleFuncs() {
		pk := fn.Pkg
		if pk == nil && fn.Parent() != nil {
			pk = fn.Parent().Pkg
		}
		if pk == nil || !sb.scope[pk.Pkg] || len(fn.Blocks) == 0 {
			continue
		}
		if _, isPrim := sb.prims[fn]; isPrim {
			continue
		}
		if inner[fn] {
			continue // only runs inside a primitive: covered by stage A
		}
		live := load.LiveBlocks(fn)
		missed := 0
		for _, b := range fn.Blocks {
			for _, in := range b.Instrs {
				call, ok := in.(*ssa.Call)
				if !ok {
					continue
				}
				callee := call.Common().StaticCallee()
				if callee == nil {
					continue
				}
				if ov, isPrim := sb.prims[callee]; !isPrim || ov.inlineOnly != "" {
					continue
				}
				switch {
				case sb.reached[call]:
					ru.OK(sb.p.Pos(sb.a.instrPos(call)) + " " + callee.Name())
				case !live[b]:
					ru.OK(sb.p.Pos(sb.a.instrPos(call)) + " " + callee.Name() + " (constant-pruned block)")
				default:
					missed++
				}
			}
		}
		if missed > 0 {
			unreachedFns = append(unreachedFns, fmt.Sprintf("%s (%d calls)", load.FuncName(fn), missed))
			ru.Fail(sb.p.Pos(fn.Pos()), load.FuncName(fn), fmt.Sprintf("%d calls of field primitives in %s are not reached by the analysis from any exported entry point: their pre-conditions are UNDECIDED", missed, load.FuncName(fn)), nil)
		}
	}
	_ = unreachedFns
}

// checkEncapsulation verifies the assumption behind the by-type bounds: code
// outside the scope cannot write the limbs of an element directly, i.e. no
// exported struct type of the scope has an exported field that embeds a
// field.Element (internal/field itself cannot be imported from outside the
// module, and every importer inside the module is in the scope).
func (sb *stageB) checkEncapsulation() {
	ru := sb.rules.Rule(ClsComplete)
	bad := 0
	for _, pk := range sb.p.Pkgs {
		if !sb.scope[pk.Types] || pk.Types == sb.p.Pkg(fieldRel).Types {
			continue
		}
		sc := pk.Types.Scope()
		for _, name := range sc.Names() {
			tn, ok := sc.Lookup(name).(*types.TypeName)
			if !ok || !tn.Exported() {
				continue
			}
			st, ok := tn.Type().Underlying().(*types.Struct)
			if !ok {
				continue
			}
			for i := 0; i < st.NumFields(); i++ {
				f := st.Field(i)
				if f.Exported() && sb.a.heap.contains(f.Type()) {
					bad++
					ru.Fail(sb.p.Pos(f.Pos()), load.Rel(pk.Types)+"."+name, fmt.Sprintf("exported field %s.%s embeds a field.Element: code outside the analysed scope can store arbitrary limbs, the by-type bounds are not an invariant", name, f.Name()), nil)
				}
			}
		}
	}
	if bad == 0 {
		ru.OK("encapsulation: no exported field embeds a field.Element")
	}
	// calls through interfaces and function values are not followed (their
	// arguments are havocked to the by-type bounds): none of them may reach
	// a function of the scope, whose writes would then go unnoticed unless
	// it is an analysed entry point
	dyn := dynamicScopeTargets(sb.p)
	if len(dyn) == 0 {
		ru.OK("no dynamic call inside the scope targets a function of the scope (VTA call graph)")
		return
	}
	for _, d := range dyn {
		ru.Fail("-", "stage B", "dynamic call inside the analysed scope that is not followed: "+d, nil)
	}
}
