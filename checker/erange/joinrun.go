package erange

import (
	"fmt"
	"go/types"
	"os"

	"golang.org/x/tools/go/ssa"

	"voicheck/load"
)

// Join mode (Stage B): instead of enumerating paths, one activation of a
// function is interpreted by the classical worklist algorithm: the state at
// the entry of a block is the join of the states arriving over its incoming
// edges, blocks are processed in reverse post-order, loop heads are iterated
// to a post-fixpoint with widening, and a call yields the single join of the
// callee's returning states.
//
// A state consists of the memory and of the branch refinements in force
// (frame.over); the value of every SSA instruction is kept once per
// activation (frame.env) — it is recomputed, monotonically, whenever its
// block is processed again.

type edgeState struct {
	over map[ssa.Value]Value
	mem  *Memory
	phis []Value
}

type joinActivation struct {
	edges map[*ssa.BasicBlock][]*edgeState // per block: one slot per incoming edge
	in    map[*ssa.BasicBlock]*edgeState   // state the block was last processed with
	count map[*ssa.BasicBlock]int          // number of times a block was processed
	iter  map[*ssa.BasicBlock]int          // loop heads: iterations since the loop was last entered
	epoch map[*ssa.BasicBlock]int          // loop heads: executions of the dominators at last processing
	dirty map[*ssa.BasicBlock]bool
}

// rpoIndex numbers the blocks of fn in reverse post-order.
func (a *Analyzer) rpoIndex(fn *ssa.Function) map[*ssa.BasicBlock]int {
	fi := a.infoOf(fn)
	if fi.rpo != nil {
		return fi.rpo
	}
	var post []*ssa.BasicBlock
	seen := map[*ssa.BasicBlock]bool{}
	var dfs func(b *ssa.BasicBlock)
	dfs = func(b *ssa.BasicBlock) {
		seen[b] = true
		for _, s := range b.Succs {
			if !seen[s] {
				dfs(s)
			}
		}
		post = append(post, b)
	}
	dfs(fn.Blocks[0])
	fi.rpo = map[*ssa.BasicBlock]int{}
	for i, b := range post {
		fi.rpo[b] = len(post) - 1 - i
	}
	return fi.rpo
}

var traceJoin = os.Getenv("VOI_ERANGE_TRACE") == "2"

// runJoin interprets one activation in join mode and returns zero or one
// result (the join over all returning states).
func (a *Analyzer) runJoin(fr *frame, mem *Memory) []result {
	fn := fr.fn
	rpo := a.rpoIndex(fn)
	depth := fr.info.depth
	act := &joinActivation{edges: map[*ssa.BasicBlock][]*edgeState{}, in: map[*ssa.BasicBlock]*edgeState{},
		count: map[*ssa.BasicBlock]int{}, iter: map[*ssa.BasicBlock]int{}, epoch: map[*ssa.BasicBlock]int{}, dirty: map[*ssa.BasicBlock]bool{}}
	entry := fn.Blocks[0]
	act.edges[entry] = []*edgeState{{over: map[ssa.Value]Value{}, mem: mem}}
	act.dirty[entry] = true
	var ret *result

	for len(act.dirty) > 0 && !a.aborted {
		// next block: innermost loops first (an inner loop is stabilised
		// before its exits are followed), reverse post-order within a level
		var b *ssa.BasicBlock
		for d := range act.dirty {
			if b == nil || depth[d] > depth[b] || (depth[d] == depth[b] && rpo[d] < rpo[b]) {
				b = d
			}
		}
		delete(act.dirty, b)

		st := joinEdges(act.edges[b])
		if st == nil {
			continue
		}
		isHead := fr.info.heads[b]
		if old := act.in[b]; old != nil && isHead {
			if act.domWork(b) == act.epoch[b] && a.leqState(fr, st, old) {
				continue // post-fixpoint of this loop reached
			}
			if traceLoops && act.iter[b] > 15 {
				a.traceNotCovered(fr, b, act.count[b], st, old)
			}
			st = a.mergeState(fr, b, old, st, act.iter[b] >= joinWidenAfter)
			if act.domWork(b) == act.epoch[b] && a.leqState(fr, st, old) {
				continue // the merged (saturated) state is the one already explored
			}
		}
		if act.count[b] > 40*a.UnrollLimit || act.iter[b] > a.UnrollLimit {
			a.undecide(b.Instrs[0], "block processed more than %d times in join mode", a.UnrollLimit)
			break
		}
		act.count[b]++
		act.iter[b]++
		act.in[b] = st
		if isHead {
			act.epoch[b] = act.domWork(b)
		}
		if traceJoin {
			fmt.Fprintf(os.Stderr, "%*sjoin %s block %d (#%d)\n", fr.depth, "", load.FuncName(fn), b.Index, act.count[b])
		}

		// bind the phis and execute the block
		k := 0
		for _, in := range b.Instrs {
			phi, ok := in.(*ssa.Phi)
			if !ok {
				break
			}
			if k < len(st.phis) && st.phis[k] != nil {
				fr.env[phi] = st.phis[k]
			} else {
				fr.env[phi] = topValue(phi.Type(), a.sizes)
			}
			k++
		}
		fr.over = cloneOver(st.over)
		for _, in := range b.Instrs {
			phi, ok := in.(*ssa.Phi)
			if !ok {
				break
			}
			delete(fr.over, phi) // a refinement made on the previous value of the phi
		}
		m := st.mem.clone()
		dead := false
	instrs:
		for _, instr := range b.Instrs {
			a.steps++
			switch in := instr.(type) {
			case *ssa.Phi:
			case *ssa.Call:
				rs := a.doCall(fr, in, m)
				if len(rs) == 0 {
					dead = true // every path through the callee panics
					break instrs
				}
				j := rs[0]
				for _, r := range rs[1:] {
					j = result{joinMemory(j.mem, r.mem), joinValues(j.ret, r.ret)}
				}
				fr.env[in] = j.ret
				delete(fr.over, in)
				m = j.mem
			case *ssa.Jump:
				a.contribute(fr, act, b, 0, fr.over, m)
			case *ssa.If:
				c, _ := a.val(fr, in.Cond).(*Int)
				switch {
				case c != nil && c.Itv.IsConst(1):
					a.contribute(fr, act, b, 0, fr.over, m)
				case c != nil && c.Itv.IsConst(0):
					a.contribute(fr, act, b, 1, fr.over, m)
				default:
					base := fr.over
					for si, truth := range []bool{true, false} {
						fr.over = cloneOver(base)
						if a.refine(fr, in.Cond, truth) {
							a.contribute(fr, act, b, si, fr.over, m.clone())
						}
					}
					fr.over = base
				}
			case *ssa.Return:
				var rv Value
				switch len(in.Results) {
				case 0:
				case 1:
					rv = a.val(fr, in.Results[0])
				default:
					el := make([]Value, len(in.Results))
					for j, r := range in.Results {
						el[j] = a.val(fr, r)
					}
					rv = &Tuple{el}
				}
				if ret == nil {
					ret = &result{m, rv}
				} else {
					ret = &result{joinMemory(ret.mem, m), joinValues(ret.ret, rv)}
				}
			case *ssa.Panic:
				dead = true
				break instrs
			default:
				a.step(fr, instr, m)
				if v, ok := instr.(ssa.Value); ok {
					delete(fr.over, v)
				}
			}
		}
		_ = dead
	}
	fr.over = nil
	if ret == nil {
		return nil
	}
	return []result{*ret}
}

// domWork is the number of executions of the blocks that strictly dominate
// b: the values a loop body can use from outside the loop are defined there,
// so a loop head need not be processed again while this number and its entry
// state are unchanged.
func (act *joinActivation) domWork(b *ssa.BasicBlock) int {
	n := 0
	for d := b.Idom(); d != nil; d = d.Idom() {
		n += act.count[d]
	}
	return n
}

func cloneOver(o map[ssa.Value]Value) map[ssa.Value]Value {
	c := make(map[ssa.Value]Value, len(o)+4)
	for k, v := range o {
		c[k] = v
	}
	return c
}

// contribute records the state leaving block p over its succIdx-th edge.
func (a *Analyzer) contribute(fr *frame, act *joinActivation, p *ssa.BasicBlock, succIdx int, over map[ssa.Value]Value, m *Memory) {
	b := p.Succs[succIdx]
	// the k-th edge p->b corresponds to the k-th occurrence of p in b.Preds
	k := 0
	for i := 0; i < succIdx; i++ {
		if p.Succs[i] == b {
			k++
		}
	}
	slot := -1
	for i, q := range b.Preds {
		if q == p {
			if k == 0 {
				slot = i
				break
			}
			k--
		}
	}
	if slot < 0 {
		a.undecide(nil, "edge %d->%d of %s not found", p.Index, b.Index, load.FuncName(fr.fn))
		return
	}
	saved := fr.over
	fr.over = over
	var phis []Value
	for _, in := range b.Instrs {
		phi, ok := in.(*ssa.Phi)
		if !ok {
			break
		}
		phis = append(phis, a.val(fr, phi.Edges[slot]))
	}
	fr.over = saved
	if act.edges[b] == nil {
		act.edges[b] = make([]*edgeState, len(b.Preds))
	}
	if body := fr.info.body[b]; body != nil && !body[p] {
		// the loop is entered anew from outside: iterate it from this entry
		// state alone (recursive iteration strategy); what came around its
		// back edges belongs to the previous entry
		for i, q := range b.Preds {
			if body[q] {
				act.edges[b][i] = nil
			}
		}
		delete(act.in, b)
		act.iter[b] = 0
	}
	act.edges[b][slot] = &edgeState{over: cloneOver(over), mem: m, phis: phis}
	act.dirty[b] = true
}

// joinEdges joins the states of the incoming edges reached so far.
func joinEdges(es []*edgeState) *edgeState {
	var out *edgeState
	for _, e := range es {
		if e == nil {
			continue
		}
		if out == nil {
			out = &edgeState{over: cloneOver(e.over), mem: e.mem, phis: append([]Value(nil), e.phis...)}
			continue
		}
		// a refinement survives only if it holds on every edge
		for v, x := range out.over {
			if y, ok := e.over[v]; ok {
				out.over[v] = joinValues(x, y)
			} else {
				delete(out.over, v)
			}
		}
		out.mem = joinMemory(out.mem, e.mem)
		for i := range out.phis {
			if i < len(e.phis) {
				out.phis[i] = joinValues(out.phis[i], e.phis[i])
			}
		}
	}
	return out
}

// leqState reports new ⊑ old for two entry states of the same block.
func (a *Analyzer) leqState(fr *frame, nw, old *edgeState) bool {
	if len(nw.phis) != len(old.phis) {
		return false
	}
	for i := range nw.phis {
		if !leqValue(nw.phis[i], old.phis[i]) {
			return false
		}
	}
	for v, y := range old.over {
		x, ok := nw.over[v]
		if !ok {
			x = fr.env[v]
		}
		if x == nil || !leqValue(x, y) {
			return false
		}
	}
	return leqMemory(nw.mem, old.mem)
}

// mergeState joins (and optionally widens) the new entry state of a loop
// head into the previous one.
func (a *Analyzer) mergeState(fr *frame, b *ssa.BasicBlock, old, nw *edgeState, widen bool) *edgeState {
	merge := func(o, n Value, t types.Type) Value {
		j := joinValues(o, n)
		if widen {
			lim := widenLimit
			if t != nil {
				if ii, ok := intInfoOf(t, a.sizes); ok {
					lim = ii.rng()
				}
			}
			j = widenValue(o, j, lim)
		}
		return j
	}
	out := &edgeState{over: map[ssa.Value]Value{}, phis: make([]Value, len(nw.phis))}
	k := 0
	for _, in := range b.Instrs {
		phi, ok := in.(*ssa.Phi)
		if !ok || k >= len(nw.phis) {
			break
		}
		if k < len(old.phis) {
			out.phis[k] = merge(old.phis[k], nw.phis[k], phi.Type())
		} else {
			out.phis[k] = nw.phis[k]
		}
		k++
	}
	for v, x := range old.over {
		if y, ok := nw.over[v]; ok {
			out.over[v] = merge(x, y, v.Type())
		}
	}
	mem := newMemory(nw.mem.base)
	ids := map[int]bool{}
	for id := range old.mem.cells {
		ids[id] = true
	}
	for id := range nw.mem.cells {
		ids[id] = true
	}
	for id := range ids {
		o, okO := old.mem.root(id)
		n, okN := nw.mem.root(id)
		switch {
		case okO && okN:
			mem.cells[id] = merge(o, n, nil)
		case okN:
			mem.cells[id] = n
		default:
			mem.cells[id] = o
		}
	}
	for _, src := range []*Memory{old.mem, nw.mem} {
		for id := range src.written {
			mem.written[id] = true
		}
		for id := range src.read {
			mem.read[id] = true
		}
		for id := range src.shared {
			mem.shared[id] = true
		}
		for id := range src.multi {
			mem.multi[id] = true
		}
	}
	out.mem = mem
	return out
}

// traceNotCovered prints why a loop head state is not covered (debug aid).
func (a *Analyzer) traceNotCovered(fr *frame, b *ssa.BasicBlock, n int, nw, old *edgeState) {
	fmt.Fprintf(os.Stderr, "loop %s block %d visit %d not covered:", load.FuncName(fr.fn), b.Index, n)
	for i := range nw.phis {
		if i < len(old.phis) && !leqValue(nw.phis[i], old.phis[i]) {
			fmt.Fprintf(os.Stderr, " phi%d %s !<= %s;", i, debugValue(nw.phis[i]), debugValue(old.phis[i]))
		}
	}
	for v, y := range old.over {
		x, ok := nw.over[v]
		if !ok {
			x = fr.env[v]
		}
		if x == nil || !leqValue(x, y) {
			fmt.Fprintf(os.Stderr, " over %s %s !<= %s;", v.Name(), debugValue(x), debugValue(y))
		}
	}
	for k, v := range nw.mem.cells {
		if w, ok := old.mem.root(k); ok && !leqValue(v, w) {
			fmt.Fprintf(os.Stderr, " obj%d (%v) %s !<= %s;", k, a.objType[k], debugValue(v), debugValue(w))
		}
	}
	fmt.Fprintln(os.Stderr)
}
