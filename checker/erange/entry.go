package erange

import (
	"fmt"
	"go/types"
	"sort"
	"strings"

	"golang.org/x/tools/go/ssa"

	"voicheck/load"
	"voicheck/report"
)

// FuncSpec states the pre-condition under which an entry point is analysed.
type FuncSpec struct {
	Label string
	// Cell returns the interval of the integer cell at `path` inside the
	// pointee of pointer parameter `param` (nil: the whole range of its type).
	Cell func(param int, path []int, leaf types.Type) *Itv
	// IntParam returns the interval of an integer parameter (nil: type range).
	IntParam func(param int) *Itv
	// PairBound, if it returns non-nil for (param, i), declares that cells
	// 2i and 2i+1 of the pointee array of `param` are the low and high word
	// of one 128-bit quantity lying in the returned interval.
	PairBound func(param, pair int) *Itv
	// Alias also analyses every way in which pointer parameters of identical
	// pointee type may alias each other.
	Alias bool
	// Partition, if non-nil, fixes the aliasing instead: Partition[i] is the
	// representative parameter of pointer parameter i's alias class.
	Partition map[int]int
	// Arg overrides the abstract value of a non-pointer parameter.
	Arg func(param int) Value
}

// FuncResult is the outcome of analysing one entry point.
type FuncResult struct {
	Fn           *ssa.Function
	Label        string
	In, Out      []Value // per parameter: initial / final pointee (pointer parameters only)
	Ret          Value   // join of the results of normally returning paths
	Paths        int
	ErrPaths     int // paths returning a non-nil error (outputs not part of the post-condition)
	AliasConfigs int
	Written      []int       // parameters whose pointee is written when no parameters alias
	Read         []int       // parameters whose pointee is read (first alias configuration)
	ParamObj     map[int]int // object id -> parameter index (first alias configuration)
	Obligations  []*Obligation
	Undecided    []string
	Inlined      map[string]int
	Summarised   map[string]int
	IdiomCount   map[string]int
}

// buildValue creates the initial contents of an object of type t.
func (a *Analyzer) buildValue(t types.Type, path []int, cell func(path []int, leaf types.Type) *Itv) Value {
	switch u := t.Underlying().(type) {
	case *types.Basic:
		if ii, ok := intInfoOf(u, a.sizes); ok {
			if cell != nil {
				if i := cell(path, t); i != nil {
					return mkInt(*i)
				}
			}
			return mkInt(ii.rng())
		}
	case *types.Array:
		if u.Len() <= maxAggLen {
			el := make([]Value, u.Len())
			for i := range el {
				el[i] = a.buildValue(u.Elem(), append(append([]int(nil), path...), i), cell)
			}
			return &Agg{el}
		}
	case *types.Struct:
		el := make([]Value, u.NumFields())
		for i := range el {
			el[i] = a.buildValue(u.Field(i).Type(), append(append([]int(nil), path...), i), cell)
		}
		return &Agg{el}
	}
	return topValue(t, a.sizes)
}

// partitions enumerates the set partitions of the pointer parameters in
// which only parameters of identical pointee type share a block.  block[i]
// is the representative (smallest member) of parameter i's block.
func partitions(ptrParams []int, elem map[int]types.Type, alias bool) [][]int {
	var out [][]int
	cur := make([]int, len(ptrParams))
	var rec func(k int)
	rec = func(k int) {
		if k == len(ptrParams) {
			out = append(out, append([]int(nil), cur...))
			return
		}
		cur[k] = ptrParams[k]
		rec(k + 1)
		if !alias {
			return
		}
		seen := map[int]bool{}
		for j := 0; j < k; j++ {
			rep := cur[j]
			if !seen[rep] && types.Identical(elem[rep], elem[ptrParams[k]]) {
				seen[rep] = true
				cur[k] = rep
				rec(k + 1)
			}
		}
	}
	rec(0)
	return out
}

// AnalyzeFunc interprets fn under spec and returns the joined outcome.
// Obligations are recorded iff record is set.
func (a *Analyzer) AnalyzeFunc(fn *ssa.Function, spec FuncSpec, record bool) (res *FuncResult) {
	if fn.Pkg != nil {
		a.ensureInit(fn.Pkg)
	}
	a.resetEntry(spec.Label, record)
	res = &FuncResult{Fn: fn, Label: spec.Label, In: make([]Value, len(fn.Params)), Out: make([]Value, len(fn.Params))}
	defer func() {
		if e := recover(); e != nil {
			a.undecide(nil, "analysis of %s panicked: %v", spec.Label, e)
		}
		res.Obligations, res.Undecided = a.oblOrder, a.undecided
		res.Inlined, res.Summarised = a.inlined, a.summarised
		res.IdiomCount = map[string]int{}
		for k, m := range a.idiomSites {
			res.IdiomCount[k] = len(m)
		}
		res.Paths = a.paths + res.AliasConfigs
	}()
	if len(fn.Blocks) == 0 {
		a.undecide(nil, "%s has no Go body", load.FuncName(fn))
		return res
	}

	var ptrParams []int
	elem := map[int]types.Type{}
	for i, p := range fn.Params {
		if pt, ok := p.Type().Underlying().(*types.Pointer); ok {
			ptrParams = append(ptrParams, i)
			elem[i] = pt.Elem()
		}
	}
	initial := func(i int) Value {
		v := a.buildValue(elem[i], nil, func(path []int, leaf types.Type) *Itv {
			if spec.Cell != nil {
				return spec.Cell(i, path, leaf)
			}
			return nil
		})
		if spec.PairBound != nil {
			if agg, ok := v.(*Agg); ok {
				el := append([]Value(nil), agg.Elems...)
				for k := 0; 2*k+1 < len(el); k++ {
					if b := spec.PairBound(i, k); b != nil {
						el[2*k], el[2*k+1] = a.widePairValues(*b)
					}
				}
				v = &Agg{el}
			}
		}
		return v
	}
	for _, i := range ptrParams {
		res.In[i] = initial(i)
	}

	errIdx := -1
	if rs := fn.Signature.Results(); rs.Len() > 0 && types.Identical(rs.At(rs.Len()-1).Type(), types.Universe.Lookup("error").Type()) {
		errIdx = rs.Len() - 1
	}

	parts := partitions(ptrParams, elem, spec.Alias)
	if spec.Partition != nil {
		fixed := make([]int, len(ptrParams))
		for k, i := range ptrParams {
			fixed[k] = i
			if rep, ok := spec.Partition[i]; ok {
				fixed[k] = rep
			}
		}
		parts = [][]int{fixed}
	}
	for _, part := range parts {
		res.AliasConfigs++
		mem := newMemory(a.base)
		block := map[int]int{}
		for k, i := range ptrParams {
			block[i] = part[k]
		}
		objOf := func(i int) int { return a.objID(fmt.Sprintf("param:%s#%d", spec.Label, block[i])) }
		for _, i := range ptrParams {
			if old, ok := mem.cells[objOf(i)]; ok {
				mem.cells[objOf(i)] = joinValues(old, res.In[i])
			} else {
				mem.cells[objOf(i)] = res.In[i]
			}
		}
		args := make([]Value, len(fn.Params))
		for i, p := range fn.Params {
			if _, ok := elem[i]; ok {
				args[i] = &Ptr{Obj: objOf(i)}
				if res.ParamObj == nil {
					res.ParamObj = map[int]int{}
				}
				if res.AliasConfigs == 1 {
					if _, dup := res.ParamObj[objOf(i)]; !dup {
						res.ParamObj[objOf(i)] = i
					}
				}
				continue
			}
			if spec.Arg != nil {
				if v := spec.Arg(i); v != nil {
					args[i] = v
					continue
				}
			}
			if ii, ok := intInfoOf(p.Type(), a.sizes); ok {
				args[i] = mkInt(ii.rng())
				if spec.IntParam != nil {
					if iv := spec.IntParam(i); iv != nil {
						args[i] = mkInt(*iv)
					}
				}
				continue
			}
			args[i] = topValue(p.Type(), a.sizes)
		}
		first := res.AliasConfigs == 1 // the partition without aliasing comes first
		for _, r := range a.callFn(fn, args, nil, mem, "E", 0) {
			if errIdx >= 0 {
				var ev Value = r.ret
				if t, ok := r.ret.(*Tuple); ok {
					ev = t.Elems[errIdx]
				}
				if nilness(ev) == 2 {
					res.ErrPaths++
					continue // error path: outputs are not part of the post-condition
				}
			}
			res.Ret = joinValues(res.Ret, r.ret)
			for _, i := range ptrParams {
				if first && r.mem.read[objOf(i)] && !containsInt(res.Read, i) {
					res.Read = append(res.Read, i)
				}
				if v, ok := r.mem.load(&Ptr{Obj: objOf(i)}); ok {
					res.Out[i] = joinValues(res.Out[i], v)
					if first && r.mem.written[objOf(i)] && !containsInt(res.Written, i) {
						res.Written = append(res.Written, i)
					}
				}
			}
		}
	}
	sort.Ints(res.Written)
	sort.Ints(res.Read)
	return res
}

// ---------------------------------------------------------------------------
// inspection helpers

// intCells lists the integer cells of a value with their paths.
func intCells(v Value, path []int, f func(path []int, x *Int)) {
	switch x := v.(type) {
	case *Int:
		f(path, x)
	case *Agg:
		for i, e := range x.Elems {
			intCells(e, append(append([]int(nil), path...), i), f)
		}
	case *Tuple:
		for i, e := range x.Elems {
			intCells(e, append(append([]int(nil), path...), i), f)
		}
	}
}

func containsInt(l []int, x int) bool {
	for _, y := range l {
		if x == y {
			return true
		}
	}
	return false
}

// sameValue reports whether two values are equal as abstract values.
func sameValue(a, b Value) bool { return leqValue(a, b) && leqValue(b, a) }

// ---------------------------------------------------------------------------
// reporting

// Rules holds the report rules of one engine invocation, by class.
type Rules struct {
	Prefix string
	byCls  map[string]*report.Rule
	run    *report.Run
	groups map[string]*failGroup
	order  []string
}

// RuleID returns the rule id of a class.
func RuleID(prefix, class string) string { return prefix + "/" + class }

// NewRules declares (or fetches) the rules prefix/class.  expectedMin gives
// the per-class vacuity threshold used when the rule is not declared yet.
func NewRules(run *report.Run, prefix string, classes []string, expectedMin map[string]int) *Rules {
	r := &Rules{Prefix: prefix, byCls: map[string]*report.Rule{}, run: run, groups: map[string]*failGroup{}}
	for _, c := range classes {
		r.byCls[c] = run.Rule(RuleID(prefix, c), ClassDesc[c], expectedMin[c])
	}
	return r
}

// Rule returns the rule of a class.
func (r *Rules) Rule(class string) *report.Rule {
	if ru := r.byCls[class]; ru != nil {
		return ru
	}
	ru := r.run.Rule(RuleID(r.Prefix, class), ClassDesc[class], 0)
	r.byCls[class] = ru
	return ru
}

// ClsComplete: every instruction reached is modelled.
const ClsComplete = "complete"

func init() {
	ClassDesc[ClsComplete] = "every instruction and call reached in the primitive is modelled (nothing is left undecided), all paths are explored within the stated bounds"
}

// ReportResult records the obligations of one analysed entry point.
// Discharged obligations are recorded at once; violated ones are grouped by
// (class, function, position, expression) over all entry points and emitted
// by Flush, so that one broken instruction inlined into several primitives
// is one violation naming all of them.
func (r *Rules) ReportResult(res *FuncResult) {
	for _, o := range res.Obligations {
		if !o.Failed() {
			r.Rule(o.Class).OK(o.Entry + " :: " + o.Pos + " " + o.Expr)
			continue
		}
		key := o.Class + "|" + o.Func + "|" + o.Pos + "|" + o.Expr
		g := r.groups[key]
		if g == nil {
			g = &failGroup{first: o}
			r.groups[key] = g
			r.order = append(r.order, key)
		}
		g.all = append(g.all, o)
	}
	ru := r.Rule(ClsComplete)
	if len(res.Undecided) > 0 {
		for _, u := range res.Undecided {
			ru.Fail("-", load.FuncName(res.Fn), "UNDECIDED while analysing "+res.Label+": "+u, nil)
		}
	} else {
		ru.OK(res.Label)
	}
}

type failGroup struct {
	first *Obligation
	all   []*Obligation
}

// Flush emits the grouped violations collected by ReportResult.
func (r *Rules) Flush() {
	// root causes first: instruction-level obligations before the
	// post-conditions that fail as a consequence
	rank := func(key string) int {
		if r.groups[key].first.Class == ClsPost {
			return 1
		}
		return 0
	}
	sort.SliceStable(r.order, func(i, j int) bool { return rank(r.order[i]) < rank(r.order[j]) })
	for _, key := range r.order {
		g := r.groups[key]
		o := g.first
		under := o.Entry
		if len(g.all) > 1 {
			var others []string
			seen := map[string]bool{o.Entry: true}
			for _, x := range g.all[1:] {
				if !seen[x.Entry] {
					seen[x.Entry] = true
					others = append(others, x.Entry)
				}
			}
			if len(others) > 6 {
				others = append(others[:6], fmt.Sprintf("... %d more", len(others)-6))
			}
			if len(others) > 0 {
				under += " (and likewise under " + strings.Join(others, ", ") + ")"
			}
		}
		details := make([]map[string]any, 0, len(g.all))
		for _, x := range g.all {
			details = append(details, x.Summary())
		}
		ru := r.Rule(o.Class)
		ru.Fail(o.Pos, o.Func, fmt.Sprintf("%s: `%s` = %s violates \"%s\" when %s is analysed under its pre-condition: %s",
			o.Pos, o.Expr, o.itvString(), o.What, under, o.Fails[0]), details)
		// the remaining members of the group are instances of the rule too
		for range g.all[1:] {
			ru.Fail(o.Pos, o.Func, fmt.Sprintf("%s: `%s` = %s violates \"%s\" when %s is analysed under its pre-condition: %s",
				o.Pos, o.Expr, o.itvString(), o.What, under, o.Fails[0]), details)
		}
	}
	r.groups, r.order = map[string]*failGroup{}, nil
}

// Stats summarises the obligations of a result.
type Stats struct {
	Total, ByRange, ByIdiom, Violated int
	ByClass                           map[string]int
	Idioms                            map[string]int // distinct wrapped obligations discharged per idiom
}

// StatsOf computes the statistics of a list of obligations.
func StatsOf(obls []*Obligation) Stats {
	s := Stats{ByClass: map[string]int{}, Idioms: map[string]int{}}
	for _, o := range obls {
		s.Total++
		s.ByClass[o.Class]++
		switch {
		case o.Failed():
			s.Violated++
		case o.Wrapped:
			s.ByIdiom++
			for n := range o.Idioms {
				s.Idioms[n]++
			}
			if len(o.Idioms) == 0 {
				s.Idioms["wrapped result never observed"]++
			}
		default:
			s.ByRange++
		}
	}
	return s
}

func sortedKeys(m map[string]int) []string {
	var ks []string
	for k := range m {
		ks = append(ks, k)
	}
	sort.Strings(ks)
	return ks
}
