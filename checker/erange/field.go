package erange

import (
	"fmt"
	"go/token"
	"go/types"
	"math"
	"math/big"
	"os"
	"sort"
	"strconv"
	"strings"

	"golang.org/x/tools/go/ssa"

	"voicheck/load"
	"voicheck/report"
)

// Stage A: every primitive of internal/field that touches limbs is analysed
// on its own, every input limb ranging over the documented headroom.
//
// 64-bit back end (field_u64.go): "a[i], b[i] < 2^(51+b) ... So we require
// b < 3" (feMulGeneric, fePow2kGeneric), i.e. limbs < 2^54.
//
// 32-bit back end (field_u32.go): "x[i], y[i] < 2^(26+b) if i even,
// < 2^(25+b) if i odd"; "19*y fits in a u32 iff 26+b+lg(19) < 32, b < 1.752".
// The engine uses the exact bound that comment approximates: the largest
// even limb with 19*y <= 2^32-1, i.e. floor((2^32-1)/19) = 226050910
// (~2^27.752), and half of it for odd limbs (113025455).

const fieldRel = "internal/field"

// FieldBackend describes the limb representation of a configuration.
type FieldBackend struct {
	Name     string // "u64" or "u32"
	Limbs    int
	LimbBits uint       // width of the limb word
	Elem     types.Type // field.Element
	Inner    int        // index of the limb array field
	InnerT   *types.Array
	H        []*big.Int // headroom: inclusive upper bound of each input limb
	HDoc     string
	D        []*big.Int // declared (documented) bound of a reduced output limb
	DDoc     string
}

func resolveBackend(p *load.Program) (*FieldBackend, error) {
	pk := p.Pkg(fieldRel)
	if pk == nil {
		return nil, fmt.Errorf("package %s not loaded", fieldRel)
	}
	tn, _ := pk.Types.Scope().Lookup("Element").(*types.TypeName)
	if tn == nil {
		return nil, fmt.Errorf("type field.Element not found")
	}
	st, ok := tn.Type().Underlying().(*types.Struct)
	if !ok {
		return nil, fmt.Errorf("field.Element is not a struct")
	}
	be := &FieldBackend{Elem: tn.Type(), Inner: -1}
	for i := 0; i < st.NumFields(); i++ {
		if arr, ok := st.Field(i).Type().Underlying().(*types.Array); ok && arr.Len() > 0 {
			if b, ok := arr.Elem().Underlying().(*types.Basic); ok && b.Info()&types.IsUnsigned != 0 {
				be.Inner, be.InnerT = i, arr
			}
		}
	}
	if be.Inner < 0 {
		return nil, fmt.Errorf("field.Element has no limb array")
	}
	be.Limbs = int(be.InnerT.Len())
	switch b := be.InnerT.Elem().Underlying().(*types.Basic); {
	case b.Kind() == types.Uint64 && be.Limbs == 5:
		be.Name, be.LimbBits = "u64", 64
		bits := uint(54)
		if s := os.Getenv("VOI_ERANGE_HEADROOM64"); s != "" { // validation of the analysis only
			if n, err := strconv.Atoi(s); err == nil && n > 0 && n <= 64 {
				bits = uint(n)
			}
		}
		for i := 0; i < 5; i++ {
			be.H = append(be.H, pow2m1(bits))
		}
		be.HDoc = fmt.Sprintf("every input limb < 2^%d (field_u64.go: limbs < 2^(51+b), b < 3)", bits)
		// reduce: "The biggest carry-in is c4 * 19, resulting in 2^51 + 19*2^13";
		// feMulGeneric: "fe[1] < 2^51 + 2^13 ... fe[i] < 2^(51 + epsilon)"
		d := new(big.Int).Add(pow2(51), new(big.Int).Mul(big.NewInt(19), pow2(13)))
		for i := 0; i < 5; i++ {
			be.D = append(be.D, d)
		}
		be.DDoc = "reduced limb <= 2^51 + 19*2^13 (field_u64.go reduce: \"2^51 + 19*2^13 < 2^51.0000000001\"; feMulGeneric: \"fe[1] < 2^51 + 2^13\")"
	case b.Kind() == types.Uint32 && be.Limbs == 10:
		be.Name, be.LimbBits = "u32", 32
		even := new(big.Int).Quo(pow2m1(32), big.NewInt(19))
		odd := new(big.Int).Rsh(even, 1)
		if s := os.Getenv("VOI_ERANGE_HEADROOM32_SCALE"); s != "" { // validation only
			if n, err := strconv.Atoi(s); err == nil && n > 0 {
				even = new(big.Int).Mul(even, big.NewInt(int64(n)))
				odd = new(big.Int).Mul(odd, big.NewInt(int64(n)))
			}
		}
		for i := 0; i < 10; i++ {
			if i%2 == 0 {
				be.H = append(be.H, even)
			} else {
				be.H = append(be.H, odd)
			}
		}
		// reduce: "Now z[4] < 2^26 and z[5] < 2^25 + 2^13.0002 < 2^25.0004",
		// "Now z[1] < 2^25 - 2^(43.249 - 26) < 2^25.007 (good enough)"
		dOdd, _ := new(big.Float).SetFloat64(math.Pow(2, 25.007)).Int(nil)
		for i := 0; i < 10; i++ {
			if i%2 == 0 {
				be.D = append(be.D, pow2m1(26))
			} else {
				be.D = append(be.D, dOdd)
			}
		}
		be.DDoc = fmt.Sprintf("reduced even limb < 2^26, reduced odd limb < 2^25.007 = %v (field_u32.go reduce: \"z[1] < ... < 2^25.007 (good enough)\")", dOdd)
		be.HDoc = fmt.Sprintf("even limbs <= %v = floor((2^32-1)/19) (~2^%.3f), odd limbs <= %v (field_u32.go: limbs < 2^(26+b) / 2^(25+b), 19*y fits a u32 iff b < 1.752)",
			even, log2(even), odd)
	default:
		return nil, fmt.Errorf("unknown limb representation [%d]%s", be.Limbs, b)
	}
	return be, nil
}

// limbIndex returns the limb a cell path addresses if the pointee is an
// Element (path = [inner, i]) or the limb array itself (path = [i]).
func (be *FieldBackend) limbIndex(pointee types.Type, path []int) (int, bool) {
	if types.Identical(pointee, be.Elem) {
		if len(path) == 2 && path[0] == be.Inner {
			return path[1], true
		}
		return 0, false
	}
	if types.Identical(pointee.Underlying(), be.InnerT) && len(path) == 1 {
		return path[0], true
	}
	return 0, false
}

// primKind classifies a primitive for the closure argument.
type primKind int

const (
	kindReducing    primKind = iota // output is a reduced element: limbs within the documented bound D (default, strictest)
	kindDoubling                    // output is twice a reduced element (64-bit Square2)
	kindAdditive                    // output = sum of inputs (Add)
	kindPassthrough                 // output is one of the inputs (Conditional*, Set)
	kindConstructor                 // output is whatever the caller passes (NewElement*, UnsafeInner)
)

func (k primKind) String() string {
	return [...]string{"reducing", "doubling", "additive", "pass-through", "constructor"}[k]
}

// primOverride adjusts the default specification of a primitive.
type primOverride struct {
	kind       primKind
	inlineOnly string      // reason why the function is only analysed inlined into its callers
	rawAny     bool        // raw limb-array parameters range over the whole word (documented as such)
	intPre     map[int]Itv // pre-condition on integer parameters
	note       string      // shown in the table
}

// overrides are keyed by back end and function name (resolved objects of
// package internal/field; a missing function is simply not listed, a new
// function gets the strict default).
func primOverrides(be *FieldBackend) map[string]primOverride {
	one := Itv{bigOne, pow2m1(64)}
	m := map[string]primOverride{
		"Add":               {kind: kindAdditive},
		"ConditionalSelect": {kind: kindPassthrough},
		"ConditionalSwap":   {kind: kindPassthrough},
		"ConditionalAssign": {kind: kindPassthrough},
		"Set":               {kind: kindPassthrough},
		"UnsafeInner":       {kind: kindConstructor},
		"NewElement51":      {kind: kindConstructor},
		"NewElement2625":    {kind: kindConstructor},
		"fePow2kGeneric":    {intPre: map[int]Itv{2: one}, note: "k >= 1 (documented: \"given k > 0\"; Pow2k panics on 0)"},
	}
	if be.Name == "u64" {
		m["Square2"] = primOverride{kind: kindDoubling, note: "fe = 2*t^2 doubles the limbs of a reduced square without carrying: declared bound 2*D"}
		m["reduce"] = primOverride{rawAny: true, note: "raw limbs: any uint64 (documented: \"input limbs are bounded by 2^64\")"}
	} else {
		m["reduce"] = primOverride{inlineOnly: "not total on arbitrary uint64 limbs (z[i+1] += z[i]>>26 needs headroom): analysed inlined at every call site with the caller's intervals"}
	}
	return m
}

// PrimRow is one row of the pre/post-condition table (evidence).
type PrimRow struct {
	Config      string         `json:"config"`
	Primitive   string         `json:"primitive"`
	Kind        string         `json:"kind"`
	Pre         string         `json:"pre"`
	Post        string         `json:"post"`
	PostMaxLog2 float64        `json:"post_max_log2,omitempty"`
	Obligations int            `json:"obligations"`
	ByRange     int            `json:"discharged_by_range"`
	ByIdiom     int            `json:"discharged_by_idiom"`
	Violated    int            `json:"violated"`
	ByClass     map[string]int `json:"by_class,omitempty"`
	Paths       int            `json:"paths"`
	ErrPaths    int            `json:"error_paths,omitempty"`
	Alias       int            `json:"alias_configurations"`
	Inlined     map[string]int `json:"inlined,omitempty"`
	Note        string         `json:"note,omitempty"`

	post []*big.Int // per-limb maximum of the Element-typed outputs (nil if none)
	kind primKind
	fn   *ssa.Function
}

// fieldEntries lists the limb-level functions of internal/field: those
// declared in the file that declares Element, plus any other function of
// the package that touches the limb array directly.
func fieldEntries(p *load.Program, be *FieldBackend) (entries []*ssa.Function, asm []*ssa.Function) {
	sp := p.SSAPkg(fieldRel)
	pk := p.Pkg(fieldRel)
	elemFile := p.Fset.File(pk.Types.Scope().Lookup("Element").Pos())
	touchesLimbs := func(fn *ssa.Function) bool {
		for _, b := range fn.Blocks {
			for _, in := range b.Instrs {
				switch x := in.(type) {
				case *ssa.FieldAddr:
					if pt, ok := x.X.Type().Underlying().(*types.Pointer); ok && types.Identical(pt.Elem(), be.Elem) && x.Field == be.Inner {
						return true
					}
				case *ssa.Field:
					if types.Identical(x.X.Type(), be.Elem) && x.Field == be.Inner {
						return true
					}
				}
			}
		}
		return false
	}
	seen := map[*ssa.Function]bool{}
	add := func(fn *ssa.Function) {
		if fn == nil || seen[fn] || fn.Synthetic != "" || fn.Parent() != nil {
			return
		}
		seen[fn] = true
		if len(fn.Blocks) == 0 {
			asm = append(asm, fn)
			return
		}
		if p.Fset.File(fn.Pos()) == elemFile || touchesLimbs(fn) {
			entries = append(entries, fn)
		}
	}
	for _, m := range sp.Members {
		switch x := m.(type) {
		case *ssa.Function:
			add(x)
		case *ssa.Type:
			for _, t := range []types.Type{x.Type(), types.NewPointer(x.Type())} {
				ms := p.SSA.MethodSets.MethodSet(t)
				for i := 0; i < ms.Len(); i++ {
					add(p.SSA.MethodValue(ms.At(i)))
				}
			}
		}
	}
	sort.Slice(entries, func(i, j int) bool { return entries[i].Pos() < entries[j].Pos() })
	sort.Slice(asm, func(i, j int) bool { return asm[i].Pos() < asm[j].Pos() })
	return
}

// reachesAsm reports whether fn (transitively, through static calls inside
// the package) calls a function without a Go body.
func reachesAsm(fn *ssa.Function, seen map[*ssa.Function]bool) *ssa.Function {
	if seen[fn] {
		return nil
	}
	seen[fn] = true
	for _, b := range fn.Blocks {
		for _, in := range b.Instrs {
			if c, ok := in.(*ssa.Call); ok {
				if callee := c.Common().StaticCallee(); callee != nil && callee.Pkg == fn.Pkg {
					if len(callee.Blocks) == 0 {
						return callee
					}
					if r := reachesAsm(callee, seen); r != nil {
						return r
					}
				}
			}
		}
	}
	return nil
}

// fieldSpec builds the Stage A pre-condition of a primitive: every limb of
// every Element (or limb-array) parameter ranges over [0, bound[i]].
func fieldSpec(be *FieldBackend, fn *ssa.Function, ov primOverride, bound []*big.Int) FuncSpec {
	return FuncSpec{
		Label: load.FuncName(fn),
		Alias: true,
		Cell: func(param int, path []int, leaf types.Type) *Itv {
			pt := fn.Params[param].Type().Underlying().(*types.Pointer).Elem()
			if i, ok := be.limbIndex(pt, path); ok {
				if !types.Identical(pt, be.Elem) && ov.rawAny {
					return nil
				}
				return &Itv{bigZero, bound[i]}
			}
			return nil
		},
		IntParam: func(param int) *Itv {
			if iv, ok := ov.intPre[param]; ok {
				return &iv
			}
			return nil
		},
	}
}

// elementOutputs extracts, from a result, the per-limb maximum over every
// written Element-typed parameter and Element-typed return value; wrapped
// reports cells that may have wrapped.
func (be *FieldBackend) elementOutputs(res *FuncResult) (post []*big.Int, written []string, wrapped []string) {
	upd := func(limbs []Value, label string) {
		if len(limbs) != be.Limbs {
			return
		}
		if post == nil {
			post = make([]*big.Int, be.Limbs)
			for i := range post {
				post[i] = bigZero
			}
		}
		for i, l := range limbs {
			x, ok := l.(*Int)
			if !ok {
				wrapped = append(wrapped, fmt.Sprintf("%s limb %d has no interval", label, i))
				continue
			}
			if x.wrapped() || x.Itv.Lo.Sign() < 0 {
				wrapped = append(wrapped, fmt.Sprintf("%s limb %d = %s", label, i, x.Itv))
			}
			post[i] = maxBig(post[i], x.Itv.Hi)
		}
	}
	limbsOf := func(v Value, t types.Type) []Value {
		agg, ok := v.(*Agg)
		if !ok {
			return nil
		}
		if types.Identical(t, be.Elem) {
			if in, ok := agg.Elems[be.Inner].(*Agg); ok {
				return in.Elems
			}
			return nil
		}
		if types.Identical(t.Underlying(), be.InnerT) {
			return agg.Elems
		}
		return nil
	}
	for _, i := range res.Written {
		p := res.Fn.Params[i]
		pt, ok := p.Type().Underlying().(*types.Pointer)
		if !ok || res.Out[i] == nil {
			continue
		}
		if l := limbsOf(res.Out[i], pt.Elem()); l != nil {
			name := p.Name()
			written = append(written, name)
			upd(l, name)
		}
	}
	if rs := res.Fn.Signature.Results(); rs.Len() > 0 && res.Ret != nil {
		if rs.Len() == 1 {
			if l := limbsOf(res.Ret, rs.At(0).Type()); l != nil {
				written = append(written, "result")
				upd(l, "result")
			}
		} else if t, ok := res.Ret.(*Tuple); ok {
			for j := 0; j < rs.Len() && j < len(t.Elems); j++ {
				if l := limbsOf(t.Elems[j], rs.At(j).Type()); l != nil {
					written = append(written, fmt.Sprintf("result%d", j))
					upd(l, fmt.Sprintf("result%d", j))
				}
			}
		}
	}
	return
}

func fmtLimbs(v []*big.Int) string {
	if v == nil {
		return "-"
	}
	// group equal bounds
	allEq, parity := true, len(v) > 2
	for i := range v {
		if v[i].Cmp(v[0]) != 0 {
			allEq = false
		}
		if i >= 2 && v[i].Cmp(v[i-2]) != 0 {
			parity = false
		}
	}
	switch {
	case allEq:
		return "all limbs <= " + fmtBig(v[0])
	case parity:
		return "even limbs <= " + fmtBig(v[0]) + ", odd limbs <= " + fmtBig(v[1])
	}
	var s []string
	for i, x := range v {
		s = append(s, fmt.Sprintf("l%d <= %s", i, fmtBig(x)))
	}
	return strings.Join(s, ", ")
}

func maxOf(v []*big.Int) *big.Int {
	m := bigZero
	for _, x := range v {
		m = maxBig(m, x)
	}
	return m
}

// FieldMinPerConfig returns, per obligation class, about 50% of the number
// of Stage A instances measured on the unchanged tree in one configuration
// (vacuity thresholds; a property sums them over the configurations it runs).
// An instance is one instruction in one inlining context of one ENTRY
// primitive (unexported helpers are only counted inlined), so the counts do
// not depend on how the code is split into functions; they do depend on
// whether a limb-wise statement is unrolled or written as a loop, which is
// why the thresholds are generous: 50%, and 20% for the conversions of the
// 32-bit back end, four fifths of which are the ten unrolled uint32(z[i]) of
// the reduce inlined into every primitive.
//
// measured:      arith  sub  wide  conv  signed  post  closure  control  complete
// purego/arm64     125   14   143    32       2    52       17        1        22
// f32/f32pure/386 1374   21     0   162       2    44       14        1        21
// amd64 (Go part)   90   11    57    32       1    40       13        1        18
func FieldMinPerConfig(cfgID string) map[string]int {
	switch cfgID {
	case "purego", "arm64":
		return map[string]int{ClsArith: 62, ClsSub: 7, ClsWide: 71, ClsConv: 16, ClsSigned: 1, ClsPost: 26, ClsClosure: 8, ClsControl: 1, ClsComplete: 11}
	case "f32", "f32pure", "386":
		return map[string]int{ClsArith: 687, ClsSub: 10, ClsWide: 0, ClsConv: 32, ClsSigned: 1, ClsPost: 22, ClsClosure: 7, ClsControl: 1, ClsComplete: 10}
	case "amd64":
		return map[string]int{ClsArith: 45, ClsSub: 5, ClsWide: 28, ClsConv: 16, ClsSigned: 1, ClsPost: 20, ClsClosure: 6, ClsControl: 1, ClsComplete: 9}
	}
	return map[string]int{}
}

// FieldMin sums FieldMinPerConfig over a list of configurations.
func FieldMin(cfgIDs []string) map[string]int {
	out := map[string]int{}
	for _, id := range cfgIDs {
		for c, n := range FieldMinPerConfig(id) {
			out[c] += n
		}
	}
	return out
}

// StageAClasses are the obligation classes of Stage A.
var StageAClasses = []string{ClsArith, ClsSub, ClsWide, ClsConv, ClsSigned, ClsPost, ClsClosure, ClsControl, ClsComplete}

// DeclareFieldRules declares the Stage A rules with vacuity thresholds
// summed over the configurations the property is going to analyse.
func DeclareFieldRules(run *report.Run, rulePrefix string, cfgIDs []string) {
	NewRules(run, rulePrefix, StageAClasses, FieldMin(cfgIDs))
}

// CheckFieldStageA analyses every limb-level primitive of internal/field of
// the loaded configuration under the documented headroom, records every
// obligation under the rules rulePrefix/<class>, derives the pre/post table
// and checks its closure.
func CheckFieldStageA(run *report.Run, p *load.Program, rulePrefix string) []*PrimRow {
	run.SetConfig(p.Cfg.ID)
	// a property that runs several configurations declares the rules itself
	// (DeclareFieldRules) with the summed thresholds; otherwise the
	// thresholds of this configuration apply
	rules := NewRules(run, rulePrefix, StageAClasses, FieldMinPerConfig(p.Cfg.ID))
	be, err := resolveBackend(p)
	if err != nil {
		run.Fatal("[%s] E-RANGE: %v", p.Cfg.ID, err)
		return nil
	}
	if p.SSAPkg(fieldRel) == nil {
		run.Fatal("[%s] E-RANGE: no SSA for %s", p.Cfg.ID, fieldRel)
		return nil
	}
	a := NewAnalyzer(p)
	entries, asm := fieldEntries(p, be)
	if len(entries) < 15 {
		run.Fatal("[%s] E-RANGE: only %d limb-level functions found in %s", p.Cfg.ID, len(entries), fieldRel)
	}
	ovs := primOverrides(be)
	// the effective specification of every function: the table above, and for
	// an unexported helper that has no Element parameter or result (raw limb
	// arrays, words) and is called from the package, "inline only": such a
	// helper has no documented pre/post-condition of its own and is analysed in
	// the context of its callers, whatever way the code is split into functions
	eff := map[*ssa.Function]primOverride{}
	called := map[*ssa.Function]bool{}
	for _, fn := range entries {
		for _, b := range fn.Blocks {
			for _, in := range b.Instrs {
				if c, ok := in.(ssa.CallInstruction); ok {
					if callee := c.Common().StaticCallee(); callee != nil && callee != fn {
						called[callee] = true
					}
				}
			}
		}
	}
	isElem := func(t types.Type) bool {
		if pt, ok := t.Underlying().(*types.Pointer); ok {
			t = pt.Elem()
		}
		return types.Identical(t, be.Elem)
	}
	for _, fn := range entries {
		ov, listed := ovs[fn.Name()]
		if !listed && fn.Signature.Recv() == nil && !token.IsExported(fn.Name()) && called[fn] {
			helper := true
			for i := 0; i < fn.Signature.Params().Len(); i++ {
				helper = helper && !isElem(fn.Signature.Params().At(i).Type())
			}
			for i := 0; i < fn.Signature.Results().Len(); i++ {
				helper = helper && !isElem(fn.Signature.Results().At(i).Type())
			}
			if helper {
				ov.inlineOnly = "unexported helper without an Element parameter or result: no pre/post-condition of its own, analysed inlined at every call site with the caller's intervals"
			}
		}
		eff[fn] = ov
	}
	var rows []*PrimRow
	inlineOnlySeen := map[string]int{}
	totalIdioms := map[string]int{}
	totalSummarised := map[string]int{}
	sampled := 0

	for _, fn := range asm {
		run.NotDecided = appendUnique(run.NotDecided, fmt.Sprintf("[%s] %s is assembly (no Go body): no range model; its Go callers are not given a post-condition", p.Cfg.ID, load.FuncName(fn)))
	}
	for _, fn := range entries {
		ov := eff[fn]
		row := &PrimRow{Config: p.Cfg.ID, Primitive: load.FuncName(fn), Kind: ov.kind.String(), Note: ov.note, kind: ov.kind, fn: fn}
		if ov.inlineOnly != "" {
			row.Kind, row.Pre, row.Post, row.Note = "helper", "(inline only)", "-", ov.inlineOnly
			rows = append(rows, row)
			continue
		}
		if callee := reachesAsm(fn, map[*ssa.Function]bool{}); callee != nil {
			row.Pre, row.Post = "-", "not decided"
			row.Note = "calls " + load.FuncName(callee) + " (assembly): not decided in this configuration"
			run.NotDecided = appendUnique(run.NotDecided, fmt.Sprintf("[%s] %s: calls the assembly routine %s; analysed in the purego/arm64 configurations through its Go twin", p.Cfg.ID, load.FuncName(fn), load.FuncName(callee)))
			rows = append(rows, row)
			continue
		}
		res := a.AnalyzeFunc(fn, fieldSpec(be, fn, ov, be.H), true)
		post, written, wrapped := be.elementOutputs(res)
		// post-condition: every output limb is an exact word
		for _, i := range res.Written {
			prm := fn.Params[i]
			if res.Out[i] == nil {
				continue
			}
			o := a.entryObligation(ClsPost, load.FuncName(fn), p.Pos(fn.Pos()), "outputs written through "+prm.Name(), "every written cell is an exact (non-wrapped) word")
			o.Evals++
			intCells(res.Out[i], nil, func(path []int, x *Int) {
				if x.wrapped() {
					o.fail(fmt.Sprintf("cell %v of %s may hold a wrapped word %s on return", path, prm.Name(), x.Itv))
					for _, org := range x.Org {
						org.fail(fmt.Sprintf("%s may leave its type (value %s) and the wrapped word is returned through %s", org.Expr, x.Itv, prm.Name()))
					}
				}
			})
		}
		if res.Ret != nil {
			o := a.entryObligation(ClsPost, load.FuncName(fn), p.Pos(fn.Pos()), "results", "every returned word is exact (non-wrapped)")
			o.Evals++
			intCells(res.Ret, nil, func(path []int, x *Int) {
				if x.wrapped() {
					o.fail(fmt.Sprintf("result component %v may be a wrapped word %s", path, x.Itv))
					for _, org := range x.Org {
						org.fail(fmt.Sprintf("%s may leave its type (value %s) and the wrapped word is returned", org.Expr, x.Itv))
					}
				}
			})
		}
		_ = wrapped
		// declared post-condition: a reduced output is within the documented bound
		if post != nil && (ov.kind == kindReducing || ov.kind == kindDoubling) {
			o := a.entryObligation(ClsPost, load.FuncName(fn), p.Pos(fn.Pos()), "declared post-condition", "every output limb is within the documented reduced bound ("+ov.kind.String()+")")
			o.Evals++
			for i := range post {
				d := be.D[i]
				if ov.kind == kindDoubling {
					d = new(big.Int).Lsh(d, 1)
				}
				if post[i].Cmp(d) > 0 {
					o.fail(fmt.Sprintf("output limb %d may reach %s, above the documented bound %s of a %s primitive (%s)", i, fmtBig(post[i]), fmtBig(d), ov.kind, be.DDoc))
				}
			}
		}
		res.Obligations = a.oblOrder
		rules.ReportResult(res)

		st := StatsOf(res.Obligations)
		row.Pre = preString(be, fn, ov)
		row.post = post
		row.Post = fmtLimbs(post)
		if post == nil && ov.kind == kindReducing {
			row.Kind = "no Element output"
		}
		if post != nil {
			row.PostMaxLog2 = log2(maxOf(post))
			row.Post += " (written: " + strings.Join(written, ",") + ")"
		}
		row.Obligations, row.ByRange, row.ByIdiom, row.Violated, row.ByClass = st.Total, st.ByRange, st.ByIdiom, st.Violated, st.ByClass
		row.Paths, row.ErrPaths, row.Alias, row.Inlined = res.Paths, res.ErrPaths, res.AliasConfigs, res.Inlined
		rows = append(rows, row)
		for k, n := range res.Inlined {
			inlineOnlySeen[k] += n
		}
		for k, n := range st.Idioms {
			totalIdioms[k] += n
		}
		for k, n := range res.IdiomCount {
			totalIdioms[k] += n
		}
		for k, n := range res.Summarised {
			totalSummarised[k] += n
		}
		// samples: a few real obligations with their intervals
		for _, o := range res.Obligations {
			if sampled < 10 && (o.Class == ClsWide || o.Wrapped || o.Class == ClsConv || o.Class == ClsSub) && o.Evals > 0 && (sampled%2 == 0 || o.Wrapped) {
				s := o.Summary()
				s["config"] = p.Cfg.ID
				run.Sample(s)
				sampled++
				break
			}
		}
	}

	// helpers that are analysed inline only must actually have been inlined
	for _, fn := range entries {
		if ov := eff[fn]; ov.inlineOnly != "" {
			n := inlineOnlySeen[load.FuncName(fn)]
			rules.Rule(ClsComplete).Check(n > 0, p.Pos(fn.Pos()), load.FuncName(fn),
				fmt.Sprintf("%s is declared inline-only but no analysed primitive inlines it", load.FuncName(fn)))
			for _, r := range rows {
				if r.fn == fn {
					r.Note = fmt.Sprintf("%s; inlined %d times", r.Note, n)
				}
			}
		}
	}

	rules.Flush()
	be.checkClosure(run, p, a, rules, rows)
	be.controls(run, p, a, rules, entries, ovs)

	run.Extra["stageA_table_"+p.Cfg.ID] = rows
	run.Extra["stageA_headroom_"+p.Cfg.ID] = be.HDoc
	run.Extra["stageA_declared_post_"+p.Cfg.ID] = be.DDoc
	run.Extra["stageA_idioms_"+p.Cfg.ID] = totalIdioms
	run.Extra["stageA_summarised_callees_"+p.Cfg.ID] = totalSummarised
	return rows
}

func preString(be *FieldBackend, fn *ssa.Function, ov primOverride) string {
	var parts []string
	hasLimb := false
	for _, prm := range fn.Params {
		if pt, ok := prm.Type().Underlying().(*types.Pointer); ok {
			if types.Identical(pt.Elem(), be.Elem) || (types.Identical(pt.Elem().Underlying(), be.InnerT) && !ov.rawAny) {
				hasLimb = true
			}
		}
	}
	if hasLimb {
		parts = append(parts, "limbs of every Element parameter: "+fmtLimbs(be.H))
	}
	if ov.note != "" {
		parts = append(parts, ov.note)
	}
	if len(parts) == 0 {
		return "any"
	}
	return strings.Join(parts, "; ")
}

func appendUnique(l []string, s string) []string {
	for _, x := range l {
		if x == s {
			return l
		}
	}
	return append(l, s)
}

// checkClosure checks that the pre-conditions are consistent.  Every
// reducing primitive was checked (class post) to stay within the documented
// bound D of a reduced limb, every doubling primitive within 2D.  Closure:
// the sum of any two primitive outputs (one further Add) must satisfy the
// headroom H that Mul / Square / Pow2k / Sub / Neg / ... assume of their
// inputs.  It is checked (i) per primitive with its derived post-condition,
// post(P) + Dmax <= H, (ii) for the declared bounds alone, Dmax + Dmax <= H,
// and (iii) by analysing Add itself on inputs <= Dmax (its output is not
// assumed to be the sum).  Sub and Neg reduce, so their outputs are covered
// by (i).
func (be *FieldBackend) checkClosure(run *report.Run, p *load.Program, a *Analyzer, rules *Rules, rows []*PrimRow) {
	ru := rules.Rule(ClsClosure)
	R := make([]*big.Int, be.Limbs)
	Dmax := append([]*big.Int(nil), be.D...)
	for i := range R {
		R[i] = bigZero
	}
	n, doubling := 0, false
	for _, r := range rows {
		if r.post != nil && (r.kind == kindReducing || r.kind == kindDoubling) {
			n++
			doubling = doubling || r.kind == kindDoubling
			for i := range R {
				R[i] = maxBig(R[i], r.post[i])
			}
		}
	}
	if doubling {
		for i := range Dmax {
			Dmax[i] = new(big.Int).Lsh(be.D[i], 1)
		}
	}
	if n == 0 {
		ru.Failf("-", fieldRel, "[%s] no reducing primitive with a derived post-condition: closure cannot be checked", p.Cfg.ID)
		return
	}
	exceeds := func(x, y []*big.Int) string {
		for i := range x {
			if s := new(big.Int).Add(x[i], y[i]); s.Cmp(be.H[i]) > 0 {
				return fmt.Sprintf("limb %d: %s + %s = %s exceeds the headroom %s assumed by Mul/Square/Pow2k/Sub/Neg", i, fmtBig(x[i]), fmtBig(y[i]), fmtBig(s), fmtBig(be.H[i]))
			}
		}
		return ""
	}
	// (i) per primitive
	for _, r := range rows {
		if r.post == nil || (r.kind != kindReducing && r.kind != kindDoubling) {
			continue
		}
		if bad := exceeds(r.post, Dmax); bad == "" {
			ru.OK("closure: " + r.Primitive)
		} else {
			ru.Fail(p.Pos(r.fn.Pos()), r.Primitive, "output of "+r.Primitive+" plus the largest documented output of any primitive is not an admissible input: "+bad, nil)
		}
	}
	// (ii) declared bounds
	if bad := exceeds(Dmax, Dmax); bad == "" {
		ru.OK("closure: declared bounds")
	} else {
		ru.Fail("-", fieldRel, "the documented output bounds do not re-establish the documented input headroom after one Add: "+bad, nil)
	}
	// (iii) Add on two outputs: analysed, not assumed to be the sum
	addFn := p.Func(fieldRel, "(*Element).Add")
	if addFn == nil {
		ru.Failf("-", fieldRel+".(*Element).Add", "anchor (*Element).Add not found")
		return
	}
	res := a.AnalyzeFunc(addFn, fieldSpec(be, addFn, primOverride{}, Dmax), false)
	post, _, wrapped := be.elementOutputs(res)
	ok := post != nil && len(wrapped) == 0 && len(res.Undecided) == 0
	msg := ""
	if ok {
		for i := range post {
			if post[i].Cmp(be.H[i]) > 0 {
				ok = false
				msg = fmt.Sprintf("limb %d of Add(out, out) may reach %s > headroom %s", i, fmtBig(post[i]), fmtBig(be.H[i]))
				break
			}
		}
	} else {
		msg = fmt.Sprintf("Add on two outputs could not be bounded (%v %v)", wrapped, res.Undecided)
	}
	if ok {
		ru.OK("closure: Add(out,out) within headroom")
	} else {
		ru.Fail(p.Pos(addFn.Pos()), load.FuncName(addFn), "sum of two primitive outputs violates the pre-condition of Mul/Square: "+msg, nil)
	}
	run.Extra["stageA_closure_"+p.Cfg.ID] = map[string]any{
		"declared_output_bound":       fmtLimbs(Dmax),
		"derived_max_post":            fmtLimbs(R),
		"add_of_two_declared_outputs": fmtLimbs(post),
		"headroom":                    fmtLimbs(be.H),
		"output_producing_primitives": n,
		"holds":                       ok,
	}
}

// controls are positive controls run on every invocation: the analysis must
// report an overflow when the assumed headroom is raised beyond what the
// code supports (2^56 for the 64-bit multiplication, twice the bound for the
// 32-bit one).
func (be *FieldBackend) controls(run *report.Run, p *load.Program, a *Analyzer, rules *Rules, entries []*ssa.Function, ovs map[string]primOverride) {
	ru := rules.Rule(ClsControl)
	var target string
	raised := make([]*big.Int, be.Limbs)
	if be.Name == "u64" {
		target = "feMulGeneric"
		for i := range raised {
			raised[i] = pow2m1(56)
		}
	} else {
		target = "Mul"
		for i := range raised {
			raised[i] = new(big.Int).Lsh(be.H[i], 1)
		}
	}
	var fn *ssa.Function
	for _, e := range entries {
		if e.Name() == target {
			fn = e
		}
	}
	if fn == nil {
		ru.Failf("-", fieldRel+"."+target, "[%s] control anchor %s not found", p.Cfg.ID, target)
		return
	}
	res := a.AnalyzeFunc(fn, fieldSpec(be, fn, ovs[fn.Name()], raised), true)
	st := StatsOf(res.Obligations)
	var where []string
	for _, o := range res.Obligations {
		if o.Failed() && len(where) < 4 {
			where = append(where, fmt.Sprintf("%s `%s` %s", o.Pos, o.Expr, o.itvString()))
		}
	}
	if st.Violated > 0 {
		ru.OK("control: " + load.FuncName(fn) + " with raised headroom")
		run.Sample(map[string]any{"config": p.Cfg.ID, "control": load.FuncName(fn) + " analysed with input limbs <= " + fmtLimbs(raised),
			"violations_reported": st.Violated, "first": where})
	} else {
		ru.Fail(p.Pos(fn.Pos()), load.FuncName(fn), fmt.Sprintf("positive control failed: with input limbs %s the analysis reports no overflow in %s", fmtLimbs(raised), load.FuncName(fn)), nil)
	}
}
