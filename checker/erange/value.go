package erange

import (
	"fmt"
	"go/types"
	"math/big"

	"golang.org/x/tools/go/ssa"
)

// Value is an abstract value.  All implementations are immutable.
type Value interface{ kind() string }

// Int abstracts an integer (or bool) by the interval of its *mathematical*
// value.  Invariant: the machine word equals the mathematical value modulo
// 2^w, and is equal to it whenever the interval lies inside the range of the
// type.  Org is non-empty exactly when the interval may leave the type range
// ("the word may have wrapped"); it names the arithmetic obligations that let
// it leave, so that a consumer that is not exact modulo 2^w can fail them.
type Int struct {
	Itv Itv
	Tag *wideTag      // relational 128-bit tag, see wide.go
	Org []*Obligation // origins of a possible wrap-around
}

// Agg is an array or struct value, element/field-wise.
type Agg struct{ Elems []Value }

// Ptr points at a cell or sub-aggregate of a tracked object.  Obj == 0 means
// "memory the analysis does not track" (byte slices of callers, results of
// unmodelled calls): loads from it yield the full range of the loaded type.
// A path element -1 stands for "some index" (weak access).
type Ptr struct {
	Obj  int
	Path []int
	Sum  string // untracked pointers only: by-type summary key of the pointee (Stage B), "" if none
}

// Slice is a slice value: a window [Off, Off+Len) of a tracked array
// (Arr != nil) or of untracked memory.
type Slice struct {
	Arr *Ptr
	Off Itv
	Len Itv
	Sum string // untracked backing only: by-type summary key of the elements (Stage B)
}

// Tuple is a multi-value result.
type Tuple struct{ Elems []Value }

// Fn is a function value (closure with its bindings).
type Fn struct {
	F    *ssa.Function
	Bind []Value
}

// Nil is the nil pointer / slice / interface / func constant.
type Nil struct{}

// Opaque is any value the analysis does not interpret (errors, strings,
// interfaces, maps ...).
type Opaque struct {
	NonNil bool
	Why    string
}

func (*Int) kind() string    { return "int" }
func (*Agg) kind() string    { return "agg" }
func (*Ptr) kind() string    { return "ptr" }
func (*Slice) kind() string  { return "slice" }
func (*Tuple) kind() string  { return "tuple" }
func (*Fn) kind() string     { return "func" }
func (Nil) kind() string     { return "nil" }
func (*Opaque) kind() string { return "opaque" }

func mkInt(i Itv) *Int        { return &Int{Itv: i} }
func constInt(c int64) *Int   { return &Int{Itv: itv64(c, c)} }
func (v *Int) wrapped() bool  { return len(v.Org) > 0 }
func (v *Int) String() string { return v.Itv.String() }
func (p *Ptr) String() string { return fmt.Sprintf("&obj%d%v", p.Obj, p.Path) }
func (p *Ptr) tracked() bool  { return p.Obj != 0 }
func (p *Ptr) sub(i int) *Ptr {
	return &Ptr{Obj: p.Obj, Path: append(append([]int(nil), p.Path...), i)}
}
func untrackedPtr() *Ptr        { return &Ptr{} }
func opaque(why string) *Opaque { return &Opaque{Why: why} }

// maxAggLen bounds the size of arrays modelled cell by cell; larger arrays
// (precomputed tables) are opaque.
const maxAggLen = 4096

// zeroValue is the Go zero value of type t.
func zeroValue(t types.Type) Value {
	switch u := t.Underlying().(type) {
	case *types.Basic:
		if u.Info()&(types.IsInteger|types.IsBoolean) != 0 {
			return constInt(0)
		}
		return opaque("zero " + u.String())
	case *types.Array:
		if u.Len() > maxAggLen {
			return opaque("big array")
		}
		el := make([]Value, u.Len())
		if len(el) > 0 {
			z := zeroValue(u.Elem())
			for i := range el {
				el[i] = z
			}
		}
		return &Agg{el}
	case *types.Struct:
		el := make([]Value, u.NumFields())
		for i := range el {
			el[i] = zeroValue(u.Field(i).Type())
		}
		return &Agg{el}
	case *types.Pointer, *types.Slice, *types.Signature, *types.Interface, *types.Map, *types.Chan:
		return Nil{}
	}
	return opaque("zero " + t.String())
}

// topValue is the least precise sound value of type t: every integer cell
// spans the whole range of its type.
func topValue(t types.Type, sizes types.Sizes) Value {
	switch u := t.Underlying().(type) {
	case *types.Basic:
		if ii, ok := intInfoOf(u, sizes); ok {
			return mkInt(ii.rng())
		}
		return opaque(u.String())
	case *types.Array:
		if u.Len() > maxAggLen {
			return opaque("big array")
		}
		el := make([]Value, u.Len())
		if len(el) > 0 {
			z := topValue(u.Elem(), sizes)
			for i := range el {
				el[i] = z
			}
		}
		return &Agg{el}
	case *types.Struct:
		el := make([]Value, u.NumFields())
		for i := range el {
			el[i] = topValue(u.Field(i).Type(), sizes)
		}
		return &Agg{el}
	case *types.Pointer:
		return untrackedPtr()
	case *types.Slice:
		return &Slice{Off: itv64(0, 0), Len: Itv{bigZero, pow2m1(62)}}
	case *types.Tuple:
		el := make([]Value, u.Len())
		for i := range el {
			el[i] = topValue(u.At(i).Type(), sizes)
		}
		return &Tuple{el}
	}
	return opaque(t.String())
}

// joinOrg unions two origin lists (bounded, order-preserving).
func joinOrg(a, b []*Obligation) []*Obligation {
	if len(b) == 0 {
		return a
	}
	if len(a) == 0 {
		return b
	}
	out := append([]*Obligation(nil), a...)
outer:
	for _, o := range b {
		for _, p := range out {
			if p == o {
				continue outer
			}
		}
		out = append(out, o)
	}
	return out
}

// joinElems joins two element lists.  same == 1 (2) reports that the result
// is element-wise identical to xs (ys), in which case no list is built.
func joinElems(xs, ys []Value) (el []Value, same int) {
	isX, isY := true, true
	for i := range xs {
		j := joinValues(xs[i], ys[i])
		if j != xs[i] {
			isX = false
		}
		if j != ys[i] {
			isY = false
		}
		if el == nil && !isX && !isY {
			el = make([]Value, len(xs))
			for k := 0; k < i; k++ {
				el[k] = joinValues(xs[k], ys[k]) // identity-preserving, hence cheap
			}
		}
		if el != nil {
			el[i] = j
		}
	}
	switch {
	case el != nil:
		return el, 0
	case isX:
		return nil, 1
	}
	return nil, 2
}

// joinValues is the least upper bound of two values of the same static type.
func joinValues(a, b Value) Value {
	if a == nil {
		return b
	}
	if b == nil {
		return a
	}
	if a == b {
		return a
	}
	switch x := a.(type) {
	case *Int:
		if y, ok := b.(*Int); ok {
			// keep the identity of an operand that already is the join
			// (big aggregates are joined often and rarely change)
			if y.Itv.Leq(x.Itv) && len(y.Org) == 0 && (x.Tag == nil || (y.Tag != nil && *x.Tag == *y.Tag)) {
				return x
			}
			if x.Itv.Leq(y.Itv) && len(x.Org) == 0 && (y.Tag == nil || (x.Tag != nil && *x.Tag == *y.Tag)) {
				return y
			}
			r := &Int{Itv: x.Itv.Join(y.Itv), Org: joinOrg(x.Org, y.Org)}
			if x.Tag != nil && y.Tag != nil && *x.Tag == *y.Tag {
				r.Tag = x.Tag
			}
			return r
		}
	case *Agg:
		if y, ok := b.(*Agg); ok && len(x.Elems) == len(y.Elems) {
			if el, same := joinElems(x.Elems, y.Elems); same == 1 {
				return x
			} else if same == 2 {
				return y
			} else {
				return &Agg{el}
			}
		}
	case *Tuple:
		if y, ok := b.(*Tuple); ok && len(x.Elems) == len(y.Elems) {
			if el, same := joinElems(x.Elems, y.Elems); same == 1 {
				return x
			} else if same == 2 {
				return y
			} else {
				return &Tuple{el}
			}
		}
	case *Ptr:
		if y, ok := b.(*Ptr); ok {
			if x.Obj == y.Obj && len(x.Path) == len(y.Path) {
				p := make([]int, len(x.Path))
				for i := range p {
					p[i] = x.Path[i]
					if x.Path[i] != y.Path[i] {
						p[i] = -1
					}
				}
				return &Ptr{Obj: x.Obj, Path: p, Sum: x.Sum}
			}
			if !x.tracked() && !y.tracked() {
				if x.Sum == y.Sum {
					return x
				}
				return untrackedPtr()
			}
			return opaque("pointer join")
		}
	case *Slice:
		if y, ok := b.(*Slice); ok {
			r := &Slice{Off: x.Off.Join(y.Off), Len: x.Len.Join(y.Len)}
			if x.Sum == y.Sum {
				r.Sum = x.Sum
			}
			if x.Arr != nil && y.Arr != nil {
				if p, ok := joinValues(x.Arr, y.Arr).(*Ptr); ok {
					r.Arr = p
				}
			}
			return r
		}
	case *Fn:
		if y, ok := b.(*Fn); ok && x.F == y.F && len(x.Bind) == 0 && len(y.Bind) == 0 {
			return x
		}
	case Nil:
		if _, ok := b.(Nil); ok {
			return a
		}
	case *Opaque:
		if y, ok := b.(*Opaque); ok {
			return &Opaque{NonNil: x.NonNil && y.NonNil, Why: x.Why}
		}
	}
	return opaque("join of " + a.kind() + " and " + b.kind())
}

// leqValue reports a ⊑ b (conservatively: false when unsure).
func leqValue(a, b Value) bool {
	if a == b {
		return true
	}
	switch y := b.(type) {
	case *Int:
		x, ok := a.(*Int)
		if !ok || !x.Itv.Leq(y.Itv) {
			return false
		}
		// a tag is extra information: b may only carry one that a has too
		return y.Tag == nil || (x.Tag != nil && *x.Tag == *y.Tag)
	case *Agg:
		x, ok := a.(*Agg)
		if !ok || len(x.Elems) != len(y.Elems) {
			return false
		}
		for i := range x.Elems {
			if !leqValue(x.Elems[i], y.Elems[i]) {
				return false
			}
		}
		return true
	case *Tuple:
		x, ok := a.(*Tuple)
		if !ok || len(x.Elems) != len(y.Elems) {
			return false
		}
		for i := range x.Elems {
			if !leqValue(x.Elems[i], y.Elems[i]) {
				return false
			}
		}
		return true
	case *Ptr:
		x, ok := a.(*Ptr)
		if !ok || x.Obj != y.Obj || len(x.Path) != len(y.Path) || x.Sum != y.Sum {
			return false
		}
		for i := range x.Path {
			if x.Path[i] != y.Path[i] && y.Path[i] != -1 {
				return false
			}
		}
		return true
	case *Slice:
		x, ok := a.(*Slice)
		if !ok || !x.Off.Leq(y.Off) || !x.Len.Leq(y.Len) || x.Sum != y.Sum {
			return false
		}
		if y.Arr == nil {
			return true
		}
		return x.Arr != nil && leqValue(x.Arr, y.Arr)
	case *Fn:
		x, ok := a.(*Fn)
		return ok && x.F == y.F && len(x.Bind) == 0 && len(y.Bind) == 0
	case Nil:
		_, ok := a.(Nil)
		return ok
	case *Opaque:
		if x, ok := a.(*Opaque); ok {
			return x.NonNil || !y.NonNil
		}
		return !y.NonNil
	}
	return false
}

// saturated is the interval beyond which widening does not grow.
var saturated = Itv{new(big.Int).Neg(pow2(200)), pow2(200)}

// widenValue returns b widened against the previous iterate a: an interval
// end that moved is pushed to the corresponding end of lim (the type range is
// not known here, so the caller passes a generous limit).
func widenValue(a, b Value, lim Itv) Value {
	if a == b {
		return b
	}
	switch y := b.(type) {
	case *Int:
		x, ok := a.(*Int)
		if !ok {
			return b
		}
		// An end that moved jumps to the limit; beyond the limit it
		// saturates.  A saturated interval contains the whole range of every
		// integer type, so it still describes any machine word (the
		// mathematical value of a wrapped word only matters modulo 2^w).
		lo, hi := x.Itv.Lo, x.Itv.Hi
		if y.Itv.Lo.Cmp(lo) < 0 {
			lo = lim.Lo
			if y.Itv.Lo.Cmp(lim.Lo) < 0 {
				lo = saturated.Lo
			}
		}
		if y.Itv.Hi.Cmp(hi) > 0 {
			hi = lim.Hi
			if y.Itv.Hi.Cmp(lim.Hi) > 0 {
				hi = saturated.Hi
			}
		}
		// widening forgets the relational tag (a new iteration creates new
		// wide quantities, the old ones must not keep states apart)
		if y.Tag == nil && lo.Cmp(y.Itv.Lo) == 0 && hi.Cmp(y.Itv.Hi) == 0 {
			return y
		}
		return &Int{Itv: Itv{lo, hi}, Org: joinOrg(x.Org, y.Org)}
	case *Agg:
		x, ok := a.(*Agg)
		if !ok || len(x.Elems) != len(y.Elems) {
			return joinValues(a, b)
		}
		if x == y {
			return y
		}
		var el []Value
		for i := range y.Elems {
			w := widenValue(x.Elems[i], y.Elems[i], lim)
			if el == nil && w != y.Elems[i] {
				el = append([]Value(nil), y.Elems...)
			}
			if el != nil {
				el[i] = w
			}
		}
		if el == nil {
			return y
		}
		return &Agg{el}
	case *Tuple:
		x, ok := a.(*Tuple)
		if !ok || len(x.Elems) != len(y.Elems) {
			return joinValues(a, b)
		}
		el := make([]Value, len(y.Elems))
		for i := range el {
			el[i] = widenValue(x.Elems[i], y.Elems[i], lim)
		}
		return &Tuple{el}
	case *Slice:
		x, ok := a.(*Slice)
		if !ok {
			return joinValues(a, b)
		}
		j, ok := joinValues(a, b).(*Slice)
		if !ok {
			return joinValues(a, b)
		}
		any := Itv{bigZero, pow2m1(62)}
		r := &Slice{Arr: j.Arr, Off: j.Off, Len: j.Len, Sum: j.Sum}
		if !j.Off.Eq(x.Off) {
			r.Off = any.Join(j.Off)
		}
		if !j.Len.Eq(x.Len) {
			r.Len = any.Join(j.Len)
		}
		return r
	}
	return joinValues(a, b)
}

// ---------------------------------------------------------------------------
// Memory

// Memory maps object ids to the abstract contents of the object.  base holds
// the read-only initial contents of package-level variables; cells is the
// path-private overlay.
type Memory struct {
	base    map[int]Value
	cells   map[int]Value
	written map[int]bool // objects stored to on this path
	read    map[int]bool // objects loaded from on this path
	shared  map[int]bool // objects whose address escaped into untracked memory (Stage B)
	multi   map[int]bool // allocation sites standing for several live objects: weak updates only
}

func newMemory(base map[int]Value) *Memory {
	return &Memory{base: base, cells: map[int]Value{}, written: map[int]bool{}, read: map[int]bool{}, shared: map[int]bool{}, multi: map[int]bool{}}
}

func (m *Memory) clone() *Memory {
	c := make(map[int]Value, len(m.cells))
	for k, v := range m.cells {
		c[k] = v
	}
	w := make(map[int]bool, len(m.written))
	for k := range m.written {
		w[k] = true
	}
	sh := make(map[int]bool, len(m.shared))
	for k := range m.shared {
		sh[k] = true
	}
	rd := make(map[int]bool, len(m.read))
	for k := range m.read {
		rd[k] = true
	}
	mu := make(map[int]bool, len(m.multi))
	for k := range m.multi {
		mu[k] = true
	}
	return &Memory{base: m.base, cells: c, written: w, read: rd, shared: sh, multi: mu}
}

func (m *Memory) root(obj int) (Value, bool) {
	if v, ok := m.cells[obj]; ok {
		return v, true
	}
	v, ok := m.base[obj]
	return v, ok
}

// load reads the value at p; ok=false when the location is not tracked.
func (m *Memory) load(p *Ptr) (Value, bool) {
	if !p.tracked() {
		return nil, false
	}
	v, ok := m.root(p.Obj)
	if !ok {
		return nil, false
	}
	m.read[p.Obj] = true
	return loadPath(v, p.Path)
}

func loadPath(v Value, path []int) (Value, bool) {
	if len(path) == 0 {
		return v, true
	}
	agg, ok := v.(*Agg)
	if !ok {
		return nil, false
	}
	i := path[0]
	if i >= 0 {
		if i >= len(agg.Elems) {
			return nil, false
		}
		return loadPath(agg.Elems[i], path[1:])
	}
	var out Value
	for _, e := range agg.Elems {
		x, ok := loadPath(e, path[1:])
		if !ok {
			return nil, false
		}
		out = joinValues(out, x)
	}
	return out, out != nil
}

// store writes v at p (strong update on a definite path, weak update when
// the path contains an unknown index).  It reports false if the location is
// not tracked.
func (m *Memory) store(p *Ptr, v Value) bool {
	if !p.tracked() {
		return false
	}
	r, ok := m.root(p.Obj)
	if !ok {
		return false
	}
	nr, ok := storePath(r, p.Path, v, m.multi[p.Obj])
	if !ok {
		return false
	}
	m.cells[p.Obj] = nr
	m.written[p.Obj] = true
	return true
}

func storePath(old Value, path []int, v Value, weak bool) (Value, bool) {
	if len(path) == 0 {
		if weak {
			return joinValues(old, v), true
		}
		return v, true
	}
	agg, ok := old.(*Agg)
	if !ok {
		return nil, false
	}
	el := append([]Value(nil), agg.Elems...)
	i := path[0]
	if i >= 0 {
		if i >= len(el) {
			return nil, false
		}
		n, ok := storePath(el[i], path[1:], v, weak)
		if !ok {
			return nil, false
		}
		el[i] = n
		return &Agg{el}, true
	}
	for j := range el {
		n, ok := storePath(el[j], path[1:], v, true)
		if !ok {
			return nil, false
		}
		el[j] = n
	}
	return &Agg{el}, true
}

// joinMemory joins two memories over the same base.
func joinMemory(a, b *Memory) *Memory {
	if a == nil {
		return b
	}
	if b == nil {
		return a
	}
	out := newMemory(a.base)
	for k := range a.written {
		out.written[k] = true
	}
	for k := range b.written {
		out.written[k] = true
	}
	for k := range a.shared {
		out.shared[k] = true
	}
	for k := range b.shared {
		out.shared[k] = true
	}
	for k := range a.read {
		out.read[k] = true
	}
	for k := range b.read {
		out.read[k] = true
	}
	for k := range a.multi {
		out.multi[k] = true
	}
	for k := range b.multi {
		out.multi[k] = true
	}
	for k, v := range a.cells {
		if w, ok := b.root(k); ok {
			out.cells[k] = joinValues(v, w)
		} else {
			out.cells[k] = v
		}
	}
	for k, w := range b.cells {
		if _, done := out.cells[k]; done {
			continue
		}
		if v, ok := a.root(k); ok {
			out.cells[k] = joinValues(v, w)
		} else {
			out.cells[k] = w
		}
	}
	return out
}

// leqMemory reports a ⊑ b on every object present in a.
func leqMemory(a, b *Memory) bool {
	for k, v := range a.cells {
		w, ok := b.root(k)
		if !ok {
			// The object was allocated after b was taken.  It can only be
			// read again through a pointer held in a phi or in another cell,
			// and those are compared as values (a Ptr is never below a
			// non-pointer), so its contents need not be compared.
			continue
		}
		if !leqValue(v, w) {
			return false
		}
	}
	for k, w := range b.cells {
		if _, ok := a.cells[k]; ok {
			continue
		}
		v, ok := a.root(k)
		if !ok {
			// object exists only in b: a path that never allocated it cannot
			// read it either
			continue
		}
		if !leqValue(v, w) {
			return false
		}
	}
	return true
}
