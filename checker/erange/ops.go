package erange

import (
	"fmt"
	"go/token"
	"go/types"
	"math/big"

	"golang.org/x/tools/go/ssa"
)

// Names of the modelled wrap-around idioms (evidence lists each with its
// number of distinct sites).
const (
	idiomMask      = "wrapped result observed only through & mask (exact modulo 2^k)"
	idiomSignBit   = "sign of a wrapped difference read through >>(w-1) (borrow chain)"
	idiomSelMask   = "all-ones/zero mask ((b^1)-1) applied with & (conditional add/subtract)"
	idiomByte      = "byte(x) truncation of a serialiser"
	idiomPropagate = "operand already exact only modulo 2^w: the result inherits the obligation of its origin"
	idiomWidePair  = "128-bit addition as bits.Add64 lo/hi pair"
	idiomWideShift = "(hi<<(64-k))|(lo>>k) read as the low word of W>>k"
	idiomSignConv  = "same-width sign reinterpretation (value preserved modulo 2^w)"
)

// use is called by every consumer that observes all bits of an integer
// operand.  A possibly wrapped operand fails the obligations it came from.
func (a *Analyzer) use(instr ssa.Instruction, v Value, t types.Type, how string) *Int {
	ii, isInt := intInfoOf(t, a.sizes)
	x, ok := v.(*Int)
	if !ok {
		if isInt {
			a.undecide(instr, "operand of %s has no interval (%s)", how, describe(v))
			return mkInt(ii.rng())
		}
		return mkInt(itv64(0, 0))
	}
	if !x.wrapped() {
		return x
	}
	if a.record {
		at := "?"
		if instr != nil {
			at = a.P.Pos(a.instrPos(instr))
		}
		for _, o := range x.Org {
			o.fail(fmt.Sprintf("%s may leave its type (value %s) and the wrapped word is consumed by %s at %s, which is not exact modulo 2^w",
				o.Expr, x.Itv, how, at))
		}
	}
	if isInt {
		return mkInt(ii.rng()) // continue with the whole type: sound whatever the word is
	}
	return mkInt(x.Itv)
}

// exactUse records that a wrapped operand is consumed by an operation that
// is exact modulo 2^w (a modelled idiom).
func (a *Analyzer) exactUse(x *Int, idiom string) {
	for _, o := range x.Org {
		o.idiom(idiom)
	}
}

// useDeep applies use to every integer inside an aggregate.
func (a *Analyzer) useDeep(instr ssa.Instruction, v Value, how string) {
	switch x := v.(type) {
	case *Int:
		if x.wrapped() {
			a.use(instr, x, types.Typ[types.Uint64], how)
		}
	case *Agg:
		for _, e := range x.Elems {
			a.useDeep(instr, e, how)
		}
	case *Tuple:
		for _, e := range x.Elems {
			a.useDeep(instr, e, how)
		}
	}
}

func describe(v Value) string {
	if v == nil {
		return "nil"
	}
	if o, ok := v.(*Opaque); ok {
		return "opaque: " + o.Why
	}
	return v.kind()
}

// referenced reports whether some other tracked object holds a pointer to
// object id.
func (a *Analyzer) referenced(mem *Memory, id int) bool {
	found := false
	for k, v := range mem.cells {
		if k == id || found {
			continue
		}
		if t := a.objType[k]; t != nil && !a.mayHoldPointers(t) {
			continue
		}
		pointersIn(v, func(p *Ptr) {
			if p.Obj == id {
				found = true
			}
		})
	}
	return found
}

// mayHoldPointers reports whether a value of type t can contain a pointer or
// slice (memoised; big limb and byte tables are skipped quickly).
func (a *Analyzer) mayHoldPointers(t types.Type) bool {
	if v, ok := a.ptrTypes[t]; ok {
		return v
	}
	a.ptrTypes[t] = true // recursive types: assume yes
	r := true
	switch u := t.Underlying().(type) {
	case *types.Basic:
		r = u.Kind() == types.UnsafePointer || u.Kind() == types.String
	case *types.Array:
		r = a.mayHoldPointers(u.Elem())
	case *types.Struct:
		r = false
		for i := 0; i < u.NumFields() && !r; i++ {
			r = a.mayHoldPointers(u.Field(i).Type())
		}
	}
	a.ptrTypes[t] = r
	return r
}

// step interprets one non-control instruction.
func (a *Analyzer) step(fr *frame, instr ssa.Instruction, mem *Memory) {
	switch in := instr.(type) {
	case *ssa.Alloc:
		id := a.objID(fmt.Sprintf("alloc:%s|%p", fr.ctx, in))
		et := in.Type().(*types.Pointer).Elem()
		// Objects are named by allocation site and context.  When the site
		// is executed again (a loop) while another object still points to
		// the previous instance, the name stands for several live objects:
		// it keeps the old contents and is only updated weakly from now on.
		if old, exists := mem.cells[id]; exists && (mem.multi[id] || a.referenced(mem, id)) {
			mem.multi[id] = true
			mem.cells[id] = joinValues(old, zeroValue(et))
		} else {
			mem.cells[id] = zeroValue(et)
			delete(mem.shared, id)
		}
		a.objType[id] = et
		fr.env[in] = &Ptr{Obj: id}
	case *ssa.BinOp:
		fr.env[in] = a.binop(fr, in, a.val(fr, in.X), a.val(fr, in.Y))
	case *ssa.UnOp:
		fr.env[in] = a.unop(fr, in, mem)
	case *ssa.Convert:
		fr.env[in] = a.convert(fr, in, a.val(fr, in.X))
	case *ssa.ChangeType:
		fr.env[in] = a.val(fr, in.X)
	case *ssa.MakeInterface:
		a.useDeep(in, a.val(fr, in.X), "conversion to an interface")
		fr.env[in] = &Opaque{NonNil: true, Why: "interface"}
	case *ssa.ChangeInterface:
		fr.env[in] = a.val(fr, in.X)
	case *ssa.FieldAddr:
		xv := a.val(fr, in.X)
		if p, ok := xv.(*Ptr); ok && p.tracked() {
			fr.env[in] = p.sub(in.Field)
			break
		}
		np := untrackedPtr()
		if a.heap != nil {
			if pt, ok := in.X.Type().Underlying().(*types.Pointer); ok {
				if st, ok := pt.Elem().Underlying().(*types.Struct); ok {
					np.Sum = fieldKey(pt.Elem(), sumOf(xv), st.Field(in.Field))
				}
			}
		}
		fr.env[in] = np
	case *ssa.IndexAddr:
		fr.env[in] = a.indexAddr(fr, in)
	case *ssa.Field:
		if agg, ok := a.val(fr, in.X).(*Agg); ok && in.Field < len(agg.Elems) {
			fr.env[in] = agg.Elems[in.Field]
		} else {
			fr.env[in] = topValue(in.Type(), a.sizes)
		}
	case *ssa.Index:
		fr.env[in] = a.index(fr, in)
	case *ssa.Slice:
		fr.env[in] = a.slice(fr, in)
	case *ssa.Store:
		v := a.val(fr, in.Val)
		pv := a.val(fr, in.Addr)
		p, _ := pv.(*Ptr)
		if p != nil && mem.store(p, v) {
			if a.heap != nil && mem.shared[p.Obj] {
				a.heap.absorb(in.Val.Type(), keyAt(a.objType[p.Obj], p.Path), v)
				a.escape(v, mem)
			}
			break
		}
		// memory the analysis does not follow: every bit is observed
		a.useDeep(in, v, "a store to untracked memory")
		if a.heap != nil {
			a.heap.absorb(in.Val.Type(), sumOf(pv), v)
			a.escape(v, mem)
		}
	case *ssa.Extract:
		if t, ok := a.val(fr, in.Tuple).(*Tuple); ok && in.Index < len(t.Elems) {
			fr.env[in] = t.Elems[in.Index]
		} else {
			fr.env[in] = topValue(in.Type(), a.sizes)
		}
	case *ssa.MakeClosure:
		bind := make([]Value, len(in.Bindings))
		for i, b := range in.Bindings {
			bind[i] = a.val(fr, b)
		}
		fr.env[in] = &Fn{F: in.Fn.(*ssa.Function), Bind: bind}
	case *ssa.MakeSlice:
		l, _ := a.val(fr, in.Len).(*Int)
		s := &Slice{Off: itv64(0, 0), Len: Itv{bigZero, pow2m1(62)}}
		if l != nil && !l.wrapped() && l.Itv.NonNeg() {
			s.Len = l.Itv
		}
		fr.env[in] = s
	case *ssa.DebugRef:
	case *ssa.RunDefers:
		for _, b := range fr.fn.Blocks {
			for _, i := range b.Instrs {
				if _, ok := i.(*ssa.Defer); ok {
					a.undecide(in, "deferred calls are not modelled")
				}
			}
		}
	default:
		a.undecide(instr, "instruction %T is not modelled", instr)
		if v, ok := instr.(ssa.Value); ok {
			fr.env[v] = topValue(v.Type(), a.sizes)
		}
	}
}

// ---------------------------------------------------------------------------
// addresses, aggregates, slices

func arrayLen(t types.Type) (int64, bool) {
	if p, ok := t.Underlying().(*types.Pointer); ok {
		t = p.Elem()
	}
	if arr, ok := t.Underlying().(*types.Array); ok {
		return arr.Len(), true
	}
	return 0, false
}

// pickIndex maps an index interval to a path element: the index itself if
// definite, -1 (any element) otherwise.
func pickIndex(i Itv, n int64) (int, bool) {
	m, ok := i.Meet(itv64(0, n-1))
	if !ok {
		return 0, false // always out of bounds: the access panics
	}
	if m.IsSingle() {
		return int(m.Lo.Int64()), true
	}
	return -1, true
}

func (a *Analyzer) indexAddr(fr *frame, in *ssa.IndexAddr) Value {
	idx := a.use(in, a.val(fr, in.Index), in.Index.Type(), "an index")
	switch x := a.val(fr, in.X).(type) {
	case *Ptr:
		n, ok := arrayLen(in.X.Type())
		if !x.tracked() || !ok {
			return &Ptr{Sum: x.Sum}
		}
		if i, ok := pickIndex(idx.Itv, n); ok {
			return x.sub(i)
		}
	case *Slice:
		if x.Arr == nil || !x.Arr.tracked() {
			return &Ptr{Sum: x.Sum}
		}
		if !x.Off.IsSingle() || !idx.Itv.IsSingle() {
			return x.Arr.sub(-1)
		}
		off := new(big.Int).Add(x.Off.Lo, idx.Itv.Lo)
		if off.IsInt64() && off.Int64() >= 0 && off.Int64() < maxAggLen {
			return x.Arr.sub(int(off.Int64()))
		}
	}
	return untrackedPtr()
}

func (a *Analyzer) index(fr *frame, in *ssa.Index) Value {
	idx := a.use(in, a.val(fr, in.Index), in.Index.Type(), "an index")
	if agg, ok := a.val(fr, in.X).(*Agg); ok && len(agg.Elems) > 0 {
		i, ok := pickIndex(idx.Itv, int64(len(agg.Elems)))
		if ok && i >= 0 {
			return agg.Elems[i]
		}
		var out Value
		for _, e := range agg.Elems {
			out = joinValues(out, e)
		}
		return out
	}
	return topValue(in.Type(), a.sizes)
}

func (a *Analyzer) slice(fr *frame, in *ssa.Slice) Value {
	bound := func(v ssa.Value) *Itv {
		if v == nil {
			return nil
		}
		i := a.use(in, a.val(fr, v), v.Type(), "a slice bound").Itv
		return &i
	}
	lo, hi := bound(in.Low), bound(in.High)
	zero := itv64(0, 0)
	if lo == nil {
		lo = &zero
	}
	out := &Slice{Off: zero, Len: Itv{bigZero, pow2m1(62)}}
	var baseLen *Itv
	switch x := a.val(fr, in.X).(type) {
	case *Ptr:
		if n, ok := arrayLen(in.X.Type()); ok {
			l := itv64(n, n)
			baseLen = &l
			if x.tracked() {
				out.Arr = x
			} else {
				out.Sum = x.Sum
			}
		}
	case *Slice:
		out.Arr = x.Arr
		out.Sum = x.Sum
		out.Off = x.Off
		l := x.Len
		baseLen = &l
	default:
		if _, isSlice := in.Type().Underlying().(*types.Slice); !isSlice {
			return opaque("string slice")
		}
	}
	if hi == nil {
		hi = baseLen
	}
	out.Off = out.Off.Add(*lo)
	if hi != nil {
		l := hi.Sub(*lo)
		if l.Hi.Sign() < 0 {
			l = zero // always panics
		} else if l.Lo.Sign() < 0 {
			l = Itv{bigZero, l.Hi}
		}
		out.Len = l
	}
	return out
}

// ---------------------------------------------------------------------------
// unary operations

func (a *Analyzer) unop(fr *frame, in *ssa.UnOp, mem *Memory) Value {
	switch in.Op {
	case token.MUL: // load
		pv := a.val(fr, in.X)
		if p, _ := pv.(*Ptr); p != nil {
			if v, ok := mem.load(p); ok && v != nil {
				if _, isOpaque := v.(*Opaque); !isOpaque {
					if a.heap != nil && mem.shared[p.Obj] && a.heap.contains(in.Type()) {
						// the object is also reachable through untracked memory
						v = joinValues(v, a.heap.summaryValue(in.Type(), keyAt(a.objType[p.Obj], p.Path)))
					}
					return v
				}
			}
		}
		if a.heap != nil && a.heap.contains(in.Type()) {
			return a.heap.summaryValue(in.Type(), sumOf(pv))
		}
		return topValue(in.Type(), a.sizes)
	case token.NOT:
		x := a.use(in, a.val(fr, in.X), in.X.Type(), "!")
		return mkInt(itv64(1, 1).Sub(x.Itv))
	case token.SUB:
		x, ok := a.val(fr, in.X).(*Int)
		ii, isInt := intInfoOf(in.Type(), a.sizes)
		if !ok || !isInt {
			return topValue(in.Type(), a.sizes)
		}
		return a.ring(fr, in, ii, token.SUB, x.Itv.Neg(), x, nil)
	case token.XOR: // ^x == -x-1 (mod 2^w)
		x, ok := a.val(fr, in.X).(*Int)
		ii, isInt := intInfoOf(in.Type(), a.sizes)
		if !ok || !isInt {
			return topValue(in.Type(), a.sizes)
		}
		if !ii.signed && !x.wrapped() {
			m := single(ii.rng().Hi)
			return mkInt(m.Sub(x.Itv))
		}
		r := x.Itv.Neg().Sub(itv64(1, 1))
		if r.Leq(ii.rng()) {
			return mkInt(r)
		}
		if x.wrapped() {
			return &Int{Itv: r, Org: x.Org}
		}
		return mkInt(ii.rng())
	}
	a.undecide(in, "unary operator %s is not modelled", in.Op)
	return topValue(in.Type(), a.sizes)
}

// ---------------------------------------------------------------------------
// binary operations

// ring finishes an operation that is a ring homomorphism modulo 2^w (+, -,
// *, << and negation): r is the interval of the mathematical result.  If r
// stays inside the type the word is exact; otherwise the word may wrap and
// the result carries its origin(s), to be failed by any consumer that is not
// exact modulo 2^w.
func (a *Analyzer) ring(fr *frame, in ssa.Instruction, ii intInfo, op token.Token, r Itv, x, y *Int) Value {
	class, what := ClsArith, fmt.Sprintf("result < 2^%d", ii.bits)
	switch {
	case ii.signed:
		class, what = ClsSigned, fmt.Sprintf("result within int%d", ii.bits)
	case op == token.SUB:
		class, what = ClsSub, "result >= 0"
	case op == token.SHL && x.Tag != nil && x.Tag.Kind == tagHi:
		class, what = ClsWide, fmt.Sprintf("hi<<k keeps every bit (W>>(64-k) < 2^%d)", ii.bits)
	}
	inRange := r.Leq(ii.rng())
	o := a.obligation(fr, in, class, "", what)
	o.observe(r, inRange)
	if inRange {
		return mkInt(r)
	}
	var org []*Obligation
	org = joinOrg(org, x.Org)
	if y != nil {
		org = joinOrg(org, y.Org)
	}
	if len(org) == 0 {
		org = []*Obligation{o}
	} else {
		o.idiom(idiomPropagate)
	}
	return &Int{Itv: r, Org: org}
}

// shiftCount converts a shift-count interval to machine bounds (counts of
// 2w or more all give the same word as 2w, so they are clamped).
func shiftCount(s Itv, bits uint) (uint, uint) {
	capv := int64(2 * bits)
	lo, hi := capv, capv
	if s.Lo.IsInt64() && s.Lo.Int64() < capv {
		lo = s.Lo.Int64()
	}
	if s.Hi.IsInt64() && s.Hi.Int64() < capv {
		hi = s.Hi.Int64()
	}
	if lo < 0 {
		lo = 0
	}
	if hi < 0 {
		hi = 0
	}
	return uint(lo), uint(hi)
}

func (a *Analyzer) binop(fr *frame, in *ssa.BinOp, xv, yv Value) Value {
	switch in.Op {
	case token.EQL, token.NEQ, token.LSS, token.LEQ, token.GTR, token.GEQ:
		return a.compare(in, xv, yv)
	}
	ii, isInt := intInfoOf(in.Type(), a.sizes)
	if !isInt {
		return topValue(in.Type(), a.sizes) // strings, floats: not interpreted
	}
	x, okx := xv.(*Int)
	y, oky := yv.(*Int)
	if !okx || !oky {
		a.undecide(in, "operand of %s has no interval (%s, %s)", in.Op, describe(xv), describe(yv))
		return mkInt(ii.rng())
	}
	rng := ii.rng()
	switch in.Op {
	case token.ADD:
		return a.ring(fr, in, ii, in.Op, x.Itv.Add(y.Itv), x, y)
	case token.SUB:
		return a.ring(fr, in, ii, in.Op, x.Itv.Sub(y.Itv), x, y)
	case token.MUL:
		return a.ring(fr, in, ii, in.Op, x.Itv.Mul(y.Itv), x, y)

	case token.SHL:
		s := a.use(in, y, in.Y.Type(), "a shift count")
		klo, khi := shiftCount(s.Itv, ii.bits)
		res := a.ring(fr, in, ii, in.Op, x.Itv.Shl(klo, khi), x, nil).(*Int)
		if x.Tag != nil && x.Tag.Kind == tagHi && klo == khi {
			res = &Int{Itv: res.Itv, Org: res.Org, Tag: &wideTag{W: x.Tag.W, Kind: tagHiShl, Sh: klo}}
		}
		return res

	case token.SHR:
		s := a.use(in, y, in.Y.Type(), "a shift count")
		klo, khi := shiftCount(s.Itv, ii.bits)
		if x.wrapped() {
			half := pow2(ii.bits - 1)
			signed := Itv{new(big.Int).Neg(half), new(big.Int).Sub(half, bigOne)}
			if !ii.signed && klo == ii.bits-1 && khi == klo && x.Itv.Leq(signed) {
				// the top bit of the two's complement word is exactly "x < 0"
				a.exactUse(x, idiomSignBit)
				lo, hi := int64(0), int64(0)
				if x.Itv.Hi.Sign() < 0 {
					lo = 1
				}
				if x.Itv.Lo.Sign() < 0 {
					hi = 1
				}
				return mkInt(itv64(lo, hi))
			}
			x = a.use(in, x, in.X.Type(), ">>")
		}
		res := mkInt(x.Itv.Shr(klo, khi))
		if x.Tag != nil && x.Tag.Kind == tagLo && klo == khi {
			res.Tag = &wideTag{W: x.Tag.W, Kind: tagLoShr, Sh: klo}
		}
		return res

	case token.AND:
		return a.and(in, ii, x, y)

	case token.OR, token.XOR:
		if !x.Itv.NonNeg() || !y.Itv.NonNeg() {
			if ii.signed && !x.wrapped() && !y.wrapped() {
				return mkInt(rng)
			}
			x = a.use(in, x, in.X.Type(), in.Op.String())
			y = a.use(in, y, in.Y.Type(), in.Op.String())
		}
		// (hi << (64-k)) | (lo >> k) of one wide quantity W is the low word of W >> k
		if in.Op == token.OR && x.Tag != nil && y.Tag != nil && x.Tag.W == y.Tag.W && !x.wrapped() && !y.wrapped() {
			h, l := x.Tag, y.Tag
			if h.Kind == tagLoShr {
				h, l = l, h
			}
			if h.Kind == tagHiShl && l.Kind == tagLoShr && h.Sh+l.Sh == 64 && h.W.Itv.NonNeg() {
				a.idiomSite(idiomWideShift, fr, in)
				return mkInt(h.W.Itv.Shr(l.Sh, l.Sh))
			}
		}
		ceil := bitCeil(maxBig(x.Itv.Hi, y.Itv.Hi))
		var r Itv
		if x.Itv.IsSingle() && y.Itv.IsSingle() {
			if in.Op == token.OR {
				r = single(new(big.Int).Or(x.Itv.Lo, y.Itv.Lo))
			} else {
				r = single(new(big.Int).Xor(x.Itv.Lo, y.Itv.Lo))
			}
		} else if in.Op == token.OR {
			r = Itv{maxBig(x.Itv.Lo, y.Itv.Lo), minBig(ceil, new(big.Int).Add(x.Itv.Hi, y.Itv.Hi))}
		} else {
			r = Itv{bigZero, ceil}
		}
		if r.Leq(rng) {
			return mkInt(r)
		}
		return &Int{Itv: r, Org: joinOrg(x.Org, y.Org)}

	case token.AND_NOT:
		x = a.use(in, x, in.X.Type(), "&^")
		y = a.use(in, y, in.Y.Type(), "&^")
		if x.Itv.IsSingle() && y.Itv.IsSingle() && x.Itv.NonNeg() && y.Itv.NonNeg() {
			return mkInt(single(new(big.Int).AndNot(x.Itv.Lo, y.Itv.Lo)))
		}
		if x.Itv.NonNeg() {
			return mkInt(Itv{bigZero, x.Itv.Hi})
		}
		return mkInt(rng)

	case token.QUO, token.REM:
		x = a.use(in, x, in.X.Type(), in.Op.String())
		y = a.use(in, y, in.Y.Type(), in.Op.String())
		if !x.Itv.NonNeg() || y.Itv.Hi.Sign() <= 0 {
			return mkInt(rng)
		}
		ylo := maxBig(y.Itv.Lo, bigOne)
		if in.Op == token.QUO {
			return mkInt(Itv{new(big.Int).Quo(x.Itv.Lo, y.Itv.Hi), new(big.Int).Quo(x.Itv.Hi, ylo)})
		}
		if x.Itv.IsSingle() && y.Itv.IsSingle() && y.Itv.Lo.Sign() > 0 {
			return mkInt(single(new(big.Int).Rem(x.Itv.Lo, y.Itv.Lo)))
		}
		return mkInt(Itv{bigZero, minBig(x.Itv.Hi, new(big.Int).Sub(y.Itv.Hi, bigOne))})
	}
	a.undecide(in, "binary operator %s is not modelled", in.Op)
	return mkInt(rng)
}

// and models x & y.  It is the consumer that makes wrap-arounds harmless:
// (x mod 2^w) & m == x & m for 0 <= m < 2^w, and x & m for m in {0, -1}
// selects 0 or x.
func (a *Analyzer) and(in *ssa.BinOp, ii intInfo, x, y *Int) Value {
	isSel := func(v *Int) bool { return v.Itv.Leq(itv64(-1, 0)) && v.Itv.Lo.Sign() < 0 }
	isMask := func(v *Int) bool { return !v.wrapped() && v.Itv.NonNeg() }
	for i := 0; i < 2; i++ {
		switch {
		case isSel(y) && (y.wrapped() || ii.signed):
			// y is all-ones or zero
			a.exactUse(y, idiomSelMask)
			r := x.Itv.Join(itv64(0, 0))
			if x.wrapped() {
				return &Int{Itv: r, Org: x.Org}
			}
			return mkInt(r)
		case x.wrapped() && isMask(y):
			a.exactUse(x, idiomMask)
			hi := y.Itv.Hi
			if x.Itv.NonNeg() {
				hi = minBig(hi, x.Itv.Hi)
			}
			return mkInt(Itv{bigZero, hi})
		}
		x, y = y, x
	}
	x = a.use(in, x, in.X.Type(), "&")
	y = a.use(in, y, in.Y.Type(), "&")
	if x.Itv.IsSingle() && y.Itv.IsSingle() && x.Itv.NonNeg() && y.Itv.NonNeg() {
		return mkInt(single(new(big.Int).And(x.Itv.Lo, y.Itv.Lo)))
	}
	switch {
	case x.Itv.NonNeg() && y.Itv.NonNeg():
		return mkInt(Itv{bigZero, minBig(x.Itv.Hi, y.Itv.Hi)})
	case x.Itv.NonNeg():
		return mkInt(Itv{bigZero, x.Itv.Hi})
	case y.Itv.NonNeg():
		return mkInt(Itv{bigZero, y.Itv.Hi})
	}
	return mkInt(ii.rng())
}

func (a *Analyzer) compare(in *ssa.BinOp, xv, yv Value) Value {
	unknown := mkInt(itv64(0, 1))
	if _, isInt := intInfoOf(in.X.Type(), a.sizes); !isInt {
		// nil-ness of pointers, errors, functions
		nx, ny := nilness(xv), nilness(yv)
		if (in.Op == token.EQL || in.Op == token.NEQ) && nx != 0 && ny != 0 && (nx == 1 || ny == 1) {
			eq := nx == 1 && ny == 1
			if (in.Op == token.EQL) == eq {
				return constInt(1)
			}
			return constInt(0)
		}
		return unknown
	}
	x := a.use(in, xv, in.X.Type(), "a comparison").Itv
	y := a.use(in, yv, in.Y.Type(), "a comparison").Itv
	var t, f bool // can be true / can be false
	switch in.Op {
	case token.EQL:
		_, overlap := x.Meet(y)
		t, f = overlap, !(x.IsSingle() && y.IsSingle() && x.Lo.Cmp(y.Lo) == 0)
	case token.NEQ:
		_, overlap := x.Meet(y)
		f, t = overlap, !(x.IsSingle() && y.IsSingle() && x.Lo.Cmp(y.Lo) == 0)
	case token.LSS:
		t, f = x.Lo.Cmp(y.Hi) < 0, x.Hi.Cmp(y.Lo) >= 0
	case token.LEQ:
		t, f = x.Lo.Cmp(y.Hi) <= 0, x.Hi.Cmp(y.Lo) > 0
	case token.GTR:
		t, f = x.Hi.Cmp(y.Lo) > 0, x.Lo.Cmp(y.Hi) <= 0
	case token.GEQ:
		t, f = x.Hi.Cmp(y.Lo) >= 0, x.Lo.Cmp(y.Hi) < 0
	}
	switch {
	case t && !f:
		return constInt(1)
	case f && !t:
		return constInt(0)
	}
	return unknown
}

// nilness: 1 = definitely nil, 2 = definitely non-nil, 0 = unknown.
func nilness(v Value) int {
	switch x := v.(type) {
	case Nil:
		return 1
	case *Ptr:
		if x.tracked() {
			return 2
		}
	case *Fn:
		return 2
	case *Opaque:
		if x.NonNil {
			return 2
		}
	}
	return 0
}

// ---------------------------------------------------------------------------
// conversions

func (a *Analyzer) convert(fr *frame, in *ssa.Convert, xv Value) Value {
	si, sInt := intInfoOf(in.X.Type(), a.sizes)
	di, dInt := intInfoOf(in.Type(), a.sizes)
	if !sInt || !dInt {
		if sInt {
			a.useDeep(in, xv, "a conversion to "+in.Type().String())
		}
		if _, ok := in.Type().Underlying().(*types.Slice); ok {
			return topValue(in.Type(), a.sizes)
		}
		if dInt {
			return mkInt(di.rng())
		}
		return opaque("conversion to " + in.Type().String())
	}
	x, ok := xv.(*Int)
	if !ok {
		a.undecide(in, "operand of conversion has no interval (%s)", describe(xv))
		return mkInt(di.rng())
	}
	narrowing := di.bits < si.bits
	if x.wrapped() {
		switch {
		case narrowing && di.bits == 8:
			a.exactUse(x, idiomByte)
			return mkInt(di.rng())
		case !narrowing && di.bits == si.bits:
			// reinterpretation keeps the word: still exact modulo 2^w
			if x.Itv.Leq(di.rng()) {
				return mkInt(x.Itv)
			}
			return &Int{Itv: x.Itv, Org: x.Org}
		}
		a.use(in, x, in.X.Type(), "a conversion to "+in.Type().String())
		return mkInt(di.rng())
	}
	fits := x.Itv.Leq(di.rng())
	if di == si {
		return x // identical representation: keeps its relational tag
	}
	if !narrowing && di.bits > si.bits && !si.signed {
		return &Int{Itv: x.Itv} // zero extension never changes the value
	}
	if narrowing {
		o := a.obligation(fr, in, ClsConv, "", fmt.Sprintf("value fits %s", in.Type()))
		o.observe(x.Itv, fits)
		if fits {
			return mkInt(x.Itv)
		}
		if di.bits == 8 {
			o.idiom(idiomByte)
			return mkInt(di.rng())
		}
		if a.record {
			o.fail(fmt.Sprintf("%s truncates: the operand %s does not fit %s", o.Expr, x.Itv, in.Type()))
		}
		return mkInt(di.rng())
	}
	if fits {
		return mkInt(x.Itv)
	}
	// same width sign change, or sign extension of a negative value to an
	// unsigned type: the word is congruent to the value modulo 2^w
	o := a.obligation(fr, in, ClsConv, "", fmt.Sprintf("value representable in %s", in.Type()))
	o.observe(x.Itv, false)
	o.idiom(idiomSignConv)
	return &Int{Itv: x.Itv, Org: []*Obligation{o}}
}
