package erange

import (
	"fmt"
	"go/types"
	"math"
	"math/big"
)

// Itv is a closed interval [Lo, Hi] of mathematical integers.  Values are
// immutable: no method modifies its receiver or arguments.
type Itv struct{ Lo, Hi *big.Int }

var (
	bigZero = big.NewInt(0)
	bigOne  = big.NewInt(1)
)

func mkItv(lo, hi *big.Int) Itv {
	if lo.Cmp(hi) > 0 {
		panic(fmt.Sprintf("erange: empty interval [%v,%v]", lo, hi))
	}
	return Itv{lo, hi}
}

func single(x *big.Int) Itv { return Itv{x, x} }

func itv64(lo, hi int64) Itv { return Itv{big.NewInt(lo), big.NewInt(hi)} }

// pow2 returns 2^k.
func pow2(k uint) *big.Int { return new(big.Int).Lsh(bigOne, k) }

// pow2m1 returns 2^k-1.
func pow2m1(k uint) *big.Int { return new(big.Int).Sub(pow2(k), bigOne) }

// below returns [0, bound-1].
func below(bound *big.Int) Itv { return Itv{bigZero, new(big.Int).Sub(bound, bigOne)} }

func (a Itv) IsSingle() bool { return a.Lo.Cmp(a.Hi) == 0 }

// IsConst reports whether the interval is the singleton {c}.
func (a Itv) IsConst(c int64) bool { return a.IsSingle() && a.Lo.IsInt64() && a.Lo.Int64() == c }

func (a Itv) Join(b Itv) Itv {
	lo, hi := a.Lo, a.Hi
	if b.Lo.Cmp(lo) < 0 {
		lo = b.Lo
	}
	if b.Hi.Cmp(hi) > 0 {
		hi = b.Hi
	}
	return Itv{lo, hi}
}

// Leq reports a ⊆ b.
func (a Itv) Leq(b Itv) bool { return a.Lo.Cmp(b.Lo) >= 0 && a.Hi.Cmp(b.Hi) <= 0 }

func (a Itv) Eq(b Itv) bool { return a.Lo.Cmp(b.Lo) == 0 && a.Hi.Cmp(b.Hi) == 0 }

// Meet returns the intersection and whether it is non-empty.
func (a Itv) Meet(b Itv) (Itv, bool) {
	lo, hi := a.Lo, a.Hi
	if b.Lo.Cmp(lo) > 0 {
		lo = b.Lo
	}
	if b.Hi.Cmp(hi) < 0 {
		hi = b.Hi
	}
	if lo.Cmp(hi) > 0 {
		return Itv{}, false
	}
	return Itv{lo, hi}, true
}

func (a Itv) Add(b Itv) Itv {
	return Itv{new(big.Int).Add(a.Lo, b.Lo), new(big.Int).Add(a.Hi, b.Hi)}
}

func (a Itv) Sub(b Itv) Itv {
	return Itv{new(big.Int).Sub(a.Lo, b.Hi), new(big.Int).Sub(a.Hi, b.Lo)}
}

func (a Itv) Neg() Itv { return Itv{new(big.Int).Neg(a.Hi), new(big.Int).Neg(a.Lo)} }

func (a Itv) Mul(b Itv) Itv {
	c := [4]*big.Int{
		new(big.Int).Mul(a.Lo, b.Lo), new(big.Int).Mul(a.Lo, b.Hi),
		new(big.Int).Mul(a.Hi, b.Lo), new(big.Int).Mul(a.Hi, b.Hi),
	}
	lo, hi := c[0], c[0]
	for _, x := range c[1:] {
		if x.Cmp(lo) < 0 {
			lo = x
		}
		if x.Cmp(hi) > 0 {
			hi = x
		}
	}
	return Itv{lo, hi}
}

// Shl returns a * 2^[klo,khi] (mathematical, never truncated).
func (a Itv) Shl(klo, khi uint) Itv {
	lo := new(big.Int).Lsh(a.Lo, klo)
	if a.Lo.Sign() < 0 {
		lo = new(big.Int).Lsh(a.Lo, khi)
	}
	hi := new(big.Int).Lsh(a.Hi, khi)
	if a.Hi.Sign() < 0 {
		hi = new(big.Int).Lsh(a.Hi, klo)
	}
	return Itv{lo, hi}
}

// Shr returns floor(a / 2^[klo,khi]) (arithmetic shift; big.Int.Rsh floors).
func (a Itv) Shr(klo, khi uint) Itv {
	lo := new(big.Int).Rsh(a.Lo, khi)
	if a.Lo.Sign() < 0 {
		lo = new(big.Int).Rsh(a.Lo, klo)
	}
	hi := new(big.Int).Rsh(a.Hi, klo)
	if a.Hi.Sign() < 0 {
		hi = new(big.Int).Rsh(a.Hi, khi)
	}
	return Itv{lo, hi}
}

func (a Itv) NonNeg() bool { return a.Lo.Sign() >= 0 }

// bitCeil returns 2^bitlen(x)-1 for x >= 0: the largest value with no more
// bits than x.
func bitCeil(x *big.Int) *big.Int { return pow2m1(uint(x.BitLen())) }

func maxBig(a, b *big.Int) *big.Int {
	if a.Cmp(b) >= 0 {
		return a
	}
	return b
}

func minBig(a, b *big.Int) *big.Int {
	if a.Cmp(b) <= 0 {
		return a
	}
	return b
}

// String renders the interval compactly.
func (a Itv) String() string {
	if a.IsSingle() {
		return fmtBig(a.Lo)
	}
	return "[" + fmtBig(a.Lo) + ", " + fmtBig(a.Hi) + "]"
}

// fmtBig prints small numbers in decimal, 2^k and 2^k-1 symbolically and
// everything else as hexadecimal with its approximate binary logarithm.
func fmtBig(x *big.Int) string {
	if x.Sign() < 0 {
		return "-" + fmtBig(new(big.Int).Neg(x))
	}
	if x.BitLen() <= 20 {
		return x.String()
	}
	p1 := new(big.Int).Add(x, bigOne)
	if p1.BitLen()-1 == int(p1.TrailingZeroBits()) {
		return fmt.Sprintf("2^%d-1", p1.BitLen()-1)
	}
	if x.BitLen()-1 == int(x.TrailingZeroBits()) {
		return fmt.Sprintf("2^%d", x.BitLen()-1)
	}
	return fmt.Sprintf("0x%x(~2^%.3f)", x, log2(x))
}

// log2 approximates the binary logarithm of a positive integer.
func log2(x *big.Int) float64 {
	if x.Sign() <= 0 {
		return 0
	}
	n := x.BitLen()
	if n <= 53 {
		f, _ := new(big.Float).SetInt(x).Float64()
		return math.Log2(f)
	}
	sh := uint(n - 53)
	f, _ := new(big.Float).SetInt(new(big.Int).Rsh(x, sh)).Float64()
	return math.Log2(f) + float64(sh)
}

// intInfo describes a basic integer type in the analysed configuration.
type intInfo struct {
	bits   uint
	signed bool
}

func (ii intInfo) rng() Itv {
	if ii.signed {
		return Itv{new(big.Int).Neg(pow2(ii.bits - 1)), pow2m1(ii.bits - 1)}
	}
	return Itv{bigZero, pow2m1(ii.bits)}
}

// intInfoOf returns the width/signedness of t if it is an integer (or bool,
// modelled as a 1-bit unsigned) type.
func intInfoOf(t types.Type, sizes types.Sizes) (intInfo, bool) {
	b, ok := t.Underlying().(*types.Basic)
	if !ok {
		return intInfo{}, false
	}
	if b.Info()&types.IsBoolean != 0 {
		return intInfo{1, false}, true
	}
	if b.Info()&types.IsInteger == 0 {
		return intInfo{}, false
	}
	if b.Kind() == types.UntypedInt || b.Kind() == types.UntypedRune {
		return intInfo{64, true}, true
	}
	return intInfo{uint(sizes.Sizeof(b)) * 8, b.Info()&types.IsUnsigned == 0}, true
}
