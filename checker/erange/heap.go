package erange

import (
	"go/types"
	"math/big"
	"sort"
	"strings"

	"voicheck/load"
)

// typeHeap is the Stage B abstraction of memory that is not followed object
// by object (objects behind pointers loaded from the heap, slices of points,
// the objects an exported function receives from its callers): one bound
// per limb for every (struct type, field) that holds a field.Element, plus
// one for elements that are not inside a struct ("bare").  Stores join into
// the summary, loads read it; the driver iterates to a fixpoint.
type typeHeap struct {
	be      *FieldBackend
	sizes   types.Sizes
	F       map[string][]*big.Int // key -> inclusive upper bound per limb (absent: nothing stored yet)
	changed bool
	has     map[types.Type]bool
	limbTop *big.Int
}

const bareKey = "bare field.Element"

func newTypeHeap(be *FieldBackend, sizes types.Sizes) *typeHeap {
	return &typeHeap{be: be, sizes: sizes, F: map[string][]*big.Int{}, has: map[types.Type]bool{}, limbTop: pow2m1(be.LimbBits)}
}

// contains reports whether a value of type t embeds a field.Element
// (directly, not behind a pointer).
func (h *typeHeap) contains(t types.Type) bool {
	if v, ok := h.has[t]; ok {
		return v
	}
	h.has[t] = false // cycles through pointers are cut below; this guards recursion
	r := false
	switch u := t.Underlying().(type) {
	case *types.Struct:
		if types.Identical(t, h.be.Elem) {
			r = true
			break
		}
		for i := 0; i < u.NumFields() && !r; i++ {
			r = h.contains(u.Field(i).Type())
		}
	case *types.Array:
		r = h.contains(u.Elem())
	}
	h.has[t] = r
	return r
}

func typeName(t types.Type) (string, bool) {
	if n, ok := t.(*types.Named); ok {
		s := types.TypeString(n, nil)
		return strings.ReplaceAll(s, load.Module+"/", ""), true
	}
	return "", false
}

// fieldKey is the summary key of field f of struct type st reached under key.
func fieldKey(st types.Type, key string, f *types.Var) string {
	if n, ok := typeName(st); ok {
		return n + "." + f.Name()
	}
	return key + "." + f.Name()
}

// elemValue builds a field.Element whose limbs range over [0, b[i]] (all
// zero if b is nil: nothing was ever stored there).
func (h *typeHeap) elemValue(b []*big.Int) Value {
	st := h.be.Elem.Underlying().(*types.Struct)
	el := make([]Value, st.NumFields())
	for i := range el {
		if i != h.be.Inner {
			el[i] = zeroValue(st.Field(i).Type())
			continue
		}
		limbs := make([]Value, h.be.Limbs)
		for j := range limbs {
			if b == nil {
				limbs[j] = constInt(0)
			} else {
				limbs[j] = mkInt(Itv{bigZero, b[j]})
			}
		}
		el[i] = &Agg{limbs}
	}
	return &Agg{el}
}

// summaryValue is the abstract value of an untracked location of type t.
func (h *typeHeap) summaryValue(t types.Type, key string) Value {
	if types.Identical(t, h.be.Elem) {
		if key == "" {
			key = bareKey
		}
		return h.elemValue(h.F[key])
	}
	switch u := t.Underlying().(type) {
	case *types.Struct:
		if !h.contains(t) {
			break
		}
		el := make([]Value, u.NumFields())
		for i := range el {
			el[i] = h.summaryValue(u.Field(i).Type(), fieldKey(t, key, u.Field(i)))
		}
		return &Agg{el}
	case *types.Array:
		if !h.contains(t) || u.Len() > maxAggLen {
			break
		}
		el := make([]Value, u.Len())
		if len(el) > 0 {
			v := h.summaryValue(u.Elem(), key)
			for i := range el {
				el[i] = v
			}
		}
		return &Agg{el}
	case *types.Slice:
		return &Slice{Off: itv64(0, 0), Len: Itv{bigZero, pow2m1(62)}, Sum: key}
	case *types.Pointer:
		return untrackedPtr()
	}
	return topValue(t, h.sizes)
}

// absorb joins a value of type t stored at an untracked location into the
// summaries.  v == nil stands for an unknown value.
func (h *typeHeap) absorb(t types.Type, key string, v Value) {
	if !h.contains(t) {
		return
	}
	if types.Identical(t, h.be.Elem) {
		if key == "" {
			key = bareKey
		}
		cur := h.F[key]
		if cur == nil {
			cur = make([]*big.Int, h.be.Limbs)
			for i := range cur {
				cur[i] = bigZero
			}
			h.F[key] = cur
			h.changed = true
		}
		var limbs []Value
		if agg, ok := v.(*Agg); ok && h.be.Inner < len(agg.Elems) {
			if in, ok := agg.Elems[h.be.Inner].(*Agg); ok && len(in.Elems) == h.be.Limbs {
				limbs = in.Elems
			}
		}
		for i := range cur {
			hi := h.limbTop
			if limbs != nil {
				if x, ok := limbs[i].(*Int); ok && !x.wrapped() && x.Itv.NonNeg() {
					hi = minBig(x.Itv.Hi, h.limbTop)
				}
			}
			if hi.Cmp(cur[i]) > 0 {
				cur[i] = hi
				h.changed = true
			}
		}
		return
	}
	agg, _ := v.(*Agg)
	switch u := t.Underlying().(type) {
	case *types.Struct:
		for i := 0; i < u.NumFields(); i++ {
			var e Value
			if agg != nil && i < len(agg.Elems) {
				e = agg.Elems[i]
			}
			h.absorb(u.Field(i).Type(), fieldKey(t, key, u.Field(i)), e)
		}
	case *types.Array:
		if agg == nil {
			h.absorb(u.Elem(), key, nil)
			return
		}
		for _, e := range agg.Elems {
			h.absorb(u.Elem(), key, e)
		}
	}
}

// Table renders the summaries for the evidence.
func (h *typeHeap) Table() map[string]string {
	out := map[string]string{}
	var ks []string
	for k := range h.F {
		ks = append(ks, k)
	}
	sort.Strings(ks)
	for _, k := range ks {
		out[k] = fmtLimbs(h.F[k])
	}
	return out
}

// sumOf returns the summary key carried by an untracked pointer value.
func sumOf(v Value) string {
	if p, ok := v.(*Ptr); ok {
		return p.Sum
	}
	return ""
}

// tracked pointers inside a value (for escape analysis).
func pointersIn(v Value, f func(p *Ptr)) {
	switch x := v.(type) {
	case *Ptr:
		if x.tracked() {
			f(x)
		}
	case *Slice:
		if x.Arr != nil && x.Arr.tracked() {
			f(x.Arr)
		}
	case *Agg:
		for _, e := range x.Elems {
			pointersIn(e, f)
		}
	case *Tuple:
		for _, e := range x.Elems {
			pointersIn(e, f)
		}
	}
}

// escape publishes a tracked object whose address becomes reachable from
// untracked memory: its contents are joined into the by-type summaries and
// from now on its loads also read them and its stores also feed them.
func (a *Analyzer) escape(v Value, mem *Memory) {
	if a.heap == nil {
		return
	}
	pointersIn(v, func(p *Ptr) {
		if mem.shared[p.Obj] {
			return
		}
		mem.shared[p.Obj] = true
		root, ok := mem.root(p.Obj)
		t := a.objType[p.Obj]
		if !ok || t == nil {
			return
		}
		a.heap.absorb(t, "", root)
		a.escape(root, mem) // objects reachable through it escape too
	})
}

// keyAt is the summary key of the cell at path inside an object of type t.
func keyAt(t types.Type, path []int) string {
	key := ""
	for _, i := range path {
		if t == nil {
			return key
		}
		switch u := t.Underlying().(type) {
		case *types.Struct:
			if i < 0 || i >= u.NumFields() {
				return key
			}
			key = fieldKey(t, key, u.Field(i))
			t = u.Field(i).Type()
		case *types.Array:
			t = u.Elem()
		default:
			return key
		}
	}
	return key
}

// subType follows a cell path through a type.
func subType(t types.Type, path []int) types.Type {
	for _, i := range path {
		switch u := t.Underlying().(type) {
		case *types.Struct:
			if i < 0 || i >= u.NumFields() {
				return nil
			}
			t = u.Field(i).Type()
		case *types.Array:
			t = u.Elem()
		default:
			return nil
		}
	}
	return t
}
