// Package erange is the E-RANGE engine of DESIGN.md: a forward abstract
// interpretation of go/ssa with big-integer intervals of the *mathematical*
// (non-wrapped) value of every machine word, used to decide the clause "no
// intermediate quantity silently wraps a machine word" for the limb code of
// internal/field (property C04) and of curve/scalar (property C05 d).
//
// Nothing of the analysed repository is ever executed: the interpreter
// evaluates SSA instructions over intervals, never over concrete inputs, and
// no solver is involved.
//
// # Domain
//
// An integer is abstracted by the interval of its mathematical value (Int).
// The invariant is: the machine word is congruent to the mathematical value
// modulo 2^w, and equal to it whenever the interval lies inside the range of
// the type.  +, -, *, << and the bitwise operators respect that congruence,
// so an operation whose result may leave the type ("may wrap") simply yields
// an out-of-range interval that remembers the obligation it came from.  The
// obligation is discharged if every consumer of the word is exact modulo 2^w
// (x & mask, byte(x), the sign bit x>>(w-1) of a difference known to lie in
// [-2^(w-1), 2^(w-1)), an all-ones/zero mask used with &): these are the
// modelled idioms (Montgomery factor product, borrow chains, conditional
// subtraction masks, serialisers) and are counted in the evidence.  Any other
// consumer (>>, comparison, widening conversion, a call, a store to an
// output, a return) fails the obligation at the instruction that wrapped.
//
// Arrays and structs are abstracted cell by cell (Agg) with strong updates
// through pointers whose index is known, weak updates otherwise; 128-bit
// accumulators kept in two words are related through tags (wide.go).
//
// # Control
//
// Path mode (stage A, scalar): paths are enumerated, branches whose condition
// is decided by the intervals are followed on one side only (so counted
// loops unroll and helper closures specialise on constant arguments), an
// undecided branch forks with refinement of the compared values, a loop head
// that is reached with a state covered by a state already explored from it is
// closed (inductive argument), calls are inlined.  All bounds (inlining
// depth, loop visits, paths) are explicit and exceeding one is a failure.
//
// Join mode (stage B): classical worklist iteration with joins at merge
// points and widening at loop heads (joinrun.go).
//
// # Files
//
//	interval.go  intervals of big integers
//	value.go     abstract values, memory, join / order / widening
//	wide.go      bits.Mul64 / bits.Add64 as 128-bit quantities
//	ops.go       transfer functions, obligations, idioms
//	calls.go     calls: builtins, the table of summarised callees, inlining
//	interp.go    path-mode interpreter, package initialisers
//	joinrun.go   join-mode interpreter
//	oblig.go     obligations and their reporting form
//	entry.go     analysing one function under a pre-condition, rules
//	field.go     stage A driver for internal/field (pre/post table, closure, controls)
//	scalar.go    CheckScalar64 for curve/scalar
//	heap.go      by-type heap summaries (stage B)
//	stageb.go    stage B driver
//	dyn.go       dynamic calls that stage B does not follow
package erange
