package erange

import (
	"fmt"
	"go/types"
	"strings"

	"golang.org/x/tools/go/ssa"

	"voicheck/load"
)

// doCall interprets a call: builtins and a fixed table of summarised callees
// are modelled directly, module functions with a body are inlined (up to
// MaxDepth), everything else leaves the entry point undecided.
func (a *Analyzer) doCall(fr *frame, call *ssa.Call, mem *Memory) []result {
	common := call.Common()
	one := func(v Value) []result { return []result{{mem, v}} }

	if bi, ok := common.Value.(*ssa.Builtin); ok {
		return one(a.builtin(fr, call, bi, mem))
	}
	args := make([]Value, len(common.Args))
	for i, x := range common.Args {
		args[i] = a.val(fr, x)
	}
	if common.IsInvoke() {
		a.unmodelled(call, "interface method call (havoc)", "interface method call %s is not modelled", common.Method.Name())
		a.havoc(call, args, mem)
		return one(topValue(call.Type(), a.sizes))
	}
	fn := common.StaticCallee()
	var bind []Value
	if fn == nil {
		f, ok := a.val(fr, common.Value).(*Fn)
		if !ok {
			a.unmodelled(call, "call through a function value (havoc)", "call through an unknown function value")
			a.havoc(call, args, mem)
			return one(topValue(call.Type(), a.sizes))
		}
		fn, bind = f.F, f.Bind
	} else if mc, ok := common.Value.(*ssa.MakeClosure); ok {
		if f, ok := a.val(fr, mc).(*Fn); ok {
			bind = f.Bind
		}
	}

	name := fn.String()
	if v, ok := a.summary(fr, call, name, args, mem); ok {
		a.summarised[strings.ReplaceAll(name, load.Module+"/", "")]++
		return one(v)
	}
	if fn.Synthetic == "package initializer" {
		return one(nil) // initialisers of imported packages: no effect on tracked state
	}
	if a.Intercept != nil && len(fn.Blocks) > 0 {
		if rs, ok := a.Intercept(a, fr, call, fn, args, mem); ok {
			return rs
		}
	}
	isModule := fn.Pkg != nil && load.IsModule(fn.Pkg.Pkg)
	if anon := fn.Parent(); anon != nil && fn.Pkg == nil {
		isModule = anon.Pkg != nil && load.IsModule(anon.Pkg.Pkg)
	}
	switch {
	case !isModule || (a.InScope != nil && !a.InScope(fn)):
		a.unmodelled(call, "call leaving the analysed scope (havoc)", "call of %s is not modelled", name)
	case len(fn.Blocks) == 0:
		a.undecide(call, "%s has no Go body (assembly): not modelled", load.FuncName(fn))
	case fr.depth+1 > a.MaxDepth:
		a.undecide(call, "inlining depth %d exceeded at %s", a.MaxDepth, load.FuncName(fn))
	default:
		a.inlined[load.FuncName(fn)]++
		ctx := fmt.Sprintf("%s>%s@%d.%d", fr.ctx, fn.Name(), call.Block().Index, indexIn(call))
		return a.callFn(fn, args, bind, mem, ctx, fr.depth+1)
	}
	a.havoc(call, args, mem)
	return one(topValue(call.Type(), a.sizes))
}

func indexIn(instr ssa.Instruction) int {
	for i, x := range instr.Block().Instrs {
		if x == instr {
			return i
		}
	}
	return -1
}

// havoc forgets everything reachable through pointer and slice arguments of
// a call that is not interpreted.  In Stage B the objects escape: their
// contents are published to the by-type summaries (the callee can only
// change field elements through the exported functions of the analysed
// scope, which maintain those summaries) and replaced by them.
func (a *Analyzer) havoc(call *ssa.Call, args []Value, mem *Memory) {
	for i, v := range args {
		t := call.Common().Args[i].Type()
		if a.heap != nil {
			a.escape(v, mem)
		}
		switch x := v.(type) {
		case *Ptr:
			if pt, ok := t.Underlying().(*types.Pointer); ok && x.tracked() {
				if a.heap != nil {
					mem.store(x, a.heap.summaryValue(pt.Elem(), keyAt(a.objType[x.Obj], x.Path)))
				} else {
					mem.store(x, topValue(pt.Elem(), a.sizes))
				}
			}
		case *Slice:
			if st, ok := t.Underlying().(*types.Slice); ok && x.Arr != nil && x.Arr.tracked() {
				if a.heap != nil {
					mem.store(x.Arr.sub(-1), a.heap.summaryValue(st.Elem(), keyAt(a.objType[x.Arr.Obj], x.Arr.Path)))
				} else {
					mem.store(x.Arr.sub(-1), topValue(st.Elem(), a.sizes))
				}
			}
		}
	}
}

// unmodelled handles a call that is not interpreted: a failure in Stage A,
// a counted havoc in Stage B.
func (a *Analyzer) unmodelled(call *ssa.Call, what, format string, args ...any) {
	if a.ExternalHavoc {
		a.notes[what]++
		return
	}
	a.undecide(call, format, args...)
}

// builtin models the Go builtins that occur in limb code.
func (a *Analyzer) builtin(fr *frame, call *ssa.Call, bi *ssa.Builtin, mem *Memory) Value {
	args := call.Common().Args
	switch bi.Name() {
	case "len", "cap":
		switch x := a.val(fr, args[0]).(type) {
		case *Slice:
			if bi.Name() == "len" {
				return mkInt(x.Len)
			}
			return mkInt(Itv{x.Len.Lo, pow2m1(62)})
		}
		if n, ok := arrayLen(args[0].Type()); ok {
			return constInt(n)
		}
		if c, ok := args[0].(*ssa.Const); ok && c.Value != nil {
			if s, ok := constString(c); ok {
				return constInt(int64(len(s)))
			}
		}
		return mkInt(Itv{bigZero, pow2m1(62)})
	case "copy":
		dst, _ := a.val(fr, args[0]).(*Slice)
		src := a.val(fr, args[1])
		if dst != nil && dst.Arr != nil && dst.Arr.tracked() {
			if st, ok := args[0].Type().Underlying().(*types.Slice); ok {
				var el Value = topValue(st.Elem(), a.sizes)
				if s, ok := src.(*Slice); ok && s.Arr != nil && s.Arr.tracked() {
					if v, ok := mem.load(s.Arr.sub(-1)); ok {
						el = v
					}
				}
				// weak update of every element of the backing array
				mem.store(dst.Arr.sub(-1), el)
			}
		}
		return mkInt(Itv{bigZero, pow2m1(62)})
	case "append":
		for _, x := range args[1:] {
			a.useDeep(call, a.val(fr, x), "append")
		}
		return topValue(call.Type(), a.sizes)
	case "print", "println":
		return nil
	case "min", "max":
		if ii, ok := intInfoOf(call.Type(), a.sizes); ok {
			var r *Itv
			for _, x := range args {
				v := a.use(call, a.val(fr, x), x.Type(), bi.Name()).Itv
				switch {
				case r == nil:
					r = &v
				case bi.Name() == "min":
					m := Itv{minBig(r.Lo, v.Lo), minBig(r.Hi, v.Hi)}
					r = &m
				default:
					m := Itv{maxBig(r.Lo, v.Lo), maxBig(r.Hi, v.Hi)}
					r = &m
				}
			}
			if r != nil {
				return mkInt(*r)
			}
			return mkInt(ii.rng())
		}
	}
	a.undecide(call, "builtin %s is not modelled", bi.Name())
	return topValue(call.Type(), a.sizes)
}

func constString(c *ssa.Const) (string, bool) {
	if b, ok := c.Type().Underlying().(*types.Basic); ok && b.Info()&types.IsString != 0 && c.Value != nil {
		s := c.Value.ExactString()
		if len(s) >= 2 {
			return s[1 : len(s)-1], true
		}
	}
	return "", false
}

// Summarised callees.  These are the only functions whose effect is taken
// from a hand-written model instead of their body; the table is part of the
// evidence (assumptions) and every use is counted.
const (
	subtlePkg = load.Module + "/internal/subtle."
)

// summary models the call if the callee is in the table.
func (a *Analyzer) summary(fr *frame, call *ssa.Call, name string, args []Value, mem *Memory) (Value, bool) {
	argT := func(i int) types.Type { return call.Common().Args[i].Type() }
	intArg := func(i int) *Int { return a.use(call, args[i], argT(i), name) }
	top := func() Value { return topValue(call.Type(), a.sizes) }

	switch name {
	case "math/bits.Mul64":
		return a.mul64(fr, call, intArg(0), intArg(1)), true
	case "math/bits.Add64":
		return a.add64(fr, call, intArg(0), intArg(1), intArg(2)), true

	// constant-time select / swap: the result is one of the two operands
	case subtlePkg + "ConstantTimeSelectUint64", subtlePkg + "ConstantTimeSelectUint32", subtlePkg + "ConstantTimeSelectByte":
		x, y := intArg(1), intArg(2)
		return mkInt(x.Itv.Join(y.Itv)), true
	case subtlePkg + "ConstantTimeSwapUint64", subtlePkg + "ConstantTimeSwapUint32":
		pa, _ := args[1].(*Ptr)
		pb, _ := args[2].(*Ptr)
		et := argT(1).Underlying().(*types.Pointer).Elem()
		ld := func(p *Ptr) *Int {
			if p != nil {
				if v, ok := mem.load(p); ok {
					return a.use(call, v, et, name)
				}
			}
			return topValue(et, a.sizes).(*Int)
		}
		j := mkInt(ld(pa).Itv.Join(ld(pb).Itv))
		if pa != nil {
			mem.store(pa, j)
		}
		if pb != nil {
			mem.store(pb, j)
		}
		return nil, true
	case subtlePkg + "ConstantTimeCompareByte", subtlePkg + "ConstantTimeCompareBytes",
		"crypto/subtle.ConstantTimeCompare", "crypto/subtle.ConstantTimeByteEq", "crypto/subtle.ConstantTimeEq",
		"crypto/subtle.ConstantTimeLessOrEq":
		return mkInt(itv64(0, 1)), true

	case "fmt.Errorf", "errors.New", "fmt.Sprintf":
		return &Opaque{NonNil: true, Why: name}, true
	}

	// pure functions of integer arguments
	if strings.HasPrefix(name, "math/bits.") {
		for i := range args {
			intArg(i)
		}
		return top(), true
	}
	// encoding/binary byte-order accessors: reads yield any word of the
	// result type, writes observe every bit of the stored word
	if strings.HasPrefix(name, "(encoding/binary.littleEndian).") || strings.HasPrefix(name, "(encoding/binary.bigEndian).") {
		m := name[strings.LastIndex(name, ".")+1:]
		switch {
		case strings.HasPrefix(m, "Uint"):
			return top(), true
		case strings.HasPrefix(m, "PutUint"):
			a.use(call, args[2], argT(2), name)
			if s, ok := args[1].(*Slice); ok && s.Arr != nil && s.Arr.tracked() {
				mem.store(s.Arr.sub(-1), mkInt(itv64(0, 255)))
			}
			return nil, true
		}
	}
	return nil, false
}
