package erange

import (
	"fmt"
	"go/types"
	"sort"
	"strings"

	"golang.org/x/tools/go/ssa"

	"voicheck/load"
	"voicheck/report"
)

// C05 (d): the 64-bit scalar back end (curve/scalar/scalar_u64.go and the
// compositions of scalar_unpacked.go) under "every limb of an unpackedScalar
// is < 2^52".  MontgomeryReduce's limbs *[18]uint64 is a vector of nine
// {lo,hi} pairs; its pre-condition is *derived*: pair i ranges over the join
// of what scalarMulInternal, squareInternal and FromMontgomery can produce
// from limbs < 2^52 (and those producers are checked to stay inside it).
//
// The 32-bit scalar back end (scalar_u32.go) is out of scope: its Karatsuba
// multiplication wraps on purpose and cancels algebraically, which interval
// reasoning cannot follow.  In a configuration that selects it
// CheckScalar64 records nothing and says so in run.NotDecided.

const scalarRel = "curve/scalar"

// ScalarExpectedMin is the vacuity threshold of the scalar rule per run
// (about 90% of the obligations measured in one 64-bit configuration).
var ScalarExpectedMin = 650 // measured: 728 in one 64-bit configuration

// scalarRow is one row of the scalar pre/post table.
type scalarRow struct {
	Config      string         `json:"config"`
	Function    string         `json:"function"`
	Pre         string         `json:"pre"`
	Post        string         `json:"post"`
	Obligations int            `json:"obligations"`
	ByRange     int            `json:"discharged_by_range"`
	ByIdiom     int            `json:"discharged_by_idiom"`
	Violated    int            `json:"violated"`
	ByClass     map[string]int `json:"by_class,omitempty"`
	Idioms      map[string]int `json:"idioms,omitempty"`
	Paths       int            `json:"paths"`
	Alias       int            `json:"alias_configurations"`
}

// CheckScalar64 analyses the 64-bit scalar back end of the loaded
// configuration and records every obligation under the single rule ruleID
// (the obligation class is part of each construct label).
func CheckScalar64(run *report.Run, p *load.Program, ruleID string) {
	run.SetConfig(p.Cfg.ID)
	pk := p.Pkg(scalarRel)
	sp := p.SSAPkg(scalarRel)
	if pk == nil || sp == nil {
		run.Fatal("[%s] E-RANGE: package %s not loaded with SSA", p.Cfg.ID, scalarRel)
		return
	}
	tn, _ := pk.Types.Scope().Lookup("unpackedScalar").(*types.TypeName)
	if tn == nil {
		run.Fatal("[%s] E-RANGE: type scalar.unpackedScalar not found", p.Cfg.ID)
		return
	}
	arr, _ := tn.Type().Underlying().(*types.Array)
	if arr == nil {
		run.Fatal("[%s] E-RANGE: scalar.unpackedScalar is not an array", p.Cfg.ID)
		return
	}
	switch b, _ := arr.Elem().Underlying().(*types.Basic); {
	case b != nil && b.Kind() == types.Uint64 && arr.Len() == 5:
		// the 64-bit back end: analysed below
	case b != nil && b.Kind() == types.Uint32:
		// no rule is declared in such a configuration: the 64-bit
		// configurations of the same run carry the vacuity threshold
		run.NotDecided = appendUnique(run.NotDecided, fmt.Sprintf("[%s] curve/scalar uses the 32-bit back end (unpackedScalar = %s): its Karatsuba products wrap on purpose and cancel algebraically, intervals cannot follow that; not analysed", p.Cfg.ID, arr))
		return
	default:
		run.Fatal("[%s] E-RANGE: unknown representation of scalar.unpackedScalar: %s", p.Cfg.ID, arr)
		return
	}
	ru := run.Rule(ruleID, "curve/scalar 64-bit back end under limbs < 2^52: every discarded 128-bit carry is zero, every W>>52 fits a word, "+
		"the borrow / mask / Montgomery-factor idioms are the only wrap-arounds, outputs are < 2^52 again", ScalarExpectedMin)

	us := tn.Type()
	limbMax := pow2m1(52)

	// entry points: every function or method of the package whose signature
	// mentions unpackedScalar or the [18]uint64 product
	mentions := func(t types.Type) bool {
		if pt, ok := t.Underlying().(*types.Pointer); ok {
			t = pt.Elem()
		}
		if types.Identical(t, us) {
			return true
		}
		if a, ok := t.Underlying().(*types.Array); ok && a.Len() == 18 {
			return true
		}
		return false
	}
	var entries []*ssa.Function
	seen := map[*ssa.Function]bool{}
	add := func(fn *ssa.Function) {
		if fn == nil || seen[fn] || fn.Synthetic != "" || fn.Parent() != nil || len(fn.Blocks) == 0 {
			return
		}
		seen[fn] = true
		sig := fn.Signature
		ok := sig.Recv() != nil && mentions(sig.Recv().Type())
		for i := 0; i < sig.Params().Len(); i++ {
			ok = ok || mentions(sig.Params().At(i).Type())
		}
		for i := 0; i < sig.Results().Len(); i++ {
			ok = ok || mentions(sig.Results().At(i).Type())
		}
		if ok {
			entries = append(entries, fn)
		}
	}
	for _, m := range sp.Members {
		switch x := m.(type) {
		case *ssa.Function:
			add(x)
		case *ssa.Type:
			for _, t := range []types.Type{x.Type(), types.NewPointer(x.Type())} {
				ms := p.SSA.MethodSets.MethodSet(t)
				for i := 0; i < ms.Len(); i++ {
					add(p.SSA.MethodValue(ms.At(i)))
				}
			}
		}
	}
	sort.Slice(entries, func(i, j int) bool { return entries[i].Pos() < entries[j].Pos() })
	byName := map[string]*ssa.Function{}
	for _, fn := range entries {
		byName[fn.Name()] = fn
	}
	for _, anchor := range []string{"scalarMulInternal", "squareInternal", "MontgomeryReduce", "Add", "Sub", "SetBytes", "SetBytesWide", "ToBytes", "FromMontgomery", "MontgomeryMul"} {
		if byName[anchor] == nil {
			ru.Failf("-", scalarRel+"."+anchor, "[%s] anchor %s of the 64-bit scalar back end not found", p.Cfg.ID, anchor)
			return
		}
	}

	a := NewAnalyzer(p)
	a.MergeContexts = true
	spec := func(fn *ssa.Function, pairs []Itv) FuncSpec {
		return FuncSpec{
			Label: load.FuncName(fn),
			Alias: true,
			Cell: func(param int, path []int, leaf types.Type) *Itv {
				pt := fn.Params[param].Type().Underlying().(*types.Pointer).Elem()
				if types.Identical(pt, us) && len(path) == 1 {
					return &Itv{bigZero, limbMax}
				}
				return nil
			},
			PairBound: func(param, pair int) *Itv {
				pt := fn.Params[param].Type().Underlying().(*types.Pointer).Elem()
				if ar, ok := pt.Underlying().(*types.Array); ok && ar.Len() == 18 && pairs != nil && pair < len(pairs) {
					return &pairs[pair]
				}
				return nil
			},
		}
	}

	// 1. producers of the {lo,hi} limb vector: derive the pair bounds
	var pairs []Itv
	pairSrc := map[string][]Itv{}
	joinPairs := func(name string, v Value) {
		agg, ok := v.(*Agg)
		if !ok || len(agg.Elems) != 18 {
			ru.Failf("-", scalarRel+"."+name, "[%s] %s does not yield an [18]uint64 value the analysis can read", p.Cfg.ID, name)
			return
		}
		var got []Itv
		for i := 0; i < 9; i++ {
			lo, _ := agg.Elems[2*i].(*Int)
			hi, _ := agg.Elems[2*i+1].(*Int)
			if lo == nil || hi == nil {
				ru.Failf("-", scalarRel+"."+name, "[%s] %s: limb pair %d has no interval", p.Cfg.ID, name, i)
				return
			}
			var w Itv
			if lo.Tag != nil && hi.Tag != nil && lo.Tag.Kind == tagLo && hi.Tag.Kind == tagHi && lo.Tag.W == hi.Tag.W {
				w = lo.Tag.W.Itv
			} else {
				w = lo.Itv.Add(hi.Itv.Shl(64, 64)) // unrelated words: lo + hi*2^64
			}
			got = append(got, w)
		}
		pairSrc[name] = got
		if pairs == nil {
			pairs = append([]Itv(nil), got...)
			return
		}
		for i := range pairs {
			pairs[i] = pairs[i].Join(got[i])
		}
	}
	for _, name := range []string{"scalarMulInternal", "squareInternal"} {
		res := a.AnalyzeFunc(byName[name], spec(byName[name], nil), false)
		joinPairs(name, res.Ret)
	}
	// FromMontgomery stores a[i] into the low words and leaves the high words 0
	if pairs != nil {
		for i := 0; i < 5; i++ {
			pairs[i] = pairs[i].Join(Itv{bigZero, limbMax})
		}
	}
	if pairs == nil {
		return
	}

	// 2. every entry point under limbs < 2^52 (and the derived pair bounds)
	var rows []scalarRow
	totalIdioms := map[string]int{}
	sampled := 0
	for _, fn := range entries {
		res := a.AnalyzeFunc(fn, spec(fn, pairs), true)
		// post-conditions: every unpackedScalar output limb is an exact word < 2^52
		postStr := []string{}
		checkScalar := func(label string, v Value) {
			agg, ok := v.(*Agg)
			if !ok || len(agg.Elems) != 5 {
				return
			}
			o := a.entryObligation(ClsPost, load.FuncName(fn), p.Pos(fn.Pos()), "limbs of "+label, "every output limb is an exact word < 2^52")
			o.Evals++
			mx := bigZero
			for i, e := range agg.Elems {
				x, ok := e.(*Int)
				if !ok {
					o.fail(fmt.Sprintf("limb %d of %s has no interval", i, label))
					continue
				}
				if x.wrapped() {
					o.fail(fmt.Sprintf("limb %d of %s may be a wrapped word %s", i, label, x.Itv))
					for _, org := range x.Org {
						org.fail(fmt.Sprintf("%s may leave its type (value %s) and the wrapped word is returned in %s", org.Expr, x.Itv, label))
					}
				} else if x.Itv.Hi.Cmp(limbMax) > 0 {
					o.fail(fmt.Sprintf("limb %d of %s may reach %s >= 2^52: the next primitive's pre-condition (limbs < 2^52) is not re-established", i, label, fmtBig(x.Itv.Hi)))
				}
				mx = maxBig(mx, x.Itv.Hi)
			}
			postStr = append(postStr, fmt.Sprintf("%s limbs <= %s", label, fmtBig(mx)))
		}
		for _, i := range res.Written {
			pt := fn.Params[i].Type().Underlying().(*types.Pointer).Elem()
			if types.Identical(pt, us) {
				checkScalar(fn.Params[i].Name(), res.Out[i])
			}
		}
		if rs := fn.Signature.Results(); rs.Len() == 1 && res.Ret != nil {
			if ar, ok := rs.At(0).Type().Underlying().(*types.Array); ok && ar.Len() == 18 {
				// producer closure: stays inside the derived pair bounds
				o := a.entryObligation(ClsPost, load.FuncName(fn), p.Pos(fn.Pos()), "result pairs", "every {lo,hi} pair of the result lies in the bound MontgomeryReduce is analysed under")
				o.Evals++
				if got := pairSrc[fn.Name()]; got != nil {
					mx := bigZero
					for i := range got {
						if !got[i].Leq(pairs[i]) {
							o.fail(fmt.Sprintf("pair %d = %s exceeds %s", i, got[i], pairs[i]))
						}
						mx = maxBig(mx, got[i].Hi)
					}
					postStr = append(postStr, "result pairs <= "+fmtBig(mx))
				}
				intCells(res.Ret, nil, func(path []int, x *Int) {
					if x.wrapped() {
						o.fail(fmt.Sprintf("result word %v may be wrapped: %s", path, x.Itv))
					}
				})
			} else if res.Ret != nil {
				intCells(res.Ret, nil, func(path []int, x *Int) {
					if x.wrapped() {
						for _, org := range x.Org {
							org.fail(fmt.Sprintf("%s may leave its type (value %s) and the wrapped word is returned", org.Expr, x.Itv))
						}
					}
				})
			}
		}
		res.Obligations = a.oblOrder

		for _, o := range res.Obligations {
			if o.Failed() {
				ru.Fail(o.Pos, o.Func, fmt.Sprintf("[%s] %s: `%s` = %s violates \"%s\" when %s is analysed under limbs < 2^52: %s",
					o.Class, o.Pos, o.Expr, o.itvString(), o.What, o.Entry, o.Fails[0]), o.Summary())
			} else {
				ru.OK(o.Class + " :: " + o.Entry + " :: " + o.Pos + " " + o.Expr)
			}
		}
		if len(res.Undecided) > 0 {
			for _, u := range res.Undecided {
				ru.Fail(p.Pos(fn.Pos()), load.FuncName(fn), "UNDECIDED while analysing "+res.Label+": "+u, nil)
			}
		} else {
			ru.OK("complete :: " + res.Label)
		}

		st := StatsOf(res.Obligations)
		for k, n := range res.IdiomCount {
			st.Idioms[k] += n
		}
		pre := "limbs of every unpackedScalar parameter < 2^52"
		if fn.Name() == "MontgomeryReduce" {
			mx := bigZero
			for _, pr := range pairs {
				mx = maxBig(mx, pr.Hi)
			}
			pre += "; limbs[2i+1]:limbs[2i] = any pair produced by scalarMulInternal / squareInternal / FromMontgomery (max " + fmtBig(mx) + ")"
		}
		if len(postStr) == 0 {
			postStr = []string{"-"}
		}
		rows = append(rows, scalarRow{Config: p.Cfg.ID, Function: load.FuncName(fn), Pre: pre, Post: strings.Join(postStr, "; "),
			Obligations: st.Total, ByRange: st.ByRange, ByIdiom: st.ByIdiom, Violated: st.Violated, ByClass: st.ByClass, Idioms: st.Idioms,
			Paths: res.Paths, Alias: res.AliasConfigs})
		for k, n := range st.Idioms {
			totalIdioms[k] += n
		}
		for _, o := range res.Obligations {
			if sampled < 6 && o.Wrapped && !o.Failed() && (fn.Name() == "Sub" || fn.Name() == "MontgomeryReduce" || fn.Name() == "SetBytes") {
				s := o.Summary()
				s["config"] = p.Cfg.ID
				run.Sample(s)
				sampled++
			}
		}
	}
	run.Extra["scalar64_table_"+p.Cfg.ID] = rows
	run.Extra["scalar64_idioms_"+p.Cfg.ID] = totalIdioms
	var ps []string
	for i, pr := range pairs {
		ps = append(ps, fmt.Sprintf("pair %d <= %s", i, fmtBig(pr.Hi)))
	}
	run.Extra["scalar64_montgomery_pair_bounds_"+p.Cfg.ID] = ps
}
