package erange

import (
	"bytes"
	"fmt"
	"go/ast"
	"go/printer"
	"go/token"
	"sort"
	"strings"

	"golang.org/x/tools/go/ast/astutil"
	"golang.org/x/tools/go/ssa"

	"voicheck/load"
)

// Obligation classes (the suffix of the rule id).
const (
	ClsArith   = "arith"   // +, *, << on unsigned words stay below 2^w (or are a modelled exact-mod-2^w idiom)
	ClsSub     = "sub"     // unsigned subtraction / negation is non-negative (or the borrow / mask idiom)
	ClsWide    = "wide"    // 128-bit accumulators: discarded Add64 carry / Mul64 high word is zero, W>>k fits a word
	ClsConv    = "conv"    // narrowing conversions fit (or are byte truncations of a serialiser)
	ClsSigned  = "signed"  // signed arithmetic stays inside its type
	ClsPost    = "post"    // outputs are in range and satisfy the declared post-condition
	ClsClosure = "closure" // post-conditions re-establish the pre-conditions after one Add/Sub/Neg
	ClsControl = "control" // positive controls of the analysis itself
)

// ClassDesc describes each class (rule description in the evidence).
var ClassDesc = map[string]string{
	ClsArith:   "every +, *, << on an unsigned word stays below 2^w, or its wrapped result is only ever observed modulo 2^k (modelled idiom)",
	ClsSub:     "every unsigned subtraction (a+bias)-b is non-negative, or its wrapped result is read only through >>(w-1) / &mask (borrow and select-mask idioms)",
	ClsWide:    "128-bit accumulators: every discarded bits.Add64 carry and bits.Mul64 high word is zero and every (hi<<(64-k))|(lo>>k) fits a word",
	ClsConv:    "every narrowing integer conversion preserves the value (byte(x) of a serialiser is a modelled truncation)",
	ClsSigned:  "signed arithmetic stays inside its type",
	ClsPost:    "every output limb is an exact (non-wrapped) word; the derived post-condition is recorded",
	ClsClosure: "post-condition of every primitive, after one further Add, satisfies the pre-condition of every primitive",
	ClsControl: "positive controls: the analysis reports the overflow when the assumed headroom is raised",
}

// Obligation is one proof obligation: one arithmetic instruction in one
// inlining context of one analysed entry point (loop iterations, paths and
// alias configurations are merged: it holds iff it holds in all of them).
type Obligation struct {
	Class string
	Entry string // primitive under analysis
	Func  string // function that contains the instruction
	Pos   string // file:line
	Expr  string // source text of the expression
	What  string // e.g. "result < 2^64"
	Itv   *Itv   // join of the computed intervals
	Evals int

	Wrapped bool           // some evaluation may leave the type range
	Idioms  map[string]int // exact-modulo consumers that read a wrapped result
	Fails   []string       // diagnoses; non-empty = violated
	key     string
}

func (o *Obligation) observe(i Itv, inRange bool) {
	o.Evals++
	if o.Itv == nil {
		c := i
		o.Itv = &c
	} else {
		j := o.Itv.Join(i)
		o.Itv = &j
	}
	if !inRange {
		o.Wrapped = true
	}
}

func (o *Obligation) idiom(name string) {
	if o.Idioms == nil {
		o.Idioms = map[string]int{}
	}
	o.Idioms[name]++
}

func (o *Obligation) fail(msg string) {
	for _, m := range o.Fails {
		if m == msg {
			return
		}
	}
	if len(o.Fails) < 4 {
		o.Fails = append(o.Fails, msg)
	}
}

// Failed reports whether the obligation is violated.
func (o *Obligation) Failed() bool { return len(o.Fails) > 0 }

// IdiomName is the modelled idiom that discharged a wrapped obligation.
func (o *Obligation) IdiomName() string {
	if !o.Wrapped || o.Failed() {
		return ""
	}
	if len(o.Idioms) == 0 {
		return "wrapped result never observed"
	}
	var names []string
	for n := range o.Idioms {
		names = append(names, n)
	}
	sort.Strings(names)
	return strings.Join(names, " + ")
}

func (o *Obligation) itvString() string {
	if o.Itv == nil {
		return "-"
	}
	return o.Itv.String()
}

// Summary is the evidence form of an obligation.
func (o *Obligation) Summary() map[string]any {
	m := map[string]any{
		"class": o.Class, "entry": o.Entry, "func": o.Func, "pos": o.Pos,
		"expr": o.Expr, "obligation": o.What, "interval": o.itvString(), "evaluations": o.Evals,
	}
	switch {
	case o.Failed():
		m["status"] = "VIOLATED"
		m["diagnosis"] = o.Fails
	case o.Wrapped:
		m["status"] = "discharged by idiom: " + o.IdiomName()
	default:
		m["status"] = "discharged by range"
	}
	return m
}

// obligation finds or creates the obligation of (context, instruction, sub).
func (a *Analyzer) obligation(fr *frame, instr ssa.Instruction, class, sub, what string) *Obligation {
	ctx := fr.ctx
	if a.MergeContexts {
		ctx = ""
	}
	key := fmt.Sprintf("%s|%s|%p|%s", a.entry, ctx, instr, sub)
	if o := a.obls[key]; o != nil {
		return o
	}
	o := &Obligation{Class: class, Entry: a.entry, Func: load.FuncName(instr.Parent()),
		Pos: a.P.Pos(a.instrPos(instr)), Expr: a.exprText(instr), What: what, key: key}
	a.obls[key] = o
	a.oblOrder = append(a.oblOrder, o)
	return o
}

// entryObligation creates an obligation that is not attached to an
// instruction (post-conditions, closure).
func (a *Analyzer) entryObligation(class, fn, pos, expr, what string) *Obligation {
	key := fmt.Sprintf("%s|%s|%s|%s", a.entry, class, fn, expr)
	if o := a.obls[key]; o != nil {
		return o
	}
	o := &Obligation{Class: class, Entry: a.entry, Func: fn, Pos: pos, Expr: expr, What: what, key: key}
	a.obls[key] = o
	a.oblOrder = append(a.oblOrder, o)
	return o
}

// instrPos returns the best position of an instruction.
func (a *Analyzer) instrPos(instr ssa.Instruction) token.Pos {
	if p := instr.Pos(); p.IsValid() {
		return p
	}
	if v, ok := instr.(ssa.Value); ok {
		// an unpositioned value: use the first positioned referrer
		if refs := v.Referrers(); refs != nil {
			for _, r := range *refs {
				if p := r.Pos(); p.IsValid() {
					return p
				}
			}
		}
	}
	return instr.Parent().Pos()
}

// exprText returns the source text of the expression an instruction was
// built from (for reports only; rules never match on it).
func (a *Analyzer) exprText(instr ssa.Instruction) string {
	pos := a.instrPos(instr)
	fallback := instr.String()
	if v, ok := instr.(ssa.Value); ok {
		fallback = v.Name() + " = " + fallback
	}
	if !pos.IsValid() || instr.Parent() == nil || instr.Parent().Pkg == nil {
		return fallback
	}
	pk := a.P.All[instr.Parent().Pkg.Pkg.Path()]
	if pk == nil {
		return fallback
	}
	for _, f := range pk.Syntax {
		if f.Pos() <= pos && pos < f.End() {
			path, _ := astutil.PathEnclosingInterval(f, pos, pos)
			for _, n := range path {
				switch e := n.(type) {
				case *ast.BinaryExpr:
					if e.OpPos == pos {
						return clip(a.nodeText(e))
					}
				case *ast.AssignStmt:
					// go/ssa positions the arithmetic of `x op= y` at the
					// start of the statement
					if _, isBin := instr.(*ssa.BinOp); e.TokPos == pos || (isBin && e.Pos() == pos && e.Tok != token.ASSIGN && e.Tok != token.DEFINE) {
						return clip(a.nodeText(e))
					}
				case *ast.IncDecStmt:
					if _, isBin := instr.(*ssa.BinOp); e.TokPos == pos || (isBin && e.Pos() == pos) {
						return clip(a.nodeText(e))
					}
				case *ast.UnaryExpr:
					if e.OpPos == pos {
						return clip(a.nodeText(e))
					}
				case *ast.CallExpr:
					if e.Lparen == pos || e.Pos() == pos {
						return clip(a.nodeText(e))
					}
				}
			}
			return fallback
		}
	}
	return fallback
}

func (a *Analyzer) nodeText(n ast.Node) string {
	var b bytes.Buffer
	if err := printer.Fprint(&b, a.P.Fset, n); err != nil {
		return "?"
	}
	return strings.Join(strings.Fields(b.String()), " ")
}

func clip(s string) string {
	if len(s) > 110 {
		return s[:107] + "..."
	}
	return s
}
