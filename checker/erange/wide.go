package erange

import (
	"golang.org/x/tools/go/ssa"
)

// 128-bit accumulators are modelled as a relational "wide pair": a Wide is a
// mathematical quantity W that the code keeps in two 64-bit words (hi, lo).
// The words carry a tag naming W and their role, so that
//
//	lo, c := bits.Add64(lo1, lo2, 0); hi, _ := bits.Add64(hi1, hi2, c)
//
// is recognised as the single addition W = W1 + W2 (obligation: the discarded
// final carry is zero, i.e. W < 2^128), (hi<<(64-k))|(lo>>k) as the low word
// of W>>k (obligation, raised at the shift: hi<<(64-k) does not lose bits,
// i.e. W>>k < 2^64) and lo&(2^k-1) as W mod 2^k.  Tags are immutable and
// travel with the words through memory, aggregates, calls and returns.
//
// When a pattern is not matched the generic word semantics of Add64/Mul64 is
// used (sound, less precise): the obligations that depend on the lost
// relation then fail instead of being assumed.

// Wide is a mathematical quantity held in a (hi, lo) word pair.
type Wide struct {
	id   int
	Itv  Itv
	a, b *Wide // operands when W is the sum a+b formed by an Add64 pair
}

type tagKind uint8

const (
	tagLo    tagKind = iota + 1 // the word is W mod 2^64
	tagHi                       // the word is (W >> 64) mod 2^64
	tagCarry                    // the word is the carry of the low-word addition of W = a+b
	tagHiShl                    // the word is hi(W) << sh
	tagLoShr                    // the word is lo(W) >> sh
)

// wideTag is comparable: two tags are the same fact iff they are ==.
type wideTag struct {
	W    *Wide
	Kind tagKind
	Sh   uint
}

var (
	two64  = pow2(64)
	two128 = pow2(128)
	max64  = pow2m1(64)
)

func (a *Analyzer) newWide(i Itv, x, y *Wide) *Wide {
	a.wideSeq++
	return &Wide{id: a.wideSeq, Itv: i, a: x, b: y}
}

// wideOfLow returns the wide quantity of which v is the low word: the tagged
// one, or v itself promoted to a wide with a zero high word.
func (a *Analyzer) wideOfLow(v *Int) *Wide {
	if v.Tag != nil && v.Tag.Kind == tagLo {
		return v.Tag.W
	}
	return a.newWide(v.Itv, nil, nil)
}

// isHighOf reports whether the word v is the high word of W.
func isHighOf(v *Int, w *Wide) bool {
	if v.Tag != nil && v.Tag.Kind == tagHi && v.Tag.W == w {
		return true
	}
	// W < 2^64 has the high word 0
	return w.Itv.Hi.Cmp(two64) < 0 && w.Itv.Lo.Sign() >= 0 && v.Itv.IsConst(0)
}

// clip64 is the interval of (x mod 2^64) for x in i: exact if i fits.
func clip64(i Itv) Itv {
	if i.Lo.Sign() >= 0 && i.Hi.Cmp(two64) < 0 {
		return i
	}
	return Itv{bigZero, max64}
}

// used reports whether component idx of a tuple-valued call is consumed.
func tupleComponentUsed(call *ssa.Call, idx int) bool {
	refs := call.Referrers()
	if refs == nil {
		return false
	}
	for _, r := range *refs {
		if ex, ok := r.(*ssa.Extract); ok && ex.Index == idx {
			if rr := ex.Referrers(); rr != nil {
				for _, u := range *rr {
					if _, dbg := u.(*ssa.DebugRef); !dbg {
						return true
					}
				}
			}
		}
	}
	return false
}

// mul64 models hi, lo := bits.Mul64(x, y).
func (a *Analyzer) mul64(fr *frame, call *ssa.Call, x, y *Int) Value {
	w := a.newWide(x.Itv.Mul(y.Itv), nil, nil)
	hi := &Int{Itv: clip64(w.Itv.Shr(64, 64)), Tag: &wideTag{W: w, Kind: tagHi}}
	lo := &Int{Itv: clip64(w.Itv), Tag: &wideTag{W: w, Kind: tagLo}}
	if !tupleComponentUsed(call, 0) {
		o := a.obligation(fr, call, ClsWide, "hi", "discarded bits.Mul64 high word is zero (product < 2^64)")
		ok := w.Itv.Hi.Cmp(two64) < 0
		o.observe(w.Itv, ok)
		if !ok && a.record {
			o.fail("the product " + w.Itv.String() + " may exceed 2^64 but its high word is discarded")
		}
	}
	return &Tuple{[]Value{hi, lo}}
}

// add64 models sum, carryOut := bits.Add64(x, y, c).
func (a *Analyzer) add64(fr *frame, call *ssa.Call, x, y, c *Int) Value {
	carryUsed := tupleComponentUsed(call, 1)

	// low half of a 128-bit addition: carry-in is the constant 0
	if c.Itv.IsConst(0) {
		wx, wy := a.wideOfLow(x), a.wideOfLow(y)
		w := a.newWide(wx.Itv.Add(wy.Itv), wx, wy)
		s := x.Itv.Add(y.Itv)
		sum := &Int{Itv: clip64(s), Tag: &wideTag{W: w, Kind: tagLo}}
		carry := &Int{Itv: s.Shr(64, 64), Tag: &wideTag{W: w, Kind: tagCarry}}
		if !carryUsed {
			o := a.obligation(fr, call, ClsWide, "carry", "discarded bits.Add64 carry is zero (sum < 2^64)")
			ok := s.Hi.Cmp(two64) < 0
			o.observe(s, ok)
			if !ok && a.record {
				o.fail("the sum " + s.String() + " may exceed 2^64 but the carry is discarded")
			}
		}
		return &Tuple{[]Value{sum, carry}}
	}

	// high half: carry-in is the carry of the low half of W = a+b and the
	// operands are the high words of a and b
	if c.Tag != nil && c.Tag.Kind == tagCarry {
		w := c.Tag.W
		if w.a != nil && w.b != nil &&
			((isHighOf(x, w.a) && isHighOf(y, w.b)) || (isHighOf(x, w.b) && isHighOf(y, w.a))) {
			fits := w.Itv.Lo.Sign() >= 0 && w.Itv.Hi.Cmp(two128) < 0
			hiItv := Itv{bigZero, max64}
			if fits {
				hiItv = w.Itv.Shr(64, 64)
			}
			sum := &Int{Itv: hiItv, Tag: &wideTag{W: w, Kind: tagHi}}
			carry := &Int{Itv: w.Itv.Shr(128, 128)}
			if !carryUsed {
				o := a.obligation(fr, call, ClsWide, "carry", "discarded final carry of the 128-bit addition is zero (W < 2^128)")
				o.observe(w.Itv, fits)
				if !fits && a.record {
					o.fail("the 128-bit accumulator " + w.Itv.String() + " may exceed 2^128 but the final carry is discarded")
				}
			}
			a.idiomSite(idiomWidePair, fr, call)
			return &Tuple{[]Value{sum, carry}}
		}
	}

	// generic word semantics
	s := x.Itv.Add(y.Itv).Add(c.Itv)
	sum := &Int{Itv: clip64(s)}
	carry := &Int{Itv: s.Shr(64, 64)}
	if !carryUsed {
		o := a.obligation(fr, call, ClsWide, "carry", "discarded bits.Add64 carry is zero (sum < 2^64)")
		ok := s.Hi.Cmp(two64) < 0
		o.observe(s, ok)
		if !ok && a.record {
			o.fail("the sum " + s.String() + " may exceed 2^64 but the carry is discarded (operands are not a recognised (hi,lo) pair)")
		}
	}
	return &Tuple{[]Value{sum, carry}}
}

// widePairValues builds the two tagged words (lo, hi) of a fresh wide
// quantity with the given interval: used to state pre-conditions on
// {lo,hi}-structured inputs such as MontgomeryReduce's limbs.
func (a *Analyzer) widePairValues(i Itv) (lo, hi *Int) {
	w := a.newWide(i, nil, nil)
	lo = &Int{Itv: clip64(i), Tag: &wideTag{W: w, Kind: tagLo}}
	hi = &Int{Itv: clip64(i.Shr(64, 64)), Tag: &wideTag{W: w, Kind: tagHi}}
	return
}

// wideOf returns the wide quantity a word belongs to, if any.
func wideOf(v Value) (*Wide, tagKind) {
	if i, ok := v.(*Int); ok && i.Tag != nil {
		return i.Tag.W, i.Tag.Kind
	}
	return nil, 0
}
