package erange

import (
	"fmt"
	"go/constant"
	"go/token"
	"go/types"
	"math/big"
	"os"
	"sort"
	"strings"

	"golang.org/x/tools/go/ssa"

	"voicheck/load"
)

// Bounds of the interpreter.  Exceeding any of them leaves the entry point
// UNDECIDED, which the drivers report as a failure (never as a pass).
const (
	DefaultMaxDepth    = 8     // inlining depth (DESIGN asks for >= 3)
	DefaultUnrollLimit = 1200  // visits of one loop head on one path
	DefaultMaxPaths    = 20000 // paths per entry point
	widenAfter         = 3     // visits of a data-dependent loop head before widening
	initStepBudget     = 3_000_000
	joinWidenAfter     = 4 // join mode: updates of a loop head before widening
)

// Analyzer interprets functions of one loaded configuration.
type Analyzer struct {
	P     *load.Program
	sizes types.Sizes

	MaxDepth, UnrollLimit, MaxPaths int

	// Stage B switches (see stageb.go): by-type heap summaries, joining at
	// loop heads and function returns instead of path enumeration, havoc
	// instead of failure at calls that leave the analysed scope.
	heap          *typeHeap
	objType       map[int]types.Type
	ptrTypes      map[types.Type]bool
	JoinLoops     bool
	ExternalHavoc bool
	notes         map[string]int // soundly over-approximated constructs, counted

	// MergeContexts makes one obligation per (entry point, instruction)
	// instead of one per (entry point, inlining context, instruction).
	MergeContexts bool

	// Intercept, when set, may replace the interpretation of a call to a
	// function with a body (Stage B summarises the field primitives).
	Intercept func(a *Analyzer, fr *frame, call *ssa.Call, fn *ssa.Function, args []Value, mem *Memory) ([]result, bool)

	// InScope, when set, restricts inlining to the functions it accepts.
	InScope func(fn *ssa.Function) bool

	objIDs   map[string]int
	base     map[int]Value // initial contents of package-level variables
	initDone map[*ssa.Package]bool
	fnInfos  map[*ssa.Function]*fnInfo

	// state of the entry point being analysed
	entry      string
	record     bool // record obligations and failures
	lenient    bool // package initialisation: unknown operations yield top silently
	obls       map[string]*Obligation
	oblOrder   []*Obligation
	undecided  []string
	undSeen    map[string]bool
	idiomSites map[string]map[string]bool // structural idioms (wide pair, wide shift): distinct sites
	inlined    map[string]int
	summarised map[string]int
	paths      int
	steps      int
	wideSeq    int
	aborted    bool
}

// NewAnalyzer creates an analyzer for a loaded configuration.
func NewAnalyzer(p *load.Program) *Analyzer {
	a := &Analyzer{P: p, MaxDepth: DefaultMaxDepth, UnrollLimit: DefaultUnrollLimit, MaxPaths: DefaultMaxPaths,
		objIDs: map[string]int{}, base: map[int]Value{}, initDone: map[*ssa.Package]bool{}, fnInfos: map[*ssa.Function]*fnInfo{},
		objType: map[int]types.Type{}, ptrTypes: map[types.Type]bool{}, notes: map[string]int{}}
	for _, pk := range p.Pkgs {
		if pk.TypesSizes != nil {
			a.sizes = pk.TypesSizes
			break
		}
	}
	if a.sizes == nil {
		a.sizes = types.SizesFor("gc", p.Cfg.GOARCH)
	}
	a.resetEntry("", false)
	return a
}

func (a *Analyzer) resetEntry(name string, record bool) {
	a.entry, a.record = name, record
	a.obls, a.oblOrder = map[string]*Obligation{}, nil
	a.undecided, a.undSeen = nil, map[string]bool{}
	a.idiomSites, a.inlined, a.summarised = map[string]map[string]bool{}, map[string]int{}, map[string]int{}
	a.paths, a.steps, a.aborted = 0, 0, false
}

// undecide records that something on the analysed paths is not modelled.
func (a *Analyzer) undecide(instr ssa.Instruction, format string, args ...any) {
	if a.lenient {
		return
	}
	msg := fmt.Sprintf(format, args...)
	if instr != nil {
		msg = fmt.Sprintf("%s in %s: %s", a.P.Pos(a.instrPos(instr)), load.FuncName(instr.Parent()), msg)
	}
	if !a.undSeen[msg] {
		a.undSeen[msg] = true
		a.undecided = append(a.undecided, msg)
	}
}

// idiomSite counts a structurally recognised idiom once per site.
func (a *Analyzer) idiomSite(name string, fr *frame, instr ssa.Instruction) {
	m := a.idiomSites[name]
	if m == nil {
		m = map[string]bool{}
		a.idiomSites[name] = m
	}
	if a.MergeContexts {
		m[fmt.Sprintf("%p", instr)] = true
	} else {
		m[fmt.Sprintf("%s|%p", fr.ctx, instr)] = true
	}
}

// objID interns an object key.
func (a *Analyzer) objID(key string) int {
	if id, ok := a.objIDs[key]; ok {
		return id
	}
	id := len(a.objIDs) + 1
	a.objIDs[key] = id
	return id
}

// ---------------------------------------------------------------------------
// frames, loops

type frame struct {
	fn    *ssa.Function
	env   map[ssa.Value]Value
	ctx   string
	depth int
	loops map[*ssa.BasicBlock]*loopRec
	info  *fnInfo

	// join mode (joinrun.go): env holds every value at its definition,
	// over the refinements that hold in the block being executed
	over map[ssa.Value]Value
}

type result struct {
	mem *Memory
	ret Value
}

type snapshot struct {
	phis []Value
	mem  *Memory
}

type loopRec struct {
	visits int
	seen   []snapshot
	forked bool // a branch inside the loop was undecided on this path
}

type fnInfo struct {
	rpo   map[*ssa.BasicBlock]int
	depth map[*ssa.BasicBlock]int // loop nesting depth
	heads map[*ssa.BasicBlock]bool
	body  map[*ssa.BasicBlock]map[*ssa.BasicBlock]bool // loop head -> blocks of its natural loop
}

func (a *Analyzer) infoOf(fn *ssa.Function) *fnInfo {
	if fi := a.fnInfos[fn]; fi != nil {
		return fi
	}
	fi := &fnInfo{heads: map[*ssa.BasicBlock]bool{}, body: map[*ssa.BasicBlock]map[*ssa.BasicBlock]bool{}}
	for _, b := range fn.Blocks {
		for _, s := range b.Succs {
			if s.Dominates(b) { // back edge b -> s
				fi.heads[s] = true
				body := fi.body[s]
				if body == nil {
					body = map[*ssa.BasicBlock]bool{s: true}
					fi.body[s] = body
				}
				var walk func(n *ssa.BasicBlock)
				walk = func(n *ssa.BasicBlock) {
					if body[n] {
						return
					}
					body[n] = true
					for _, p := range n.Preds {
						walk(p)
					}
				}
				walk(b)
			}
		}
	}
	fi.depth = map[*ssa.BasicBlock]int{}
	for _, body := range fi.body {
		for b := range body {
			fi.depth[b]++
		}
	}
	a.fnInfos[fn] = fi
	return fi
}

func (fr *frame) clone() *frame {
	env := make(map[ssa.Value]Value, len(fr.env))
	for k, v := range fr.env {
		env[k] = v
	}
	loops := make(map[*ssa.BasicBlock]*loopRec, len(fr.loops))
	for k, v := range fr.loops {
		c := *v
		c.seen = append([]snapshot(nil), v.seen...)
		loops[k] = &c
	}
	return &frame{fn: fr.fn, env: env, ctx: fr.ctx, depth: fr.depth, loops: loops, info: fr.info}
}

// markForked notes an undecided branch in block b for every enclosing loop.
func (fr *frame) markForked(b *ssa.BasicBlock) {
	for h, rec := range fr.loops {
		if fr.info.body[h][b] {
			rec.forked = true
		}
	}
}

// ---------------------------------------------------------------------------
// operand evaluation

func (a *Analyzer) val(fr *frame, v ssa.Value) Value {
	switch v := v.(type) {
	case *ssa.Const:
		return a.constValue(v)
	case *ssa.Global:
		if a.heap != nil {
			// Stage B: package-level variables are by-type memory (their
			// initialisers are analysed as entry points); a variable that is
			// itself an Element has its own summary
			return &Ptr{Sum: "var " + strings.ReplaceAll(v.String(), load.Module+"/", "")}
		}
		if v.Pkg != nil && load.IsModule(v.Pkg.Pkg) {
			a.ensureInit(v.Pkg)
		}
		id := a.objID("global:" + v.String())
		if _, ok := a.objType[id]; !ok {
			a.objType[id] = v.Type().(*types.Pointer).Elem()
		}
		return &Ptr{Obj: id}
	case *ssa.Function:
		return &Fn{F: v}
	case *ssa.Builtin:
		return opaque("builtin")
	}
	if fr.over != nil {
		if x, ok := fr.over[v]; ok && x != nil {
			return x
		}
	}
	if x, ok := fr.env[v]; ok && x != nil {
		return x
	}
	a.undecide(nil, "value %s of %s has no abstract value", v.Name(), load.FuncName(fr.fn))
	return topValue(v.Type(), a.sizes)
}

func (a *Analyzer) constValue(c *ssa.Const) Value {
	if c.Value == nil {
		return zeroValue(c.Type())
	}
	switch c.Value.Kind() {
	case constant.Bool:
		if constant.BoolVal(c.Value) {
			return constInt(1)
		}
		return constInt(0)
	case constant.Int:
		if _, ok := intInfoOf(c.Type(), a.sizes); !ok {
			return opaque("non-integer constant")
		}
		switch x := constant.Val(c.Value).(type) {
		case int64:
			return mkInt(single(big.NewInt(x)))
		case *big.Int:
			return mkInt(single(new(big.Int).Set(x)))
		}
	case constant.String:
		return &Opaque{NonNil: true, Why: "string"}
	}
	return opaque("constant")
}

// ---------------------------------------------------------------------------
// execution

// callFn interprets fn on the given arguments and returns one result per
// path that returns normally.
func (a *Analyzer) callFn(fn *ssa.Function, args, bind []Value, mem *Memory, ctx string, depth int) []result {
	fr := &frame{fn: fn, env: make(map[ssa.Value]Value, 64), ctx: ctx, depth: depth,
		loops: map[*ssa.BasicBlock]*loopRec{}, info: a.infoOf(fn)}
	for i, p := range fn.Params {
		if i < len(args) {
			fr.env[p] = args[i]
		}
	}
	for i, fv := range fn.FreeVars {
		if i < len(bind) {
			fr.env[fv] = bind[i]
		}
	}
	if a.JoinLoops {
		return a.runJoin(fr, mem)
	}
	return a.run(fr, fn.Blocks[0], nil, 0, mem)
}

// run executes from instruction idx of block b (entered from pred when
// idx == 0) until the function returns, forking on undecided branches and on
// callees with several results.
func (a *Analyzer) run(fr *frame, b, pred *ssa.BasicBlock, idx int, mem *Memory) []result {
	var out []result
	for {
		if a.aborted {
			return out
		}
		if idx == 0 && !a.enterBlock(fr, b, pred, mem) {
			return out
		}
		var next *ssa.BasicBlock
	instrs:
		for i := idx; i < len(b.Instrs); i++ {
			a.steps++
			if a.lenient && a.steps > initStepBudget {
				a.aborted = true
				return out
			}
			switch in := b.Instrs[i].(type) {
			case *ssa.Phi:
				// bound by enterBlock
			case *ssa.Call:
				rs := a.doCall(fr, in, mem)
				if len(rs) == 0 {
					return out // every path through the callee panics
				}
				for _, r := range rs[1:] {
					if !a.countPath(in) {
						return out
					}
					f2 := fr.clone()
					f2.env[in] = r.ret
					out = append(out, a.run(f2, b, pred, i+1, r.mem)...)
				}
				fr.env[in] = rs[0].ret
				mem = rs[0].mem
			case *ssa.Jump:
				next = b.Succs[0]
				break instrs
			case *ssa.If:
				c, _ := a.val(fr, in.Cond).(*Int)
				switch {
				case c != nil && c.Itv.IsConst(1):
					next = b.Succs[0]
				case c != nil && c.Itv.IsConst(0):
					next = b.Succs[1]
				default:
					fr.markForked(b)
					if !a.countPath(in) {
						return out
					}
					f2, m2 := fr.clone(), mem.clone()
					if a.refine(f2, in.Cond, true) {
						out = append(out, a.run(f2, b.Succs[0], b, 0, m2)...)
					}
					if !a.refine(fr, in.Cond, false) {
						return out
					}
					next = b.Succs[1]
				}
				break instrs
			case *ssa.Return:
				var ret Value
				switch len(in.Results) {
				case 0:
				case 1:
					ret = a.val(fr, in.Results[0])
				default:
					el := make([]Value, len(in.Results))
					for j, r := range in.Results {
						el[j] = a.val(fr, r)
					}
					ret = &Tuple{el}
				}
				return append(out, result{mem, ret})
			case *ssa.Panic:
				return out
			default:
				a.step(fr, b.Instrs[i], mem)
			}
		}
		if next == nil {
			a.undecide(nil, "block %d of %s has no terminator", b.Index, load.FuncName(fr.fn))
			return out
		}
		pred, b, idx = b, next, 0
	}
}

func (a *Analyzer) countPath(at ssa.Instruction) bool {
	a.paths++
	if a.paths > a.MaxPaths {
		if !a.aborted {
			a.undecide(at, "more than %d paths: analysis abandoned", a.MaxPaths)
		}
		a.aborted = true
		return false
	}
	return true
}

// enterBlock binds the phis of b for the edge pred->b and applies the loop
// discipline at loop heads.  It returns false when the path is covered by a
// state explored before (or abandoned).
func (a *Analyzer) enterBlock(fr *frame, b, pred *ssa.BasicBlock, mem *Memory) bool {
	var phis []*ssa.Phi
	var vals []Value
	if pred != nil {
		edge := -1
		for i, p := range b.Preds {
			if p == pred {
				edge = i
				break
			}
		}
		for _, in := range b.Instrs {
			phi, ok := in.(*ssa.Phi)
			if !ok {
				break
			}
			phis = append(phis, phi)
			if edge < 0 {
				vals = append(vals, topValue(phi.Type(), a.sizes))
			} else {
				vals = append(vals, a.val(fr, phi.Edges[edge]))
			}
		}
	}
	if fr.info.heads[b] {
		rec := fr.loops[b]
		if rec == nil {
			rec = &loopRec{}
			fr.loops[b] = rec
		}
		for _, s := range rec.seen {
			if leqSnapshot(vals, mem, s) {
				return false // covered by an explored state: inductive
			}
		}
		rec.visits++
		if rec.visits > a.UnrollLimit {
			a.undecide(b.Instrs[0], "loop head visited more than %d times without reaching a covered state", a.UnrollLimit)
			return false
		}
		if rec.forked && rec.visits > widenAfter && len(rec.seen) > 0 {
			// data-dependent trip count: widen against the join of the
			// explored states and explore the widened state instead
			prev := rec.seen[len(rec.seen)-1]
			for i := range vals {
				vals[i] = widenValue(prev.phis[i], vals[i], widenLimit)
			}
			for k, v := range mem.cells {
				if old, ok := prev.mem.root(k); ok {
					mem.cells[k] = widenValue(old, v, widenLimit)
				}
			}
		}
		rec.seen = append(rec.seen, snapshot{phis: append([]Value(nil), vals...), mem: mem.clone()})
	}
	for i, phi := range phis {
		fr.env[phi] = vals[i]
	}
	return true
}

var widenLimit = Itv{new(big.Int).Neg(pow2(63)), pow2m1(64)}

var traceLoops = os.Getenv("VOI_ERANGE_TRACE") != ""

func debugValue(v Value) string {
	switch x := v.(type) {
	case *Int:
		return x.Itv.String()
	case *Ptr:
		return fmt.Sprintf("&obj%d%v~%s", x.Obj, x.Path, x.Sum)
	case *Slice:
		return fmt.Sprintf("slice{arr=%v off=%s len=%s}", x.Arr, x.Off, x.Len)
	case *Agg:
		s := fmt.Sprintf("agg[%d]{", len(x.Elems))
		for i, e := range x.Elems {
			if i > 3 {
				s += "..."
				break
			}
			s += debugValue(e) + ","
		}
		return s + "}"
	case *Opaque:
		return "opaque(" + x.Why + ")"
	case nil:
		return "nil"
	}
	return v.kind()
}

func leqSnapshot(vals []Value, mem *Memory, s snapshot) bool {
	if len(vals) != len(s.phis) {
		return false
	}
	for i := range vals {
		if !leqValue(vals[i], s.phis[i]) {
			return false
		}
	}
	return leqMemory(mem, s.mem)
}

// ---------------------------------------------------------------------------
// branch refinement

// refine narrows the operands of a comparison on the branch where cond has
// the given truth value.  It returns false if the branch is infeasible.
func (a *Analyzer) refine(fr *frame, cond ssa.Value, truth bool) bool {
	switch c := cond.(type) {
	case *ssa.UnOp:
		if c.Op == token.NOT {
			return a.refine(fr, c.X, !truth)
		}
	case *ssa.BinOp:
		op := c.Op
		if !truth {
			switch op {
			case token.EQL:
				op = token.NEQ
			case token.NEQ:
				op = token.EQL
			case token.LSS:
				op = token.GEQ
			case token.GEQ:
				op = token.LSS
			case token.GTR:
				op = token.LEQ
			case token.LEQ:
				op = token.GTR
			default:
				return true
			}
		}
		if _, ok := intInfoOf(c.X.Type(), a.sizes); !ok {
			return true
		}
		x, okx := a.val(fr, c.X).(*Int)
		y, oky := a.val(fr, c.Y).(*Int)
		if !okx || !oky {
			return true
		}
		// the comparison saw the machine words: a wrapped operand is any
		// word of its type
		if ii, ok := intInfoOf(c.X.Type(), a.sizes); ok {
			if x.wrapped() || !x.Itv.Leq(ii.rng()) {
				x = mkInt(ii.rng())
			}
			if y.wrapped() || !y.Itv.Leq(ii.rng()) {
				y = mkInt(ii.rng())
			}
		}
		xi, yi, feasible := refineCmp(op, x.Itv, y.Itv)
		if !feasible {
			return false
		}
		a.rebind(fr, c.X, x, xi)
		a.rebind(fr, c.Y, y, yi)
	}
	if _, isConst := cond.(*ssa.Const); !isConst {
		if truth {
			fr.bind(cond, constInt(1))
		} else {
			fr.bind(cond, constInt(0))
		}
	}
	return true
}

// bind records a refinement of v: path-private in path mode, valid for the
// current block state in join mode.
func (fr *frame) bind(v ssa.Value, x Value) {
	if fr.over != nil {
		fr.over[v] = x
		return
	}
	fr.env[v] = x
}

func (a *Analyzer) rebind(fr *frame, v ssa.Value, old *Int, i Itv) {
	if _, isConst := v.(*ssa.Const); isConst || i.Eq(old.Itv) {
		return
	}
	fr.bind(v, &Int{Itv: i, Tag: old.Tag})
	// len(s) refined: refine the slice value as well
	if call, ok := v.(*ssa.Call); ok {
		if bi, ok := call.Call.Value.(*ssa.Builtin); ok && bi.Name() == "len" && len(call.Call.Args) == 1 {
			arg := call.Call.Args[0]
			if _, isConst := arg.(*ssa.Const); !isConst {
				if s, ok := a.val(fr, arg).(*Slice); ok {
					if l, ok := s.Len.Meet(i); ok {
						fr.bind(arg, &Slice{Arr: s.Arr, Off: s.Off, Len: l, Sum: s.Sum})
					}
				}
			}
		}
	}
}

func refineCmp(op token.Token, x, y Itv) (Itv, Itv, bool) {
	one := bigOne
	switch op {
	case token.EQL:
		m, ok := x.Meet(y)
		return m, m, ok
	case token.NEQ:
		if x.IsSingle() && y.IsSingle() && x.Lo.Cmp(y.Lo) == 0 {
			return x, y, false
		}
		if y.IsSingle() {
			x = trimPoint(x, y.Lo)
		}
		if x.IsSingle() {
			y = trimPoint(y, x.Lo)
		}
		return x, y, true
	case token.LSS: // x < y
		xh := minBig(x.Hi, new(big.Int).Sub(y.Hi, one))
		yl := maxBig(y.Lo, new(big.Int).Add(x.Lo, one))
		if x.Lo.Cmp(xh) > 0 || yl.Cmp(y.Hi) > 0 {
			return x, y, false
		}
		return Itv{x.Lo, xh}, Itv{yl, y.Hi}, true
	case token.LEQ:
		xh := minBig(x.Hi, y.Hi)
		yl := maxBig(y.Lo, x.Lo)
		if x.Lo.Cmp(xh) > 0 || yl.Cmp(y.Hi) > 0 {
			return x, y, false
		}
		return Itv{x.Lo, xh}, Itv{yl, y.Hi}, true
	case token.GTR:
		yi, xi, ok := refineCmp(token.LSS, y, x)
		return xi, yi, ok
	case token.GEQ:
		yi, xi, ok := refineCmp(token.LEQ, y, x)
		return xi, yi, ok
	}
	return x, y, true
}

// trimPoint removes the point p from an end of the interval.
func trimPoint(x Itv, p *big.Int) Itv {
	if x.IsSingle() {
		return x
	}
	if x.Lo.Cmp(p) == 0 {
		return Itv{new(big.Int).Add(x.Lo, bigOne), x.Hi}
	}
	if x.Hi.Cmp(p) == 0 {
		return Itv{x.Lo, new(big.Int).Sub(x.Hi, bigOne)}
	}
	return x
}

// ---------------------------------------------------------------------------
// package initialisation: the contents of package-level variables

// ensureInit interprets the package initialiser of a module package (once)
// to obtain the initial contents of its variables.  It runs in lenient mode:
// nothing is recorded, unknown operations yield the full range of the type.
func (a *Analyzer) ensureInit(pkg *ssa.Package) {
	if a.initDone[pkg] {
		return
	}
	a.initDone[pkg] = true
	var names []string
	for n, m := range pkg.Members {
		if _, ok := m.(*ssa.Global); ok {
			names = append(names, n)
		}
	}
	sort.Strings(names)
	for _, n := range names {
		g := pkg.Members[n].(*ssa.Global)
		a.base[a.objID("global:"+g.String())] = zeroValue(g.Type().(*types.Pointer).Elem())
	}
	init := pkg.Func("init")
	if init == nil || len(init.Blocks) == 0 {
		return
	}
	saved := *a
	a.resetEntry("init "+pkg.Pkg.Path(), false)
	a.lenient = true
	mem := newMemory(a.base)
	var final *Memory
	func() {
		defer func() {
			if e := recover(); e != nil {
				final = nil
				a.aborted = true
			}
		}()
		for _, r := range a.callFn(init, nil, nil, mem, "init", 0) {
			final = joinMemory(final, r.mem)
		}
	}()
	aborted := a.aborted || final == nil
	// restore the per-entry state, keep the interned objects / base / caches
	objIDs, base, initDone, fnInfos, wideSeq := a.objIDs, a.base, a.initDone, a.fnInfos, a.wideSeq
	*a = saved
	a.objIDs, a.base, a.initDone, a.fnInfos, a.wideSeq = objIDs, base, initDone, fnInfos, wideSeq
	for _, n := range names {
		g := pkg.Members[n].(*ssa.Global)
		id := a.objID("global:" + g.String())
		if aborted {
			a.base[id] = topValue(g.Type().(*types.Pointer).Elem(), a.sizes)
		} else if v, ok := final.cells[id]; ok {
			a.base[id] = stripOrigins(v)
		}
	}
}

// stripOrigins removes obligation references and relational tags from a
// value taken out of its analysis (a wrapped cell becomes opaque).
func stripOrigins(v Value) Value {
	switch x := v.(type) {
	case *Int:
		if x.Org != nil {
			return opaque("wrapped during package initialisation")
		}
		if x.Tag == nil {
			return x
		}
		return &Int{Itv: x.Itv}
	case *Agg:
		el := make([]Value, len(x.Elems))
		for i, e := range x.Elems {
			el[i] = stripOrigins(e)
		}
		return &Agg{el}
	}
	return v
}

// GlobalValue returns the initial abstract contents of a package-level
// variable of a module package.
func (a *Analyzer) GlobalValue(g *ssa.Global) (Value, bool) {
	a.ensureInit(g.Pkg)
	v, ok := a.base[a.objID("global:"+g.String())]
	return v, ok
}
