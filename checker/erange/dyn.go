package erange

import (
	"fmt"
	"sort"

	"golang.org/x/tools/go/ssa"

	"voicheck/load"
)

// dynamicScopeTargets lists "caller -> callee" for every call inside the
// stage B scope that is not static (interface method, function value) and
// whose VTA call-graph target lies inside the scope, and for every call from
// outside the scope to an unexported or anonymous function of the scope.
func dynamicScopeTargets(p *load.Program) []string {
	if p.Pkg(fieldRel) == nil {
		return []string{"package " + fieldRel + " not loaded"}
	}
	fieldPkg := p.Pkg(fieldRel).Types
	scope := map[string]bool{fieldPkg.Path(): true}
	for _, pk := range p.Pkgs {
		for _, imp := range pk.Types.Imports() {
			if imp == fieldPkg {
				scope[pk.Types.Path()] = true
			}
		}
	}
	in := func(fn *ssa.Function) bool {
		pk := fn.Pkg
		if pk == nil && fn.Parent() != nil {
			pk = fn.Parent().Pkg
		}
		return pk != nil && scope[pk.Pkg.Path()]
	}
	seen := map[string]bool{}
	cg := p.CallGraph()
	for fn, node := range cg.Nodes {
		if fn == nil {
			continue
		}
		if !in(fn) {
			// a callback: code outside the scope calling an unexported or
			// anonymous function of the scope (exported ones are entry points)
			for _, e := range node.Out {
				c := e.Callee.Func
				if c != nil && in(c) && c.Synthetic == "" && (c.Object() == nil || !c.Object().Exported()) {
					seen[fmt.Sprintf("%s -> %s (callback)", load.FuncName(fn), load.FuncName(c))] = true
				}
			}
			continue
		}
		for _, e := range node.Out {
			if e.Site == nil || e.Site.Common().StaticCallee() != nil {
				continue
			}
			if _, isClosure := e.Site.Common().Value.(*ssa.MakeClosure); isClosure {
				continue
			}
			if e.Callee.Func != nil && in(e.Callee.Func) {
				seen[fmt.Sprintf("%s -> %s", load.FuncName(fn), load.FuncName(e.Callee.Func))] = true
			}
		}
	}
	var out []string
	for s := range seen {
		out = append(out, s)
	}
	sort.Strings(out)
	return out
}
