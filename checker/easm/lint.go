package easm

import (
	"fmt"
	"go/ast"
	"go/token"
	"go/types"
	"os"
	"path/filepath"
	"sort"
	"strings"

	"voicheck/load"
	"voicheck/report"
)

// Rule id suffixes; Lint(run, p, "ASM", ...) arms ASM-jump, ASM-index,
// ASM-instr and ASM-decl.
const (
	SufJump  = "-jump"
	SufIndex = "-index"
	SufInstr = "-instr"
	SufDecl  = "-decl"
)

// DefaultPublicArgs is the 1-line table of DESIGN.md E-ASM: scalar arguments
// that may control a conditional jump.  Keys are "pkg.symbol" (module-relative
// package) or the bare symbol name.
var DefaultPublicArgs = map[string][]string{
	"internal/field.fePow2k": {"k"}, // number of squarings: public by the property statement (C08 "k/w parameters are public")
}

// Expected is what a configuration must at least contain; fewer is a
// machinery failure (the lint would otherwise pass vacuously).
type Expected struct {
	Symbols   int
	CondJumps int
}

// ExpectedByConfig holds the numbers measured on the reviewed tree.
var ExpectedByConfig = map[string]Expected{
	"amd64": {Symbols: 17, CondJumps: 3},
	"f32":   {Symbols: 1, CondJumps: 0}, // keccakF1600 only
}

// Finding is one violation reported by Lint (also sent to the report.Run).
type Finding struct {
	Rule      string
	Pos       string
	Construct string
	Msg       string
}

// Counts summarises a lint run.
type Counts struct {
	Files         int
	Symbols       int
	Instructions  int
	CondJumps     int
	AdmittedJumps int
	UncondJumps   int
	MemOperands   int // every memory operand (argument slots, static, frame, pointer)
	PointerOps    int // accessed through a pointer argument
	FrameOps      int
	StaticOps     int
	ArgSlotOps    int
	Indexed       int
	Underived     int
	Forbidden     int
	Unclassified  int
	Blobs         int
	GoDecls       int
}

// Result is what the lint exports to other engines.
type Result struct {
	Cfg      string
	Files    []*File // in package/file order
	FilePkg  map[*File]string
	Symbols  []*SymbolFacts // sorted by package, then name
	Blobs    []*PkgBlob
	Counts   Counts
	Findings []Finding
	Fatal    []string // machinery failures (also sent to run.Fatal)

	// Keccak round constants of internal/strobe.keccakF1600 in order of use:
	// KeccakRC are the immediates the expanded instruction stream loads
	// (MOVQ $rc, reg), KeccakRCArgs the immediate arguments of the macro
	// invocations written in the TEXT body.  Both are nil when the
	// configuration has no assembly Keccak.
	KeccakRC     []uint64
	KeccakRCArgs []uint64
}

// PkgBlob is a DATA/GLOBL blob with its package.
type PkgBlob struct {
	Pkg string
	*Blob
}

// Symbol returns the facts of pkg.name (module-relative package), nil if absent.
func (r *Result) Symbol(pkg, name string) *SymbolFacts {
	for _, s := range r.Symbols {
		if s.Pkg == pkg && s.Name == name {
			return s
		}
	}
	return nil
}

// SymbolOf returns the facts for a Go function object that is implemented in
// assembly, nil otherwise.
func (r *Result) SymbolOf(fn *types.Func) *SymbolFacts {
	if fn == nil || fn.Pkg() == nil {
		return nil
	}
	return r.Symbol(load.Rel(fn.Pkg()), fn.Name())
}

// Blob returns the blob pkg.name (name without "<>"), nil if absent.
func (r *Result) Blob(pkg, name string) *PkgBlob {
	for _, b := range r.Blobs {
		if b.Pkg == pkg && b.Name == name {
			return b
		}
	}
	return nil
}

// Lookups returns, by symbol name, the loop of every symbol of package curve
// that consists of exactly one backward conditional jump: today the two
// table-lookup routines of window_amd64.s (lookupAffineNiels, lookupCached).
// Loop.Init/Bound/Step/Trips and Loop.Strides/Accesses let another engine
// check "visits all 8 entries with stride = entry size".
func (r *Result) Lookups() map[string]*Loop {
	out := map[string]*Loop{}
	for _, s := range r.Symbols {
		if s.Pkg == "curve" && len(s.Loops) == 1 {
			out[s.Name] = s.Loops[0]
		}
	}
	return out
}

// ---------------------------------------------------------------------------
// Go declarations

// DeclFromFunc computes the ABI0 frame layout of a Go function declaration.
func DeclFromFunc(fn *types.Func, sizes types.Sizes, pkgRel, pos string) *Decl {
	sig := fn.Type().(*types.Signature)
	d := &Decl{Pkg: pkgRel, Name: fn.Name(), Pos: pos}
	var off int64
	add := func(v *types.Var, idx int, result bool, dflt string) {
		t := v.Type()
		al := sizes.Alignof(t)
		off = (off + al - 1) / al * al
		p := Param{Name: v.Name(), Index: idx, Result: result, Offset: off, Size: sizes.Sizeof(t), Type: types.TypeString(t, func(*types.Package) string { return "" })}
		if p.Name == "" || p.Name == "_" {
			p.Name = dflt
		}
		switch u := t.Underlying().(type) {
		case *types.Pointer:
			p.Pointer, p.Kind = true, "pointer"
		case *types.Basic:
			switch {
			case u.Kind() == types.UnsafePointer:
				p.Pointer, p.Kind = true, "pointer"
			case u.Kind() == types.String:
				p.Kind = "string"
			case u.Info()&types.IsComplex != 0:
				p.Kind = "other"
			default:
				p.Kind = "basic"
			}
		case *types.Slice:
			p.Kind = "slice"
		case *types.Interface:
			p.Kind = "interface"
		case *types.Map, *types.Chan, *types.Signature:
			p.Kind = "basic" // one pointer-sized word that assembly must not dereference
		default:
			p.Kind = "other"
		}
		d.Params = append(d.Params, p)
		off += p.Size
	}
	if recv := sig.Recv(); recv != nil {
		add(recv, -1, false, "")
	}
	for i := 0; i < sig.Params().Len(); i++ {
		add(sig.Params().At(i), i, false, "")
	}
	if sig.Results().Len() > 0 {
		ptr := sizes.Sizeof(types.Typ[types.Uintptr])
		off = (off + ptr - 1) / ptr * ptr
		for i := 0; i < sig.Results().Len(); i++ {
			dflt := "ret"
			if i > 0 {
				dflt = fmt.Sprintf("ret%d", i)
			}
			add(sig.Results().At(i), i, true, dflt)
		}
	}
	d.ArgSize = off
	return d
}

// goDecls returns the body-less function declarations of a package.
func goDecls(p *load.Program, rel string) (map[string]*Decl, []string) {
	pk := p.Pkg(rel)
	sizes := types.SizesFor("gc", p.Cfg.GOARCH)
	out := map[string]*Decl{}
	var problems []string
	for _, f := range pk.Syntax {
		for _, dcl := range f.Decls {
			fd, ok := dcl.(*ast.FuncDecl)
			if !ok || fd.Body != nil {
				continue
			}
			fn, _ := pk.TypesInfo.Defs[fd.Name].(*types.Func)
			if fn == nil {
				problems = append(problems, fmt.Sprintf("%s: body-less declaration %s has no types.Func", p.Pos(fd.Pos()), fd.Name.Name))
				continue
			}
			if p.SSA != nil {
				if sf := p.SSA.FuncValue(fn); sf == nil || len(sf.Blocks) != 0 {
					problems = append(problems, fmt.Sprintf("%s: go/ssa disagrees that %s has no body", p.Pos(fd.Pos()), fd.Name.Name))
				}
			}
			out[fn.Name()] = DeclFromFunc(fn, sizes, rel, p.Pos(fd.Pos()))
		}
	}
	return out, problems
}

// ---------------------------------------------------------------------------
// Lint

func relFile(path string) string {
	return strings.TrimPrefix(path, load.RepoDir()+"/")
}

// Lint scans the assembly files of configuration p (pk.OtherFiles of every
// module package), records one obligation per (symbol, conditional jump),
// (symbol, memory-operand class: "index" and "base") and (symbol,
// symbol-level rule) in run under the rules ruleID+"-jump", "-index",
// "-instr", "-decl", and returns the derived facts.  publicArgs designates,
// per symbol ("pkg.symbol" or bare symbol name), the scalar arguments that
// may control a conditional jump (nil = DefaultPublicArgs).
//
// The rules are declared with expected_min 0 unless the caller declared them
// before (run.Rule returns the existing rule); vacuity is guarded here per
// configuration through ExpectedByConfig (fewer symbols/jumps than confirmed
// by hand is a machinery failure).  Scanner errors, malformed DATA blobs,
// undefined labels and analysis panics are machinery failures (run.Fatal);
// they are also listed in Result.Fatal.
//
// The caller is expected to have called run.SetConfig(p.Cfg.ID).
func Lint(run *report.Run, p *load.Program, ruleID string, publicArgs map[string][]string) *Result {
	return LintWith(run, p, ruleID, publicArgs, Opts{})
}

// Opts are optional settings of LintWith.
type Opts struct {
	// Overlay replaces the content of assembly files (absolute file name ->
	// content), exactly like load.Opts.Overlay does for Go files; it is how
	// in-memory seeded mutants of a .s file are linted.
	Overlay map[string][]byte
}

// LintWith is Lint with options.
func LintWith(run *report.Run, p *load.Program, ruleID string, publicArgs map[string][]string, o Opts) (res *Result) {
	if publicArgs == nil {
		publicArgs = DefaultPublicArgs
	}
	res = &Result{Cfg: p.Cfg.ID, FilePkg: map[*File]string{}}
	fatal := func(format string, a ...any) {
		msg := fmt.Sprintf("[%s] E-ASM: ", p.Cfg.ID) + fmt.Sprintf(format, a...)
		res.Fatal = append(res.Fatal, msg)
		run.Fatal("%s", msg)
	}
	defer func() {
		if r := recover(); r != nil {
			fatal("analysis panicked: %v", r)
		}
	}()
	l := newLinter(run, res, ruleID, publicArgs)

	for _, pk := range p.Pkgs {
		rel := load.Rel(pk.Types)
		decls, problems := goDecls(p, rel)
		for _, pr := range problems {
			fatal("%s", pr)
		}
		res.Counts.GoDecls += len(decls)
		var syms []*Symbol
		var sfiles []string
		for _, of := range pk.OtherFiles {
			if strings.HasSuffix(of, ".s") {
				sfiles = append(sfiles, of)
			}
		}
		sort.Strings(sfiles)
		for _, path := range sfiles {
			src, ok := o.Overlay[path]
			var err error
			if !ok {
				src, err = os.ReadFile(path)
			}
			if err != nil {
				fatal("cannot read %s: %v", path, err)
				continue
			}
			f, err := ParseFile(relFile(path), src)
			if err != nil {
				fatal("cannot scan %s:\n%v", relFile(path), err)
			}
			if f == nil {
				continue
			}
			res.Files = append(res.Files, f)
			res.FilePkg[f] = rel
			syms = append(syms, f.Symbols...)
			for _, b := range f.Blobs {
				res.Blobs = append(res.Blobs, &PkgBlob{rel, b})
				for _, e := range b.Errors {
					fatal("%s: DATA/GLOBL %s: %s", f.Name, b.Name, e)
				}
			}
		}
		l.pkg(rel, syms, decls)
	}
	sort.SliceStable(res.Symbols, func(i, j int) bool {
		a, b := res.Symbols[i], res.Symbols[j]
		if a.Pkg != b.Pkg {
			return a.Pkg < b.Pkg
		}
		return a.Name < b.Name
	})
	res.Counts.Files = len(res.Files)
	res.Counts.Blobs = len(res.Blobs)

	// Keccak round constants
	if sf := res.Symbol("internal/strobe", "keccakF1600"); sf != nil {
		res.KeccakRC = sf.MovImmediates()
		for f, rel := range res.FilePkg {
			if rel != "internal/strobe" {
				continue
			}
			for _, u := range f.MacroUses {
				if u.Depth == 0 && u.Symbol == "keccakF1600" {
					for _, im := range u.ImmArgs {
						res.KeccakRCArgs = append(res.KeccakRCArgs, im.Value)
					}
				}
			}
		}
	}

	if exp, ok := ExpectedByConfig[p.Cfg.ID]; ok {
		if res.Counts.Symbols < exp.Symbols {
			fatal("only %d TEXT symbols found, %d were confirmed by hand: the front end no longer sees the assembly", res.Counts.Symbols, exp.Symbols)
		}
		if res.Counts.CondJumps < exp.CondJumps {
			fatal("only %d conditional jumps found, %d were confirmed by hand", res.Counts.CondJumps, exp.CondJumps)
		}
	}
	for _, sf := range res.Symbols {
		if len(run_samples(sf)) > 0 {
			run.Sample(run_samples(sf))
		}
	}
	return res
}

// run_samples renders the non-trivial obligations of a symbol for the evidence file.
func run_samples(sf *SymbolFacts) map[string]any {
	if len(sf.Jumps) == 0 {
		return nil
	}
	var js []string
	for _, j := range sf.Jumps {
		set := ""
		if len(j.Setters) > 0 {
			set = j.Setters[0].Text
		}
		js = append(js, fmt.Sprintf("line %d: %s; %s %s controlled by %s %v", j.Line, set, j.Mnemonic, j.Target, j.Class, j.Args))
	}
	return map[string]any{"asm_symbol": sf.QualifiedName(), "conditional_jumps": js, "writes": sf.Writes, "reads": sf.Reads}
}

type linter struct {
	run        *report.Run
	res        *Result
	publicArgs map[string][]string
	jump       *report.Rule
	index      *report.Rule
	instr      *report.Rule
	decl       *report.Rule
	cur        *SymbolFacts // symbol being linted (its Violations counter is bumped by fail)
}

func newLinter(run *report.Run, res *Result, ruleID string, publicArgs map[string][]string) *linter {
	return &linter{run: run, res: res, publicArgs: publicArgs,
		jump:  run.Rule(ruleID+SufJump, "assembly: every conditional jump is controlled only by immediates, immediate steps of such, or public scalar arguments", 0),
		index: run.Rule(ruleID+SufIndex, "assembly: no memory operand has an index register; every base derives from a pointer argument, SB or SP plus immediates", 0),
		instr: run.Rule(ruleID+SufInstr, "assembly: no DIV/IDIV, CALL, RDRAND/RDSEED/RDTSC/CPUID, REP string operation, indirect or table jump, unclassified instruction", 0),
		decl:  run.Rule(ruleID+SufDecl, "assembly: TEXT symbols and body-less Go declarations correspond one to one; frame slots agree with the declaration", 0),
	}
}

func (l *linter) fail(ru *report.Rule, pos, construct, msg string, detail any) {
	if l.cur != nil {
		l.cur.Violations++
	}
	l.res.Findings = append(l.res.Findings, Finding{ru.ID, pos, construct, msg})
	ru.Fail(pos, construct, msg, detail)
}

func (l *linter) isPublic(sf *SymbolFacts, arg string) bool {
	for _, key := range []string{sf.QualifiedName(), sf.Name} {
		for _, a := range l.publicArgs[key] {
			if a == arg {
				return true
			}
		}
	}
	return false
}

// pkg lints the symbols of one package against its body-less declarations.
func (l *linter) pkg(rel string, syms []*Symbol, decls map[string]*Decl) {
	seen := map[string]bool{}
	for _, sym := range syms {
		d := decls[sym.Name]
		sf := Analyze(sym, d)
		sf.Pkg = rel
		l.res.Symbols = append(l.res.Symbols, sf)
		name := sf.QualifiedName()
		l.cur = sf
		if seen[sym.Name] {
			l.fail(l.decl, sf.Pos, name, "TEXT symbol defined twice in the package", nil)
		}
		seen[sym.Name] = true
		l.symbol(sf)
		l.cur = nil
	}
	var names []string
	for n := range decls {
		names = append(names, n)
	}
	sort.Strings(names)
	for _, n := range names {
		if !seen[n] {
			l.fail(l.decl, decls[n].Pos, rel+"."+n, "body-less Go declaration without a TEXT symbol in the assembly files of this configuration", nil)
		}
	}
}

const maxPerClass = 8

func (l *linter) symbol(sf *SymbolFacts) {
	c := &l.res.Counts
	name := sf.QualifiedName()
	file := sf.Sym.File
	at := func(line int) string { return fmt.Sprintf("%s:%d", file, line) }
	c.Symbols++
	c.Instructions += sf.Instructions
	c.UncondJumps += sf.UncondJumps
	for _, e := range sf.Errors {
		sf.Violations++
		msg := fmt.Sprintf("[%s] E-ASM: %s %s: %s", l.res.Cfg, file, name, e)
		l.res.Fatal = append(l.res.Fatal, msg)
		l.run.Fatal("%s", msg)
	}

	// (a) conditional jumps
	for _, j := range sf.Jumps {
		c.CondJumps++
		construct := fmt.Sprintf("%s %s#%d", name, j.Mnemonic, j.Ordinal)
		var why []string
		why = append(why, j.Problems...)
		for _, ctl := range j.Controls {
			switch ctl.Class {
			case ValImm, ValImmStep:
			case ValArg:
				for _, a := range ctl.Args {
					if !l.isPublic(sf, a) {
						why = append(why, fmt.Sprintf("%s is loaded from argument %s, which is not designated public", ctl.What, a))
					}
				}
				if len(ctl.Args) == 0 {
					why = append(why, fmt.Sprintf("%s: argument slot without a name", ctl.What))
				}
			case ValMem:
				src := ""
				if len(ctl.Loads) > 0 {
					src = " [" + strings.Join(ctl.Loads, "; ") + "]"
				}
				why = append(why, fmt.Sprintf("%s is data dependent: it derives from memory loaded through a pointer%s", ctl.What, src))
			default:
				why = append(why, fmt.Sprintf("%s has an origin the rule does not admit (%s)", ctl.What, ctl.Why))
			}
		}
		if len(j.Controls) == 0 && len(j.Problems) == 0 {
			why = append(why, "no controlling register found")
		}
		if len(why) == 0 {
			c.AdmittedJumps++
			l.jump.OK(construct)
			continue
		}
		set := "?"
		if len(j.Setters) > 0 {
			set = j.Setters[0].Text
		}
		l.fail(l.jump, at(j.Line), construct, fmt.Sprintf("conditional jump %s %s after %q: %s", j.Mnemonic, j.Target, set, strings.Join(why, "; ")), j)
	}

	// (b) memory operands: one obligation for "no index register", one for "bases derive from pointer arguments/SB/SP"
	for _, m := range sf.MemOps {
		c.MemOperands++
		switch m.Class {
		case "pointer":
			c.PointerOps++
		case "frame":
			c.FrameOps++
		case "static":
			c.StaticOps++
		case "arg-slot":
			c.ArgSlotOps++
		}
	}
	c.Indexed += len(sf.Indexed)
	c.Underived += len(sf.Underived)
	if len(sf.Indexed) == 0 {
		l.index.OK(name + " index")
	}
	for i, m := range sf.Indexed {
		if i == maxPerClass {
			break
		}
		l.fail(l.index, at(m.Line), name+" index", fmt.Sprintf("%s of %s uses index register %s (scale %d) in %q", m.Access, m.Operand, m.Index, m.Scale, m.Inst), m)
	}
	if len(sf.Underived) == 0 {
		l.index.OK(name + " base")
	}
	for i, m := range sf.Underived {
		if i == maxPerClass {
			break
		}
		l.fail(l.index, at(m.Line), name+" base", fmt.Sprintf("%s of %s in %q: base %s does not derive from a pointer argument, SB or SP (%s)", m.Access, m.Operand, m.Inst, m.Base, strings.Join(m.BadDefs, "; ")), m)
	}

	// (c) instructions
	c.Forbidden += len(sf.Forbidden)
	c.Unclassified += len(sf.Unclassified)
	if len(sf.Forbidden)+len(sf.Unclassified) == 0 {
		l.instr.OK(name)
	}
	for i, n := range sf.Forbidden {
		if i == maxPerClass {
			break
		}
		l.fail(l.instr, at(n.Line), name, fmt.Sprintf("forbidden instruction %q: %s", n.Inst, n.Reason), n)
	}
	for i, n := range sf.Unclassified {
		if i == maxPerClass {
			break
		}
		l.fail(l.instr, at(n.Line), name, fmt.Sprintf("instruction %q cannot be judged: %s", n.Inst, n.Reason), n)
	}

	// (d) declaration
	switch {
	case sf.Decl == nil:
		l.fail(l.decl, sf.Pos, name, "TEXT symbol without a body-less Go declaration in its package (parameter roles unknown)", nil)
	case len(sf.SlotErrors) > 0:
		for i, e := range sf.SlotErrors {
			if i == maxPerClass {
				break
			}
			l.fail(l.decl, at(e.Line), name, "frame layout disagrees with the Go declaration at "+sf.Decl.Pos+": "+e.Msg, nil)
		}
	default:
		l.decl.OK(name)
	}
}

// ---------------------------------------------------------------------------
// Stand-alone use (positive control, tests, debugging)

// LintSource lints assembly text against the body-less function declarations
// of a Go source text (one package, no imports needed).  Nothing is read
// from disk.  It is the entry point of the positive control.
func LintSource(run *report.Run, ruleID, pkgRel, asmName string, asmSrc []byte, goSrc string, publicArgs map[string][]string) (*Result, error) {
	res := &Result{Cfg: run.Config(), FilePkg: map[*File]string{}}
	decls, err := DeclsFromSource(pkgRel, goSrc)
	if err != nil {
		return nil, err
	}
	f, err := ParseFile(asmName, asmSrc)
	if err != nil {
		return nil, err
	}
	res.Files = append(res.Files, f)
	res.FilePkg[f] = pkgRel
	for _, b := range f.Blobs {
		res.Blobs = append(res.Blobs, &PkgBlob{pkgRel, b})
	}
	if publicArgs == nil {
		publicArgs = map[string][]string{}
	}
	l := newLinter(run, res, ruleID, publicArgs)
	l.pkg(pkgRel, f.Symbols, decls)
	res.Counts.Files = 1
	res.Counts.Blobs = len(res.Blobs)
	res.Counts.GoDecls = len(decls)
	return res, nil
}

// DeclsFromSource type-checks a self-contained Go source (no imports other
// than "unsafe") and returns the amd64 frame layout of its body-less
// function declarations.
func DeclsFromSource(pkgRel, goSrc string) (map[string]*Decl, error) {
	fset := token.NewFileSet()
	file, err := parseGo(fset, goSrc)
	if err != nil {
		return nil, err
	}
	info := &types.Info{Defs: map[*ast.Ident]types.Object{}}
	conf := types.Config{Importer: nil, Sizes: types.SizesFor("gc", "amd64")}
	if _, err := conf.Check(filepath.Base(pkgRel), fset, []*ast.File{file}, info); err != nil {
		return nil, err
	}
	out := map[string]*Decl{}
	for _, dcl := range file.Decls {
		fd, ok := dcl.(*ast.FuncDecl)
		if !ok || fd.Body != nil {
			continue
		}
		fn := info.Defs[fd.Name].(*types.Func)
		ps := fset.Position(fd.Pos())
		out[fn.Name()] = DeclFromFunc(fn, conf.Sizes, pkgRel, fmt.Sprintf("%s:%d", ps.Filename, ps.Line))
	}
	return out, nil
}
