// Package easm is the Go-assembly (Plan 9 syntax, amd64) front end and lint
// of DESIGN.md §2.2 / engine E-ASM.
//
// It never assembles or runs anything: it reads the text of the `.s` files
// that a build configuration selects (packages.Package.OtherFiles), runs a
// small C-style preprocessor over it (#define with and without parameters,
// #undef, #ifdef, line continuations, both comment styles), splits the result
// into TEXT symbols, instructions, labels and DATA/GLOBL blobs, and derives
// dataflow facts per symbol (facts.go).  lint.go turns those facts into
// obligations of the constant-time rules and exports them to other engines.
//
// Operand order is Plan 9: sources first, destination last.
package easm

import (
	"fmt"
	"sort"
	"strconv"
	"strings"
	"unicode/utf8"
)

// ---------------------------------------------------------------------------
// Syntax tree

// OpKind is the syntactic kind of an operand.
type OpKind int

const (
	OpImm     OpKind = iota // $expr
	OpImmAddr               // $sym+off(SB): address of a static symbol
	OpReg                   // AX, R8, X3, Y11 ...
	OpMem                   // off(base), off(base)(index*scale), (index*scale), name-8(SP)
	OpStatic                // sym<>+off(SB), optionally with (index*scale)
	OpFP                    // name+off(FP): argument / result slot
	OpLabel                 // bare identifier: jump target
	OpPCRel                 // n(PC)
	OpString                // $"..." (DATA only)
	OpFloat                 // $1.5 (DATA only; value not interpreted)
)

func (k OpKind) String() string {
	return [...]string{"imm", "immaddr", "reg", "mem", "static", "fp", "label", "pcrel", "string", "float"}[k]
}

// Operand is one parsed operand.
type Operand struct {
	Kind   OpKind
	Text   string // operand text after macro expansion, whitespace-normalised
	Imm    uint64 // OpImm: value (two's complement for negatives)
	Reg    string // OpReg: canonical register (AL -> AX, X3/Y3/Z3 -> V3)
	RegRaw string // OpReg: register as written
	Base   string // OpMem: canonical base register ("" if none); "SP" for stack slots
	Index  string // OpMem/OpStatic: canonical index register ("" if none)
	IdxRaw string // index register as written (X/Y/Z for gathers)
	Scale  int    // index scale (0 if no index)
	Off    int64  // OpMem/OpStatic/OpFP/OpImmAddr/OpPCRel: displacement
	Sym    string // OpStatic/OpImmAddr: symbol ("name<>" if file-local); OpFP: slot name; OpLabel: label; OpMem on SP: slot name
	Str    string // OpString: bytes
}

// Int returns an immediate as a signed number.
func (o *Operand) Int() int64 { return int64(o.Imm) }

// Inst is one instruction of a TEXT symbol (after macro expansion).
type Inst struct {
	Index    int       // position in Symbol.Insts
	Line     int       // line of the statement in the file (for expansions: the line of the outermost macro use)
	Mnemonic string    // upper-case mnemonic as written
	Ops      []Operand // Plan 9 order: sources first, destination last
	Labels   []string  // labels attached immediately before this instruction
	Macro    string    // outermost macro this instruction was expanded from ("" if written directly)
	MacroSeq int       // ordinal of the instruction inside that expansion (1-based)
	Text     string    // normalised text "MNEMONIC op, op"
}

func (in *Inst) String() string { return in.Text }

// Where renders the instruction with its provenance: "MOVQ AX, BX" or, for
// an instruction that stems from a macro expansion, "MOVQ AX, BX (statement
// 12 of the expansion of mKeccakRound)".
func (in *Inst) Where() string {
	if in.Macro == "" {
		return in.Text
	}
	return fmt.Sprintf("%s (statement %d of the expansion of %s)", in.Text, in.MacroSeq, in.Macro)
}

// Symbol is one TEXT symbol.
type Symbol struct {
	Name       string // Go-side name without package qualifier ("feMul")
	RawName    string // as written ("·feMul")
	File       string // file name as given to ParseFile
	Line       int
	Flags      uint64 // textflag.h bits
	FrameSize  int64
	ArgSize    int64
	HasArgSize bool
	Insts      []*Inst
	Labels     map[string]int // label -> index of the instruction it precedes (len(Insts) if trailing)
	LabelLine  map[string]int
}

// Textflag bits (textflag.h).
const (
	NOPROF   = 1
	DUPOK    = 2
	NOSPLIT  = 4
	RODATA   = 8
	NOPTR    = 16
	WRAPPER  = 32
	NEEDCTXT = 64
	TLSBSS   = 256
	NOFRAME  = 512
)

var textflags = map[string]uint64{
	"NOPROF": 1, "DUPOK": 2, "NOSPLIT": 4, "RODATA": 8, "NOPTR": 16, "WRAPPER": 32, "NEEDCTXT": 64,
	"TLSBSS": 256, "NOFRAME": 512, "REFLECTMETHOD": 1024, "TOPFRAME": 2048, "ABIWRAPPER": 4096,
}

// DataItem is one DATA directive.
type DataItem struct {
	Line  int
	Off   int64
	Width int
	Value uint64 // numeric value (little endian in the blob)
	Str   string // string value, if any
	Addr  string // symbol whose address is stored, if any (not representable as bytes)
	Float bool
}

// Blob is the assembled content of one DATA/GLOBL symbol.
type Blob struct {
	Name    string // "cached_id_0" (without "<>")
	Local   bool   // declared with "<>"
	File    string
	Line    int    // line of the GLOBL directive (first DATA line if there is none)
	Flags   uint64 // RODATA|NOPTR ...
	Size    int64  // from GLOBL; -1 if there is no GLOBL directive
	Bytes   []byte // little-endian content, len == Size (or the extent of the DATA items)
	Defined []bool // which bytes are covered by a DATA directive
	Items   []DataItem
	Opaque  bool     // contains an address or a float: Bytes is incomplete
	Errors  []string // overlap, out of range, missing GLOBL
}

// ReadOnly reports whether the blob is placed in RODATA.
func (b *Blob) ReadOnly() bool { return b.Flags&RODATA != 0 }

// Complete reports whether every byte of the blob is defined exactly once and
// nothing about it is un-representable.
func (b *Blob) Complete() bool {
	if b.Opaque || len(b.Errors) > 0 || b.Size < 0 {
		return false
	}
	for _, d := range b.Defined {
		if !d {
			return false
		}
	}
	return true
}

// Uint32s decodes the blob as little-endian 32-bit words.
func (b *Blob) Uint32s() []uint32 {
	out := make([]uint32, 0, len(b.Bytes)/4)
	for i := 0; i+4 <= len(b.Bytes); i += 4 {
		out = append(out, uint32(b.Bytes[i])|uint32(b.Bytes[i+1])<<8|uint32(b.Bytes[i+2])<<16|uint32(b.Bytes[i+3])<<24)
	}
	return out
}

// Uint64s decodes the blob as little-endian 64-bit words.
func (b *Blob) Uint64s() []uint64 {
	out := make([]uint64, 0, len(b.Bytes)/8)
	for i := 0; i+8 <= len(b.Bytes); i += 8 {
		var v uint64
		for j := 7; j >= 0; j-- {
			v = v<<8 | uint64(b.Bytes[i+j])
		}
		out = append(out, v)
	}
	return out
}

// MacroDef is one #define.
type MacroDef struct {
	Name     string
	Params   []string // nil for object-like macros
	FuncLike bool
	Body     string
	Line     int
	Uses     int
}

// MacroUse is one use of a function-like macro.
type MacroUse struct {
	Name    string
	Args    []string // raw argument text
	ImmArgs []MacroImm
	Line    int    // line of the outermost statement
	Depth   int    // 0 = written directly in the file
	Symbol  string // TEXT symbol the use belongs to ("" outside)
}

// MacroImm is a macro argument that is an immediate constant.
type MacroImm struct {
	Index int
	Value uint64
}

// File is one scanned assembly file.
type File struct {
	Name      string
	Symbols   []*Symbol
	Blobs     []*Blob // in order of first mention
	Macros    []*MacroDef
	MacroUses []*MacroUse
	Includes  []string
	Lines     int
}

// Blob returns the blob with the given name (without "<>").
func (f *File) Blob(name string) *Blob {
	for _, b := range f.Blobs {
		if b.Name == name {
			return b
		}
	}
	return nil
}

// Symbol returns the TEXT symbol with the given Go-side name.
func (f *File) Symbol(name string) *Symbol {
	for _, s := range f.Symbols {
		if s.Name == name {
			return s
		}
	}
	return nil
}

// ---------------------------------------------------------------------------
// Registers

var gpRegs = map[string]string{}
var pseudoRegs = map[string]bool{"SB": true, "FP": true, "PC": true}

func init() {
	for _, r := range []string{"AX", "BX", "CX", "DX", "SI", "DI", "BP", "SP"} {
		gpRegs[r] = r
	}
	for _, r := range []string{"A", "B", "C", "D"} {
		gpRegs[r+"L"] = r + "X"
		gpRegs[r+"H"] = r + "X"
	}
	for _, r := range []string{"SI", "DI", "BP", "SP"} {
		gpRegs[r+"B"] = r
	}
	for i := 8; i <= 15; i++ {
		r := "R" + strconv.Itoa(i)
		gpRegs[r] = r
		gpRegs[r+"B"] = r
	}
}

// canonReg maps a register name as written to its canonical name; ok is
// false for anything that is not a machine register.
func canonReg(s string) (string, bool) {
	if c, ok := gpRegs[s]; ok {
		return c, true
	}
	if len(s) >= 2 && (s[0] == 'X' || s[0] == 'Y' || s[0] == 'Z') {
		if n, err := strconv.Atoi(s[1:]); err == nil && n >= 0 && n < 32 && strconv.Itoa(n) == s[1:] {
			return "V" + s[1:], true
		}
	}
	if len(s) == 2 && s[0] == 'K' && s[1] >= '0' && s[1] <= '7' {
		return s, true
	}
	return "", false
}

// IsVectorReg reports whether a canonical register is a SIMD register.
func IsVectorReg(canon string) bool { return len(canon) >= 2 && canon[0] == 'V' }

// ---------------------------------------------------------------------------
// Preprocessor

type logicalLine struct {
	text string
	line int
}

// stripComments removes // and /* */ comments, keeping newlines so that line
// numbers survive, and leaves string literals alone.
func stripComments(src string) string {
	var b strings.Builder
	b.Grow(len(src))
	for i := 0; i < len(src); {
		c := src[i]
		switch {
		case c == '"':
			j := i + 1
			for j < len(src) && src[j] != '"' && src[j] != '\n' {
				if src[j] == '\\' && j+1 < len(src) {
					j++
				}
				j++
			}
			if j < len(src) && src[j] == '"' {
				j++
			}
			b.WriteString(src[i:j])
			i = j
		case c == '/' && i+1 < len(src) && src[i+1] == '/':
			for i < len(src) && src[i] != '\n' {
				i++
			}
		case c == '/' && i+1 < len(src) && src[i+1] == '*':
			i += 2
			b.WriteByte(' ')
			for i < len(src) && !(src[i] == '*' && i+1 < len(src) && src[i+1] == '/') {
				if src[i] == '\n' {
					b.WriteByte('\n')
				}
				i++
			}
			i += 2
		default:
			b.WriteByte(c)
			i++
		}
	}
	return b.String()
}

func joinContinuations(src string) []logicalLine {
	var out []logicalLine
	lines := strings.Split(src, "\n")
	for i := 0; i < len(lines); i++ {
		start := i + 1
		cur := strings.TrimRight(lines[i], " \t\r")
		for strings.HasSuffix(cur, "\\") && i+1 < len(lines) {
			i++
			cur = cur[:len(cur)-1] + " " + strings.TrimRight(lines[i], " \t\r")
		}
		cur = strings.TrimSuffix(cur, "\\")
		out = append(out, logicalLine{cur, start})
	}
	return out
}

func isIdentStart(r rune) bool {
	return r == '_' || (r >= 'a' && r <= 'z') || (r >= 'A' && r <= 'Z') || r >= 0x80
}
func isIdentPart(r rune) bool { return isIdentStart(r) || (r >= '0' && r <= '9') }

// ptok is a lexical piece of a line: an identifier, a number, a string, or a
// single other character (kept verbatim).
type ptok struct {
	text  string
	ident bool
}

func tokenize(s string) []ptok {
	var out []ptok
	for i := 0; i < len(s); {
		r, w := utf8.DecodeRuneInString(s[i:])
		switch {
		case isIdentStart(r):
			j := i + w
			for j < len(s) {
				r2, w2 := utf8.DecodeRuneInString(s[j:])
				if !isIdentPart(r2) {
					break
				}
				j += w2
			}
			out = append(out, ptok{s[i:j], true})
			i = j
		case r >= '0' && r <= '9':
			j := i + 1
			for j < len(s) && (isIdentPart(rune(s[j])) && s[j] < 0x80 || s[j] == '.') {
				j++
			}
			out = append(out, ptok{s[i:j], false})
			i = j
		case r == '"':
			j := i + 1
			for j < len(s) && s[j] != '"' {
				if s[j] == '\\' && j+1 < len(s) {
					j++
				}
				j++
			}
			if j < len(s) {
				j++
			}
			out = append(out, ptok{s[i:j], false})
			i = j
		default:
			out = append(out, ptok{s[i : i+w], false})
			i += w
		}
	}
	return out
}

type scanner struct {
	file   *File
	macros map[string]*MacroDef
	cur    *Symbol
	pend   []string // labels waiting for their instruction
	blobs  map[string]*Blob
	errs   []string

	// state of the statement being expanded
	stmtLine int
}

func (sc *scanner) errorf(line int, format string, a ...any) {
	sc.errs = append(sc.errs, fmt.Sprintf("%s:%d: %s", sc.file.Name, line, fmt.Sprintf(format, a...)))
}

// expand macro-expands text.  hide holds the macros being expanded (no
// recursion); depth is the nesting level used for recording uses.
func (sc *scanner) expand(text string, hide map[string]bool, depth int) string {
	toks := tokenize(text)
	var b strings.Builder
	for i := 0; i < len(toks); i++ {
		t := toks[i]
		if !t.ident {
			b.WriteString(t.text)
			continue
		}
		m := sc.macros[t.text]
		if m == nil || hide[t.text] {
			b.WriteString(t.text)
			continue
		}
		if !m.FuncLike {
			m.Uses++
			hide[m.Name] = true
			b.WriteString(sc.expand(m.Body, hide, depth+1))
			delete(hide, m.Name)
			continue
		}
		// function-like: needs "(" next (white space allowed)
		j := i + 1
		for j < len(toks) && strings.TrimSpace(toks[j].text) == "" {
			j++
		}
		if j >= len(toks) || toks[j].text != "(" {
			b.WriteString(t.text)
			continue
		}
		// collect arguments
		var args []string
		var cur strings.Builder
		par := 1
		k := j + 1
		for ; k < len(toks) && par > 0; k++ {
			x := toks[k].text
			switch {
			case x == "(":
				par++
				cur.WriteString(x)
			case x == ")":
				par--
				if par > 0 {
					cur.WriteString(x)
				}
			case x == "," && par == 1:
				args = append(args, strings.TrimSpace(cur.String()))
				cur.Reset()
			default:
				cur.WriteString(x)
			}
		}
		if par != 0 {
			sc.errorf(sc.stmtLine, "unterminated argument list of macro %s", m.Name)
			b.WriteString(t.text)
			continue
		}
		args = append(args, strings.TrimSpace(cur.String()))
		if len(m.Params) == 0 && len(args) == 1 && args[0] == "" {
			args = nil
		}
		if len(args) != len(m.Params) {
			sc.errorf(sc.stmtLine, "macro %s used with %d arguments, defined with %d", m.Name, len(args), len(m.Params))
			b.WriteString(t.text)
			continue
		}
		m.Uses++
		use := &MacroUse{Name: m.Name, Args: args, Line: sc.stmtLine, Depth: depth}
		if sc.cur != nil {
			use.Symbol = sc.cur.Name
		}
		for ai, a := range args {
			ea := strings.TrimSpace(sc.expand(a, hide, depth+1))
			if strings.HasPrefix(ea, "$") {
				if v, err := evalExpr(ea[1:]); err == nil {
					use.ImmArgs = append(use.ImmArgs, MacroImm{ai, v})
				}
			}
		}
		sc.file.MacroUses = append(sc.file.MacroUses, use)
		// substitute parameters
		var sb strings.Builder
		for _, bt := range tokenize(m.Body) {
			if bt.ident {
				if pi := indexOf(m.Params, bt.text); pi >= 0 {
					sb.WriteString(args[pi])
					continue
				}
			}
			sb.WriteString(bt.text)
		}
		hide[m.Name] = true
		b.WriteString(sc.expand(sb.String(), hide, depth+1))
		delete(hide, m.Name)
		i = k - 1
	}
	return b.String()
}

func indexOf(l []string, s string) int {
	for i, x := range l {
		if x == s {
			return i
		}
	}
	return -1
}

// outermostMacro returns the name of the macro whose use makes up the whole
// statement text (or starts it), "" if the statement is written directly.
func (sc *scanner) outermostMacro(stmt string) string {
	toks := tokenize(strings.TrimSpace(stmt))
	if len(toks) > 0 && toks[0].ident {
		if m := sc.macros[toks[0].text]; m != nil {
			return m.Name
		}
	}
	return ""
}

// splitTop splits s on sep at parenthesis depth 0, outside strings.
func splitTop(s string, sep byte) []string {
	var out []string
	par, start := 0, 0
	inStr := false
	for i := 0; i < len(s); i++ {
		c := s[i]
		switch {
		case inStr:
			if c == '\\' {
				i++
			} else if c == '"' {
				inStr = false
			}
		case c == '"':
			inStr = true
		case c == '(':
			par++
		case c == ')':
			par--
		case c == sep && par == 0:
			out = append(out, s[start:i])
			start = i + 1
		}
	}
	return append(out, s[start:])
}

// ParseFile scans one assembly file.  Any construct the scanner does not
// understand is an error (the lint then fails instead of passing vacuously).
func ParseFile(name string, src []byte) (*File, error) {
	f := &File{Name: name}
	sc := &scanner{file: f, macros: map[string]*MacroDef{}, blobs: map[string]*Blob{}}
	lines := joinContinuations(stripComments(string(src)))
	f.Lines = strings.Count(string(src), "\n") + 1

	type cond struct{ active, taken, parent bool }
	var conds []cond
	active := func() bool { return len(conds) == 0 || conds[len(conds)-1].active }

	for _, ll := range lines {
		text := strings.TrimSpace(ll.text)
		if text == "" {
			continue
		}
		if text[0] == '#' {
			dir := strings.TrimSpace(text[1:])
			word, rest := dir, ""
			if i := strings.IndexAny(dir, " \t"); i >= 0 {
				word, rest = dir[:i], strings.TrimSpace(dir[i:])
			}
			switch word {
			case "ifdef", "ifndef":
				def := sc.macros[rest] != nil
				if word == "ifndef" {
					def = !def
				}
				par := active()
				conds = append(conds, cond{active: par && def, taken: def, parent: par})
			case "else":
				if len(conds) == 0 {
					sc.errorf(ll.line, "#else without #ifdef")
					break
				}
				c := &conds[len(conds)-1]
				c.active = c.parent && !c.taken
				c.taken = true
			case "endif":
				if len(conds) == 0 {
					sc.errorf(ll.line, "#endif without #ifdef")
					break
				}
				conds = conds[:len(conds)-1]
			case "include":
				if active() {
					f.Includes = append(f.Includes, strings.Trim(rest, "\"<>"))
				}
			case "define":
				if active() {
					sc.define(rest, ll.line)
				}
			case "undef":
				if active() {
					delete(sc.macros, rest)
				}
			default:
				sc.errorf(ll.line, "unsupported preprocessor directive #%s", word)
			}
			continue
		}
		if !active() {
			continue
		}
		sc.stmtLine = ll.line
		for _, raw := range splitTop(ll.text, ';') {
			if strings.TrimSpace(raw) == "" {
				continue
			}
			macro := sc.outermostMacro(raw)
			expanded := sc.expand(raw, map[string]bool{}, 0)
			seq := 0
			for _, st := range splitTop(expanded, ';') {
				st = strings.TrimSpace(st)
				if st == "" {
					continue
				}
				seq++
				sc.statement(st, ll.line, macro, seq)
			}
		}
	}
	if len(conds) != 0 {
		sc.errorf(f.Lines, "unterminated #ifdef")
	}
	sc.flushLabels()
	for _, b := range f.Blobs {
		b.assemble()
	}
	for _, m := range sc.macros {
		_ = m
	}
	sort.SliceStable(f.Macros, func(i, j int) bool { return f.Macros[i].Line < f.Macros[j].Line })
	if len(sc.errs) > 0 {
		return f, fmt.Errorf("%s", strings.Join(sc.errs, "\n"))
	}
	return f, nil
}

func (sc *scanner) define(rest string, line int) {
	toks := tokenize(rest)
	if len(toks) == 0 || !toks[0].ident {
		sc.errorf(line, "malformed #define")
		return
	}
	m := &MacroDef{Name: toks[0].text, Line: line}
	body := rest[len(m.Name):]
	if strings.HasPrefix(body, "(") {
		end := strings.IndexByte(body, ')')
		if end < 0 {
			sc.errorf(line, "malformed #define %s", m.Name)
			return
		}
		m.FuncLike = true
		for _, p := range strings.Split(body[1:end], ",") {
			if p = strings.TrimSpace(p); p != "" {
				m.Params = append(m.Params, p)
			}
		}
		body = body[end+1:]
	}
	m.Body = strings.TrimSpace(body)
	sc.macros[m.Name] = m
	sc.file.Macros = append(sc.file.Macros, m)
}

func (sc *scanner) flushLabels() {
	if sc.cur != nil {
		for _, l := range sc.pend {
			sc.cur.Labels[l] = len(sc.cur.Insts)
		}
	}
	sc.pend = nil
}

// statement handles one macro-expanded statement.
func (sc *scanner) statement(st string, line int, macro string, seq int) {
	// labels
	for {
		toks := tokenize(st)
		if len(toks) >= 2 && toks[0].ident && toks[1].text == ":" {
			lbl := toks[0].text
			if sc.cur == nil {
				sc.errorf(line, "label %s outside a TEXT symbol", lbl)
			} else {
				if _, dup := sc.cur.LabelLine[lbl]; dup {
					sc.errorf(line, "label %s defined twice in %s", lbl, sc.cur.Name)
				}
				sc.cur.LabelLine[lbl] = line
				sc.pend = append(sc.pend, lbl)
			}
			st = strings.TrimSpace(st[len(lbl):])
			st = strings.TrimSpace(strings.TrimPrefix(st, ":"))
			if st == "" {
				return
			}
			continue
		}
		break
	}
	toks := tokenize(st)
	if len(toks) == 0 || !toks[0].ident {
		sc.errorf(line, "cannot parse statement %q", st)
		return
	}
	mn := toks[0].text
	rest := strings.TrimSpace(st[len(mn):])
	var opsText []string
	if rest != "" {
		for _, o := range splitTop(rest, ',') {
			opsText = append(opsText, normSpace(o))
		}
	}
	switch mn {
	case "TEXT":
		sc.flushLabels()
		sc.text(opsText, line)
		return
	case "DATA":
		sc.data(opsText, line)
		return
	case "GLOBL":
		sc.globl(opsText, line)
		return
	}
	if sc.cur == nil {
		sc.errorf(line, "instruction %q outside a TEXT symbol", st)
		return
	}
	in := &Inst{Index: len(sc.cur.Insts), Line: line, Mnemonic: mn, Macro: macro, MacroSeq: seq}
	if macro == "" {
		in.MacroSeq = 0
	}
	for _, ot := range opsText {
		op, err := parseOperand(ot)
		if err != nil {
			sc.errorf(line, "%s: operand %q: %v", mn, ot, err)
			return
		}
		in.Ops = append(in.Ops, op)
	}
	in.Text = mn
	if len(opsText) > 0 {
		in.Text += " " + strings.Join(opsText, ", ")
	}
	in.Labels = sc.pend
	for _, l := range sc.pend {
		sc.cur.Labels[l] = in.Index
	}
	sc.pend = nil
	sc.cur.Insts = append(sc.cur.Insts, in)
}

func normSpace(s string) string { return strings.Join(strings.Fields(s), " ") }

// symName strips "(SB)", an ABI selector and the package qualifier.
func staticName(s string) (name string, local bool) {
	s = strings.TrimSpace(s)
	if i := strings.Index(s, "<"); i >= 0 {
		if strings.HasPrefix(s[i:], "<>") {
			local = true
		}
		s = s[:i]
	}
	return s, local
}

func (sc *scanner) text(ops []string, line int) {
	if len(ops) < 2 || len(ops) > 3 {
		sc.errorf(line, "TEXT with %d operands", len(ops))
		sc.cur = nil
		return
	}
	nameOp := ops[0]
	if !strings.HasSuffix(nameOp, "(SB)") {
		sc.errorf(line, "TEXT symbol %q is not of the form name(SB)", nameOp)
		sc.cur = nil
		return
	}
	if strings.Contains(nameOp, "<ABIInternal>") {
		sc.errorf(line, "TEXT %s uses the register ABI, which the front end does not model", nameOp)
	}
	raw, _ := staticName(strings.TrimSuffix(nameOp, "(SB)"))
	name := raw
	if i := strings.LastIndex(name, "·"); i >= 0 {
		name = name[i+len("·"):]
	}
	s := &Symbol{Name: name, RawName: raw, File: sc.file.Name, Line: line, Labels: map[string]int{}, LabelLine: map[string]int{}}
	if len(ops) == 3 {
		v, err := evalExpr(ops[1])
		if err != nil {
			sc.errorf(line, "TEXT flags %q: %v", ops[1], err)
		}
		s.Flags = v
	}
	fs := ops[len(ops)-1]
	if !strings.HasPrefix(fs, "$") {
		sc.errorf(line, "TEXT frame size %q", fs)
	} else {
		fs = strings.ReplaceAll(fs[1:], " ", "")
		neg := strings.HasPrefix(fs, "-")
		fs = strings.TrimPrefix(fs, "-")
		parts := strings.SplitN(fs, "-", 2)
		fv, err := evalExpr(parts[0])
		if err != nil {
			sc.errorf(line, "TEXT frame size %q: %v", fs, err)
		}
		s.FrameSize = int64(fv)
		if neg {
			s.FrameSize = -s.FrameSize
		}
		if len(parts) == 2 {
			av, err := evalExpr(parts[1])
			if err != nil {
				sc.errorf(line, "TEXT argument size %q: %v", fs, err)
			}
			s.ArgSize, s.HasArgSize = int64(av), true
		}
	}
	sc.cur = s
	sc.file.Symbols = append(sc.file.Symbols, s)
}

func (sc *scanner) blob(name string, local bool, line int) *Blob {
	b := sc.blobs[name]
	if b == nil {
		b = &Blob{Name: name, Local: local, File: sc.file.Name, Line: line, Size: -1}
		sc.blobs[name] = b
		sc.file.Blobs = append(sc.file.Blobs, b)
	}
	return b
}

func (sc *scanner) data(ops []string, line int) {
	if len(ops) != 2 {
		sc.errorf(line, "DATA with %d operands", len(ops))
		return
	}
	i := strings.LastIndexByte(ops[0], '/')
	if i < 0 {
		sc.errorf(line, "DATA without /width: %q", ops[0])
		return
	}
	w, err := evalExpr(ops[0][i+1:])
	if err != nil {
		sc.errorf(line, "DATA width: %v", err)
		return
	}
	addr, err := parseOperand(ops[0][:i])
	if err != nil || addr.Kind != OpStatic || addr.Index != "" {
		sc.errorf(line, "DATA address %q is not sym+off(SB)", ops[0][:i])
		return
	}
	val, err := parseOperand(ops[1])
	if err != nil {
		sc.errorf(line, "DATA value %q: %v", ops[1], err)
		return
	}
	name, local := staticName(addr.Sym)
	b := sc.blob(name, local, line)
	it := DataItem{Line: line, Off: addr.Off, Width: int(w)}
	switch val.Kind {
	case OpImm:
		it.Value = val.Imm
	case OpString:
		it.Str = val.Str
	case OpImmAddr:
		it.Addr = val.Sym
		b.Opaque = true
	case OpFloat:
		it.Float = true
		b.Opaque = true
	default:
		sc.errorf(line, "DATA value %q is not an immediate", ops[1])
		return
	}
	b.Items = append(b.Items, it)
}

func (sc *scanner) globl(ops []string, line int) {
	if len(ops) < 2 || len(ops) > 3 {
		sc.errorf(line, "GLOBL with %d operands", len(ops))
		return
	}
	addr, err := parseOperand(ops[0])
	if err != nil || addr.Kind != OpStatic {
		sc.errorf(line, "GLOBL symbol %q", ops[0])
		return
	}
	name, local := staticName(addr.Sym)
	b := sc.blob(name, local, line)
	if b.Size >= 0 {
		b.Errors = append(b.Errors, fmt.Sprintf("line %d: second GLOBL directive", line))
	}
	b.Line = line
	if len(ops) == 3 {
		v, err := evalExpr(ops[1])
		if err != nil {
			sc.errorf(line, "GLOBL flags %q: %v", ops[1], err)
		}
		b.Flags = v
	}
	sz, err := parseOperand(ops[len(ops)-1])
	if err != nil || sz.Kind != OpImm {
		sc.errorf(line, "GLOBL size %q", ops[len(ops)-1])
		return
	}
	b.Size = sz.Int()
}

// assemble lays the DATA items out into Bytes.
func (b *Blob) assemble() {
	size := b.Size
	if size < 0 {
		b.Errors = append(b.Errors, "DATA without GLOBL")
		for _, it := range b.Items {
			if e := it.Off + int64(it.Width); e > size {
				size = e
			}
		}
	}
	if size < 0 || size > 1<<24 {
		b.Errors = append(b.Errors, fmt.Sprintf("implausible size %d", size))
		return
	}
	b.Bytes = make([]byte, size)
	b.Defined = make([]bool, size)
	for _, it := range b.Items {
		if it.Off < 0 || it.Off+int64(it.Width) > size {
			b.Errors = append(b.Errors, fmt.Sprintf("line %d: DATA [%d,%d) outside the %d bytes of the symbol", it.Line, it.Off, it.Off+int64(it.Width), size))
			continue
		}
		switch {
		case it.Str != "":
			if len(it.Str) > it.Width {
				b.Errors = append(b.Errors, fmt.Sprintf("line %d: string longer than width", it.Line))
				continue
			}
		case it.Addr == "" && !it.Float:
			if it.Width != 1 && it.Width != 2 && it.Width != 4 && it.Width != 8 {
				b.Errors = append(b.Errors, fmt.Sprintf("line %d: DATA width %d", it.Line, it.Width))
				continue
			}
			if it.Width < 8 {
				// the value must fit (as unsigned or as sign-extended negative)
				hi := it.Value >> (8 * uint(it.Width))
				if hi != 0 && hi != (^uint64(0))>>(8*uint(it.Width)) {
					b.Errors = append(b.Errors, fmt.Sprintf("line %d: value %#x does not fit %d bytes", it.Line, it.Value, it.Width))
				}
			}
		}
		for k := 0; k < it.Width; k++ {
			p := it.Off + int64(k)
			if b.Defined[p] {
				b.Errors = append(b.Errors, fmt.Sprintf("line %d: byte %d defined twice", it.Line, p))
			}
			b.Defined[p] = true
			switch {
			case it.Str != "":
				if k < len(it.Str) {
					b.Bytes[p] = it.Str[k]
				}
			case it.Addr == "" && !it.Float:
				b.Bytes[p] = byte(it.Value >> (8 * uint(k)))
			}
		}
	}
}

// ---------------------------------------------------------------------------
// Operands

// parseOperand parses one operand (already macro-expanded).
func parseOperand(s string) (Operand, error) {
	s = strings.TrimSpace(s)
	op := Operand{Text: normSpace(s)}
	if s == "" {
		return op, fmt.Errorf("empty operand")
	}
	if s[0] == '$' {
		rest := strings.TrimSpace(s[1:])
		switch {
		case strings.HasPrefix(rest, "\""):
			str, err := strconv.Unquote(rest)
			if err != nil {
				return op, fmt.Errorf("string literal: %v", err)
			}
			op.Kind, op.Str = OpString, str
			return op, nil
		case strings.HasSuffix(rest, "(SB)"):
			in, err := parseOperand(rest)
			if err != nil {
				return op, err
			}
			if in.Kind != OpStatic || in.Index != "" {
				return op, fmt.Errorf("not an address constant")
			}
			op.Kind, op.Sym, op.Off = OpImmAddr, in.Sym, in.Off
			return op, nil
		}
		v, err := evalExpr(rest)
		if err != nil {
			if _, ferr := strconv.ParseFloat(rest, 64); ferr == nil {
				op.Kind = OpFloat
				return op, nil
			}
			return op, err
		}
		op.Kind, op.Imm = OpImm, v
		return op, nil
	}
	// strip trailing (REG) / (REG*scale) groups
	type group struct {
		reg, raw string
		scale    int
		pseudo   bool
	}
	var groups []group // right to left
	rest := s
	for strings.HasSuffix(rest, ")") {
		open := matchingOpen(rest)
		if open < 0 {
			return op, fmt.Errorf("unbalanced parentheses")
		}
		content := strings.ReplaceAll(rest[open+1:len(rest)-1], " ", "")
		g := group{}
		if i := strings.IndexByte(content, '*'); i >= 0 {
			c, ok := canonReg(content[:i])
			sc, err := strconv.Atoi(content[i+1:])
			if !ok || err != nil {
				break
			}
			g.reg, g.raw, g.scale = c, content[:i], sc
		} else if pseudoRegs[content] {
			g.reg, g.raw, g.pseudo = content, content, true
		} else if c, ok := canonReg(content); ok {
			g.reg, g.raw = c, content
		} else {
			break
		}
		groups = append(groups, g)
		rest = strings.TrimSpace(rest[:open])
		if len(groups) == 2 {
			break
		}
	}
	if len(groups) == 0 {
		if c, ok := canonReg(s); ok {
			op.Kind, op.Reg, op.RegRaw = OpReg, c, s
			return op, nil
		}
		toks := tokenize(s)
		if len(toks) == 1 && toks[0].ident && !pseudoRegs[s] {
			op.Kind, op.Sym = OpLabel, s
			return op, nil
		}
		return op, fmt.Errorf("unrecognised operand")
	}
	// groups[len-1] is the leftmost group.
	var base, index *group
	switch len(groups) {
	case 1:
		if groups[0].scale != 0 {
			index = &groups[0]
		} else {
			base = &groups[0]
		}
	case 2:
		base, index = &groups[1], &groups[0]
		if base.scale != 0 || index.pseudo {
			return op, fmt.Errorf("malformed base/index")
		}
		if index.scale == 0 {
			index.scale = 1
		}
	}
	if index != nil {
		op.Index, op.IdxRaw, op.Scale = index.reg, index.raw, index.scale
	}
	if base != nil && base.pseudo {
		switch base.reg {
		case "SB":
			name, off, err := splitSymOff(rest)
			if err != nil {
				return op, err
			}
			if name == "" {
				return op, fmt.Errorf("(SB) without a symbol")
			}
			op.Kind, op.Sym, op.Off = OpStatic, name, off
			return op, nil
		case "FP":
			if index != nil {
				return op, fmt.Errorf("index on an (FP) slot")
			}
			name, off, err := splitSymOff(rest)
			if err != nil {
				return op, err
			}
			op.Kind, op.Sym, op.Off = OpFP, name, off
			return op, nil
		case "PC":
			v, err := evalExpr(rest)
			if err != nil {
				return op, err
			}
			op.Kind, op.Off = OpPCRel, int64(v)
			return op, nil
		}
	}
	op.Kind = OpMem
	if base != nil {
		op.Base = base.reg
	}
	if rest != "" {
		if op.Base == "SP" {
			// name-8(SP) is a named slot of the pseudo stack pointer
			name, off, err := splitSymOff(rest)
			if err != nil {
				return op, err
			}
			op.Sym, op.Off = name, off
			return op, nil
		}
		v, err := evalExpr(rest)
		if err != nil {
			return op, err
		}
		op.Off = int64(v)
	}
	return op, nil
}

// matchingOpen returns the index of the "(" matching the final ")" of s.
func matchingOpen(s string) int {
	par := 0
	for i := len(s) - 1; i >= 0; i-- {
		switch s[i] {
		case ')':
			par++
		case '(':
			par--
			if par == 0 {
				return i
			}
		}
	}
	return -1
}

// splitSymOff splits "name<>+8", "name-8", "name", "8" into symbol and offset.
func splitSymOff(s string) (string, int64, error) {
	s = strings.TrimSpace(s)
	if s == "" {
		return "", 0, nil
	}
	r, _ := utf8.DecodeRuneInString(s)
	if !isIdentStart(r) && r != '"' {
		v, err := evalExpr(s)
		return "", int64(v), err
	}
	// the name runs up to the first + or - outside <...>
	end := len(s)
	angle := 0
	for i, c := range s {
		if c == '<' {
			angle++
		} else if c == '>' {
			angle--
		} else if (c == '+' || c == '-') && angle == 0 {
			end = i
			break
		}
	}
	name := strings.TrimSpace(s[:end])
	if end == len(s) {
		return name, 0, nil
	}
	v, err := evalExpr("0" + s[end:])
	return name, int64(v), err
}

// ---------------------------------------------------------------------------
// Constant expressions (Go precedence, 64-bit wrap-around arithmetic)

type exprParser struct {
	toks []string
	pos  int
}

func evalExpr(s string) (uint64, error) {
	p := &exprParser{}
	for _, t := range tokenize(s) {
		if strings.TrimSpace(t.text) != "" {
			p.toks = append(p.toks, t.text)
		}
	}
	// merge two-character operators
	var m []string
	for i := 0; i < len(p.toks); i++ {
		if i+1 < len(p.toks) && (p.toks[i] == "<" && p.toks[i+1] == "<" || p.toks[i] == ">" && p.toks[i+1] == ">" || p.toks[i] == "&" && p.toks[i+1] == "^") {
			m = append(m, p.toks[i]+p.toks[i+1])
			i++
			continue
		}
		m = append(m, p.toks[i])
	}
	p.toks = m
	if len(p.toks) == 0 {
		return 0, fmt.Errorf("empty expression")
	}
	v, err := p.binary(1)
	if err != nil {
		return 0, err
	}
	if p.pos != len(p.toks) {
		return 0, fmt.Errorf("unexpected %q in expression %q", p.toks[p.pos], s)
	}
	return v, nil
}

func prec(op string) int {
	switch op {
	case "*", "/", "%", "<<", ">>", "&", "&^":
		return 2
	case "+", "-", "|", "^":
		return 1
	}
	return 0
}

func (p *exprParser) binary(min int) (uint64, error) {
	l, err := p.unary()
	if err != nil {
		return 0, err
	}
	for p.pos < len(p.toks) {
		op := p.toks[p.pos]
		pr := prec(op)
		if pr < min || pr == 0 {
			break
		}
		p.pos++
		r, err := p.binary(pr + 1)
		if err != nil {
			return 0, err
		}
		switch op {
		case "*":
			l *= r
		case "/":
			if r == 0 {
				return 0, fmt.Errorf("division by zero")
			}
			l = uint64(int64(l) / int64(r))
		case "%":
			if r == 0 {
				return 0, fmt.Errorf("division by zero")
			}
			l = uint64(int64(l) % int64(r))
		case "<<":
			l <<= r
		case ">>":
			l >>= r
		case "&":
			l &= r
		case "&^":
			l &^= r
		case "+":
			l += r
		case "-":
			l -= r
		case "|":
			l |= r
		case "^":
			l ^= r
		}
	}
	return l, nil
}

func (p *exprParser) unary() (uint64, error) {
	if p.pos >= len(p.toks) {
		return 0, fmt.Errorf("unexpected end of expression")
	}
	t := p.toks[p.pos]
	p.pos++
	switch t {
	case "-":
		v, err := p.unary()
		return -v, err
	case "+":
		return p.unary()
	case "~", "^":
		v, err := p.unary()
		return ^v, err
	case "(":
		v, err := p.binary(1)
		if err != nil {
			return 0, err
		}
		if p.pos >= len(p.toks) || p.toks[p.pos] != ")" {
			return 0, fmt.Errorf("missing )")
		}
		p.pos++
		return v, nil
	}
	if v, ok := textflags[t]; ok {
		return v, nil
	}
	if t[0] >= '0' && t[0] <= '9' {
		v, err := strconv.ParseUint(t, 0, 64)
		if err != nil {
			return 0, fmt.Errorf("number %q: %v", t, err)
		}
		return v, nil
	}
	if t[0] == '\'' {
		return 0, fmt.Errorf("character constants are not supported")
	}
	return 0, fmt.Errorf("unknown name %q in constant expression", t)
}
