package easm

import (
	"fmt"
	"go/ast"
	"go/parser"
	"go/token"
	"strings"

	"voicheck/report"
)

func parseGo(fset *token.FileSet, src string) (*ast.File, error) {
	return parser.ParseFile(fset, "control.go", src, parser.SkipObjectResolution)
}

// ControlGo is the Go side of the positive control: body-less declarations
// for the symbols of ControlAsm (ctlNoDecl deliberately has none, ctlNoText
// deliberately has no TEXT symbol).
const ControlGo = `package control

type elem [5]uint64

func ctlGood(out *elem, a *elem, n uint64, sel uint8)
func ctlJumpOnLoad(out *elem, a *elem)
func ctlJumpOnSecretArg(out *elem, n uint64)
func ctlJumpOnComputed(out *elem, n uint64)
func ctlIndexed(out *uint64, tbl *[8]uint64, i uint64)
func ctlChase(out *uint64, pp **uint64)
func ctlScalarAsBase(out *uint64, x uint64)
func ctlLeaIndex(out *uint64, tbl *[8]uint64, i uint64)
func ctlStaleFlags(out *uint64)
func ctlDiv(out *uint64, a uint64, b uint64)
func ctlCall(out *uint64)
func ctlTime(out *uint64)
func ctlJmpReg(out *uint64, f uintptr)
func ctlJmpTable(out *uint64, i uint64)
func ctlRep(dst *byte, src *byte, n uint64)
func ctlUnknown(out *uint64)
func ctlBadSlot(out *elem, a *elem)
func ctlBadSize(out *elem, a *elem)
func ctlWrites(out *elem, in *elem, ro *elem) uint64
func ctlNoText(out *elem)
`

// ControlAsm contains one violation of every rule (and, in ctlGood and
// ctlWrites, the admitted forms, which must stay silent).
const ControlAsm = `#include "textflag.h"

#define rPtr AX
#define LOADK(dst, k) MOVQ k, dst

DATA ctl_const<>+0(SB)/8, $0x0000000000000013
DATA ctl_const<>+8(SB)/4, $0x03ffffff
DATA ctl_const<>+12(SB)/4, $-1
GLOBL ctl_const<>(SB), RODATA|NOPTR, $16

// admitted forms only: immediate-counted loop, loop on a public argument,
// stack scratch through an aligned copy of SP, static data, vector stores.
TEXT ·ctlGood(SB), $128-25
	MOVQ out+0(FP), rPtr
	MOVQ a+8(FP), DX
	MOVQ SP, CX
	ADDQ $0x40, CX
	ANDQ $0xffffffc0, CX
	MOVBQZX sel+24(FP), R9 /* secret selector, only used in arithmetic */
	VMOVDQU (DX), Y0
	VMOVDQA Y0, 32(CX)
	VPADDQ ctl_const<>+0(SB), Y0, Y1
	LOADK(R10, $0x8000000080008008)
	MOVQ $1, BX
good_scan:
	VPAND (DX), Y1, Y2
	ADDQ $0x28, DX
	INCQ BX
	CMPQ BX, $0x08
	JLE  good_scan
	MOVQ n+16(FP), SI
good_pow:
	VMOVDQU Y2, (AX)
	DECQ SI
	JNZ  good_pow
	VZEROUPPER
	RET

TEXT ·ctlJumpOnLoad(SB), NOSPLIT|NOFRAME, $0-16
	MOVQ  a+8(FP), CX
	MOVQ  out+0(FP), AX
	MOVQ  8(CX), R8
	TESTQ R8, R8
	JZ    jl_skip
	MOVQ  R8, (AX)
jl_skip:
	RET

TEXT ·ctlJumpOnSecretArg(SB), NOSPLIT|NOFRAME, $0-16
	MOVQ n+8(FP), BX
js_loop:
	DECQ BX
	JNZ  js_loop
	RET

TEXT ·ctlJumpOnComputed(SB), NOSPLIT|NOFRAME, $0-16
	MOVQ  out+0(FP), AX
	MOVQ  (AX), DX
	MULQ  DX
	CMPQ  DX, $0
	JNE   jc_done
	MOVQ  DX, (AX)
jc_done:
	RET

TEXT ·ctlIndexed(SB), NOSPLIT|NOFRAME, $0-24
	MOVQ tbl+8(FP), AX
	MOVQ i+16(FP), BX
	MOVQ (AX)(BX*8), CX
	MOVQ out+0(FP), DX
	MOVQ CX, (DX)
	RET

TEXT ·ctlChase(SB), NOSPLIT|NOFRAME, $0-16
	MOVQ pp+8(FP), AX
	MOVQ (AX), BX
	MOVQ (BX), CX
	MOVQ out+0(FP), DX
	MOVQ CX, (DX)
	RET

TEXT ·ctlScalarAsBase(SB), NOSPLIT|NOFRAME, $0-16
	MOVQ x+8(FP), AX
	MOVQ (AX), CX
	MOVQ out+0(FP), DX
	MOVQ CX, (DX)
	RET

TEXT ·ctlLeaIndex(SB), NOSPLIT|NOFRAME, $0-24
	MOVQ tbl+8(FP), AX
	MOVQ i+16(FP), BX
	LEAQ (AX)(BX*8), CX
	MOVQ (CX), DX
	MOVQ out+0(FP), AX
	MOVQ DX, (AX)
	RET

TEXT ·ctlStaleFlags(SB), NOSPLIT|NOFRAME, $0-8
	MOVQ out+0(FP), AX
	JZ   sf_done
	MOVQ $1, (AX)
sf_done:
	RET

TEXT ·ctlDiv(SB), NOSPLIT|NOFRAME, $0-24
	MOVQ a+8(FP), AX
	XORQ DX, DX
	DIVQ b+16(FP)
	MOVQ out+0(FP), CX
	MOVQ AX, (CX)
	RET

TEXT ·ctlCall(SB), $8-8
	CALL ·ctlDiv(SB)
	RET

TEXT ·ctlTime(SB), NOSPLIT|NOFRAME, $0-8
	RDTSC
	CPUID
	RDRANDQ AX
	MOVQ out+0(FP), CX
	MOVQ AX, (CX)
	RET

TEXT ·ctlJmpReg(SB), NOSPLIT|NOFRAME, $0-16
	MOVQ f+8(FP), AX
	JMP  AX

TEXT ·ctlJmpTable(SB), NOSPLIT|NOFRAME, $0-16
	MOVQ i+8(FP), AX
	JMP  ctl_const<>(SB)(AX*8)

TEXT ·ctlRep(SB), NOSPLIT|NOFRAME, $0-24
	MOVQ dst+0(FP), DI
	MOVQ src+8(FP), SI
	MOVQ n+16(FP), CX
	REP; MOVSB
	RET

TEXT ·ctlUnknown(SB), NOSPLIT|NOFRAME, $0-8
	FROBNICATEQ AX, BX
	RET

TEXT ·ctlBadSlot(SB), NOSPLIT|NOFRAME, $0-16
	MOVQ b+8(FP), CX
	MOVQ out+8(FP), AX
	RET

TEXT ·ctlBadSize(SB), NOSPLIT|NOFRAME, $0-24
	MOVQ out+0(FP), AX
	RET

TEXT ·ctlNoDecl(SB), NOSPLIT|NOFRAME, $0-8
	RET

// Writes/Reads bookkeeping: out is stored to (scalar and AVX2 store forms),
// in is loaded from and (the defect) also stored to, ro is only compared
// and prefetched (reads, not writes), the result slot is written.
TEXT ·ctlWrites(SB), NOSPLIT|NOFRAME, $0-32
	MOVQ out+0(FP), AX
	MOVQ in+8(FP), CX
	MOVQ ro+16(FP), DX
	MOVQ (CX), R8
	VMOVDQU 8(CX), Y0
	VMOVDQU Y0, 8(AX)
	MOVQ R8, (AX)
	LEAQ 16(CX), BX
	MOVQ R8, 8(BX)
	CMPQ (DX), $0x00
	PREFETCHT0 64(DX)
	BTQ  $3, 8(DX)
	MOVQ $1, ret+24(FP)
	VZEROUPPER
	RET
`

// controlExpect lists what must be reported: rule suffix, symbol, and a
// substring of the message.
var controlExpect = []struct{ suffix, symbol, substr string }{
	{SufJump, "ctlJumpOnLoad", "data dependent"},
	{SufJump, "ctlJumpOnSecretArg", "not designated public"},
	{SufJump, "ctlJumpOnComputed", "data dependent"},
	{SufIndex, "ctlIndexed", "index register BX"},
	{SufIndex, "ctlChase", "does not derive"},
	{SufIndex, "ctlScalarAsBase", "is not a pointer"},
	{SufIndex, "ctlLeaIndex", "address computed with an index register"},
	{SufJump, "ctlStaleFlags", "before the symbol's entry"},
	{SufInstr, "ctlDiv", "DIV"},
	{SufInstr, "ctlCall", "CALL"},
	{SufInstr, "ctlTime", "RDTSC"},
	{SufInstr, "ctlTime", "CPUID"},
	{SufInstr, "ctlTime", "RDRAND"},
	{SufInstr, "ctlJmpReg", "jump through a register"},
	{SufInstr, "ctlJmpTable", "table-indexed jump"},
	{SufInstr, "ctlRep", "REP"},
	{SufInstr, "ctlRep", "string instruction"},
	{SufInstr, "ctlUnknown", "cannot be judged"},
	{SufDecl, "ctlBadSlot", "slot b+8(FP) does not name a parameter"},
	{SufDecl, "ctlBadSlot", "slot out+8(FP)"},
	{SufDecl, "ctlBadSize", "24 bytes of arguments"},
	{SufDecl, "ctlNoDecl", "without a body-less Go declaration"},
	{SufDecl, "ctlNoText", "without a TEXT symbol"},
}

// controlSilent are the symbols that must not be reported at all.
var controlSilent = []string{"ctlGood", "ctlWrites"}

// PositiveControl runs the scanner and the lint on ControlAsm/ControlGo and
// returns an error unless every rule fires where it must, stays silent where
// it must, and the exported facts (Writes/Reads, loop shapes, DATA blobs,
// macro immediates) are the expected ones.  It touches no file.
func PositiveControl() error {
	run := report.New("ASM-CONTROL", "control", 0)
	run.SetConfig("control")
	res, err := LintSource(run, "CTL", "control", "control_amd64.s", []byte(ControlAsm), ControlGo,
		map[string][]string{"control.ctlGood": {"n"}})
	if err != nil {
		return fmt.Errorf("easm positive control: front end failed: %v", err)
	}
	var problems []string
	for _, e := range controlExpect {
		found := false
		for _, f := range res.Findings {
			if f.Rule == "CTL"+e.suffix && strings.HasPrefix(f.Construct, "control."+e.symbol) && strings.Contains(f.Msg, e.substr) {
				found = true
			}
		}
		if !found {
			problems = append(problems, fmt.Sprintf("rule CTL%s did not report %s (%q)", e.suffix, e.symbol, e.substr))
		}
	}
	for _, f := range res.Findings {
		for _, s := range controlSilent {
			if strings.HasPrefix(f.Construct, "control."+s+" ") || f.Construct == "control."+s {
				problems = append(problems, fmt.Sprintf("false positive on %s: [%s] %s", s, f.Rule, f.Msg))
			}
		}
	}
	// exported facts
	if g := res.Symbol("control", "ctlGood"); g == nil {
		problems = append(problems, "ctlGood not found")
	} else {
		if len(g.Jumps) != 2 || g.Jumps[0].Class != ValImmStep || g.Jumps[1].Class != ValArg || strings.Join(g.Jumps[1].Args, ",") != "n" {
			problems = append(problems, fmt.Sprintf("ctlGood: jump classification wrong: %+v", g.Jumps))
		}
		if len(g.Loops) != 2 || !g.Loops[0].Counted || g.Loops[0].Init != 1 || g.Loops[0].Bound != 8 || g.Loops[0].Step != 1 || g.Loops[0].Trips != 8 ||
			len(g.Loops[0].Strides) != 1 || g.Loops[0].Strides[0].Stride != 0x28 || g.Loops[0].Strides[0].Param != "a" || !g.Loops[0].Strides[0].EntryKnown || g.Loops[0].Strides[0].EntryOffset != 0 {
			problems = append(problems, fmt.Sprintf("ctlGood: loop shape wrong: %+v", g.Loops))
		} else if !g.Loops[1].Counted || g.Loops[1].InitArg != "n" || g.Loops[1].Step != -1 || g.Loops[1].Trips != -1 {
			problems = append(problems, fmt.Sprintf("ctlGood: second loop shape wrong: %+v", g.Loops[1]))
		}
		if fmt.Sprint(g.Writes) != "[{out 0}]" || fmt.Sprint(g.Reads) != "[{a 1}]" {
			problems = append(problems, fmt.Sprintf("ctlGood: writes %v reads %v", g.Writes, g.Reads))
		}
		if imm := g.MovImmediates(); len(imm) != 2 || imm[0] != 0x8000000080008008 || imm[1] != 1 {
			problems = append(problems, fmt.Sprintf("ctlGood: immediates %x", imm))
		}
		frame := 0
		for _, m := range g.MemOps {
			if m.Class == "frame" {
				frame++
			}
		}
		if frame != 1 {
			problems = append(problems, fmt.Sprintf("ctlGood: %d frame operands, want 1", frame))
		}
	}
	if w := res.Symbol("control", "ctlWrites"); w == nil {
		problems = append(problems, "ctlWrites not found")
	} else {
		if fmt.Sprint(w.Writes) != "[{out 0} {in 1}]" || fmt.Sprint(w.Reads) != "[{in 1} {ro 2}]" || fmt.Sprint(w.ResultWrites) != "[ret]" {
			problems = append(problems, fmt.Sprintf("ctlWrites: writes %v reads %v results %v, want [{out 0} {in 1}] [{in 1} {ro 2}] [ret]", w.Writes, w.Reads, w.ResultWrites))
		}
	}
	if b := res.Blob("control", "ctl_const"); b == nil || !b.Complete() || !b.ReadOnly() || len(b.Bytes) != 16 ||
		b.Uint64s()[0] != 0x13 || b.Uint32s()[2] != 0x03ffffff || b.Uint32s()[3] != 0xffffffff {
		problems = append(problems, fmt.Sprintf("DATA blob ctl_const wrong: %+v", b))
	}
	nuse := 0
	for _, u := range res.Files[0].MacroUses {
		if u.Name == "LOADK" && len(u.ImmArgs) == 1 && u.ImmArgs[0].Index == 1 && u.ImmArgs[0].Value == 0x8000000080008008 && u.Symbol == "ctlGood" {
			nuse++
		}
	}
	if nuse != 1 {
		problems = append(problems, "macro use LOADK(R10, $0x8000000080008008) not recorded")
	}
	if len(problems) > 0 {
		return fmt.Errorf("easm positive control failed:\n  %s", strings.Join(problems, "\n  "))
	}
	return nil
}
