package easm

import (
	"fmt"
	"sort"
	"strings"
)

// ---------------------------------------------------------------------------
// Go-side declaration of an assembly function (built from go/types in
// lint.go, or from a tiny embedded Go source for the positive control).

// Param is one parameter or result of the Go declaration with its ABI0 frame
// slot.
type Param struct {
	Name    string
	Index   int  // index among the parameters (or among the results if Result)
	Result  bool // result slot
	Offset  int64
	Size    int64
	Pointer bool   // *T or unsafe.Pointer
	Kind    string // "pointer", "basic", "string", "slice", "interface", "other"
	Type    string
}

// Decl is the Go declaration of a TEXT symbol.
type Decl struct {
	Pkg     string // module-relative package ("curve")
	Name    string
	Pos     string // file:line of the declaration
	Params  []Param
	ArgSize int64 // bytes of arguments + results
}

// Param returns the parameter/result with the given name.
func (d *Decl) Param(name string) *Param {
	if d == nil {
		return nil
	}
	for i := range d.Params {
		if d.Params[i].Name == name {
			return &d.Params[i]
		}
	}
	return nil
}

// ---------------------------------------------------------------------------
// Exported facts

// ValueClass classifies where the value of a register comes from; larger is
// worse for the constant-time rule.
type ValueClass int

const (
	ValImm     ValueClass = iota // immediates only
	ValImmStep                   // immediates incremented/decremented by immediates
	ValArg                       // loaded from scalar argument slot(s), possibly stepped by immediates
	ValUnknown                   // computed, loaded from stack/static data, or not defined in the symbol
	ValMem                       // loaded from memory through a pointer (data dependent), or computed from such a load
)

func (c ValueClass) String() string {
	return [...]string{"immediate", "immediate±immediates", "argument-slot", "unknown", "memory-load"}[c]
}

// ValueOrigin is the result of tracing the reaching definitions of one
// controlling register (or memory operand) of a flag-setting instruction.
type ValueOrigin struct {
	What     string     // register name or operand text
	Class    ValueClass // worst class over all reaching definitions
	Args     []string   // argument slots the value is loaded from
	Loads    []string   // "line N: MOVQ 8(CX), DX": loads through pointers flowing into the value
	Computed []string   // instructions other than moves/steps by immediates on the way
	Defs     []string   // every defining instruction visited ("line N: text")
	Why      string     // explanation when Class is ValUnknown
}

// FlagSetter is an instruction whose flags reach a conditional jump.
type FlagSetter struct {
	Line int
	Text string
}

// CondJump is one conditional jump.
type CondJump struct {
	Ordinal    int // 1-based among the conditional jumps of the symbol
	Line       int
	Mnemonic   string
	Cond       string // canonical condition (EQ NE LT LE GT GE LO HS HI LS ...), "CX" for JCXZ/LOOP
	Target     string
	TargetLine int
	Back       bool // target precedes the jump
	Setters    []FlagSetter
	Controls   []ValueOrigin
	Class      ValueClass // worst over Controls
	Args       []string   // union of argument slots over Controls
	Problems   []string   // "flags are not set inside the symbol" ...
	inst       *Inst
}

// Access is how a memory operand is used.
type Access int

const (
	Load Access = iota
	Store
	LoadStore
	AddressOnly // LEA: the address is computed, memory is not touched
)

func (a Access) String() string { return [...]string{"load", "store", "load+store", "address-only"}[a] }

// MemOp is one memory operand.
type MemOp struct {
	Line     int
	Inst     string // instruction text
	Operand  string // operand text
	Access   Access
	Class    string // "arg-slot", "static", "frame", "pointer", "underived"
	Base     string
	Index    string
	Scale    int
	Off      int64
	Width    int      // best effort, 0 if unknown
	Origins  []string // parameter names, "SB", "SP"
	BadDefs  []string // definitions of the base that break the derivation
	Sym      string   // static symbol / slot name
	inst     *Inst
	operandI int
}

// ParamRef names a parameter of the Go declaration.
type ParamRef struct {
	Name  string
	Index int
}

// SlotUse is one use of an argument/result slot.
type SlotUse struct {
	Name  string
	Off   int64
	Line  int
	Write bool
	Inst  string
}

// SlotError is one disagreement between the assembly and the frame layout of
// the Go declaration.
type SlotError struct {
	Line int
	Msg  string
}

// InstNote points at one instruction.
type InstNote struct {
	Line   int
	Inst   string
	Reason string
}

// PtrStride is a pointer register stepped by immediates inside a loop.
type PtrStride struct {
	Reg         string
	Param       string
	ParamIndex  int
	Stride      int64 // bytes added per iteration
	EntryOffset int64 // offset from the parameter at loop entry
	EntryKnown  bool
}

// LoopAccess is a memory access inside a loop through a parameter-derived
// pointer; Off is relative to the value the register had at the loop head.
type LoopAccess struct {
	Param      string
	ParamIndex int
	Reg        string
	Off        int64
	Width      int
	Store      bool
	Line       int
}

// Loop describes a backward conditional jump.  When Counted, the loop is a
// straight-line do-while loop whose counter starts from an immediate (or an
// argument), is stepped by an immediate once per iteration and is compared
// with an immediate bound.
type Loop struct {
	Label     string
	HeadLine  int
	JumpLine  int
	Jump      *CondJump
	Counted   bool
	Why       string // why not Counted
	Counter   string
	InitKnown bool
	Init      int64
	InitArg   string // counter initialised from this argument slot (Init unknown)
	Step      int64
	Bound     int64
	Cond      string
	Trips     int64 // number of iterations; -1 if not a compile-time constant
	Strides   []PtrStride
	Accesses  []LoopAccess
}

// SymbolFacts is everything derived about one TEXT symbol.
type SymbolFacts struct {
	Pkg  string // module-relative package ("" if unknown)
	Name string
	Pos  string // file:line of the TEXT directive
	Sym  *Symbol
	Decl *Decl

	Instructions int
	ArgReads     []SlotUse
	PtrRegs      map[string][]string // parameter -> registers that hold a pointer derived from it
	Reads        []ParamRef          // pointer parameters used as load base
	Writes       []ParamRef          // pointer parameters used as store base
	StaticReads  []string
	StaticWrites []string
	ResultWrites []string // result slots written
	Jumps        []*CondJump
	UncondJumps  int
	MemOps       []*MemOp
	Indexed      []*MemOp // accessed memory operands with an index register
	Underived    []*MemOp // accessed memory operands whose base is not derived from a pointer argument, SB or SP
	Forbidden    []InstNote
	Unclassified []InstNote
	SlotErrors   []SlotError // disagreements with the Go declaration
	Errors       []string    // things the analysis could not make sense of (undefined label ...)
	Loops        []*Loop

	// Violations is the number of findings the lint reported for this symbol
	// (0 = the symbol passed every rule; E-CT admits its transfer function
	// "written pointer arguments are tainted if any argument is" only then).
	Violations int
}

// Name with package: "curve.lookupCached".
func (sf *SymbolFacts) QualifiedName() string {
	if sf.Pkg == "" {
		return sf.Name
	}
	return sf.Pkg + "." + sf.Name
}

// WritesParam reports whether the symbol stores through the named parameter.
func (sf *SymbolFacts) WritesParam(name string) bool {
	for _, w := range sf.Writes {
		if w.Name == name {
			return true
		}
	}
	return false
}

// MovImmediates returns, in program order, the immediates of every
// "MOVx $imm, reg" of the symbol (after macro expansion).  For keccakF1600
// these are exactly the round constants in order of use.
func (sf *SymbolFacts) MovImmediates() []uint64 {
	var out []uint64
	for _, in := range sf.Sym.Insts {
		if oi, ok := lookupOp(in.Mnemonic, len(in.Ops)); ok && oi.mov && len(in.Ops) == 2 && in.Ops[0].Kind == OpImm && in.Ops[1].Kind == OpReg {
			out = append(out, in.Ops[0].Imm)
		}
	}
	return out
}

// ---------------------------------------------------------------------------
// Per-instruction effects

type effect struct {
	regR, regW []string
	memR, memW []int // operand indices
	addrOnly   []int
	flagsR     bool
	flagsW     bool
	zero       bool // zero idiom: the result is the constant 0
}

func (e *effect) rReg(r string) {
	if r != "" {
		e.regR = appendUniq(e.regR, r)
	}
}
func (e *effect) wReg(r string) {
	if r != "" {
		e.regW = appendUniq(e.regW, r)
	}
}

func appendUniq(l []string, s string) []string {
	for _, x := range l {
		if x == s {
			return l
		}
	}
	return append(l, s)
}

func (e *effect) addr(op *Operand) {
	if op.Kind == OpMem {
		e.rReg(op.Base)
	}
	if op.Kind == OpMem || op.Kind == OpStatic {
		e.rReg(op.Index)
	}
}

func (e *effect) read(in *Inst, i int, addrOnly bool) {
	op := &in.Ops[i]
	switch op.Kind {
	case OpReg:
		e.rReg(op.Reg)
	case OpMem, OpStatic, OpFP:
		e.addr(op)
		if addrOnly {
			e.addrOnly = append(e.addrOnly, i)
		} else {
			e.memR = append(e.memR, i)
		}
	}
}

func (e *effect) write(in *Inst, i int) {
	op := &in.Ops[i]
	switch op.Kind {
	case OpReg:
		e.wReg(op.Reg)
	case OpMem, OpStatic, OpFP:
		e.addr(op)
		e.memW = append(e.memW, i)
	}
}

func effectsOf(in *Inst, oi opInfo) effect {
	var e effect
	n := len(in.Ops)
	e.flagsR, e.flagsW = oi.readsFlags, oi.setsFlags
	// zero idioms: XORQ AX, AX / PXOR X1, X1 / VPXOR Y2, Y2, Y2
	if oi.zeroIdiom && n >= 2 && in.Ops[0].Kind == OpReg && in.Ops[1].Kind == OpReg && in.Ops[0].Reg == in.Ops[1].Reg && in.Ops[n-1].Kind == OpReg {
		e.zero = true
		e.wReg(in.Ops[n-1].Reg)
		return e
	}
	switch oi.class {
	case cMove:
		for i := 0; i < n-1; i++ {
			e.read(in, i, oi.lea)
		}
		if n > 0 {
			e.write(in, n-1)
		}
	case cRMW:
		for i := 0; i < n; i++ {
			e.read(in, i, false)
		}
		if n > 0 {
			e.write(in, n-1)
		}
	case cRead, cPush, cMul1:
		for i := 0; i < n; i++ {
			e.read(in, i, false)
		}
	case cXchg:
		for i := 0; i < n; i++ {
			e.read(in, i, false)
			e.write(in, i)
		}
	case cPop:
		for i := 0; i < n; i++ {
			e.write(in, i)
		}
	case cMulx:
		if n == 3 {
			e.read(in, 0, false)
			e.rReg("DX")
			e.write(in, 1)
			e.write(in, 2)
		}
	case cJcc, cJmp, cCall:
		for i := 0; i < n; i++ {
			if k := in.Ops[i].Kind; k != OpLabel && k != OpPCRel {
				e.read(in, i, false)
			}
		}
		if oi.jccUsesCX {
			e.rReg("CX")
		}
	case cNone:
		// NOPL (AX): operand not accessed
		for i := 0; i < n; i++ {
			if oi.lea {
				e.read(in, i, true)
			}
		}
	}
	for _, r := range oi.implR {
		e.rReg(r)
	}
	for _, r := range oi.implW {
		e.wReg(r)
	}
	return e
}

// ---------------------------------------------------------------------------
// Analysis: CFG, reaching definitions, traces

const flagsReg = "FLAGS"

type rdState map[string][]int // register -> sorted definition sites; absent = {entry (-1)}

func (s rdState) get(r string) []int {
	if d, ok := s[r]; ok {
		return d
	}
	return []int{-1}
}

func unionInts(a, b []int) []int {
	out := make([]int, 0, len(a)+len(b))
	i, j := 0, 0
	for i < len(a) || j < len(b) {
		switch {
		case j >= len(b) || (i < len(a) && a[i] < b[j]):
			out = append(out, a[i])
			i++
		case i >= len(a) || b[j] < a[i]:
			out = append(out, b[j])
			j++
		default:
			out = append(out, a[i])
			i++
			j++
		}
	}
	return out
}

func equalInts(a, b []int) bool {
	if len(a) != len(b) {
		return false
	}
	for i := range a {
		if a[i] != b[i] {
			return false
		}
	}
	return true
}

type analysis struct {
	sym   *Symbol
	decl  *Decl
	info  []opInfo
	known []bool
	eff   []effect
	succ  [][]int

	blockOf    []int // instruction -> block number
	blockStart []int
	blockIn    []rdState
	useDefs    []map[string][]int // reaching definitions of the registers an instruction reads (+FLAGS)
	errors     []string
}

func (a *analysis) line(idx int) int {
	if idx < 0 || idx >= len(a.sym.Insts) {
		return a.sym.Line
	}
	return a.sym.Insts[idx].Line
}

func (a *analysis) where(idx int) string {
	if idx < 0 {
		return "entry"
	}
	in := a.sym.Insts[idx]
	if in.Macro != "" {
		return fmt.Sprintf("line %d (%s #%d): %s", in.Line, in.Macro, in.MacroSeq, in.Text)
	}
	return fmt.Sprintf("line %d: %s", in.Line, in.Text)
}

func newAnalysis(sym *Symbol, decl *Decl) *analysis {
	a := &analysis{sym: sym, decl: decl}
	n := len(sym.Insts)
	a.info = make([]opInfo, n)
	a.known = make([]bool, n)
	a.eff = make([]effect, n)
	a.succ = make([][]int, n)
	for i, in := range sym.Insts {
		oi, ok := lookupOp(in.Mnemonic, len(in.Ops))
		a.info[i], a.known[i] = oi, ok
		if ok {
			a.eff[i] = effectsOf(in, oi)
		} else {
			// unknown instruction: assume it reads every operand and writes
			// every register operand and the flags (it is reported anyway)
			var e effect
			for k := range in.Ops {
				e.read(in, k, false)
				if in.Ops[k].Kind == OpReg {
					e.wReg(in.Ops[k].Reg)
				}
			}
			e.flagsW = true
			a.eff[i] = e
		}
	}
	// successors
	for i, in := range sym.Insts {
		oi := a.info[i]
		next := func() {
			if i+1 < n {
				a.succ[i] = append(a.succ[i], i+1)
			}
		}
		target := func() {
			if len(in.Ops) != 1 {
				return
			}
			switch op := in.Ops[0]; op.Kind {
			case OpLabel:
				t, ok := sym.Labels[op.Sym]
				if !ok {
					a.errors = append(a.errors, fmt.Sprintf("line %d: jump to undefined label %s", in.Line, op.Sym))
					return
				}
				if t < n {
					a.succ[i] = append(a.succ[i], t)
				}
			case OpPCRel:
				t := i + int(op.Off)
				if t < 0 || t > n {
					a.errors = append(a.errors, fmt.Sprintf("line %d: PC-relative jump leaves the symbol", in.Line))
					return
				}
				if t < n {
					a.succ[i] = append(a.succ[i], t)
				}
			}
		}
		switch {
		case !a.known[i]:
			next()
		case oi.class == cRet:
		case oi.class == cJmp:
			target()
		case oi.class == cJcc:
			target()
			next()
		default:
			next()
		}
	}
	a.reachingDefs()
	return a
}

func (a *analysis) reachingDefs() {
	n := len(a.sym.Insts)
	if n == 0 {
		return
	}
	leader := make([]bool, n)
	leader[0] = true
	for i := 0; i < n; i++ {
		if len(a.succ[i]) != 1 || a.succ[i][0] != i+1 {
			if i+1 < n {
				leader[i+1] = true
			}
			for _, t := range a.succ[i] {
				leader[t] = true
			}
		}
	}
	for _, t := range a.sym.Labels {
		if t < n {
			leader[t] = true
		}
	}
	a.blockOf = make([]int, n)
	for i := 0; i < n; i++ {
		if leader[i] {
			a.blockStart = append(a.blockStart, i)
		}
		a.blockOf[i] = len(a.blockStart) - 1
	}
	nb := len(a.blockStart)
	blockEnd := func(b int) int {
		if b+1 < nb {
			return a.blockStart[b+1]
		}
		return n
	}
	a.blockIn = make([]rdState, nb)
	a.blockIn[0] = rdState{}
	transfer := func(st rdState, i int) {
		for _, w := range a.eff[i].regW {
			st[w] = []int{i}
		}
		if a.eff[i].flagsW {
			st[flagsReg] = []int{i}
		}
	}
	for changed := true; changed; {
		changed = false
		for b := 0; b < nb; b++ {
			if a.blockIn[b] == nil {
				continue
			}
			st := rdState{}
			for k, v := range a.blockIn[b] {
				st[k] = v
			}
			for i := a.blockStart[b]; i < blockEnd(b); i++ {
				transfer(st, i)
			}
			last := blockEnd(b) - 1
			for _, t := range a.succ[last] {
				tb := a.blockOf[t]
				if a.blockIn[tb] == nil {
					cp := rdState{}
					for k, v := range st {
						cp[k] = v
					}
					a.blockIn[tb] = cp
					changed = true
					continue
				}
				in := a.blockIn[tb]
				keys := map[string]bool{}
				for k := range in {
					keys[k] = true
				}
				for k := range st {
					keys[k] = true
				}
				for k := range keys {
					u := unionInts(in.get(k), st.get(k))
					if !equalInts(u, in.get(k)) {
						in[k] = u
						changed = true
					}
				}
			}
		}
	}
	// per-instruction snapshot for the registers each instruction reads
	a.useDefs = make([]map[string][]int, n)
	for b := 0; b < nb; b++ {
		if a.blockIn[b] == nil {
			continue // unreachable
		}
		st := rdState{}
		for k, v := range a.blockIn[b] {
			st[k] = v
		}
		for i := a.blockStart[b]; i < blockEnd(b); i++ {
			m := map[string][]int{}
			for _, r := range a.eff[i].regR {
				m[r] = st.get(r)
			}
			if a.eff[i].flagsR || a.info[i].class == cJcc {
				m[flagsReg] = st.get(flagsReg)
			}
			a.useDefs[i] = m
			transfer(st, i)
		}
	}
}

// defsAt returns the definitions of reg reaching instruction idx (before it
// executes), for any register.
func (a *analysis) defsAt(idx int, reg string) []int {
	if idx < len(a.useDefs) && a.useDefs[idx] != nil {
		if d, ok := a.useDefs[idx][reg]; ok {
			return d
		}
	}
	if idx >= len(a.blockOf) {
		return []int{-1}
	}
	b := a.blockOf[idx]
	if a.blockIn[b] == nil {
		return []int{-1}
	}
	d := a.blockIn[b].get(reg)
	for i := a.blockStart[b]; i < idx; i++ {
		for _, w := range a.eff[i].regW {
			if w == reg {
				d = []int{i}
			}
		}
		if reg == flagsReg && a.eff[i].flagsW {
			d = []int{i}
		}
	}
	return d
}

type defKind int

const (
	dkOther defKind = iota
	dkImm           // constant
	dkCopy          // MOVQ src, reg
	dkStep          // reg ± immediate
	dkMask          // reg & immediate
	dkLea           // LEAQ mem, reg
	dkArg           // load of an argument slot
	dkLoad          // load from memory
	dkAddr          // $sym(SB)
)

type defInfo struct {
	kind defKind
	src  string   // dkCopy: source register
	imm  int64    // dkImm: value; dkStep: signed amount
	op   *Operand // dkArg, dkLoad, dkLea: the source operand
	size int      // operand size of the defining instruction
	ext  bool     // zero/sign-extending move: the source is narrower than the destination
}

// defOf describes how instruction idx defines reg.
func (a *analysis) defOf(idx int, reg string) defInfo {
	in := a.sym.Insts[idx]
	oi := a.info[idx]
	di := defInfo{kind: dkOther, size: oi.size, ext: oi.srcSize != 0}
	if !a.known[idx] {
		return di
	}
	n := len(in.Ops)
	if n == 0 || in.Ops[n-1].Kind != OpReg || in.Ops[n-1].Reg != reg {
		return di // implicit definition (MULQ ...) or not the destination
	}
	if a.eff[idx].zero {
		di.kind, di.imm = dkImm, 0
		return di
	}
	vec := IsVectorReg(reg)
	switch {
	case oi.mov && n == 2:
		src := &in.Ops[0]
		full := oi.size >= 4 || vec
		switch src.Kind {
		case OpImm:
			if full {
				di.kind, di.imm = dkImm, src.Int()
			}
		case OpImmAddr:
			di.kind, di.op = dkAddr, src
		case OpReg:
			srcVec := IsVectorReg(src.Reg)
			if (!vec && !srcVec && oi.size == 8 && oi.srcSize == 0) || (vec && srcVec && (oi.size == 0 || oi.size == 16)) {
				di.kind, di.src = dkCopy, src.Reg
			}
		case OpFP:
			if full {
				di.kind, di.op = dkArg, src
			}
		case OpMem, OpStatic:
			if full {
				di.kind, di.op = dkLoad, src
			}
		}
	case oi.lea && n == 2:
		di.kind, di.op = dkLea, &in.Ops[0]
	case oi.step && n == 1:
		di.kind, di.imm = dkStep, 1
		if strings.HasPrefix(in.Mnemonic, "DEC") {
			di.imm = -1
		}
	case oi.step && n == 2 && in.Ops[0].Kind == OpImm:
		di.kind, di.imm = dkStep, in.Ops[0].Int()
		if strings.HasPrefix(in.Mnemonic, "SUB") {
			di.imm = -di.imm
		}
	case oi.mask && n == 2 && in.Ops[0].Kind == OpImm:
		di.kind, di.imm = dkMask, in.Ops[0].Int()
	}
	return di
}

// ptrTrace is the result of tracing a base register back to its origins.
type ptrTrace struct {
	origins []string // parameter names, "SB", "SP"
	bad     []string
}

func (t *ptrTrace) clean() bool { return len(t.bad) == 0 && len(t.origins) > 0 }

type defNode struct {
	idx int
	reg string
}

// ptrOrigin traces the value of reg as read by instruction idx.
func (a *analysis) ptrOrigin(idx int, reg string) ptrTrace {
	return a.ptrOriginDefs(a.defsAt(idx, reg), reg)
}

func (a *analysis) ptrOriginDefs(defs []int, reg string) ptrTrace {
	var t ptrTrace
	seen := map[defNode]bool{}
	var work []defNode
	push := func(ds []int, r string) {
		for _, d := range ds {
			nd := defNode{d, r}
			if !seen[nd] {
				seen[nd] = true
				work = append(work, nd)
			}
		}
	}
	push(defs, reg)
	for len(work) > 0 {
		nd := work[len(work)-1]
		work = work[:len(work)-1]
		if nd.idx < 0 {
			if nd.reg == "SP" {
				t.origins = appendUniq(t.origins, "SP")
			} else {
				t.bad = appendUniq(t.bad, fmt.Sprintf("%s is not initialised inside the symbol", nd.reg))
			}
			continue
		}
		di := a.defOf(nd.idx, nd.reg)
		switch di.kind {
		case dkArg:
			name := di.op.Sym
			p := a.decl.Param(name)
			if p == nil && a.decl != nil {
				// name_base of a slice/string, name_data of an interface
				for _, suf := range []string{"_base", "_data"} {
					if q := a.decl.Param(strings.TrimSuffix(name, suf)); q != nil && strings.HasSuffix(name, suf) &&
						((suf == "_base" && (q.Kind == "slice" || q.Kind == "string")) || (suf == "_data" && q.Kind == "interface")) {
						cp := *q
						cp.Pointer = true
						if suf == "_data" {
							cp.Offset += 8
						}
						p, name = &cp, q.Name
					}
				}
			}
			switch {
			case di.size != 8 || di.ext:
				t.bad = appendUniq(t.bad, "partial load of an argument: "+a.where(nd.idx))
			case a.decl == nil:
				t.origins = appendUniq(t.origins, name) // no declaration: reported by the declaration rule
			case p == nil:
				t.bad = appendUniq(t.bad, "load of an unknown argument slot: "+a.where(nd.idx))
			case !p.Pointer || p.Result:
				t.bad = appendUniq(t.bad, "argument "+name+" is not a pointer: "+a.where(nd.idx))
			case di.op.Off != p.Offset:
				t.bad = appendUniq(t.bad, "argument slot offset mismatch: "+a.where(nd.idx))
			default:
				t.origins = appendUniq(t.origins, name)
			}
		case dkCopy:
			push(a.defsAt(nd.idx, di.src), di.src)
		case dkStep, dkMask:
			if di.size != 8 {
				t.bad = appendUniq(t.bad, "pointer arithmetic narrower than 64 bits: "+a.where(nd.idx))
				break
			}
			push(a.defsAt(nd.idx, nd.reg), nd.reg)
		case dkAddr:
			t.origins = appendUniq(t.origins, "SB")
		case dkLea:
			op := di.op
			switch {
			case op.Index != "":
				t.bad = appendUniq(t.bad, "address computed with an index register: "+a.where(nd.idx))
			case op.Kind == OpStatic:
				t.origins = appendUniq(t.origins, "SB")
			case op.Kind == OpFP:
				t.origins = appendUniq(t.origins, "SP") // address of a frame slot
			case op.Kind == OpMem && op.Base != "":
				push(a.defsAt(nd.idx, op.Base), op.Base)
			default:
				t.bad = appendUniq(t.bad, "address without base: "+a.where(nd.idx))
			}
		default:
			t.bad = appendUniq(t.bad, "defined by "+a.where(nd.idx))
		}
	}
	sort.Strings(t.origins)
	return t
}

// classify traces the value of reg as read by instruction idx.
func (a *analysis) classify(idx int, reg string) ValueOrigin {
	vo := ValueOrigin{What: reg}
	a.classifyInto(&vo, a.defsAt(idx, reg), reg, idx)
	return vo
}

func (vo *ValueOrigin) raise(c ValueClass) {
	if c > vo.Class {
		vo.Class = c
	}
}

const maxNotes = 6

func addNote(l []string, s string) []string {
	for _, x := range l {
		if x == s {
			return l
		}
	}
	if len(l) == maxNotes {
		return append(l, "...")
	}
	if len(l) > maxNotes {
		return l
	}
	return append(l, s)
}

// memRead folds a direct memory read by instruction idx into vo.
func (a *analysis) memRead(vo *ValueOrigin, idx int, op *Operand) {
	switch op.Kind {
	case OpFP:
		vo.raise(ValArg)
		vo.Args = appendUniq(vo.Args, op.Sym)
	case OpStatic:
		vo.raise(ValUnknown)
		if vo.Why == "" {
			vo.Why = "loaded from static data: " + a.where(idx)
		}
	case OpMem:
		t := ptrTrace{}
		if op.Base != "" {
			t = a.ptrOrigin(idx, op.Base)
		}
		if t.clean() && len(t.origins) == 1 && t.origins[0] == "SP" && op.Index == "" {
			vo.raise(ValUnknown)
			if vo.Why == "" {
				vo.Why = "loaded from the stack frame (not tracked): " + a.where(idx)
			}
			return
		}
		vo.raise(ValMem)
		vo.Loads = addNote(vo.Loads, a.where(idx))
	}
}

func (a *analysis) classifyInto(vo *ValueOrigin, defs []int, reg string, at int) {
	seen := map[defNode]bool{}
	var work []defNode
	push := func(ds []int, r string) {
		for _, d := range ds {
			nd := defNode{d, r}
			if !seen[nd] {
				seen[nd] = true
				work = append(work, nd)
			}
		}
	}
	push(defs, reg)
	for len(work) > 0 {
		nd := work[len(work)-1]
		work = work[:len(work)-1]
		if nd.idx < 0 {
			vo.raise(ValUnknown)
			if vo.Why == "" {
				vo.Why = fmt.Sprintf("%s may be used without being defined inside the symbol", nd.reg)
			}
			continue
		}
		vo.Defs = addNote(vo.Defs, a.where(nd.idx))
		di := a.defOf(nd.idx, nd.reg)
		switch di.kind {
		case dkImm:
			vo.raise(ValImm)
		case dkStep:
			vo.raise(ValImmStep)
			push(a.defsAt(nd.idx, nd.reg), nd.reg)
		case dkCopy:
			push(a.defsAt(nd.idx, di.src), di.src)
		case dkArg:
			vo.raise(ValArg)
			vo.Args = appendUniq(vo.Args, di.op.Sym)
		case dkLoad:
			a.memRead(vo, nd.idx, di.op)
		default:
			// computed: not admissible by itself; keep tracing the inputs so that
			// a data-dependent source is named in the diagnosis
			vo.raise(ValUnknown)
			vo.Computed = addNote(vo.Computed, a.where(nd.idx))
			if vo.Why == "" {
				vo.Why = "computed by " + a.where(nd.idx)
			}
			e := a.eff[nd.idx]
			for _, r := range e.regR {
				push(a.defsAt(nd.idx, r), r)
			}
			for _, oi := range e.memR {
				a.memRead(vo, nd.idx, &a.sym.Insts[nd.idx].Ops[oi])
			}
		}
	}
	sort.Strings(vo.Args)
}

// ---------------------------------------------------------------------------
// Analyze

// Analyze derives the facts of one TEXT symbol.  decl may be nil (no Go
// declaration known); pointer arguments are then taken on trust from the
// slot names and the declaration rule reports the missing declaration.
func Analyze(sym *Symbol, decl *Decl) *SymbolFacts {
	a := newAnalysis(sym, decl)
	sf := &SymbolFacts{Name: sym.Name, Sym: sym, Decl: decl, Instructions: len(sym.Insts), PtrRegs: map[string][]string{}}
	if decl != nil {
		sf.Pkg = decl.Pkg
	}
	sf.Pos = fmt.Sprintf("%s:%d", sym.File, sym.Line)
	sf.Errors = append(sf.Errors, a.errors...)

	reads, writes := map[string]bool{}, map[string]bool{}
	sreads, swrites := map[string]bool{}, map[string]bool{}
	reswrites := map[string]bool{}

	for idx, in := range sym.Insts {
		oi := a.info[idx]
		if !a.known[idx] {
			sf.Unclassified = append(sf.Unclassified, InstNote{in.Line, in.Where(), "mnemonic is not in the checker's instruction table"})
		} else {
			if oi.forbidden != "" {
				sf.Forbidden = append(sf.Forbidden, InstNote{in.Line, in.Where(), oi.forbidden})
			}
			if oi.unmodelled != "" {
				sf.Unclassified = append(sf.Unclassified, InstNote{in.Line, in.Where(), "effects not modelled: " + oi.unmodelled})
			}
			if oi.class == cJmp || oi.class == cJcc || oi.class == cCall {
				bad := len(in.Ops) != 1
				for _, op := range in.Ops {
					switch op.Kind {
					case OpLabel, OpPCRel:
					case OpReg:
						bad = true
						sf.Forbidden = append(sf.Forbidden, InstNote{in.Line, in.Where(), "jump through a register"})
					case OpMem, OpStatic, OpFP:
						bad = true
						if op.Index != "" {
							sf.Forbidden = append(sf.Forbidden, InstNote{in.Line, in.Where(), "table-indexed jump"})
						} else if oi.class != cCall {
							sf.Forbidden = append(sf.Forbidden, InstNote{in.Line, in.Where(), "jump through memory or to another symbol"})
						}
					default:
						bad = true
						sf.Forbidden = append(sf.Forbidden, InstNote{in.Line, in.Where(), "unexpected jump operand"})
					}
				}
				if bad && len(in.Ops) != 1 {
					sf.Forbidden = append(sf.Forbidden, InstNote{in.Line, in.Where(), "jump with an unexpected number of operands"})
				}
				if oi.class == cJmp {
					sf.UncondJumps++
				}
			}
		}

		e := a.eff[idx]
		acc := map[int]Access{}
		for _, i := range e.memR {
			acc[i] = Load
		}
		for _, i := range e.memW {
			if _, ok := acc[i]; ok {
				acc[i] = LoadStore
			} else {
				acc[i] = Store
			}
		}
		for _, i := range e.addrOnly {
			acc[i] = AddressOnly
		}
		for i := range in.Ops {
			op := &in.Ops[i]
			if op.Kind != OpMem && op.Kind != OpStatic && op.Kind != OpFP {
				continue
			}
			ac, ok := acc[i]
			if !ok {
				ac = Load // operand of an instruction the table gives no effects for
			}
			mo := &MemOp{Line: in.Line, Inst: in.Where(), Operand: op.Text, Access: ac, Base: op.Base, Index: op.Index, Scale: op.Scale,
				Off: op.Off, Sym: op.Sym, inst: in, operandI: i}
			if a.known[idx] {
				mo.Width = accessWidth(in, oi, i)
			}
			switch op.Kind {
			case OpFP:
				mo.Class = "arg-slot"
				wr := ac == Store || ac == LoadStore
				sf.ArgReads = append(sf.ArgReads, SlotUse{Name: op.Sym, Off: op.Off, Line: in.Line, Write: wr, Inst: in.Where()})
				if wr {
					reswrites[op.Sym] = true
				}
			case OpStatic:
				mo.Class = "static"
				mo.Origins = []string{"SB"}
				name, _ := staticName(op.Sym)
				if ac == Load || ac == LoadStore {
					sreads[name] = true
				}
				if ac == Store || ac == LoadStore {
					swrites[name] = true
				}
			case OpMem:
				if op.Base == "" {
					mo.Class = "underived"
					mo.BadDefs = []string{"memory operand without a base register"}
					break
				}
				t := a.ptrOrigin(idx, op.Base)
				mo.Origins, mo.BadDefs = t.origins, t.bad
				switch {
				case !t.clean():
					mo.Class = "underived"
				case len(t.origins) == 1 && t.origins[0] == "SP":
					mo.Class = "frame"
				case len(t.origins) == 1 && t.origins[0] == "SB":
					mo.Class = "static"
				default:
					mo.Class = "pointer"
				}
				for _, o := range t.origins {
					if o == "SP" || o == "SB" {
						continue
					}
					sf.PtrRegs[o] = appendUniq(sf.PtrRegs[o], op.Base)
					if ac == Load || ac == LoadStore {
						reads[o] = true
					}
					if ac == Store || ac == LoadStore {
						writes[o] = true
					}
				}
			}
			sf.MemOps = append(sf.MemOps, mo)
			if ac != AddressOnly {
				if mo.Index != "" {
					sf.Indexed = append(sf.Indexed, mo)
				}
				if mo.Class == "underived" {
					sf.Underived = append(sf.Underived, mo)
				}
			}
		}
		// registers that hold a pointer derived from an argument after this instruction
		for _, w := range e.regW {
			if IsVectorReg(w) || w == "SP" {
				continue
			}
			if t := a.ptrOriginDefs([]int{idx}, w); t.clean() {
				for _, o := range t.origins {
					if o != "SP" && o != "SB" {
						sf.PtrRegs[o] = appendUniq(sf.PtrRegs[o], w)
					}
				}
			}
		}
	}
	for k := range sf.PtrRegs {
		sort.Strings(sf.PtrRegs[k])
	}
	sf.Reads = a.paramRefs(reads)
	sf.Writes = a.paramRefs(writes)
	sf.StaticReads = sortedKeys(sreads)
	sf.StaticWrites = sortedKeys(swrites)
	sf.ResultWrites = sortedKeys(reswrites)

	a.condJumps(sf)
	a.loops(sf)
	a.checkSlots(sf)
	return sf
}

func sortedKeys(m map[string]bool) []string {
	var out []string
	for k := range m {
		out = append(out, k)
	}
	sort.Strings(out)
	return out
}

func (a *analysis) paramRefs(m map[string]bool) []ParamRef {
	var out []ParamRef
	for name := range m {
		pr := ParamRef{Name: name, Index: -1}
		if p := a.decl.Param(name); p != nil {
			pr.Index = p.Index
		}
		out = append(out, pr)
	}
	sort.Slice(out, func(i, j int) bool {
		if out[i].Index != out[j].Index {
			return out[i].Index < out[j].Index
		}
		return out[i].Name < out[j].Name
	})
	return out
}

// condJumps fills sf.Jumps.
func (a *analysis) condJumps(sf *SymbolFacts) {
	for idx, in := range a.sym.Insts {
		oi := a.info[idx]
		if !a.known[idx] || oi.class != cJcc {
			continue
		}
		cj := &CondJump{Ordinal: len(sf.Jumps) + 1, Line: in.Line, Mnemonic: in.Mnemonic, Cond: oi.condCanon, inst: in}
		if oi.jccUsesCX {
			cj.Cond = "CX"
		}
		if len(in.Ops) == 1 {
			cj.Target = in.Ops[0].Text
			if in.Ops[0].Kind == OpLabel {
				if t, ok := a.sym.Labels[in.Ops[0].Sym]; ok {
					cj.TargetLine = a.sym.LabelLine[in.Ops[0].Sym]
					cj.Back = t <= idx
				}
			} else if in.Ops[0].Kind == OpPCRel {
				cj.Back = in.Ops[0].Off <= 0
			}
		}
		if a.useDefs[idx] == nil {
			cj.Problems = append(cj.Problems, "the jump is unreachable inside the symbol; its flags cannot be traced")
			cj.Class = ValUnknown
			sf.Jumps = append(sf.Jumps, cj)
			continue
		}
		if oi.jccUsesCX {
			vo := a.classify(idx, "CX")
			cj.Controls = append(cj.Controls, vo)
		}
		if oi.readsFlags {
			setters := a.useDefs[idx][flagsReg]
			for _, s := range setters {
				if s < 0 {
					cj.Problems = append(cj.Problems, "the flags may come from before the symbol's entry")
					continue
				}
				sin := a.sym.Insts[s]
				cj.Setters = append(cj.Setters, FlagSetter{sin.Line, sin.Where()})
				if !a.known[s] {
					cj.Problems = append(cj.Problems, "flags set by an unclassified instruction: "+a.where(s))
					continue
				}
				if a.info[s].keepsCF && oi.jccUsesCF {
					cj.Problems = append(cj.Problems, "carry flag consumed after INC/DEC, which does not write it: "+a.where(s))
				}
				e := a.eff[s]
				if e.zero {
					cj.Controls = append(cj.Controls, ValueOrigin{What: "0", Class: ValImm})
					continue
				}
				if e.flagsR {
					cj.Problems = append(cj.Problems, "flag-setting instruction itself consumes flags: "+a.where(s))
				}
				for _, r := range e.regR {
					cj.Controls = append(cj.Controls, a.classify(s, r))
				}
				for _, mi := range e.memR {
					op := &sin.Ops[mi]
					vo := ValueOrigin{What: op.Text}
					a.memRead(&vo, s, op)
					cj.Controls = append(cj.Controls, vo)
				}
			}
		}
		args := map[string]bool{}
		for _, c := range cj.Controls {
			if c.Class > cj.Class {
				cj.Class = c.Class
			}
			for _, x := range c.Args {
				args[x] = true
			}
		}
		if len(cj.Problems) > 0 && cj.Class < ValUnknown {
			cj.Class = ValUnknown
		}
		cj.Args = sortedKeys(args)
		sf.Jumps = append(sf.Jumps, cj)
	}
}

// ---------------------------------------------------------------------------
// Loop shapes

func evalCond(cond string, x, y int64) (bool, bool) {
	switch cond {
	case "EQ":
		return x == y, true
	case "NE":
		return x != y, true
	case "LT":
		return x < y, true
	case "LE":
		return x <= y, true
	case "GT":
		return x > y, true
	case "GE":
		return x >= y, true
	case "LO":
		return uint64(x) < uint64(y), true
	case "HS":
		return uint64(x) >= uint64(y), true
	case "HI":
		return uint64(x) > uint64(y), true
	case "LS":
		return uint64(x) <= uint64(y), true
	case "MI":
		return x-y < 0, true
	case "PL":
		return x-y >= 0, true
	}
	return false, false
}

var swapCond = map[string]string{"EQ": "EQ", "NE": "NE", "LT": "GT", "LE": "GE", "GT": "LT", "GE": "LE", "LO": "HI", "HS": "LS", "HI": "LO", "LS": "HS"}

const tripCap = 1 << 20

func (a *analysis) loops(sf *SymbolFacts) {
	for _, cj := range sf.Jumps {
		if !cj.Back || cj.inst == nil || len(cj.inst.Ops) != 1 || cj.inst.Ops[0].Kind != OpLabel {
			continue
		}
		j := cj.inst.Index
		h := a.sym.Labels[cj.inst.Ops[0].Sym]
		lp := &Loop{Label: cj.inst.Ops[0].Sym, HeadLine: a.line(h), JumpLine: cj.Line, Jump: cj, Cond: cj.Cond, Trips: -1}
		sf.Loops = append(sf.Loops, lp)
		a.loopShape(lp, h, j)
		a.loopPointers(sf, lp, h, j)
	}
}

func (a *analysis) loopShape(lp *Loop, h, j int) {
	fail := func(format string, x ...any) { lp.Why = fmt.Sprintf(format, x...) }
	// the body must be straight-line code
	for i := h; i < j; i++ {
		if c := a.info[i].class; !a.known[i] || c == cJcc || c == cJmp || c == cRet || c == cCall {
			fail("the loop body contains control flow at line %d", a.line(i))
			return
		}
	}
	for lbl, t := range a.sym.Labels {
		if t > h && t <= j {
			fail("label %s inside the loop body", lbl)
			return
		}
	}
	if a.useDefs[j] == nil {
		fail("unreachable")
		return
	}
	setters := a.useDefs[j][flagsReg]
	if len(setters) != 1 || setters[0] < h || setters[0] > j {
		fail("the flags of the loop test are not set by a single instruction of the body")
		return
	}
	s := setters[0]
	sin := a.sym.Insts[s]
	soi := a.info[s]
	cond := lp.Cond
	var counter string
	var bound int64
	afterStep := false // the compared value is the result of the setter itself
	switch {
	case strings.HasPrefix(sin.Mnemonic, "CMP") && len(sin.Ops) == 2 && sin.Ops[0].Kind == OpReg && sin.Ops[1].Kind == OpImm:
		counter, bound = sin.Ops[0].Reg, sin.Ops[1].Int()
	case strings.HasPrefix(sin.Mnemonic, "CMP") && len(sin.Ops) == 2 && sin.Ops[0].Kind == OpImm && sin.Ops[1].Kind == OpReg:
		counter, bound = sin.Ops[1].Reg, sin.Ops[0].Int()
		cond = swapCond[cond]
	case strings.HasPrefix(sin.Mnemonic, "TEST") && len(sin.Ops) == 2 && sin.Ops[0].Kind == OpReg && sin.Ops[1].Kind == OpReg && sin.Ops[0].Reg == sin.Ops[1].Reg:
		counter, bound = sin.Ops[0].Reg, 0
	case soi.step && a.defOf(s, lastReg(sin)).kind == dkStep:
		counter, bound, afterStep = lastReg(sin), 0, true
	default:
		fail("loop test %q is not a comparison of a register with an immediate", sin.Text)
		return
	}
	if cond == "" {
		fail("condition %s not supported", lp.Cond)
		return
	}
	if _, ok := evalCond(cond, 0, 0); !ok {
		fail("condition %s not supported", cond)
		return
	}
	lp.Counter, lp.Bound, lp.Cond = counter, bound, cond
	// definitions of the counter reaching the test
	var defs []int
	if afterStep {
		defs = []int{s}
	} else {
		defs = a.defsAt(s, counter)
	}
	// inside the body exactly one step; collect the outside (initial) definitions through it
	var stepIdx = -1
	var outside []int
	var work = append([]int(nil), defs...)
	seen := map[int]bool{}
	for len(work) > 0 {
		d := work[len(work)-1]
		work = work[:len(work)-1]
		if seen[d] {
			continue
		}
		seen[d] = true
		if d >= h && d <= j {
			di := a.defOf(d, counter)
			if di.kind != dkStep {
				fail("counter %s is redefined inside the loop by %s", counter, a.where(d))
				return
			}
			if stepIdx >= 0 && stepIdx != d {
				fail("counter %s is stepped more than once per iteration", counter)
				return
			}
			stepIdx = d
			lp.Step = di.imm
			work = append(work, a.defsAt(d, counter)...)
		} else {
			outside = append(outside, d)
		}
	}
	if stepIdx < 0 {
		fail("counter %s is not stepped inside the loop", counter)
		return
	}
	if len(outside) == 0 {
		fail("counter %s has no initial definition", counter)
		return
	}
	first := true
	for _, d := range outside {
		if d < 0 {
			fail("counter %s is not initialised inside the symbol", counter)
			return
		}
		// follow plain copies/steps? keep it simple: the initial definition must be an immediate or an argument load
		di := a.defOf(d, counter)
		switch di.kind {
		case dkImm:
			if !first && (!lp.InitKnown || lp.Init != di.imm) {
				fail("counter %s has several different initial values", counter)
				return
			}
			lp.InitKnown, lp.Init = true, di.imm
		case dkArg:
			if !first && lp.InitArg != di.op.Sym {
				fail("counter %s has several different initial values", counter)
				return
			}
			lp.InitArg = di.op.Sym
		default:
			fail("counter %s is initialised by %s", counter, a.where(d))
			return
		}
		first = false
	}
	if lp.InitKnown && lp.InitArg != "" {
		fail("counter %s has several different initial values", counter)
		return
	}
	lp.Counted = true
	if !lp.InitKnown {
		return
	}
	stepBeforeTest := stepIdx <= s
	c := lp.Init
	var trips int64
	for trips < tripCap {
		trips++
		if stepBeforeTest {
			c += lp.Step
		}
		again, _ := evalCond(cond, c, bound)
		if !again {
			lp.Trips = trips
			return
		}
		if !stepBeforeTest {
			c += lp.Step
		}
	}
	lp.Why = "trip count exceeds the simulation cap"
}

func lastReg(in *Inst) string {
	if n := len(in.Ops); n > 0 && in.Ops[n-1].Kind == OpReg {
		return in.Ops[n-1].Reg
	}
	return ""
}

// entryOffset follows a linear chain of definitions back to an argument load.
func (a *analysis) entryOffset(defs []int, reg string) (param string, off int64, ok bool) {
	for steps := 0; steps < 64; steps++ {
		if len(defs) != 1 || defs[0] < 0 {
			return "", 0, false
		}
		d := defs[0]
		di := a.defOf(d, reg)
		switch di.kind {
		case dkArg:
			return di.op.Sym, off, true
		case dkStep:
			off += di.imm
			defs = a.defsAt(d, reg)
		case dkCopy:
			defs, reg = a.defsAt(d, di.src), di.src
		case dkLea:
			if di.op.Kind != OpMem || di.op.Index != "" || di.op.Base == "" {
				return "", 0, false
			}
			off += di.op.Off
			defs, reg = a.defsAt(d, di.op.Base), di.op.Base
		default:
			return "", 0, false
		}
	}
	return "", 0, false
}

func (a *analysis) loopPointers(sf *SymbolFacts, lp *Loop, h, j int) {
	delta := map[string]int64{} // register -> bytes added so far in this iteration
	stepped := map[string]bool{}
	var order []string
	for i := h; i <= j; i++ {
		in := a.sym.Insts[i]
		// accesses first (they use the value before this instruction's write)
		for k := range in.Ops {
			op := &in.Ops[k]
			if op.Kind != OpMem || op.Base == "" {
				continue
			}
			var mo *MemOp
			for _, m := range sf.MemOps {
				if m.inst == in && m.operandI == k {
					mo = m
				}
			}
			if mo == nil || mo.Class != "pointer" || mo.Access == AddressOnly {
				continue
			}
			for _, o := range mo.Origins {
				if o == "SP" || o == "SB" {
					continue
				}
				la := LoopAccess{Param: o, ParamIndex: -1, Reg: op.Base, Off: op.Off + delta[op.Base], Width: mo.Width,
					Store: mo.Access == Store || mo.Access == LoadStore, Line: in.Line}
				if p := a.decl.Param(o); p != nil {
					la.ParamIndex = p.Index
				}
				lp.Accesses = append(lp.Accesses, la)
			}
		}
		for _, w := range a.eff[i].regW {
			if IsVectorReg(w) {
				continue
			}
			di := a.defOf(i, w)
			switch {
			case di.kind == dkStep && di.size == 8:
				delta[w] += di.imm
				if !stepped[w] {
					stepped[w] = true
					order = append(order, w)
				}
			case di.kind == dkLea && di.op.Kind == OpMem && di.op.Base == w && di.op.Index == "":
				delta[w] += di.op.Off
				if !stepped[w] {
					stepped[w] = true
					order = append(order, w)
				}
			default:
				delete(delta, w)
				if stepped[w] {
					stepped[w] = false
				}
			}
		}
	}
	for _, r := range order {
		if !stepped[r] {
			continue
		}
		// origin of the register at the loop head, from outside the loop
		var outside []int
		for _, d := range a.defsAt(h, r) {
			if d < h || d > j {
				outside = append(outside, d)
			}
		}
		t := a.ptrOriginDefs(a.defsAt(h, r), r)
		if !t.clean() {
			continue
		}
		for _, o := range t.origins {
			if o == "SP" || o == "SB" {
				continue
			}
			ps := PtrStride{Reg: r, Param: o, ParamIndex: -1, Stride: delta[r]}
			if p := a.decl.Param(o); p != nil {
				ps.ParamIndex = p.Index
			}
			if prm, off, ok := a.entryOffset(outside, r); ok && prm == o {
				ps.EntryOffset, ps.EntryKnown = off, true
			}
			lp.Strides = append(lp.Strides, ps)
		}
	}
}

// ---------------------------------------------------------------------------
// Slots against the Go declaration

func (a *analysis) checkSlots(sf *SymbolFacts) {
	d := a.decl
	if d == nil {
		return
	}
	if a.sym.HasArgSize && a.sym.ArgSize != d.ArgSize {
		sf.SlotErrors = append(sf.SlotErrors, SlotError{a.sym.Line, fmt.Sprintf("TEXT declares %d bytes of arguments, the Go declaration has %d", a.sym.ArgSize, d.ArgSize)})
	}
	for _, u := range sf.ArgReads {
		if msg := checkSlot(d, u); msg != "" {
			sf.SlotErrors = append(sf.SlotErrors, SlotError{u.Line, fmt.Sprintf("%s: %s", u.Inst, msg)})
		}
	}
}

var componentSuffix = map[string][]struct {
	suf string
	off int64
}{
	"string":    {{"_base", 0}, {"_len", 8}},
	"slice":     {{"_base", 0}, {"_len", 8}, {"_cap", 16}},
	"interface": {{"_type", 0}, {"_itab", 0}, {"_data", 8}},
}

func checkSlot(d *Decl, u SlotUse) string {
	if u.Name == "" {
		return fmt.Sprintf("unnamed frame reference %d(FP)", u.Off)
	}
	// exact parameter
	if p := d.Param(u.Name); p != nil {
		if u.Write && !p.Result {
			return fmt.Sprintf("writes the argument slot %s", u.Name)
		}
		switch p.Kind {
		case "pointer", "basic":
			if u.Off != p.Offset {
				return fmt.Sprintf("slot %s+%d(FP): the Go declaration places %s at offset %d", u.Name, u.Off, u.Name, p.Offset)
			}
		default:
			if u.Off < p.Offset || u.Off >= p.Offset+p.Size {
				return fmt.Sprintf("slot %s+%d(FP) is outside [%d,%d) of %s", u.Name, u.Off, p.Offset, p.Offset+p.Size, u.Name)
			}
		}
		return ""
	}
	// component of a composite parameter
	for i := range d.Params {
		p := &d.Params[i]
		if p.Name == "" || !strings.HasPrefix(u.Name, p.Name+"_") {
			continue
		}
		if comps, ok := componentSuffix[p.Kind]; ok {
			for _, c := range comps {
				if u.Name == p.Name+c.suf {
					if u.Off != p.Offset+c.off {
						return fmt.Sprintf("slot %s+%d(FP): expected offset %d", u.Name, u.Off, p.Offset+c.off)
					}
					return ""
				}
			}
			return fmt.Sprintf("slot %s is not a component of %s %s", u.Name, p.Kind, p.Name)
		}
		if p.Kind == "other" {
			if u.Off < p.Offset || u.Off >= p.Offset+p.Size {
				return fmt.Sprintf("slot %s+%d(FP) is outside [%d,%d) of %s", u.Name, u.Off, p.Offset, p.Offset+p.Size, p.Name)
			}
			return ""
		}
	}
	var names []string
	for _, p := range d.Params {
		names = append(names, fmt.Sprintf("%s+%d", p.Name, p.Offset))
	}
	return fmt.Sprintf("slot %s+%d(FP) does not name a parameter of the Go declaration (%s)", u.Name, u.Off, strings.Join(names, ", "))
}
