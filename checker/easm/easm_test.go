package easm

import (
	"fmt"
	"os"
	"path/filepath"
	"strings"
	"sync"
	"testing"

	"voicheck/load"
	"voicheck/report"
)

// These tests never build or run repository code: they read /repo's .s
// files (or in-memory edits of them) and the type-checked Go declarations.
//
//	cd /verif/checker && VOI_VERIF=/tmp/easm-verif go test ./easm/

func TestPositiveControl(t *testing.T) {
	if err := PositiveControl(); err != nil {
		t.Fatal(err)
	}
}

func TestOperands(t *testing.T) {
	cases := []struct {
		in   string
		want string
	}{
		{"$0x10", "imm 16"},
		{"$-1", "imm 18446744073709551615"},
		{"$(3*8+1)", "imm 25"},
		{"AX", "reg AX"},
		{"AL", "reg AX"},
		{"R15B", "reg R15"},
		{"Y11", "reg V11"},
		{"(AX)", "mem base=AX idx= scale=0 off=0"},
		{"-8(BP)", "mem base=BP idx= scale=0 off=-8"},
		{"(0*8)(DI)", "mem base=DI idx= scale=0 off=0"},
		{"(24*8)(SP)", "mem base=SP idx= scale=0 off=192"},
		{"16(AX)(BX*8)", "mem base=AX idx=BX scale=8 off=16"},
		{"(AX)(X3*4)", "mem base=AX idx=V3 scale=4 off=0"},
		{"8(CX*2)", "mem base= idx=CX scale=2 off=8"},
		{"x-8(SP)", "mem base=SP idx= scale=0 off=-8"},
		{"out+0(FP)", "fp out 0"},
		{"xabs+16(FP)", "fp xabs 16"},
		{"cached_id_0<>+0(SB)", "static cached_id_0<> 0 idx="},
		{"·tbl+8(SB)(AX*8)", "static ·tbl 8 idx=AX"},
		{"$·tbl(SB)", "immaddr ·tbl 0"},
		{"loop", "label loop"},
		{"2(PC)", "pcrel 2"},
	}
	for _, c := range cases {
		op, err := parseOperand(c.in)
		if err != nil {
			t.Errorf("%s: %v", c.in, err)
			continue
		}
		var got string
		switch op.Kind {
		case OpImm:
			got = fmt.Sprintf("imm %d", op.Imm)
		case OpReg:
			got = "reg " + op.Reg
		case OpMem:
			got = fmt.Sprintf("mem base=%s idx=%s scale=%d off=%d", op.Base, op.Index, op.Scale, op.Off)
		case OpFP:
			got = fmt.Sprintf("fp %s %d", op.Sym, op.Off)
		case OpStatic:
			got = fmt.Sprintf("static %s %d idx=%s", op.Sym, op.Off, op.Index)
		case OpImmAddr:
			got = fmt.Sprintf("immaddr %s %d", op.Sym, op.Off)
		case OpLabel:
			got = "label " + op.Sym
		case OpPCRel:
			got = fmt.Sprintf("pcrel %d", op.Off)
		}
		if got != c.want {
			t.Errorf("%s: got %q want %q", c.in, got, c.want)
		}
	}
	for _, bad := range []string{"", "(AX", "$foo", "12", "8(QQ)"} {
		if op, err := parseOperand(bad); err == nil && op.Kind != OpLabel {
			t.Errorf("%q: expected an error, got %+v", bad, op)
		}
	}
}

func TestWriteVsRead(t *testing.T) {
	src := `TEXT ·f(SB), 4, $0-8
	MOVQ p+0(FP), AX
	CMPQ 8(AX), $1
	TESTQ $1, 16(AX)
	BTQ $1, 24(AX)
	PREFETCHT0 32(AX)
	VPTEST 40(AX), Y1
	ADDQ $1, 48(AX)
	VMOVDQU Y0, 56(AX)
	MOVOU X0, 64(AX)
	VPADDQ 72(AX), Y0, Y1
	VEXTRACTI128 $1, Y0, 80(AX)
	XCHGQ BX, 88(AX)
	SETEQ 96(AX)
	LEAQ 104(AX), BX
	NOTQ 112(AX)
	MULQ 120(AX)
	RET
`
	f, err := ParseFile("t.s", []byte(src))
	if err != nil {
		t.Fatal(err)
	}
	sf := Analyze(f.Symbols[0], nil)
	want := map[int64]Access{8: Load, 16: Load, 24: Load, 32: Load, 40: Load, 48: LoadStore, 56: Store, 64: Store, 72: Load,
		80: Store, 88: LoadStore, 96: Store, 104: AddressOnly, 112: LoadStore, 120: Load}
	n := 0
	for _, m := range sf.MemOps {
		if m.Class == "arg-slot" {
			continue
		}
		n++
		if w, ok := want[m.Off]; !ok || w != m.Access {
			t.Errorf("%s: access %s, want %s", m.Inst, m.Access, want[m.Off])
		}
	}
	if n != len(want) {
		t.Errorf("%d memory operands, want %d", n, len(want))
	}
}

// ---------------------------------------------------------------------------
// The real repository

var (
	progOnce sync.Once
	prog     *load.Program
	progErr  error
)

func amd64(t *testing.T) *load.Program {
	t.Helper()
	progOnce.Do(func() { prog, progErr = load.Load("amd64", load.Opts{SSA: true}) })
	if progErr != nil {
		t.Fatalf("load: %v", progErr)
	}
	return prog
}

func lintOverlay(t *testing.T, overlay map[string][]byte) *Result {
	t.Helper()
	p := amd64(t)
	run := report.New("ASMTEST", "quick", 0)
	run.SetConfig("amd64")
	return LintWith(run, p, "ASM", nil, Opts{Overlay: overlay})
}

func TestRepoSilent(t *testing.T) {
	res := lintOverlay(t, nil)
	for _, f := range res.Findings {
		t.Errorf("finding on the unchanged tree: %s [%s] %s: %s", f.Pos, f.Rule, f.Construct, f.Msg)
	}
	for _, f := range res.Fatal {
		t.Errorf("machinery failure: %s", f)
	}
	c := res.Counts
	t.Logf("%+v", c)
	if c.Files != 4 || c.Symbols != 17 || c.GoDecls != 17 || c.CondJumps != 3 || c.AdmittedJumps != 3 || c.Indexed != 0 || c.Underived != 0 ||
		c.Forbidden != 0 || c.Unclassified != 0 || c.UncondJumps != 0 || c.Blobs != 24 {
		t.Errorf("unexpected counts %+v", c)
	}
	// Keccak round constants in order of use
	rc := []uint64{0x0000000000000001, 0x0000000000008082, 0x800000000000808a, 0x8000000080008000, 0x000000000000808b, 0x0000000080000001,
		0x8000000080008081, 0x8000000000008009, 0x000000000000008a, 0x0000000000000088, 0x0000000080008009, 0x000000008000000a,
		0x000000008000808b, 0x800000000000008b, 0x8000000000008089, 0x8000000000008003, 0x8000000000008002, 0x8000000000000080,
		0x000000000000800a, 0x800000008000000a, 0x8000000080008081, 0x8000000000008080, 0x0000000080000001, 0x8000000080008008}
	if fmt.Sprint(res.KeccakRC) != fmt.Sprint(rc) || fmt.Sprint(res.KeccakRCArgs) != fmt.Sprint(rc) {
		t.Errorf("round constants: %x / %x", res.KeccakRC, res.KeccakRCArgs)
	}
	// loop shapes of the two table lookups
	lk := res.Lookups()
	for name, stride := range map[string]int64{"lookupAffineNiels": 120, "lookupCached": 160} {
		l := lk[name]
		if l == nil || !l.Counted || l.Init != 1 || l.Bound != 8 || l.Step != 1 || l.Cond != "LE" || l.Trips != 8 || len(l.Strides) != 1 ||
			l.Strides[0].Param != "table" || l.Strides[0].ParamIndex != 0 || l.Strides[0].Stride != stride || !l.Strides[0].EntryKnown || l.Strides[0].EntryOffset != 0 {
			t.Errorf("%s: loop shape %+v", name, l)
			continue
		}
		// the loads of one iteration cover [0, stride) of the entry
		cov := make([]bool, stride)
		for _, a := range l.Accesses {
			if a.Store || a.Param != "table" {
				t.Errorf("%s: unexpected access %+v", name, a)
			}
			for k := int64(0); k < int64(a.Width); k++ {
				if a.Off+k >= 0 && a.Off+k < stride {
					cov[a.Off+k] = true
				} else {
					t.Errorf("%s: access %+v leaves the entry", name, a)
				}
			}
		}
		for i, c := range cov {
			if !c {
				t.Errorf("%s: byte %d of the entry is not loaded", name, i)
				break
			}
		}
	}
	// Writes/Reads
	want := map[string][2]string{
		"internal/field.feMul":            {"[{out 0}]", "[{a 1} {b 2}]"},
		"internal/field.fePow2k":          {"[{out 0}]", "[{out 0} {a 1}]"},
		"internal/strobe.keccakF1600":     {"[{state 0}]", "[{state 0}]"},
		"curve.lookupAffineNiels":         {"[{out 1}]", "[{table 0}]"},
		"curve.lookupCached":              {"[{out 1}]", "[{table 0}]"},
		"curve.vecMul_AVX2":               {"[{out 0}]", "[{a 1} {b 2}]"},
		"curve.vecConditionalSelect_AVX2": {"[{out 0}]", "[{a 1} {b 2}]"},
		"curve.vecReduce_AVX2":            {"[{out 0}]", "[{out 0}]"},
	}
	for _, sf := range res.Symbols {
		if w, ok := want[sf.QualifiedName()]; ok {
			if fmt.Sprint(sf.Writes) != w[0] || fmt.Sprint(sf.Reads) != w[1] {
				t.Errorf("%s: writes %v reads %v, want %v", sf.QualifiedName(), sf.Writes, sf.Reads, w)
			}
			delete(want, sf.QualifiedName())
		}
		if len(sf.StaticWrites) != 0 {
			t.Errorf("%s writes static data %v", sf.QualifiedName(), sf.StaticWrites)
		}
	}
	for k := range want {
		t.Errorf("symbol %s not found", k)
	}
	if b := res.Blob("curve", "v19"); b == nil || !b.Complete() || fmt.Sprint(b.Uint64s()) != "[19 19 19 19]" {
		t.Errorf("blob v19: %+v", b)
	}
}

type edit struct{ old, new string }

func mutate(t *testing.T, rel string, edits ...edit) map[string][]byte {
	t.Helper()
	path := filepath.Join(load.RepoDir(), rel)
	src, err := os.ReadFile(path)
	if err != nil {
		t.Fatal(err)
	}
	s := string(src)
	for _, e := range edits {
		if strings.Count(s, e.old) < 1 {
			t.Fatalf("%s: edit anchor %q not found", rel, e.old)
		}
		s = strings.Replace(s, e.old, e.new, 1)
	}
	return map[string][]byte{path: []byte(s)}
}

func expectFinding(t *testing.T, res *Result, rule, construct, file, substr string) {
	t.Helper()
	for _, f := range res.Findings {
		if f.Rule == rule && strings.HasPrefix(f.Construct, construct) && strings.HasPrefix(f.Pos, file+":") && strings.Contains(f.Msg, substr) {
			t.Logf("reported: %s [%s] %s: %s", f.Pos, f.Rule, f.Construct, f.Msg)
			return
		}
	}
	t.Errorf("expected a %s finding on %s containing %q; got %d findings: %+v", rule, construct, substr, len(res.Findings), res.Findings)
}

const (
	windowS = "curve/window_amd64.s"
	fieldS  = "internal/field/field_u64_amd64.s"
	keccakS = "internal/strobe/keccakf_amd64.s"
)

func TestMutantsReported(t *testing.T) {
	t.Run("window-indexed-load", func(t *testing.T) {
		// M08e: load the selected entry directly, indexed by the (secret) selector
		res := lintOverlay(t, mutate(t, windowS,
			edit{"\tMOVD    CX, X0\n\tPSHUFD  $0x00, X0, X0\n", "\tMOVD    CX, X0\n\tPSHUFD  $0x00, X0, X0\n\tIMUL3Q  $0x78, CX, R8\n"},
			edit{"\tMOVOU   (AX), X10\n", "\tMOVOU   -120(AX)(R8*1), X10\n"}))
		expectFinding(t, res, "ASM-index", "curve.lookupAffineNiels index", windowS, "index register R8")
	})
	t.Run("window-pointer-plus-secret", func(t *testing.T) {
		res := lintOverlay(t, mutate(t, windowS,
			edit{"\tMOVD    CX, X0\n\tPSHUFD  $0x00, X0, X0\n", "\tMOVD    CX, X0\n\tPSHUFD  $0x00, X0, X0\n\tIMUL3Q  $0x78, CX, R8\n\tADDQ    R8, AX\n"}))
		expectFinding(t, res, "ASM-index", "curve.lookupAffineNiels base", windowS, "ADDQ R8, AX")
	})
	t.Run("window-early-exit-on-selector", func(t *testing.T) {
		res := lintOverlay(t, mutate(t, windowS,
			edit{"\tMOVBQZX      xabs+16(FP), CX\n", "\tMOVBQZX      xabs+16(FP), CX\n\tTESTQ        CX, CX\n\tJZ           cached_done\n"},
			edit{"\tVZEROUPPER\n\tRET", "cached_done:\n\tVZEROUPPER\n\tRET"}))
		expectFinding(t, res, "ASM-jump", "curve.lookupCached JZ#1", windowS, "argument xabs, which is not designated public")
	})
	t.Run("feMul-jz-on-limb", func(t *testing.T) {
		res := lintOverlay(t, mutate(t, fieldS,
			edit{"\t// r10, r11 += x1*y0\n", "\tTESTQ R8, R8\n\tJZ    mul_skip\n\t// r10, r11 += x1*y0\n"},
			edit{"\t// r10, r11 += x2_19*y4\n", "mul_skip:\n\t// r10, r11 += x2_19*y4\n"}))
		expectFinding(t, res, "ASM-jump", "internal/field.feMul JZ#1", fieldS, "data dependent")
	})
	t.Run("feMul-divq", func(t *testing.T) {
		res := lintOverlay(t, mutate(t, fieldS, edit{"\t// Reduce\n", "\tDIVQ 8(BX)\n\t// Reduce\n"}))
		expectFinding(t, res, "ASM-instr", "internal/field.feMul", fieldS, "DIV")
	})
	t.Run("fePow2k-counter-from-memory", func(t *testing.T) {
		res := lintOverlay(t, mutate(t, fieldS, edit{"\tMOVQ k+16(FP), BX\n", "\tMOVQ k+16(FP), BX\n\tMOVQ 32(CX), BX\n"}))
		expectFinding(t, res, "ASM-jump", "internal/field.fePow2k JNZ#1", fieldS, "data dependent")
	})
	t.Run("keccak-call", func(t *testing.T) {
		res := lintOverlay(t, mutate(t, keccakS, edit{"\tRET\n", "\tCALL runtime·memmove(SB)\n\tRET\n"}))
		expectFinding(t, res, "ASM-instr", "internal/strobe.keccakF1600", keccakS, "CALL")
	})
	t.Run("keccak-macro-indexed", func(t *testing.T) {
		// a violation inside a macro body is found through its expansions
		res := lintOverlay(t, mutate(t, keccakS, edit{"\tMOVQ _ba(iState), rBa; \\\n", "\tMOVQ _ba(iState)(rDa*1), rBa; \\\n"}))
		expectFinding(t, res, "ASM-index", "internal/strobe.keccakF1600 index", keccakS, "index register BX")
	})
	t.Run("wrong-slot", func(t *testing.T) {
		res := lintOverlay(t, mutate(t, fieldS, edit{"\tMOVQ a+8(FP), CX\n\tMOVQ b+16(FP), BX\n", "\tMOVQ a+16(FP), CX\n\tMOVQ b+16(FP), BX\n"}))
		expectFinding(t, res, "ASM-decl", "internal/field.feMul", fieldS, "a+16(FP)")
	})
	t.Run("symbol-without-declaration", func(t *testing.T) {
		res := lintOverlay(t, mutate(t, fieldS, edit{"TEXT ·fePow2k(SB)", "TEXT ·fePow2kX(SB)"}))
		expectFinding(t, res, "ASM-decl", "internal/field.fePow2kX", fieldS, "without a body-less Go declaration")
		expectFinding(t, res, "ASM-decl", "internal/field.fePow2k", "internal/field/field_u64_amd64.go", "without a TEXT symbol")
	})
}

func TestLoopFactsFollowEdits(t *testing.T) {
	// constant-time but wrong: the lint stays silent, the exported loop facts change
	res := lintOverlay(t, mutate(t, windowS, edit{"\tCMPQ    CX, $0x08\n", "\tCMPQ    CX, $0x07\n"}))
	if len(res.Findings) != 0 {
		t.Errorf("unexpected findings %+v", res.Findings)
	}
	if l := res.Lookups()["lookupAffineNiels"]; l == nil || l.Trips != 7 || l.Bound != 7 {
		t.Errorf("loop facts %+v", l)
	}
	res = lintOverlay(t, mutate(t, windowS, edit{"\tADDQ         $0xa0, AX\n", "\tADDQ         $0x80, AX\n"}))
	if l := res.Lookups()["lookupCached"]; l == nil || l.Trips != 8 || l.Strides[0].Stride != 128 {
		t.Errorf("loop facts %+v", l)
	}
	res = lintOverlay(t, mutate(t, keccakS, edit{"$0x8000000000008089", "$0x8000000000008088"}))
	if len(res.KeccakRC) != 24 || res.KeccakRC[14] != 0x8000000000008088 || res.KeccakRCArgs[14] != 0x8000000000008088 {
		t.Errorf("round constants %x", res.KeccakRC)
	}
	res = lintOverlay(t, mutate(t, "curve/edwards_vector_amd64.s", edit{"DATA v19<>+8(SB)/8, $0x0000000000000013", "DATA v19<>+8(SB)/8, $0x0000000000000012"}))
	if b := res.Blob("curve", "v19"); b == nil || fmt.Sprint(b.Uint64s()) != "[19 18 19 19]" {
		t.Errorf("blob %+v", b)
	}
}

func TestPreservingEditsSilent(t *testing.T) {
	cases := map[string]map[string][]byte{
		"rename-label": mutate(t, windowS,
			edit{"affine_lookup_loop:", "scan_entries:"}, edit{"JLE     affine_lookup_loop", "JLE     scan_entries"}),
		"reorder-independent": mutate(t, windowS,
			edit{"\tMOVOU   16(AX), X11\n\tMOVOU   32(AX), X12\n", "\tMOVOU   32(AX), X12\n\tMOVOU   16(AX), X11\n"},
			edit{"\tADDQ    $0x78, AX\n\tINCQ    CX\n", "\tINCQ    CX\n\tADDQ    $0x78, AX\n"}),
		"whitespace-comments": mutate(t, fieldS,
			edit{"\tMOVQ a+8(FP), CX\n", "\n\n   MOVQ   a+8(FP),CX   // load a\n /* block\n comment */\n"},
			edit{"pow2k_loop:\n", "pow2k_loop:   // the loop\n"}),
		"decimal-immediates": mutate(t, windowS,
			edit{"CMPQ    CX, $0x08", "CMPQ    CX, $8"}, edit{"ADDQ    $0x78, AX", "ADDQ    $120, AX"}),
		"other-counter-register": mutate(t, windowS,
			edit{"\tMOVQ $0x0000000000000001, CX\n\naffine_lookup_loop:\n\tMOVD    CX, X1\n", "\tMOVQ $0x0000000000000001, R9\n\naffine_lookup_loop:\n\tMOVD    R9, X1\n"},
			edit{"\tINCQ    CX\n\tCMPQ    CX, $0x08\n\tJLE     affine_lookup_loop", "\tINCQ    R9\n\tCMPQ    R9, $0x08\n\tJLE     affine_lookup_loop"}),
		"lea-instead-of-add":     mutate(t, windowS, edit{"\tADDQ         $0xa0, AX\n", "\tLEAQ         160(AX), AX\n"}),
		"statements-on-one-line": mutate(t, fieldS, edit{"\tDECQ BX\n\tJNZ  pow2k_loop\n", "\tDECQ BX; JNZ pow2k_loop\n"}),
	}
	for name, ov := range cases {
		res := lintOverlay(t, ov)
		for _, f := range res.Findings {
			t.Errorf("%s: finding %s [%s] %s: %s", name, f.Pos, f.Rule, f.Construct, f.Msg)
		}
		for _, f := range res.Fatal {
			t.Errorf("%s: machinery failure %s", name, f)
		}
		c := res.Counts
		if c.Symbols != 17 || c.CondJumps != 3 || c.AdmittedJumps != 3 {
			t.Errorf("%s: counts %+v", name, c)
		}
		for sym, stride := range map[string]int64{"lookupAffineNiels": 120, "lookupCached": 160} {
			if l := res.Lookups()[sym]; l == nil || l.Trips != 8 || len(l.Strides) != 1 || l.Strides[0].Stride != stride {
				t.Errorf("%s: %s loop facts changed: %+v", name, sym, l)
			}
		}
	}
}

func TestOtherConfigurations(t *testing.T) {
	for cfg, want := range map[string]int{"f32": 1, "purego": 0} {
		p, err := load.Load(cfg, load.Opts{SSA: true})
		if err != nil {
			t.Fatal(err)
		}
		run := report.New("ASMTEST", "quick", 0)
		run.SetConfig(cfg)
		res := Lint(run, p, "ASM", nil)
		if len(res.Findings)+len(res.Fatal) != 0 || res.Counts.Symbols != want || res.Counts.GoDecls != want {
			t.Errorf("%s: %+v findings %v fatal %v", cfg, res.Counts, res.Findings, res.Fatal)
		}
	}
}

// Composite parameters: name_base of a slice/string is a pointer derived from
// the parameter, name_len is a scalar slot; the result slot may be written.
func TestCompositeSlots(t *testing.T) {
	goSrc := "package x\nfunc f(dst []byte, src string) int\n"
	asm := `TEXT ·f(SB), 4, $0-48
	MOVQ dst_base+0(FP), DI
	MOVQ src_base+24(FP), SI
	MOVQ src_len+32(FP), CX
	MOVBQZX (SI), AX
	MOVB AL, (DI)
	MOVQ CX, ret+40(FP)
	RET
`
	run := report.New("ASMTEST", "quick", 0)
	res, err := LintSource(run, "T", "x", "x_amd64.s", []byte(asm), goSrc, nil)
	if err != nil {
		t.Fatal(err)
	}
	for _, f := range res.Findings {
		t.Errorf("finding: [%s] %s: %s", f.Rule, f.Construct, f.Msg)
	}
	sf := res.Symbol("x", "f")
	if fmt.Sprint(sf.Writes) != "[{dst 0}]" || fmt.Sprint(sf.Reads) != "[{src 1}]" || fmt.Sprint(sf.ResultWrites) != "[ret]" || sf.Violations != 0 {
		t.Errorf("writes %v reads %v results %v", sf.Writes, sf.Reads, sf.ResultWrites)
	}
}
