package easm

import (
	"regexp"
	"strings"
)

// This file is the checker's own table of amd64 mnemonics (Go assembler
// spellings).  For every instruction the lint needs to know
//
//   - which operands are read and which is written (Plan 9 order: the last
//     operand is the destination for everything that has one),
//   - implicit register operands (MULQ, DIVQ, CQO ...),
//   - whether the flags are written / read,
//   - whether the instruction is on the forbidden list.
//
// A mnemonic that is not in the table is *unclassified*; the lint reports it
// under the instruction rule instead of guessing, so an unknown instruction
// can never make the check pass.

type opClass uint8

const (
	cNone   opClass = iota // no operand effects (RET, NOP, VZEROUPPER, fences, pseudo-ops)
	cMove                  // reads every operand but the last, writes the last (destination is not read)
	cRMW                   // reads every operand, writes the last
	cRead                  // reads every operand, writes nothing (CMP, TEST, BT, PREFETCH)
	cMul1                  // one-operand MUL/IMUL/DIV/IDIV: implicit AX, DX
	cXchg                  // reads and writes every operand
	cPush                  // reads operand, SP
	cPop                   // writes operand, SP
	cMulx                  // MULXQ src, lo, hi: reads src and DX, writes lo and hi
	cJcc                   // conditional jump
	cJmp                   // unconditional jump
	cCall                  // CALL
	cRet                   // RET
	cPrefix                // LOCK / REP...: stands in front of the next instruction
)

type opInfo struct {
	class      opClass
	setsFlags  bool
	readsFlags bool
	keepsCF    bool     // INC/DEC: the carry flag comes from an earlier instruction
	implR      []string // implicit register reads
	implW      []string // implicit register writes
	mov        bool     // pure data movement into the destination
	lea        bool     // address computation: the memory operand is not accessed
	step       bool     // ADD/SUB/INC/DEC: with an immediate source the result is "old value ± constant"
	mask       bool     // AND: with an immediate source a pointer stays inside its object's alignment block
	zeroIdiom  bool     // XOR/SUB/PXOR/VPXOR of a register with itself is the constant 0
	size       int      // operand size in bytes from the mnemonic (0 if not applicable)
	srcSize    int      // for zero/sign-extending moves: size of the source
	forbidden  string   // non-empty: reason the instruction is on the forbidden list
	jccUsesCX  bool     // JCXZ*/LOOP*: controlled by CX rather than by the flags
	jccUsesCF  bool     // conditional jump consumes the carry flag
	condCanon  string   // canonical condition of a conditional jump (EQ NE LT LE GT GE LO HS HI LS MI PL OS OC PS PC)
	vex        bool
	unmodelled string // instruction known but with effects the front end does not model
}

var sizeOf = map[byte]int{'B': 1, 'W': 2, 'L': 4, 'Q': 8}

// jump mnemonics -> canonical condition
var jccTable = map[string]string{
	"JEQ": "EQ", "JE": "EQ", "JZ": "EQ",
	"JNE": "NE", "JNZ": "NE",
	"JLT": "LT", "JL": "LT", "JNGE": "LT",
	"JLE": "LE", "JNG": "LE",
	"JGT": "GT", "JG": "GT", "JNLE": "GT",
	"JGE": "GE", "JNL": "GE",
	"JCS": "LO", "JLO": "LO", "JB": "LO", "JC": "LO", "JNAE": "LO",
	"JCC": "HS", "JHS": "HS", "JAE": "HS", "JNC": "HS", "JNB": "HS",
	"JHI": "HI", "JA": "HI", "JNBE": "HI",
	"JLS": "LS", "JBE": "LS", "JNA": "LS",
	"JMI": "MI", "JS": "MI",
	"JPL": "PL", "JNS": "PL",
	"JOS": "OS", "JO": "OS",
	"JOC": "OC", "JNO": "OC",
	"JPS": "PS", "JP": "PS", "JPE": "PS",
	"JPC": "PC", "JNP": "PC", "JPO": "PC",
}

var condSuffix = map[string]bool{
	"EQ": true, "NE": true, "LT": true, "LE": true, "GT": true, "GE": true, "CS": true, "CC": true,
	"HI": true, "LS": true, "MI": true, "PL": true, "OS": true, "OC": true, "PS": true, "PC": true,
	"LO": true, "HS": true,
}

var extMove = regexp.MustCompile(`^MOV([BWL])([WLQ])([ZS])X$`)

// fixed (suffix-less or irregular) mnemonics
var fixedOps = map[string]opInfo{
	// no effect on registers/memory that the lint cares about
	"NOP": {class: cNone}, "VZEROUPPER": {class: cNone}, "VZEROALL": {class: cNone, unmodelled: "clears every vector register"},
	"LFENCE": {class: cNone}, "MFENCE": {class: cNone}, "SFENCE": {class: cNone}, "PAUSE": {class: cNone},
	"PCALIGN": {class: cNone}, "FUNCDATA": {class: cNone}, "PCDATA": {class: cNone},
	"NO_LOCAL_POINTERS": {class: cNone}, "GO_ARGS": {class: cNone}, "GO_RESULTS_INITIALIZED": {class: cNone},
	"EMMS": {class: cNone},
	"CLC":  {class: cNone, setsFlags: true}, "STC": {class: cNone, setsFlags: true}, "CMC": {class: cNone, setsFlags: true, readsFlags: true},
	"CLD": {class: cNone}, "STD": {class: cNone, unmodelled: "changes the direction flag"},
	"RET":  {class: cRet},
	"JMP":  {class: cJmp},
	"CALL": {class: cCall, forbidden: "CALL leaves the checked symbol"},

	"LOCK": {class: cPrefix},
	"REP":  {class: cPrefix, forbidden: "REP-prefixed string operation (trip count in CX)"},
	"REPN": {class: cPrefix, forbidden: "REP-prefixed string operation (trip count in CX)"},
	"REPE": {class: cPrefix, forbidden: "REP-prefixed string operation"}, "REPZ": {class: cPrefix, forbidden: "REP-prefixed string operation"},
	"REPNE": {class: cPrefix, forbidden: "REP-prefixed string operation"}, "REPNZ": {class: cPrefix, forbidden: "REP-prefixed string operation"},

	"RDRAND": {class: cMove, setsFlags: true, forbidden: "RDRAND is non-deterministic"}, "RDRANDL": {class: cMove, setsFlags: true, forbidden: "RDRAND is non-deterministic"},
	"RDRANDQ": {class: cMove, setsFlags: true, forbidden: "RDRAND is non-deterministic"}, "RDRANDW": {class: cMove, setsFlags: true, forbidden: "RDRAND is non-deterministic"},
	"RDSEED": {class: cMove, setsFlags: true, forbidden: "RDSEED is non-deterministic"}, "RDSEEDL": {class: cMove, setsFlags: true, forbidden: "RDSEED is non-deterministic"},
	"RDSEEDQ": {class: cMove, setsFlags: true, forbidden: "RDSEED is non-deterministic"}, "RDSEEDW": {class: cMove, setsFlags: true, forbidden: "RDSEED is non-deterministic"},
	"RDTSC":   {class: cNone, implW: []string{"AX", "DX"}, forbidden: "RDTSC reads the time stamp counter"},
	"RDTSCP":  {class: cNone, implW: []string{"AX", "DX", "CX"}, forbidden: "RDTSCP reads the time stamp counter"},
	"RDPMC":   {class: cNone, implR: []string{"CX"}, implW: []string{"AX", "DX"}, forbidden: "RDPMC reads a performance counter"},
	"CPUID":   {class: cNone, implR: []string{"AX", "CX"}, implW: []string{"AX", "BX", "CX", "DX"}, forbidden: "CPUID (feature dispatch belongs in Go code)"},
	"XGETBV":  {class: cNone, implR: []string{"CX"}, implW: []string{"AX", "DX"}, forbidden: "XGETBV (feature dispatch belongs in Go code)"},
	"SYSCALL": {class: cNone, forbidden: "SYSCALL"}, "INT": {class: cNone, forbidden: "INT"}, "HLT": {class: cNone, forbidden: "HLT"},
	"UD2": {class: cNone, forbidden: "UD2"}, "XLAT": {class: cNone, implR: []string{"AX", "BX"}, implW: []string{"AX"}, forbidden: "XLAT is a table lookup indexed by AL"},
	"BYTE": {class: cNone, forbidden: "raw opcode bytes cannot be judged"}, "WORD": {class: cNone, forbidden: "raw opcode bytes cannot be judged"},
	"LONG": {class: cNone, forbidden: "raw opcode bytes cannot be judged"}, "QUAD": {class: cNone, forbidden: "raw opcode bytes cannot be judged"},

	// sign extension of the accumulator
	"CQO": {class: cNone, implR: []string{"AX"}, implW: []string{"DX"}}, "CDQ": {class: cNone, implR: []string{"AX"}, implW: []string{"DX"}},
	"CWD": {class: cNone, implR: []string{"AX"}, implW: []string{"DX"}}, "CBW": {class: cNone, implR: []string{"AX"}, implW: []string{"AX"}},
	"CWDE": {class: cNone, implR: []string{"AX"}, implW: []string{"AX"}}, "CDQE": {class: cNone, implR: []string{"AX"}, implW: []string{"AX"}},
	"CLTQ": {class: cNone, implR: []string{"AX"}, implW: []string{"AX"}},
	"SAHF": {class: cNone, implR: []string{"AX"}, setsFlags: true}, "LAHF": {class: cNone, implW: []string{"AX"}, readsFlags: true},
	"PUSHFQ": {class: cNone, readsFlags: true, implR: []string{"SP"}, implW: []string{"SP"}}, "POPFQ": {class: cNone, setsFlags: true, implR: []string{"SP"}, implW: []string{"SP"}, unmodelled: "flags restored from the stack"},

	// three-operand multiply, BMI
	"IMUL3Q": {class: cMove, setsFlags: true, size: 8}, "IMUL3L": {class: cMove, setsFlags: true, size: 4}, "IMUL3W": {class: cMove, setsFlags: true, size: 2},
	"MULXQ": {class: cMulx, size: 8}, "MULXL": {class: cMulx, size: 4},
	"ADCXQ": {class: cRMW, setsFlags: true, readsFlags: true, size: 8}, "ADCXL": {class: cRMW, setsFlags: true, readsFlags: true, size: 4},
	"ADOXQ": {class: cRMW, setsFlags: true, readsFlags: true, size: 8}, "ADOXL": {class: cRMW, setsFlags: true, readsFlags: true, size: 4},
	"BSWAPQ": {class: cRMW, size: 8}, "BSWAPL": {class: cRMW, size: 4},
	"MOVABSQ": {class: cMove, mov: true, size: 8},

	// SSE data movement (destination not read)
	"MOVOU": {class: cMove, mov: true, size: 16}, "MOVOA": {class: cMove, mov: true, size: 16}, "MOVO": {class: cMove, mov: true, size: 16},
	"MOVUPS": {class: cMove, mov: true, size: 16}, "MOVAPS": {class: cMove, mov: true, size: 16}, "MOVUPD": {class: cMove, mov: true, size: 16}, "MOVAPD": {class: cMove, mov: true, size: 16},
	"MOVNTO": {class: cMove, mov: true, size: 16}, "MOVNTDQ": {class: cMove, mov: true, size: 16}, "MOVNTDQA": {class: cMove, mov: true, size: 16},
	"LDDQU": {class: cMove, mov: true, size: 16},
	"MOVD":  {class: cMove, mov: true, size: 4},
	"MOVSS": {class: cRMW, size: 4}, "MOVSD": {class: cRMW, size: 8}, // register forms merge into the destination
	"MOVHPS": {class: cRMW, size: 8}, "MOVLPS": {class: cRMW, size: 8}, "MOVHPD": {class: cRMW, size: 8}, "MOVLPD": {class: cRMW, size: 8},
	"MOVHLPS": {class: cRMW}, "MOVLHPS": {class: cRMW},
	"MOVDDUP": {class: cMove}, "MOVSHDUP": {class: cMove}, "MOVSLDUP": {class: cMove},
	"MOVMSKPS": {class: cMove}, "MOVMSKPD": {class: cMove}, "PMOVMSKB": {class: cMove},
	"PSHUFD": {class: cMove, size: 16}, "PSHUFLW": {class: cMove, size: 16}, "PSHUFHW": {class: cMove, size: 16}, "PSHUFL": {class: cMove, size: 16},
	"PABSB": {class: cMove}, "PABSW": {class: cMove}, "PABSD": {class: cMove},
	"PEXTRB": {class: cMove, size: 1}, "PEXTRW": {class: cMove, size: 2}, "PEXTRD": {class: cMove, size: 4}, "PEXTRQ": {class: cMove, size: 8},
	"PINSRB": {class: cRMW, size: 1}, "PINSRW": {class: cRMW, size: 2}, "PINSRD": {class: cRMW, size: 4}, "PINSRQ": {class: cRMW, size: 8},
	"AESIMC": {class: cMove}, "AESKEYGENASSIST": {class: cMove},
	"PTEST":  {class: cRead, setsFlags: true},
	"COMISS": {class: cRead, setsFlags: true}, "COMISD": {class: cRead, setsFlags: true}, "UCOMISS": {class: cRead, setsFlags: true}, "UCOMISD": {class: cRead, setsFlags: true},
	"PBLENDVB": {class: cRMW, implR: []string{"V0"}}, "BLENDVPS": {class: cRMW, implR: []string{"V0"}}, "BLENDVPD": {class: cRMW, implR: []string{"V0"}},
	"SHA256RNDS2": {class: cRMW, implR: []string{"V0"}},
	// SSE read-modify-write operations not starting with P
	"XORPS": {class: cRMW, zeroIdiom: true}, "XORPD": {class: cRMW, zeroIdiom: true}, "ANDPS": {class: cRMW}, "ANDPD": {class: cRMW},
	"ANDNPS": {class: cRMW}, "ANDNPD": {class: cRMW}, "ORPS": {class: cRMW}, "ORPD": {class: cRMW},
	"SHUFPS": {class: cRMW}, "SHUFPD": {class: cRMW}, "UNPCKLPS": {class: cRMW}, "UNPCKHPS": {class: cRMW}, "UNPCKLPD": {class: cRMW}, "UNPCKHPD": {class: cRMW},
	"AESENC": {class: cRMW}, "AESENCLAST": {class: cRMW}, "AESDEC": {class: cRMW}, "AESDECLAST": {class: cRMW},
	"SHA1MSG1": {class: cRMW}, "SHA1MSG2": {class: cRMW}, "SHA1NEXTE": {class: cRMW}, "SHA1RNDS4": {class: cRMW}, "SHA256MSG1": {class: cRMW}, "SHA256MSG2": {class: cRMW},
	"CRC32B": {class: cRMW, size: 1}, "CRC32W": {class: cRMW, size: 2}, "CRC32L": {class: cRMW, size: 4}, "CRC32Q": {class: cRMW, size: 8},

	// prefetches touch the cache line of their address: treated as loads
	"PREFETCHT0": {class: cRead}, "PREFETCHT1": {class: cRead}, "PREFETCHT2": {class: cRead}, "PREFETCHNTA": {class: cRead}, "PREFETCHW": {class: cRead},
	"CLFLUSH": {class: cRead},

	"JCXZL": {class: cJcc, jccUsesCX: true}, "JCXZQ": {class: cJcc, jccUsesCX: true}, "JCXZW": {class: cJcc, jccUsesCX: true}, "JCXZ": {class: cJcc, jccUsesCX: true},
	"LOOP": {class: cJcc, jccUsesCX: true, implW: []string{"CX"}}, "LOOPEQ": {class: cJcc, jccUsesCX: true, readsFlags: true, implW: []string{"CX"}}, "LOOPNE": {class: cJcc, jccUsesCX: true, readsFlags: true, implW: []string{"CX"}},
}

// size-suffixed general purpose families (suffix B, W, L or Q)
var gpFamilies = map[string]opInfo{
	"MOV":  {class: cMove, mov: true},
	"LEA":  {class: cMove, lea: true},
	"ADD":  {class: cRMW, setsFlags: true, step: true},
	"SUB":  {class: cRMW, setsFlags: true, step: true, zeroIdiom: true},
	"ADC":  {class: cRMW, setsFlags: true, readsFlags: true},
	"SBB":  {class: cRMW, setsFlags: true, readsFlags: true},
	"AND":  {class: cRMW, setsFlags: true, mask: true},
	"OR":   {class: cRMW, setsFlags: true},
	"XOR":  {class: cRMW, setsFlags: true, zeroIdiom: true},
	"INC":  {class: cRMW, setsFlags: true, step: true, keepsCF: true},
	"DEC":  {class: cRMW, setsFlags: true, step: true, keepsCF: true},
	"NEG":  {class: cRMW, setsFlags: true},
	"NOT":  {class: cRMW},
	"SHL":  {class: cRMW, setsFlags: true},
	"SHR":  {class: cRMW, setsFlags: true},
	"SAL":  {class: cRMW, setsFlags: true},
	"SAR":  {class: cRMW, setsFlags: true},
	"ROL":  {class: cRMW, setsFlags: true},
	"ROR":  {class: cRMW, setsFlags: true},
	"RCL":  {class: cRMW, setsFlags: true, readsFlags: true},
	"RCR":  {class: cRMW, setsFlags: true, readsFlags: true},
	"SHLX": {class: cMove}, "SHRX": {class: cMove}, "SARX": {class: cMove}, "RORX": {class: cMove},
	"ANDN":  {class: cMove, setsFlags: true},
	"BEXTR": {class: cMove, setsFlags: true}, "BZHI": {class: cMove, setsFlags: true},
	"PDEP": {class: cMove}, "PEXT": {class: cMove},
	"BLSI": {class: cMove, setsFlags: true}, "BLSR": {class: cMove, setsFlags: true}, "BLSMSK": {class: cMove, setsFlags: true},
	"POPCNT": {class: cMove, setsFlags: true}, "LZCNT": {class: cMove, setsFlags: true}, "TZCNT": {class: cMove, setsFlags: true},
	"BSF": {class: cRMW, setsFlags: true}, "BSR": {class: cRMW, setsFlags: true},
	"CMP":  {class: cRead, setsFlags: true},
	"TEST": {class: cRead, setsFlags: true},
	"BT":   {class: cRead, setsFlags: true},
	"BTS":  {class: cRMW, setsFlags: true}, "BTR": {class: cRMW, setsFlags: true}, "BTC": {class: cRMW, setsFlags: true},
	"MUL":     {class: cMul1, setsFlags: true, implR: []string{"AX"}, implW: []string{"AX", "DX"}},
	"IMUL":    {class: cMul1, setsFlags: true, implR: []string{"AX"}, implW: []string{"AX", "DX"}}, // two-operand form handled in lookupOp
	"DIV":     {class: cMul1, setsFlags: true, implR: []string{"AX", "DX"}, implW: []string{"AX", "DX"}, forbidden: "DIV has operand-dependent latency"},
	"IDIV":    {class: cMul1, setsFlags: true, implR: []string{"AX", "DX"}, implW: []string{"AX", "DX"}, forbidden: "IDIV has operand-dependent latency"},
	"XCHG":    {class: cXchg},
	"XADD":    {class: cXchg, setsFlags: true},
	"CMPXCHG": {class: cXchg, setsFlags: true, implR: []string{"AX"}, implW: []string{"AX"}},
	"PUSH":    {class: cPush, implR: []string{"SP"}, implW: []string{"SP"}},
	"POP":     {class: cPop, implR: []string{"SP"}, implW: []string{"SP"}},
	"MOVNTI":  {class: cMove, mov: true},
	"NOP":     {class: cNone, lea: true}, // multi-byte NOPL (AX): the operand is not accessed
	// string operations use implicit SI/DI addressing the front end does not model
	"MOVS": {class: cNone, forbidden: "string instruction with implicit SI/DI operands"},
	"STOS": {class: cNone, forbidden: "string instruction with implicit DI operand"},
	"LODS": {class: cNone, forbidden: "string instruction with implicit SI operand"},
	"CMPS": {class: cNone, forbidden: "string instruction with implicit SI/DI operands"},
	"SCAS": {class: cNone, forbidden: "string instruction with implicit DI operand"},
}

// SSE integer operations "P..." that are not listed in fixedOps are
// two-operand read-modify-write operations without flag effects.
var sseZeroIdiom = map[string]bool{"PXOR": true, "PSUBB": true, "PSUBW": true, "PSUBL": true, "PSUBQ": true, "PSUBD": true, "PCMPGTB": true, "PCMPGTW": true, "PCMPGTL": true}

// VEX operations that do not follow "reads all but last, writes last".
var vexSpecial = map[string]opInfo{
	"VPTEST": {class: cRead, setsFlags: true, vex: true}, "VTESTPS": {class: cRead, setsFlags: true, vex: true}, "VTESTPD": {class: cRead, setsFlags: true, vex: true},
	"VCOMISS": {class: cRead, setsFlags: true, vex: true}, "VCOMISD": {class: cRead, setsFlags: true, vex: true},
	"VUCOMISS": {class: cRead, setsFlags: true, vex: true}, "VUCOMISD": {class: cRead, setsFlags: true, vex: true},
	"VZEROUPPER": {class: cNone, vex: true},
}

var vexZeroIdiom = map[string]bool{"VPXOR": true, "VPXORD": true, "VPXORQ": true, "VXORPS": true, "VXORPD": true, "VPSUBB": true, "VPSUBW": true, "VPSUBD": true, "VPSUBQ": true}

// VEX pure moves (value of the destination = value of the source).
var vexMoves = map[string]int{
	"VMOVDQU": 0, "VMOVDQA": 0, "VMOVUPS": 0, "VMOVAPS": 0, "VMOVUPD": 0, "VMOVAPD": 0, "VMOVNTDQ": 0, "VMOVNTDQA": 0, "VLDDQU": 0,
	"VMOVDQU8": 0, "VMOVDQU16": 0, "VMOVDQU32": 0, "VMOVDQU64": 0, "VMOVDQA32": 0, "VMOVDQA64": 0,
	"VMOVD": 4, "VMOVQ": 8,
}

// lookupOp classifies a mnemonic used with nops operands.
func lookupOp(mn string, nops int) (opInfo, bool) {
	if oi, ok := fixedOps[mn]; ok {
		return oi, true
	}
	if c, ok := jccTable[mn]; ok {
		oi := opInfo{class: cJcc, readsFlags: true, condCanon: c}
		switch c {
		case "LO", "HS", "HI", "LS":
			oi.jccUsesCF = true
		}
		return oi, true
	}
	if m := extMove.FindStringSubmatch(mn); m != nil {
		return opInfo{class: cMove, mov: true, size: sizeOf[m[2][0]], srcSize: sizeOf[m[1][0]]}, true
	}
	if strings.HasPrefix(mn, "CMOV") && len(mn) >= 7 {
		if sz, ok := sizeOf[mn[4]]; ok && condSuffix[mn[5:]] {
			return opInfo{class: cRMW, readsFlags: true, size: sz}, true
		}
	}
	if strings.HasPrefix(mn, "SET") && condSuffix[mn[3:]] {
		return opInfo{class: cMove, readsFlags: true, size: 1}, true
	}
	// MOVQ is both the 64-bit GP move and the SSE 64-bit move; both are pure moves.
	if len(mn) >= 3 {
		base, suf := mn[:len(mn)-1], mn[len(mn)-1]
		if sz, ok := sizeOf[suf]; ok {
			if oi, ok := gpFamilies[base]; ok {
				oi.size = sz
				if base == "IMUL" && nops == 2 {
					oi = opInfo{class: cRMW, setsFlags: true, size: sz}
				}
				if base == "IMUL" && nops == 3 {
					oi = opInfo{class: cMove, setsFlags: true, size: sz}
				}
				if base == "NOP" && nops == 0 {
					oi.lea = false
				}
				return oi, true
			}
		}
	}
	if mn[0] == 'V' && len(mn) > 2 {
		if oi, ok := vexSpecial[mn]; ok {
			return oi, true
		}
		oi := opInfo{class: cMove, vex: true}
		if sz, ok := vexMoves[mn]; ok {
			oi.mov, oi.size = true, sz
		}
		if strings.HasPrefix(mn, "VFMADD") || strings.HasPrefix(mn, "VFMSUB") || strings.HasPrefix(mn, "VFNMADD") || strings.HasPrefix(mn, "VFNMSUB") {
			oi.class = cRMW
		}
		if vexZeroIdiom[mn] {
			oi.zeroIdiom = true
		}
		return oi, true
	}
	if mn[0] == 'P' && len(mn) >= 3 && !strings.HasPrefix(mn, "PCMPESTR") && !strings.HasPrefix(mn, "PCMPISTR") &&
		!strings.HasPrefix(mn, "PUSH") && !strings.HasPrefix(mn, "POP") && !strings.HasPrefix(mn, "PREFETCH") &&
		!strings.HasPrefix(mn, "PMOVZX") && !strings.HasPrefix(mn, "PMOVSX") {
		return opInfo{class: cRMW, zeroIdiom: sseZeroIdiom[mn]}, true
	}
	if strings.HasPrefix(mn, "PMOVZX") || strings.HasPrefix(mn, "PMOVSX") {
		return opInfo{class: cMove}, true
	}
	return opInfo{}, false
}

// accessWidth is a best-effort width in bytes of a memory access made by in
// through operand oi (0 if unknown).
func accessWidth(in *Inst, info opInfo, opIdx int) int {
	vec := 0
	for i := range in.Ops {
		if in.Ops[i].Kind == OpReg && IsVectorReg(in.Ops[i].Reg) {
			w := map[byte]int{'X': 16, 'Y': 32, 'Z': 64}[in.Ops[i].RegRaw[0]]
			if w > vec {
				vec = w
			}
		}
	}
	switch in.Mnemonic {
	case "VPBROADCASTD", "VBROADCASTSS", "VMOVD", "MOVD", "VMOVSS", "MOVSS":
		return 4
	case "VPBROADCASTQ", "VBROADCASTSD", "VMOVQ", "VMOVSD", "MOVSD":
		return 8
	case "VPBROADCASTB":
		return 1
	case "VPBROADCASTW":
		return 2
	case "MOVQ":
		return 8
	}
	if info.srcSize != 0 && opIdx == 0 {
		return info.srcSize
	}
	if vec != 0 {
		return vec
	}
	return info.size
}
