// Command easmdump prints the facts the E-ASM front end derives for one
// build configuration (debugging aid; the engine itself is the library).
//
//	VOI_VERIF=/tmp/easm-verif go run ./easm/cmd/easmdump [-v] [-control] [config]
package main

import (
	"flag"
	"fmt"
	"os"
	"strings"

	"voicheck/easm"
	"voicheck/load"
	"voicheck/report"
)

func main() {
	verbose := flag.Bool("v", false, "print every memory operand class and macro use")
	control := flag.Bool("control", false, "run the positive control only")
	flag.Parse()
	if *control {
		if err := easm.PositiveControl(); err != nil {
			fmt.Println(err)
			os.Exit(1)
		}
		fmt.Println("positive control: every rule fired")
		return
	}
	cfg := "amd64"
	if flag.NArg() > 0 {
		cfg = flag.Arg(0)
	}
	p, err := load.Load(cfg, load.Opts{SSA: true})
	if err != nil {
		fmt.Println(err)
		os.Exit(2)
	}
	run := report.New("ASMDUMP", "quick", 0)
	run.SetConfig(cfg)
	res := easm.Lint(run, p, "ASM", nil)
	fmt.Printf("config %s: %+v\n", cfg, res.Counts)
	for _, sf := range res.Symbols {
		fmt.Printf("\n%s  (%s)  frame=%d args=%d insts=%d\n", sf.QualifiedName(), sf.Pos, sf.Sym.FrameSize, sf.Sym.ArgSize, sf.Instructions)
		if sf.Decl != nil {
			var ps []string
			for _, p := range sf.Decl.Params {
				ps = append(ps, fmt.Sprintf("%s+%d:%s", p.Name, p.Offset, p.Type))
			}
			fmt.Printf("  decl %s: %s (argsize %d)\n", sf.Decl.Pos, strings.Join(ps, ", "), sf.Decl.ArgSize)
		}
		fmt.Printf("  reads %v  writes %v  static reads %v  static writes %v  ptrregs %v\n", sf.Reads, sf.Writes, sf.StaticReads, sf.StaticWrites, sf.PtrRegs)
		cls := map[string]int{}
		for _, m := range sf.MemOps {
			cls[m.Class+"/"+m.Access.String()]++
		}
		fmt.Printf("  memory operands %d: %v\n", len(sf.MemOps), cls)
		for _, j := range sf.Jumps {
			fmt.Printf("  jump #%d line %d: %s %s (back=%v) class=%s args=%v setters=%v problems=%v\n", j.Ordinal, j.Line, j.Mnemonic, j.Target, j.Back, j.Class, j.Args, j.Setters, j.Problems)
			for _, c := range j.Controls {
				fmt.Printf("      control %s: %s defs=%v why=%q\n", c.What, c.Class, c.Defs, c.Why)
			}
		}
		for _, l := range sf.Loops {
			fmt.Printf("  loop %s lines %d-%d counted=%v counter=%s init=%d(%v,arg %q) step=%d cond=%s bound=%d trips=%d why=%q\n",
				l.Label, l.HeadLine, l.JumpLine, l.Counted, l.Counter, l.Init, l.InitKnown, l.InitArg, l.Step, l.Cond, l.Bound, l.Trips, l.Why)
			for _, s := range l.Strides {
				fmt.Printf("      stride %+v\n", s)
			}
			if *verbose {
				for _, a := range l.Accesses {
					fmt.Printf("      access %+v\n", a)
				}
			}
		}
		for _, n := range sf.Forbidden {
			fmt.Printf("  FORBIDDEN %+v\n", n)
		}
		for _, n := range sf.Unclassified {
			fmt.Printf("  UNCLASSIFIED %+v\n", n)
		}
		for _, m := range sf.Indexed {
			fmt.Printf("  INDEXED line %d %s\n", m.Line, m.Inst)
		}
		for _, m := range sf.Underived {
			fmt.Printf("  UNDERIVED line %d %s %v\n", m.Line, m.Inst, m.BadDefs)
		}
		for _, e := range sf.SlotErrors {
			fmt.Printf("  SLOT line %d: %s\n", e.Line, e.Msg)
		}
	}
	fmt.Println()
	for _, b := range res.Blobs {
		fmt.Printf("blob %s.%s size=%d ro=%v complete=%v", b.Pkg, b.Name, b.Size, b.ReadOnly(), b.Complete())
		if *verbose {
			fmt.Printf(" u32=%x", b.Uint32s())
		}
		fmt.Println()
	}
	fmt.Printf("keccak rc (%d from instructions, %d from macro arguments)\n", len(res.KeccakRC), len(res.KeccakRCArgs))
	if *verbose {
		for i := range res.KeccakRC {
			fmt.Printf("  rc[%d] = %#016x\n", i, res.KeccakRC[i])
		}
		for _, f := range res.Files {
			fmt.Printf("file %s: %d lines, %d symbols, %d blobs, %d macros, %d function-like macro uses\n", f.Name, f.Lines, len(f.Symbols), len(f.Blobs), len(f.Macros), len(f.MacroUses))
		}
	}
	for _, f := range res.Findings {
		fmt.Printf("FINDING %s [%s] %s: %s\n", f.Pos, f.Rule, f.Construct, f.Msg)
	}
	for _, f := range res.Fatal {
		fmt.Printf("FATAL %s\n", f)
	}
	fmt.Printf("%d findings, %d machinery failures\n", len(res.Findings), len(res.Fatal))
	if len(res.Findings)+len(res.Fatal) > 0 {
		os.Exit(1)
	}
}
