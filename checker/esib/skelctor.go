package esib

import (
	"go/token"
	"go/types"
	"sort"
	"strings"

	"golang.org/x/tools/go/ssa"

	"voicheck/load"
	"voicheck/report"
)

// ---- lookup-table constructors ------------------------------------------------------

type ptFact struct {
	origin types.Object
	k      int64 // value = 2^k * origin (through representation changes)
}

// constructors checks every new*LookupTable* function (result: a lookup-table
// type) and every fixed-base table constructor (result: pointer to an array of
// lookup tables).
func (c *skelChecker) constructors(ru *report.Rule) {
	sc := c.kn.pk.Types.Scope()
	for _, name := range sc.Names() {
		fn, ok := sc.Lookup(name).(*types.Func)
		if !ok {
			continue
		}
		sig := fn.Type().(*types.Signature)
		if sig.Results().Len() != 1 || sig.Params().Len() != 1 || c.p.FuncDecl(fn) == nil {
			continue
		}
		rt := sig.Results().At(0).Type()
		key := objKey(fn)
		switch {
		case c.kn.opClass(fn) == "ctor":
			cls, _ := c.kn.tableClassOf(rt)
			sk := c.skel(fn)
			c.res.Constructors = append(c.res.Constructors, key+" -> "+cls.String())
			if diag, pos := c.tableCtor(sk, cls); diag != "" {
				if !pos.IsValid() {
					pos = fn.Pos()
				}
				ru.Failf(c.p.Pos(pos), key, "constructor of %s (%s): %s", cls.Type, cls, diag)
			} else {
				ru.OK(key)
			}
		default:
			ptr, isPtr := rt.(*types.Pointer)
			if !isPtr {
				continue
			}
			cls, ok := c.kn.combClassOf(ptr.Elem())
			if !ok {
				continue
			}
			arr, _ := ptr.Elem().Underlying().(*types.Array)
			sk := c.skel(fn)
			c.res.Constructors = append(c.res.Constructors, sprintf("%s -> [%d]%s", key, arr.Len(), cls))
			if diag, pos := c.combCtor(sk, arr.Len()); diag != "" {
				if !pos.IsValid() {
					pos = fn.Pos()
				}
				ru.Failf(c.p.Pos(pos), key, "fixed-base table constructor: %s", diag)
			} else {
				ru.OK(key)
			}
		}
	}
	sort.Strings(c.res.Constructors)
}

func (c *skelChecker) firstParam(sk *Skeleton) types.Object {
	for o, i := range sk.x.params {
		if i == 0 {
			return o
		}
	}
	return nil
}

// tableCtor: entries[0] = P; entries[j+1] = entries[j] + S for j = 0..n-2,
// with S = P for tables of consecutive multiples (CT) and S = 2P for tables of
// odd multiples (ODD).
func (c *skelChecker) tableCtor(sk *Skeleton, cls tableClass) (string, token.Pos) {
	if len(sk.Problems) > 0 {
		return "cannot be normalised: " + strings.Join(sk.Problems, "; "), token.NoPos
	}
	x := sk.x
	P := c.firstParam(sk)
	facts := map[types.Object]ptFact{}
	get := func(pl *place) ptFact {
		if pl == nil {
			return ptFact{}
		}
		if f, ok := facts[pl.root]; ok && !pl.elem {
			return f
		}
		return ptFact{origin: pl.root}
	}
	wantK := int64(0)
	if cls.Kind == "ODD" {
		wantK = 1
	}
	var arr types.Object
	var initFact *ptFact
	mainSeen, retSeen := false, false
	for _, n := range sk.raw {
		switch n.kind {
		case "conv":
			switch n.desc {
			case "init-all":
				f := get(n.a)
				arr, initFact = n.dst.root, &f
			default:
				if n.a != nil && !n.dst.elem {
					facts[n.dst.root] = get(n.a)
				}
			}
		case "D":
			k, ok := n.k.isConst()
			if !ok {
				return "doubling count is not constant", n.pos
			}
			f := get(n.a)
			facts[n.dst.root] = ptFact{f.origin, f.k + k}
		case "loop":
			f, ok1 := n.from.isConst()
			t, ok2 := n.to.isConst()
			if !ok1 || !ok2 || f != 0 || n.step != 1 || n.excl {
				return "a loop does not count up from 0 with constant bound", n.pos
			}
			v := &lin{t: map[string]int64{n.v: 1}}
			var add *node
			for _, b := range n.body {
				if b.kind == "add" || b.kind == "sub" {
					add = b
				}
			}
			if add == nil {
				// initialisation loop: arr[i] = P for every i
				if len(n.body) != 1 || n.body[0].kind != "conv" || n.body[0].desc != "elem" || n.body[0].dst.idx == nil || !n.body[0].dst.idx.equal(v) {
					return "unrecognised loop in a table constructor", n.pos
				}
				if t != cls.N-1 {
					return sprintf("the initialisation loop covers entries 0..%d of a %d-entry table", t, cls.N), n.pos
				}
				fct := get(n.body[0].a)
				arr, initFact = n.body[0].dst.root, &fct
				continue
			}
			mainSeen = true
			if add.kind != "add" {
				return "entries are built by subtraction", add.pos
			}
			if t != cls.N-2 {
				return sprintf("the construction loop runs %d times; a %d-entry table needs %d additions (entries 1..%d)", t+1, cls.N, cls.N-1, cls.N-1), n.pos
			}
			// result location: follow the conversions after the add
			res := add.dst
			after := false
			for _, b := range n.body {
				if b == add {
					after = true
					continue
				}
				if after && b.kind == "conv" && samePlace(b.a, res) {
					res = b.dst
				}
			}
			if arr == nil || res.root != arr || !res.elem || res.idx == nil || !res.idx.equal(v.addConst(1)) {
				return "iteration j does not store its sum into entry j+1", add.pos
			}
			if add.b == nil || add.b.root != arr || !add.b.elem || add.b.idx == nil || !add.b.idx.equal(v) {
				return "iteration j does not add to entry j", add.pos
			}
			if sf := get(add.a); sf.origin != P || sf.k != wantK {
				want := "P"
				if wantK == 1 {
					want = "2P (one doubling of P)"
				}
				return sprintf("the step added per entry is not %s: it is 2^%d times %s", want, sf.k, x.roleOf(sf.origin)), add.pos
			}
		case "ret-table":
			retSeen = true
			if n.a == nil || n.a.root != arr {
				return "the table returned is not the array that was filled", n.pos
			}
		case "add", "sub", "neg", "copy", "other", "I":
			return "unexpected group operation outside the construction loop", n.pos
		}
	}
	switch {
	case initFact == nil:
		return "the entries are not initialised from the argument point", token.NoPos
	case initFact.origin != P || initFact.k != 0:
		return "entry 0 is not the argument point P", token.NoPos
	case !mainSeen:
		return "no construction loop found", token.NoPos
	case !retSeen:
		return "the filled array is not returned as the table", token.NoPos
	}
	_ = x
	return "", token.NoPos
}

// combCtor: table[i] = LookupTable(p); p = 2^8 p, for i = 0..len-1, p = basepoint.
func (c *skelChecker) combCtor(sk *Skeleton, n int64) (string, token.Pos) {
	if len(sk.Problems) > 0 {
		return "cannot be normalised: " + strings.Join(sk.Problems, "; "), token.NoPos
	}
	P := c.firstParam(sk)
	var cur types.Object // the running point
	var curFrom types.Object
	loops := 0
	for _, nd := range sk.raw {
		switch nd.kind {
		case "conv":
			if nd.a != nil && !nd.dst.elem {
				cur, curFrom = nd.dst.root, nd.a.root
			}
		case "loop":
			loops++
			f, ok1 := nd.from.isConst()
			t, ok2 := nd.to.isConst()
			if !ok1 || !ok2 || f != 0 || nd.step != 1 || nd.excl || t != n-1 {
				return sprintf("the loop does not fill sub-tables 0..%d", n-1), nd.pos
			}
			if len(nd.body) != 3 || nd.body[0].kind != "table" || nd.body[1].kind != "tstore" || nd.body[2].kind != "D" {
				return "the loop body is not  table[i] = LookupTable(p); p = 2^8 p", nd.pos
			}
			tb, st, d := nd.body[0], nd.body[1], nd.body[2]
			v := &lin{t: map[string]int64{nd.v: 1}}
			if tb.a == nil || tb.a.root != cur || curFrom != P {
				return "the sub-table is not built from the running multiple of the basepoint argument", tb.pos
			}
			if st.tbl != tb.tbl || st.k == nil || !st.k.equal(v) {
				return "sub-table i is not stored at index i", st.pos
			}
			k, ok := d.k.isConst()
			if !ok || k != 8 || d.dst.root != cur || d.a == nil || d.a.root != cur {
				return "the running point is not multiplied by 2^8 (two radix-16 digits) between sub-tables", d.pos
			}
		case "add", "sub", "neg", "copy", "other", "I", "D":
			return "unexpected group operation outside the loop", nd.pos
		}
	}
	if loops != 1 {
		return "expected exactly one construction loop", token.NoPos
	}
	return "", token.NoPos
}

// ---- entry points -------------------------------------------------------------------

func (c *skelChecker) method(typ, name string) *types.Func {
	f, _ := c.p.Obj(curveRel, typ+"."+name).(*types.Func)
	return f
}

func (c *skelChecker) entryPoints(ru *report.Rule) {
	p := c.p
	fail := func(fn *types.Func, name, msg string) {
		pos := "-"
		if fn != nil {
			pos = p.Pos(fn.Pos())
		}
		ru.Failf(pos, name, "%s", msg)
	}
	// 1. MulByCofactor = mulByPow2(3)
	{
		name := "curve.(*EdwardsPoint).MulByCofactor"
		fn := c.method("EdwardsPoint", "MulByCofactor")
		if fn == nil {
			fail(nil, name, "anchor not found")
		} else {
			sk := c.skel(fn)
			var ops []*node
			for _, n := range sk.raw {
				if isGroupOp(n.kind) || n.kind == "call" {
					ops = append(ops, n)
				}
			}
			ok := len(ops) == 1 && ops[0].kind == "D" && len(sk.Problems) == 0
			if ok {
				k, isC := ops[0].k.isConst()
				ok = isC && k == 3 && sk.x.params[ops[0].dst.root] == 0 && ops[0].a != nil && sk.x.params[ops[0].a.root] == 1
			}
			if ok {
				ru.OK(name)
			} else {
				fail(fn, name, "MulByCofactor is not exactly three doublings of its argument into the receiver (2^3 = cofactor 8): "+sk.print(nil))
			}
		}
	}
	// 2. IsSmallOrder = IsIdentity(MulByCofactor(p))
	{
		name := "curve.(*EdwardsPoint).IsSmallOrder"
		fn := c.method("EdwardsPoint", "IsSmallOrder")
		mbc, isId := c.method("EdwardsPoint", "MulByCofactor"), c.method("EdwardsPoint", "IsIdentity")
		var sf *ssa.Function
		if fn != nil && p.SSA != nil {
			sf = p.SSA.FuncValue(fn)
		}
		if sf == nil || mbc == nil || isId == nil {
			fail(fn, name, "anchor not found")
		} else {
			ok := false
			var calls []*ssa.Call
			for _, b := range sf.Blocks {
				for _, in := range b.Instrs {
					if call, isCall := in.(*ssa.Call); isCall {
						calls = append(calls, call)
					}
					if ret, isRet := in.(*ssa.Return); isRet && len(ret.Results) == 1 {
						if last, isCall := ret.Results[0].(*ssa.Call); isCall && len(calls) == 2 && last == calls[1] {
							c0, c1 := calls[0].Call.StaticCallee(), calls[1].Call.StaticCallee()
							// IsIdentity is applied to the result of MulByCofactor: the
							// value it returns (its receiver) or that receiver itself
							ok = c0 != nil && c1 != nil && c0.Object() == types.Object(mbc) && c1.Object() == types.Object(isId) &&
								(calls[1].Call.Args[0] == ssa.Value(calls[0]) || calls[1].Call.Args[0] == calls[0].Call.Args[0]) &&
								calls[0].Call.Args[1] == ssa.Value(sf.Params[0]) && calls[0].Call.Args[0] != ssa.Value(sf.Params[0])
						}
					}
				}
			}
			if ok && len(sf.Blocks) == 1 {
				ru.OK(name)
			} else {
				fail(fn, name, "IsSmallOrder is not IsIdentity(MulByCofactor(p))")
			}
		}
	}
	// 3. Sum starts from the identity and adds every value
	for _, typ := range []string{"EdwardsPoint"} {
		name := "curve.(*" + typ + ").Sum"
		fn := c.method(typ, "Sum")
		if fn == nil {
			fail(nil, name, "anchor not found")
			continue
		}
		sk := c.skel(fn)
		if got, want := sk.print(nil), "A0=0; for x0=0..len(p1)-1 {A0+=A1[x0]}"; got != want || len(sk.Problems) > 0 {
			fail(fn, name, sprintf("Sum is not  identity; for each value: p += value  (skeleton «%s», expected «%s»)", got, want))
		} else if sk.x.params[sk.norm[0].dst.root] != 0 {
			fail(fn, name, "Sum does not accumulate into its receiver")
		} else {
			ru.OK(name)
		}
	}
	// 4. multiscalar entry points: length panics before any work; algorithm chosen by length only
	for _, m := range []struct {
		name  string
		pairs [][2]int
	}{
		{"MultiscalarMul", [][2]int{{1, 2}}},
		{"MultiscalarMulVartime", [][2]int{{1, 2}}},
		{"ExpandedMultiscalarMulVartime", [][2]int{{1, 2}, {3, 4}}},
	} {
		name := "curve.(*EdwardsPoint)." + m.name
		fn := c.method("EdwardsPoint", m.name)
		var sf *ssa.Function
		if fn != nil && p.SSA != nil {
			sf = p.SSA.FuncValue(fn)
		}
		if sf == nil {
			fail(fn, name, "anchor not found")
			continue
		}
		if diag := lengthDiscipline(sf, m.pairs); diag != "" {
			fail(fn, name, diag)
		} else {
			ru.OK(name)
		}
	}
	// 5. Ristretto wrappers delegate to the Edwards routine of the same name, role for role
	if rt, _ := c.kn.pk.Types.Scope().Lookup("RistrettoPoint").(*types.TypeName); rt != nil {
		named := rt.Type().(*types.Named)
		for i := 0; i < named.NumMethods(); i++ {
			m := named.Method(i)
			if !strings.Contains(m.Name(), "Mul") {
				continue
			}
			name := objKey(m)
			target := c.method("EdwardsPoint", m.Name())
			if target == nil {
				continue
			}
			sk := c.skel(m)
			var calls []*node
			collectCalls(sk.norm, &calls)
			var want []string
			for j := 0; j <= m.Type().(*types.Signature).Params().Len(); j++ {
				want = append(want, sprintf("p%d", j))
			}
			ok := len(calls) == 1 && calls[0].callee == objKey(target) && len(calls[0].args) == len(want) && !hasOtherGroupOps(sk.norm)
			if ok {
				for j, a := range calls[0].args {
					// "p2", "[]p2" (a slice built element by element from p2) or
					// "p2.inner" (the Edwards representation inside a Ristretto wrapper type)
					a = strings.TrimPrefix(a, "[]")
					if i := strings.IndexByte(a, '.'); i >= 0 {
						a = a[:i]
					}
					if a != want[j] {
						ok = false
					}
				}
			}
			if ok {
				ru.OK(name)
			} else {
				fail(m, name, sprintf("the Ristretto wrapper does not delegate to %s with the same argument roles: «%s»", objKey(target), sk.print(nil)))
			}
		}
	}
	// 6. the vector odd-multiple tables are built in init from B and 2^128 B (amd64 only)
	if spk := p.SSAPkg(curveRel); spk != nil {
		if _, isVar := spk.Members[flagName].(*ssa.Global); isVar {
			for g, src := range map[string]string{"constVECTOR_ODD_MULTIPLES_OF_BASEPOINT": "ED25519_BASEPOINT_POINT", "constVECTOR_ODD_MULTIPLES_OF_B_SHL_128": "constB_SHL_128"} {
				name := "curve.init " + g
				if diag := initProvenance(spk, g, src); diag != "" {
					ru.Failf("-", name, "%s", diag)
				} else {
					ru.OK(name)
				}
			}
		}
	}
}

func hasOtherGroupOps(list []*node) bool {
	for _, n := range list {
		if isGroupOp(n.kind) {
			return true
		}
		if hasOtherGroupOps(n.body) || hasOtherGroupOps(n.els) {
			return true
		}
	}
	return false
}

// lenOf returns the parameter index i if v == len(param i).
func lenOf(fn *ssa.Function, v ssa.Value) (int, bool) {
	call, ok := v.(*ssa.Call)
	if !ok {
		return 0, false
	}
	b, ok := call.Call.Value.(*ssa.Builtin)
	if !ok || b.Name() != "len" {
		return 0, false
	}
	for i, p := range fn.Params {
		if call.Call.Args[0] == ssa.Value(p) {
			return i, true
		}
	}
	return 0, false
}

// onlyLengths reports whether v is computed from len(param) values and
// constants only.
func onlyLengths(fn *ssa.Function, v ssa.Value, depth int) bool {
	if depth > 8 {
		return false
	}
	switch v := v.(type) {
	case *ssa.Const:
		return true
	case *ssa.BinOp:
		return onlyLengths(fn, v.X, depth+1) && onlyLengths(fn, v.Y, depth+1)
	case *ssa.Convert:
		return onlyLengths(fn, v.X, depth+1)
	case *ssa.UnOp:
		return v.Op == token.NOT && onlyLengths(fn, v.X, depth+1)
	case *ssa.Call:
		_, ok := lenOf(fn, v)
		return ok
	}
	return false
}

// lengthDiscipline: for each (a, b) in pairs there is a test len(p_a) !=
// len(p_b) whose true edge panics; every call of a module function is
// dominated by the false edges of all these tests; every other branch that
// separates module calls depends on lengths and constants only.
func lengthDiscipline(fn *ssa.Function, pairs [][2]int) string {
	var guards []*ssa.BasicBlock // false successors
	for _, pr := range pairs {
		found := false
		for _, b := range fn.Blocks {
			ifi, ok := b.Instrs[len(b.Instrs)-1].(*ssa.If)
			if !ok {
				continue
			}
			// len(a) != len(b) with the panic on the true edge, or (the same test
			// spelled `!(len(a) == len(b))`) == with the panic on the false edge
			cond := ifi.Cond
			mism, match := 0, 1
			for {
				u, isNot := cond.(*ssa.UnOp)
				if !isNot || u.Op != token.NOT {
					break
				}
				cond, mism, match = u.X, match, mism
			}
			bin, ok := cond.(*ssa.BinOp)
			if !ok || (bin.Op != token.NEQ && bin.Op != token.EQL) {
				continue
			}
			if bin.Op == token.EQL {
				mism, match = match, mism
			}
			i, ok1 := lenOf(fn, bin.X)
			j, ok2 := lenOf(fn, bin.Y)
			if !ok1 || !ok2 || !((i == pr[0] && j == pr[1]) || (i == pr[1] && j == pr[0])) {
				continue
			}
			t := b.Succs[mism]
			if _, isPanic := t.Instrs[len(t.Instrs)-1].(*ssa.Panic); !isPanic || len(t.Preds) != 1 {
				continue
			}
			if len(b.Succs[match].Preds) != 1 {
				continue
			}
			found = true
			guards = append(guards, b.Succs[match])
		}
		if !found {
			return sprintf("no test len(%s) != len(%s) that panics on mismatch", fn.Params[pr[0]].Name(), fn.Params[pr[1]].Name())
		}
	}
	ncalls := 0
	for _, b := range fn.Blocks {
		for _, in := range b.Instrs {
			callee := staticCallee(in)
			if callee == nil || !load.IsModule(pkgOf(callee)) {
				continue
			}
			ncalls++
			for _, g := range guards {
				if !g.Dominates(b) {
					return sprintf("the call of %s is not preceded by every length-mismatch panic", funcKey(callee))
				}
			}
		}
		// branches other than the length panics
		if ifi, ok := b.Instrs[len(b.Instrs)-1].(*ssa.If); ok {
			isGuard := false
			for _, g := range guards {
				if b.Succs[1] == g || b.Succs[0] == g {
					isGuard = true
				}
			}
			if !isGuard && !onlyLengths(fn, ifi.Cond, 0) {
				return "a branch of the entry point depends on something other than slice lengths and constants"
			}
		}
	}
	if ncalls == 0 {
		return "the entry point calls no routine"
	}
	return ""
}

// initProvenance: init stores &T into global g where T = newCachedPointNafLookupTable8(load src).
func initProvenance(spk *ssa.Package, g, src string) string {
	gv, _ := spk.Members[g].(*ssa.Global)
	sv, _ := spk.Members[src].(*ssa.Global)
	if gv == nil || sv == nil {
		return "anchor not found: " + g + " / " + src
	}
	for _, m := range spk.Members {
		fn, ok := m.(*ssa.Function)
		if !ok || !strings.HasPrefix(fn.Name(), "init") {
			continue
		}
		for _, b := range fn.Blocks {
			for _, in := range b.Instrs {
				st, ok := in.(*ssa.Store)
				if !ok || st.Addr != ssa.Value(gv) {
					continue
				}
				// the value stored: the address of a local (possibly of a small
				// helper that builds and returns it) that holds the result of a
				// constructor call
				target := peel(cv{st.Val, nil})
				if ia, isIA := target.v.(*ssa.IndexAddr); isIA && target.f == nil {
					// &tbls[k] with tbls = h(p_0, ..., p_n), h mapping a constructor
					// over its arguments element by element
					if ctor, arg, ok := mappedElement(ia); ok {
						ld, isLd := peel(cv{arg, nil}).v.(*ssa.UnOp)
						if !isLd || ld.Op != token.MUL || ld.X != ssa.Value(sv) {
							return sprintf("the table is built by %s from something other than %s", ctor.Name(), src)
						}
						if !strings.HasPrefix(ctor.Name(), "new") {
							return "the table is not built by a table constructor"
						}
						return ""
					}
				}
				al, ok := target.v.(*ssa.Alloc)
				if !ok || al.Referrers() == nil {
					return "the global table is not set to the address of a freshly built table"
				}
				for _, ref := range *al.Referrers() {
					s2, ok := ref.(*ssa.Store)
					if !ok || s2.Addr != ssa.Value(al) {
						continue
					}
					built := peel(cv{s2.Val, target.f})
					call, ok := built.v.(*ssa.Call)
					if !ok || call.Call.StaticCallee() == nil || len(call.Call.Args) != 1 {
						return "the table stored is not the result of a constructor call"
					}
					arg := peel(cv{call.Call.Args[0], built.f})
					ld, ok := arg.v.(*ssa.UnOp)
					if !ok || ld.Op != token.MUL || ld.X != ssa.Value(sv) {
						return sprintf("the table is built by %s from something other than %s", call.Call.StaticCallee().Name(), src)
					}
					if rt := call.Call.StaticCallee().Signature.Results(); rt.Len() != 1 || !types.Identical(rt.At(0).Type(), al.Type().(*types.Pointer).Elem()) {
						return "the table is not built by a table constructor"
					}
					if !strings.HasPrefix(call.Call.StaticCallee().Name(), "new") {
						return "the table is not built by a table constructor"
					}
					return ""
				}
			}
		}
	}
	return "no store to " + g + " in package init"
}

// mappedElement resolves  &S[k]  (k constant) where S = h(a_0, ..., a_n) is the
// result of a helper h that builds its result slice by appending f(P[i]) for
// i = 0..len(P)-1 to an empty slice, P being its (variadic or slice)
// parameter: then S[k] = f(a_k).  It returns f and a_k.  Everything is checked
// structurally on the SSA of h (one counting loop over P, one append of one
// freshly built element per iteration, the loop result returned) and of the
// call site (the argument slice is a fresh array with one store per index).
func mappedElement(ia *ssa.IndexAddr) (f *ssa.Function, arg ssa.Value, ok bool) {
	k, isK := constInt(ia.Index)
	call, isCall := ia.X.(*ssa.Call)
	if !isK || !isCall || k < 0 {
		return nil, nil, false
	}
	h := call.Call.StaticCallee()
	if h == nil || len(h.Blocks) == 0 || len(h.FreeVars) != 0 || h.Pkg == nil || load.Rel(h.Pkg.Pkg) != curveRel {
		return nil, nil, false
	}
	// --- the helper: return of a loop-carried slice ---------------------------------
	var ret *ssa.Return
	for _, b := range h.Blocks {
		for _, in := range b.Instrs {
			if r, isR := in.(*ssa.Return); isR {
				if ret != nil {
					return nil, nil, false
				}
				ret = r
			}
		}
	}
	if ret == nil || len(ret.Results) != 1 {
		return nil, nil, false
	}
	res, isPhi := ret.Results[0].(*ssa.Phi)
	if !isPhi || len(res.Edges) != 2 {
		return nil, nil, false
	}
	var app *ssa.Call
	var empty *ssa.MakeSlice
	for _, e := range res.Edges {
		switch v := e.(type) {
		case *ssa.MakeSlice:
			empty = v
		case *ssa.Call:
			app = v
		}
	}
	if app == nil || empty == nil {
		return nil, nil, false
	}
	if n, isC := constInt(empty.Len); !isC || n != 0 {
		return nil, nil, false
	}
	bi, isB := app.Call.Value.(*ssa.Builtin)
	if !isB || bi.Name() != "append" || len(app.Call.Args) != 2 || app.Call.Args[0] != ssa.Value(res) {
		return nil, nil, false
	}
	// the appended slice: one element, freshly stored
	sl, isSl := app.Call.Args[1].(*ssa.Slice)
	if !isSl || sl.Low != nil || sl.High != nil {
		return nil, nil, false
	}
	box, isAl := sl.X.(*ssa.Alloc)
	if !isAl {
		return nil, nil, false
	}
	if arr, isArr := isArrayPtr(box.Type()); !isArr || arr.Len() != 1 || box.Referrers() == nil {
		return nil, nil, false
	}
	var elem ssa.Value
	for _, ref := range *box.Referrers() {
		if ea, isEA := ref.(*ssa.IndexAddr); isEA && ea.Referrers() != nil {
			for _, r2 := range *ea.Referrers() {
				if st, isSt := r2.(*ssa.Store); isSt && st.Addr == ssa.Value(ea) {
					if elem != nil {
						return nil, nil, false
					}
					elem = st.Val
				}
			}
		}
	}
	build, isCall2 := elem.(*ssa.Call)
	if !isCall2 || build.Call.StaticCallee() == nil || len(build.Call.Args) != 1 {
		return nil, nil, false
	}
	// its argument: P[i] with i the loop counter of the loop that carries res
	ld, isLd := build.Call.Args[0].(*ssa.UnOp)
	if !isLd || ld.Op != token.MUL {
		return nil, nil, false
	}
	pa, isPA := ld.X.(*ssa.IndexAddr)
	if !isPA {
		return nil, nil, false
	}
	param, isParam := pa.X.(*ssa.Parameter)
	if !isParam {
		return nil, nil, false
	}
	pi := -1
	for i, p := range h.Params {
		if p == param {
			pi = i
		}
	}
	if pi < 0 || !countsOverLen(pa.Index, res.Block(), param) || app.Block() == res.Block() || !res.Block().Dominates(app.Block()) {
		return nil, nil, false
	}
	// exactly one append into res per iteration, and nothing else feeds res
	if res.Referrers() != nil {
		for _, ref := range *res.Referrers() {
			switch ref := ref.(type) {
			case *ssa.Return:
			case *ssa.Call:
				if ref != app {
					return nil, nil, false
				}
			case *ssa.DebugRef:
			default:
				return nil, nil, false
			}
		}
	}
	// --- the call site: the argument slice is a fresh array, element k = a_k -----------
	if pi >= len(call.Call.Args) {
		return nil, nil, false
	}
	as, isSl2 := call.Call.Args[pi].(*ssa.Slice)
	if !isSl2 || as.Low != nil || as.High != nil {
		return nil, nil, false
	}
	arrAl, isAl2 := as.X.(*ssa.Alloc)
	if !isAl2 || arrAl.Referrers() == nil {
		return nil, nil, false
	}
	arr, isArr := isArrayPtr(arrAl.Type())
	if !isArr || k >= arr.Len() {
		return nil, nil, false
	}
	for _, ref := range *arrAl.Referrers() {
		switch ref := ref.(type) {
		case *ssa.IndexAddr:
			idx, isC := constInt(ref.Index)
			if !isC || ref.Referrers() == nil {
				return nil, nil, false
			}
			for _, r2 := range *ref.Referrers() {
				st, isSt := r2.(*ssa.Store)
				if !isSt || st.Addr != ssa.Value(ref) {
					return nil, nil, false // an element escapes
				}
				if idx == k {
					if arg != nil {
						return nil, nil, false
					}
					arg = st.Val
				}
			}
		case *ssa.Slice:
			if ref != as {
				return nil, nil, false
			}
		case *ssa.DebugRef:
		default:
			return nil, nil, false
		}
	}
	if arg == nil {
		return nil, nil, false
	}
	return build.Call.StaticCallee(), arg, true
}

// countsOverLen reports whether idx is the counter of the loop headed by hdr
// and that loop visits 0, 1, ..., len(p)-1: either the rotated form go/ssa
// builds for range (phi = [-1, idx], idx = phi+1, continue while idx < len(p))
// or the three-clause form (idx = phi = [0, phi+1], continue while phi < len(p)).
func countsOverLen(idx ssa.Value, hdr *ssa.BasicBlock, p *ssa.Parameter) bool {
	if len(hdr.Instrs) == 0 {
		return false
	}
	ifi, ok := hdr.Instrs[len(hdr.Instrs)-1].(*ssa.If)
	if !ok {
		return false
	}
	cmp, ok := ifi.Cond.(*ssa.BinOp)
	if !ok || cmp.Op != token.LSS || cmp.X != idx {
		return false
	}
	lenCall, ok := cmp.Y.(*ssa.Call)
	if !ok {
		return false
	}
	if b, isB := lenCall.Call.Value.(*ssa.Builtin); !isB || b.Name() != "len" || lenCall.Call.Args[0] != ssa.Value(p) {
		return false
	}
	start := func(phi *ssa.Phi, want int64, next ssa.Value) bool {
		if phi.Block() != hdr || len(phi.Edges) != 2 {
			return false
		}
		seenStart, seenNext := false, false
		for _, e := range phi.Edges {
			if c, isC := constInt(e); isC && c == want {
				seenStart = true
			} else if e == next {
				seenNext = true
			}
		}
		return seenStart && seenNext
	}
	plusOne := func(v ssa.Value) (*ssa.Phi, bool) {
		b, ok := v.(*ssa.BinOp)
		if !ok || b.Op != token.ADD {
			return nil, false
		}
		if c, isC := constInt(b.Y); !isC || c != 1 {
			return nil, false
		}
		phi, ok := b.X.(*ssa.Phi)
		return phi, ok
	}
	switch v := idx.(type) {
	case *ssa.BinOp: // range form: idx = phi + 1, phi = [-1, idx]
		phi, ok := plusOne(v)
		return ok && v.Block() == hdr && start(phi, -1, v)
	case *ssa.Phi: // three-clause form: phi = [0, phi+1]
		for _, e := range v.Edges {
			if ph, ok := plusOne(e); ok && ph == v {
				return start(v, 0, e)
			}
		}
	}
	return false
}
