package esib

import (
	"go/types"
	"sort"
	"strings"

	"voicheck/load"
	"voicheck/report"
)

// apiOf returns the canonical description of the exported API of a package:
// one entry per exported package-level object, per exported method (of T and
// *T) of every exported named type and per exported field of exported struct
// types.  Types are printed with fully qualified package paths, constants
// with their values.
func apiOf(pkg *types.Package) map[string]string {
	qual := func(p *types.Package) string { return p.Path() }
	// signatures and types are printed in canonical form: parameter and result
	// names are not part of the API, byte/uint8 and rune/int32 are one type,
	// aliases are resolved
	typeString := func(t types.Type) string { return types.TypeString(canonType(t, 0), qual) }
	out := map[string]string{}
	sc := pkg.Scope()
	for _, name := range sc.Names() {
		obj := sc.Lookup(name)
		if !obj.Exported() {
			continue
		}
		switch o := obj.(type) {
		case *types.Const:
			out[name] = "const " + name + " " + typeString(o.Type()) + " = " + o.Val().ExactString()
		case *types.Var:
			out[name] = "var " + name + " " + typeString(o.Type())
		case *types.Func:
			out[name] = "func " + name + strings.TrimPrefix(typeString(o.Type()), "func")
		case *types.TypeName:
			if o.IsAlias() {
				out[name] = "type " + name + " = " + typeString(types.Unalias(o.Type()))
				continue
			}
			named, _ := o.Type().(*types.Named)
			if named == nil {
				out[name] = "type " + name
				continue
			}
			und := named.Underlying()
			switch u := und.(type) {
			case *types.Struct:
				// the layout is an implementation detail (it legitimately differs
				// between back ends); exported fields are API
				out[name] = "type " + name + " struct"
				for i := 0; i < u.NumFields(); i++ {
					f := u.Field(i)
					if f.Exported() {
						out[name+"."+f.Name()] = "field " + name + "." + f.Name() + " " + typeString(f.Type())
					}
				}
			case *types.Interface:
				out[name] = "type " + name + " " + typeString(u)
			default:
				out[name] = "type " + name + " " + typeString(u)
			}
			for _, t := range []types.Type{named, types.NewPointer(named)} {
				ms := types.NewMethodSet(t)
				for i := 0; i < ms.Len(); i++ {
					m := ms.At(i)
					if !m.Obj().Exported() {
						continue
					}
					recv := name
					if _, ptr := t.(*types.Pointer); ptr {
						// only record pointer-receiver methods once
						if types.NewMethodSet(named).Lookup(m.Obj().Pkg(), m.Obj().Name()) != nil {
							continue
						}
						recv = "*" + name
					}
					key := "(" + recv + ")." + m.Obj().Name()
					out[key] = "method " + key + strings.TrimPrefix(typeString(m.Type()), "func")
				}
			}
		}
	}
	return out
}

// canonType rebuilds t without the spellings that are not part of the API:
// names of parameters and results, the universe aliases byte and rune, and
// declared aliases.  Named types stay themselves (they are printed with their
// package path).
func canonType(t types.Type, depth int) types.Type {
	if depth > 12 || t == nil {
		return t
	}
	switch u := t.(type) {
	case *types.Alias:
		return canonType(types.Unalias(u), depth+1)
	case *types.Basic:
		if int(u.Kind()) < len(types.Typ) && types.Typ[u.Kind()] != nil {
			return types.Typ[u.Kind()] // byte -> uint8, rune -> int32
		}
		return u
	case *types.Pointer:
		return types.NewPointer(canonType(u.Elem(), depth+1))
	case *types.Slice:
		return types.NewSlice(canonType(u.Elem(), depth+1))
	case *types.Array:
		return types.NewArray(canonType(u.Elem(), depth+1), u.Len())
	case *types.Map:
		return types.NewMap(canonType(u.Key(), depth+1), canonType(u.Elem(), depth+1))
	case *types.Chan:
		return types.NewChan(u.Dir(), canonType(u.Elem(), depth+1))
	case *types.Tuple:
		return canonTuple(u, depth)
	case *types.Signature:
		return types.NewSignatureType(nil, nil, nil, canonTuple(u.Params(), depth), canonTuple(u.Results(), depth), u.Variadic())
	case *types.Struct:
		fields := make([]*types.Var, u.NumFields())
		tags := make([]string, u.NumFields())
		for i := 0; i < u.NumFields(); i++ {
			f := u.Field(i)
			fields[i] = types.NewField(f.Pos(), f.Pkg(), f.Name(), canonType(f.Type(), depth+1), f.Embedded())
			tags[i] = u.Tag(i)
		}
		return types.NewStruct(fields, tags)
	case *types.Interface:
		if u.NumEmbeddeds() > 0 {
			return u
		}
		ms := make([]*types.Func, u.NumExplicitMethods())
		for i := range ms {
			m := u.ExplicitMethod(i)
			sig, _ := canonType(m.Type(), depth+1).(*types.Signature)
			ms[i] = types.NewFunc(m.Pos(), m.Pkg(), m.Name(), sig)
		}
		return types.NewInterfaceType(ms, nil).Complete()
	}
	return t
}

func canonTuple(tp *types.Tuple, depth int) *types.Tuple {
	if tp == nil || tp.Len() == 0 {
		return nil
	}
	vars := make([]*types.Var, tp.Len())
	for i := range vars {
		v := tp.At(i)
		vars[i] = types.NewParam(v.Pos(), v.Pkg(), "", canonType(v.Type(), depth+1))
	}
	return types.NewTuple(vars...)
}

// isInternalRel reports whether a module-relative package path is internal.
func isInternalRel(rel string) bool {
	return rel == "internal" || strings.HasPrefix(rel, "internal/") || strings.Contains(rel, "/internal/")
}

// APIDiff is one API difference between two configurations.
type APIDiff struct {
	Package string `json:"package"`
	Object  string `json:"object"`
	Ref     string `json:"ref"`   // reference configuration and what it declares
	Other   string `json:"other"` // deviating configuration and what it declares
}

// CheckAPI decides that the exported objects, method sets and signatures of
// every module package are identical in all the given configurations
// (reference = the first configuration in sorted order, `amd64` if present).
//
// For public packages every difference is a violation.  For packages under
// internal/ a difference cannot be observed by a user of the library and is
// already decided by "every configuration type-checks" (an importer that
// needed the missing object would not compile); such differences are
// returned (and sampled) as information, not failed.  One instance per
// (package, configuration) compared.
func CheckAPI(run *report.Run, progs map[string]*load.Program, ruleID string) []APIDiff {
	ru := run.Rule(ruleID, "exported objects, method sets and signatures of every public package are identical in all build configurations", 0)
	ids := sortedKeys(progs)
	if len(ids) < 2 {
		run.Fatal("E-SIB api: needs at least two configurations, got %d", len(ids))
		return nil
	}
	ref := ids[0]
	for _, id := range ids {
		if id == "amd64" {
			ref = id
		}
	}
	var info []APIDiff
	rp := progs[ref]
	for _, id := range ids {
		if id == ref {
			continue
		}
		p := progs[id]
		run.SetConfig(id)
		rels := map[string]bool{}
		for rel := range rp.ByRel {
			rels[rel] = true
		}
		for rel := range p.ByRel {
			rels[rel] = true
		}
		for _, rel := range sortedKeys(rels) {
			a, b := rp.ByRel[rel], p.ByRel[rel]
			if a == nil || b == nil {
				if isInternalRel(rel) {
					// not user visible; an importer that needed it would not compile
					ru.OKN(rel, 1)
					info = append(info, APIDiff{rel, "(package)", ref + ": " + map[bool]string{true: "present", false: "(absent)"}[a != nil], id + ": " + map[bool]string{true: "present", false: "(absent)"}[b != nil]})
					continue
				}
				ru.Failf("-", rel, "package exists in only one of the configurations %s, %s", ref, id)
				continue
			}
			apiA, apiB := apiOf(a.Types), apiOf(b.Types)
			keys := map[string]bool{}
			for k := range apiA {
				keys[k] = true
			}
			for k := range apiB {
				keys[k] = true
			}
			var diffs []APIDiff
			for _, k := range sortedKeys(keys) {
				if apiA[k] != apiB[k] {
					da, db := apiA[k], apiB[k]
					if da == "" {
						da = "(absent)"
					}
					if db == "" {
						db = "(absent)"
					}
					diffs = append(diffs, APIDiff{rel, k, ref + ": " + da, id + ": " + db})
				}
			}
			switch {
			case len(diffs) == 0:
				ru.OKN(rel, 1)
			case isInternalRel(rel):
				ru.OKN(rel, 1)
				info = append(info, diffs...)
			default:
				for _, d := range diffs {
					pos := "-"
					if o := a.Types.Scope().Lookup(strings.SplitN(strings.TrimLeft(d.Object, "(*"), ")", 2)[0]); o != nil {
						pos = rp.Pos(o.Pos())
					}
					ru.Fail(pos, rel+"."+d.Object, "exported API differs between configurations "+ref+" and "+id+": "+d.Ref+" vs "+d.Other, d)
				}
			}
		}
	}
	sort.Slice(info, func(i, j int) bool {
		if info[i].Package != info[j].Package {
			return info[i].Package < info[j].Package
		}
		return info[i].Object < info[j].Object
	})
	// de-duplicate the informational list over configurations
	var uniq []APIDiff
	seen := map[string]bool{}
	for _, d := range info {
		k := d.Package + "." + d.Object
		if !seen[k] {
			seen[k] = true
			uniq = append(uniq, d)
		}
	}
	if len(uniq) > 0 {
		run.Sample(map[string]any{"rule": ruleID, "note": "internal packages: representation-specific exported objects (not user visible; decided by type-checking of every configuration)", "objects": uniq})
	}
	return uniq
}
