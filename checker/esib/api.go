package esib

import (
	"go/types"
	"sort"
	"strings"

	"voicheck/load"
	"voicheck/report"
)

// apiOf returns the canonical description of the exported API of a package:
// one entry per exported package-level object, per exported method (of T and
// *T) of every exported named type and per exported field of exported struct
// types.  Types are printed with fully qualified package paths, constants
// with their values.
func apiOf(pkg *types.Package) map[string]string {
	qual := func(p *types.Package) string { return p.Path() }
	out := map[string]string{}
	sc := pkg.Scope()
	for _, name := range sc.Names() {
		obj := sc.Lookup(name)
		if !obj.Exported() {
			continue
		}
		switch o := obj.(type) {
		case *types.Const:
			out[name] = "const " + name + " " + types.TypeString(o.Type(), qual) + " = " + o.Val().ExactString()
		case *types.Var:
			out[name] = "var " + name + " " + types.TypeString(o.Type(), qual)
		case *types.Func:
			out[name] = "func " + name + strings.TrimPrefix(types.TypeString(o.Type(), qual), "func")
		case *types.TypeName:
			if o.IsAlias() {
				out[name] = "type " + name + " = " + types.TypeString(types.Unalias(o.Type()), qual)
				continue
			}
			named, _ := o.Type().(*types.Named)
			if named == nil {
				out[name] = "type " + name
				continue
			}
			und := named.Underlying()
			switch u := und.(type) {
			case *types.Struct:
				// the layout is an implementation detail (it legitimately differs
				// between back ends); exported fields are API
				out[name] = "type " + name + " struct"
				for i := 0; i < u.NumFields(); i++ {
					f := u.Field(i)
					if f.Exported() {
						out[name+"."+f.Name()] = "field " + name + "." + f.Name() + " " + types.TypeString(f.Type(), qual)
					}
				}
			case *types.Interface:
				out[name] = "type " + name + " " + types.TypeString(u, qual)
			default:
				out[name] = "type " + name + " " + types.TypeString(u, qual)
			}
			for _, t := range []types.Type{named, types.NewPointer(named)} {
				ms := types.NewMethodSet(t)
				for i := 0; i < ms.Len(); i++ {
					m := ms.At(i)
					if !m.Obj().Exported() {
						continue
					}
					recv := name
					if _, ptr := t.(*types.Pointer); ptr {
						// only record pointer-receiver methods once
						if types.NewMethodSet(named).Lookup(m.Obj().Pkg(), m.Obj().Name()) != nil {
							continue
						}
						recv = "*" + name
					}
					key := "(" + recv + ")." + m.Obj().Name()
					out[key] = "method " + key + strings.TrimPrefix(types.TypeString(m.Type(), qual), "func")
				}
			}
		}
	}
	return out
}

// isInternalRel reports whether a module-relative package path is internal.
func isInternalRel(rel string) bool {
	return rel == "internal" || strings.HasPrefix(rel, "internal/") || strings.Contains(rel, "/internal/")
}

// APIDiff is one API difference between two configurations.
type APIDiff struct {
	Package string `json:"package"`
	Object  string `json:"object"`
	Ref     string `json:"ref"`   // reference configuration and what it declares
	Other   string `json:"other"` // deviating configuration and what it declares
}

// CheckAPI decides that the exported objects, method sets and signatures of
// every module package are identical in all the given configurations
// (reference = the first configuration in sorted order, `amd64` if present).
//
// For public packages every difference is a violation.  For packages under
// internal/ a difference cannot be observed by a user of the library and is
// already decided by "every configuration type-checks" (an importer that
// needed the missing object would not compile); such differences are
// returned (and sampled) as information, not failed.  One instance per
// (package, configuration) compared.
func CheckAPI(run *report.Run, progs map[string]*load.Program, ruleID string) []APIDiff {
	ru := run.Rule(ruleID, "exported objects, method sets and signatures of every public package are identical in all build configurations", 0)
	ids := sortedKeys(progs)
	if len(ids) < 2 {
		run.Fatal("E-SIB api: needs at least two configurations, got %d", len(ids))
		return nil
	}
	ref := ids[0]
	for _, id := range ids {
		if id == "amd64" {
			ref = id
		}
	}
	var info []APIDiff
	rp := progs[ref]
	for _, id := range ids {
		if id == ref {
			continue
		}
		p := progs[id]
		run.SetConfig(id)
		rels := map[string]bool{}
		for rel := range rp.ByRel {
			rels[rel] = true
		}
		for rel := range p.ByRel {
			rels[rel] = true
		}
		for _, rel := range sortedKeys(rels) {
			a, b := rp.ByRel[rel], p.ByRel[rel]
			if a == nil || b == nil {
				ru.Failf("-", rel, "package exists in only one of the configurations %s, %s", ref, id)
				continue
			}
			apiA, apiB := apiOf(a.Types), apiOf(b.Types)
			keys := map[string]bool{}
			for k := range apiA {
				keys[k] = true
			}
			for k := range apiB {
				keys[k] = true
			}
			var diffs []APIDiff
			for _, k := range sortedKeys(keys) {
				if apiA[k] != apiB[k] {
					da, db := apiA[k], apiB[k]
					if da == "" {
						da = "(absent)"
					}
					if db == "" {
						db = "(absent)"
					}
					diffs = append(diffs, APIDiff{rel, k, ref + ": " + da, id + ": " + db})
				}
			}
			switch {
			case len(diffs) == 0:
				ru.OKN(rel, 1)
			case isInternalRel(rel):
				ru.OKN(rel, 1)
				info = append(info, diffs...)
			default:
				for _, d := range diffs {
					pos := "-"
					if o := a.Types.Scope().Lookup(strings.SplitN(strings.TrimLeft(d.Object, "(*"), ")", 2)[0]); o != nil {
						pos = rp.Pos(o.Pos())
					}
					ru.Fail(pos, rel+"."+d.Object, "exported API differs between configurations "+ref+" and "+id+": "+d.Ref+" vs "+d.Other, d)
				}
			}
		}
	}
	sort.Slice(info, func(i, j int) bool {
		if info[i].Package != info[j].Package {
			return info[i].Package < info[j].Package
		}
		return info[i].Object < info[j].Object
	})
	// de-duplicate the informational list over configurations
	var uniq []APIDiff
	seen := map[string]bool{}
	for _, d := range info {
		k := d.Package + "." + d.Object
		if !seen[k] {
			seen[k] = true
			uniq = append(uniq, d)
		}
	}
	if len(uniq) > 0 {
		run.Sample(map[string]any{"rule": ruleID, "note": "internal packages: representation-specific exported objects (not user visible; decided by type-checking of every configuration)", "objects": uniq})
	}
	return uniq
}
