package esib

// These tests run the sub-engines against the repository the loader points
// at (/repo, or $VOI_REPO) and require them to be silent; `go test -v` prints
// what was discovered.  They are the engine's regression tests; the seeded
// mutants of DESIGN Appendix C are exercised through scratch copies (see the
// builder's report) and through props/c03.go's thorough tier.

import (
	"encoding/json"
	"go/ast"
	"go/types"
	"os"
	"strings"
	"sync"
	"testing"

	"voicheck/load"
	"voicheck/report"
)

var (
	progMu sync.Mutex
	progs  = map[string]*load.Program{}
)

func prog(t *testing.T, id string) *load.Program {
	t.Helper()
	progMu.Lock()
	defer progMu.Unlock()
	if p := progs[id]; p != nil {
		return p
	}
	p, err := load.Load(id, load.Opts{SSA: true})
	if err != nil {
		t.Fatalf("load %s: %v", id, err)
	}
	progs[id] = p
	return p
}

// finish fails the test if the run recorded violations; the evidence is
// written to a temporary directory, never to /verif/evidence.
func finish(t *testing.T, run *report.Run) {
	t.Helper()
	dir := t.TempDir()
	os.Setenv("VOI_VERIF", dir)
	defer os.Unsetenv("VOI_VERIF")
	old := os.Stdout
	r, w, _ := os.Pipe()
	os.Stdout = w
	code := run.Finish()
	w.Close()
	os.Stdout = old
	buf := make([]byte, 1<<20)
	n, _ := r.Read(buf)
	out := string(buf[:n])
	if code != 0 {
		t.Errorf("run reported violations:\n%s", out)
	} else if testing.Verbose() {
		t.Log("\n" + out)
	}
}

func dump(t *testing.T, v any) {
	if testing.Verbose() {
		b, _ := json.MarshalIndent(v, "", "  ")
		t.Log("\n" + string(b))
	}
}

func TestDispatch(t *testing.T) {
	for _, id := range []string{"amd64", "purego"} {
		run := report.New("T", "quick", 0)
		run.SetConfig(id)
		res := CheckDispatch(run, prog(t, id), prog(t, "purego"), "SIB-dispatch")
		dump(t, res)
		if len(res.Stubs) != 11 {
			t.Errorf("%s: %d stubs, want 11", id, len(res.Stubs))
		}
		if res.Switches != 14 {
			t.Errorf("%s: %d dispatch switches, want 14", id, res.Switches)
		}
		for _, p := range res.Pairs {
			if !strings.Contains(p.Vector, "Vector") && !strings.Contains(p.Vector, "ached") {
				t.Errorf("%s: odd pair %+v", id, p)
			}
		}
		finish(t, run)
	}
}

func TestAPI(t *testing.T) {
	run := report.New("T", "quick", 0)
	ps := map[string]*load.Program{}
	for _, id := range []string{"amd64", "purego", "f32"} {
		ps[id] = prog(t, id)
	}
	info := CheckAPI(run, ps, "SIB-api")
	dump(t, info)
	finish(t, run)
}

func TestUniform(t *testing.T) {
	for _, id := range []string{"amd64", "purego", "f32"} {
		run := report.New("T", "quick", 0)
		run.SetConfig(id)
		res := CheckUniform(run, prog(t, id), "SIB-uniform")
		dump(t, res)
		finish(t, run)
	}
}

func TestDuality(t *testing.T) {
	for _, id := range []string{"amd64", "purego"} {
		run := report.New("T", "quick", 0)
		run.SetConfig(id)
		res := CheckDuality(run, prog(t, id), "SIB-duality")
		dump(t, res)
		finish(t, run)
	}
}

func TestMaskedScan(t *testing.T) {
	for _, id := range []string{"amd64", "purego"} {
		run := report.New("T", "quick", 0)
		run.SetConfig(id)
		res := CheckMaskedScan(run, prog(t, id), "SIB-scan")
		dump(t, res)
		finish(t, run)
	}
}

func TestClones(t *testing.T) {
	run := report.New("T", "quick", 0)
	run.SetConfig("amd64")
	res := CheckClones(run, prog(t, "amd64"), "SIB-clone")
	dump(t, res)
	finish(t, run)
}

func TestSkeletonDump(t *testing.T) {
	p := prog(t, "amd64")
	kn := newKnowledge(p)
	if len(kn.missing) > 0 {
		t.Fatalf("missing anchors %v", kn.missing)
	}
	sc := kn.pk.Types.Scope()
	_ = sc
	for _, f := range kn.pk.Syntax {
		name := p.Fset.Position(f.Pos()).Filename
		if !strings.Contains(name, "scalar_mul_") && !strings.HasSuffix(name, "window.go") {
			continue
		}
		for _, d := range f.Decls {
			fd, ok := d.(*ast.FuncDecl)
			if !ok || fd.Body == nil {
				continue
			}
			fn, _ := kn.pk.TypesInfo.Defs[fd.Name].(*types.Func)
			sk := kn.extract(fn)
			sk.normalize()
			t.Logf("%s\n    NF: %s\n    problems: %v", sk.Func, sk.print(nil), sk.Problems)
		}
	}
}

func TestSkeletons(t *testing.T) {
	for _, id := range []string{"amd64", "purego"} {
		run := report.New("T", "quick", 0)
		run.SetConfig(id)
		d := CheckDispatch(run, prog(t, id), prog(t, "purego"), "SIB-dispatch")
		res := CheckSkeletons(run, prog(t, id), d.Pairs, "SIB-skel")
		if id == "amd64" {
			dump(t, res)
		}
		finish(t, run)
	}
}
