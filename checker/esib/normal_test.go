package esib

// Regression tests of the normal forms: every case edits /repo IN MEMORY
// (packages.Config.Overlay) and runs the C03 sub-engines on the result.
//
//   - a NEUTRAL case is a behaviour-preserving rewrite of ONE twin (or of a
//     Lookup, a constructor, an entry point): every rule must stay silent;
//   - a BREAKING case changes behaviour: the named rule must report it (these
//     are the positive controls of the rules whose expected count is zero).
//
// A case whose anchor text no longer occurs in the repository is skipped (the
// repository moved on), never silently passed as a breaking control.

import (
	"os"
	"path/filepath"
	"strings"
	"testing"

	"voicheck/load"
	"voicheck/report"
)

type edit struct{ file, old, new string }

type nfCase struct {
	name   string
	edits  []edit
	expect string // "" = neutral (silent); otherwise the rule id that must fire
}

const (
	fDB = "curve/scalar_mul_vartime_double_base.go"
	fST = "curve/scalar_mul_straus.go"
	fVB = "curve/scalar_mul_variable_base.go"
	fAB = "curve/scalar_mul_abglsv_pornin.go"
	fWI = "curve/window.go"
	fMO = "curve/models.go"
)

const genA = `		if aNaf[i] > 0 {
			t.AddEdwardsProjectiveNiels(tEp.setCompleted(&t), tableA.Lookup(uint8(aNaf[i])))
		} else if aNaf[i] < 0 {
			t.SubEdwardsProjectiveNiels(tEp.setCompleted(&t), tableA.Lookup(uint8(-aNaf[i])))
		}
`

const scanA = `	var i int
	for j := 255; j >= 0; j-- {
		if aNaf[j] != 0 || bNaf[j] != 0 {
			i = j
			break
		}
	}

	tableB := &constAFFINE_ODD_MULTIPLES_OF_BASEPOINT`

const lookupHead = `func (tbl *projectiveNielsPointLookupTable) Lookup(x int8) projectiveNielsPoint {
	// Compute xabs = |x|
	xmask := x >> 7
	xabs := uint8((x + xmask) ^ xmask)
`

var nfCases = []nfCase{
	// --- conditions: De Morgan, flipped comparisons, double negation ----------
	{"scan-demorgan-flip", []edit{{fDB, scanA, strings.Replace(strings.Replace(scanA, "aNaf[j] != 0 || bNaf[j] != 0", "!(bNaf[j] == 0 && 0 == aNaf[j])", 1), "j >= 0", "-1 < j", 1)}}, ""},
	// --- if/else polarity, switch, nesting, hoisted guards, arm order ------------
	{"sign-switch-forms", []edit{{fDB, genA, `		neg := aNaf[i] < 0
		switch {
		case neg:
			t.SubEdwardsProjectiveNiels(tEp.setCompleted(&t), tableA.Lookup(uint8(-aNaf[i])))
		case !(aNaf[i] <= 0):
			t.AddEdwardsProjectiveNiels(tEp.setCompleted(&t), tableA.Lookup(uint8(aNaf[i])))
		}
`}}, ""},
	{"flag-polarity", []edit{{fAB, "		if !d0IsNeg {\n			if d_0_naf[i] > 0 {\n				t.AddEdwardsProjectiveNiels(", "		if d0IsNeg == false {\n			if d_0_naf[i] > 0 {\n				t.AddEdwardsProjectiveNiels("}}, ""},
	// --- loops: index / range / range-with-value ------------------------------------
	{"range-forms", []edit{
		{fST, "		for j := 0; j < len(points); j++ {\n			// R_i = s_{i,j} * P_i\n			R_i := lookupTables[j].Lookup(scalarDigitsVec[j][i])", "		for j, tbl := range lookupTables {\n			// R_i = s_{i,j} * P_i\n			R_i := tbl.Lookup(scalarDigitsVec[j][i])"},
		{fST, "func edwardsMultiscalarMulStrausGeneric(out *EdwardsPoint, scalars []*scalar.Scalar, points []*EdwardsPoint) *EdwardsPoint {\n	lookupTables := make([]projectiveNielsPointLookupTable, 0, len(points))\n	for _, point := range points {\n		lookupTables = append(lookupTables, newProjectiveNielsPointLookupTable(point))", "func edwardsMultiscalarMulStrausGeneric(out *EdwardsPoint, scalars []*scalar.Scalar, points []*EdwardsPoint) *EdwardsPoint {\n	lookupTables := make([]projectiveNielsPointLookupTable, 0, len(points))\n	for k := 0; k < len(points); k++ {\n		lookupTables = append(lookupTables, newProjectiveNielsPointLookupTable(points[k]))"},
	}, ""},
	// --- helper extraction (skeleton) and reordered declarations ------------------------
	{"extract-helper-reorder-decls", []edit{
		{fDB, genA, "		addNafDigitPN(&t, &tEp, tableA, aNaf[i])\n"},
		{fDB, "func edwardsDoubleScalarMulBasepointVartimeVector(", "func addNafDigitPN(t *completedPoint, tEp *EdwardsPoint, table *projectiveNielsPointNafLookupTable, d int8) {\n	if d > 0 {\n		t.AddEdwardsProjectiveNiels(tEp.setCompleted(t), table.Lookup(uint8(d)))\n	} else if d < 0 {\n		t.SubEdwardsProjectiveNiels(tEp.setCompleted(t), table.Lookup(uint8(-d)))\n	}\n}\n\nfunc edwardsDoubleScalarMulBasepointVartimeVector("},
		{fDB, "	aNaf := a.NonAdjacentForm(5)\n	bNaf := b.NonAdjacentForm(8)\n\n	// Find the starting index.", "	bNaf := b.NonAdjacentForm(8)\n	aNaf := a.NonAdjacentForm(5)\n\n	// Find the starting index."},
	}, ""},
	// --- masked scan: helper for |x| and the mask, other spelling of |x|, zero-based loop ---
	{"scan-helper-and-forms", []edit{
		{fWI, lookupHead, "func absMask(x int8) (uint8, int8) {\n	m := x >> 7\n	return uint8((x ^ m) - m), m\n}\n\nfunc (tbl *projectiveNielsPointLookupTable) Lookup(x int8) projectiveNielsPoint {\n	xabs, xmask := absMask(x)\n"},
		{fWI, "	t.Identity()\n	for j := 1; j < 9; j++ {\n		// Copy `points[j-1] == j*P` onto `t` in constant time if `|x| == j`.\n		c := subtle.ConstantTimeCompareByte(byte(xabs), byte(j))\n		t.ConditionalAssign(&tbl[j-1], c)\n	}\n	// Now t == |x| * P.\n\n	negMask := int(byte(xmask & 1))\n	t.ConditionalNegate(negMask)\n	// Now t == x * P.\n\n	return t\n}\n\nfunc newProjectiveNielsPointLookupTable(",
			"	t.Identity()\n	for j := range tbl {\n		c := subtle.ConstantTimeCompareByte(byte(1+j), byte(xabs))\n		t.ConditionalAssign(&tbl[j], c)\n	}\n\n	negMask := int(byte(1 & xmask))\n	t.ConditionalNegate(negMask)\n\n	return t\n}\n\nfunc newProjectiveNielsPointLookupTable("},
	}, ""},
	// --- duality: part of the Sub formula in a helper, output through a copy ---------------
	{"duality-helper-copy", []edit{
		{fMO, "	PM.Add(&a.inner.Y, &a.inner.X) // a.Y + a.X\n	PM.Mul(&PM, &b.Y_minus_X)      // (a.Y + a.X) * b.Y_minus_X\n	MP.Sub(&a.inner.Y, &a.inner.X) // a.Y - a.X\n	MP.Mul(&MP, &b.Y_plus_X)       // (a.Y - a.X) * b.Y_plus_X\n	TT2d.Mul(&a.inner.T, &b.T2d)\n	ZZ.Mul(&a.inner.Z, &b.Z)\n	ZZ2.Add(&ZZ, &ZZ)\n\n	p.X.Sub(&PM, &MP)\n	p.Y.Add(&PM, &MP)\n	p.Z.Sub(&ZZ2, &TT2d)",
			"	crossTerms(&PM, &MP, a, b)\n	TT2d.Mul(&b.T2d, &a.inner.T)\n	ZZ.Mul(&a.inner.Z, &b.Z)\n	ZZ2.Add(&ZZ, &ZZ)\n\n	p.X.Sub(&PM, &MP)\n	p.Y.Add(&MP, &PM)\n	var z field.Element\n	z.Sub(&ZZ2, &TT2d)\n	p.Z.Set(&z)"},
		{fMO, "func (p *completedPoint) AddEdwardsAffineNiels(", "func crossTerms(PM, MP *field.Element, a *EdwardsPoint, b *projectiveNielsPoint) {\n	PM.Add(&a.inner.Y, &a.inner.X)\n	PM.Mul(PM, &b.Y_minus_X)\n	MP.Sub(&a.inner.Y, &a.inner.X)\n	MP.Mul(MP, &b.Y_plus_X)\n}\n\nfunc (p *completedPoint) AddEdwardsAffineNiels("},
	}, ""},
	// --- dispatch: if-form, flag accessor -------------------------------------------------
	{"dispatch-accessor", []edit{
		{fVB, "	switch supportsVectorizedEdwards {\n	case true:\n		return edwardsMulVector(out, point, scalar)\n	default:\n		return edwardsMulGeneric(out, point, scalar)\n	}", "	if !useVectorBackend() {\n		return edwardsMulGeneric(out, point, scalar)\n	}\n	return edwardsMulVector(out, point, scalar)"},
		{fVB, "func edwardsMulGeneric(", "func useVectorBackend() bool { return supportsVectorizedEdwards }\n\nfunc edwardsMulGeneric("},
	}, ""},

	// --- second pass: visiting order of independent iterations, floating recodings and
	//     resets of fresh locals, preset counters, while-form search ----------------------------
	{"loop-direction-independent", []edit{{fWI, "	var Ai [64]affineNielsPoint\n	for i := range Ai {", "	var Ai [64]affineNielsPoint\n	for i := len(Ai) - 1; i >= 0; i-- {"}}, ""},
	{"recode-reset-order", []edit{{"curve/scalar_mul_basepoint.go", "	a := scalar.ToRadix16()\n\n	out.Identity()\n\n	var sum completedPoint\n	for i := 1; i < 64; i = i + 2 {\n		aPt := tbl[i/2].Lookup(a[i])", "	out.Identity()\n\n	a := scalar.ToRadix16()\n\n	var sum completedPoint\n	for i := 1; i < 64; i = i + 2 {\n		aPt := tbl[i/2].Lookup(a[i])"}}, ""},
	{"fresh-local-reset-floats", []edit{{fST, "	nafs := make([][256]int8, 0, len(scalars))\n	for _, scalar := range scalars {\n		nafs = append(nafs, scalar.NonAdjacentForm(5))\n	}\n\n	var r projectivePoint\n	r.Identity()\n", "	var r projectivePoint\n	r.Identity()\n\n	nafs := make([][256]int8, 0, len(scalars))\n	for _, scalar := range scalars {\n		nafs = append(nafs, scalar.NonAdjacentForm(5))\n	}\n"}}, ""},
	{"preset-counter-loop", []edit{
		{fDB, "		t   completedPoint\n	)\n	for {\n		t.Double(&r)\n\n		if aNaf[i] > 0 {", "		t   completedPoint\n	)\n	for ; i >= 0; i-- {\n		t.Double(&r)\n\n		if aNaf[i] > 0 {"},
		{fDB, "		r.SetCompleted(&t)\n\n		if i == 0 {\n			break\n		}\n		i--\n	}\n\n	return out.setProjective(&r)", "		r.SetCompleted(&t)\n	}\n\n	return out.setProjective(&r)"},
	}, ""},
	{"while-form-search", []edit{{fDB, scanA, "	i := 255\n	for i > 0 {\n		if aNaf[i] != 0 || bNaf[i] != 0 {\n			break\n		}\n		i--\n	}\n\n	tableB := &constAFFINE_ODD_MULTIPLES_OF_BASEPOINT"}}, ""},

	// --- BREAKING: must be reported ------------------------------------------------------------
	{"B-search-runs-past-zero", []edit{{fDB, scanA, "	i := 255\n	for i >= 0 {\n		if aNaf[i] != 0 || bNaf[i] != 0 {\n			break\n		}\n		i--\n	}\n\n	tableB := &constAFFINE_ODD_MULTIPLES_OF_BASEPOINT"}}, "SIB-skel-horner"},
	{"B-reset-before-tables-of-aliasing-points", []edit{
		{fST, "func edwardsMultiscalarMulStrausGeneric(out *EdwardsPoint, scalars []*scalar.Scalar, points []*EdwardsPoint) *EdwardsPoint {\n", "func edwardsMultiscalarMulStrausGeneric(out *EdwardsPoint, scalars []*scalar.Scalar, points []*EdwardsPoint) *EdwardsPoint {\n	out.Identity()\n"},
		{fST, "		scalarDigitsVec = append(scalarDigitsVec, scalar.ToRadix16())\n	}\n\n	out.Identity()\n", "		scalarDigitsVec = append(scalarDigitsVec, scalar.ToRadix16())\n	}\n"},
	}, "SIB-skel-pair"},
	{"B-ctor-dependent-loop-reversed", []edit{{fWI, "	for j := 0; j < 7; j++ {\n		var (\n			tmp  completedPoint\n			tmp2 EdwardsPoint\n		)\n		points[j+1].SetEdwards(tmp2.setCompleted(tmp.AddEdwardsProjectiveNiels(ep, &points[j])))", "	for j := 6; j >= 0; j-- {\n		var (\n			tmp  completedPoint\n			tmp2 EdwardsPoint\n		)\n		points[j+1].SetEdwards(tmp2.setCompleted(tmp.AddEdwardsProjectiveNiels(ep, &points[j])))"}}, "SIB-skel-ctor"},
	{"B-polarity-swapped", []edit{{fDB, genA, strings.Replace(strings.Replace(genA, "aNaf[i] > 0", "aNaf[i] < 0", 1), "} else if aNaf[i] < 0 {", "} else if aNaf[i] > 0 {", 1)}}, "SIB-skel-polarity"},
	{"B-scan-misses-a-recoding", []edit{{fDB, scanA, strings.Replace(scanA, "aNaf[j] != 0 || bNaf[j] != 0", "!(aNaf[j] == 0)", 1)}}, "SIB-skel-horner"},
	{"B-twin-loop-shorter", []edit{{fST, "		for j := 0; j < len(points); j++ {\n			// R_i = s_{i,j} * P_i", "		for j := range points[1:] {\n			// R_i = s_{i,j} * P_i"}}, "SIB-skel-pair"},
	{"B-helper-wrong-abs", []edit{{fWI, lookupHead, "func absMask(x int8) (uint8, int8) {\n	m := x >> 7\n	return uint8((x + m) ^ x), m\n}\n\nfunc (tbl *projectiveNielsPointLookupTable) Lookup(x int8) projectiveNielsPoint {\n	xabs, xmask := absMask(x)\n"}}, "SIB-scan"},
	{"B-dispatch-accessor-inverted", []edit{
		{fVB, "	switch supportsVectorizedEdwards {\n	case true:\n		return edwardsMulVector(out, point, scalar)\n	default:\n		return edwardsMulGeneric(out, point, scalar)\n	}", "	if useGenericBackend() {\n		return edwardsMulVector(out, point, scalar)\n	}\n	return edwardsMulGeneric(out, point, scalar)"},
		{fVB, "func edwardsMulGeneric(", "func useGenericBackend() bool { return !supportsVectorizedEdwards }\n\nfunc edwardsMulGeneric("},
	}, "SIB-dispatch"},
	{"B-duality-helper-not-dual", []edit{
		{fMO, "	PM.Add(&a.inner.Y, &a.inner.X) // a.Y + a.X\n	PM.Mul(&PM, &b.Y_minus_X)      // (a.Y + a.X) * b.Y_minus_X\n	MP.Sub(&a.inner.Y, &a.inner.X) // a.Y - a.X\n	MP.Mul(&MP, &b.Y_plus_X)       // (a.Y - a.X) * b.Y_plus_X\n", "	crossTerms(&PM, &MP, a, b)\n"},
		{fMO, "func (p *completedPoint) AddEdwardsAffineNiels(", "func crossTerms(PM, MP *field.Element, a *EdwardsPoint, b *projectiveNielsPoint) {\n	PM.Add(&a.inner.Y, &a.inner.X)\n	PM.Mul(PM, &b.Y_plus_X)\n	MP.Sub(&a.inner.Y, &a.inner.X)\n	MP.Mul(MP, &b.Y_minus_X)\n}\n\nfunc (p *completedPoint) AddEdwardsAffineNiels("},
	}, "SIB-duality"},
}

// runC03Engines runs the sub-engines of C03 on one configuration and returns
// the printed report and the exit code.
func runC03Engines(t *testing.T, p *load.Program) (string, int) {
	t.Helper()
	run := report.New("T", "quick", 0)
	run.SetConfig(p.Cfg.ID)
	d := CheckDispatch(run, p, p, "SIB-dispatch")
	CheckSkeletons(run, p, d.Pairs, "SIB-skel")
	CheckDuality(run, p, "SIB-duality")
	CheckMaskedScan(run, p, "SIB-scan")
	dir := t.TempDir()
	os.Setenv("VOI_VERIF", dir)
	defer os.Unsetenv("VOI_VERIF")
	old := os.Stdout
	r, w, _ := os.Pipe()
	os.Stdout = w
	done := make(chan string)
	go func() {
		var sb strings.Builder
		buf := make([]byte, 1<<16)
		for {
			n, err := r.Read(buf)
			sb.Write(buf[:n])
			if err != nil {
				break
			}
		}
		done <- sb.String()
	}()
	code := run.Finish()
	w.Close()
	os.Stdout = old
	return <-done, code
}

func TestNormalForms(t *testing.T) {
	if testing.Short() {
		t.Skip("loads one program per case")
	}
	for _, c := range nfCases {
		c := c
		t.Run(c.name, func(t *testing.T) {
			ov := map[string][]byte{}
			for _, e := range c.edits {
				abs := filepath.Join(load.RepoDir(), e.file)
				src, ok := ov[abs]
				if !ok {
					b, err := os.ReadFile(abs)
					if err != nil {
						t.Skipf("cannot read %s: %v", abs, err)
					}
					src = b
				}
				if !strings.Contains(string(src), e.old) {
					t.Skipf("anchor text of the edit no longer occurs in %s", e.file)
				}
				ov[abs] = []byte(strings.Replace(string(src), e.old, e.new, 1))
			}
			p, err := load.Load("purego", load.Opts{SSA: true, Overlay: ov})
			if err != nil {
				t.Fatalf("the edited tree does not load: %v", err)
			}
			out, code := runC03Engines(t, p)
			switch {
			case c.expect == "" && code != 0:
				t.Errorf("a behaviour-preserving edit is reported:\n%s", out)
			case c.expect != "" && !strings.Contains(out, "["+c.expect+"]"):
				t.Errorf("the breaking edit is not reported by %s:\n%s", c.expect, out)
			}
		})
	}
}
