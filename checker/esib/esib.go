// Package esib implements E-SIB of DESIGN.md: siblings, dispatch and
// skeletons.  Every sub-engine decides a *structural* necessary condition of
// "all implementations of the group operations agree" from the type-checked
// source (typed AST and go/ssa) of /repo; none of them evaluates any
// arithmetic.
//
// Sub-engines (one exported function each):
//
//	CheckAPI        exported API identical in every build configuration
//	CheckDispatch   vector-only code is reached only under supportsVectorizedEdwards;
//	                discovers the (vector, generic) sibling pairs
//	CheckSkeletons  skeleton normal forms of every scalar-multiplication routine:
//	                twin equality, Horner shape, add/sub polarity, width<->table,
//	                lookup-table constructors, entry-point facts
//	CheckClones     the four ABGLSV-Pornin prologues and the two passes of
//	                lattice.FindShortVector are clones modulo type renaming
//	CheckDuality    Sub* mixed-addition formulas are the sign-dual of their Add* twins
//	CheckUniform    limb-wise field operations use one template for every limb
//	CheckMaskedScan constant-time table lookups scan every entry exactly once
//
// Rules resolve *declared* objects (functions, methods, types, fields,
// package-level variables) by name; they never look at spellings of locals,
// at source text or at line numbers.
package esib

import (
	"fmt"
	"go/types"
	"sort"
	"strings"

	"golang.org/x/tools/go/ssa"

	"voicheck/load"
)

// curveRel etc. are the module-relative paths of the packages E-SIB anchors in.
const (
	curveRel   = "curve"
	scalarRel  = "curve/scalar"
	fieldRel   = "internal/field"
	latticeRel = "internal/lattice"
	subtleRel  = "internal/subtle"
)

// flagName is the dispatch flag (a variable on amd64, the constant false in
// the generic configurations); stubErrName is the error value every
// vector-only stub panics with.
const (
	flagName    = "supportsVectorizedEdwards"
	stubErrName = "errVectorNotSupported"
)

// funcKey is a configuration-independent name of an ssa function:
// "curve.(*extendedPoint).Double", "curve.edwardsMul", "curve.f$1".
func funcKey(fn *ssa.Function) string {
	if fn == nil {
		return "<nil>"
	}
	if fn.Parent() != nil {
		return funcKey(fn.Parent()) + strings.TrimPrefix(fn.Name(), fn.Parent().Name())
	}
	if o, ok := fn.Object().(*types.Func); ok && o != nil {
		return objKey(o)
	}
	return load.FuncName(fn)
}

// objKey names a declared function or method relative to the module:
// "curve.(*EdwardsPoint).Mul".
func objKey(o *types.Func) string {
	if o == nil {
		return "<nil>"
	}
	s := o.FullName()
	s = strings.ReplaceAll(s, load.Module+"/", "")
	// (*github.com/...curve.T).M has been reduced to (*curve.T).M; make the
	// package prefix uniform: curve.(*T).M
	if strings.HasPrefix(s, "(") {
		end := strings.Index(s, ")")
		if end > 0 {
			recv := s[1:end]
			star := ""
			if strings.HasPrefix(recv, "*") {
				star, recv = "*", recv[1:]
			}
			if dot := strings.LastIndex(recv, "."); dot >= 0 {
				return recv[:dot] + ".(" + star + recv[dot+1:] + ")" + s[end+1:]
			}
		}
	}
	return s
}

// shortKey drops the package prefix of a funcKey for printing.
func shortKey(k string) string {
	if i := strings.Index(k, "."); i >= 0 && !strings.HasPrefix(k, "(") {
		return k[i+1:]
	}
	return k
}

// topLevel returns the outermost enclosing declared function of fn.
func topLevel(fn *ssa.Function) *ssa.Function {
	for fn.Parent() != nil {
		fn = fn.Parent()
	}
	return fn
}

// staticCallee returns the statically known callee of a call instruction
// (function, method or immediately known closure), or nil.
func staticCallee(instr ssa.Instruction) *ssa.Function {
	ci, ok := instr.(ssa.CallInstruction)
	if !ok {
		return nil
	}
	return ci.Common().StaticCallee()
}

// namedOf returns the named type behind t after stripping pointers.
func namedOf(t types.Type) *types.Named {
	for {
		switch u := t.(type) {
		case *types.Pointer:
			t = u.Elem()
			continue
		case *types.Named:
			return u
		case *types.Alias:
			t = types.Unalias(u)
			continue
		}
		return nil
	}
}

// typeName returns the bare name of the named type behind t ("" if none).
func typeName(t types.Type) string {
	if n := namedOf(t); n != nil {
		return n.Obj().Name()
	}
	return ""
}

// isNamed reports whether t (after pointers) is the named type rel.name.
func isNamed(t types.Type, rel, name string) bool {
	n := namedOf(t)
	return n != nil && n.Obj().Name() == name && n.Obj().Pkg() != nil && load.Rel(n.Obj().Pkg()) == rel
}

// recvNamed returns the receiver's named type of a method, nil for functions.
func recvNamed(f *types.Func) *types.Named {
	if f == nil {
		return nil
	}
	sig, _ := f.Type().(*types.Signature)
	if sig == nil || sig.Recv() == nil {
		return nil
	}
	return namedOf(sig.Recv().Type())
}

func sortedKeys[V any](m map[string]V) []string {
	out := make([]string, 0, len(m))
	for k := range m {
		out = append(out, k)
	}
	sort.Strings(out)
	return out
}

func sprintf(format string, a ...any) string { return fmt.Sprintf(format, a...) }
