package esib

import (
	"go/token"
	"go/types"
	"sort"
	"strings"
)

// ---------------------------------------------------------------------------
// Normalisation of the raw event tree (DESIGN E-SIB "Normalisations"):
//
//  1. representation conversions are erased (the result of an operation is
//     forwarded to the location it is finally converted into);
//  2. guards and loops without any event are dropped; unknown guards / loop
//     shapes around events are PROBLEMS (never skipped);
//  3. constant-trip loops that do not use their counter are unrolled;
//  4. adjacent doublings of one accumulator are summed: D1;D1;D1;D1 = D4;
//  5. doublings of an accumulator known to hold the identity are erased, and a
//     loop entered with the identity whose body starts with a doubling has its
//     first iteration peeled (so `I; [D4; U(i)]_{63..0}` and the hand-unrolled
//     `I; U(63); [D4; U(i)]_{62..0}` print identically);
//  6. accumulators are named by class (union-find over conversions and
//     "result = first operand ∘ ..."), loop variables by nesting depth,
//     recodings and merged integers by order of appearance.
//
// Insensitivity to behaviour-preserving spellings (the normal form must be the
// same for both; see also skelcond.go and the extractor):
//
//   - guards are kept in condition normal form: negations pushed inward (De
//     Morgan, !(a==b) = a!=b, !(a<b) = a>=b), comparisons brought to one side
//     (a<b = b>a = b-a>0, a<=b = b-a+1>0), operands of &&/|| sorted, b==true /
//     b!=false / a named bool local = the condition itself;
//   - `if c {A} else {B}` = `if !c {B} else {A}` (positive literal first),
//     `if c {} else {B}` = `if !c {B}`, `if a {if b {A}}` = `if a && b {A}`,
//     switch = if/else-if chain;
//   - every case analysis on the sign of ONE digit — any nesting, polarity or
//     order of d>0, d<0, d!=0, d==0, d>=0, d<=0 guards, adjacent ifs on the
//     same digit, a flag guard inside or outside — becomes the canonical
//     chain `if d>0 {P} else {if d<0 {N} else {if d==0 {Z}}}` (signSwitch);
//   - a counted loop is one node whether written with three clauses (any
//     spelling of the bound: i<n, n>i, !(i>=n), i<=n-1; i++, i+=1, i=i+1),
//     with `range x`, `range x` with a value variable (v = x[i]) or over a
//     constant-length array / array slice;
//   - calls of small unexported helpers of the package are inlined (bounded
//     depth, no early return, no access to point coordinates); delegation
//     targets (dispatchers, pair members, routines) stay `call` events;
//   - runs of adjacent declarations (recodings, table constructions, loops of
//     them) are sorted: they commute with each other, not with group operations.
//
// NOT normalised (known limits): the order of two additions into one
// accumulator; roles of locals of one type are numbered by first use, so
// swapping two independent statements that first use two such locals of ONE
// twin renames them; which of several equal-length slices bounds a term loop.
// ---------------------------------------------------------------------------

func isGroupOp(k string) bool {
	switch k {
	case "I", "D", "add", "sub", "neg", "copy", "load", "other":
		return true
	}
	return false
}

func isEvent(n *node) bool {
	switch n.kind {
	case "I", "D", "add", "sub", "neg", "copy", "load", "other", "recode", "table", "tstore", "call", "scan", "ret-table", "unsupported":
		return true
	case "if":
		return hasEvents(n.body) || hasEvents(n.els)
	case "loop", "each", "badloop":
		return hasEvents(n.body)
	}
	return false
}

func hasEvents(list []*node) bool {
	for _, n := range list {
		if isEvent(n) {
			return true
		}
	}
	return false
}

func hasGroupOps(list []*node) bool {
	for _, n := range list {
		if isGroupOp(n.kind) || n.kind == "call" {
			return true
		}
		if hasGroupOps(n.body) || hasGroupOps(n.els) {
			return true
		}
	}
	return false
}

func samePlace(a, b *place) bool {
	if a == nil || b == nil {
		return false
	}
	if a.root != b.root || a.elem != b.elem {
		return false
	}
	if (a.idx == nil) != (b.idx == nil) {
		return false
	}
	if a.idx != nil && !a.idx.equal(b.idx) {
		return false
	}
	return true
}

func (n *node) result() *place {
	if n.final != nil {
		return n.final
	}
	return n.dst
}

// simplify performs steps 1-3 (bottom-up).
func (x *extractor) simplify(list []*node, inLoop bool) []*node {
	var out []*node
	var last *node
	for _, n := range list {
		switch n.kind {
		case "conv":
			if last != nil && n.a != nil && samePlace(n.a, last.result()) {
				last.final = n.dst
			}
			continue
		case "panic", "ret":
			continue
		case "branch":
			if inLoop {
				out = append(out, n)
			}
			continue
		case "if":
			m := *n
			m.body = x.simplify(n.body, inLoop)
			m.els = x.simplify(n.els, inLoop)
			if !hasEvents(m.body) && !hasEvents(m.els) {
				// a guard around nothing (error checks that panic, bookkeeping)
				if onlyBranches(m.body) && onlyBranches(m.els) && (len(m.body) > 0 || len(m.els) > 0) && inLoop {
					out = append(out, &m)
				}
				continue
			}
			if m.cond.kind == "unknown" && (hasGroupOps(m.body) || hasGroupOps(m.els)) {
				x.problem(n.pos, "unrecognised guard around group operations")
			}
			if m.cond.kind == "dig" {
				// case analysis on the sign of one digit: canonical sign switch,
				// merged with an adjacent one on the same digit
				group := []*node{&m}
				if k := len(out) - 1; k >= 0 && out[k].kind == "if" && out[k].cond.kind == "dig" && sameDigit(out[k].cond.dig, m.cond.dig) {
					group = []*node{out[k], &m}
					out = out[:k]
				}
				out = append(out, x.signSwitch(group, m.cond.dig, n.pos)...)
			} else {
				x.canonIf(&m)
				if d := switchDigit(m.body, m.els); d != nil {
					// a flag (or length) guard around sign switches on one digit:
					// the case analyses commute; the digit goes outermost
					out = append(out, x.signSwitch([]*node{&m}, d, n.pos)...)
				} else {
					out = append(out, &m)
				}
			}
			last = nil
			continue
		case "loop":
			m := *n
			m.body = x.simplify(n.body, true)
			m.body = dropBranchesIfIdle(m.body)
			if !hasEvents(m.body) {
				continue
			}
			if containsBranch(m.body) {
				x.problem(n.pos, "unrecognised loop shape: break/continue inside a loop that performs group operations")
			}
			// unroll a constant-trip loop that ignores its counter
			if f, ok1 := m.from.isConst(); ok1 && !m.excl {
				if t, ok2 := m.to.isConst(); ok2 && !mentionsAtom(x, m.body, m.v) {
					trips := (t-f)/m.step + 1
					if trips <= 0 {
						continue
					}
					if trips <= 16 {
						for i := int64(0); i < trips; i++ {
							out = append(out, m.body...)
						}
						last = nil
						continue
					}
				}
			}
			out = append(out, &m)
			last = nil
			continue
		case "each":
			m := *n
			m.body = x.simplify(n.body, true)
			m.body = dropBranchesIfIdle(m.body)
			if !hasEvents(m.body) {
				continue
			}
			if containsBranch(m.body) {
				x.problem(n.pos, "unrecognised loop shape: break/continue inside a loop that performs group operations")
			}
			out = append(out, &m)
			last = nil
			continue
		case "badloop":
			body := x.simplify(n.body, true)
			if hasEvents(body) {
				x.problem(n.pos, "unrecognised loop shape")
				m := *n
				m.body = body
				out = append(out, &m)
			}
			last = nil
			continue
		case "unsupported":
			x.problem(n.pos, "unsupported statement "+n.desc)
			continue
		case "other":
			x.problem(n.pos, "unclassified point operation "+n.callee)
		}
		m := *n
		out = append(out, &m)
		if isGroupOp(m.kind) {
			last = out[len(out)-1]
		} else {
			last = nil
		}
	}
	return out
}

// canonIf brings a guard to its canonical shape:
//
//	if c {} else {B}            =  if !c {B}
//	if c {A} else {B}           =  if !c {B} else {A}     (the positive literal comes first)
//	if a { if b {A} }           =  if a && b {A}
//
// (`if`/`else if` chains and switches are already the same tree.)
func (x *extractor) canonIf(m *node) {
	if m.cond == nil || m.cond.kind == "unknown" {
		return
	}
	switch {
	case len(m.body) == 0 && len(m.els) > 0,
		len(m.body) > 0 && len(m.els) > 0 && x.isNegativeCond(m.cond):
		m.cond = x.negate(m.cond)
		m.body, m.els = m.els, m.body
	}
	for len(m.els) == 0 && len(m.body) == 1 && m.body[0].kind == "if" && len(m.body[0].els) == 0 &&
		m.body[0].cond != nil && m.body[0].cond.kind != "unknown" {
		inner := m.body[0]
		m.cond = x.join("and", m.cond, inner.cond)
		m.body = inner.body
	}
}

// signSwitch rewrites a statement list that starts a case analysis on the
// sign of digit d — any tree of guards d>0, d<0, d!=0, d==0, d>=0, d<=0, in any
// nesting, polarity or arm order — as the canonical chain
//
//	if d>0 {P} else {if d<0 {N} else {if d==0 {Z}}}
//
// (empty cases omitted), where P, N, Z are the statements executed for a
// positive, negative and zero digit.  Recoded digits are never written after
// the recoding, so the residual of a guard under a known sign is exact.
func (x *extractor) signSwitch(list []*node, d *sval, pos token.Pos) []*node {
	type arm struct {
		rel  string
		body []*node
	}
	var arms []arm
	for _, a := range []struct {
		rel  string
		sign int
	}{{">0", 4}, {"<0", 1}, {"==0", 2}} {
		if b := x.specialise(list, d, a.sign); len(b) > 0 {
			arms = append(arms, arm{a.rel, b})
		}
	}
	var chain []*node
	for i := len(arms) - 1; i >= 0; i-- {
		dc := *d
		chain = []*node{{kind: "if", pos: pos, cond: &cond{kind: "dig", dig: &dc, rel: arms[i].rel}, body: arms[i].body, els: chain}}
	}
	return chain
}

// switchDigit returns d if every non-empty branch is exactly one sign switch
// on the same digit d.
func switchDigit(branches ...[]*node) *sval {
	var d *sval
	for _, b := range branches {
		if len(b) == 0 {
			continue
		}
		if len(b) != 1 || b[0].kind != "if" || b[0].cond == nil || b[0].cond.kind != "dig" {
			return nil
		}
		if d != nil && !sameDigit(d, b[0].cond.dig) {
			return nil
		}
		d = b[0].cond.dig
	}
	return d
}

// restrict evaluates c under the knowledge that digit d has the given sign
// (bit set as in signSet).  known reports that c is decided.
func (x *extractor) restrict(c *cond, d *sval, sign int) (res *cond, known, val bool) {
	switch c.kind {
	case "dig":
		if sameDigit(c.dig, d) {
			return nil, true, signSet(c.rel)&sign != 0
		}
	case "and", "or":
		var rest []*cond
		for _, q := range c.sub {
			r, k, v := x.restrict(q, d, sign)
			switch {
			case k && v == (c.kind == "or"):
				return nil, true, v // a true operand of or / a false operand of and
			case k:
			default:
				rest = append(rest, r)
			}
		}
		if len(rest) == 0 {
			return nil, true, c.kind == "and"
		}
		return x.join(c.kind, rest...), false, false
	}
	return c, false, false
}

// specialise returns the statements of list executed when digit d has the
// given sign.
func (x *extractor) specialise(list []*node, d *sval, sign int) []*node {
	var out []*node
	for _, n := range list {
		if n.kind == "if" && n.cond != nil {
			r, known, val := x.restrict(n.cond, d, sign)
			if known {
				if val {
					out = append(out, x.specialise(n.body, d, sign)...)
				} else {
					out = append(out, x.specialise(n.els, d, sign)...)
				}
				continue
			}
			m := *n
			m.cond = r
			m.body, m.els = x.specialise(n.body, d, sign), x.specialise(n.els, d, sign)
			if len(m.body)+len(m.els) == 0 {
				continue
			}
			x.canonIf(&m)
			out = append(out, &m)
			continue
		}
		if len(n.body)+len(n.els) == 0 {
			out = append(out, n)
			continue
		}
		m := *n
		m.body, m.els = x.specialise(n.body, d, sign), x.specialise(n.els, d, sign)
		if len(m.body)+len(m.els) == 0 {
			continue
		}
		out = append(out, &m)
	}
	return out
}

func onlyBranches(list []*node) bool {
	for _, n := range list {
		if n.kind != "branch" {
			return false
		}
	}
	return true
}

func containsBranch(list []*node) bool {
	for _, n := range list {
		if n.kind == "branch" || containsBranch(n.body) || containsBranch(n.els) {
			return true
		}
	}
	return false
}

// dropBranchesIfIdle removes break/continue bookkeeping from a loop body that
// has no events (so that the loop itself can be dropped).
func dropBranchesIfIdle(list []*node) []*node {
	if hasEvents(list) {
		return list
	}
	return nil
}

func mentionsAtom(x *extractor, list []*node, id string) bool {
	m := func(l *lin) bool { return l != nil && l.mentions(id, x.sym.atoms) }
	mp := func(p *place) bool {
		return p != nil && (m(p.idx) || (p.didx != nil && (m(p.didx.pos) || m(p.didx.term))))
	}
	for _, n := range list {
		if m(n.k) || m(n.from) || m(n.to) || mp(n.dst) || mp(n.a) || mp(n.b) || mp(n.final) {
			return true
		}
		if n.entry != nil {
			if m(n.entry.term) {
				return true
			}
			if a := n.entry.arg; a != nil && (m(a.pos) || m(a.term) || m(a.n)) {
				return true
			}
		}
		if n.cond != nil && condMentions(n.cond, m) {
			return true
		}
		if mentionsAtom(x, n.body, id) || mentionsAtom(x, n.els, id) {
			return true
		}
	}
	return false
}

func condMentions(c *cond, m func(*lin) bool) bool {
	if m(c.n) || (c.dig != nil && (m(c.dig.pos) || m(c.dig.term))) {
		return true
	}
	for _, q := range c.sub {
		if condMentions(q, m) {
			return true
		}
	}
	return false
}

func substCond(c *cond, sl func(*lin) *lin, sd func(*sval) *sval) *cond {
	n := *c
	n.n = sl(c.n)
	n.dig = sd(c.dig)
	n.sub = nil
	for _, q := range c.sub {
		n.sub = append(n.sub, substCond(q, sl, sd))
	}
	return &n
}

// substNodes returns a deep copy of list with atom id replaced by r.
func (x *extractor) substNodes(list []*node, id string, r *lin) []*node {
	sl := func(l *lin) *lin { return x.sym.subst(l, id, r) }
	sd := func(d *sval) *sval {
		if d == nil {
			return nil
		}
		n := *d
		n.pos, n.term, n.n = sl(d.pos), sl(d.term), sl(d.n)
		return &n
	}
	sp := func(p *place) *place {
		if p == nil {
			return nil
		}
		n := *p
		n.idx = sl(p.idx)
		n.didx = sd(p.didx)
		return &n
	}
	var out []*node
	for _, n := range list {
		m := *n
		m.k, m.from, m.to = sl(n.k), sl(n.from), sl(n.to)
		m.dst, m.a, m.b, m.final = sp(n.dst), sp(n.a), sp(n.b), sp(n.final)
		if n.entry != nil {
			e := *n.entry
			e.term = sl(n.entry.term)
			e.arg = sd(n.entry.arg)
			m.entry = &e
		}
		if n.cond != nil {
			m.cond = substCond(n.cond, sl, sd)
		}
		m.body = x.substNodes(n.body, id, r)
		m.els = x.substNodes(n.els, id, r)
		out = append(out, &m)
	}
	return out
}

// mergeD sums adjacent doublings of one accumulator class (recursively).
func (x *extractor) mergeD(list []*node) []*node {
	var out []*node
	for _, n := range list {
		m := *n
		m.body, m.els = x.mergeD(n.body), x.mergeD(n.els)
		if m.kind == "D" && len(out) > 0 {
			if p := out[len(out)-1]; p.kind == "D" && p.dstAcc == m.aAcc && p.dstAcc != nil {
				q := *p
				q.k = p.k.add(m.k)
				q.dst, q.final = m.dst, m.final
				out[len(out)-1] = &q
				continue
			}
		}
		out = append(out, &m)
	}
	return out
}

type identState map[types.Object]bool

func (s identState) copy() identState {
	n := identState{}
	for k, v := range s {
		n[k] = v
	}
	return n
}

// written collects the accumulator classes modified in list.
func (x *extractor) written(list []*node, into map[types.Object]bool) {
	for _, n := range list {
		if isGroupOp(n.kind) && n.dstAcc != nil {
			into[n.dstAcc] = true
		}
		if n.kind == "call" {
			into[nil] = true
		}
		x.written(n.body, into)
		x.written(n.els, into)
	}
}

// firstGroupOp returns the first group operation executed by list (nil if a
// guard or loop comes first).
func firstGroupOp(list []*node) *node {
	for _, n := range list {
		if isGroupOp(n.kind) {
			return n
		}
		if n.kind == "recode" || n.kind == "table" || n.kind == "scan" {
			continue
		}
		return nil
	}
	return nil
}

// identPass performs step 5.
func (x *extractor) identPass(list []*node, st identState) []*node {
	var out []*node
	for _, n := range list {
		switch n.kind {
		case "I":
			if n.dstAcc != nil {
				st[n.dstAcc] = true
			}
			out = append(out, n)
		case "D":
			if n.aAcc != nil && st[n.aAcc] {
				// 2^k * identity = identity
				continue
			}
			out = append(out, n)
		case "add", "sub", "neg", "copy", "load", "other":
			if n.dstAcc != nil {
				st[n.dstAcc] = false
			}
			out = append(out, n)
		case "call":
			for k := range st {
				st[k] = false
			}
			out = append(out, n)
		case "if":
			m := *n
			s1, s2 := st.copy(), st.copy()
			m.body = x.identPass(n.body, s1)
			m.els = x.identPass(n.els, s2)
			for k := range st {
				st[k] = s1[k] && s2[k]
			}
			for k, v := range s1 {
				if _, ok := st[k]; !ok {
					st[k] = v && s2[k]
				}
			}
			out = append(out, &m)
		case "loop", "each", "badloop":
			m := *n
			w := map[types.Object]bool{}
			x.written(n.body, w)
			if n.kind == "loop" && (n.step == 1 || n.step == -1) && !n.excl {
				if f := firstGroupOp(n.body); f != nil && f.kind == "D" {
					if c := f.aAcc; c != nil && st[c] {
						// peel the first iteration
						peeled := x.substNodes(n.body, n.v, n.from)
						out = append(out, x.identPass(peeled, st)...)
						m.from = n.from.addConst(n.step)
					}
				}
			}
			if w[nil] {
				for k := range st {
					st[k] = false
				}
			}
			for c := range w {
				if c != nil {
					st[c] = false
				}
			}
			m.body = x.identPass(n.body, st.copy())
			out = append(out, &m)
		default:
			out = append(out, n)
		}
	}
	return out
}

// recodeOnly reports whether n only recodes scalars (possibly in loops over
// the terms and under length guards).
func recodeOnly(n *node) bool {
	switch n.kind {
	case "recode":
		return true
	case "loop", "if":
		if len(n.body)+len(n.els) == 0 {
			return false
		}
		for _, b := range n.body {
			if !recodeOnly(b) {
				return false
			}
		}
		for _, b := range n.els {
			if !recodeOnly(b) {
				return false
			}
		}
		return true
	}
	return false
}

// mentionsAcc reports whether n reads or writes the location root / the
// accumulator acc.
func mentionsAcc(n *node, root, acc types.Object) bool {
	for _, p := range []*place{n.dst, n.a, n.b, n.final} {
		if p != nil && (p.root == root || p.root == acc) {
			return true
		}
	}
	for _, a := range []types.Object{n.dstAcc, n.aAcc, n.bAcc} {
		if a != nil && (a == acc || a == root) {
			return true
		}
	}
	if n.kind == "call" || n.kind == "other" || n.kind == "ret-table" || n.kind == "badloop" || n.kind == "unsupported" {
		return true // opaque: may do anything
	}
	for _, b := range n.body {
		if mentionsAcc(b, root, acc) {
			return true
		}
	}
	for _, b := range n.els {
		if mentionsAcc(b, root, acc) {
			return true
		}
	}
	return false
}

// floatIndependent moves, inside every statement list, the events whose
// position relative to their neighbours is unobservable to a canonical place:
//
//   - a recoding reads a SCALAR and writes a fresh digit array: it can alias
//     neither a point nor a table, so its order relative to group operations and
//     table constructions is irrelevant.  Recodings (and loops / length guards
//     of nothing but recodings) move to the front of their list, keeping their
//     relative order (sortDecls then orders them).  An opaque call is never
//     crossed (it may write a scalar).
//   - `X.Identity()` on a FRESH LOCAL X (a point variable declared by value in
//     this function, not a parameter, not reached through a pointer): nothing
//     else can denote X, so the reset may float anywhere before the first use of
//     X; it is moved down to just before the first event that mentions X.
//
// What is NOT moved: the reset of an accumulator that is a parameter or is
// reached through a pointer (it may alias a point operand) relative to table
// constructions and other reads of points — `out.Identity()` before the tables
// of the input points are built is a different program when out is one of them.
func (x *extractor) floatIndependent(list []*node) []*node {
	var work []*node
	for _, n := range list {
		if len(n.body)+len(n.els) > 0 {
			m := *n
			m.body, m.els = x.floatIndependent(n.body), x.floatIndependent(n.els)
			n = &m
		}
		work = append(work, n)
	}
	// 1. recodings to the front (not across an opaque call)
	var out []*node
	seg := 0 // start of the current call-free segment in out
	for _, n := range work {
		switch {
		case n.kind == "call" || n.kind == "other" || n.kind == "unsupported" || n.kind == "badloop":
			out = append(out, n)
			seg = len(out)
		case recodeOnly(n):
			// insert after the recodings already at the front of the segment
			k := seg
			for k < len(out) && recodeOnly(out[k]) {
				k++
			}
			out = append(out, nil)
			copy(out[k+1:], out[k:])
			out[k] = n
		default:
			out = append(out, n)
		}
	}
	// 2. resets of fresh locals sink to their first use
	for i := len(out) - 1; i >= 0; i-- {
		n := out[i]
		if n.kind != "I" || n.dst == nil || n.dst.elem || !x.freshLocal(n.dst.root) {
			continue
		}
		k := i
		for k+1 < len(out) && !mentionsAcc(out[k+1], n.dst.root, n.dstAcc) {
			out[k] = out[k+1]
			k++
		}
		out[k] = n
	}
	return out
}

// freshLocal reports whether o is a point variable declared BY VALUE inside
// the function (not a parameter, not a pointer, not a range variable): no
// other expression of the function can denote it.
func (x *extractor) freshLocal(o types.Object) bool {
	if o == nil || !isLocalObj(o) {
		return false
	}
	if _, isParam := x.params[o]; isParam {
		return false
	}
	if _, aliased := x.alias[o]; aliased {
		return false
	}
	if _, isPtr := o.Type().(*types.Pointer); isPtr {
		return false
	}
	if _, ranged := x.locRole[o]; ranged && strings.HasPrefix(x.locRole[o], "each(") {
		return false
	}
	// declared in this function's body (helpers' parameters are excluded above by alias / type)
	return x.kn.isPointType(o.Type()) && o.Pos() >= x.decl.Body.Pos() && o.Pos() <= x.decl.Body.End()
}

// sortDecls orders every run of adjacent declarations (recodings, table
// constructions, and loops / length guards that contain nothing else): they
// read scalars and points, write only fresh locals, and so commute with each
// other — but not with a group operation, which may write a point they read
// (a run never extends across one).  The sort key is the printed form of the
// declaration under a fresh printer, which does not depend on the context.
func (x *extractor) sortDecls(list []*node) []*node {
	out := make([]*node, 0, len(list))
	for _, n := range list {
		if len(n.body)+len(n.els) > 0 {
			m := *n
			m.body, m.els = x.sortDecls(n.body), x.sortDecls(n.els)
			n = &m
		}
		out = append(out, n)
	}
	key := func(n *node) string {
		p := &printer{x: x, nm: newNamer(x.sym), classes: map[types.Object]int{}, recs: map[*recoding]int{}, canon: func(s string) string { return s }}
		return p.node(n)
	}
	for i := 0; i < len(out); {
		j := i
		for j < len(out) && declOnly(out[j]) {
			j++
		}
		if j-i > 1 {
			run := out[i:j]
			keys := map[*node]string{}
			for _, n := range run {
				keys[n] = key(n)
			}
			sort.SliceStable(run, func(a, b int) bool { return keys[run[a]] < keys[run[b]] })
		}
		if j == i {
			j++
		}
		i = j
	}
	return out
}

func (sk *Skeleton) normalize() {
	x := sk.x
	if x == nil {
		return
	}
	n := x.simplify(sk.raw, false)
	n = x.floatIndependent(n)
	n = x.sortDecls(n)
	n = x.mergeD(n)
	n = x.identPass(n, identState{})
	n = x.mergeD(n)
	sk.norm = n
	sk.Problems = sk.Problems[:0]
	for _, pr := range x.problems {
		sk.Problems = append(sk.Problems, x.kn.p.Pos(pr.pos)+": "+pr.msg)
	}
}

// --- printing --------------------------------------------------------------------

type printer struct {
	x       *extractor
	nm      *namer
	classes map[types.Object]int
	recs    map[*recoding]int
	depth   int
	canon   func(callee string) string
}

func (sk *Skeleton) newPrinter(canon func(string) string) *printer {
	if canon == nil {
		canon = func(s string) string { return s }
	}
	return &printer{x: sk.x, nm: newNamer(sk.x.sym), classes: map[types.Object]int{}, recs: map[*recoding]int{}, canon: canon}
}

func (p *printer) place(pl *place, acc types.Object) string {
	if pl == nil {
		return "?"
	}
	if acc == nil {
		acc = pl.root
	}
	k, ok := p.classes[acc]
	if !ok {
		k = len(p.classes)
		p.classes[acc] = k
	}
	s := sprintf("A%d", k)
	if pl.elem {
		switch {
		case pl.idx != nil:
			s += "[" + p.nm.lin(pl.idx) + "]"
		case pl.didx != nil:
			s += "[" + p.digit(pl.didx) + "]"
		default:
			s += "[?]"
		}
		if r, ok := p.x.fills[pl.root]; ok {
			s += "<" + r + ">"
		}
	}
	return s
}

func (p *printer) rec(r *recoding) string {
	k, ok := p.recs[r]
	if !ok {
		k = len(p.recs)
		p.recs[r] = k
	}
	return sprintf("R%d", k)
}

func (p *printer) recDecl(r *recoding) string {
	s := r.kind
	if r.w != nil {
		s += "(" + p.nm.lin(r.w) + ")"
	}
	return s + "(" + r.src + ")"
}

func (p *printer) digit(d *sval) string {
	if d == nil {
		return "?"
	}
	if d.k == svInt {
		return p.nm.lin(d.n)
	}
	s := p.rec(d.rec)
	if d.term != nil {
		s += "[" + p.nm.lin(d.term) + "]"
	}
	s = "d(" + s + "," + p.nm.lin(d.pos) + ")"
	if d.neg {
		s = "-" + s
	}
	if d.off != 0 {
		s += sprintf("%+d", d.off)
	}
	return s
}

func (p *printer) table(t *tableRef, term *lin) string {
	s := t.cls.String() + "(" + t.src + ")"
	if term != nil {
		s += "[" + p.nm.lin(term) + "]"
	}
	return s
}

func (p *printer) addend(n *node) string {
	if n.entry != nil {
		return "L(" + p.table(n.entry.tbl, n.entry.term) + "," + p.digit(n.entry.arg) + ")"
	}
	return p.place(n.b, n.bAcc)
}

func (p *printer) cond(c *cond) string {
	var s string
	switch c.kind {
	case "dig":
		s = p.digit(c.dig) + c.rel
	case "flag":
		s = "flag(" + c.flag + ")"
		if c.not {
			s = "!" + s
		}
	case "int":
		s = p.nm.lin(c.n) + c.rel
	case "and", "or":
		var parts []string
		for _, q := range c.sub {
			parts = append(parts, p.cond(q))
		}
		s = "(" + strings.Join(parts, map[string]string{"and": " && ", "or": " || "}[c.kind]) + ")"
	default:
		s = "?"
	}
	return s
}

func (p *printer) nodes(list []*node) string {
	var parts []string
	for _, n := range list {
		parts = append(parts, p.node(n))
	}
	return strings.Join(parts, "; ")
}

func (p *printer) node(n *node) string {
	switch n.kind {
	case "I":
		return p.place(n.result(), n.dstAcc) + "=0"
	case "D":
		d, a := p.place(n.result(), n.dstAcc), p.place(n.a, n.aAcc)
		if d == a || !n.result().elem {
			return d + "*=2^" + p.nm.lin(n.k)
		}
		return d + "=" + a + "*2^" + p.nm.lin(n.k)
	case "add", "sub":
		op := "+"
		if n.kind == "sub" {
			op = "-"
		}
		d := p.place(n.result(), n.dstAcc)
		a := "?"
		if n.a != nil {
			a = p.place(n.a, n.aAcc)
		}
		if d == a || (!n.result().elem && (n.a == nil || !n.a.elem)) {
			return d + op + "=" + p.addend(n)
		}
		return d + "=" + a + op + p.addend(n)
	case "neg":
		return p.place(n.result(), n.dstAcc) + "=-" + p.place(n.a, n.aAcc)
	case "copy":
		return p.place(n.result(), n.dstAcc) + ":=" + p.place(n.a, n.aAcc)
	case "load":
		return p.place(n.result(), n.dstAcc) + ":=L(" + p.table(n.entry.tbl, n.entry.term) + "," + p.digit(n.entry.arg) + ")"
	case "recode":
		return p.rec(n.rec) + ":=" + p.recDecl(n.rec)
	case "table":
		return "table " + p.table(n.tbl, nil)
	case "tstore":
		return "tables[" + p.nm.lin(n.k) + "]:=" + p.table(n.tbl, nil)
	case "ret-table":
		return "as " + n.desc
	case "scan":
		var srcs []string
		for _, d := range n.srcDigs {
			k := p.rec(d.rec)
			if d.term != nil {
				k += "[]"
			}
			srcs = append(srcs, k)
		}
		sort.Strings(srcs)
		p.nm.names[n.v] = "top"
		return "top:=scan(" + strings.Join(srcs, ",") + " in " + p.nm.lin(n.from) + ".." + p.nm.lin(n.to) + ")"
	case "call":
		return "call " + shortKey(p.canon(n.callee)) + "(" + strings.Join(n.args, ",") + ")"
	case "other":
		return "other:" + n.callee
	case "branch":
		return n.desc
	case "if":
		s := "if " + p.cond(n.cond) + " {" + p.nodes(n.body) + "}"
		if len(n.els) > 0 {
			s += " else {" + p.nodes(n.els) + "}"
		}
		return s
	case "loop", "each", "badloop":
		name := sprintf("x%d", p.depth)
		old, had := p.nm.names[n.v], false
		if n.v != "" {
			_, had = p.nm.names[n.v]
			p.nm.names[n.v] = name
		}
		var head string
		switch n.kind {
		case "loop":
			head = "for " + name + "=" + p.nm.lin(n.from) + ".."
			if n.excl {
				head += "<"
			}
			head += p.nm.lin(n.to)
			if n.step != 1 && n.step != -1 {
				head += sprintf(" step %d", n.step)
			}
		case "each":
			head = "each(" + n.over + ")"
		default:
			head = "loop?"
		}
		p.depth++
		body := p.nodes(n.body)
		p.depth--
		if n.v != "" {
			if had {
				p.nm.names[n.v] = old
			} else {
				delete(p.nm.names, n.v)
			}
		}
		return head + " {" + body + "}"
	}
	return n.kind
}

// print renders the normal form.
func (sk *Skeleton) print(canon func(string) string) string {
	if sk.x == nil {
		return ""
	}
	return sk.newPrinter(canon).nodes(sk.norm)
}
