package esib

import (
	"go/ast"
	"go/constant"
	"go/token"
	"go/types"
	"sort"
	"strconv"
	"strings"
)

// ---------------------------------------------------------------------------
// Condition normal form.
//
// A guard is abstracted to a boolean formula over three kinds of literals
//
//	dig   d ⋈ 0    the sign of one recoded digit          rel ∈ {>0 <0 !=0 ==0 >=0 <=0}
//	int   n ⋈ 0    a bookkeeping integer (lin)            rel ∈ {>0 ==0 !=0}
//	flag  [!]f     a boolean role (parameter, call result)
//
// combined with and / or.  The formula is kept in negation normal form:
// negations are pushed through and/or (De Morgan) into the literals, where a
// comparison absorbs them (!(a == b) = a != b, !(a < b) = a >= b) and only a
// flag keeps a `not`.  Comparisons are brought to one side (a < b = b-a > 0,
// a <= b = b-a+1 > 0 over the integers), the sign of an (in)equation n ==/!= 0
// is canonical, and the operands of and/or are sorted by a key that does not
// depend on their polarity.  Consequently
//
//	a != 0 || b != 0      !(a == 0 && b == 0)      b != 0 || !(a == 0)
//	i < n                 n > i       !(i >= n)    i <= n-1
//
// have the same normal form.  Nothing here looks at spellings: literals are
// built from the abstract values of the extractor.
// ---------------------------------------------------------------------------

func negRel(rel string) string {
	switch rel {
	case ">0":
		return "<=0"
	case "<=0":
		return ">0"
	case "<0":
		return ">=0"
	case ">=0":
		return "<0"
	case "==0":
		return "!=0"
	case "!=0":
		return "==0"
	}
	return rel
}

// mirrorRel is the relation satisfied by -v when v satisfies rel.
func mirrorRel(rel string) string {
	switch rel {
	case ">0":
		return "<0"
	case "<0":
		return ">0"
	case ">=0":
		return "<=0"
	case "<=0":
		return ">=0"
	}
	return rel
}

func relOfTok(op token.Token) string {
	switch op {
	case token.LSS:
		return "<0"
	case token.GTR:
		return ">0"
	case token.LEQ:
		return "<=0"
	case token.GEQ:
		return ">=0"
	case token.EQL:
		return "==0"
	case token.NEQ:
		return "!=0"
	}
	return ""
}

// atomOrderKey orders atoms independently of the order in which they were
// created wherever the atom has a structural identity (len of a role, a
// parameter, an opaque term); loop counters and merged locals fall back to
// their creation index (outer before inner).
func (s *symtab) atomOrderKey(id string) string {
	a := s.atoms[id]
	if a == nil {
		return "z:" + id
	}
	switch a.kind {
	case "len":
		return "a:len(" + a.label + ")"
	case "top":
		return "b:top(" + a.label + ")"
	case "op":
		var ks []string
		for _, x := range a.args {
			ks = append(ks, s.linOrderKey(x))
		}
		return "c:" + a.label + "(" + strings.Join(ks, ";") + ")"
	case "var":
		if strings.HasPrefix(a.label, "p") {
			return "d:" + a.label
		}
	}
	// creation index, zero padded (ids are <kind letter><n>)
	n, _ := strconv.Atoi(id[1:])
	return sprintf("e:%08d", n)
}

func (s *symtab) linOrderKey(l *lin) string {
	if l == nil {
		return "?"
	}
	var parts []string
	for id, k := range l.t {
		parts = append(parts, sprintf("%s*%d", s.atomOrderKey(id), k))
	}
	sort.Strings(parts)
	return sprintf("%s+%d", strings.Join(parts, "+"), l.c)
}

// positiveLead reports whether the coefficient of the first atom of l (in
// atomOrderKey order) is positive; a constant counts as positive iff >= 0.
func (s *symtab) positiveLead(l *lin) bool {
	best, bestK := "", int64(0)
	for id, k := range l.t {
		key := s.atomOrderKey(id)
		if best == "" || key < best {
			best, bestK = key, k
		}
	}
	if best == "" {
		return l.c >= 0
	}
	return bestK > 0
}

// intCond builds the literal  a op b  over bookkeeping integers.
func (x *extractor) intCond(a, b *lin, op token.Token) *cond {
	switch op {
	case token.GTR: // a-b > 0
		return &cond{kind: "int", n: a.sub(b), rel: ">0"}
	case token.LSS:
		return &cond{kind: "int", n: b.sub(a), rel: ">0"}
	case token.GEQ: // a-b >= 0  <=>  a-b+1 > 0
		return &cond{kind: "int", n: a.sub(b).addConst(1), rel: ">0"}
	case token.LEQ:
		return &cond{kind: "int", n: b.sub(a).addConst(1), rel: ">0"}
	case token.EQL, token.NEQ:
		n := a.sub(b)
		if !x.sym.positiveLead(n) {
			n = n.scale(-1)
		}
		return &cond{kind: "int", n: n, rel: relOfTok(op)}
	}
	return &cond{kind: "unknown"}
}

// digCond builds the literal  (±d + off) op c  for a recoded digit d.
func digCond(d *sval, c int64, op token.Token) *cond {
	rel := relOfTok(op)
	k := c - d.off // ±d op k
	base := *d
	base.off, base.neg = 0, false
	if d.neg {
		// -d rel k  <=>  d mirror(rel) -k
		rel, k = mirrorRel(rel), -k
	}
	switch {
	case k == 0:
	case k == 1 && rel == ">=0": // d >= 1
		rel = ">0"
	case k == 1 && rel == "<0": // d < 1
		rel = "<=0"
	case k == -1 && rel == "<=0": // d <= -1
		rel = "<0"
	case k == -1 && rel == ">0": // d > -1
		rel = ">=0"
	default:
		return &cond{kind: "unknown"}
	}
	return &cond{kind: "dig", dig: &base, rel: rel}
}

// negate returns the normal form of !c.
func (x *extractor) negate(c *cond) *cond {
	n := *c
	switch c.kind {
	case "dig":
		n.rel = negRel(c.rel)
	case "int":
		switch c.rel {
		case ">0": // !(n > 0)  <=>  -n >= 0  <=>  -n+1 > 0
			n.n = c.n.scale(-1).addConst(1)
		default:
			n.rel = negRel(c.rel)
		}
	case "flag":
		n.not = !c.not
	case "and", "or":
		n.kind = map[string]string{"and": "or", "or": "and"}[c.kind]
		n.sub = nil
		for _, s := range c.sub {
			n.sub = append(n.sub, x.negate(s))
		}
		x.sortSubs(&n)
	}
	return &n
}

// litKey identifies the literal of c up to its polarity.
func (x *extractor) litKey(c *cond) string {
	switch c.kind {
	case "dig":
		k := sprintf("1dig:%d", c.dig.rec.id)
		if c.dig.term != nil {
			k += "[" + x.sym.linOrderKey(c.dig.term) + "]"
		}
		return k + "@" + x.sym.linOrderKey(c.dig.pos)
	case "int":
		n := c.n
		if c.rel == ">0" && !x.sym.positiveLead(n) {
			n = n.scale(-1).addConst(1)
		}
		return "2int:" + x.sym.linOrderKey(n)
	case "flag":
		return "3flag:" + c.flag
	case "and", "or":
		var ks []string
		for _, s := range c.sub {
			ks = append(ks, x.litKey(s))
		}
		return "4(" + strings.Join(ks, ",") + ")"
	}
	return "9?"
}

func (x *extractor) sortSubs(c *cond) {
	sort.SliceStable(c.sub, func(i, j int) bool { return x.litKey(c.sub[i]) < x.litKey(c.sub[j]) })
}

// join builds and/or of the operands, flattening nested occurrences.
func (x *extractor) join(kind string, ops ...*cond) *cond {
	out := &cond{kind: kind}
	for _, o := range ops {
		if o.kind == "unknown" {
			// a formula with an unrecognised literal is unrecognised as a whole
			return &cond{kind: "unknown"}
		}
		if o.kind == kind {
			out.sub = append(out.sub, o.sub...)
		} else {
			out.sub = append(out.sub, o)
		}
	}
	if len(out.sub) == 1 {
		return out.sub[0]
	}
	x.sortSubs(out)
	return out
}

// isNegativeCond reports whether c is the "negative" member of the pair
// {c, !c}: `if c {A} else {B}` is then printed as `if !c {B} else {A}`.
func (x *extractor) isNegativeCond(c *cond) bool {
	switch c.kind {
	case "flag":
		return c.not
	case "dig":
		return c.rel == "==0" || c.rel == "<=0" || c.rel == ">=0"
	case "int":
		switch c.rel {
		case "!=0":
			return true
		case ">0":
			return !x.sym.positiveLead(c.n)
		}
	case "and", "or":
		if len(c.sub) > 0 {
			return x.isNegativeCond(c.sub[0])
		}
	}
	return false
}

func isBoolType(t types.Type) bool {
	if t == nil {
		return false
	}
	b, ok := t.Underlying().(*types.Basic)
	return ok && b.Info()&types.IsBoolean != 0
}

// boolConst returns the value of a constant boolean expression.
func (x *extractor) boolConst(e ast.Expr) (bool, bool) {
	if tv, ok := x.info.Types[e]; ok && tv.Value != nil && tv.Value.Kind() == constant.Bool {
		return constant.BoolVal(tv.Value), true
	}
	return false, false
}

// evCond abstracts a boolean expression to its condition normal form.
func (x *extractor) evCond(e ast.Expr) *cond {
	e = unparen(e)
	switch e := e.(type) {
	case *ast.UnaryExpr:
		if e.Op == token.NOT {
			return x.negate(x.evCond(e.X))
		}
	case *ast.BinaryExpr:
		switch e.Op {
		case token.LAND:
			return x.join("and", x.evCond(e.X), x.evCond(e.Y))
		case token.LOR:
			return x.join("or", x.evCond(e.X), x.evCond(e.Y))
		case token.LSS, token.GTR, token.LEQ, token.GEQ, token.EQL, token.NEQ:
			// b == true, b != false, ...
			if e.Op == token.EQL || e.Op == token.NEQ {
				if tv, ok := x.info.Types[e.X]; ok && isBoolType(tv.Type) {
					var other ast.Expr
					var val bool
					if v, ok := x.boolConst(e.Y); ok {
						other, val = e.X, v
					} else if v, ok := x.boolConst(e.X); ok {
						other, val = e.Y, v
					}
					if other == nil {
						x.ev(e.X)
						x.ev(e.Y)
						return &cond{kind: "unknown"}
					}
					c := x.evCond(other)
					if val != (e.Op == token.EQL) {
						c = x.negate(c)
					}
					return c
				}
			}
			a, b := x.ev(e.X), x.ev(e.Y)
			op := e.Op
			if b.k == svDigit && a.k == svInt {
				a, b, op = b, a, flipRel(op)
			}
			if a.k == svDigit && b.k == svInt {
				if c, ok := b.n.isConst(); ok {
					return digCond(a, c, op)
				}
			}
			if a.k == svInt && b.k == svInt {
				return x.intCond(a.n, b.n, op)
			}
			return &cond{kind: "unknown"}
		}
	}
	v := x.ev(e)
	if v.k == svBool {
		if v.cnd != nil {
			return v.cnd
		}
		return &cond{kind: "flag", flag: v.role, not: v.not}
	}
	return &cond{kind: "unknown"}
}

// signSet is the set of signs a digit can have under a guard: bit 0 negative,
// bit 1 zero, bit 2 positive.
func signSet(rel string) int {
	switch rel {
	case ">0":
		return 4
	case "<0":
		return 1
	case "!=0":
		return 5
	case "==0":
		return 2
	case ">=0":
		return 6
	case "<=0":
		return 3
	}
	return 7
}

// guardsOf returns the digit-sign literals that hold when c is true.
func guardsOf(c *cond) []*cond {
	switch c.kind {
	case "dig":
		return []*cond{c}
	case "and":
		var out []*cond
		for _, s := range c.sub {
			out = append(out, guardsOf(s)...)
		}
		return out
	}
	return nil
}
