package esib

import (
	"sort"
	"strings"
)

// lin is a symbolic integer: a constant plus a linear combination of atoms.
// Atoms are loop variables, merged variables (assigned on several paths,
// e.g. the Pippenger window w), len(slice) of a role, the result of a
// start-index scan, and opaque non-linear terms (1<<w, x/2, f(w)).  It is
// only used for bookkeeping quantities: loop bounds, digit positions, table
// and bucket indices, doubling counts.
type lin struct {
	c int64
	t map[string]int64 // atom id -> coefficient (never 0)
}

// atom describes one symbol.
type atom struct {
	id     string
	kind   string  // "loop", "var", "len", "top", "op"
	label  string  // len: role; op: operator / callee; var: debugging only
	args   []*lin  // op operands
	domain []int64 // var: the constants it may hold (empty = unknown)
}

func konst(c int64) *lin { return &lin{c: c} }

func (l *lin) isConst() (int64, bool) {
	if l == nil {
		return 0, false
	}
	return l.c, len(l.t) == 0
}

// single returns the atom id if l == 1*atom + c.
func (l *lin) single() (id string, c int64, ok bool) {
	if l == nil || len(l.t) != 1 {
		return "", 0, false
	}
	for k, v := range l.t {
		if v == 1 {
			return k, l.c, true
		}
	}
	return "", 0, false
}

func (l *lin) clone() *lin {
	n := &lin{c: l.c}
	if len(l.t) > 0 {
		n.t = make(map[string]int64, len(l.t))
		for k, v := range l.t {
			n.t[k] = v
		}
	}
	return n
}

func (l *lin) addScaled(m *lin, k int64) *lin {
	n := l.clone()
	n.c += k * m.c
	for a, v := range m.t {
		if n.t == nil {
			n.t = map[string]int64{}
		}
		n.t[a] += k * v
		if n.t[a] == 0 {
			delete(n.t, a)
		}
	}
	return n
}

func (l *lin) add(m *lin) *lin { return l.addScaled(m, 1) }
func (l *lin) sub(m *lin) *lin { return l.addScaled(m, -1) }
func (l *lin) scale(k int64) *lin {
	return konst(0).addScaled(l, k)
}
func (l *lin) addConst(k int64) *lin { n := l.clone(); n.c += k; return n }

func (l *lin) equal(m *lin) bool {
	if l == nil || m == nil {
		return l == m
	}
	d := l.sub(m)
	return d.c == 0 && len(d.t) == 0
}

// mentions reports whether atom id occurs in l (also inside opaque terms).
func (l *lin) mentions(id string, atoms map[string]*atom) bool {
	if l == nil {
		return false
	}
	for a := range l.t {
		if a == id {
			return true
		}
		if at := atoms[a]; at != nil {
			for _, x := range at.args {
				if x.mentions(id, atoms) {
					return true
				}
			}
		}
	}
	return false
}

// symtab owns the atoms of one function.
type symtab struct {
	atoms map[string]*atom
	n     int
	opKey map[string]string // structural key of an op atom -> id (hash-consing)
}

func newSymtab() *symtab { return &symtab{atoms: map[string]*atom{}, opKey: map[string]string{}} }

func (s *symtab) fresh(kind, label string) *atom {
	s.n++
	a := &atom{id: sprintf("%s%d", kind[:1], s.n), kind: kind, label: label}
	s.atoms[a.id] = a
	return a
}

func (s *symtab) atomLin(a *atom) *lin { return &lin{t: map[string]int64{a.id: 1}} }

// rawKey is a structural key of l over atom ids (stable within a function).
func (l *lin) rawKey() string {
	var parts []string
	for _, k := range sortedKeys(l.t) {
		parts = append(parts, sprintf("%d*%s", l.t[k], k))
	}
	return sprintf("%d+%s", l.c, strings.Join(parts, "+"))
}

// op returns the (hash-consed) opaque term label(args...), folding constants.
func (s *symtab) op(label string, args ...*lin) *lin {
	// constant folding of the integer operators used for bookkeeping
	allConst := true
	vals := make([]int64, len(args))
	for i, a := range args {
		v, ok := a.isConst()
		if !ok {
			allConst = false
		}
		vals[i] = v
	}
	if allConst {
		if v, ok := foldOp(label, vals); ok {
			return konst(v)
		}
	}
	var ks []string
	for _, a := range args {
		ks = append(ks, a.rawKey())
	}
	key := label + "(" + strings.Join(ks, ";") + ")"
	if id, ok := s.opKey[key]; ok {
		return s.atomLin(s.atoms[id])
	}
	a := s.fresh("op", label)
	a.args = args
	s.opKey[key] = a.id
	return s.atomLin(a)
}

func foldOp(label string, v []int64) (int64, bool) {
	if len(v) == 2 {
		switch label {
		case "*":
			return v[0] * v[1], true
		case "/":
			if v[1] != 0 {
				return v[0] / v[1], true
			}
		case "%":
			if v[1] != 0 {
				return v[0] % v[1], true
			}
		case "<<":
			if v[1] >= 0 && v[1] < 63 {
				return v[0] << uint(v[1]), true
			}
		case ">>":
			if v[1] >= 0 && v[1] < 63 {
				return v[0] >> uint(v[1]), true
			}
		case "&":
			return v[0] & v[1], true
		}
	}
	return 0, false
}

// eval evaluates l under an assignment of atoms; opaque terms are evaluated
// recursively, calls through fn (nil: unknown).
func (s *symtab) eval(l *lin, env map[string]int64, fn func(label string, args []int64) (int64, bool)) (int64, bool) {
	v := l.c
	for id, k := range l.t {
		if x, ok := env[id]; ok {
			v += k * x
			continue
		}
		a := s.atoms[id]
		if a == nil || a.kind != "op" {
			return 0, false
		}
		args := make([]int64, len(a.args))
		for i, x := range a.args {
			y, ok := s.eval(x, env, fn)
			if !ok {
				return 0, false
			}
			args[i] = y
		}
		y, ok := foldOp(a.label, args)
		if !ok && fn != nil {
			y, ok = fn(a.label, args)
		}
		if !ok {
			return 0, false
		}
		v += k * y
	}
	return v, true
}

// subst replaces atom id by r in l (also inside opaque terms).
func (s *symtab) subst(l *lin, id string, r *lin) *lin {
	if l == nil || !l.mentions(id, s.atoms) {
		return l
	}
	out := konst(l.c)
	for a, k := range l.t {
		if a == id {
			out = out.addScaled(r, k)
			continue
		}
		at := s.atoms[a]
		if at != nil && at.kind == "op" {
			changed := false
			args := make([]*lin, len(at.args))
			for i, x := range at.args {
				args[i] = s.subst(x, id, r)
				if args[i] != x {
					changed = true
				}
			}
			if changed {
				out = out.addScaled(s.op(at.label, args...), k)
				continue
			}
		}
		out = out.addScaled(&lin{t: map[string]int64{a: 1}}, k)
	}
	return out
}

// namer assigns canonical display names to atoms in order of first printing;
// loop variables are named by the printer when their loop is entered.
type namer struct {
	s     *symtab
	names map[string]string
	nvar  int
}

func newNamer(s *symtab) *namer { return &namer{s: s, names: map[string]string{}} }

func (n *namer) atomName(id string) string {
	if x, ok := n.names[id]; ok {
		return x
	}
	a := n.s.atoms[id]
	var name string
	switch {
	case a == nil:
		name = "?" + id
	case a.kind == "len":
		name = "len(" + a.label + ")"
	case a.kind == "op":
		var parts []string
		for _, x := range a.args {
			parts = append(parts, n.lin(x))
		}
		if len(parts) == 2 && !isIdentLabel(a.label) {
			name = "(" + parts[0] + a.label + parts[1] + ")"
		} else {
			name = a.label + "(" + strings.Join(parts, ",") + ")"
		}
		return name // not memoised: inner names may be bound later
	case a.kind == "top":
		name = "top(" + a.label + ")"
	case a.kind == "loop":
		name = "i" // a loop variable printed outside its loop (diagnostics only)
	default:
		name = sprintf("n%d", n.nvar)
		if len(a.domain) > 0 {
			name += sprintf("%v", a.domain)
		}
		n.nvar++
	}
	n.names[id] = name
	return name
}

func isIdentLabel(s string) bool {
	return s != "" && (s[0] == '_' || (s[0] >= 'a' && s[0] <= 'z') || (s[0] >= 'A' && s[0] <= 'Z'))
}

func (n *namer) lin(l *lin) string {
	if l == nil {
		return "?"
	}
	if len(l.t) == 0 {
		return sprintf("%d", l.c)
	}
	type term struct {
		name string
		k    int64
	}
	var ts []term
	for id, k := range l.t {
		ts = append(ts, term{n.atomName(id), k})
	}
	sort.Slice(ts, func(i, j int) bool { return ts[i].name < ts[j].name })
	var b strings.Builder
	for i, t := range ts {
		switch {
		case t.k == 1 && i == 0:
			b.WriteString(t.name)
		case t.k == 1:
			b.WriteString("+" + t.name)
		case t.k == -1:
			b.WriteString("-" + t.name)
		case t.k > 0 && i > 0:
			b.WriteString(sprintf("+%d*%s", t.k, t.name))
		default:
			b.WriteString(sprintf("%d*%s", t.k, t.name))
		}
	}
	if l.c > 0 {
		b.WriteString(sprintf("+%d", l.c))
	} else if l.c < 0 {
		b.WriteString(sprintf("%d", l.c))
	}
	return b.String()
}
